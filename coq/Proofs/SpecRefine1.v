(* Refinement of the specification-level parser (Impl/SpecParse.v) by the
   implementation model (Impl/Unpack.v).  Part 1: bytes and leaf values.
   - what the reference reader [read_varint_raw] / [read_raw_rec] reads, in terms of [wfv] / [varint_val];
   - the C decoders on those bytes compute [scalar_of];
   - the elements of a packed record: [parse_packed] computes [packed_elems], [count_packed_elements] counts them. *)
From Coq Require Import ZArith List Bool Lia ZifyBool.
From PBC Require Import Base.CInt Base.Bits Base.Bits2 Gen.LeafC Spec.Wire Spec.WireMsg Spec.WireRaw
     Impl.Desc Impl.Mem Impl.Enc Impl.WF Impl.Unpack Impl.Canon Impl.SpecParse.
From PBC Require Proofs.LeafSafe Proofs.LeafDec Proofs.PackedCount Proofs.PackedDec Proofs.ScanRec Proofs.SizePack.
Import ListNotations.
Local Open Scope Z_scope.

Ltac Zify.zify_post_hook ::= Z.div_mod_to_equations.

Local Notation bytes := LeafSafe.bytes.

(* ------------------------------------------------------------------ *)
(* 0. lists of bytes                                                    *)

Lemma bytes_nil : bytes [].
Proof. constructor. Qed.

Lemma bytes_cons_inv : forall b t, bytes (b :: t) -> 0 <= b < 256 /\ bytes t.
Proof. intros b t H. inversion H; subst. split; assumption. Qed.

Lemma bytes_app : forall a b, bytes a -> bytes b -> bytes (a ++ b).
Proof. intros a b Ha Hb. unfold LeafSafe.bytes in *. apply Forall_app. split; assumption. Qed.

Lemma bytes_app_inv : forall a b, bytes (a ++ b) -> bytes a /\ bytes b.
Proof. intros a b H. unfold LeafSafe.bytes in *. apply Forall_app in H. exact H. Qed.

Lemma bytes_in : forall d, bytes d -> forall b, In b d -> 0 <= b < 256.
Proof. intros d H. unfold LeafSafe.bytes in H. rewrite Forall_forall in H. exact H. Qed.

Lemma bytes_firstn : forall n d, bytes d -> bytes (firstn n d).
Proof.
  intros n d H. rewrite <- (firstn_skipn n d) in H. apply bytes_app_inv in H. exact (proj1 H).
Qed.

Lemma bytes_skipn : forall n d, bytes d -> bytes (skipn n d).
Proof.
  intros n d H. rewrite <- (firstn_skipn n d) in H. apply bytes_app_inv in H. exact (proj2 H).
Qed.

Lemma zlen_app : forall A (a b : list A), Mem.zlen (a ++ b) = Mem.zlen a + Mem.zlen b.
Proof. intros. unfold Mem.zlen. rewrite app_length. lia. Qed.

Lemma zlen_nonneg : forall A (a : list A), 0 <= Mem.zlen a.
Proof. intros. unfold Mem.zlen. lia. Qed.

Lemma skipn_app_exact : forall A (a b : list A), skipn (length a) (a ++ b) = b.
Proof. intros A a b. induction a as [|x a IH]; cbn [length skipn app]; [reflexivity | exact IH]. Qed.

Lemma firstn_app_exact : forall A (a b : list A), firstn (length a) (a ++ b) = a.
Proof. intros A a b. induction a as [|x a IH]; cbn [length firstn app]; [reflexivity | rewrite IH; reflexivity]. Qed.

Lemma skipn_zlen_app : forall A (a b : list A), skipn (Z.to_nat (Mem.zlen a)) (a ++ b) = b.
Proof. intros A a b. unfold Mem.zlen. rewrite Nat2Z.id. apply skipn_app_exact. Qed.

Lemma firstn_zlen_app : forall A (a b : list A), firstn (Z.to_nat (Mem.zlen a)) (a ++ b) = a.
Proof. intros A a b. unfold Mem.zlen. rewrite Nat2Z.id. apply firstn_app_exact. Qed.

Lemma varint_val_nonneg : forall l, 0 <= varint_val l.
Proof. induction l as [|b t IH]; cbn [varint_val]; lia. Qed.

Lemma wfv_nonempty : forall l, wfv l -> (1 <= length l)%nat.
Proof. intros [|b t] H; [contradiction | cbn [length]; lia]. Qed.

(* ------------------------------------------------------------------ *)
(* 1. the reference reader                                              *)

Lemma rvr_spec : forall k bs v raw r, bytes bs -> read_varint_raw k bs = Some (v, raw, r) ->
  wfv raw /\ bs = raw ++ r /\ v = varint_val raw /\ (length raw <= k)%nat /\ bytes raw /\ bytes r.
Proof.
  induction k as [|k IH]; intros bs v raw r HB H.
  - destruct bs; discriminate H.
  - destruct bs as [|b t]; [discriminate H|]. cbn [read_varint_raw] in H.
    destruct (bytes_cons_inv _ _ HB) as [Hb HBt].
    destruct (Z.ltb_spec b 128) as [Hlt|Hge].
    + inversion H; subst v raw r. cbn [wfv varint_val app length].
      split; [lia|]. split; [reflexivity|]. split; [lia|]. split; [lia|].
      split; [constructor; [exact Hb | constructor] | exact HBt].
    + destruct (read_varint_raw k t) as [[[v' raw'] r']|] eqn:Er; [|discriminate H].
      inversion H; subst v raw r.
      destruct (IH t v' raw' r' HBt Er) as (W & Eq & V & L & B1 & B2).
      split.
      { cbn [wfv]. destruct raw' as [|x raw']; [contradiction|]. split; [lia | exact W]. }
      split; [cbn [app]; rewrite <- Eq; reflexivity|].
      split; [cbn [varint_val]; rewrite <- V; reflexivity|].
      split; [cbn [length]; lia|].
      split; [constructor; [exact Hb | exact B1] | exact B2].
Qed.

Lemma split_at_spec : forall n (bs a r : list Z), split_at n bs = Some (a, r) ->
  bs = a ++ r /\ Mem.zlen a = n /\ 0 <= n.
Proof.
  intros n bs a r H. unfold split_at in H.
  destruct ((0 <=? n) && (n <=? wlen bs)) eqn:E; [|discriminate H].
  apply andb_true_iff in E. destruct E as [E1 E2]. unfold wlen in E2.
  inversion H; subst a r. split; [symmetry; apply firstn_skipn|].
  split; [|lia]. unfold Mem.zlen. rewrite firstn_length. lia.
Qed.

(* what [read_raw_rec] guarantees about a record *)
Definition rec_wf (r : rawrec) : Prop :=
  1 <= rr_num r < 536870912 /\ bytes (rr_raw r) /\
  match rr_pay r with
  | PVar v => wfv (rr_raw r) /\ (length (rr_raw r) <= 10)%nat /\ v = varint_val (rr_raw r) /\ v < two64
  | PI64 v => length (rr_raw r) = 8%nat /\ v = le_val (rr_raw r)
  | PI32 v => length (rr_raw r) = 4%nat /\ v = le_val (rr_raw r)
  | PLen a => exists praw, rr_raw r = praw ++ a /\ wfv praw /\ (length praw <= 5)%nat /\ varint_val praw = Mem.zlen a
  end.

Lemma read_raw_rec_spec : forall bs r rest, bytes bs -> read_raw_rec 5 bs = Some (r, rest) ->
  rec_wf r /\
  exists kraw, bs = kraw ++ rr_raw r ++ rest /\ wfv kraw /\ (length kraw <= 5)%nat /\ bytes kraw /\
               varint_val kraw = rr_num r * 8 + wt_of (rr_pay r) /\ bytes rest.
Proof.
  intros bs r rest HB H. unfold read_raw_rec in H.
  destruct (read_varint_raw 5 bs) as [[[k kraw] r0]|] eqn:Ek; [|discriminate H].
  destruct (rvr_spec 5 bs k kraw r0 HB Ek) as (Wk & Eb & Vk & Lk & Bk & B0).
  pose proof (varint_val_nonneg kraw) as Hk0.
  destruct ((1 <=? k / 8) && (k / 8 <? 536870912)) eqn:Enum; [|discriminate H].
  apply andb_true_iff in Enum. destruct Enum as [En1 En2].
  assert (Hnum : 1 <= k / 8 < 536870912) by lia.
  destruct (Z.eqb_spec (k mod 8) 0) as [Hw0|Hw0].
  { destruct (read_varint_raw 10 r0) as [[[v raw] r']|] eqn:Ev; [|discriminate H].
    destruct (rvr_spec 10 r0 v raw r' B0 Ev) as (Wv & E0 & Vv & Lv & Bv & Br).
    destruct (Z.ltb_spec v two64) as [Hv|Hv]; [|discriminate H].
    inversion H; subst r rest. cbn [rr_num rr_pay rr_raw wt_of].
    split.
    - unfold rec_wf. cbn [rr_num rr_pay rr_raw]. split; [exact Hnum|]. split; [exact Bv|].
      split; [exact Wv|]. split; [exact Lv|]. split; [exact Vv | exact Hv].
    - exists kraw. split; [rewrite Eb, E0; reflexivity|]. split; [exact Wk|]. split; [exact Lk|].
      split; [exact Bk|]. split; [lia | exact Br]. }
  destruct (Z.eqb_spec (k mod 8) 1) as [Hw1|Hw1].
  { destruct (split_at 8 r0) as [[a r']|] eqn:Es; [|discriminate H].
    destruct (split_at_spec 8 r0 a r' Es) as (E0 & La & _).
    inversion H; subst r rest. cbn [rr_num rr_pay rr_raw wt_of].
    rewrite E0 in B0. apply bytes_app_inv in B0. destruct B0 as [Ba Br].
    split.
    - unfold rec_wf. cbn [rr_num rr_pay rr_raw]. split; [exact Hnum|]. split; [exact Ba|].
      split; [unfold Mem.zlen in La; lia | reflexivity].
    - exists kraw. split; [rewrite Eb, E0; reflexivity|]. split; [exact Wk|]. split; [exact Lk|].
      split; [exact Bk|]. split; [lia | exact Br]. }
  destruct (Z.eqb_spec (k mod 8) 2) as [Hw2|Hw2].
  { destruct (read_varint_raw 5 r0) as [[[n praw] r1]|] eqn:Ev; [|discriminate H].
    destruct (rvr_spec 5 r0 n praw r1 B0 Ev) as (Wp & E0 & Vp & Lp & Bp & B1).
    destruct (split_at n r1) as [[a r']|] eqn:Es; [|discriminate H].
    destruct (split_at_spec n r1 a r' Es) as (E1 & La & _).
    inversion H; subst r rest. cbn [rr_num rr_pay rr_raw wt_of].
    rewrite E1 in B1. apply bytes_app_inv in B1. destruct B1 as [Ba Br].
    split.
    - unfold rec_wf. cbn [rr_num rr_pay rr_raw]. split; [exact Hnum|]. split; [apply bytes_app; assumption|].
      exists praw. split; [reflexivity|]. split; [exact Wp|]. split; [exact Lp|]. lia.
    - exists kraw. split; [rewrite Eb, E0, E1, <- app_assoc; reflexivity|]. split; [exact Wk|]. split; [exact Lk|].
      split; [exact Bk|]. split; [lia | exact Br]. }
  destruct (Z.eqb_spec (k mod 8) 5) as [Hw5|Hw5]; [|discriminate H].
  destruct (split_at 4 r0) as [[a r']|] eqn:Es; [|discriminate H].
  destruct (split_at_spec 4 r0 a r' Es) as (E0 & La & _).
  inversion H; subst r rest. cbn [rr_num rr_pay rr_raw wt_of].
  rewrite E0 in B0. apply bytes_app_inv in B0. destruct B0 as [Ba Br].
  split.
  - unfold rec_wf. cbn [rr_num rr_pay rr_raw]. split; [exact Hnum|]. split; [exact Ba|].
    split; [unfold Mem.zlen in La; lia | reflexivity].
  - exists kraw. split; [rewrite Eb, E0; reflexivity|]. split; [exact Wk|]. split; [exact Lk|].
    split; [exact Bk|]. split; [lia | exact Br].
Qed.

(* ------------------------------------------------------------------ *)
(* 2. the C decoders on those bytes                                     *)

Lemma le_value_le_val : forall l, le_value l = le_val l.
Proof. induction l as [|b t IH]; cbn [le_value le_val]; [reflexivity | rewrite IH; reflexivity]. Qed.

Lemma take_pad_all : forall (a : list Z), take_pad (length a) a = a.
Proof. induction a as [|x a IH]; cbn [length take_pad]; [reflexivity | rewrite IH; reflexivity]. Qed.

Lemma parse_fixed32_le_val : forall a, length a = 4%nat -> parse_fixed_uint32 a = le_val a.
Proof.
  intros a L. unfold parse_fixed_uint32, load_le. cbv zeta. change (Z.to_nat 4) with 4%nat.
  rewrite <- L, take_pad_all. apply le_value_le_val.
Qed.

Lemma parse_fixed64_le_val : forall a, length a = 8%nat -> parse_fixed_uint64 a = le_val a.
Proof.
  intros a L. unfold parse_fixed_uint64, load_le. cbv zeta. change (Z.to_nat 8) with 8%nat.
  rewrite <- L, take_pad_all. apply le_value_le_val.
Qed.

Lemma rd_app_lt : forall (raw rest : list Z) (i : nat), (i < length raw)%nat ->
  rd (raw ++ rest) (Z.of_nat i) = nth i raw 0.
Proof. intros raw rest i Hi. unfold rd. rewrite Nat2Z.id. apply app_nth1. exact Hi. Qed.

Lemma skipn_nth_cons : forall (raw : list Z) (i : nat), (i < length raw)%nat ->
  skipn i raw = nth i raw 0 :: skipn (S i) raw.
Proof.
  induction raw as [|x raw IH]; intros i Hi; [cbn [length] in Hi; lia|].
  destruct i as [|i]; [reflexivity|]. cbn [length] in Hi. cbn [skipn nth]. apply IH. lia.
Qed.

(* parse_boolean: is any of the 7-bit groups non-zero *)
Lemma parse_boolean_spec : forall raw rest, bytes raw -> Mem.zlen raw < 4294967296 ->
  parse_boolean (Mem.zlen raw) (raw ++ rest) = if varint_val raw =? 0 then 0 else 1.
Proof.
  intros raw rest HB Hlen. unfold parse_boolean. cbv zeta.
  match goal with |- context [@while_ _ _ _ ?b _] => set (body := b) end.
  assert (Hloop : forall (m i : nat), (i + m = length raw)%nat ->
            while_ (S m) body (Z.of_nat i) =
            if varint_val (skipn i raw) =? 0 then LDone (Mem.zlen raw) else LRet 1).
  { induction m as [|m IH]; intros i Him.
    - replace i with (length raw) by lia. rewrite skipn_all. cbn [varint_val Z.eqb].
      cbn [while_]. unfold body. fold (Mem.zlen raw). rewrite Z.ltb_irrefl. reflexivity.
    - assert (Hi : (i < length raw)%nat) by lia.
      rewrite (skipn_nth_cons raw i Hi). cbn [varint_val].
      pose proof (bytes_in raw HB (nth i raw 0) (nth_In raw 0 Hi)) as Hb.
      pose proof (varint_val_nonneg (skipn (S i) raw)) as Hv0.
      specialize (IH (S i) ltac:(lia)).
      change (while_ (S (S m)) body (Z.of_nat i)) with
        (match body (Z.of_nat i) with
         | Continue s' => while_ (S m) body s'
         | Break s' => LDone s'
         | Return r => LRet r
         end).
      unfold body at 1.
      destruct (Z.ltb_spec (Z.of_nat i) (Mem.zlen raw)) as [_|Hge]; [|unfold Mem.zlen in Hge; lia].
      rewrite (rd_app_lt raw rest i Hi). rewrite land127.
      destruct (Z.eqb_spec (nth i raw 0 mod 128) 0) as [Hz|Hnz]; cbn [negb].
      + rewrite u32_small by (unfold Mem.zlen in Hlen; lia).
        replace (Z.of_nat i + 1) with (Z.of_nat (S i)) by lia. rewrite IH.
        rewrite Hz. replace (0 + 128 * varint_val (skipn (S i) raw) =? 0) with (varint_val (skipn (S i) raw) =? 0) by lia.
        reflexivity.
      + replace (nth i raw 0 mod 128 + 128 * varint_val (skipn (S i) raw) =? 0) with false by lia. reflexivity. }
  unfold Mem.zlen at 1. rewrite Nat2Z.id.
  specialize (Hloop (length raw) 0%nat ltac:(lia)). cbn [skipn] in Hloop. change (Z.of_nat 0) with 0 in Hloop.
  rewrite Hloop. destruct (varint_val raw =? 0); reflexivity.
Qed.

Lemma u32_zlen_small : forall (raw : list Z), (length raw <= 10)%nat -> u32 (Mem.zlen raw) = Z.of_nat (length raw).
Proof. intros raw L. unfold Mem.zlen. apply u32_small. lia. Qed.

(* a varint payload at a varint-typed field *)
Lemma dec_varint : forall t raw rest w, wfv raw -> (length raw <= 10)%nat -> bytes raw -> varint_val raw < two64 ->
  scalar_of t (PVar (varint_val raw)) = Some w ->
  dec_scalar t WT_VARINT (Mem.zlen raw) (raw ++ rest) = Ok w.
Proof.
  intros t raw rest w W L HB Hv Hs.
  pose proof (varint_val_nonneg raw) as Hv0. unfold two64 in Hv.
  pose proof (LeafDec.parse_uint32_spec raw rest W L) as H32.
  pose proof (LeafDec.parse_uint64_spec raw rest W L (bytes_in raw HB)) as H64.
  rewrite Z.mod_small in H64 by lia.
  assert (Hb : parse_boolean (u32 (Mem.zlen raw)) (raw ++ rest) = if varint_val raw =? 0 then 0 else 1).
  { rewrite u32_small by (unfold Mem.zlen; lia). apply parse_boolean_spec; [exact HB | unfold Mem.zlen; lia]. }
  unfold dec_scalar. rewrite (u32_zlen_small raw L) in *. change (WT_VARINT =? WT_VARINT) with true. cbv iota beta.
  unfold scalar_of, two32, two64 in Hs.
  destruct t; try discriminate Hs; inversion Hs; subst w; clear Hs.
  - (* int32 *) unfold parse_int32. rewrite H32. unfold u32. rewrite Z.mod_mod by lia. reflexivity.
  - (* sint32 *) rewrite H32. rewrite LeafDec.unzigzag32_spec by lia. reflexivity.
  - (* int64 *) rewrite H64. reflexivity.
  - (* sint64 *) rewrite H64. rewrite LeafDec.unzigzag64_spec by lia. reflexivity.
  - (* uint32 *) rewrite H32. reflexivity.
  - (* uint64 *) rewrite H64. reflexivity.
  - (* bool *) rewrite Hb. destruct (varint_val raw =? 0); reflexivity.
  - (* enum *) unfold parse_int32. rewrite H32. unfold u32. rewrite Z.mod_mod by lia. reflexivity.
Qed.

Lemma dec_fixed32 : forall t a len w, length a = 4%nat -> scalar_of t (PI32 (le_val a)) = Some w ->
  dec_scalar t WT_32BIT len a = Ok w.
Proof.
  intros t a len w L Hs. unfold dec_scalar. unfold scalar_of in Hs.
  destruct t; try discriminate Hs; inversion Hs; subst w;
    change (WT_32BIT =? WT_32BIT) with true; cbv iota beta; rewrite (parse_fixed32_le_val a L); reflexivity.
Qed.

Lemma dec_fixed64 : forall t a len w, length a = 8%nat -> scalar_of t (PI64 (le_val a)) = Some w ->
  dec_scalar t WT_64BIT len a = Ok w.
Proof.
  intros t a len w L Hs. unfold dec_scalar. unfold scalar_of in Hs.
  destruct t; try discriminate Hs; inversion Hs; subst w;
    change (WT_64BIT =? WT_64BIT) with true; cbv iota beta; rewrite (parse_fixed64_le_val a L); reflexivity.
Qed.

(* the scalar a record denotes is what dec_scalar computes from the scanned member *)
Lemma scalar_refine : forall t r w, rec_wf r -> scalar_of t (rr_pay r) = Some w ->
  dec_scalar t (wt_of (rr_pay r)) (Mem.zlen (rr_raw r)) (rr_raw r) = Ok w.
Proof.
  intros t r w (Hnum & HB & Hp) Hs. destruct (rr_pay r) as [v|v|a|v]; cbn [wt_of].
  - destruct Hp as (W & L & Hv & Hlt). subst v.
    pose proof (dec_varint t (rr_raw r) [] w W L HB Hlt Hs) as H. rewrite app_nil_r in H. exact H.
  - destruct Hp as (L & Hv). subst v. exact (dec_fixed64 t (rr_raw r) _ w L Hs).
  - unfold scalar_of in Hs. destruct t; discriminate Hs.
  - destruct Hp as (L & Hv). subst v. exact (dec_fixed32 t (rr_raw r) _ w L Hs).
Qed.

(* ------------------------------------------------------------------ *)
(* 3. packed records                                                    *)

Lemma wfv_nth : forall raw, wfv raw -> bytes raw ->
  (forall i, (i < length raw - 1)%nat -> 128 <= nth i raw 0 < 256) /\ 0 <= nth (length raw - 1) raw 0 < 128.
Proof.
  induction raw as [|b t IH]; intros W HB; [contradiction|].
  destruct (bytes_cons_inv _ _ HB) as [Hb HBt]. cbn [wfv] in W.
  destruct t as [|c t].
  - cbn [length nth]. split; [intros i Hi; lia | cbn; lia].
  - destruct W as [Hb' W]. destruct (IH W HBt) as [IH1 IH2]. split.
    + intros i Hi. destruct i as [|i]; [cbn [nth]; exact Hb'|]. cbn [nth]. apply IH1. cbn [length] in *. lia.
    + replace (length (b :: c :: t) - 1)%nat with (S (length (c :: t) - 1)) by (cbn [length]; lia). cbn [nth]. exact IH2.
Qed.

Lemma land128_nz : forall b, 128 <= b < 256 -> Z.land b 128 <> 0.
Proof.
  intros b Hb H. pose proof (land128_zero b ltac:(lia)) as E. rewrite H in E. cbn in E. lia.
Qed.

Lemma land128_z : forall b, 0 <= b < 128 -> Z.land b 128 = 0.
Proof.
  intros b Hb. pose proof (land128_zero b ltac:(lia)) as E.
  destruct (Z.eqb_spec (Z.land b 128) 0) as [H|H]; [exact H | lia].
Qed.

(* scan_varint finds the end of a well-formed varint of at most ten bytes *)
Lemma scan_varint_wfv : forall raw rest, wfv raw -> (length raw <= 10)%nat -> bytes raw ->
  scan_varint (Mem.zlen (raw ++ rest)) (raw ++ rest) = Mem.zlen raw.
Proof.
  intros raw rest W L HB.
  pose proof (wfv_nonempty raw W) as L1.
  destruct (wfv_nth raw W HB) as [Hhi Hlast].
  set (d := raw ++ rest). set (len := Mem.zlen d).
  assert (Hlen : Z.of_nat (length raw) <= len) by (unfold len, d; rewrite zlen_app; unfold Mem.zlen; lia).
  assert (Hrd_hi : forall i, 0 <= i < Z.of_nat (length raw) - 1 -> Z.land (rd d i) 128 <> 0).
  { intros i Hi. replace i with (Z.of_nat (Z.to_nat i)) by lia. unfold d. rewrite rd_app_lt by lia.
    apply land128_nz. apply Hhi. lia. }
  assert (Hrd_last : Z.land (rd d (Z.of_nat (length raw) - 1)) 128 = 0).
  { replace (Z.of_nat (length raw) - 1) with (Z.of_nat (length raw - 1)) by lia. unfold d. rewrite rd_app_lt by lia.
    apply land128_z. exact Hlast. }
  destruct (Z.eq_dec (scan_varint len d) 0) as [Hz|Hnz].
  - exfalso. apply (PackedCount.scan_varint_zero len d ltac:(lia) Hz (Z.of_nat (length raw) - 1) ltac:(lia)). exact Hrd_last.
  - destruct (PackedCount.scan_varint_first len d ltac:(unfold len; lia) Hnz) as (Hs1 & Hs2 & Hs3 & Hs4).
    set (s := scan_varint len d) in *. unfold Mem.zlen at 1.
    destruct (Z.lt_trichotomy (s - 1) (Z.of_nat (length raw) - 1)) as [Hlt|[Heq|Hgt]].
    + exfalso. exact (Hrd_hi (s - 1) ltac:(lia) Hs3).
    + lia.
    + exfalso. exact (Hs4 (Z.of_nat (length raw) - 1) ltac:(lia) Hrd_last).
Qed.

Lemma elem_width_le : forall t, (elem_width t <= 10)%nat.
Proof. intros t. destruct t; cbn [elem_width]; lia. Qed.

Lemma packed_varints_refine : forall k t bs vs, bytes bs -> Mem.zlen bs < 4294967296 ->
  packed_varints k t bs = Some vs ->
  forall fuel, (length bs < fuel)%nat -> parse_packed_varints fuel t bs = Ok vs.
Proof.
  induction k as [|k IH]; intros t bs vs HB Hlen H fuel Hf.
  - destruct bs as [|b bs]; cbn [packed_varints] in H; [|discriminate H].
    inversion H; subst vs. destruct fuel; reflexivity.
  - destruct bs as [|b bs].
    { cbn [packed_varints] in H. inversion H; subst vs. destruct fuel; reflexivity. }
    set (data := b :: bs) in *.
    assert (Hd : data <> []) by (unfold data; discriminate).
    change (packed_varints (S k) t data) with
      (match read_varint_raw (elem_width t) data with
       | Some (v, _, r) =>
           if v <? two64 then
             match scalar_of t (PVar v), packed_varints k t r with
             | Some w, Some ws => Some (VWord w :: ws)
             | _, _ => None
             end
           else None
       | None => None
       end) in H.
    destruct (read_varint_raw (elem_width t) data) as [[[v raw] r]|] eqn:Ev; [|discriminate H].
    destruct (rvr_spec _ data v raw r HB Ev) as (W & Eb & Vv & L & Br & Brest).
    pose proof (elem_width_le t) as Lw.
    destruct (Z.ltb_spec v two64) as [Hv|Hv]; [|discriminate H].
    destruct (scalar_of t (PVar v)) as [w|] eqn:Es; [|discriminate H].
    destruct (packed_varints k t r) as [ws|] eqn:Er; [|discriminate H].
    inversion H; subst vs; clear H.
    destruct fuel as [|fuel]; [lia|].
    rewrite (PackedDec.ppv_step fuel t data Hd). cbv zeta.
    rewrite (u32_small (Mem.zlen data)) by (pose proof (zlen_nonneg _ data); lia).
    pose proof (wfv_nonempty raw W) as L1.
    assert (Esv : scan_varint (Mem.zlen data) data = Mem.zlen raw).
    { rewrite Eb. apply scan_varint_wfv; [exact W | lia | exact Br]. }
    rewrite Esv.
    destruct (Z.eqb_spec (Mem.zlen raw) 0) as [Hz|_]; [unfold Mem.zlen in Hz; lia|].
    assert (Ed : dec_scalar t WT_VARINT (Mem.zlen raw) data = Ok w).
    { rewrite Eb. apply dec_varint; [exact W | lia | exact Br | lia | rewrite <- Vv; exact Es]. }
    rewrite Ed. cbn [bind].
    assert (Esk : skipn (Z.to_nat (Mem.zlen raw)) data = r) by (rewrite Eb; apply skipn_zlen_app).
    rewrite Esk.
    assert (Hlr : (length data = length raw + length r)%nat) by (rewrite Eb; apply app_length).
    rewrite (IH t r ws Brest ltac:(unfold Mem.zlen in *; lia) Er fuel ltac:(lia)). reflexivity.
Qed.

(* every element of a packed bool record is one byte: what count_packed_elements assumes *)
Lemma packed_bool_len : forall k bs vs, bytes bs -> packed_varints k TBool bs = Some vs ->
  Mem.zlen vs = Mem.zlen bs.
Proof.
  induction k as [|k IH]; intros bs vs HB H.
  - destruct bs as [|b bs]; cbn [packed_varints] in H; [|discriminate H]. inversion H; reflexivity.
  - destruct bs as [|b bs].
    { cbn [packed_varints] in H. inversion H; reflexivity. }
    set (data := b :: bs) in *.
    change (packed_varints (S k) TBool data) with
      (match read_varint_raw 1 data with
       | Some (v, _, r) =>
           if v <? two64 then
             match scalar_of TBool (PVar v), packed_varints k TBool r with
             | Some w, Some ws => Some (VWord w :: ws)
             | _, _ => None
             end
           else None
       | None => None
       end) in H.
    destruct (read_varint_raw 1 data) as [[[v raw] r]|] eqn:Ev; [|discriminate H].
    destruct (rvr_spec _ data v raw r HB Ev) as (W & Eb & Vv & L & Br & Brest).
    pose proof (wfv_nonempty raw W) as L1.
    destruct (v <? two64); [|discriminate H].
    destruct (scalar_of TBool (PVar v)) as [w|]; [|discriminate H].
    destruct (packed_varints k TBool r) as [ws|] eqn:Er; [|discriminate H].
    inversion H; subst vs; clear H.
    pose proof (IH r ws Brest Er) as IHr.
    rewrite Eb, zlen_app. unfold Mem.zlen in *. cbn [length]. lia.
Qed.

Lemma chunks_length : forall w n (bs : list Z), length (chunks w n bs) = n.
Proof. intros w. induction n as [|n IH]; intros bs; cbn [chunks length]; [reflexivity | rewrite IH; reflexivity]. Qed.

Lemma ppf_refine32 : forall n t bs, PackedDec.is_fixed32 t = true -> (4 * n <= length bs)%nat ->
  parse_packed_fixed n 4 t WT_32BIT bs = Ok (map (fun c => VWord (le_val c)) (chunks 4 n bs)).
Proof.
  induction n as [|n IH]; intros t bs Ht Hl; cbn [parse_packed_fixed chunks map]; [reflexivity|].
  assert (L4 : length (firstn 4 bs) = 4%nat) by (rewrite firstn_length; lia).
  assert (Hs : scalar_of t (PI32 (le_val (firstn 4 bs))) = Some (le_val (firstn 4 bs))).
  { destruct t; try discriminate Ht; reflexivity. }
  rewrite (dec_fixed32 t (firstn 4 bs) _ _ L4 Hs). cbn [bind].
  rewrite (IH t (skipn 4 bs) Ht ltac:(rewrite skipn_length; lia)). reflexivity.
Qed.

Lemma ppf_refine64 : forall n t bs, PackedDec.is_fixed64 t = true -> (8 * n <= length bs)%nat ->
  parse_packed_fixed n 8 t WT_64BIT bs = Ok (map (fun c => VWord (le_val c)) (chunks 8 n bs)).
Proof.
  induction n as [|n IH]; intros t bs Ht Hl; cbn [parse_packed_fixed chunks map]; [reflexivity|].
  assert (L8 : length (firstn 8 bs) = 8%nat) by (rewrite firstn_length; lia).
  assert (Hs : scalar_of t (PI64 (le_val (firstn 8 bs))) = Some (le_val (firstn 8 bs))).
  { destruct t; try discriminate Ht; reflexivity. }
  rewrite (dec_fixed64 t (firstn 8 bs) _ _ L8 Hs). cbn [bind].
  rewrite (IH t (skipn 8 bs) Ht ltac:(rewrite skipn_length; lia)). reflexivity.
Qed.

Lemma to_nat_div : forall (n : nat) (k : nat), (0 < k)%nat -> Z.to_nat (Z.of_nat n / Z.of_nat k) = (n / k)%nat.
Proof. intros n k Hk. rewrite <- Nat2Z.inj_div. apply Nat2Z.id. Qed.

(* parse_packed computes the elements the specification gives *)
Lemma packed_refine : forall f sm bs vs, packed_elems (f_type f) bs = Some vs ->
  bytes bs -> Mem.zlen bs < 4294967296 ->
  skipn (Z.to_nat (sm_pref sm)) (sm_data sm) = bs -> sm_len sm - sm_pref sm = Mem.zlen bs ->
  parse_packed f sm = Ok vs.
Proof.
  intros f sm bs vs H HB Hlen Hpay Hpl. unfold parse_packed. rewrite Hpay, Hpl.
  unfold packed_elems in H.
  assert (H4 : Z.to_nat (Mem.zlen bs / 4) = (length bs / 4)%nat) by (unfold Mem.zlen; apply (to_nat_div _ 4); lia).
  assert (H8 : Z.to_nat (Mem.zlen bs / 8) = (length bs / 8)%nat) by (unfold Mem.zlen; apply (to_nat_div _ 8); lia).
  pose proof (Nat.mul_div_le (length bs) 4 ltac:(lia)) as M4.
  pose proof (Nat.mul_div_le (length bs) 8 ltac:(lia)) as M8.
  destruct (f_type f) eqn:Et;
    try discriminate H;
    try (apply (packed_varints_refine (length bs) _ bs vs HB Hlen H); lia).
  all: try (destruct (Mem.zlen bs mod 4 =? 0); [|discriminate H]; inversion H; subst vs; rewrite H4;
            apply ppf_refine32; [reflexivity | exact M4]).
  all: destruct (Mem.zlen bs mod 8 =? 0); [|discriminate H]; inversion H; subst vs; rewrite H8;
       apply ppf_refine64; [reflexivity | exact M8].
Qed.

Lemma packed_elems_scalar : forall t bs vs, packed_elems t bs = Some vs -> is_scalar t = true.
Proof. intros t bs vs H. destruct t; try reflexivity; discriminate H. Qed.

(* ... and count_packed_elements counts exactly those elements *)
Lemma packed_count : forall t bs vs, packed_elems t bs = Some vs -> bytes bs -> Mem.zlen bs < 4294967296 ->
  exists okc, count_packed_elements (type_code t) (Mem.zlen bs) bs 0 = (okc, Mem.zlen vs) /\ okc <> 0.
Proof.
  intros t bs vs H HB Hlen.
  pose proof (packed_elems_scalar t bs vs H) as Hsc.
  destruct (ftype_eqb t TBool) eqn:Eb.
  - assert (t = TBool) by (destruct t; try discriminate Eb; reflexivity). subst t.
    exists 1. rewrite PackedDec.count_bool. split; [|lia]. f_equal. symmetry.
    unfold packed_elems in H. exact (packed_bool_len _ bs vs HB H).
  - set (f := {| f_id := 1; f_label := LRepeated; f_type := t; f_quant := QCount; f_packed := true; f_oneof := false;
                 f_sub := 0%nat; f_default := None |}).
    set (sm := {| sm_tag := 1; sm_wt := 2; sm_field := None; sm_len := Mem.zlen bs; sm_pref := 0; sm_data := bs |}).
    assert (Hpp : parse_packed f sm = Ok vs).
    { apply (packed_refine f sm bs vs); [exact H | exact HB | exact Hlen | reflexivity | cbn [sm sm_len sm_pref]; lia]. }
    destruct (count_packed_elements (type_code t) (Mem.zlen bs) bs 0) as [okc c] eqn:Ec.
    assert (Hok : okc <> 0).
    { pose proof (PackedCount.count_packed_elements_scalar_ok t (Mem.zlen bs) bs 0 Hsc) as Hf. rewrite Ec in Hf. cbn [fst] in Hf.
      unfold packed_elems in H.
      destruct t; try discriminate Hsc; cbn [PackedDec.is_fixed32 PackedDec.is_fixed64] in Hf; try lia;
        (destruct (Mem.zlen bs mod 4 =? 0); [lia | discriminate H]) || (destruct (Mem.zlen bs mod 8 =? 0); [lia | discriminate H]). }
    exists okc. split; [|exact Hok]. f_equal. symmetry.
    apply (PackedCount.parse_packed_eq_count f sm okc c vs); cbn [f f_type sm sm_data sm_pref sm_len].
    + exact Hsc.
    + intros Ht. rewrite Ht in Eb. discriminate Eb.
    + exact HB.
    + pose proof (zlen_nonneg _ bs). lia.
    + reflexivity.
    + exact Hlen.
    + replace (Mem.zlen bs - 0) with (Mem.zlen bs) by lia. exact Ec.
    + exact Hok.
    + exact Hpp.
Qed.

(* C09 -- unknown fields survive parse and re-serialise.
   Statements only; proofs in Proofs/Unknown.v (and C01's round trip, whose canonical messages carry
   arbitrary unknown fields).  The two-schema consequence (new -> old unpack+pack -> new) is decided on
   the implementation by the check's oracle and the reference tie. *)
From Coq Require Import ZArith List Bool.
From PBC Require Import Base.CInt Impl.Desc Impl.Mem Impl.Enc Impl.Pack Impl.Unpack Impl.Canon Proofs.Required Proofs.Unknown Proofs.MsgRT4.
Import ListNotations.
Local Open Scope Z_scope.

(* whenever parsing succeeds -- any input, any schema, any nesting level (embedded messages are parsed by
   the same function) -- the unknown fields of the result are exactly the scanned members that belong to
   no field, in arrival order, each with its number, wire type and the very bytes that followed its key *)
Theorem C09_unknown_retained_in_order : forall E k d data m md,
  unpack E (S k) d data = Ok m -> nth_error E d = Some md ->
  exists st, scan_loop (S (length data)) md (st_init d md data) = Ok st /\
    m_unk m = flat_map unknown_of (rev (st_members st)).
Proof. exact unknown_retained. Qed.
Print Assumptions C09_unknown_retained_in_order.

(* serialisation writes every retained unknown field out again: key from number and wire type, then the
   retained bytes, in order, after the known fields *)
Theorem C09_unknown_written_back : forall E m b, pack_msg E m = Ok b ->
  exists known, b = known ++ concat (map (fun u => e_tag (u_tag u) (u_wt u) ++ u_data u) (m_unk m)).
Proof. exact unknown_written. Qed.
Print Assumptions C09_unknown_written_back.

(* and reading that back gives the same message, unknown fields of every wire type and every number below
   2^29 included (canon_msg constrains unknown fields only to be delimited according to their wire type) *)
Theorem C09_roundtrip_with_unknown : forall (E : env) (m : msg) (b : list Z),
  env_ok E = true -> canon_msg E m = true ->
  pack_msg E m = Ok b -> Z.of_nat (length b) <= 2147483647 ->
  unpack_top E (m_desc m) b = Ok m.
Proof.
  intros E m b EO C Hp Hl. unfold unpack_top.
  exact (proj1 (roundtrip_canonical E EO m C (S (length b)) b Hp Hl (Nat.lt_succ_diag_r _))).
Qed.
Print Assumptions C09_roundtrip_with_unknown.

(* Inversion of one step of the scanning loop of protobuf_c_message_unpack, and
   the invariants of the loop that hold for EVERY input (no assumption on the bytes). *)
From Coq Require Import ZArith List Bool Lia ZifyBool.
From PBC Require Import Base.CInt Gen.LeafC Impl.Desc Impl.Mem Impl.Enc Impl.Unpack.
Import ListNotations.
Local Open Scope Z_scope.

Section ScanInv.
Variable md : mdesc.

Definition is_req (f : field) : bool := label_eqb (f_label f) LRequired.

(* what one successful step does to the state, as far as presence tracking is concerned *)
Lemma scan_one_inv : forall st st', scan_one md st = Ok st' ->
  exists sm,
    st_members st' = sm :: st_members st /\
    st_nunk st' = (match sm_field sm with None => st_nunk st + 1 | Some _ => st_nunk st end) /\
    (sm_field sm = None -> st_last st' = st_last st /\ st_last_idx st' = st_last_idx st /\ st_bitmap st' = st_bitmap st) /\
    (forall i, sm_field sm = Some i ->
       exists f, nth_error (md_fields md) i = Some f /\
         st_last st' = Some i /\
         ((st_last st = Some i /\ st_last_idx st' = st_last_idx st /\ f_id f = sm_tag sm) \/
          (st_last_idx st' = i /\ find_field md (sm_tag sm) = Some i)) /\
         st_bitmap st' = (if is_req f then set_nth (st_bitmap st) (st_last_idx st') true else st_bitmap st)).
Proof.
  intros st st' H. unfold scan_one in H.
  destruct (parse_tag_and_wiretype (zlen (st_at st)) (st_at st) 0 0) as [[used tag] wt].
  destruct (used =? 0); [discriminate H|].
  set (cached := match st_last st with
                 | None => false
                 | Some li => match nth_error (md_fields md) li with
                              | Some lf => f_id lf =? tag
                              | None => false
                              end
                 end) in H.
  assert (Hcase :
    (cached = true /\ exists li lf, st_last st = Some li /\ nth_error (md_fields md) li = Some lf /\ f_id lf = tag) \/
    cached = false).
  { unfold cached. destruct (st_last st) as [li|]; [|right; reflexivity].
    destruct (nth_error (md_fields md) li) as [lf|] eqn:Elf; [|right; reflexivity].
    destruct (Z.eqb_spec (f_id lf) tag); [left; split; [reflexivity|]; exists li, lf; auto | right; reflexivity]. }
  destruct Hcase as [[Hc (li & lf & Hl & Hn & Hid)] | Hc]; rewrite Hc in H; cbv beta iota zeta in H.
  - (* cached *)
    rewrite Hl in H. rewrite Hn in H. cbn [bind] in H.
    match type of H with (do lp <- ?X; _) = _ => destruct X as [[len pref]|e]; [|discriminate H] end. cbn [bind] in H.
    match type of H with (do slots <- ?X; _) = _ => destruct X as [slots|e]; [|discriminate H] end. cbn [bind] in H.
    inversion H; subst st'; clear H. cbn.
    eexists. split; [reflexivity|]. cbn. split; [reflexivity|]. split; [intros E; discriminate E|].
    intros i E. inversion E; subst i. exists lf. split; [exact Hn|]. split; [reflexivity|].
    split; [left; auto|]. reflexivity.
  - destruct (find_field md tag) as [i|] eqn:Ef.
    + destruct (nth_error (md_fields md) i) as [f|] eqn:En; cbn [bind] in H; [|discriminate H].
      match type of H with (do lp <- ?X; _) = _ => destruct X as [[len pref]|e]; [|discriminate H] end. cbn [bind] in H.
      match type of H with (do slots <- ?X; _) = _ => destruct X as [slots|e]; [|discriminate H] end. cbn [bind] in H.
      inversion H; subst st'; clear H. cbn.
      eexists. split; [reflexivity|]. cbn. split; [reflexivity|]. split; [intros E; discriminate E|].
      intros i' E. inversion E; subst i'. exists f. split; [exact En|]. split; [reflexivity|].
      split; [right; auto|]. reflexivity.
    + cbn [bind] in H.
      match type of H with (do lp <- ?X; _) = _ => destruct X as [[len pref]|e]; [|discriminate H] end. cbn [bind] in H.
      inversion H; subst st'; clear H. cbn.
      eexists. split; [reflexivity|]. cbn. split; [reflexivity|]. split; [auto|].
      intros i E. discriminate E.
Qed.

(* ---- presence tracking: the bitmap entry of a required field is set iff a member for it was scanned *)
Definition track_inv (st : sstate) : Prop :=
  (st_last st = None \/ st_last st = Some (st_last_idx st)) /\
  (forall i, nth i (st_bitmap st) false = true ->
     exists sm, In sm (st_members st) /\ sm_field sm = Some i) /\
  (forall sm i f, In sm (st_members st) -> sm_field sm = Some i -> nth_error (md_fields md) i = Some f ->
     is_req f = true -> (i < length (st_bitmap st))%nat -> nth i (st_bitmap st) false = true) /\
  (forall sm i, In sm (st_members st) -> sm_field sm = Some i -> (i < length (md_fields md))%nat).

Lemma nth_set_nth : forall (l : list bool) i j v, nth j (set_nth l i v) false = if Nat.eqb i j then (if Nat.ltb i (length l) then v else nth j l false) else nth j l false.
Proof.
  induction l as [|x l IH]; intros i j v.
  - destruct i; cbn; destruct j; try reflexivity; destruct (Nat.eqb _ _); reflexivity.
  - destruct i, j; cbn [set_nth nth Nat.eqb length Nat.ltb Nat.leb]; try reflexivity.
    rewrite IH. destruct (Nat.eqb i j); [|reflexivity]. cbn. reflexivity.
Qed.

Lemma set_nth_length : forall A (l : list A) i v, length (set_nth l i v) = length l.
Proof. induction l as [|x l IH]; intros [|i] v; cbn [set_nth length]; try reflexivity. rewrite IH. reflexivity. Qed.

Lemma scan_one_track : forall st st', scan_one md st = Ok st' -> track_inv st -> track_inv st' /\ length (st_bitmap st') = length (st_bitmap st).
Proof.
  intros st st' H (I1 & I2 & I3 & I4).
  destruct (scan_one_inv st st' H) as (sm & Hm & _ & Hnone & Hsome).
  destruct (sm_field sm) as [i|] eqn:Ef.
  - destruct (Hsome i eq_refl) as (f & Hn & Hl' & Hwhich & Hb).
    assert (Hidx : st_last_idx st' = i).
    { destruct Hwhich as [(Hl & Hi & _) | (Hi & _)]; [|exact Hi].
      destruct I1 as [I1|I1]; rewrite Hl in I1; [discriminate I1 | inversion I1; congruence]. }
    rewrite Hidx in Hb.
    assert (Hlen : length (st_bitmap st') = length (st_bitmap st)).
    { rewrite Hb. destruct (is_req f); [apply set_nth_length | reflexivity]. }
    split; [|exact Hlen]. unfold track_inv. rewrite Hm, Hl', Hidx. repeat split.
    + right. reflexivity.
    + intros j Hj. rewrite Hb in Hj. destruct (is_req f).
      * rewrite nth_set_nth in Hj. destruct (Nat.eqb_spec i j) as [->|Hne].
        -- exists sm. split; [left; reflexivity | exact Ef].
        -- destruct (I2 j Hj) as (sm' & Hin & Hf). exists sm'. split; [right; exact Hin | exact Hf].
      * destruct (I2 j Hj) as (sm' & Hin & Hf). exists sm'. split; [right; exact Hin | exact Hf].
    + intros sm' j f' Hin Hf Hn' Hr Hlt. rewrite Hlen in Hlt. rewrite Hb.
      destruct Hin as [<-|Hin].
      * rewrite Ef in Hf. inversion Hf; subst j. rewrite Hn in Hn'. inversion Hn'; subst f'. rewrite Hr.
        rewrite nth_set_nth. rewrite Nat.eqb_refl. destruct (Nat.ltb_spec i (length (st_bitmap st))); [reflexivity | lia].
      * pose proof (I3 sm' j f' Hin Hf Hn' Hr Hlt) as Hold.
        destruct (is_req f); [|exact Hold]. rewrite nth_set_nth. destruct (Nat.eqb_spec i j); [|exact Hold].
        subst j. destruct (Nat.ltb_spec i (length (st_bitmap st))); [reflexivity | lia].
    + intros sm' j [<-|Hin] Hf; [|exact (I4 sm' j Hin Hf)].
      rewrite Ef in Hf. inversion Hf; subst j. apply nth_error_Some. congruence.
  - destruct (Hnone eq_refl) as (Hl & Hi & Hb).
    split; [|rewrite Hb; reflexivity]. unfold track_inv. rewrite Hm, Hl, Hi, Hb. repeat split.
    + exact I1.
    + intros j Hj. destruct (I2 j Hj) as (sm' & Hin & Hf). exists sm'. split; [right; exact Hin | exact Hf].
    + intros sm' j f' [<-|Hin] Hf; [rewrite Ef in Hf; discriminate Hf | exact (I3 sm' j f' Hin Hf)].
    + intros sm' j [<-|Hin] Hf; [rewrite Ef in Hf; discriminate Hf | exact (I4 sm' j Hin Hf)].
Qed.

Lemma scan_loop_track : forall fuel st st', scan_loop fuel md st = Ok st' -> track_inv st ->
  track_inv st' /\ length (st_bitmap st') = length (st_bitmap st).
Proof.
  induction fuel as [|k IH]; intros st st' H I; cbn [scan_loop] in H.
  - destruct (st_at st); [inversion H; subst; auto | discriminate H].
  - destruct (st_at st); [inversion H; subst; auto|].
    destruct (scan_one md st) as [st1|e] eqn:E1; cbn [bind] in H; [|discriminate H].
    destruct (scan_one_track st st1 E1 I) as [I1 L1]. destruct (IH st1 st' H I1) as [I2 L2]. split; [exact I2 | congruence].
Qed.

End ScanInv.

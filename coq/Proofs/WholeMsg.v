(* Whole-message conformance: the reference reader of Spec/WireMsg.v reads the bytes protobuf_c_message_pack writes
   for a canonical message as exactly the records the message denotes (Impl/Denote.v). *)
From Coq Require Import ZArith List Bool Lia ZifyBool.
From PBC Require Import Base.CInt Base.Bits Spec.Wire Spec.WireMsg Impl.Desc Impl.Mem Impl.Enc Impl.Pack Impl.WF
     Impl.Unpack Impl.Canon Impl.Denote.
From PBC Require Proofs.EncLemmas Proofs.SpecEnc Proofs.CellRT.
Import ListNotations.
Local Open Scope Z_scope.

Ltac Zify.zify_post_hook ::= Z.div_mod_to_equations.

(* ---------------------------------------------------------------- lists *)
Lemma wlen_zlen : forall A (l : list A), wlen l = zlen l.
Proof. reflexivity. Qed.

Lemma zlen_app' : forall A (a b : list A), zlen (a ++ b) = zlen a + zlen b.
Proof. intros. unfold zlen. rewrite app_length. lia. Qed.

Lemma zlen_nonneg' : forall A (l : list A), 0 <= zlen l.
Proof. intros. unfold zlen. lia. Qed.

Lemma zlen_cons' : forall A (x : A) l, zlen (x :: l) = 1 + zlen l.
Proof. intros. unfold zlen. cbn [length]. lia. Qed.

Lemma with_nth_nth_error : forall A B (k : A -> B) d l n,
  with_nth k d l n = match nth_error l n with Some x => k x | None => d end.
Proof.
  intros A B k d l. induction l as [|x t IH]; intros n.
  - destruct n; reflexivity.
  - destruct n as [|n]; [reflexivity|]. cbn [with_nth nth_error]. apply IH.
Qed.

(* ---------------------------------------------------------------- varints *)
Lemma read_varint_varint_n : forall f v rest, 0 <= v < 128 ^ Z.of_nat (S f) ->
  read_varint (S f) (varint_n (S f) v ++ rest) = Some (v, rest).
Proof.
  induction f as [|f IH]; intros v rest Hv.
  - change (128 ^ Z.of_nat 1) with 128 in Hv. cbn [varint_n].
    replace (v <? 128) with true by lia. cbn [app read_varint].
    replace (v <? 128) with true by lia. reflexivity.
  - remember (S f) as g eqn:Eg. cbn [varint_n].
    destruct (Z.ltb_spec v 128) as [Hs|Hb].
    + cbn [app read_varint]. replace (v <? 128) with true by lia. reflexivity.
    + cbn [app read_varint]. replace (v mod 128 + 128 <? 128) with false by lia.
      rewrite IH.
      * f_equal. f_equal. lia.
      * replace (Z.of_nat (S g)) with (Z.of_nat g + 1) in Hv by lia.
        rewrite Z.pow_add_r in Hv by lia. change (128 ^ 1) with 128 in Hv.
        assert (0 < 128 ^ Z.of_nat g) by (apply Z.pow_pos_nonneg; lia). nia.
Qed.

Lemma read_varint_varint : forall v rest, 0 <= v < two64 ->
  read_varint 10 (varint v ++ rest) = Some (v, rest).
Proof.
  intros v rest Hv. unfold varint. apply read_varint_varint_n.
  change (128 ^ Z.of_nat 10) with 1180591620717411303424. unfold two64 in Hv. lia.
Qed.

Lemma varint_nonempty : forall v, varint v <> [].
Proof. intros v. unfold varint. cbn [varint_n]. destruct (v <? 128); discriminate. Qed.

(* a retained (possibly padded) varint *)
Lemma take_varint_split : forall k data p r, take_varint k data = Some (p, r) -> data = p ++ r.
Proof.
  induction k as [|k IH]; intros data p r H; [destruct data; discriminate H|].
  destruct data as [|b t]; [discriminate H|]. cbn [take_varint] in H.
  destruct (b <? 128).
  - inversion H. reflexivity.
  - destruct (take_varint k t) as [[p' r']|] eqn:Et; [|discriminate H]. inversion H; subst.
    cbn [app]. f_equal. apply IH. exact Et.
Qed.

Lemma read_varint_take : forall k data p r rest k', take_varint k data = Some (p, r) ->
  (forall b, In b data -> 0 <= b) -> (k <= k')%nat ->
  read_varint k' (data ++ rest) = Some (varint_val p, r ++ rest).
Proof.
  induction k as [|k IH]; intros data p r rest k' H Hb Hk; [destruct data; discriminate H|].
  destruct data as [|b t]; [discriminate H|]. cbn [take_varint] in H.
  destruct k' as [|k']; [lia|]. cbn [app read_varint].
  destruct (Z.ltb_spec b 128) as [Hs|Hg].
  - inversion H; subst. cbn [varint_val]. f_equal. f_equal.
    assert (0 <= b) by (apply Hb; left; reflexivity). lia.
  - destruct (take_varint k t) as [[p' r']|] eqn:Et; [|discriminate H]. inversion H; subst.
    rewrite (IH t p' r rest k' Et); [reflexivity | intros x Hx; apply Hb; right; exact Hx | lia].
Qed.

(* ---------------------------------------------------------------- fixed width, length-delimited *)
Lemma le_val_le_n : forall n v, 0 <= v < 256 ^ Z.of_nat n -> le_val (le_n n v) = v.
Proof.
  induction n as [|n IH]; intros v Hv.
  - change (256 ^ Z.of_nat 0) with 1 in Hv. cbn [le_n le_val]. lia.
  - cbn [le_n le_val]. rewrite IH; [lia|].
    replace (Z.of_nat (S n)) with (Z.of_nat n + 1) in Hv by lia.
    rewrite Z.pow_add_r in Hv by lia. change (256 ^ 1) with 256 in Hv.
    assert (0 < 256 ^ Z.of_nat n) by (apply Z.pow_pos_nonneg; lia). nia.
Qed.

Lemma le_val_range : forall l, (forall b, In b l -> 0 <= b < 256) -> 0 <= le_val l < 256 ^ Z.of_nat (length l).
Proof.
  induction l as [|b t IH]; intros Hb.
  - cbn [le_val length]. change (256 ^ Z.of_nat 0) with 1. lia.
  - cbn [le_val length]. replace (Z.of_nat (S (length t))) with (Z.of_nat (length t) + 1) by lia.
    rewrite Z.pow_add_r by lia. change (256 ^ 1) with 256.
    assert (0 <= b < 256) by (apply Hb; left; reflexivity).
    assert (0 <= le_val t < 256 ^ Z.of_nat (length t)) by (apply IH; intros x Hx; apply Hb; right; exact Hx).
    nia.
Qed.

Lemma le_n_len : forall n v, length (le_n n v) = n.
Proof. induction n as [|n IH]; intros v; [reflexivity|]. cbn [le_n length]. f_equal. apply IH. Qed.

Lemma split_at_app : forall (a rest : list Z), split_at (wlen a) (a ++ rest) = Some (a, rest).
Proof.
  intros a rest. unfold split_at, wlen. rewrite app_length.
  replace ((0 <=? Z.of_nat (length a)) && (Z.of_nat (length a) <=? Z.of_nat (length a + length rest))) with true by lia.
  rewrite Nat2Z.id. rewrite firstn_app, skipn_app. rewrite Nat.sub_diag. cbn [firstn skipn].
  rewrite firstn_all, skipn_all, app_nil_r. reflexivity.
Qed.

(* ---------------------------------------------------------------- one record *)
Lemma read_rec_key : forall num wt r, 1 <= num < 536870912 -> 0 <= wt < 8 ->
  read_rec (key num wt ++ r) =
  if wt =? 0 then
    match read_varint 10 r with
    | Some (v, r') => Some ((num, PVar (v mod two64)), r')
    | None => None
    end
  else if wt =? 1 then
    match split_at 8 r with Some (a, r') => Some ((num, PI64 (le_val a)), r') | None => None end
  else if wt =? 2 then
    match read_varint 10 r with
    | Some (n, r') => match split_at (n mod two64) r' with
                      | Some (a, r'') => Some ((num, PLen a), r'')
                      | None => None
                      end
    | None => None
    end
  else if wt =? 5 then
    match split_at 4 r with Some (a, r') => Some ((num, PI32 (le_val a)), r') | None => None end
  else None.
Proof.
  intros num wt r Hn Hw. unfold read_rec, key.
  rewrite read_varint_varint by (unfold two64; lia). cbv zeta.
  assert (Hm : (num * 8 + wt) mod two64 = num * 8 + wt) by (unfold two64; lia). rewrite Hm.
  replace ((num * 8 + wt) / 8) with num by lia. replace ((num * 8 + wt) mod 8) with wt by lia.
  replace ((1 <=? num) && (num <? 536870912)) with true by lia. reflexivity.
Qed.

Definition chunk_ok (c : list Z) (r : wrec) : Prop :=
  rec_wf r /\ forall rest, read_rec (c ++ rest) = Some (r, rest).

Lemma enc_rec_ok : forall r, rec_wf r -> chunk_ok (enc_rec r) r.
Proof.
  intros [num p] W. split; [exact W|]. intros rest. destruct W as [Hn Hp]. cbn [fst snd] in Hn, Hp.
  unfold enc_rec. cbn [fst snd]. rewrite <- app_assoc.
  destruct p as [v|v|bs|v]; cbn [wt_of enc_payload]; rewrite read_rec_key by lia.
  - change (0 =? 0) with true. cbv iota. rewrite read_varint_varint by exact Hp.
    rewrite Z.mod_small by exact Hp. reflexivity.
  - change (1 =? 0) with false. change (1 =? 1) with true. cbv iota.
    change 8 with (wlen (le_n 8 v)) at 1. rewrite split_at_app. rewrite le_val_le_n; [reflexivity|].
    change (256 ^ Z.of_nat 8) with two64. exact Hp.
  - change (2 =? 0) with false. change (2 =? 1) with false. change (2 =? 2) with true. cbv iota.
    rewrite <- app_assoc. assert (0 <= wlen bs) by (unfold wlen; lia).
    rewrite read_varint_varint by lia. rewrite Z.mod_small by lia. rewrite split_at_app. reflexivity.
  - change (5 =? 0) with false. change (5 =? 1) with false. change (5 =? 2) with false.
    change (5 =? 5) with true. cbv iota.
    change 4 with (wlen (le_n 4 v)) at 1. rewrite split_at_app. rewrite le_val_le_n; [reflexivity|].
    change (256 ^ Z.of_nat 4) with 4294967296. exact Hp.
Qed.

(* ---------------------------------------------------------------- a sequence of records *)
Inductive reads : list Z -> list wrec -> Prop :=
| reads_nil : reads [] []
| reads_cons : forall c r cs rs, chunk_ok c r -> reads cs rs -> reads (c ++ cs) (r :: rs).

Lemma reads_app : forall a ra b rb, reads a ra -> reads b rb -> reads (a ++ b) (ra ++ rb).
Proof.
  intros a ra b rb Ha Hb. induction Ha as [|c r cs rs Hc Hcs IH]; [exact Hb|].
  rewrite <- app_assoc. cbn [app]. apply reads_cons; assumption.
Qed.

Lemma reads_wf : forall c rs, reads c rs -> Forall rec_wf rs.
Proof. intros c rs H. induction H as [|c r cs rs [W _] _ IH]; constructor; assumption. Qed.

Lemma chunk_nonempty : forall c r, chunk_ok c r -> (1 <= length c)%nat.
Proof.
  intros c r [_ H]. destruct c as [|x t]; [|cbn [length]; lia].
  specialize (H []). discriminate H.
Qed.

Lemma reads_read : forall c rs, reads c rs -> forall fuel, (length c <= fuel)%nat -> read_recs fuel c = Some rs.
Proof.
  intros c rs H. induction H as [|c r cs rs Hc Hcs IH]; intros fuel Hf.
  - destruct fuel; reflexivity.
  - pose proof (chunk_nonempty _ _ Hc) as Hne. rewrite app_length in Hf.
    destruct fuel as [|k]; [lia|]. destruct Hc as [_ Hr].
    destruct (c ++ cs) as [|x t] eqn:Ecs.
    + apply (f_equal (@length Z)) in Ecs. rewrite app_length in Ecs. cbn [length] in Ecs. lia.
    + cbn [read_recs]. rewrite <- Ecs. rewrite Hr. rewrite IH by lia. reflexivity.
Qed.

Lemma enc_recs_app : forall a b, enc_recs (a ++ b) = enc_recs a ++ enc_recs b.
Proof. intros. unfold enc_recs. rewrite map_app, concat_app. reflexivity. Qed.

Lemma enc_recs_cons : forall r rs, enc_recs (r :: rs) = enc_rec r ++ enc_recs rs.
Proof. reflexivity. Qed.

Lemma enc_recs_one : forall r, enc_recs [r] = enc_rec r.
Proof. intros. unfold enc_recs. cbn [map concat]. apply app_nil_r. Qed.

Lemma reads_enc : forall rs, Forall rec_wf rs -> reads (enc_recs rs) rs.
Proof.
  intros rs H. induction H as [|r rs Hr _ IH]; [constructor|].
  rewrite enc_recs_cons. apply reads_cons; [apply enc_rec_ok; exact Hr | exact IH].
Qed.

(* A: the reference reader inverts the reference writer *)
Theorem read_enc_roundtrip : forall rs, Forall rec_wf rs -> read_message (enc_recs rs) = Some rs.
Proof. intros rs H. unfold read_message. apply (reads_read _ _ (reads_enc rs H)). lia. Qed.
Print Assumptions read_enc_roundtrip.

(* ---------------------------------------------------------------- retained unknown fields *)
Lemma forallb_byte_ok : forall l, forallb byte_ok l = true -> forall b, In b l -> 0 <= b < 256.
Proof.
  intros l H b Hb. rewrite forallb_forall in H. specialize (H b Hb). unfold byte_ok in H. lia.
Qed.

Lemma unk_chunk : forall ids u, canon_unk ids u = true -> chunk_ok (pk_unknown u) (unk_record u).
Proof.
  intros ids [tag wt data] H. unfold canon_unk in H. cbn [u_tag u_wt u_data] in H.
  apply andb_true_iff in H. destruct H as [H Hp].
  apply andb_true_iff in H. destruct H as [H _].
  apply andb_true_iff in H. destruct H as [Ht1 Ht2].
  unfold unk_payload_ok in Hp. apply andb_true_iff in Hp. destruct Hp as [Hb Hp].
  pose proof (forallb_byte_ok _ Hb) as Hbytes. clear Hb.
  assert (Hb0 : forall b, In b data -> 0 <= b) by (intros b Hin; specialize (Hbytes b Hin); lia).
  unfold pk_unknown, unk_record, chunk_ok, rec_wf. cbn [u_tag u_wt u_data fst snd].
  destruct (Z.eqb_spec wt 0) as [E0|N0].
  { subst wt. rewrite EncLemmas.e_tag_spec by lia.
    destruct (take_varint 10 data) as [[p r]|] eqn:Et; [|discriminate Hp].
    destruct r; [|discriminate Hp].
    split; [split; [lia | apply Z.mod_pos_bound; reflexivity]|].
    intros rest. rewrite <- app_assoc. rewrite read_rec_key by lia. change (0 =? 0) with true. cbv iota.
    rewrite (read_varint_take 10 data p [] rest 10 Et Hb0) by lia.
    pose proof (take_varint_split _ _ _ _ Et) as Es. rewrite app_nil_r in Es. subst p. reflexivity. }
  destruct (Z.eqb_spec wt 1) as [E1|N1].
  { subst wt. rewrite EncLemmas.e_tag_spec by lia. apply Z.eqb_eq in Hp.
    pose proof (le_val_range data Hbytes) as Hr. unfold zlen in Hp. rewrite Hp in Hr. change (256 ^ 8) with two64 in Hr.
    split; [split; [lia | exact Hr]|].
    intros rest. rewrite <- app_assoc. rewrite read_rec_key by lia.
    change (1 =? 0) with false. change (1 =? 1) with true. cbv iota.
    replace 8 with (wlen data) by exact Hp. rewrite split_at_app. reflexivity. }
  destruct (Z.eqb_spec wt 5) as [E5|N5].
  { subst wt. rewrite EncLemmas.e_tag_spec by lia. apply Z.eqb_eq in Hp.
    pose proof (le_val_range data Hbytes) as Hr. unfold zlen in Hp. rewrite Hp in Hr. change (256 ^ 4) with 4294967296 in Hr.
    split; [split; [lia | exact Hr]|].
    intros rest. rewrite <- app_assoc. rewrite read_rec_key by lia.
    change (5 =? 0) with false. change (5 =? 1) with false. change (5 =? 2) with false.
    change (5 =? 5) with true. cbv iota.
    replace 4 with (wlen data) by exact Hp. rewrite split_at_app. reflexivity. }
  destruct (Z.eqb_spec wt 2) as [E2|N2]; [|discriminate Hp].
  subst wt. rewrite EncLemmas.e_tag_spec by lia.
  destruct (take_varint 5 data) as [[lp body]|] eqn:Et; [|discriminate Hp].
  apply andb_true_iff in Hp. destruct Hp as [Hv Hl]. apply Z.eqb_eq in Hv. apply Z.ltb_lt in Hl.
  pose proof (zlen_nonneg' _ body) as Hn.
  split; [split; [lia | rewrite wlen_zlen; unfold two64; lia]|].
  intros rest. rewrite <- app_assoc. rewrite read_rec_key by lia.
  change (2 =? 0) with false. change (2 =? 1) with false. change (2 =? 2) with true. cbv iota.
  rewrite (read_varint_take 5 data lp body rest 10 Et Hb0) by lia.
  rewrite Hv. rewrite Z.mod_small by (unfold two64; lia). rewrite <- wlen_zlen. rewrite split_at_app. reflexivity.
Qed.

Lemma reads_unknown : forall ids unk, forallb (canon_unk ids) unk = true ->
  reads (concat (map pk_unknown unk)) (map unk_record unk).
Proof.
  intros ids unk. induction unk as [|u t IH]; intros H; [constructor|].
  cbn [forallb] in H. apply andb_true_iff in H. destruct H as [Hu Ht].
  cbn [map concat]. apply reads_cons; [apply (unk_chunk ids); exact Hu | apply IH; exact Ht].
Qed.

(* ---------------------------------------------------------------- scalar cells *)
Definition payload_wf (p : payload) : Prop :=
  match p with
  | PVar v => 0 <= v < two64
  | PI64 v => 0 <= v < two64
  | PLen bs => wlen bs < two64
  | PI32 v => 0 <= v < 4294967296
  end.

Lemma rec_wf_intro : forall num p, 1 <= num < 536870912 -> payload_wf p -> rec_wf (num, p).
Proof. intros num p Hn Hp. split; [exact Hn | exact Hp]. Qed.

Lemma scalar_payload_enc : forall t w, is_scalar t = true ->
  enc_payload (scalar_payload t w) = SpecEnc.spec_scalar t w.
Proof.
  intros t w Hs. destruct t; try discriminate Hs; cbn [scalar_payload enc_payload SpecEnc.spec_scalar]; try reflexivity.
  destruct (s32 w =? 0); reflexivity.
Qed.

Lemma scalar_payload_wt : forall t w, wt_of (scalar_payload t w) = wire_type_of t.
Proof. intros t w. destruct t; reflexivity. Qed.

Lemma scalar_payload_wf : forall t w, payload_wf (scalar_payload t w).
Proof.
  intros t w. pose proof (u32_range w) as H32. pose proof (u64_range w) as H64.
  pose proof (s32_range w) as S32. pose proof (s64_range w) as S64.
  pose proof (CellRT.sext32_range _ H32) as [Hsx _].
  pose proof (CellRT.zigzag32_range' _ S32) as Hz32.
  pose proof (CellRT.zigzag64_range' _ S64) as Hz64.
  destruct t; cbn [scalar_payload payload_wf]; unfold two64; try lia; try reflexivity.
  destruct (s32 w =? 0); lia.
Qed.

(* ---------------------------------------------------------------- one present value of a known field *)
Section Known.
Variable E : env.

Lemma cell_payload_scalar : forall f w, is_scalar (f_type f) = true ->
  cell_payload E f (VWord w) = scalar_payload (f_type f) w.
Proof. intros f w Hs. unfold cell_payload. destruct (f_type f); try discriminate Hs; reflexivity. Qed.

Lemma canon_cell_scalar : forall rec f v, is_scalar (f_type f) = true -> canon_cell rec f v = true ->
  exists w, v = VWord w.
Proof.
  intros rec f v Hs Hc. unfold canon_cell in Hc.
  destruct (f_type f); try discriminate Hs; destruct v as [w|p|len p|p]; try discriminate Hc; exists w; reflexivity.
Qed.

Lemma len_rec : forall id bs, enc_rec (id, PLen bs) = key id 2 ++ varint (zlen bs) ++ bs.
Proof. reflexivity. Qed.

Lemma cell_conforms : forall f v a,
  0 < f_id f < 536870912 ->
  canon_cell (canon_msg E) f v = true ->
  pk_required (pack_msg E) f v = Ok a -> zlen a < 2147483648 ->
  a = enc_rec (f_id f, cell_payload E f v) /\ payload_wf (cell_payload E f v).
Proof.
  intros f v a Hid Hc Hp Hz.
  destruct (is_scalar (f_type f)) eqn:Hs.
  { destruct (canon_cell_scalar _ _ _ Hs Hc) as [w ->].
    rewrite (SpecEnc.scalar_cell_conforms _ f w Hs) in Hp by lia. inversion Hp; subst a.
    rewrite cell_payload_scalar by exact Hs. split; [|apply scalar_payload_wf].
    unfold enc_rec. cbn [fst snd]. rewrite scalar_payload_wt, scalar_payload_enc by exact Hs. reflexivity. }
  assert (Hid32 : 0 <= f_id f < 4294967296) by lia.
  assert (H2 : 0 <= 2 < 8) by lia.
  revert Hc Hp. unfold canon_cell, pk_required, cell_payload.
  destruct (f_type f) eqn:Et; try discriminate Hs; intros Hc Hp.
  - (* string *)
    destruct v as [w|[| |s]|len p|p]; try discriminate Hc.
    cbn [as_str bind str_bytes] in Hp. inversion Hp; subst a. clear Hp.
    change (wire_type_of TString) with 2 in *. change WT_LEN with 2 in *.
    rewrite !zlen_app' in Hz.
    pose proof (zlen_nonneg' _ (e_tag (f_id f) 2)). pose proof (zlen_nonneg' _ (e_uint32 (u32 (zlen s)))).
    pose proof (zlen_nonneg' _ s).
    rewrite (EncLemmas.e_tag_spec _ _ Hid32 H2). rewrite u32_small by lia. rewrite EncLemmas.e_uint32_spec by lia.
    split; [apply len_rec | cbn [payload_wf]; rewrite wlen_zlen; unfold two64; lia].
  - (* bytes *)
    destruct v as [w|p|len [| |s]|p]; try discriminate Hc.
    + apply Z.eqb_eq in Hc. subst len. cbn [as_bytes bind fst snd] in Hp. unfold data_bytes in Hp.
      change (0 =? 0) with true in Hp. cbv iota in Hp. cbn [bind] in Hp. inversion Hp; subst a. clear Hp.
      change (wire_type_of TBytes) with 2. change WT_LEN with 2. rewrite (EncLemmas.e_tag_spec _ _ Hid32 H2).
      split; [reflexivity | cbn [payload_wf]; unfold two64, wlen; cbn [length]; lia].
    + apply andb_true_iff in Hc. destruct Hc as [Hc _]. apply andb_true_iff in Hc. destruct Hc as [Hl0 Hl].
      apply Z.eqb_eq in Hl. apply Z.ltb_lt in Hl0.
      cbn [as_bytes bind fst snd] in Hp. unfold data_bytes in Hp.
      replace (len =? 0) with false in Hp by lia. replace (len <=? zlen s) with true in Hp by lia.
      cbn [bind] in Hp. inversion Hp; subst a. clear Hp.
      assert (Hf : firstn (Z.to_nat len) s = s).
      { rewrite Hl. unfold zlen. rewrite Nat2Z.id. apply firstn_all. }
      rewrite Hf in *.
      change (wire_type_of TBytes) with 2 in *. change WT_LEN with 2 in *.
      rewrite !zlen_app' in Hz.
      pose proof (zlen_nonneg' _ (e_tag (f_id f) 2)). pose proof (zlen_nonneg' _ (e_uint32 (u32 len))).
      rewrite (EncLemmas.e_tag_spec _ _ Hid32 H2). rewrite u32_small by lia. rewrite EncLemmas.e_uint32_spec by lia.
      rewrite Hl. split; [apply len_rec | cbn [payload_wf]; rewrite wlen_zlen; unfold two64; lia].
  - (* embedded message *)
    destruct v as [w|p|len p|[m|]]; try discriminate Hc.
    destruct (pack_msg E m) as [b'|e] eqn:Eb; cbn [bind] in Hp; [|discriminate Hp].
    inversion Hp; subst a. clear Hp.
    unfold sub_bytes. rewrite Eb.
    change (wire_type_of TMessage) with 2 in *. change WT_LEN with 2 in *.
    rewrite !zlen_app' in Hz.
    pose proof (zlen_nonneg' _ (e_tag (f_id f) 2)). pose proof (zlen_nonneg' _ (e_uint32 (u32 (zlen b')))).
    pose proof (zlen_nonneg' _ b').
    rewrite (EncLemmas.e_tag_spec _ _ Hid32 H2). rewrite u32_small by lia. rewrite EncLemmas.e_uint32_spec by lia.
    split; [apply len_rec | cbn [payload_wf]; rewrite wlen_zlen; unfold two64; lia].
Qed.

End Known.

(* ---------------------------------------------------------------- one slot of a known field *)
Lemma concatM_n_nil : forall A B (f : A -> res (list B)) k, concatM_n f [] k = match k with O => Ok [] | S _ => Err EOob end.
Proof. intros. destruct k; reflexivity. Qed.

Lemma concatM_n_cons : forall A B (f : A -> res (list B)) x t k,
  concatM_n f (x :: t) (S k) = (do y <- f x; do ys <- concatM_n f t k; Ok (y ++ ys)).
Proof. reflexivity. Qed.

Lemma shallow_eq' : forall a b, sval_eqb_shallow a b = true -> a = b.
Proof.
  intros a b H. destruct a as [x|[| |s]|n [| |s]|[m|]]; destruct b as [y|[| |s']|k [| |s']|[m'|]]; try discriminate H;
    cbn [sval_eqb_shallow] in H; try reflexivity; apply Z.eqb_eq in H; subst; reflexivity.
Qed.

Lemma field_ok_parts : forall nu f, field_ok nu f = true ->
  0 < f_id f < 4294967296 /\
  match f_label f, f_quant f with
  | LRepeated, QCount => negb (f_oneof f)
  | LRepeated, _ => false
  | LRequired, QNone => negb (f_oneof f)
  | LRequired, _ => false
  | (LOptional | LNone), QCase g => f_oneof f && Nat.ltb g nu
  | LOptional, QHas => negb (f_oneof f) && negb (ftype_eqb (f_type f) TString) && negb (ftype_eqb (f_type f) TMessage)
  | LOptional, QNone => negb (f_oneof f) && (ftype_eqb (f_type f) TString || ftype_eqb (f_type f) TMessage)
  | LNone, QNone => negb (f_oneof f)
  | _, _ => false
  end = true /\
  (f_packed f = true -> is_scalar (f_type f) = true).
Proof.
  intros nu f H. unfold field_ok in H.
  apply andb_true_iff in H. destruct H as [H _].
  apply andb_true_iff in H. destruct H as [H Hp].
  apply andb_true_iff in H. destruct H as [H Hq].
  apply andb_true_iff in H. destruct H as [H1 H2].
  split; [lia|]. split; [exact Hq|].
  intros Ep. rewrite Ep in Hp. apply andb_true_iff in Hp. destruct Hp as [_ Hp]. exact Hp.
Qed.

Definition fgood (nu : nat) (f : field) : Prop :=
  field_ok nu f = true /\ 0 < f_id f < 536870912 /\ (f_label f = LNone -> zeroish f (init_cell f) = Ok true).

Section Known2.
Variable E : env.

Lemma canon_ptr_present : forall rec f v, canon_cell rec f v = true -> ptr_absent f v = Ok false.
Proof.
  intros rec f v Hc. unfold canon_cell in Hc. unfold ptr_absent.
  destruct (f_type f); try reflexivity.
  - destruct v as [w|[| |s]|len p|p]; try discriminate Hc. reflexivity.
  - destruct v as [w|p|len p|[m|]]; try discriminate Hc. reflexivity.
Qed.

Lemma init_ptr_absent : forall f, (ftype_eqb (f_type f) TString || ftype_eqb (f_type f) TMessage) = true ->
  ptr_absent f (init_cell f) = Ok true.
Proof.
  intros f H. unfold ptr_absent, init_cell. destruct (f_type f); try discriminate H.
  - destruct (f_default f); reflexivity.
  - reflexivity.
Qed.

Lemma pk_optional_has : forall rec f has v,
  ftype_eqb (f_type f) TString = false -> ftype_eqb (f_type f) TMessage = false ->
  pk_optional rec f has v = if has =? 0 then Ok [] else pk_required rec f v.
Proof. intros rec f has v H1 H2. unfold pk_optional. destruct (f_type f); try discriminate H1; try discriminate H2; reflexivity. Qed.

Lemma pk_optional_ptr : forall rec f has v,
  (ftype_eqb (f_type f) TString || ftype_eqb (f_type f) TMessage) = true ->
  pk_optional rec f has v = (do a <- ptr_absent f v; if a then Ok [] else pk_required rec f v).
Proof. intros rec f has v H. unfold pk_optional. destruct (f_type f); try discriminate H; reflexivity. Qed.

Lemma none_conforms : forall rs, rs = [] -> @nil Z = enc_recs rs /\ Forall rec_wf rs.
Proof. intros rs ->. split; [reflexivity | constructor]. Qed.

Lemma one_conforms : forall f v a,
  0 < f_id f < 536870912 ->
  canon_cell (canon_msg E) f v = true ->
  pk_required (pack_msg E) f v = Ok a -> zlen a < 2147483648 ->
  a = enc_recs (one E f v) /\ Forall rec_wf (one E f v).
Proof.
  intros f v a Hid Hc Hp Hz. destruct (cell_conforms E f v a Hid Hc Hp Hz) as [Ha Hw].
  unfold one. rewrite enc_recs_one. split; [exact Ha|].
  constructor; [|constructor]. apply rec_wf_intro; [lia | exact Hw].
Qed.

Lemma rep_unpacked : forall f l a, 0 < f_id f < 536870912 ->
  forallb (canon_cell (canon_msg E) f) l = true ->
  concatM_n (pk_required (pack_msg E) f) l (length l) = Ok a -> zlen a < 2147483648 ->
  a = enc_recs (map (fun v => (f_id f, cell_payload E f v)) l) /\
  Forall rec_wf (map (fun v => (f_id f, cell_payload E f v)) l).
Proof.
  intros f l. induction l as [|x t IH]; intros a Hid Hc Hp Hz.
  - cbn [length] in Hp. rewrite concatM_n_nil in Hp. inversion Hp. split; [reflexivity | constructor].
  - cbn [length] in Hp. rewrite concatM_n_cons in Hp. cbn [forallb] in Hc.
    apply andb_true_iff in Hc. destruct Hc as [Hx Ht].
    destruct (pk_required (pack_msg E) f x) as [y|e] eqn:Ey; cbn [bind] in Hp; [|discriminate Hp].
    destruct (concatM_n (pk_required (pack_msg E) f) t (length t)) as [ys|e] eqn:Eys; cbn [bind] in Hp; [|discriminate Hp].
    inversion Hp; subst a. clear Hp. rewrite zlen_app' in Hz.
    pose proof (zlen_nonneg' _ y). pose proof (zlen_nonneg' _ ys).
    destruct (cell_conforms E f x y Hid Hx Ey ltac:(lia)) as [Hy Hw].
    destruct (IH ys Hid Ht eq_refl ltac:(lia)) as [Hys Hws].
    cbn [map]. rewrite enc_recs_cons. split; [rewrite <- Hy, <- Hys; reflexivity|].
    constructor; [apply rec_wf_intro; [lia | exact Hw] | exact Hws].
Qed.

Lemma rep_packed : forall f l, is_scalar (f_type f) = true ->
  forallb (canon_cell (canon_msg E) f) l = true ->
  concatM_n (pk_packed_elem f) l (length l) = Ok (concat (map (fun v => enc_payload (cell_payload E f v)) l)).
Proof.
  intros f l Hs. induction l as [|x t IH]; intros Hc.
  - reflexivity.
  - cbn [forallb] in Hc. apply andb_true_iff in Hc. destruct Hc as [Hx Ht].
    destruct (canon_cell_scalar _ _ _ Hs Hx) as [w ->].
    cbn [length]. rewrite concatM_n_cons. rewrite SpecEnc.packed_elem_conforms by exact Hs.
    rewrite (IH Ht). cbn [bind map concat]. rewrite cell_payload_scalar by exact Hs.
    rewrite scalar_payload_enc by exact Hs. reflexivity.
Qed.

Lemma union_conforms : forall unions f g a, 0 < f_id f < 536870912 ->
  with_nth (fun cv : Z * sval => if fst cv =? f_id f then canon_cell (canon_msg E) f (snd cv) else true) false unions g = true ->
  with_nth (fun cv : Z * sval => pk_oneof (pack_msg E) f (fst cv) (snd cv)) (Err EDesc) unions g = Ok a ->
  zlen a < 2147483648 ->
  a = enc_recs (with_nth (fun cv : Z * sval => if fst cv =? f_id f then one E f (snd cv) else []) [] unions g) /\
  Forall rec_wf (with_nth (fun cv : Z * sval => if fst cv =? f_id f then one E f (snd cv) else []) [] unions g).
Proof.
  intros unions f g a Hid Hc Hp Hz. rewrite with_nth_nth_error in Hc, Hp. rewrite with_nth_nth_error.
  destruct (nth_error unions g) as [[c v]|]; [|discriminate Hc].
  cbn [fst snd] in *. unfold pk_oneof in Hp.
  destruct (c =? f_id f).
  - cbn [negb] in Hp. rewrite (canon_ptr_present _ _ _ Hc) in Hp. cbn [bind] in Hp.
    apply one_conforms; assumption.
  - cbn [negb] in Hp. inversion Hp. apply none_conforms. reflexivity.
Qed.

Lemma slot_conforms : forall nu unions f s a, fgood nu f ->
  canon_slot (canon_msg E) unions f s = true ->
  pk_field (pack_msg E) unions f s = Ok a -> zlen a < 2147483648 ->
  a = enc_recs (slot_records E unions f s) /\ Forall rec_wf (slot_records E unions f s).
Proof.
  intros nu unions f s a [Hok [Hid Hzero]] Hc Hp Hz.
  destruct (field_ok_parts _ _ Hok) as [_ [Hsh Hpk]].
  revert Hc Hp Hsh Hzero. unfold canon_slot, pk_field, slot_records.
  destruct (f_label f) eqn:El; destruct s as [has v|n cap arr|g]; intros Hc Hp Hsh Hzero; try discriminate Hc.
  - (* required *)
    apply andb_true_iff in Hc. destruct Hc as [_ Hc]. apply one_conforms; assumption.
  - (* optional, own member *)
    destruct (f_oneof f) eqn:Eo; [discriminate Hp|].
    destruct (f_quant f) eqn:Eq; try discriminate Hsh.
    + (* pointer-valued: string / message *)
      cbn [negb andb] in Hsh. rewrite (pk_optional_ptr _ _ _ _ Hsh) in Hp.
      apply andb_true_iff in Hc. destruct Hc as [_ Hc]. unfold is_init.
      destruct (sval_eqb_shallow v (init_cell f)) eqn:Ei.
      * apply shallow_eq' in Ei. subst v. rewrite (init_ptr_absent _ Hsh) in Hp. cbn [bind] in Hp.
        inversion Hp. apply none_conforms. reflexivity.
      * cbn [orb] in Hc. rewrite (canon_ptr_present _ _ _ Hc) in Hp. cbn [bind] in Hp.
        apply one_conforms; assumption.
    + (* has_ flag *)
      cbn [negb andb] in Hsh. apply andb_true_iff in Hsh. destruct Hsh as [Hs1 Hs2].
      apply negb_true_iff in Hs1. apply negb_true_iff in Hs2.
      rewrite (pk_optional_has _ _ _ _ Hs1 Hs2) in Hp.
      destruct (has =? 0).
      * inversion Hp. apply none_conforms. reflexivity.
      * apply andb_true_iff in Hc. destruct Hc as [_ Hc]. apply one_conforms; assumption.
  - (* optional, oneof member *)
    destruct (f_oneof f) eqn:Eo; [|discriminate Hp].
    apply andb_true_iff in Hc. destruct Hc as [_ Hc]. apply union_conforms; assumption.
  - (* repeated *)
    unfold pk_repeated in Hp.
    destruct arr as [l|].
    + apply andb_true_iff in Hc. destruct Hc as [Hc Hall].
      apply andb_true_iff in Hc. destruct Hc as [Hc _].
      apply andb_true_iff in Hc. destruct Hc as [Hc _].
      apply andb_true_iff in Hc. destruct Hc as [Hn0 Hn].
      apply Z.ltb_lt in Hn0. apply Z.eqb_eq in Hn.
      replace (n =? 0) with false in Hp by lia.
      assert (Hlen : Z.to_nat n = length l) by (rewrite Hn; unfold zlen; apply Nat2Z.id).
      rewrite Hlen in Hp.
      destruct (f_packed f) eqn:Epk.
      * specialize (Hpk eq_refl). rewrite (rep_packed f l Hpk Hall) in Hp. cbn [bind] in Hp.
        set (payload := concat (map (fun v : sval => enc_payload (cell_payload E f v)) l)) in *.
        match type of Hp with (if ?c then _ else _) = _ => destruct c; [|discriminate Hp] end.
        inversion Hp; subst a. clear Hp. change WT_LEN with 2 in *.
        rewrite !zlen_app' in Hz.
        pose proof (zlen_nonneg' _ (e_tag (f_id f) 2)). pose proof (zlen_nonneg' _ (e_uint32 (u32 (zlen payload)))).
        pose proof (zlen_nonneg' _ payload).
        rewrite EncLemmas.e_tag_spec by lia. rewrite u32_small by lia. rewrite EncLemmas.e_uint32_spec by lia.
        rewrite enc_recs_one. split; [apply len_rec|].
        constructor; [|constructor]. apply rec_wf_intro; [lia|]. cbn [payload_wf]. rewrite wlen_zlen. unfold two64. lia.
      * apply rep_unpacked; assumption.
    + apply andb_true_iff in Hc. destruct Hc as [Hn _]. rewrite Hn in Hp.
      destruct (f_packed f); inversion Hp; apply none_conforms; reflexivity.
  - (* implicit presence, own member *)
    destruct (f_oneof f) eqn:Eo; [discriminate Hp|].
    unfold pk_unlabeled in Hp. apply andb_true_iff in Hc. destruct Hc as [_ Hc]. unfold is_init.
    destruct (sval_eqb_shallow v (init_cell f)) eqn:Ei.
    + apply shallow_eq' in Ei. subst v. rewrite (Hzero eq_refl) in Hp. cbn [bind] in Hp.
      inversion Hp. apply none_conforms. reflexivity.
    + cbn [orb] in Hc. apply andb_true_iff in Hc. destruct Hc as [Hc Hnz].
      destruct (zeroish f v) as [[|]|e]; try discriminate Hnz. cbn [bind] in Hp.
      apply one_conforms; assumption.
  - (* implicit presence, oneof member *)
    destruct (f_oneof f) eqn:Eo; [|discriminate Hp].
    apply andb_true_iff in Hc. destruct Hc as [_ Hc]. apply union_conforms; assumption.
Qed.

(* ---------------------------------------------------------------- all known fields *)
Lemma pk_fields_cons : forall rec unions f fs s ss,
  pk_fields rec unions (f :: fs) (s :: ss) =
  (do a <- pk_field rec unions f s; do b <- pk_fields rec unions fs ss; Ok (a ++ b)).
Proof. reflexivity. Qed.

Lemma canon_slots_cons : forall rec unions f fs s ss,
  canon_slots rec unions (f :: fs) (s :: ss) = canon_slot rec unions f s && canon_slots rec unions fs ss.
Proof. reflexivity. Qed.

Lemma fields_conform : forall nu unions ss fs a, Forall (fgood nu) fs ->
  canon_slots (canon_msg E) unions fs ss = true ->
  pk_fields (pack_msg E) unions fs ss = Ok a -> zlen a < 2147483648 ->
  a = enc_recs (known_records E unions fs ss) /\ Forall rec_wf (known_records E unions fs ss).
Proof.
  intros nu unions ss. induction ss as [|s ss IH]; intros fs a Hg Hc Hp Hz.
  - destruct fs as [|f fs]; [|discriminate Hc]. inversion Hp. split; [reflexivity | constructor].
  - destruct fs as [|f fs]; [discriminate Hc|].
    rewrite canon_slots_cons in Hc. apply andb_true_iff in Hc. destruct Hc as [Hcs Hct].
    rewrite pk_fields_cons in Hp.
    destruct (pk_field (pack_msg E) unions f s) as [x|e] eqn:Ex; cbn [bind] in Hp; [|discriminate Hp].
    destruct (pk_fields (pack_msg E) unions fs ss) as [y|e] eqn:Ey; cbn [bind] in Hp; [|discriminate Hp].
    inversion Hp; subst a. clear Hp. rewrite zlen_app' in Hz.
    pose proof (zlen_nonneg' _ x). pose proof (zlen_nonneg' _ y).
    inversion Hg as [|f' fs' Hgf Hgt]; subst.
    destruct (slot_conforms nu unions f s x Hgf Hcs Ex ltac:(lia)) as [Hx Hwx].
    destruct (IH fs y Hgt Hct Ey ltac:(lia)) as [Hy Hwy].
    cbn [known_records]. rewrite enc_recs_app. split; [rewrite <- Hx, <- Hy; reflexivity|].
    apply Forall_app. split; assumption.
Qed.

End Known2.

Lemma desc_ok_fgood : forall n md, desc_ok n md = true -> Forall (fgood (md_n_oneofs md)) (md_fields md).
Proof.
  intros n md H. unfold desc_ok in H. cbv zeta in H.
  apply andb_true_iff in H. destruct H as [H Hzero].
  apply andb_true_iff in H. destruct H as [H _].
  apply andb_true_iff in H. destruct H as [H _].
  apply andb_true_iff in H. destruct H as [H _].
  apply andb_true_iff in H. destruct H as [H Hok].
  apply andb_true_iff in H. destruct H as [_ Hids].
  rewrite forallb_forall in Hzero, Hok, Hids.
  apply Forall_forall. intros f Hf. split; [apply Hok; exact Hf|]. split.
  - specialize (Hids (f_id f) (in_map f_id _ _ Hf)). cbv beta in Hids. lia.
  - intros El. specialize (Hzero f Hf). cbv beta in Hzero. rewrite El in Hzero.
    destruct (zeroish f (init_cell f)) as [[|]|e]; try discriminate Hzero. reflexivity.
Qed.

Lemma pack_msg_eq : forall E d slots unions unk,
  pack_msg E (Msg d slots unions unk) =
  match nth_error E d with
  | None => Err EDesc
  | Some md => do a <- pk_fields (pack_msg E) unions (md_fields md) slots; Ok (a ++ concat (map pk_unknown unk))
  end.
Proof. reflexivity. Qed.

Lemma canon_msg_eq : forall E d slots unions unk,
  canon_msg E (Msg d slots unions unk) =
  match nth_error E d with
  | None => false
  | Some md =>
      Nat.eqb (length unions) (md_n_oneofs md) &&
      canon_slots (canon_msg E) unions (md_fields md) slots &&
      canon_unions (md_fields md) 0 unions &&
      forallb (canon_unk (map f_id (md_fields md))) unk
  end.
Proof. reflexivity. Qed.

(* the bytes are: the shortest-form encoding of the known records, then the retained unknown fields as received *)
Lemma pack_structure : forall (E : env) (m : msg) (b : list Z),
  env_ok E = true -> canon_msg E m = true -> pack_msg E m = Ok b -> zlen b < 2147483648 ->
  exists known,
    records E m = known ++ map unk_record (m_unk m) /\
    b = enc_recs known ++ concat (map pk_unknown (m_unk m)) /\
    Forall rec_wf known /\
    reads (concat (map pk_unknown (m_unk m))) (map unk_record (m_unk m)).
Proof.
  intros E [d slots unions unk] b HE Hc Hp Hz.
  rewrite canon_msg_eq in Hc. rewrite pack_msg_eq in Hp. unfold records. cbn [m_unk].
  destruct (nth_error E d) as [md|] eqn:Ed; [|discriminate Hc].
  assert (Hd : desc_ok (length E) md = true).
  { unfold env_ok in HE. rewrite forallb_forall in HE. apply HE. apply (nth_error_In _ _ Ed). }
  apply andb_true_iff in Hc. destruct Hc as [Hc Hunk].
  apply andb_true_iff in Hc. destruct Hc as [Hc _].
  apply andb_true_iff in Hc. destruct Hc as [_ Hslots].
  destruct (pk_fields (pack_msg E) unions (md_fields md) slots) as [a|e] eqn:Ea; cbn [bind] in Hp; [|discriminate Hp].
  inversion Hp; subst b. clear Hp. rewrite zlen_app' in Hz.
  pose proof (zlen_nonneg' _ a). pose proof (zlen_nonneg' _ (concat (map pk_unknown unk))).
  destruct (fields_conform E _ unions slots (md_fields md) a (desc_ok_fgood _ _ Hd) Hslots Ea ltac:(lia)) as [Ha Hw].
  exists (known_records E unions (md_fields md) slots).
  split; [reflexivity|]. split; [rewrite <- Ha; reflexivity|]. split; [exact Hw|].
  apply (reads_unknown _ _ Hunk).
Qed.

Lemma pack_reads : forall (E : env) (m : msg) (b : list Z),
  env_ok E = true -> canon_msg E m = true -> pack_msg E m = Ok b -> zlen b < 2147483648 ->
  reads b (records E m).
Proof.
  intros E m b HE Hc Hp Hz. destruct (pack_structure E m b HE Hc Hp Hz) as [known [Hr [Hb [Hw Hu]]]].
  rewrite Hr, Hb. apply reads_app; [apply reads_enc; exact Hw | exact Hu].
Qed.

(* B: the bytes protobuf_c_message_pack writes for a canonical message are read by the reference reader as exactly the
   records the message denotes *)
Theorem pack_reads_as_records : forall (E : env) (m : msg) (b : list Z),
  env_ok E = true -> canon_msg E m = true -> pack_msg E m = Ok b -> zlen b < 2147483648 ->
  read_message b = Some (records E m).
Proof.
  intros E m b HE Hc Hp Hz. unfold read_message.
  apply (reads_read _ _ (pack_reads E m b HE Hc Hp Hz)). lia.
Qed.
Print Assumptions pack_reads_as_records.

(* C: those records are records the format can carry (field numbers 1 .. 2^29-1, values in range) *)
Theorem records_wf : forall (E : env) (m : msg) (b : list Z),
  env_ok E = true -> canon_msg E m = true -> pack_msg E m = Ok b -> zlen b < 2147483648 ->
  Forall rec_wf (records E m).
Proof.
  intros E m b HE Hc Hp Hz. apply (reads_wf b). apply pack_reads; assumption.
Qed.
Print Assumptions records_wf.

(* D: without retained unknown fields at the top level, the bytes ARE the shortest-form encoding of the records *)
Theorem pack_is_enc_of_records : forall (E : env) (m : msg) (b : list Z),
  env_ok E = true -> canon_msg E m = true -> pack_msg E m = Ok b -> zlen b < 2147483648 ->
  m_unk m = [] -> b = enc_recs (records E m).
Proof.
  intros E m b HE Hc Hp Hz Hu. destruct (pack_structure E m b HE Hc Hp Hz) as [known [Hr [Hb _]]].
  rewrite Hr, Hb, Hu. cbn [map concat]. rewrite !app_nil_r. reflexivity.
Qed.
Print Assumptions pack_is_enc_of_records.

(* What C19 calls "lacking something serialisation needs", written from the
   property text and the serialisers' unconditional dereferences, not from
   protobuf_c_message_check. *)
From Coq Require Import ZArith List Bool.
From PBC Require Import Base.CInt Impl.Desc Impl.Mem.
Import ListNotations.
Local Open Scope Z_scope.

Section Defect.
Variable E : env.

Definition null_str (v : sval) : bool :=
  match as_str v with Ok PNull => true | _ => false end.
Definition null_msg (v : sval) : bool :=
  match as_msg v with Ok None => true | _ => false end.
(* a length without data *)
Definition bad_bytes (v : sval) : bool :=
  match as_bytes v with Ok (len, PNull) => negb (len =? 0) | _ => false end.

(* a cell the serialisers will emit.  [must] : a null string / sub-message pointer is
   itself a defect (required fields and elements of repeated fields); otherwise a null
   pointer means "absent" *)
Definition cell_defect (rec : msg -> bool) (f : field) (must : bool) (v : sval) : bool :=
  match f_type f with
  | TString => must && null_str v
  | TBytes => bad_bytes v
  | TMessage => match v with
                | VMsg (Some sub) => rec sub
                | _ => must && null_msg v
                end
  | _ => false
  end.

Definition existsb_n {A} (p : A -> bool) : list A -> nat -> bool :=
  fix go (l : list A) (k : nat) {struct l} : bool :=
    match k, l with
    | O, _ => false
    | S k', x :: t => p x || go t k'
    | S _, [] => false
    end.

Definition field_defect (rec : msg -> bool) (unions : list (Z * sval)) (f : field) (s : slot) : bool :=
  match f_label f, s with
  | LRequired, SOne _ v => cell_defect rec f true v
  | LOptional, SOne has v =>
      negb (f_oneof f) &&
      match f_type f with
      | TBytes => negb (has =? 0) && bad_bytes v    (* presence of optional bytes is the has_ flag *)
      | _ => cell_defect rec f false v
      end
  | LNone, SOne _ v => negb (f_oneof f) && cell_defect rec f false v
  | (LOptional | LNone), SUnion g =>
      f_oneof f &&
      with_nth (fun cv : Z * sval => (fst cv =? f_id f) && cell_defect rec f false (snd cv)) false unions g
  | LRepeated, SRep n _ arr =>
      negb (n =? 0) &&
      match arr with
      | None => true                                (* a count without an array *)
      | Some l => existsb_n (cell_defect rec f true) l (Z.to_nat n)
      end
  | _, _ => false
  end.

Definition fields_defect rec unions : list field -> list slot -> bool :=
  fix go (fs : list field) (ss : list slot) {struct ss} : bool :=
    match fs, ss with
    | f :: fs', s :: ss' => field_defect rec unions f s || go fs' ss'
    | _, _ => false
    end.

(* some field that will be serialised, at any nesting depth, lacks what it needs *)
Fixpoint defect_msg (m : msg) : bool :=
  match m with
  | Msg d slots unions unk =>
      match nth_error E d with
      | None => false
      | Some md => fields_defect defect_msg unions (md_fields md) slots
      end
  end.

End Defect.

(* C03 -- packed bytes are valid protobuf with the same meaning (encoder interop).
   Statements only; proofs in Proofs/SpecEnc.v (on top of the leaf encoder specs of Proofs/LeafEnc.v, which are
   about the code regenerated from protobuf-c.c).  Spec/Wire.v is written from the encoding specification.
   That the reference implementation reads the bytes back to the same value is decided by the reference tie
   (libprotobuf, harness/cxx/ref_driver.cc): byte-identical serialisation and identical parse result. *)
From Coq Require Import ZArith List Bool.
From PBC Require Import Base.CInt Spec.Wire Impl.Desc Impl.Mem Impl.Enc Impl.Pack Impl.WF Impl.Canon Impl.Denote Spec.WireMsg Proofs.SpecEnc Proofs.Examples.
From PBC Require Import Impl.Unpack Impl.SpecParse.
From PBC Require Proofs.WholeMsg Proofs.SpecCanon4.
Import ListNotations.
Local Open Scope Z_scope.

(* every scalar, for every raw cell content: shortest varint of the (sign-extended / zig-zagged) value,
   or little-endian fixed width *)
Theorem C03_scalar_encoding : forall t w, is_scalar t = true -> e_scalar t w = Ok (spec_scalar t w).
Proof. exact scalar_conforms. Qed.
Print Assumptions C03_scalar_encoding.

Theorem C03_varint_is_shortest : forall v l, 0 <= v < 18446744073709551616 ->
  wfv l -> (forall b, In b l -> 0 <= b) -> varint_val l = v ->
  wfv (varint v) /\ varint_val (varint v) = v /\ (length (varint v) <= length l)%nat.
Proof. exact varint_shortest. Qed.
Print Assumptions C03_varint_is_shortest.

Theorem C03_key_encoding : forall id wt, 0 <= id < 4294967296 -> 0 <= wt < 8 -> e_tag id wt = key id wt.
Proof. exact key_conforms. Qed.
Print Assumptions C03_key_encoding.

Theorem C03_scalar_field : forall rec f w, is_scalar (f_type f) = true -> 0 <= f_id f < 4294967296 ->
  pk_required rec f (VWord w) = Ok (key (f_id f) (wire_type_of (f_type f)) ++ spec_scalar (f_type f) w).
Proof. exact scalar_cell_conforms. Qed.
Print Assumptions C03_scalar_field.

Theorem C03_string_field : forall rec f s, f_type f = TString -> 0 <= f_id f < 4294967296 -> zlen s < 4294967296 ->
  pk_required rec f (VStr (PHeap s)) = Ok (key (f_id f) 2 ++ varint (zlen s) ++ s).
Proof. exact string_cell_conforms. Qed.
Print Assumptions C03_string_field.

Theorem C03_embedded_message : forall rec f sub b, f_type f = TMessage -> 0 <= f_id f < 4294967296 ->
  rec sub = Ok b -> zlen b < 4294967296 ->
  pk_required rec f (VMsg (Some sub)) = Ok (key (f_id f) 2 ++ varint (zlen b) ++ b).
Proof. exact message_cell_conforms. Qed.
Print Assumptions C03_embedded_message.

(* repeated scalars are packed exactly when the descriptor says so *)
Theorem C03_packed_iff_declared : forall rec f n l bytes, n <> 0 ->
  pk_repeated rec f n (Some l) = Ok bytes ->
  if f_packed f
  then exists payload, concatM_n (pk_packed_elem f) l (Z.to_nat n) = Ok payload /\
                       bytes = e_tag (f_id f) 2 ++ e_uint32 (u32 (zlen payload)) ++ payload
  else concatM_n (pk_required rec f) l (Z.to_nat n) = Ok bytes.
Proof. exact repeated_packed_iff_flag. Qed.
Print Assumptions C03_packed_iff_declared.

Theorem C03_packed_element : forall f w, is_scalar (f_type f) = true ->
  pk_packed_elem f (VWord w) = Ok (spec_scalar (f_type f) w).
Proof. exact packed_elem_conforms. Qed.
Print Assumptions C03_packed_element.

(* ---- the message as a whole (Spec/WireMsg.v, Impl/Denote.v, Proofs/WholeMsg.v) *)
(* the reference reader, written from the encoding document, inverts the reference writer: the specification is coherent *)
Theorem C03_reference_reader_inverts_reference_writer : forall rs, Forall rec_wf rs -> read_message (enc_recs rs) = Some rs.
Proof. exact WholeMsg.read_enc_roundtrip. Qed.
Print Assumptions C03_reference_reader_inverts_reference_writer.

(* VALID PROTOBUF WITH THE SAME MEANING: the bytes protobuf_c_message_pack writes for a canonical message are read by the
   reference reader as exactly the records the message denotes: every present field, in ascending field-number order,
   with the value the encoding document prescribes, then the retained unknown fields *)
Theorem C03_packed_bytes_read_as_the_records_the_message_denotes : forall (E : env) (m : msg) (b : list Z),
  env_ok E = true -> canon_msg E m = true -> pack_msg E m = Ok b -> zlen b < 2147483648 ->
  read_message b = Some (records E m).
Proof. exact WholeMsg.pack_reads_as_records. Qed.
Print Assumptions C03_packed_bytes_read_as_the_records_the_message_denotes.

(* ... and these are records the format can carry: field numbers in 1 .. 2^29-1, values within their width *)
Theorem C03_denoted_records_are_well_formed : forall (E : env) (m : msg) (b : list Z),
  env_ok E = true -> canon_msg E m = true -> pack_msg E m = Ok b -> zlen b < 2147483648 ->
  Forall rec_wf (records E m).
Proof. exact WholeMsg.records_wf. Qed.
Print Assumptions C03_denoted_records_are_well_formed.

(* without retained unknown fields (whose bytes are written back as they came, possibly with padded varints) the output
   IS the shortest-form encoding of the records: no padding, no reordering, nothing else *)
Theorem C03_packed_bytes_are_the_shortest_encoding_of_the_records : forall (E : env) (m : msg) (b : list Z),
  env_ok E = true -> canon_msg E m = true -> pack_msg E m = Ok b -> zlen b < 2147483648 ->
  m_unk m = [] -> b = enc_recs (records E m).
Proof. exact WholeMsg.pack_is_enc_of_records. Qed.
Print Assumptions C03_packed_bytes_are_the_shortest_encoding_of_the_records.

(* non-vacuous: the example message (all four wire types, a packed field, a oneof, a nested message with an unknown
   field) meets the hypotheses and denotes seven records *)
Theorem C03_whole_message_nonvacuous :
  env_ok ex_env = true /\ canon_msg ex_env ex_msg = true /\
  (exists b, pack_msg ex_env ex_msg = Ok b /\ zlen b < 2147483648 /\ read_message b = Some (records ex_env ex_msg)) /\
  length (records ex_env ex_msg) = 7%nat.
Proof.
  split; [exact ex_env_ok|]. split; [exact ex_canon|]. split; [|vm_compute; reflexivity].
  destruct (pack_msg ex_env ex_msg) as [b|e] eqn:Hp; [|vm_compute in Hp; discriminate Hp].
  exists b. split; [reflexivity|].
  assert (Hl : zlen b < 2147483648) by (vm_compute in Hp; injection Hp as <-; vm_compute; reflexivity).
  split; [exact Hl|]. exact (WholeMsg.pack_reads_as_records ex_env ex_msg b ex_env_ok ex_canon Hp Hl).
Qed.
Print Assumptions C03_whole_message_nonvacuous.

(* THE SAME MEANING, as a value: the specification-level reading (Impl/SpecParse.v: reference reader, then one fold over the
   records with the primitives of Spec/Wire.v -- no C decoder involved) of the bytes protobuf_c_message_pack writes for a
   canonical message IS that message.  (unk_strict: no retained unknown field holds a varint that overflows 64 bits; the
   specification refuses those.) *)
Theorem C03_specification_reads_packed_bytes_as_the_original_message : forall (E : env) (m : msg) (b : list Z),
  env_ok E = true -> canon_msg E m = true -> unk_strict m = true ->
  pack_msg E m = Ok b -> zlen b <= 268435425 ->
  spec_parse_top E (m_desc m) b = Some m.
Proof. exact SpecCanon4.spec_reads_canonical. Qed.
Print Assumptions C03_specification_reads_packed_bytes_as_the_original_message.

(* Refinement of the specification-level parser, part 4: the whole message.
   After the scan and the allocation the two message states are related ([init_rel]), every required field the
   specification asks for was met by the scan ([required_scanned]), and the induction on the fuel
   ([spec_parse_refines]: the two sides pass the same fuel to the reading of a sub-message). *)
From Coq Require Import ZArith List Bool Lia.
From PBC Require Import Base.CInt Gen.LeafC Spec.Wire Spec.WireMsg Spec.WireRaw Impl.Desc Impl.Mem Impl.Enc Impl.WF Impl.Unpack
     Impl.Canon Impl.SpecParse Proofs.SpecRefine1 Proofs.SpecRefine2 Proofs.SpecRefine3.
From PBC Require Proofs.LeafSafe Proofs.ScanRec Proofs.ScanCount Proofs.ParseSafe Proofs.Required Proofs.MsgRT4 Proofs.Examples.
Import ListNotations.
Local Open Scope Z_scope.

Local Notation bytes := LeafSafe.bytes.
Local Notation total := ScanCount.total.

Lemma read_raw_recs_wf : forall fuel b rs, bytes b -> read_raw_recs 5 fuel b = Some rs -> Forall rec_wf rs.
Proof.
  induction fuel as [|k IH]; intros b rs HB H.
  - destruct b as [|x b]; cbn [read_raw_recs] in H; [|discriminate H]. inversion H. constructor.
  - destruct b as [|x b]; [cbn [read_raw_recs] in H; inversion H; constructor|].
    set (data := x :: b) in *.
    change (read_raw_recs 5 (S k) data) with
      (match read_raw_rec 5 data with
       | Some (r, rest) => match read_raw_recs 5 k rest with Some rs => Some (r :: rs) | None => None end
       | None => None
       end) in H.
    destruct (read_raw_rec 5 data) as [[r rest]|] eqn:Er; [|discriminate H].
    destruct (read_raw_recs 5 k rest) as [rs'|] eqn:Ers; [|discriminate H].
    inversion H; subst rs.
    destruct (read_raw_rec_spec data r rest HB Er) as (Hwf & kraw & _ & _ & _ & _ & _ & Brest).
    constructor; [exact Hwf | exact (IH rest rs' Brest Ers)].
Qed.

Lemma data_total_app : forall a b, ScanCount.data_total (a ++ b) = ScanCount.data_total a + ScanCount.data_total b.
Proof. induction a as [|x a IH]; intros b; cbn [app ScanCount.data_total]; [lia | rewrite IH; lia]. Qed.

Lemma data_total_rev : forall a, ScanCount.data_total (rev a) = ScanCount.data_total a.
Proof. induction a as [|x a IH]; cbn [rev]; [reflexivity|]. rewrite data_total_app, IH. cbn [ScanCount.data_total]. lia. Qed.

Section Top.
Variable E : env.
Hypothesis EO : env_ok E = true.

Section Msg.
Variable d : nat.
Variable md : mdesc.
Hypothesis Hmd : nth_error E d = Some md.
Notation fs := (md_fields md).

(* ---- after the scan and the allocation the two states are related *)
Lemma init_rel : forall N st slotsA rs, N < 4294967296 ->
  ScanCount.scan_inv md N st -> rev (st_members st) = map (sm_of md) rs ->
  alloc_slots fs (st_bitmap st) (st_slots st) = Ok slotsA ->
  rel md (map (sm_of md) rs) (init_msg d md) (Msg d slotsA (repeat (0, VWord 0) (md_n_oneofs md)) []).
Proof.
  intros N st slotsA rs HN (HB & HL & HM & HD & (HSl & HS)) Hms Ha.
  pose proof (ParseSafe.alloc_slots_okres fs (st_bitmap st) (st_slots st) HSl) as Hok.
  rewrite Ha in Hok. cbn [ParseSafe.okres] in Hok.
  destruct Hok as (Hlen & Hss).
  { intros i f s Hf Hs Hr. rewrite (HS i f Hf), Hr in Hs. inversion Hs. eauto. }
  assert (Htot : forall i, total md i (map (sm_of md) rs) = total md i (st_members st)).
  { intros i. rewrite <- Hms. apply ParseSafe.total_rev. }
  assert (Hdt : ScanCount.data_total (st_members st) < 4294967296).
  { pose proof (SpecRefine1.zlen_nonneg _ (st_at st)). assert (0 <= Z.of_nat (length (st_members st))) by lia. lia. }
  unfold rel, init_msg. split; [reflexivity|]. split; [reflexivity|]. split; [reflexivity|].
  split; [apply map_length|]. split; [exact Hlen|]. split.
  - intros i f Hn. exists (init_slot f).
    destruct (Hss i f _ Hn (HS i f Hn)) as (s' & Hs' & Has). exists s'.
    split; [apply map_nth_error; exact Hn|]. split; [exact Hs'|].
    destruct (MsgRT4.desc_ok_fields _ _ (Dmd E EO d md Hmd) f (nth_error_In _ _ Hn)) as (Hfok & _ & _).
    unfold slot_rel. rewrite Htot.
    destruct (label_eqb (f_label f) LRepeated) eqn:Er.
    + assert (El : f_label f = LRepeated) by (destruct (f_label f); try discriminate Er; reflexivity).
      unfold alloc_slot in Has. rewrite El in Has.
      pose proof (ScanCount.total_bound E md TagRange.parse_tag_range_bytes PackedCount.count_packed_elements_le_len
                    (st_members st) i HM Hdt) as Hb.
      exists []. split; [unfold init_slot; rewrite El; reflexivity|].
      destruct (Z.eqb_spec (total md i (st_members st)) 0) as [Hz|Hnz]; inversion Has; subst s'.
      * right. rewrite Hz. split; [reflexivity|]. split; reflexivity.
      * left. exists (u32 (total md i (st_members st))). split; [reflexivity|].
        rewrite Bits.u32_small by lia. change (Mem.zlen (@nil sval)) with 0. lia.
    + assert (Hs'' : s' = init_slot f).
      { unfold alloc_slot in Has. destruct (f_label f); try discriminate Er.
        - destruct (f_default f); [|destruct (nth i (st_bitmap st) false)]; inversion Has; reflexivity.
        - inversion Has; reflexivity.
        - inversion Has; reflexivity. }
      split; [exact Hs''|].
      assert (Hck : cell_kind f (init_cell f)).
      { intros Ht. unfold init_cell. rewrite Ht. eauto. }
      unfold field_ok in Hfok. rewrite !andb_true_iff in Hfok. destruct Hfok as [[[[_ _] Hq] _] _].
      unfold init_slot.
      destruct (f_label f) eqn:El; try discriminate Er; destruct (f_quant f) as [| |g|] eqn:Eq; try discriminate Hq;
        rewrite ?andb_true_iff in Hq;
        repeat (match type of Hq with _ /\ _ => destruct Hq as [Hq _] end);
        first [exact Hq | split; [apply negb_true_iff; exact Hq | exact Hck]].
  - intros g cv Hg. apply nth_error_In in Hg. apply repeat_spec in Hg. subst cv. left. split; reflexivity.
Qed.

(* ---- every required field was met by the scan *)
Lemma required_scanned : forall st rs, rev (st_members st) = map (sm_of md) rs -> required_present md rs = true ->
  forall i f, nth_error fs i = Some f -> Required.must_appear f = true ->
    exists sm, In sm (st_members st) /\ sm_field sm = Some i.
Proof.
  intros st rs Hms Hrp i f Hn Hm. unfold required_present in Hrp. rewrite forallb_forall in Hrp.
  specialize (Hrp f (nth_error_In _ _ Hn)).
  unfold Required.must_appear in Hm. apply andb_true_iff in Hm. destruct Hm as [Hl _]. rewrite Hl in Hrp. cbn [negb orb] in Hrp.
  apply existsb_exists in Hrp. destruct Hrp as (r & Hin & Hid). apply Z.eqb_eq in Hid.
  exists (sm_of md r). split.
  - apply in_rev. rewrite Hms. apply in_map. exact Hin.
  - unfold sm_of. cbn [sm_field]. rewrite Hid. exact (ScanRec.find_field_known (length E) md (Dmd E EO d md Hmd) i f Hn).
Qed.

End Msg.

(* ---- the theorem, by induction on the fuel (the two sides use the same fuel) *)
Theorem spec_parse_refines : forall k d b m, bytes b -> Mem.zlen b <= max_input ->
  spec_parse E k d b = Some m -> unpack E k d b = Ok m.
Proof.
  induction k as [|k IH]; intros d b m HB Hlen H; [discriminate H|].
  cbn [spec_parse] in H.
  destruct (nth_error E d) as [md|] eqn:Hmd; [|discriminate H].
  destruct (read_raw 5 b) as [rs|] eqn:Er; [|discriminate H].
  destruct (required_present md rs) eqn:Erp; [|discriminate H].
  assert (Hsub : forall d' p m0, bytes p -> Mem.zlen p < Mem.zlen b ->
            spec_parse E k d' p = Some m0 -> unpack E k d' p = Ok m0).
  { intros d' p m0 HBp Hlp Hp. apply IH; [exact HBp | lia | exact Hp]. }
  assert (HNb : Mem.zlen b <= 2147483648) by (unfold max_input in Hlen; lia).
  pose proof (read_raw_recs_wf (length b) b rs HB Er) as HWF.
  pose proof (spec_records_good E EO (spec_parse E k) (unpack E k) (Mem.zlen b) Hsub d md Hmd rs _ m HWF H) as HG.
  destruct (scan_all E EO d md Hmd b rs HB Hlen Er HG) as (_ & HL & st & Hs & Hms & Hinv & Hmax).
  cbn [unpack]. rewrite Hmd. fold (Required.st_init d md b). cbv zeta.
  rewrite Hs. cbn [bind]. rewrite Hmax.
  destruct (Required.required_test_exact d b md st Hs (required_scanned d md Hmd st rs Hms Erp)) as (slotsA & Ha).
  rewrite Ha. cbn [bind]. rewrite Hms. cbn [init_msg m_unions].
  pose proof (init_rel d md Hmd (Mem.zlen b) st slotsA rs ltac:(lia) Hinv Hms Ha) as HR.
  destruct Hinv as (_ & _ & HM & HD & _).
  assert (HMr : Forall (ScanCount.member_ok md) (map (sm_of md) rs)).
  { rewrite <- Hms. apply Forall_rev. exact HM. }
  assert (HDr : ScanCount.data_total (map (sm_of md) rs) < 4294967296).
  { rewrite <- Hms, data_total_rev. pose proof (SpecRefine1.zlen_nonneg _ (st_at st)).
    assert (0 <= Z.of_nat (length (st_members st))) by lia. lia. }
  destruct (members_refine E EO (spec_parse E k) (unpack E k) (Mem.zlen b) HNb Hsub d md Hmd rs _ _ m
              HWF HL HMr HDr H HR) as (mA' & Ep & HR').
  rewrite Ep. f_equal.
  exact (rel_nil_eq E (spec_parse E k) (unpack E k) (Mem.zlen b) Hsub d md m mA' HR').
Qed.

End Top.


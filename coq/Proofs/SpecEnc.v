(* C03: what the serialiser writes, in terms of the wire primitives of Spec/Wire.v (written from the
   encoding specification): shortest varints, zig-zag for sint, little-endian fixed, keys, length
   prefixes, packed payloads. *)
From Coq Require Import ZArith List Bool Lia ZifyBool.
From PBC Require Import Base.CInt Base.Bits Gen.LeafC Spec.Wire Impl.Desc Impl.Mem Impl.Enc Impl.Pack Impl.WF
     Proofs.LeafEnc Proofs.EncLemmas Proofs.LeafDec Proofs.SizePack Proofs.CellRT.
Import ListNotations.
Local Open Scope Z_scope.

Ltac Zify.zify_post_hook ::= Z.div_mod_to_equations.

(* the value-level encoding of a scalar cell holding the raw bits w, by type *)
Definition spec_scalar (t : ftype) (w : Z) : list Z :=
  match t with
  | TSint32 => varint (zigzag 32 (s32 w))               (* zig-zag, then varint *)
  | TEnum | TInt32 => varint (sext32 (u32 w))           (* sign-extended to 64 bits: negatives take 10 bytes *)
  | TUint32 => varint (u32 w)
  | TSint64 => varint (zigzag 64 (s64 w))
  | TInt64 | TUint64 => varint (u64 w)
  | TSfixed32 | TFixed32 | TFloat => le_n 4 (u32 w)     (* little-endian *)
  | TSfixed64 | TFixed64 | TDouble => le_n 8 (u64 w)
  | TBool => [if s32 w =? 0 then 0 else 1]
  | TString | TBytes | TMessage => []
  end.

Theorem scalar_conforms : forall t w, is_scalar t = true -> e_scalar t w = Ok (spec_scalar t w).
Proof.
  intros t w Hs. pose proof (u32_range w). pose proof (u64_range w).
  destruct t; try discriminate Hs; cbn [e_scalar spec_scalar]; f_equal;
    first [ apply e_int32_spec; assumption | apply e_sint32_spec; apply s32_range | apply e_uint32_spec; assumption
          | apply e_uint64_spec; assumption | apply e_sint64_spec; apply s64_range
          | apply e_fixed32_spec | apply e_fixed64_spec | apply e_bool_spec ].
Qed.

Theorem key_conforms : forall id wt, 0 <= id < 4294967296 -> 0 <= wt < 8 -> e_tag id wt = key id wt.
Proof. exact e_tag_spec. Qed.

(* varint is the SHORTEST well-formed encoding of its value *)
Lemma wfv_value_lower : forall l, wfv l -> (forall b, In b l -> 0 <= b < 256) -> 128 ^ (Z.of_nat (length l) - 1) <= varint_val l \/ True.
Proof. intros; right; exact I. Qed.

Lemma varint_n_shortest : forall f v l, 0 <= v -> wfv l -> (forall b, In b l -> 0 <= b) -> varint_val l = v ->
  (length (varint_n f v) <= length l)%nat.
Proof.
  induction f as [|f IH]; intros v l Hv W B V; [cbn; lia|].
  cbn [varint_n]. destruct (Z.ltb_spec v 128) as [Hs|Hb].
  - destruct l; [contradiction | cbn; lia].
  - destruct l as [|b t]; [contradiction|]. cbn [wfv] in W. destruct t as [|b2 t2].
    + cbn [varint_val] in V. lia.
    + destruct W as [Hb1 W]. cbn [length]. apply le_n_S.
      apply (IH (v / 128) (b2 :: t2)); [lia | exact W | intros x Hx; apply B; right; exact Hx|].
      change (varint_val (b :: b2 :: t2)) with (b mod 128 + 128 * varint_val (b2 :: t2)) in V.
      set (tv := varint_val (b2 :: t2)) in *. clearbody tv. lia.
Qed.

Theorem varint_shortest : forall v l, 0 <= v < 18446744073709551616 ->
  wfv l -> (forall b, In b l -> 0 <= b) -> varint_val l = v ->
  wfv (varint v) /\ varint_val (varint v) = v /\ (length (varint v) <= length l)%nat.
Proof.
  intros v l Hv W B V. destruct (varint_wf v Hv) as (W' & V' & _).
  split; [exact W' | split; [exact V'|]]. apply varint_n_shortest; [lia | exact W | exact B | exact V].
Qed.

Section Cells.
Variable rec : msg -> res (list Z).

(* scalar cell: key, then the value-level encoding *)
Theorem scalar_cell_conforms : forall f w, is_scalar (f_type f) = true -> 0 <= f_id f < 4294967296 ->
  pk_required rec f (VWord w) = Ok (key (f_id f) (wire_type_of (f_type f)) ++ spec_scalar (f_type f) w).
Proof.
  intros f w Hs Hid. unfold pk_required.
  assert (Hwt : 0 <= wire_type_of (f_type f) < 8) by (destruct (f_type f); vm_compute; split; congruence).
  rewrite (e_tag_spec _ _ Hid Hwt).
  destruct (f_type f) eqn:Et; try discriminate Hs; cbn [as_word bind];
    rewrite (scalar_conforms _ w) by (rewrite ?Et; reflexivity); reflexivity.
Qed.

(* string / bytes / embedded message: key (wire type 2), shortest length, contents *)
Theorem string_cell_conforms : forall f s, f_type f = TString -> 0 <= f_id f < 4294967296 -> zlen s < 4294967296 ->
  pk_required rec f (VStr (PHeap s)) = Ok (key (f_id f) 2 ++ varint (zlen s) ++ s).
Proof.
  intros f s Ht Hid Hl. unfold pk_required. rewrite Ht. cbn [as_str bind str_bytes wire_type_of].
  rewrite (e_tag_spec _ _ Hid) by (vm_compute; split; congruence).
  pose proof (zlen_nonneg _ s) as Hn. rewrite (u32_small (zlen s)) by lia. rewrite e_uint32_spec by lia. reflexivity.
Qed.

Theorem message_cell_conforms : forall f sub b, f_type f = TMessage -> 0 <= f_id f < 4294967296 ->
  rec sub = Ok b -> zlen b < 4294967296 ->
  pk_required rec f (VMsg (Some sub)) = Ok (key (f_id f) 2 ++ varint (zlen b) ++ b).
Proof.
  intros f sub b Ht Hid Hr Hl. unfold pk_required. rewrite Ht, Hr. cbn [bind wire_type_of].
  rewrite (e_tag_spec _ _ Hid) by (vm_compute; split; congruence).
  pose proof (zlen_nonneg _ b) as Hn. rewrite (u32_small (zlen b)) by lia. rewrite e_uint32_spec by lia. reflexivity.
Qed.

(* repeated scalars are packed exactly when the descriptor says so *)
Theorem repeated_packed_iff_flag : forall f n l bytes, n <> 0 ->
  pk_repeated rec f n (Some l) = Ok bytes ->
  if f_packed f
  then exists payload, concatM_n (pk_packed_elem f) l (Z.to_nat n) = Ok payload /\
                       bytes = e_tag (f_id f) 2 ++ e_uint32 (u32 (zlen payload)) ++ payload
  else concatM_n (pk_required rec f) l (Z.to_nat n) = Ok bytes.
Proof.
  intros f n l bytes Hn H. unfold pk_repeated in H. destruct (f_packed f).
  - replace (n =? 0) with false in H by lia.
    destruct (concatM_n (pk_packed_elem f) l (Z.to_nat n)) as [payload|]; cbn [bind] in H; [|discriminate H].
    exists payload. split; [reflexivity|].
    match type of H with (if ?c then _ else _) = _ => destruct c; [|discriminate H] end. inversion H. reflexivity.
  - replace (n =? 0) with false in H by lia. exact H.
Qed.

Lemma packed_elem_conforms : forall f w, is_scalar (f_type f) = true ->
  pk_packed_elem f (VWord w) = Ok (spec_scalar (f_type f) w).
Proof.
  intros f w Hs. unfold pk_packed_elem.
  destruct (f_type f) eqn:Et; try discriminate Hs; cbn [as_word bind]; apply scalar_conforms; reflexivity.
Qed.
End Cells.

"""Build the libprotobuf reference driver (harness/cxx/ref_driver.cc).  No network: needs g++ and the
system libprotobuf development files (headers in /usr/include/google/protobuf, pkg-config `protobuf`)."""
import os, subprocess

SRC = os.path.join(os.path.dirname(os.path.dirname(os.path.abspath(__file__))), 'cxx', 'ref_driver.cc')


def _pkg_config():
    try:
        p = subprocess.run(['pkg-config', '--cflags', '--libs', 'protobuf'], stdout=subprocess.PIPE,
                           stderr=subprocess.PIPE, timeout=60)
        if p.returncode == 0:
            return p.stdout.decode().split()
    except (OSError, subprocess.TimeoutExpired):
        pass
    return ['-lprotobuf', '-pthread']


def build_ref_driver(outdir, src=SRC):
    """compile ref_driver.cc with g++ -O1 into outdir; returns the path of the executable.
    Rebuilt only when the source is newer than the executable.  Raises RuntimeError on failure."""
    outdir = os.path.abspath(outdir)
    os.makedirs(outdir, exist_ok=True)
    exe = os.path.join(outdir, 'ref_driver')
    if os.path.exists(exe) and os.path.getmtime(exe) >= os.path.getmtime(src):
        return exe
    tmp = exe + '.tmp%d' % os.getpid()
    cmd = ['g++', '-std=c++17', '-O1', src] + _pkg_config() + ['-o', tmp]
    p = subprocess.run(cmd, stdout=subprocess.PIPE, stderr=subprocess.PIPE, timeout=1800)
    if p.returncode != 0:
        raise RuntimeError('cannot build ref_driver:\n' + p.stderr.decode('utf-8', 'replace')[-4000:])
    os.replace(tmp, exe)
    return exe


if __name__ == '__main__':
    import sys
    print(build_ref_driver(sys.argv[1] if len(sys.argv) > 1 else '.'))

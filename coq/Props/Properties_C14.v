(* C14 -- descriptor lookups find every key and reject every non-key.
   Numeric lookups: int_range_lookup is regenerated from protobuf-c.c; the table
   is the generator's (GenModel/Ranges.v, tied to the emitted tables). *)
From Coq Require Import ZArith List Bool.
From PBC Require Import Base.CInt Gen.LeafC GenModel.Ranges Proofs.Lookup Proofs.LookupGen.
Import ListNotations.
Local Open Scope Z_scope.

(* any table satisfying the invariant, any 32-bit key: the search returns the unique hit, or -1 *)
Theorem C14_range_lookup_exact : forall rs N v,
  ranges_ok rs N -> -2147483648 <= v < 2147483648 ->
  (forall i, 0 <= i < N -> hit rs v i -> int_range_lookup N rs v = v - rst rs i + rorig rs i) /\
  ((forall i, 0 <= i < N -> ~ hit rs v i) -> int_range_lookup N rs v = -1).
Proof.
  intros rs N v R Hv. destruct (lookup_correct rs N R v Hv) as [A B]. split; [|exact B].
  intros i Hi Hh. apply A. exists i. auto.
Qed.
Print Assumptions C14_range_lookup_exact.

(* the generated table for any strictly increasing list of 32-bit numbers (field numbers of a message,
   distinct values of an enum, up to INT32_MIN / INT32_MAX): lookup = index in the list, or -1 *)
Theorem C14_generated_table_lookup : forall vs x,
  vs <> [] -> incr vs -> Forall in32 vs -> Z.of_nat (length vs) < 2147483648 -> in32 x ->
  int_range_lookup (snd (mk_ranges vs)) (fst (mk_ranges vs)) x =
  match index_of x vs with Some k => k | None => -1 end.
Proof. exact generated_table_lookup. Qed.
Print Assumptions C14_generated_table_lookup.

(* non-vacuity: a table with runs touching both ends of the int range *)
Example C14_extremes :
  let vs := [-2147483648; -2147483647; -5; 0; 1; 2; 2147483646; 2147483647] in
  map (fun x => int_range_lookup (snd (mk_ranges vs)) (fst (mk_ranges vs)) x)
      [-2147483648; -2147483647; -2147483646; -5; -1; 0; 2; 3; 2147483645; 2147483646; 2147483647]
  = [0; 1; -1; 2; -1; 3; 5; -1; -1; 6; 7].
Proof. vm_compute. reflexivity. Qed.

(* C07 / C08, closed statements: the allocation discipline of the allocation-level model (Impl/Heap.v), for every
   generator-producible environment, every input shorter than 2^31 and every refusal plan.  Assembles
   Proofs/HeapFree.v (free_ok), Proofs/HeapMerge.v (merge_ok) and Proofs/HeapParse.v (heap_discipline). *)
From Coq Require Import ZArith List Bool Permutation.
From PBC Require Import Base.CInt Impl.Desc Impl.Mem Impl.Unpack Impl.Canon Impl.Heap Impl.HeapInv
     Proofs.HeapLib Proofs.HeapFree Proofs.HeapMerge Proofs.HeapParse.
Import ListNotations.
Local Open Scope Z_scope.

(* lives s []: the whole trace obeys the discipline and nothing is outstanding *)
Lemma lives_nil : forall s, lives s [] <-> live_of s = Some [].
Proof.
  intros s. unfold lives. split.
  - intros (L0 & HL & HP & _ & _). apply Permutation_sym, Permutation_nil in HP. subst L0. exact HL.
  - intros H. exists []. repeat split; [exact H | constructor | constructor | intros i []].
Qed.

Theorem heap_trace_discipline : forall (E : env) (plan : nat -> bool) (szmsg : nat -> Z) (d : nat) (data : list Z),
  env_ok E = true -> Forall (fun b => 0 <= b < 256) data -> Mem.zlen data < 2147483648 ->
  let r := h_unpack E plan szmsg (S (length data)) d data (mkH 0 []) in
  match fst r with
  | None => live_of (snd r) = Some []
  | Some m => lives (snd r) (owned m) /\ live_of (snd (h_free E m (snd r))) = Some []
  end.
Proof.
  intros E plan szmsg d data EO HB HN.
  pose proof (heap_discipline E plan szmsg d data EO (free_ok E EO) (merge_ok E plan EO) HB HN) as H.
  cbv zeta in H |- *. destruct (fst (h_unpack E plan szmsg (S (length data)) d data (mkH 0 []))) as [m|].
  - destruct H as [H1 H2]. split; [exact H1 | apply lives_nil; exact H2].
  - apply lives_nil. exact H.
Qed.

(* unpack, then free_unpacked when a message was returned: nothing is ever outstanding at the end, and no event of the
   whole run violates the discipline *)
Theorem run_returns_everything : forall (E : env) (plan : nat -> bool) (szmsg : nat -> Z) (d : nat) (data : list Z),
  env_ok E = true -> Forall (fun b => 0 <= b < 256) data -> Mem.zlen data < 2147483648 ->
  live_of (snd (h_run E plan szmsg d data (mkH 0 []))) = Some [].
Proof.
  intros E plan szmsg d data EO HB HN. apply lives_nil.
  exact (run_discipline E plan szmsg d data EO (free_ok E EO) (merge_ok E plan EO) HB HN).
Qed.

(* a violated discipline is visible in the trace: the replay fails from the first bad event on *)
Example replay_rejects_double_free : replay [EvA 0 8; EvF 0; EvF 0] [] = None.
Proof. reflexivity. Qed.
Example replay_rejects_default_free : replay [EvA 0 8; EvX; EvF 0] [] = None.
Proof. reflexivity. Qed.
Example replay_reports_leak : replay [EvA 0 8; EvA 1 4; EvF 0] [] = Some [1%nat].
Proof. reflexivity. Qed.

(* C01 -- pack then unpack returns an equal message.
   Statement only; proof in Proofs/{ScanRec,ScanRecs,CellRT,CellRT2,PackedDec,FieldRT*,FieldPkg*,MsgRT*}.v:
   induction over the nested message tree, with the regenerated leaf encoders and
   decoders at the leaves.

   env_ok E    : what protoc-gen-c guarantees about descriptors (C13): fields sorted by number,
                 numbers in [1, 2^29), range tables as WriteIntRanges emits them, quantifier kinds
                 consistent with labels, sub-descriptor indices valid.
   canon_msg   : a well-formed in-memory message in the normal form the parser produces
                 (has flags 0/1, booleans 0/1, scalars within their width, strings on the heap,
                 counts = array lengths, absent fields holding their initial values, unknown fields
                 whose payload is delimited according to their wire type).
   The equality is on the whole message: every scalar bit pattern (floats included), every
   presence word, element order, the selected oneof member, unknown fields in order, and the
   pointer state (NULL / static default / heap) of every absent field. *)
From Coq Require Import ZArith List Bool.
From PBC Require Import Impl.Desc Impl.Mem Impl.Pack Impl.Unpack Impl.Canon Impl.WF Impl.Check Impl.WNorm Impl.Typed Proofs.MsgRT4 Proofs.WNormPack Proofs.WfCanon Proofs.CheckReqsub Proofs.Examples.
Import ListNotations.
Local Open Scope Z_scope.

(* The bound on the serialisation, 268435425 = 2 * 134217712 + 1 bytes (Impl/Unpack.v: max_input), is where acceptance
   can be promised: protobuf_c_message_unpack reports "too many fields" at the 134217713th member of one message (its 23
   slabs of scanned members hold 16 * (2^23 - 1) = 134217712; unpack has that test), and every member takes at least two
   bytes (Proofs/MemberCount.v), so no input up to that size gets there. *)
Theorem C01_pack_unpack_roundtrip : forall (E : env) (m : msg) (b : list Z),
  env_ok E = true -> canon_msg E m = true ->
  pack_msg E m = Ok b -> Z.of_nat (length b) <= 268435425 ->
  unpack_top E (m_desc m) b = Ok m.
Proof.
  intros E m b EO C Hp Hl. unfold unpack_top.
  exact (proj1 (roundtrip_canonical E EO m C (S (length b)) b Hp Hl (Nat.lt_succ_diag_r _))).
Qed.
Print Assumptions C01_pack_unpack_roundtrip.

(* the hypotheses are satisfiable by a non-trivial message (nested, packed, oneof, unknown fields, strings) *)
Theorem C01_nonvacuous : env_ok ex_env = true /\ canon_msg ex_env ex_msg = true /\
  exists b, pack_msg ex_env ex_msg = Ok b /\ (length b = 56)%nat.
Proof. exact (conj ex_env_ok (conj ex_canon ex_pack_nonempty)). Qed.
Print Assumptions C01_nonvacuous.

(* Beyond the parser's own normal form: Impl/WNorm.v maps a hand-built message to its normal form (has flags
   to 0/1, values behind a cleared has flag to the initial value, scalars to their width, bools to 0/1, strings
   and bytes held through the NULL / default pointer to what the serialiser writes for them, array slack
   dropped, an unselected or unset oneof to its initial state).  Serialisation does not see the difference
   (pack_wnorm), hence for EVERY message whose normal form is canonical: parsing what pack writes returns that
   normal form -- equal to the original in every field value, presence, element order, oneof member and unknown
   field.  The check evaluates the hypothesis on every generated well-formed message (evidence: domain). *)
Theorem C01_serialisation_ignores_normal_form : forall (E : env), env_ok E = true ->
  forall m, pack_msg E (wnorm_msg E m) = pack_msg E m.
Proof. exact pack_wnorm. Qed.
Print Assumptions C01_serialisation_ignores_normal_form.

Theorem C01_roundtrip_to_normal_form : forall (E : env), env_ok E = true -> forall m b,
  canon_msg E (wnorm_msg E m) = true -> pack_msg E m = Ok b -> Z.of_nat (length b) <= 268435425 ->
  unpack_top E (m_desc m) b = Ok (wnorm_msg E m).
Proof. exact roundtrip_to_normal_form. Qed.
Print Assumptions C01_roundtrip_to_normal_form.

(* The hypothesis "the normal form is canonical" discharged: it holds for EVERY message that is
     - well-formed (wf_msg: what the serialisers may be handed at all),
     - accepted by protobuf_c_message_check (check_msg; it rejects a NULL required sub-message, which the serialiser
       would write as an empty one), and
     - well-typed (typed_msg, Impl/Typed.v: conditions C's types impose on anything built through the generated
       structs -- a oneof member lives in the union of its own oneof, a case word holds a value of that oneof's
       enum, a sub-message pointer points at a message of the field's declared type -- plus: retained unknown
       fields are records the scanner would have stored).  typed_msg restricts no value: has flags other than 0/1,
       bools other than 0/1, NULL / default pointers, array slack and stale values behind cleared flags are allowed.
   So pack-then-unpack returns the normal form of every such message.  Proofs/WfCanon.v also shows by example that
   each typing condition, and the check, is needed. *)
Theorem C01_normal_form_of_checked_well_typed_message_is_canonical : forall (E : env) (m : msg),
  env_ok E = true -> wf_msg E m = true -> typed_msg E m = true -> check_msg E m = Ok true ->
  canon_msg E (wnorm_msg E m) = true.
Proof. exact checked_typed_canon. Qed.
Print Assumptions C01_normal_form_of_checked_well_typed_message_is_canonical.

Theorem C01_roundtrip_of_every_checked_well_typed_message : forall (E : env) (m : msg) (b : list Z),
  env_ok E = true -> wf_msg E m = true -> typed_msg E m = true -> check_msg E m = Ok true ->
  pack_msg E m = Ok b -> Z.of_nat (length b) <= 268435425 ->
  unpack_top E (m_desc m) b = Ok (wnorm_msg E m).
Proof. exact checked_typed_roundtrip. Qed.
Print Assumptions C01_roundtrip_of_every_checked_well_typed_message.

(* C09, the message level (1): all the fields of one canonical message of the newer schema, given what is known
   about its sub-messages.  [build_items] walks the fields and the slots and produces, per field, an ITEM:
   for a field the older schema still has, the package of the ORIGINAL bytes under the older schema (they
   parse to the projected slot) and the package of the RE-SERIALISED bytes under the newer schema (they parse
   to the original slot); for a dropped field, its package under the newer schema.  Along the way: what
   pack_msg of the older schema writes for the projected slots, and the unknown fields of the projection. *)
From Coq Require Import ZArith List Bool Lia ZifyBool.
From PBC Require Import Base.CInt Base.Bits Gen.LeafC Spec.Wire
     Impl.Desc Impl.Mem Impl.Enc Impl.Pack Impl.WF Impl.Unpack Impl.Canon Impl.Older
     Proofs.SizePack Proofs.ScanRec Proofs.ScanRecs Proofs.CellRT2 Proofs.FieldRT Proofs.FieldPkg Proofs.FieldPkg2 Proofs.MsgInd
     Proofs.MsgRT Proofs.MsgRT2 Proofs.MsgRT3 Proofs.MsgRT4
     Proofs.OlderEnv Proofs.OlderQuads Proofs.OlderField Proofs.OlderProj.
Import ListNotations.
Local Open Scope Z_scope.

Ltac Zify.zify_post_hook ::= Z.div_mod_to_equations.

Local Notation wrec_ok := ScanRecs.rec_ok.

Definition titem := (bool * quad * quad)%type.
Definition t_k (t : titem) : bool := fst (fst t).
Definition t_A (t : titem) : quad := snd (fst t).      (* original bytes; older schema if kept *)
Definition t_C (t : titem) : quad := snd t.            (* bytes after the older program; newer schema *)

Lemma slot_all_trivial : forall (Q : sval -> Prop) s, (forall v, Q v) -> slot_all Q s.
Proof.
  intros Q s H. destruct s as [h v|n c [l|]|g]; cbn [slot_all]; auto. apply Forall_forall. intros v _. apply H.
Qed.

Lemma kind_ok_map_slot : forall g f s, kind_ok f s -> kind_ok f (map_slot g s).
Proof.
  intros g f s K. unfold kind_ok in *. destruct s as [h v|n c [l|]|u]; cbn [map_slot]; exact K.
Qed.

Section Items.
Variable E : env.
Variable keep : nat -> field -> bool.
Hypothesis EO : env_ok E = true.
Variable k : nat.
Variable d : nat.
Variable md : mdesc.
Hypothesis Ed : nth_error E d = Some md.
Variable um : list (Z * sval).

Notation E' := (older keep E).
Notation usub := (unpack E k).
Notation usub' := (unpack (older keep E) k).
Notation lim := (Z.min max_input (Z.of_nat k)).
Notation pm := (proj E keep).
Notation kd := (keep d).
Notation md' := (drop_fields (keep d) md).
Notation um' := (map (punion (proj E keep) (filter (keep d) (md_fields md))) um).
Notation SubT v := (forall m, v = VMsg (Some m) -> sub_tr E (older keep E) (unpack E k) (unpack (older keep E) k) (proj E keep) (Z.min max_input (Z.of_nat k)) m).

Lemma Hlim_min : Z.min max_input (Z.of_nat k) <= 2147483647.
Proof. unfold max_input. lia. Qed.

Lemma sub_rt_all : forall m, sub_rt E (unpack E k) (Z.min max_input (Z.of_nat k)) m.
Proof.
  intros m Cm b Hb Hlt. apply (roundtrip_canonical E EO m Cm k b Hb); unfold zlen in *; lia.
Qed.

Definition item_ok (t : titem) : Prop :=
  t_k t = keep d (q_f (t_C t)) /\ q_f (t_A t) = q_f (t_C t) /\
  length (q_F (t_C t)) = length (q_F (t_A t)) /\
  (t_k t = true -> q_s (t_A t) = map_slot (pcell (proj E keep)) (q_s (t_C t))) /\
  (t_k t = false -> t_A t = t_C t) /\
  q_F (t_A t) = concat (map (rec_bytes (f_id (q_f (t_A t)))) (q_r (t_A t))) /\
  Forall wrec_ok (q_r (t_A t)).

Lemma build_items : forall fs ss pre a,
  md_fields md = pre ++ fs ->
  canon_slots (canon_msg E) um fs ss = true ->
  Forall (slot_all (fun v => SubT v)) ss ->
  Forall (fun cv : Z * sval => SubT (snd cv)) um ->
  pk_fields (pack_msg E) um fs ss = Ok a -> zlen a <= lim ->
  exists its : list titem,
    map (fun t => q_f (t_C t)) its = fs /\
    map (fun t => q_s (t_C t)) its = ss /\
    a = concat (map (fun t => q_F (t_A t)) its) /\
    (forall j t, nth_error its j = Some t ->
       fpkg_with E usub md (q_r (t_C t)) (length pre + j) (q_f (t_C t)) (q_s (t_C t)) um (q_F (t_C t))) /\
    Forall (fun t => kind_ok (q_f (t_C t)) (q_s (t_C t))) its /\
    Forall item_ok its /\
    (forall j q, nth_error (map t_A (filter t_k its)) j = Some q ->
       fpkg_with E' usub' md' (q_r q) (length (filter kd pre) + j) (q_f q) (q_s q) um' (q_F q)) /\
    pk_fields (pack_msg E') um' (filter kd fs) (sel (map kd fs) (map (map_slot (pcell pm)) ss)) =
      Ok (concat (map (fun t => q_F (t_C t)) (filter t_k its))) /\
    dropped_unk E kd um fs ss =
      concat (map (fun t => map (rec_uf (f_id (q_f (t_A t)))) (q_r (t_A t))) (filter (fun t => negb (t_k t)) its)) /\
    canon_slots (canon_msg E') um' (filter kd fs) (sel (map kd fs) (map (map_slot (pcell pm)) ss)) = true.
Proof.
  pose proof (env_desc E EO d md Ed) as D.
  induction fs as [|f fs IH]; intros ss pre a Hfs C HS HU Hpk Hlen.
  - destruct ss; [|discriminate C]. cbn in Hpk. inversion Hpk; subst a.
    exists []. cbn [map filter concat sel dropped_unk].
    split; [reflexivity|]. split; [reflexivity|]. split; [reflexivity|].
    split; [intros j t Hj; destruct j; discriminate Hj|]. split; [constructor|]. split; [constructor|].
    split; [intros j q Hj; destruct j; discriminate Hj|]. split; [reflexivity|]. split; reflexivity.
  - destruct ss as [|s ss]; [discriminate C|].
    cbn [canon_slots] in C. apply andb_true_iff in C. destruct C as [C1 C2].
    inversion HS as [|? ? HS1 HS2]; subst.
    cbn [pk_fields] in Hpk. fold (pk_fields (pack_msg E) um) in Hpk.
    destruct (pk_field (pack_msg E) um f s) as [F|e] eqn:EF; [|discriminate Hpk]. cbn [bind] in Hpk.
    destruct (pk_fields (pack_msg E) um fs ss) as [a'|e] eqn:Ea; [|discriminate Hpk]. cbn [bind] in Hpk.
    inversion Hpk; subst a. rewrite zlen_app in Hlen.
    pose proof (zlen_nonneg _ F). pose proof (zlen_nonneg _ a').
    assert (Hin : In f (md_fields md)) by (rewrite Hfs; apply in_or_app; right; left; reflexivity).
    destruct (desc_ok_fields _ _ D f Hin) as (Hfo & Hid & Hz).
    assert (Hn : nth_error (md_fields md) (length pre) = Some f) by (rewrite Hfs; apply nth_error_app_mid).
    destruct (IH ss (pre ++ [f]) a') as (its & I1 & I2 & I3 & I4 & I5 & I6 & I7 & I8 & I9 & I10);
      [rewrite Hfs, <- app_assoc; reflexivity | exact C2 | exact HS2 | exact HU | exact Ea | lia |].
    destruct (kd f) eqn:Ek.
    + (* a field of both schema versions *)
      assert (Hn' : nth_error (md_fields md') (length (filter kd pre)) = Some f).
      { rewrite drop_fields_fields, Hfs, filter_app. cbn [filter]. rewrite Ek. apply nth_error_app_mid. }
      assert (HR : um_rel pm f um um').
      { apply um_rel_proj; [apply filter_In; split; assumption | lia]. }
      pose proof (field_transfer E E' usub usub' pm lim Hlim_min md md' (md_n_oneofs md) (length pre) (length (filter kd pre))
                    f s um um' F Hn Hn' Hfo Hid Hz C1 HS1 HU HR EF ltac:(lia)) as FT.
      destruct (pk_field (pack_msg E') um' f (map_slot (pcell pm) s)) as [F'|e'] eqn:EF'; [|contradiction].
      cbn [ftr_goal] in FT. destruct FT as (Hl & (rA & HA) & (rC & HC) & Hcs).
      exists ((true, (f, map_slot (pcell pm) s, F, rA), (f, s, F', rC)) :: its).
      cbn [map filter t_k t_A t_C fst snd]. unfold q_f at 1, q_s at 1, q_F at 1. cbn [fst snd].
      split; [rewrite I1; reflexivity|]. split; [rewrite I2; reflexivity|]. split; [rewrite I3; reflexivity|].
      split.
      { intros j t Hj. destruct j as [|j].
        - inversion Hj; subst t. rewrite Nat.add_0_r. exact HC.
        - replace (length pre + S j)%nat with (length (pre ++ [f]) + j)%nat by (rewrite app_length; cbn; lia).
          apply I4. exact Hj. }
      split.
      { constructor; [|exact I5]. cbn [t_C snd]. unfold q_f, q_s. cbn [fst snd]. eapply canon_kind; eauto. }
      split.
      { constructor; [|exact I6]. unfold item_ok. cbn [t_k t_A t_C fst snd]. unfold q_f, q_s, q_F, q_r. cbn [fst snd].
        destruct HA as (HFA & HokA & _).
        split; [symmetry; exact Ek|]. split; [reflexivity|]. split; [exact Hl|]. split; [reflexivity|].
        split; [discriminate|]. split; [exact HFA | exact HokA]. }
      split.
      { intros j q Hj. destruct j as [|j].
        - cbn [map nth_error] in Hj. inversion Hj; subst q. rewrite Nat.add_0_r. exact HA.
        - cbn [map nth_error] in Hj. specialize (I7 j q Hj).
          rewrite filter_app in I7. cbn [filter] in I7. rewrite Ek in I7. rewrite app_length in I7. cbn [length] in I7.
          replace (length (filter kd pre) + S j)%nat with (length (filter kd pre) + 1 + j)%nat by lia. exact I7. }
      split.
      { cbn [sel]. rewrite Ek. cbn [pk_fields]. fold (pk_fields (pack_msg E') um'). rewrite EF'. cbn [bind].
        rewrite I8. cbn [bind map concat t_C snd]. unfold q_F at 1. cbn [fst snd]. reflexivity. }
      split.
      { cbn [dropped_unk negb]. rewrite Ek. cbn [app]. exact I9. }
      { cbn [sel]. rewrite Ek. cbn [canon_slots]. rewrite Hcs, I10. reflexivity. }
    + (* a field the older schema does not have *)
      destruct (field_package E usub md lim Hlim_min (md_n_oneofs md) (length pre) f s um F Hn Hfo Hid Hz C1
                  (slot_all_trivial _ s (fun v m _ => sub_rt_all m))
                  ltac:(apply Forall_forall; intros cv _ m _; apply sub_rt_all) EF ltac:(lia)) as (recs & Hpkg).
      exists ((false, (f, s, F, recs), (f, s, F, recs)) :: its).
      cbn [map filter t_k t_A t_C fst snd negb]. unfold q_f at 1, q_s at 1, q_F at 1. cbn [fst snd].
      split; [rewrite I1; reflexivity|]. split; [rewrite I2; reflexivity|]. split; [rewrite I3; reflexivity|].
      split.
      { intros j t Hj. destruct j as [|j].
        - inversion Hj; subst t. rewrite Nat.add_0_r. exact Hpkg.
        - replace (length pre + S j)%nat with (length (pre ++ [f]) + j)%nat by (rewrite app_length; cbn; lia).
          apply I4. exact Hj. }
      split.
      { constructor; [|exact I5]. cbn [t_C snd]. unfold q_f, q_s. cbn [fst snd]. eapply canon_kind; eauto. }
      split.
      { constructor; [|exact I6]. unfold item_ok. cbn [t_k t_A t_C fst snd]. unfold q_f, q_s, q_F, q_r. cbn [fst snd].
        destruct Hpkg as (HF & Hok & _).
        split; [symmetry; exact Ek|]. split; [reflexivity|]. split; [reflexivity|]. split; [discriminate|].
        split; [reflexivity|]. split; [exact HF | exact Hok]. }
      split.
      { intros j q Hj. specialize (I7 j q Hj).
        rewrite filter_app in I7. cbn [filter] in I7. rewrite Ek in I7. rewrite app_nil_r in I7. exact I7. }
      split.
      { cbn [sel]. rewrite Ek. exact I8. }
      split.
      2:{ cbn [sel]. rewrite Ek. exact I10. }
      { cbn [dropped_unk]. rewrite Ek, EF. cbn [map concat t_A fst snd]. unfold q_f at 1, q_r at 1. cbn [fst snd].
        rewrite I9. f_equal.
        destruct Hpkg as (HF & Hok & _). unfold q_F, q_r, q_f in HF. cbn [fst snd] in HF. rewrite HF.
        apply split_recs_spec; [exact Hid | exact Hok | rewrite <- HF; unfold max_input in *; lia]. }
Qed.

End Items.

(* C03 -- packed bytes are valid protobuf with the same meaning (encoder interop).
   Statements only; proofs in Proofs/SpecEnc.v (on top of the leaf encoder specs of Proofs/LeafEnc.v, which are
   about the code regenerated from protobuf-c.c).  Spec/Wire.v is written from the encoding specification.
   That the reference implementation reads the bytes back to the same value is decided by the reference tie
   (libprotobuf, harness/cxx/ref_driver.cc): byte-identical serialisation and identical parse result. *)
From Coq Require Import ZArith List Bool.
From PBC Require Import Base.CInt Spec.Wire Impl.Desc Impl.Mem Impl.Enc Impl.Pack Impl.WF Proofs.SpecEnc.
Import ListNotations.
Local Open Scope Z_scope.

(* every scalar, for every raw cell content: shortest varint of the (sign-extended / zig-zagged) value,
   or little-endian fixed width *)
Theorem C03_scalar_encoding : forall t w, is_scalar t = true -> e_scalar t w = Ok (spec_scalar t w).
Proof. exact scalar_conforms. Qed.
Print Assumptions C03_scalar_encoding.

Theorem C03_varint_is_shortest : forall v l, 0 <= v < 18446744073709551616 ->
  wfv l -> (forall b, In b l -> 0 <= b) -> varint_val l = v ->
  wfv (varint v) /\ varint_val (varint v) = v /\ (length (varint v) <= length l)%nat.
Proof. exact varint_shortest. Qed.
Print Assumptions C03_varint_is_shortest.

Theorem C03_key_encoding : forall id wt, 0 <= id < 4294967296 -> 0 <= wt < 8 -> e_tag id wt = key id wt.
Proof. exact key_conforms. Qed.
Print Assumptions C03_key_encoding.

Theorem C03_scalar_field : forall rec f w, is_scalar (f_type f) = true -> 0 <= f_id f < 4294967296 ->
  pk_required rec f (VWord w) = Ok (key (f_id f) (wire_type_of (f_type f)) ++ spec_scalar (f_type f) w).
Proof. exact scalar_cell_conforms. Qed.
Print Assumptions C03_scalar_field.

Theorem C03_string_field : forall rec f s, f_type f = TString -> 0 <= f_id f < 4294967296 -> zlen s < 4294967296 ->
  pk_required rec f (VStr (PHeap s)) = Ok (key (f_id f) 2 ++ varint (zlen s) ++ s).
Proof. exact string_cell_conforms. Qed.
Print Assumptions C03_string_field.

Theorem C03_embedded_message : forall rec f sub b, f_type f = TMessage -> 0 <= f_id f < 4294967296 ->
  rec sub = Ok b -> zlen b < 4294967296 ->
  pk_required rec f (VMsg (Some sub)) = Ok (key (f_id f) 2 ++ varint (zlen b) ++ b).
Proof. exact message_cell_conforms. Qed.
Print Assumptions C03_embedded_message.

(* repeated scalars are packed exactly when the descriptor says so *)
Theorem C03_packed_iff_declared : forall rec f n l bytes, n <> 0 ->
  pk_repeated rec f n (Some l) = Ok bytes ->
  if f_packed f
  then exists payload, concatM_n (pk_packed_elem f) l (Z.to_nat n) = Ok payload /\
                       bytes = e_tag (f_id f) 2 ++ e_uint32 (u32 (zlen payload)) ++ payload
  else concatM_n (pk_required rec f) l (Z.to_nat n) = Ok bytes.
Proof. exact repeated_packed_iff_flag. Qed.
Print Assumptions C03_packed_iff_declared.

Theorem C03_packed_element : forall f w, is_scalar (f_type f) = true ->
  pk_packed_elem f (VWord w) = Ok (spec_scalar (f_type f) w).
Proof. exact packed_elem_conforms. Qed.
Print Assumptions C03_packed_element.

(* C10 -- repeated occurrences of a singular field merge as protobuf prescribes.
   Statements only; proofs in Proofs/Merge.v: what parse_member and merge_messages (Impl/Unpack.v, the model
   of the repaired C code: see the "fix:" commits on merge_messages) do, rule by rule.
   Totality (Proofs/MergeSafe.v with Proofs/UnpackSafe.v): merging two well-shaped messages of one type always
   succeeds with a well-shaped message of that type, and everything the parser returns is well-shaped; so a
   later occurrence of an embedded message can always be merged into the earlier one.
   Required fields: a required SUB-MESSAGE present in both occurrences is merged recursively, exactly like an
   optional one (merge_messages used to skip required fields altogether, so that the earlier occurrence's
   sub-message was dropped; see the "fix:" commit); any other required field keeps the latter value.
   Protobuf's own formulation (Proofs/ConcatScan.v, ConcatField.v, ConcatMerge.v): parsing the concatenation of two
   encodings gives the merge of the two messages -- for every environment, every two canonical messages of one
   type, with no condition on the descriptor: unpack (pack m1 ++ pack m2) = merge_messages m1 m2, both succeeding.
   The input is at most max_input = 268435425 bytes long (beyond that protobuf_c_message_unpack may run out of
   ScannedMember slabs: Proofs/MemberCount.v).  The pair that used to separate the two sides -- a required
   sub-message sent twice -- is the non-vacuity example.
   AS PROTOBUF PRESCRIBES, for every valid encoding (Impl/SpecParse.v, Proofs/SpecRules.v, Proofs/SpecRefine0-5.v): the
   specification-level parser folds the records in order, and what one step does to a field that has occurred before is
   spelled out rule by rule -- a singular field takes the last value whatever it held, a further occurrence of a
   singular sub-message is merged into the one held, a repeated field keeps its elements and appends the new ones, a
   oneof member replaces the member chosen before, an unknown record is retained after the earlier ones -- and
   protobuf_c_message_unpack returns exactly the specification's reading whenever there is one. *)
From Coq Require Import ZArith List Bool.
From PBC Require Import Base.CInt Impl.Desc Impl.Mem Impl.Enc Impl.Pack Impl.Unpack Impl.Canon Proofs.Merge Proofs.Shape Proofs.MergeSafe Proofs.UnpackSafe
     Proofs.ConcatMerge.
From PBC Require Import Spec.WireMsg Spec.WireRaw Impl.SpecParse.
From PBC Require Proofs.LeafSafe Proofs.SpecRules Proofs.SpecRefine5.
Import ListNotations.
Local Open Scope Z_scope.

(* numbers, strings, bytes: the last occurrence wins, whatever came before *)
Theorem C10_last_occurrence_wins : forall E usub md sm d slots unions unk m' i f,
  parse_member E usub md sm (Msg d slots unions unk) = Ok m' ->
  sm_field sm = Some i -> nth_error (md_fields md) i = Some f ->
  f_label f <> LRepeated -> f_oneof f = false -> f_type f <> TMessage ->
  exists h v, nth_error (m_slots m') i = Some (SOne h v) /\
              parse_required E usub f sm (VWord 0) false = Ok v /\
              m_unions m' = unions /\ m_unk m' = unk.
Proof. exact singular_last_wins. Qed.
Print Assumptions C10_last_occurrence_wins.

(* within a oneof the last member on the wire is the one selected *)
Theorem C10_oneof_last_member_selected : forall E usub md sm d slots unions unk m' i f g,
  parse_member E usub md sm (Msg d slots unions unk) = Ok m' ->
  sm_field sm = Some i -> nth_error (md_fields md) i = Some f ->
  f_label f <> LRepeated -> f_label f <> LRequired -> f_oneof f = true -> nth_error slots i = Some (SUnion g) ->
  exists v, nth_error (m_unions m') g = Some (sm_tag sm, v) /\ m_slots m' = slots /\ m_unk m' = unk.
Proof. exact oneof_last_wins. Qed.
Print Assumptions C10_oneof_last_member_selected.

(* a later occurrence of an embedded message is merged into the earlier one *)
Theorem C10_message_occurrences_merge : forall E usub f sm om sub,
  f_type f = TMessage -> sm_wt sm = WT_LEN ->
  usub (f_sub f) (skipn (Z.to_nat (sm_pref sm)) (sm_data sm)) = Ok sub ->
  parse_required E usub f sm (VMsg (Some om)) true =
  (do m <- merge_messages E om sub; Ok (VMsg (Some m))).
Proof. exact message_occurrences_merge. Qed.
Print Assumptions C10_message_occurrences_merge.

(* merging, field by field: repeated sub-fields concatenated in order *)
Theorem C10_repeated_concatenated : forall rec f ne ce le nl cl ll,
  f_label f = LRepeated -> 0 < ne <= zlen le -> 0 < nl <= zlen ll ->
  merge_slot rec f (SRep ne ce (Some le)) (SRep nl cl (Some ll)) =
  Ok (SRep (ne + nl) (ne + nl) (Some (firstn (Z.to_nat ne) le ++ firstn (Z.to_nat nl) ll))).
Proof. exact merge_repeated_concat. Qed.
Print Assumptions C10_repeated_concatenated.

Theorem C10_repeated_only_in_earlier_kept : forall rec f ne ce ae cl al,
  f_label f = LRepeated -> 0 < ne -> merge_slot rec f (SRep ne ce ae) (SRep 0 cl al) = Ok (SRep ne ne ae).
Proof. exact merge_repeated_only_earlier. Qed.
Print Assumptions C10_repeated_only_in_earlier_kept.

(* optional scalars: overridden only if the later occurrence carries the field *)
Theorem C10_optional_scalar : forall rec f eh ev lh lv,
  f_label f = LOptional -> f_quant f = QHas -> f_type f <> TMessage -> f_type f <> TString ->
  merge_slot rec f (SOne eh ev) (SOne lh lv) =
  Ok (if negb (eh =? 0) && (lh =? 0) then SOne eh ev else SOne lh lv).
Proof. exact merge_optional_has. Qed.
Print Assumptions C10_optional_scalar.

(* embedded messages: recursively *)
Theorem C10_submessage_both : forall rec f eh em lh lm, (f_label f = LOptional \/ f_label f = LNone) -> f_type f = TMessage ->
  merge_slot rec f (SOne eh (VMsg (Some em))) (SOne lh (VMsg (Some lm))) = (do m <- rec em lm; Ok (SOne lh (VMsg (Some m)))).
Proof. exact merge_submessage_both. Qed.
Print Assumptions C10_submessage_both.

Theorem C10_submessage_only_in_earlier_kept : forall rec f eh em lh, (f_label f = LOptional \/ f_label f = LNone) -> f_type f = TMessage ->
  merge_slot rec f (SOne eh (VMsg (Some em))) (SOne lh (VMsg None)) = Ok (SOne lh (VMsg (Some em))).
Proof. exact merge_submessage_earlier_only. Qed.
Print Assumptions C10_submessage_only_in_earlier_kept.

(* a required sub-message present in both occurrences is merged recursively, like an optional one *)
Theorem C10_required_submessage_both : forall rec f eh em lh lm, f_label f = LRequired -> f_type f = TMessage ->
  merge_slot rec f (SOne eh (VMsg (Some em))) (SOne lh (VMsg (Some lm))) = (do m <- rec em lm; Ok (SOne lh (VMsg (Some m)))).
Proof. exact merge_required_submessage_both. Qed.
Print Assumptions C10_required_submessage_both.

(* any other required field: the latter value *)
Theorem C10_required_other_latter_kept : forall rec f es ls, f_label f = LRequired -> f_type f <> TMessage ->
  merge_slot rec f es ls = Ok ls.
Proof. exact merge_required_other_latter. Qed.
Print Assumptions C10_required_other_latter_kept.

(* a oneof already set is carried over unless a later occurrence sets it again *)
Theorem C10_oneof_carried_over : forall rec md g ec ev lv i f, ec <> 0 ->
  find_field md ec = Some i -> nth_error (md_fields md) i = Some f -> in_group f g = true -> f_type f <> TMessage ->
  merge_union rec md g (ec, ev) (0, lv) = Ok (ec, ev).
Proof. exact merge_union_carried_over. Qed.
Print Assumptions C10_oneof_carried_over.

Theorem C10_oneof_later_sets_again : forall rec md g ec ev lc lv, lc <> 0 -> lc <> ec ->
  merge_union rec md g (ec, ev) (lc, lv) = Ok (lc, lv).
Proof. exact merge_union_later_sets. Qed.
Print Assumptions C10_oneof_later_sets_again.

(* unknown fields of both occurrences are kept, earlier first *)
Theorem C10_unknown_of_both_kept : forall E e l m, merge_messages E e l = Ok m -> m_unk m = m_unk e ++ m_unk l.
Proof. exact merge_keeps_unknown. Qed.
Print Assumptions C10_unknown_of_both_kept.

(* merging never fails on what the parser produces *)
Theorem C10_merge_total_on_well_shaped : forall E, env_ok E = true -> forall e l,
  shape_msg E e = true -> shape_msg E l = true -> m_desc e = m_desc l ->
  exists m, merge_messages E e l = Ok m /\ shape_msg E m = true /\ m_desc m = m_desc l.
Proof. exact merge_shape. Qed.
Print Assumptions C10_merge_total_on_well_shaped.

Theorem C10_merge_total_on_parser_results : forall E d a b ma mb, env_ok E = true ->
  LeafSafe.bytes a -> LeafSafe.bytes b -> Mem.zlen a < 2147483648 -> Mem.zlen b < 2147483648 -> (d < length E)%nat ->
  unpack_top E d a = Ok ma -> unpack_top E d b = Ok mb ->
  exists m, merge_messages E ma mb = Ok m /\ shape_msg E m = true /\ m_desc m = d.
Proof.
  intros E d a b ma mb EO Ba Bb La Lb Hd Ha Hb.
  destruct (unpack_top_total E EO d a Ba La Hd) as [Hf|(m1 & H1 & S1 & D1)]; [congruence|].
  destruct (unpack_top_total E EO d b Bb Lb Hd) as [Hf|(m2 & H2 & S2 & D2)]; [congruence|].
  assert (m1 = ma) by congruence. assert (m2 = mb) by congruence. subst m1 m2.
  destruct (merge_shape E EO ma mb S1 S2 ltac:(congruence)) as (m & Hm & Sm & Dm).
  exists m. repeat split; [exact Hm | exact Sm | congruence].
Qed.
Print Assumptions C10_merge_total_on_parser_results.

(* protobuf's own formulation: parsing the concatenation of two encodings gives the merge of the two messages *)
Theorem C10_concatenation_parses_to_merge : forall (E : env) (m1 m2 : msg) (b1 b2 : list Z),
  env_ok E = true -> canon_msg E m1 = true -> canon_msg E m2 = true -> m_desc m1 = m_desc m2 ->
  pack_msg E m1 = Ok b1 -> pack_msg E m2 = Ok b2 -> Z.of_nat (length (b1 ++ b2)) <= 268435425 ->
  unpack_top E (m_desc m1) (b1 ++ b2) = merge_messages E m1 m2.
Proof. exact concatenation_parses_to_merge. Qed.
Print Assumptions C10_concatenation_parses_to_merge.

(* ... and both sides succeed *)
Theorem C10_concatenation_parses_to_merge_ok : forall (E : env) (m1 m2 : msg) (b1 b2 : list Z),
  env_ok E = true -> canon_msg E m1 = true -> canon_msg E m2 = true -> m_desc m1 = m_desc m2 ->
  pack_msg E m1 = Ok b1 -> pack_msg E m2 = Ok b2 -> Z.of_nat (length (b1 ++ b2)) <= 268435425 ->
  exists m, merge_messages E m1 m2 = Ok m /\ unpack_top E (m_desc m1) (b1 ++ b2) = Ok m.
Proof. exact concatenation_parses_to_merge_ok. Qed.
Print Assumptions C10_concatenation_parses_to_merge_ok.

(* non-vacuity, on the pair that used to separate the two sides: a required sub-message sent twice
   (message 0 { required message-1 a = 1 }, message 1 { optional int32 x = 1; optional int32 y = 2 },
   m1 = { a = { x = 5 } }, m2 = { a = { y = 7 } }): the hypotheses hold, and both sides give { a = { x = 5, y = 7 } } *)
Theorem C10_concatenation_required_submessage_example :
  env_ok cx_env = true /\ canon_msg cx_env cx_m1 = true /\ canon_msg cx_env cx_m2 = true /\
  exists b1 b2, pack_msg cx_env cx_m1 = Ok b1 /\ pack_msg cx_env cx_m2 = Ok b2 /\
    Z.of_nat (length (b1 ++ b2)) <= 268435425 /\
    unpack_top cx_env 0 (b1 ++ b2) = merge_messages cx_env cx_m1 cx_m2 /\
    merge_messages cx_env cx_m1 cx_m2 =
      Ok (Msg 0 [SOne 0 (VMsg (Some (Msg 1 [SOne 1 (VWord 5); SOne 1 (VWord 7)] [] [])))] [] []).
Proof. exact required_submessage_example. Qed.
Print Assumptions C10_concatenation_required_submessage_example.

(* ---- as protobuf prescribes: the rules of the specification-level parser, and the implementation follows them *)
Theorem C10_spec_last_one_wins : forall E sub md r d slots unions unk i f h old,
  field_index md (rr_num r) = Some i -> nth_error (md_fields md) i = Some f ->
  nth_error slots i = Some (SOne h old) -> f_label f <> LRepeated -> f_type f <> TMessage ->
  spec_record E sub md r (Msg d slots unions unk) =
  match cell_of E sub f (rr_pay r) None with
  | Some v => Some (Msg d (set_nth slots i (SOne (SpecRules.has_after f h) v)) unions unk)
  | None => None
  end.
Proof. exact SpecRules.rule_last_one_wins. Qed.
Print Assumptions C10_spec_last_one_wins.

Theorem C10_spec_submessage_occurrences_merge : forall E sub md r d slots unions unk i f h m1 bs m2 mm,
  field_index md (rr_num r) = Some i -> nth_error (md_fields md) i = Some f ->
  nth_error slots i = Some (SOne h (VMsg (Some m1))) -> f_label f <> LRepeated -> f_type f = TMessage ->
  rr_pay r = PLen bs -> sub (f_sub f) bs = Some m2 -> merge_messages E m1 m2 = Ok mm ->
  spec_record E sub md r (Msg d slots unions unk) =
  Some (Msg d (set_nth slots i (SOne (SpecRules.has_after f h) (VMsg (Some mm)))) unions unk).
Proof. exact SpecRules.rule_submessage_merged. Qed.
Print Assumptions C10_spec_submessage_occurrences_merge.

Theorem C10_spec_repeated_fields_concatenate : forall E sub md r d slots unions unk i f n cap l m',
  field_index md (rr_num r) = Some i -> nth_error (md_fields md) i = Some f ->
  nth_error slots i = Some (SRep n cap (Some l)) -> f_label f = LRepeated ->
  spec_record E sub md r (Msg d slots unions unk) = Some m' ->
  exists vs, m' = Msg d (set_nth slots i (match vs with
                                          | [] => SRep n cap (Some l)
                                          | _ => SRep (n + zlen vs) (n + zlen vs) (Some (l ++ vs))
                                          end)) unions unk.
Proof. exact SpecRules.rule_repeated_appended. Qed.
Print Assumptions C10_spec_repeated_fields_concatenate.

Theorem C10_spec_oneof_member_replaced : forall E sub md r d slots unions unk i f g case cell m',
  field_index md (rr_num r) = Some i -> nth_error (md_fields md) i = Some f ->
  nth_error slots i = Some (SUnion g) -> f_label f <> LRepeated -> nth_error unions g = Some (case, cell) ->
  spec_record E sub md r (Msg d slots unions unk) = Some m' ->
  exists v, m' = Msg d slots (set_nth unions g (rr_num r, v)) unk /\
            cell_of E sub f (rr_pay r) (if case =? rr_num r then old_msg cell else None) = Some v.
Proof. exact SpecRules.rule_oneof_replaced. Qed.
Print Assumptions C10_spec_oneof_member_replaced.

Theorem C10_spec_unknown_retained_in_order : forall E sub md r d slots unions unk,
  field_index md (rr_num r) = None ->
  spec_record E sub md r (Msg d slots unions unk) =
  Some (Msg d slots unions (unk ++ [{| u_tag := rr_num r; u_wt := wt_of (rr_pay r); u_data := rr_raw r |}])).
Proof. exact SpecRules.rule_unknown_retained. Qed.
Print Assumptions C10_spec_unknown_retained_in_order.

(* the implementation returns exactly what the fold of these steps yields, for every input the specification reads *)
Theorem C10_unpack_follows_the_prescribed_rules : forall (E : env) (d : nat) (b : list Z) (m : msg),
  env_ok E = true -> LeafSafe.bytes b -> zlen b <= 268435425 ->
  spec_parse_top E d b = Some m -> unpack_top E d b = Ok m.
Proof. exact SpecRefine5.spec_parse_refined. Qed.
Print Assumptions C10_unpack_follows_the_prescribed_rules.

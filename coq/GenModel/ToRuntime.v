(* From the descriptors of the generator model (GenModel/Gen.v) to the descriptors the runtime model
   reads (Impl/Desc.v): the abstraction that forgets names and C symbols, numbers message descriptors
   by their position in the generator's output, and reads flags and defaults the way the runtime does.
   Used to show that what the generator emits satisfies the descriptor conditions the C01 theorem
   assumes (Proofs/GenEnvOk.v). *)
From Coq Require Import ZArith List Bool.
From PBC Require Import Base.CInt Gen.LeafC Impl.Desc GenModel.Ranges GenModel.Gen.
Import ListNotations.
Local Open Scope Z_scope.

Definition rt_type (t : gtype) : ftype :=
  match t with
  | GInt32 => TInt32 | GSint32 => TSint32 | GSfixed32 => TSfixed32 | GInt64 => TInt64 | GSint64 => TSint64
  | GSfixed64 => TSfixed64 | GUint32 => TUint32 | GFixed32 => TFixed32 | GUint64 => TUint64 | GFixed64 => TFixed64
  | GFloat => TFloat | GDouble => TDouble | GBool => TBool | GEnum => TEnum | GString => TString
  | GBytes => TBytes | GMessage => TMessage
  end.
Definition rt_label (l : glabel) : label :=
  match l with GRequired => LRequired | GOptional => LOptional | GRepeated => LRepeated | GNone => LNone end.
Definition rt_quant (q : gquant) : quant :=
  match q with GQNone => QNone | GQHas => QHas | GQCase g => QCase g | GQCount => QCount end.
Definition rt_default (d : gdefault) : dflt :=
  match d with
  | GDWord w => DWord w
  | GDString s => DStr s
  | GDBytes _ data => DBytes data
  | GDEmptyString => DStr []
  end.

(* position of a descriptor symbol among the message descriptors of the run *)
Fixpoint sym_index (syms : list str) (s : str) : nat :=
  match syms with
  | [] => O
  | x :: t => if str_eqb x s then O else S (sym_index t s)
  end.

Definition rt_field (syms : list str) (gf : gfield) : field :=
  {| f_id := gf_id gf;
     f_label := rt_label (gf_label gf);
     f_type := rt_type (gf_type gf);
     f_quant := rt_quant (gf_quant gf);
     f_packed := Z.odd (gf_flags gf);                       (* flags & PROTOBUF_C_FIELD_FLAG_PACKED *)
     f_oneof := Z.odd (gf_flags gf / 4);                    (* flags & PROTOBUF_C_FIELD_FLAG_ONEOF *)
     f_sub := match gf_descriptor gf with Some s => sym_index syms s | None => O end;
     f_default := option_map rt_default (gf_default gf) |}.

Definition rt_desc (syms : list str) (g : gmsg) : mdesc :=
  {| md_fields := map (rt_field syms) (gm_fields g);
     md_ranges := gm_field_ranges g;
     md_n_ranges := gm_n_field_ranges g;
     md_n_oneofs := length (gm_oneof_case_init g);
     md_generic_init := negb (gm_has_init g) |}.

Definition rt_env (o : goutput) : env :=
  let syms := map gm_sym (go_msgs o) in
  map (rt_desc syms) (go_msgs o).

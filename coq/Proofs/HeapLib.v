(* Reasoning library for the allocation-level model (Impl/Heap.v) and its invariants (Impl/HeapInv.v):
   replay is compositional, rules for the primitives (alloc, free_id, free_raw, free_if_owned, free_opt) on the
   live set, Hoare rules (ret, bind, consequence, iteration, frame-free extraction of pure facts), unfolding
   equations for ownership, list / Permutation / NoDup helpers, the nested induction principle for heap
   messages, and what env_ok gives about the fields of a descriptor. *)
From Coq Require Import ZArith List Bool Permutation Lia.
From PBC Require Import Base.CInt Gen.LeafC Impl.Desc Impl.Mem Impl.Enc Impl.WF Impl.Unpack Impl.Canon
     Impl.Heap Impl.HeapInv Proofs.ScanRec Proofs.MsgRT4.
Import ListNotations.
Local Open Scope Z_scope.

(* ====================================================================== lists, Permutation, NoDup *)

Lemma existsb_nat_In : forall (i : nat) (l : list nat), existsb (Nat.eqb i) l = true <-> In i l.
Proof.
  intros i l. rewrite existsb_exists. split.
  - intros (x & Hx & He). apply Nat.eqb_eq in He. subst x. exact Hx.
  - intros H. exists i. split; [exact H | apply Nat.eqb_refl].
Qed.

Lemma existsb_nat_not_In : forall (i : nat) (l : list nat), existsb (Nat.eqb i) l = false <-> ~ In i l.
Proof.
  intros i l. rewrite <- existsb_nat_In. destruct (existsb (Nat.eqb i) l); split; intros H; try reflexivity;
    try discriminate H; try (intros H'; discriminate H'). exfalso. apply H. reflexivity.
Qed.

(* filter (<> i), as replay writes it *)
Definition drop (i : nat) (l : list nat) : list nat := filter (fun x => negb (Nat.eqb i x)) l.

Lemma drop_notin : forall i l, ~ In i l -> drop i l = l.
Proof.
  intros i l. induction l as [|x t IH]; intros H; [reflexivity|].
  unfold drop in *. cbn [filter]. destruct (Nat.eqb_spec i x) as [->|Hne].
  - exfalso. apply H. left. reflexivity.
  - cbn [negb]. rewrite IH; [reflexivity|]. intros Hin. apply H. right. exact Hin.
Qed.

Lemma drop_cons_same : forall i l, drop i (i :: l) = drop i l.
Proof. intros i l. unfold drop. cbn [filter]. rewrite Nat.eqb_refl. reflexivity. Qed.

Lemma drop_head : forall i l, NoDup (i :: l) -> drop i (i :: l) = l.
Proof. intros i l H. rewrite drop_cons_same. apply drop_notin. inversion H; assumption. Qed.

Lemma Permutation_filter_compat : forall (A : Type) (p : A -> bool) (l l' : list A),
  Permutation l l' -> Permutation (filter p l) (filter p l').
Proof.
  intros A p l l' H. induction H as [|x l l' H IH|x y l|l l' l'' H1 IH1 H2 IH2].
  - constructor.
  - cbn [filter]. destruct (p x); [constructor|]; exact IH.
  - cbn [filter]. destruct (p x), (p y); try apply Permutation_refl. apply perm_swap.
  - eapply Permutation_trans; eassumption.
Qed.

Lemma drop_perm : forall i l l', Permutation l l' -> Permutation (drop i l) (drop i l').
Proof. intros i l l' H. apply Permutation_filter_compat. exact H. Qed.

Lemma drop_perm_cons : forall i L R, NoDup L -> Permutation L (i :: R) -> Permutation (drop i L) R.
Proof.
  intros i L R ND HP. rewrite <- (drop_head i R).
  - apply drop_perm. exact HP.
  - eapply Permutation_NoDup; eassumption.
Qed.

Lemma NoDup_app_inv : forall (A : Type) (a b : list A), NoDup (a ++ b) ->
  NoDup a /\ NoDup b /\ (forall x, In x a -> ~ In x b).
Proof.
  intros A a b. induction a as [|x a IH]; intros H.
  - split; [constructor|]. split; [exact H|]. intros x [].
  - cbn [app] in H. inversion H as [|x' l Hnin Hnd]; subst. destruct (IH Hnd) as (Na & Nb & Hd).
    split; [|split].
    + constructor; [|exact Na]. intros Hin. apply Hnin. apply in_or_app. left. exact Hin.
    + exact Nb.
    + intros y [->|Hy]; [|apply Hd; exact Hy]. intros Hin. apply Hnin. apply in_or_app. right. exact Hin.
Qed.

Lemma NoDup_app_intro : forall (A : Type) (a b : list A), NoDup a -> NoDup b ->
  (forall x, In x a -> ~ In x b) -> NoDup (a ++ b).
Proof.
  intros A a b Na Nb Hd. induction a as [|x a IH]; [exact Nb|].
  cbn [app]. inversion Na as [|x' l Hnin Na']; subst. constructor.
  - intros Hin. apply in_app_or in Hin. destruct Hin as [Hin|Hin]; [exact (Hnin Hin)|].
    apply (Hd x); [left; reflexivity | exact Hin].
  - apply IH; [exact Na'|]. intros y Hy. apply Hd. right. exact Hy.
Qed.

Lemma NoDup_perm_app_l : forall (A : Type) (L a b : list A), NoDup L -> Permutation L (a ++ b) -> NoDup a.
Proof.
  intros A L a b ND HP. pose proof (Permutation_NoDup HP ND) as H. apply NoDup_app_inv in H. tauto.
Qed.

Lemma NoDup_perm_app_r : forall (A : Type) (L a b : list A), NoDup L -> Permutation L (a ++ b) -> NoDup b.
Proof.
  intros A L a b ND HP. pose proof (Permutation_NoDup HP ND) as H. apply NoDup_app_inv in H. tauto.
Qed.

(* reshuffles *)
Lemma perm_app_swap_l : forall (A : Type) (a b c : list A), Permutation (a ++ b ++ c) (b ++ a ++ c).
Proof. intros A a b c. rewrite !app_assoc. apply Permutation_app_tail. apply Permutation_app_comm. Qed.

Lemma perm_app_rot : forall (A : Type) (a b c : list A), Permutation (a ++ b ++ c) (b ++ c ++ a).
Proof. intros A a b c. rewrite (app_assoc b c a). apply Permutation_app_comm. Qed.

Lemma perm_app_mid : forall (A : Type) (x : A) (a b : list A), Permutation (a ++ x :: b) (x :: a ++ b).
Proof. intros A x a b. symmetry. apply Permutation_middle. Qed.

Lemma perm_app_cong : forall (A : Type) (a a' b b' : list A),
  Permutation a a' -> Permutation b b' -> Permutation (a ++ b) (a' ++ b').
Proof. intros. apply Permutation_app; assumption. Qed.

Lemma perm_trans_app_l : forall (A : Type) (L a a' b : list A),
  Permutation L (a ++ b) -> Permutation a a' -> Permutation L (a' ++ b).
Proof. intros A L a a' b H1 H2. eapply Permutation_trans; [exact H1|]. apply Permutation_app_tail. exact H2. Qed.

Lemma perm_trans_app_r : forall (A : Type) (L a b b' : list A),
  Permutation L (a ++ b) -> Permutation b b' -> Permutation L (a ++ b').
Proof. intros A L a b b' H1 H2. eapply Permutation_trans; [exact H1|]. apply Permutation_app_head. exact H2. Qed.

(* Permutation goals over lists of block ids, from Permutation hypotheses: count occurrences and let lia finish *)
Definition occ1 (y x : nat) : nat := if Nat.eq_dec y x then 1%nat else 0%nat.

Lemma count_occ_cons1 : forall y l x,
  count_occ Nat.eq_dec (y :: l) x = (occ1 y x + count_occ Nat.eq_dec l x)%nat.
Proof. intros y l x. cbn [count_occ]. unfold occ1. destruct (Nat.eq_dec y x); reflexivity. Qed.

Lemma perm_count : forall l l' : list nat,
  Permutation l l' <-> forall x, count_occ Nat.eq_dec l x = count_occ Nat.eq_dec l' x.
Proof. intros l l'. apply Permutation_count_occ. Qed.

#[export] Hint Rewrite count_occ_cons1 @count_occ_app @count_occ_nil : perm_nat_db.

Ltac perm_nat :=
  repeat match goal with
         | H : Permutation _ _ |- _ =>
             let H' := fresh H in pose proof (proj1 (perm_count _ _) H) as H'; clear H
         end;
  apply (proj2 (perm_count _ _));
  let x := fresh "x" in
  intros x;
  repeat match goal with
         | H : forall y : nat, count_occ Nat.eq_dec _ y = count_occ Nat.eq_dec _ y |- _ =>
             pose proof (H x); clear H
         end;
  autorewrite with perm_nat_db in *; lia.

Lemma perm_nat_test : forall (i : nat) (a b c L F : list nat),
  Permutation L (i :: a ++ b ++ c) -> Permutation F (b ++ a) -> Permutation L (F ++ c ++ [i]).
Proof. intros i a b c L F H1 H2. perm_nat. Qed.

(* flat_map *)
Lemma in_flat_map_iff : forall (A B : Type) (f : A -> list B) (l : list A) (y : B),
  In y (flat_map f l) <-> exists x, In x l /\ In y (f x).
Proof. intros. apply in_flat_map. Qed.

Lemma flat_map_nil_all : forall (A B : Type) (f : A -> list B) (l : list A),
  (forall x, In x l -> f x = []) -> flat_map f l = [].
Proof.
  intros A B f l. induction l as [|x t IH]; intros H; [reflexivity|].
  cbn [flat_map]. rewrite (H x (or_introl eq_refl)). cbn [app]. apply IH. intros y Hy. apply H. right. exact Hy.
Qed.

Lemma flat_map_ext_in : forall (A B : Type) (f g : A -> list B) (l : list A),
  (forall x, In x l -> f x = g x) -> flat_map f l = flat_map g l.
Proof.
  intros A B f g l. induction l as [|x t IH]; intros H; [reflexivity|].
  cbn [flat_map]. rewrite (H x (or_introl eq_refl)). f_equal. apply IH. intros y Hy. apply H. right. exact Hy.
Qed.

Lemma flat_map_app_perm : forall (A B : Type) (f g : A -> list B) (l : list A),
  Permutation (flat_map (fun x => f x ++ g x) l) (flat_map f l ++ flat_map g l).
Proof.
  intros A B f g l. induction l as [|x t IH]; [constructor|].
  cbn [flat_map]. rewrite <- !app_assoc. apply Permutation_app_head.
  eapply Permutation_trans; [apply Permutation_app_head; exact IH|]. apply perm_app_swap_l.
Qed.

(* exchanging two nested sums *)
Lemma flat_map_swap : forall (A B C : Type) (c : A -> B -> list C) (la : list A) (lb : list B),
  Permutation (flat_map (fun a => flat_map (fun b => c a b) lb) la)
              (flat_map (fun b => flat_map (fun a => c a b) la) lb).
Proof.
  intros A B C c la lb. induction la as [|a t IH].
  - cbn [flat_map]. rewrite flat_map_nil_all; [constructor | reflexivity].
  - cbn [flat_map]. eapply Permutation_trans; [apply Permutation_app_head; exact IH|].
    symmetry. apply (flat_map_app_perm B C (fun b => c a b) (fun b => flat_map (fun a0 => c a0 b) t)).
Qed.

(* the one entry of an indexed list that a test on the index selects *)
Lemma flat_map_select : forall (A B : Type) (h : A -> list B) (g0 : nat) (us : list A) (a : nat),
  (a <= g0)%nat ->
  flat_map (fun gc : nat * A => if Nat.eqb (fst gc) g0 then h (snd gc) else []) (combine (seq a (length us)) us)
  = match nth_error us (g0 - a) with Some cv => h cv | None => [] end.
Proof.
  intros A B h g0 us. induction us as [|u t IH]; intros a Ha.
  - cbn [length seq combine flat_map]. destruct (g0 - a)%nat; reflexivity.
  - cbn [length seq combine flat_map fst snd]. destruct (Nat.eqb_spec a g0) as [->|Hne].
    + rewrite Nat.sub_diag. cbn [nth_error].
      rewrite flat_map_nil_all; [apply app_nil_r|].
      intros [g c] Hin. cbn [fst snd]. apply in_combine_l in Hin. apply in_seq in Hin.
      destruct (Nat.eqb_spec g g0); [lia | reflexivity].
    + cbn [app]. rewrite IH by lia. replace (g0 - a)%nat with (S (g0 - S a)) by lia. reflexivity.
Qed.

Lemma combine_app : forall (A B : Type) (a a' : list A) (b b' : list B), length a = length b ->
  combine (a ++ a') (b ++ b') = combine a b ++ combine a' b'.
Proof.
  intros A B a. induction a as [|x a IH]; intros a' b b' H; destruct b as [|y b]; try discriminate H; [reflexivity|].
  cbn [app combine]. f_equal. apply IH. cbn [length] in H. lia.
Qed.

Lemma nth_error_combine : forall (A B : Type) (a : list A) (b : list B) i x y,
  nth_error a i = Some x -> nth_error b i = Some y -> nth_error (combine a b) i = Some (x, y).
Proof.
  intros A B a. induction a as [|x0 a IH]; intros b i x y Ha Hb; [destruct i; discriminate Ha|].
  destruct b as [|y0 b]; [destruct i; discriminate Hb|].
  destruct i as [|i]; cbn [nth_error combine] in *.
  - inversion Ha; inversion Hb; reflexivity.
  - apply IH; assumption.
Qed.

Lemma with_nth_nth_error : forall (A B : Type) (k : A -> B) (d : B) (l : list A) (g : nat),
  with_nth k d l g = match nth_error l g with Some x => k x | None => d end.
Proof.
  intros A B k d l. induction l as [|x t IH]; intros g; [destruct g; reflexivity|].
  destruct g as [|g]; [reflexivity|]. cbn [with_nth nth_error]. apply IH.
Qed.

Lemma in_combine_seq : forall (A : Type) (us : list A) (a g : nat) (x : A),
  In (g, x) (combine (seq a (length us)) us) -> exists i, g = (a + i)%nat /\ nth_error us i = Some x.
Proof.
  intros A us. induction us as [|u t IH]; intros a g x H; [contradiction|].
  cbn [length seq combine] in H. destruct H as [H|H].
  - inversion H; subst. exists 0%nat. split; [lia | reflexivity].
  - destruct (IH (S a) g x H) as (i & -> & Hi). exists (S i). split; [lia | exact Hi].
Qed.

Lemma flat_map_combine_snd : forall (A B C : Type) (h : B -> list C) (a : list A) (b : list B),
  length a = length b -> flat_map (fun p : A * B => h (snd p)) (combine a b) = flat_map h b.
Proof.
  intros A B C h a. induction a as [|x a IH]; intros b H; destruct b as [|y b]; try discriminate H; [reflexivity|].
  cbn [combine flat_map snd]. f_equal. apply IH. cbn [length] in H. lia.
Qed.

(* ====================================================================== replay *)

Lemma replay_app : forall a b L,
  replay (a ++ b) L = match replay a L with Some L' => replay b L' | None => None end.
Proof.
  induction a as [|e a IH]; intros b L; [reflexivity|].
  cbn [app replay]. destruct e as [id sz|id sz|id|].
  - destruct (existsb (Nat.eqb id) L); [reflexivity | apply IH].
  - apply IH.
  - destruct (existsb (Nat.eqb id) L); [apply IH | reflexivity].
  - reflexivity.
Qed.

Lemma live_of_app : forall s s' evs, h_trace s' = evs ++ h_trace s ->
  live_of s' = match live_of s with Some L => replay (rev evs) L | None => None end.
Proof. intros s s' evs H. unfold live_of. rewrite H, rev_app_distr. apply replay_app. Qed.

Lemma live_of_cons : forall s s' e, h_trace s' = e :: h_trace s ->
  live_of s' = match live_of s with Some L => replay [e] L | None => None end.
Proof. intros s s' e H. apply (live_of_app s s' [e]). exact H. Qed.

Lemma live_of_same : forall s s', h_trace s' = h_trace s -> live_of s' = live_of s.
Proof. intros s s' H. unfold live_of. rewrite H. reflexivity. Qed.

Lemma replay_EvA : forall id sz L, ~ In id L -> replay [EvA id sz] L = Some (id :: L).
Proof. intros id sz L H. cbn [replay]. apply existsb_nat_not_In in H. rewrite H. reflexivity. Qed.

Lemma replay_EvR : forall id sz L, replay [EvR id sz] L = Some L.
Proof. reflexivity. Qed.

Lemma replay_EvF : forall id L, In id L -> replay [EvF id] L = Some (drop id L).
Proof. intros id L H. cbn [replay]. apply existsb_nat_In in H. rewrite H. reflexivity. Qed.

Lemma replay_EvF_bad : forall id L, ~ In id L -> replay [EvF id] L = None.
Proof. intros id L H. cbn [replay]. apply existsb_nat_not_In in H. rewrite H. reflexivity. Qed.

Lemma replay_EvX : forall tr L, replay (EvX :: tr) L = None.
Proof. reflexivity. Qed.

(* ====================================================================== lives *)

Lemma lives_perm : forall s L L', lives s L -> Permutation L L' -> lives s L'.
Proof.
  intros s L L' (L0 & Hl & HP & ND & Hlt) H. exists L0. split; [exact Hl|]. split.
  - eapply Permutation_trans; eassumption.
  - split; [eapply Permutation_NoDup; eassumption|].
    intros i Hi. apply Hlt. eapply Permutation_in; [apply Permutation_sym; exact H | exact Hi].
Qed.

Lemma lives_NoDup : forall s L, lives s L -> NoDup L.
Proof. intros s L (L0 & _ & _ & ND & _). exact ND. Qed.

Lemma lives_lt : forall s L i, lives s L -> In i L -> (i < h_next s)%nat.
Proof. intros s L i (L0 & _ & _ & _ & Hlt) Hi. apply Hlt. exact Hi. Qed.

Lemma lives_fresh : forall s L, lives s L -> ~ In (h_next s) L.
Proof. intros s L H Hin. pose proof (lives_lt s L _ H Hin). lia. Qed.

Lemma lives_init : forall n, lives (mkH n []) [].
Proof.
  intros n. exists []. split; [reflexivity|]. split; [constructor|]. split; [constructor|]. intros i [].
Qed.

(* the state does not change *)
Lemma lives_same : forall s s' L, h_trace s' = h_trace s -> (h_next s <= h_next s')%nat -> lives s L -> lives s' L.
Proof.
  intros s s' L Ht Hn (L0 & Hl & HP & ND & Hlt). exists L0. rewrite (live_of_same s s' Ht).
  split; [exact Hl|]. split; [exact HP|]. split; [exact ND|]. intros i Hi. specialize (Hlt i Hi). lia.
Qed.

(* ---------- primitives *)
Section Prims.
Variable plan : nat -> bool.

Lemma alloc_eq : forall sz s,
  alloc plan sz s = if plan (h_next s) then (None, mkH (S (h_next s)) (EvR (h_next s) sz :: h_trace s))
                    else (Some (h_next s), mkH (S (h_next s)) (EvA (h_next s) sz :: h_trace s)).
Proof. reflexivity. Qed.

Lemma alloc_next : forall sz s, h_next (snd (alloc plan sz s)) = S (h_next s).
Proof. intros sz s. rewrite alloc_eq. destruct (plan (h_next s)); reflexivity. Qed.

Lemma alloc_lives : forall sz s L, lives s L ->
  match fst (alloc plan sz s) with
  | Some k => k = h_next s /\ ~ In k L /\ lives (snd (alloc plan sz s)) (k :: L)
  | None => lives (snd (alloc plan sz s)) L
  end.
Proof.
  intros sz s L HL. pose proof (lives_fresh s L HL) as Hfresh.
  destruct HL as (L0 & Hl & HP & ND & Hlt). rewrite alloc_eq. destruct (plan (h_next s)); cbn [fst snd].
  - exists L0. split.
    + rewrite (live_of_cons s _ (EvR (h_next s) sz)) by reflexivity. rewrite Hl. reflexivity.
    + split; [exact HP|]. split; [exact ND|]. intros i Hi. cbn [h_next]. specialize (Hlt i Hi). lia.
  - split; [reflexivity|]. split; [exact Hfresh|]. exists (h_next s :: L0). split.
    + rewrite (live_of_cons s _ (EvA (h_next s) sz)) by reflexivity. rewrite Hl. apply replay_EvA.
      intros Hin. apply Hfresh. eapply Permutation_in; eassumption.
    + split; [constructor; exact HP|]. split; [constructor; assumption|].
      intros i [<-|Hi]; cbn [h_next]; [lia|]. specialize (Hlt i Hi). lia.
Qed.

End Prims.

Lemma free_id_eq : forall i s, free_id i s = (tt, mkH (h_next s) (EvF i :: h_trace s)).
Proof. reflexivity. Qed.

Lemma free_id_lives : forall i s L R, lives s L -> Permutation L (i :: R) -> lives (snd (free_id i s)) R.
Proof.
  intros i s L R (L0 & Hl & HP & ND & Hlt) HR. rewrite free_id_eq. cbn [snd].
  assert (HP0 : Permutation L0 (i :: R)) by (eapply Permutation_trans; eassumption).
  assert (ND0 : NoDup L0) by (eapply Permutation_NoDup; [apply Permutation_sym; exact HP | exact ND]).
  exists (drop i L0). split.
  - rewrite (live_of_cons s _ (EvF i)) by reflexivity. rewrite Hl. apply replay_EvF.
    eapply Permutation_in; [apply Permutation_sym; exact HP0 | left; reflexivity].
  - split; [apply drop_perm_cons; assumption|]. split.
    + pose proof (Permutation_NoDup HR ND) as H. inversion H; assumption.
    + intros j Hj. cbn [h_next]. apply Hlt. eapply Permutation_in; [apply Permutation_sym; exact HR | right; exact Hj].
Qed.

Lemma free_id_lives_remove : forall i s L, lives s L -> In i L ->
  lives (snd (free_id i s)) (remove Nat.eq_dec i L).
Proof.
  intros i s L HL Hin. apply (free_id_lives i s L _ HL).
  pose proof (lives_NoDup s L HL) as ND. clear HL. induction L as [|x t IH]; [contradiction|].
  inversion ND as [|x' l Hnin ND']; subst. cbn [remove]. destruct (Nat.eq_dec i x) as [->|Hne].
  - rewrite notin_remove by exact Hnin. apply Permutation_refl.
  - destruct Hin as [->|Hin]; [contradiction|]. eapply Permutation_trans; [|apply perm_swap].
    constructor. apply IH; assumption.
Qed.

(* freeing what is not live breaks the discipline, for good *)
Lemma free_id_bad : forall i s L, lives s L -> ~ In i L -> live_of (snd (free_id i s)) = None.
Proof.
  intros i s L (L0 & Hl & HP & _) Hnin. rewrite free_id_eq. cbn [snd].
  rewrite (live_of_cons s _ (EvF i)) by reflexivity. rewrite Hl. apply replay_EvF_bad.
  intros Hin. apply Hnin. eapply Permutation_in; eassumption.
Qed.

(* the blocks a pointer stands for *)
Definition ptr_list (p : ptr nat) : list nat := match p with PHeap i => [i] | _ => [] end.

Lemma free_raw_lives : forall p s L R, p <> PDef -> lives s L -> Permutation L (ptr_list p ++ R) ->
  lives (snd (free_raw p s)) R /\ h_next (snd (free_raw p s)) = h_next s.
Proof.
  intros p s L R Hp HL HP. destruct p as [| |i]; [| contradiction |].
  - cbn [free_raw ptr_list app] in *. unfold ret. cbn [snd]. split; [eapply lives_perm; eassumption | reflexivity].
  - cbn [free_raw ptr_list app] in *. split; [eapply free_id_lives; eassumption | reflexivity].
Qed.

Lemma free_if_owned_lives : forall f p s L R, (p = PDef -> has_default f = true) -> lives s L ->
  Permutation L (ptr_list p ++ R) ->
  lives (snd (free_if_owned f p s)) R /\ h_next (snd (free_if_owned f p s)) = h_next s.
Proof.
  intros f p s L R Hp HL HP. destruct p as [| |i].
  - cbn [free_if_owned ptr_list app] in *. unfold ret. cbn [snd]. split; [eapply lives_perm; eassumption | reflexivity].
  - cbn [free_if_owned is_def ptr_list app] in *. rewrite (Hp eq_refl). unfold ret. cbn [snd].
    split; [eapply lives_perm; eassumption | reflexivity].
  - cbn [free_if_owned is_def]. apply (free_raw_lives (PHeap i) s L R); [discriminate | assumption | assumption].
Qed.

Lemma free_opt_lives : forall o s L R, lives s L -> Permutation L (opt_list o ++ R) ->
  lives (snd (free_opt o s)) R /\ h_next (snd (free_opt o s)) = h_next s.
Proof.
  intros o s L R HL HP. destruct o as [i|]; cbn [free_opt opt_list app] in *.
  - split; [eapply free_id_lives; eassumption | reflexivity].
  - unfold ret. cbn [snd]. split; [eapply lives_perm; eassumption | reflexivity].
Qed.

(* the static default handed to free: the discipline is violated *)
Lemma free_raw_def_bad : forall s, live_of (snd (free_raw PDef s)) = None.
Proof.
  intros s. cbn [free_raw snd]. rewrite (live_of_cons s _ EvX) by reflexivity.
  destruct (live_of s); reflexivity.
Qed.

(* once violated, always violated *)
Lemma live_of_none_app : forall s s' evs, h_trace s' = evs ++ h_trace s -> live_of s = None -> live_of s' = None.
Proof. intros s s' evs H Hn. rewrite (live_of_app s s' evs H), Hn. reflexivity. Qed.

(* ====================================================================== Hoare rules *)

Lemma bnd_eq : forall (X Y : Type) (c : A X) (k : X -> A Y) s, bnd c k s = k (fst (c s)) (snd (c s)).
Proof. intros X Y c k s. unfold bnd. destruct (c s) as [x s']. reflexivity. Qed.

Lemma hoare_ret : forall (X : Type) (x : X) (P : list nat -> Prop) (Q : X -> list nat -> Prop),
  (forall L, P L -> Q x L) -> hoare P (ret x) Q.
Proof.
  intros X x P Q H s L HL HP. exists L. unfold ret. cbn [fst snd]. split; [exact HL|]. split; [apply H; exact HP | lia].
Qed.

Lemma hoare_bnd : forall (X Y : Type) (c : A X) (k : X -> A Y) (P : list nat -> Prop) (Q : X -> list nat -> Prop) (R : Y -> list nat -> Prop),
  hoare P c Q -> (forall x, hoare (Q x) (k x) R) -> hoare P (bnd c k) R.
Proof.
  intros X Y c k P Q R Hc Hk s L HL HP. destruct (Hc s L HL HP) as (L1 & HL1 & HQ & Hn1).
  rewrite bnd_eq. destruct (Hk (fst (c s)) (snd (c s)) L1 HL1 HQ) as (L2 & HL2 & HR & Hn2).
  exists L2. split; [exact HL2|]. split; [exact HR | lia].
Qed.

Lemma hoare_conseq : forall (X : Type) (c : A X) (P P' : list nat -> Prop) (Q Q' : X -> list nat -> Prop),
  hoare P' c Q' -> (forall L, P L -> P' L) -> (forall x L, Q' x L -> Q x L) -> hoare P c Q.
Proof.
  intros X c P P' Q Q' H HP HQ s L HL HPL. destruct (H s L HL (HP L HPL)) as (L' & HL' & HQ' & Hn).
  exists L'. split; [exact HL'|]. split; [apply HQ; exact HQ' | exact Hn].
Qed.

Lemma hoare_pre : forall (X : Type) (c : A X) (P P' : list nat -> Prop) (Q : X -> list nat -> Prop),
  hoare P' c Q -> (forall L, P L -> P' L) -> hoare P c Q.
Proof. intros X c P P' Q H HP. apply (hoare_conseq X c P P' Q Q H HP). intros x L HQ. exact HQ. Qed.

Lemma hoare_post : forall (X : Type) (c : A X) (P : list nat -> Prop) (Q Q' : X -> list nat -> Prop),
  hoare P c Q' -> (forall x L, Q' x L -> Q x L) -> hoare P c Q.
Proof. intros X c P Q Q' H HQ. apply (hoare_conseq X c P P Q Q' H); [intros L HP; exact HP | exact HQ]. Qed.

(* pure facts may be taken out of the precondition; the live set has no duplicates *)
Lemma hoare_assume : forall (X : Type) (c : A X) (P : list nat -> Prop) (Q : X -> list nat -> Prop),
  (forall L, P L -> NoDup L -> hoare P c Q) -> hoare P c Q.
Proof. intros X c P Q H s L HL HP. exact (H L HP (lives_NoDup s L HL) s L HL HP). Qed.

Lemma hoare_exact : forall (X : Type) (c : A X) (P : list nat -> Prop) (Q : X -> list nat -> Prop),
  (forall L0, P L0 -> NoDup L0 -> hoare (fun L => L = L0) c Q) -> hoare P c Q.
Proof. intros X c P Q H s L HL HP. exact (H L HP (lives_NoDup s L HL) s L HL eq_refl). Qed.

Lemma hoare_false : forall (X : Type) (c : A X) (Q : X -> list nat -> Prop), hoare (fun _ => False) c Q.
Proof. intros X c Q s L _ []. Qed.

(* assertions stable under permutation of the live set *)
Definition perm_closed (P : list nat -> Prop) : Prop := forall L L', P L -> Permutation L L' -> P L'.

Lemma perm_closed_perm : forall R, perm_closed (fun L => Permutation L R).
Proof. intros R L L' H HP. eapply Permutation_trans; [apply Permutation_sym; exact HP | exact H]. Qed.

(* a computation that does not touch the state *)
Lemma hoare_pure : forall (X : Type) (c : A X) (P : list nat -> Prop) (Q : X -> list nat -> Prop),
  (forall s, snd (c s) = s) -> (forall s L, P L -> Q (fst (c s)) L) -> hoare P c Q.
Proof.
  intros X c P Q Hs HQ s L HL HP. exists L. rewrite Hs. split; [exact HL|]. split; [apply HQ; exact HP | lia].
Qed.

(* case analyses in the program *)
Lemma hoare_if : forall (X : Type) (b : bool) (c1 c2 : A X) (P : list nat -> Prop) (Q : X -> list nat -> Prop),
  (b = true -> hoare P c1 Q) -> (b = false -> hoare P c2 Q) -> hoare P (if b then c1 else c2) Q.
Proof. intros X b c1 c2 P Q H1 H2. destruct b; [apply H1 | apply H2]; reflexivity. Qed.

(* ---------- primitives as triples *)
Section PrimRules.
Variable plan : nat -> bool.

Lemma hoare_alloc : forall sz (P : list nat -> Prop),
  hoare P (alloc plan sz)
        (fun o L' => match o with
                     | Some k => exists L, P L /\ L' = k :: L /\ ~ In k L
                     | None => P L'
                     end).
Proof.
  intros sz P s L HL HP. pose proof (alloc_lives plan sz s L HL) as H. pose proof (alloc_next plan sz s) as Hn.
  destruct (fst (alloc plan sz s)) as [k|].
  - destruct H as (Hk & Hnin & HL'). exists (k :: L). split; [exact HL'|]. split; [|lia].
    exists L. split; [exact HP|]. split; [reflexivity | exact Hnin].
  - exists L. split; [exact H|]. split; [exact HP | lia].
Qed.

(* the usual shape: the live set is described up to permutation *)
Lemma hoare_alloc_perm : forall sz R,
  hoare (fun L => Permutation L R) (alloc plan sz)
        (fun o L' => match o with
                     | Some k => Permutation L' (k :: R) /\ ~ In k R
                     | None => Permutation L' R
                     end).
Proof.
  intros sz R. eapply hoare_post; [apply hoare_alloc|]. intros [k|] L' H; [|exact H].
  destruct H as (L & HP & -> & Hnin). split; [constructor; exact HP|].
  intros Hin. apply Hnin. eapply Permutation_in; [apply Permutation_sym; exact HP | exact Hin].
Qed.

End PrimRules.

Lemma hoare_free_id : forall i R,
  hoare (fun L => Permutation L (i :: R)) (free_id i) (fun _ L' => Permutation L' R).
Proof.
  intros i R s L HL HP. exists R. split; [eapply free_id_lives; eassumption|]. split; [apply Permutation_refl|].
  rewrite free_id_eq. cbn [snd h_next]. lia.
Qed.

Lemma hoare_free_raw : forall p R, p <> PDef ->
  hoare (fun L => Permutation L (ptr_list p ++ R)) (free_raw p) (fun _ L' => Permutation L' R).
Proof.
  intros p R Hp s L HL HP. destruct (free_raw_lives p s L R Hp HL HP) as (H1 & H2).
  exists R. split; [exact H1|]. split; [apply Permutation_refl | lia].
Qed.

Lemma hoare_free_if_owned : forall f p R, (p = PDef -> has_default f = true) ->
  hoare (fun L => Permutation L (ptr_list p ++ R)) (free_if_owned f p) (fun _ L' => Permutation L' R).
Proof.
  intros f p R Hp s L HL HP. destruct (free_if_owned_lives f p s L R Hp HL HP) as (H1 & H2).
  exists R. split; [exact H1|]. split; [apply Permutation_refl | lia].
Qed.

Lemma hoare_free_opt : forall o R,
  hoare (fun L => Permutation L (opt_list o ++ R)) (free_opt o) (fun _ L' => Permutation L' R).
Proof.
  intros o R s L HL HP. destruct (free_opt_lives o s L R HL HP) as (H1 & H2).
  exists R. split; [exact H1|]. split; [apply Permutation_refl | lia].
Qed.

(* ---------- iteration *)
Lemma iterA_nil : forall (X : Type) (f : X -> A unit), iterA f [] = ret tt.
Proof. reflexivity. Qed.
Lemma iterA_cons : forall (X : Type) (f : X -> A unit) x t, iterA f (x :: t) = bnd (f x) (fun _ => iterA f t).
Proof. reflexivity. Qed.

Lemma hoare_iterA : forall (X : Type) (f : X -> A unit) (I : list X -> list nat -> Prop) (l : list X),
  (forall x t, hoare (I (x :: t)) (f x) (fun _ => I t)) ->
  hoare (I l) (iterA f l) (fun _ => I []).
Proof.
  intros X f I l H. induction l as [|x t IH].
  - rewrite iterA_nil. apply hoare_ret. auto.
  - rewrite iterA_cons. eapply hoare_bnd; [apply H|]. intros u. exact IH.
Qed.

(* each element frees what it stands for; only the elements of the list need to behave *)
Lemma hoare_iterA_frees : forall (X : Type) (f : X -> A unit) (own : X -> list nat) (l : list X) R,
  (forall x, In x l -> forall R', hoare (fun L => Permutation L (own x ++ R')) (f x) (fun _ L' => Permutation L' R')) ->
  hoare (fun L => Permutation L (flat_map own l ++ R)) (iterA f l) (fun _ L' => Permutation L' R).
Proof.
  intros X f own l R. induction l as [|x t IH]; intros H.
  - rewrite iterA_nil. apply hoare_ret. auto.
  - rewrite iterA_cons. cbn [flat_map]. eapply hoare_bnd.
    + eapply hoare_pre; [apply (H x (or_introl eq_refl) (flat_map own t ++ R))|].
      intros L HL. rewrite <- app_assoc in HL. exact HL.
    + intros u. apply IH. intros y Hy. apply H. right. exact Hy.
Qed.

Lemma hoare_iterA_free_id : forall ids R,
  hoare (fun L => Permutation L (ids ++ R)) (iterA free_id ids) (fun _ L' => Permutation L' R).
Proof.
  intros ids R. eapply hoare_pre; [apply (hoare_iterA_frees nat free_id (fun i => [i]))|].
  - intros i _ R'. apply hoare_free_id.
  - intros L HL. replace (flat_map (fun i => [i]) ids) with ids; [exact HL|].
    clear HL. induction ids as [|i t IH]; [reflexivity|]. cbn [flat_map app]. f_equal. exact IH.
Qed.

Lemma hoare_iterA_free_opt : forall os R,
  hoare (fun L => Permutation L (flat_map opt_list os ++ R)) (iterA free_opt os) (fun _ L' => Permutation L' R).
Proof. intros os R. apply hoare_iterA_frees. intros o _ R'. apply hoare_free_opt. Qed.

(* ====================================================================== ownership *)

Lemma owned_eq : forall id d slots unions utab unk,
  owned (HM id d slots unions utab unk) =
  id :: flat_map (owned_slot owned) slots ++ flat_map (fun cv : Z * hval => owned_val owned (snd cv)) unions
     ++ opt_list utab ++ flat_map opt_list unk.
Proof. reflexivity. Qed.

Lemma owned_val_scalar : forall rec, owned_val rec HScalar = [].
Proof. reflexivity. Qed.
Lemma owned_val_str : forall rec p, owned_val rec (HStr p) = ptr_list p.
Proof. intros rec [| |i]; reflexivity. Qed.
Lemma owned_val_bytes : forall rec n p, owned_val rec (HBytes n p) = ptr_list p.
Proof. intros rec n [| |i]; reflexivity. Qed.
Lemma owned_val_msg : forall rec m, owned_val rec (HMsg (Some m)) = rec m.
Proof. reflexivity. Qed.
Lemma owned_val_nomsg : forall rec, owned_val rec (HMsg None) = [].
Proof. reflexivity. Qed.

Lemma owned_slot_one : forall rec h v, owned_slot rec (HOne h v) = owned_val rec v.
Proof. reflexivity. Qed.
Lemma owned_slot_rep : forall rec a el, owned_slot rec (HRep (Some (a, el))) = a :: flat_map (owned_val rec) el.
Proof. reflexivity. Qed.
Lemma owned_slot_norep : forall rec, owned_slot rec (HRep None) = [].
Proof. reflexivity. Qed.
Lemma owned_slot_union : forall rec g, owned_slot rec (HUnion g) = [].
Proof. reflexivity. Qed.

Lemma owned_val_as_hstr : forall rec v, owned_val rec (HStr (as_hstr v)) = match v with HStr _ => owned_val rec v | _ => [] end.
Proof. intros rec [|p|n p|o]; reflexivity. Qed.

Lemma owns_nothing_owned : forall rec v, owns_nothing v = true -> owned_val rec v = [].
Proof.
  intros rec [|[| |i]|n [| |i]|[m|]] H; try reflexivity; discriminate H.
Qed.

Lemma owned_head : forall m, exists t, owned m = hm_id m :: t.
Proof. intros [id d slots unions utab unk]. rewrite owned_eq. eexists. reflexivity. Qed.

(* ====================================================================== induction over heap messages *)

Definition slot_allv (Q : hval -> Prop) (s : hslot) : Prop :=
  match s with
  | HOne _ v => Q v
  | HRep (Some (_, el)) => Forall Q el
  | _ => True
  end.

Lemma hmsg_hval_ind (P : hmsg -> Prop) (Q : hval -> Prop) :
  Q HScalar -> (forall p, Q (HStr p)) -> (forall n p, Q (HBytes n p)) -> Q (HMsg None) ->
  (forall m, P m -> Q (HMsg (Some m))) ->
  (forall id d slots unions utab unk,
     Forall (slot_allv Q) slots -> Forall (fun cv : Z * hval => Q (snd cv)) unions ->
     P (HM id d slots unions utab unk)) ->
  forall m, P m.
Proof.
  intros Hs Hstr Hb Hn Hm Hmsg.
  refine (fix IH (m : hmsg) : P m :=
            match m with
            | HM id d slots unions utab unk =>
                let val (v : hval) : Q v :=
                  match v return Q v with
                  | HScalar => Hs
                  | HStr p => Hstr p
                  | HBytes n p => Hb n p
                  | HMsg None => Hn
                  | HMsg (Some m') => Hm m' (IH m')
                  end in
                Hmsg id d slots unions utab unk
                   ((fix go (ss : list hslot) : Forall (slot_allv Q) ss :=
                       match ss with
                       | [] => Forall_nil (slot_allv Q)
                       | s :: t =>
                           @Forall_cons hslot (slot_allv Q) s t
                             (match s return slot_allv Q s with
                              | HOne _ v => val v
                              | HRep (Some (_, el)) =>
                                  (fix ge (l : list hval) : Forall Q l :=
                                     match l with
                                     | [] => Forall_nil Q
                                     | v :: l' => @Forall_cons hval Q v l' (val v) (ge l')
                                     end) el
                              | HRep None => I
                              | HUnion _ => I
                              end) (go t)
                       end) slots)
                   ((fix gu (us : list (Z * hval)) : Forall (fun cv : Z * hval => Q (snd cv)) us :=
                       match us with
                       | [] => Forall_nil _
                       | cv :: t => @Forall_cons _ (fun cv : Z * hval => Q (snd cv)) cv t (val (snd cv)) (gu t)
                       end) unions)
            end).
Qed.

(* single-predicate form: the property holds for a message when it holds for every message it points at *)
Definition val_all (P : hmsg -> Prop) (v : hval) : Prop := match v with HMsg (Some m) => P m | _ => True end.
Definition slot_all (P : hmsg -> Prop) (s : hslot) : Prop :=
  match s with
  | HOne _ v => val_all P v
  | HRep (Some (_, el)) => Forall (val_all P) el
  | _ => True
  end.

Lemma hmsg_ind2 (P : hmsg -> Prop) :
  (forall id d slots unions utab unk,
     Forall (slot_all P) slots -> Forall (fun cv : Z * hval => val_all P (snd cv)) unions ->
     P (HM id d slots unions utab unk)) ->
  forall m, P m.
Proof.
  intros H. apply (hmsg_hval_ind P (val_all P)); try exact I.
  - intros p. exact I.
  - intros n p. exact I.
  - intros m Hm. exact Hm.
  - intros id d slots unions utab unk HS HU. apply H; [|exact HU].
    eapply Forall_impl; [|exact HS]. intros [h v|[[a el]|]|g] Hs; exact Hs.
Qed.

(* ====================================================================== descriptors *)

Section Env.
Variable E : env.
Hypothesis EO : env_ok E = true.

Lemma env_ok_desc : forall d md, nth_error E d = Some md -> desc_ok (length E) md = true.
Proof.
  intros d md H. unfold env_ok in EO. rewrite forallb_forall in EO. apply EO. eapply nth_error_In; eassumption.
Qed.

Lemma env_field_ok : forall d md f, nth_error E d = Some md -> In f (md_fields md) ->
  field_ok (md_n_oneofs md) f = true.
Proof.
  intros d md f Hd Hf. destruct (desc_ok_fields _ md (env_ok_desc d md Hd) f Hf) as (H & _). exact H.
Qed.

Lemma env_field_ok_nth : forall d md i f, nth_error E d = Some md -> nth_error (md_fields md) i = Some f ->
  field_ok (md_n_oneofs md) f = true.
Proof. intros d md i f Hd Hf. eapply env_field_ok; [exact Hd | eapply nth_error_In; exact Hf]. Qed.

Lemma env_field_index_unique : forall d md i j f g, nth_error E d = Some md ->
  nth_error (md_fields md) i = Some f -> nth_error (md_fields md) j = Some g -> f_id f = f_id g -> i = j.
Proof.
  intros d md i j f g Hd Hi Hj He. exact (field_index_unique (length E) md (env_ok_desc d md Hd) i j f g Hi Hj He).
Qed.

Lemma env_field_ids_NoDup : forall d md, nth_error E d = Some md -> NoDup (map f_id (md_fields md)).
Proof.
  intros d md Hd. apply NoDup_nth_error. intros i j Hi He. rewrite !nth_error_map in He.
  rewrite map_length in Hi. destruct (nth_error (md_fields md) i) as [f|] eqn:Ei.
  - destruct (nth_error (md_fields md) j) as [g|] eqn:Ej; [|discriminate He].
    cbn [option_map] in He. inversion He as [Hid]. eapply env_field_index_unique; eassumption.
  - apply nth_error_None in Ei. lia.
Qed.

Lemma env_field_id_inj : forall d md f g, nth_error E d = Some md ->
  In f (md_fields md) -> In g (md_fields md) -> f_id f = f_id g -> f = g.
Proof.
  intros d md f g Hd Hf Hg He. apply In_nth_error in Hf. apply In_nth_error in Hg.
  destruct Hf as (i & Hi). destruct Hg as (j & Hj).
  assert (i = j) by (eapply env_field_index_unique; eassumption). subst j. congruence.
Qed.

End Env.

(* what field_ok says about the member of a oneof *)
Lemma field_ok_case : forall n f g, field_ok n f = true -> f_quant f = QCase g ->
  (f_label f = LOptional \/ f_label f = LNone) /\ f_oneof f = true /\ (g < n)%nat.
Proof.
  intros n f g H Hq. unfold field_ok in H. rewrite !andb_true_iff in H. destruct H as [[[_ H] _] _].
  rewrite Hq in H. destruct (f_label f); try discriminate H;
    apply andb_true_iff in H; destruct H as [Ho Hg]; apply Nat.ltb_lt in Hg; auto.
Qed.

Lemma field_ok_repeated : forall n f, field_ok n f = true -> f_label f = LRepeated ->
  f_quant f = QCount /\ f_oneof f = false.
Proof.
  intros n f H Hl. unfold field_ok in H. rewrite !andb_true_iff in H. destruct H as [[[_ H] _] _].
  rewrite Hl in H. destruct (f_quant f); try discriminate H. split; [reflexivity|].
  destruct (f_oneof f); [discriminate H | reflexivity].
Qed.

Lemma in_group_case : forall f g, in_group f g = true <-> f_quant f = QCase g.
Proof.
  intros f g. unfold in_group. destruct (f_quant f) as [| |g'|]; try (split; intros H; discriminate H).
  split; intros H.
  - apply Nat.eqb_eq in H. subst. reflexivity.
  - inversion H. apply Nat.eqb_refl.
Qed.

(* Round trip of one field, continued: packed repeated fields, and the
   per-field package used by the message-level induction. *)
From Coq Require Import ZArith List Bool Lia ZifyBool.
From PBC Require Import Base.CInt Base.Bits Base.Bits2 Gen.LeafC Spec.Wire
     Impl.Desc Impl.Mem Impl.Enc Impl.Pack Impl.WF Impl.Unpack Impl.Canon
     Proofs.LeafEnc Proofs.EncLemmas Proofs.LeafDec Proofs.SizePack Proofs.SizePackRep Proofs.ScanRec Proofs.ScanRecs
     Proofs.CellRT Proofs.CellRT2 Proofs.PackedDec Proofs.FieldRT.
Import ListNotations.
Local Open Scope Z_scope.

Section Packed.
Variable E : env.
Variable usub : nat -> list Z -> res msg.
Variable md : mdesc.

Lemma words_of_canon : forall f l, is_scalar (f_type f) = true ->
  forallb (canon_cell (canon_msg E) f) l = true ->
  exists ws, l = map VWord ws /\ Forall (fun w => canon_word (f_type f) w = true) ws.
Proof.
  intros f l Hs. induction l as [|v l IH]; intros H; [exists []; split; [reflexivity | constructor]|].
  cbn [forallb] in H. apply andb_true_iff in H. destruct H as [Hv Hl].
  destruct (IH Hl) as (ws & -> & Hws).
  unfold canon_cell in Hv. destruct (f_type f) eqn:Et; try discriminate Hs; destruct v as [w| | |]; try discriminate Hv;
    exists (w :: ws); (split; [reflexivity | constructor; [exact Hv | exact Hws]]).
Qed.

Lemma packed_payload : forall t ws, is_scalar t = true -> Forall (fun w => canon_word t w = true) ws ->
  exists encs, Forall2 (fun w b => canon_word t w = true /\ e_scalar t w = Ok b) ws encs.
Proof.
  intros t ws Hs H. induction H as [|w ws Hw H IH]; [exists []; constructor|].
  destruct IH as (encs & IH). destruct (scalar_agree t w Hs) as (b & Hb & _).
  exists (b :: encs). constructor; auto.
Qed.

Lemma concatM_packed : forall f ws encs, is_scalar (f_type f) = true ->
  Forall2 (fun w b => canon_word (f_type f) w = true /\ e_scalar (f_type f) w = Ok b) ws encs ->
  concatM_n (pk_packed_elem f) (map VWord ws) (length ws) = Ok (concat encs).
Proof.
  intros f ws encs Hs H. induction H as [|w b ws encs [_ He] _ IH]; [reflexivity|].
  cbn [map length concatM_n]. fold (concatM_n (pk_packed_elem f)).
  assert (Ek : pk_packed_elem f (VWord w) = Ok b).
  { unfold pk_packed_elem. destruct (f_type f); try discriminate Hs; cbn [as_word bind]; rewrite He; reflexivity. }
  rewrite Ek, IH. reflexivity.
Qed.

(* P4: a packed repeated field is one length-delimited record *)
Lemma packed_field_rt : forall f i ws bytes,
  nth_error (md_fields md) i = Some f ->
  f_label f = LRepeated -> f_packed f = true -> is_scalar (f_type f) = true ->
  ws <> [] -> Forall (fun w => canon_word (f_type f) w = true) ws ->
  0 < f_id f < 536870912 ->
  pk_repeated (pack_msg E) f (zlen ws) (Some (map VWord ws)) = Ok bytes ->
  zlen bytes <= 2147483647 ->
  exists r, bytes = rec_bytes (f_id f) r /\ rec_ok r /\ rec_cnt f r (zlen ws) /\
    forall d slots unions unk cap,
      nth_error slots i = Some (SRep 0 cap (Some [])) -> zlen ws <= cap ->
      parse_member E usub md (rec_member (f_id f) (Some i) r) (Msg d slots unions unk) =
      Ok (Msg d (set_nth slots i (SRep (zlen ws) cap (Some (map VWord ws)))) unions unk).
Proof.
  intros f i ws bytes Hn El Hp Hs Hne Hws Hid Hpk Hlen.
  destruct (packed_payload (f_type f) ws Hs Hws) as (encs & Henc).
  unfold pk_repeated in Hpk. rewrite Hp in Hpk.
  assert (Hz : zlen ws <> 0) by (destruct ws; [congruence | rewrite zlen_cons; pose proof (zlen_nonneg _ ws); lia]).
  replace (zlen ws =? 0) with false in Hpk by lia.
  replace (Z.to_nat (zlen ws)) with (length ws) in Hpk by (unfold zlen; lia).
  rewrite (concatM_packed f ws encs Hs Henc) in Hpk. cbn [bind] in Hpk.
  set (payload := concat encs) in *.
  destruct ((uint32_size (u32 (get_type_min_size (type_code (f_type f)) * u32 (zlen ws))) =? uint32_size (u32 (zlen payload)))
            || (uint32_size (u32 (zlen payload)) =? uint32_size (u32 (get_type_min_size (type_code (f_type f)) * u32 (zlen ws))) + 1));
    [|discriminate Hpk].
  inversion Hpk; subst bytes; clear Hpk.
  assert (Hpl : zlen payload <= 2147483647).
  { rewrite !zlen_app in Hlen. pose proof (zlen_nonneg _ (e_tag (f_id f) WT_LEN)).
    pose proof (zlen_nonneg _ (e_uint32 (u32 (zlen payload)))). lia. }
  assert (HBp : forall x, In x payload -> 0 <= x < 256).
  { intros x Hx. subst payload. apply in_concat in Hx. destruct Hx as (b & Hb & Hxb).
    clear - Henc Hb Hxb Hs. induction Henc as [|w b0 ws encs [_ He] _ IH]; [contradiction|].
    destruct Hb as [<-|Hb]; [exact (proj1 (scalar_payload_ok _ w b0 Hs He) x Hxb) | exact (IH Hb)]. }
  set (lp := e_uint32 (u32 (zlen payload))).
  exists (WT_LEN, lp ++ payload, zlen lp).
  assert (Esk : skipn (Z.to_nat (zlen lp)) (lp ++ payload) = payload)
    by (unfold zlen; rewrite Nat2Z.id; apply skipn_app_exact).
  assert (Hpa : packed_arrival f WT_LEN = true).
  { unfold packed_arrival. change (WT_LEN =? WT_LEN) with true. rewrite Hp. reflexivity. }
  split; [reflexivity|]. split; [|split].
  - split; [vm_compute; split; congruence|]. cbn [r_wt r_payload r_pref fst snd]. apply lenrec_ok; assumption.
  - unfold rec_cnt. cbn [r_wt r_payload r_pref fst snd]. split; [apply zlen_nonneg|]. rewrite Hpa.
    rewrite Esk. rewrite zlen_app. replace (zlen lp + zlen payload - zlen lp) with (zlen payload) by lia.
    subst payload. apply count_canonical; [exact Hs | exact Henc | lia].
  - intros d slots unions unk cap Hslot Hcap.
    unfold parse_member, rec_member, new_member. cbn [sm_field sm_wt r_wt r_payload r_pref fst snd].
    rewrite Hn, Hslot, El, Hpa.
    assert (Hpp : parse_packed f {| sm_tag := f_id f; sm_wt := WT_LEN; sm_field := Some i; sm_len := zlen (lp ++ payload);
                                    sm_pref := zlen lp; sm_data := lp ++ payload |} = Ok (map VWord ws)).
    { unfold parse_packed. cbn [sm_pref sm_data sm_len]. rewrite Esk. rewrite zlen_app.
      replace (zlen lp + zlen payload - zlen lp) with (zlen payload) by lia.
      assert (Hlw : zlen ws = zlen encs) by (unfold zlen; f_equal; clear - Henc; induction Henc; cbn; lia).
      destruct (scalar_kinds _ Hs) as [H32 | [H64 | Hv]].
      - assert (Hall : Forall2 (fun w b => canon_word (f_type f) w = true /\ e_scalar (f_type f) w = Ok b /\ length b = 4%nat) ws encs).
        { clear - Henc H32. induction Henc as [|w b ws encs [Hc He] _ IH]; constructor; [|exact IH].
          pose proof (fixed_len _ w b He). split; [exact Hc | split; [exact He|]].
          destruct (f_type f); try discriminate H32; unfold zlen in *; lia. }
        assert (Hpl4 : zlen payload = 4 * zlen encs).
        { subst payload. rewrite (concat_fixed_len encs 4); [reflexivity|]. clear - Hall. induction Hall as [|? ? ? ? (_ & _ & Hl)]; constructor; auto. }
        replace (Z.to_nat (zlen payload / 4)) with (length ws) by (unfold zlen in *; lia).
        destruct (f_type f) eqn:Et; try discriminate H32;
          (eapply parse_packed_fixed_spec; [reflexivity | reflexivity | exact Hall]).
      - assert (Hall : Forall2 (fun w b => canon_word (f_type f) w = true /\ e_scalar (f_type f) w = Ok b /\ length b = 8%nat) ws encs).
        { clear - Henc H64. induction Henc as [|w b ws encs [Hc He] _ IH]; constructor; [|exact IH].
          pose proof (fixed_len _ w b He). split; [exact Hc | split; [exact He|]].
          destruct (f_type f); try discriminate H64; unfold zlen in *; lia. }
        assert (Hpl8 : zlen payload = 8 * zlen encs).
        { subst payload. rewrite (concat_fixed_len encs 8); [reflexivity|]. clear - Hall. induction Hall as [|? ? ? ? (_ & _ & Hl)]; constructor; auto. }
        replace (Z.to_nat (zlen payload / 8)) with (length ws) by (unfold zlen in *; lia).
        destruct (f_type f) eqn:Et; try discriminate H64;
          (eapply parse_packed_fixed_spec; [reflexivity | reflexivity | exact Hall]).
      - assert (Hpv : parse_packed_varints (S (length payload)) (f_type f) payload = Ok (map VWord ws)).
        { subst payload. apply parse_packed_varints_spec; [exact Hv | exact Henc | lia | lia]. }
        destruct (f_type f) eqn:Et; try discriminate Hv; exact Hpv. }
    rewrite Hpp. cbn [bind append_elems]. rewrite Z.add_0_l.
    replace (zlen (map VWord ws)) with (zlen ws) by (unfold zlen; rewrite map_length; reflexivity).
    replace (zlen ws <=? cap) with true by lia. reflexivity.
Qed.

End Packed.

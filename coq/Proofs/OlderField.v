(* C09, the field level.  The per-field packages of FieldPkg.v are rebuilt from an ENCODING of each present
   cell ([cell_enc]: a key, a well-formed payload, and the fact that parse_required_member gives the cell back)
   instead of from what required_field_pack writes, so that the payload of a sub-message may be any bytes that
   unpack to it.  [field_transfer] then handles one field that both schema versions have: the older program
   reads the newer bytes as the projected slot, writes bytes of the same length for it, and the newer program
   reads those as the original slot.  The sub-messages are dealt with by the hypothesis [sub_tr] (the induction
   hypothesis of Forward.v). *)
From Coq Require Import ZArith List Bool Lia ZifyBool.
From PBC Require Import Base.CInt Base.Bits Base.Bits2 Gen.LeafC Spec.Wire
     Impl.Desc Impl.Mem Impl.Enc Impl.Pack Impl.WF Impl.Unpack Impl.Canon
     Proofs.LeafEnc Proofs.EncLemmas Proofs.LeafDec Proofs.SizePack Proofs.SizePackRep
     Proofs.ScanRec Proofs.ScanRecs Proofs.CellRT Proofs.CellRT2 Proofs.PackedDec Proofs.FieldRT Proofs.FieldRT2
     Proofs.MsgInd Proofs.FieldPkg Proofs.FieldPkg2.
Import ListNotations.
Local Open Scope Z_scope.

Ltac Zify.zify_post_hook ::= Z.div_mod_to_equations.

(* ---------- the projection on cells, slots and unions (the message-level projection is in OlderProj.v) *)
Definition map_slot (g : sval -> sval) (s : slot) : slot :=
  match s with
  | SOne h v => SOne h (g v)
  | SRep n c (Some l) => SRep n c (Some (map g l))
  | SRep n c None => SRep n c None
  | SUnion u => SUnion u
  end.

Definition pcell (rec : msg -> msg) (v : sval) : sval :=
  match v with VMsg (Some m) => VMsg (Some (rec m)) | _ => v end.

(* a union whose selected member the older schema does not have is back in its initial state *)
Definition punion (rec : msg -> msg) (kept : list field) (cv : Z * sval) : Z * sval :=
  if existsb (fun f => f_id f =? fst cv) kept then (fst cv, pcell rec (snd cv)) else (0, VWord 0).

Lemma ptr_absent_pcell : forall pm f v, ptr_absent f (pcell pm v) = ptr_absent f v.
Proof. intros pm f v. unfold ptr_absent. destruct (f_type f); try reflexivity; destruct v as [| | |[|]]; reflexivity. Qed.

Lemma zeroish_pcell : forall pm f v, zeroish f (pcell pm v) = zeroish f v.
Proof. intros pm f v. unfold zeroish. destruct (f_type f); destruct v as [| | |[|]]; reflexivity. Qed.

Lemma pcell_init : forall pm f, pcell pm (init_cell f) = init_cell f.
Proof.
  intros pm f. unfold init_cell. destruct (f_type f); try reflexivity; destruct (f_default f) as [[| |]|]; reflexivity.
Qed.

Lemma canon_nonmsg_pcell : forall pm rec f v, f_type f <> TMessage -> canon_cell rec f v = true -> pcell pm v = v.
Proof.
  intros pm rec f v Ht C. unfold canon_cell in C.
  destruct (f_type f); try congruence; destruct v as [| | |[|]]; try discriminate C; reflexivity.
Qed.

Lemma canon_nonmsg_rec : forall r1 r2 f v, f_type f <> TMessage -> canon_cell r1 f v = canon_cell r2 f v.
Proof. intros r1 r2 f v Ht. unfold canon_cell. destruct (f_type f); try reflexivity; congruence. Qed.

Lemma pk_required_nonmsg : forall r1 r2 f v, f_type f <> TMessage -> pk_required r1 f v = pk_required r2 f v.
Proof. intros r1 r2 f v Ht. unfold pk_required. destruct (f_type f); try reflexivity; congruence. Qed.

Lemma parse_required_nonmsg : forall E1 u1 E2 u2 f sm old mc, f_type f <> TMessage ->
  parse_required E1 u1 f sm old mc = parse_required E2 u2 f sm old mc.
Proof. intros E1 u1 E2 u2 f sm old mc Ht. unfold parse_required. destruct (f_type f); try reflexivity; congruence. Qed.

Lemma with_nth_some : forall A B (k : A -> B) d l g x, nth_error l g = Some x -> with_nth k d l g = k x.
Proof.
  intros A B k d l. induction l as [|y l IH]; intros g x H; destruct g; try discriminate H.
  - inversion H. reflexivity.
  - cbn [with_nth nth_error] in *. apply IH. exact H.
Qed.

(* ---------- encodings of one cell *)
Definition cell_enc (E : env) (usub : nat -> list Z -> res msg) (f : field) (v : sval) (bytes : list Z) : Prop :=
  exists payload pref,
    bytes = e_tag (f_id f) (wire_type_of (f_type f)) ++ payload /\
    payload_ok (wire_type_of (f_type f)) payload pref /\
    forall i old mc, (mc = true -> f_type f = TMessage -> as_msg old = Ok None) ->
      parse_required E usub f (new_member (f_id f) (wire_type_of (f_type f)) (Some i) payload pref) old mc = Ok v.

Lemma cell_enc_nonmsg : forall E1 u1 E2 u2 f v F, f_type f <> TMessage ->
  cell_enc E1 u1 f v F -> cell_enc E2 u2 f v F.
Proof.
  intros E1 u1 E2 u2 f v F Ht (payload & pref & HF & Hpo & Hparse).
  exists payload, pref. split; [exact HF|]. split; [exact Hpo|].
  intros i old mc Hold. rewrite <- (parse_required_nonmsg E1 u1 E2 u2) by exact Ht. apply Hparse. exact Hold.
Qed.

Section Enc.
Variable E : env.
Variable usub : nat -> list Z -> res msg.
Variable md : mdesc.

Lemma fpkg_single_enc : forall i f h v um F,
  nth_error (md_fields md) i = Some f ->
  f_oneof f = false -> label_eqb (f_label f) LRepeated = false ->
  cell_enc E usub f v F ->
  h = match f_label f with LRequired => 0 | _ => match f_quant f with QNone => 0 | _ => 1 end end ->
  fpkg E usub md i f (SOne h v) um F.
Proof.
  intros i f h v um F Hn Ho Hrep (payload & pref & HF & Hpo & Hparse) Hh.
  exists [(wire_type_of (f_type f), payload, pref)].
  split; [cbn [map concat]; unfold rec_bytes; cbn [r_wt r_payload fst snd]; rewrite app_nil_r; exact HF|].
  split; [constructor; [|constructor]; split; [apply wt_range | exact Hpo]|].
  split; [|split; [|split]].
  - intros El. rewrite El in Hrep. discriminate Hrep.
  - intros _. discriminate.
  - intros g Hg. discriminate Hg.
  - intros d slots unions unk Hslot _. cbn [members_of map parse_members alloc_init] in *.
    rewrite (parse_single E usub md f i v (wire_type_of (f_type f), payload, pref) d slots unions unk 0 Hn Ho Hrep Hslot eq_refl).
    + cbn [bind]. rewrite Hh. destruct (f_label f); reflexivity.
    + exact Hparse.
Qed.

Lemma fpkg_oneof_enc : forall i f g v um F,
  nth_error (md_fields md) i = Some f ->
  f_oneof f = true -> (f_label f = LOptional \/ f_label f = LNone) ->
  cell_enc E usub f v F -> nth_error um g = Some (f_id f, v) ->
  fpkg E usub md i f (SUnion g) um F.
Proof.
  intros i f g v um F Hn Ho Hl (payload & pref & HF & Hpo & Hparse) Hum.
  exists [(wire_type_of (f_type f), payload, pref)].
  split; [cbn [map concat]; unfold rec_bytes; cbn [r_wt r_payload fst snd]; rewrite app_nil_r; exact HF|].
  split; [constructor; [|constructor]; split; [apply wt_range | exact Hpo]|].
  split; [|split; [|split]].
  - intros El. destruct Hl as [Hl|Hl]; rewrite Hl in El; discriminate El.
  - intros El. destruct Hl as [Hl|Hl]; rewrite Hl in El; discriminate El.
  - intros g0 Hg. inversion Hg; subst g0. rewrite (nth_error_nth um g (0, VWord 0) Hum). cbn [fst].
    split; [reflexivity | discriminate].
  - intros d slots unions unk Hslot Hu. cbn [members_of map parse_members alloc_init] in *.
    rewrite (parse_oneof E usub md f i g v (wire_type_of (f_type f), payload, pref) d slots unions unk Hn Ho Hl Hslot
               (Hu g eq_refl ltac:(discriminate)) eq_refl Hparse).
    cbn [bind]. rewrite (set_nth_same _ slots i (SUnion g) Hslot).
    rewrite (nth_error_nth um g (0, VWord 0) Hum). reflexivity.
Qed.

Lemma fpkg_unpacked_enc : forall i f l um Fs,
  nth_error (md_fields md) i = Some f ->
  f_label f = LRepeated -> f_packed f = false -> l <> [] -> zlen l < 268435456 ->
  Forall2 (cell_enc E usub f) l Fs ->
  fpkg E usub md i f (SRep (zlen l) (zlen l) (Some l)) um (concat Fs).
Proof.
  intros i f l um Fs Hn El Hp Hne Hln Hcells.
  assert (Hz : zlen l <> 0) by (destruct l; [congruence | rewrite zlen_cons; pose proof (zlen_nonneg _ l); lia]).
  assert (Hrecs : exists recs, Forall2 (fun b r => b = rec_bytes (f_id f) r) Fs recs /\
            Forall rec_ok recs /\
            Forall (fun r => r_wt r = wire_type_of (f_type f) /\ packed_arrival f (r_wt r) = false) recs /\
            Forall2 (fun r v => forall i0 old mc, (mc = true -> f_type f = TMessage -> as_msg old = Ok None) ->
                       parse_required E usub f (new_member (f_id f) (wire_type_of (f_type f)) (Some i0) (r_payload r) (r_pref r)) old mc = Ok v)
                    recs l).
  { clear Hne Hln Hz. induction Hcells as [|v b l' bs' Hvb Hbs IH].
    - exists []. repeat split; constructor.
    - destruct IH as (recs & R1 & R2 & R3 & R4).
      destruct Hvb as (payload & pref & Hb & Hpo & Hparse).
      exists ((wire_type_of (f_type f), payload, pref) :: recs).
      split; [constructor; [exact Hb | exact R1]|].
      split; [constructor; [split; [apply wt_range | exact Hpo] | exact R2]|].
      split; [constructor; [split; [reflexivity | apply unpacked_arrival; exact Hp] | exact R3]|].
      constructor; [exact Hparse | exact R4]. }
  destruct Hrecs as (recs & R1 & R2 & R3 & R4).
  exists recs. split.
  { f_equal. clear - R1. induction R1 as [|b r bs recs Hb _ IH]; [reflexivity|]. cbn [map]. rewrite Hb, IH. reflexivity. }
  split; [exact R2|]. split; [|split; [|split]].
  - intros _. exists (map (fun _ => 1) recs). split.
    + clear - R3. induction R3 as [|r recs [_ Hpa] _ IH]; [constructor|]. cbn [map]. constructor; [|exact IH].
      unfold rec_cnt. rewrite Hpa. split; [lia | reflexivity].
    + cbn [slot_n]. assert (Hl : length recs = length l) by (clear - R4; induction R4; cbn; lia).
      unfold zlen. rewrite <- Hl. clear. induction recs as [|r recs IH]; [reflexivity|]. cbn [map fold_right length]. lia.
  - intros Er. rewrite El in Er. discriminate Er.
  - intros g Hg. discriminate Hg.
  - intros d slots unions unk Hslot _. cbn [alloc_init] in Hslot.
    replace (zlen l =? 0) with false in Hslot by lia. pose proof (zlen_nonneg _ l). rewrite (u32_small (zlen l)) in Hslot by lia.
    rewrite (parse_unpacked E usub md f i recs l d slots unions unk 0 (zlen l) [] Hn El R3 R4 Hslot ltac:(lia)).
    rewrite Z.add_0_l. cbn [app]. reflexivity.
Qed.

End Enc.

Lemma concatM_n_build : forall (g : sval -> res (list Z)) l bs,
  Forall2 (fun v b => g v = Ok b) l bs -> concatM_n g l (length l) = Ok (concat bs).
Proof.
  intros g l bs H. induction H as [|v b l bs Hv _ IH]; [reflexivity|].
  cbn [length concatM_n]. fold (concatM_n g). rewrite Hv, IH. reflexivity.
Qed.

Ltac absent_tac El :=
  try reflexivity; try (cbn [map_slot]; rewrite pcell_init; reflexivity); try (rewrite El; discriminate);
  try (let E0 := fresh "E0" in intros E0; rewrite El in E0; discriminate E0);
  try (let g0 := fresh "g0" in let Hg0 := fresh "Hg0" in intros g0 Hg0; discriminate Hg0).

(* ---------- one field present in both schema versions *)
Section Transfer.
Variables E E' : env.
Variables usub usub' : nat -> list Z -> res msg.
Variable pm : msg -> msg.
Variable lim : Z.
Hypothesis Hlim : lim <= 2147483647.

(* what is known about the sub-messages *)
Definition sub_tr (m : msg) : Prop :=
  canon_msg E m = true ->
  forall b, pack_msg E m = Ok b -> zlen b < lim ->
  exists b', pack_msg E' (pm m) = Ok b' /\ length b' = length b /\
    usub' (m_desc m) b = Ok (pm m) /\ usub (m_desc m) b' = Ok m /\
    (forall x, In x b -> 0 <= x < 256) /\ (forall x, In x b' -> 0 <= x < 256) /\
    canon_msg E' (pm m) = true /\ m_desc (pm m) = m_desc m.

Notation SubT v := (forall m, v = VMsg (Some m) -> sub_tr m).

Lemma cell_transfer : forall f v F,
  canon_cell (canon_msg E) f v = true -> SubT v ->
  pk_required (pack_msg E) f v = Ok F -> zlen F <= lim ->
  exists F', pk_required (pack_msg E') f (pcell pm v) = Ok F' /\ length F' = length F /\
    cell_enc E' usub' f (pcell pm v) F /\ cell_enc E usub f v F' /\
    canon_cell (canon_msg E') f (pcell pm v) = true.
Proof.
  intros f v F C IH Hp Hlen.
  destruct (ftype_eqb (f_type f) TMessage) eqn:Etm.
  - (* message *)
    assert (Et : f_type f = TMessage) by (destruct (f_type f); try discriminate Etm; reflexivity).
    unfold canon_cell in C. rewrite Et in C.
    destruct v as [| | | [m|]]; try discriminate C.
    apply andb_true_iff in C. destruct C as [Cm Cd]. apply Nat.eqb_eq in Cd.
    unfold pk_required in Hp. rewrite Et in Hp.
    destruct (pack_msg E m) as [b|e] eqn:Eb; cbn [bind] in Hp; [|discriminate Hp]. inversion Hp; subst F.
    assert (Hs : zlen b <= 2147483647 /\ zlen b < lim).
    { rewrite !zlen_app in Hlen. pose proof (zlen_nonneg _ (e_tag (f_id f) WT_LEN)).
      assert (1 <= zlen (e_uint32 (u32 (zlen b)))).
      { rewrite e_uint32_spec by apply u32_range. pose proof (varint_len_bounds (u32 (zlen b))). lia. }
      lia. }
    destruct Hs as [Hs Hs2].
    destruct (IH m eq_refl Cm b Eb Hs2) as (b' & Hb' & Hl' & HuA & HuC & HB & HB' & Cm' & Hd').
    assert (Hz : zlen b' = zlen b) by (unfold zlen; rewrite Hl'; reflexivity).
    exists (e_tag (f_id f) WT_LEN ++ e_uint32 (u32 (zlen b')) ++ b').
    cbn [pcell]. split; [|split; [|split; [|split]]].
    5:{ unfold canon_cell. rewrite Et, Cm', Hd', Cd, Nat.eqb_refl. reflexivity. }
    + unfold pk_required. rewrite Et, Hb'. reflexivity.
    + rewrite Hz. rewrite !app_length. lia.
    + exists (e_uint32 (u32 (zlen b)) ++ b), (zlen (e_uint32 (u32 (zlen b)))).
      rewrite Et. cbn [wire_type_of].
      split; [reflexivity|]. split; [apply lenrec_ok; assumption|].
      intros i old mc Hold. unfold parse_required, new_member. rewrite Et. cbn [sm_wt sm_len sm_data sm_pref].
      change (WT_LEN =? WT_LEN) with true. cbn [negb].
      assert (Esk : skipn (Z.to_nat (zlen (e_uint32 (u32 (zlen b))))) (e_uint32 (u32 (zlen b)) ++ b) = b)
        by (unfold zlen; rewrite Nat2Z.id; apply skipn_app_exact).
      rewrite Esk. rewrite <- Cd, HuA. cbn [bind].
      destruct mc; [rewrite (Hold eq_refl eq_refl); reflexivity | reflexivity].
    + exists (e_uint32 (u32 (zlen b')) ++ b'), (zlen (e_uint32 (u32 (zlen b')))).
      rewrite Et. cbn [wire_type_of].
      split; [reflexivity|]. split; [apply lenrec_ok; [lia | exact HB']|].
      intros i old mc Hold. unfold parse_required, new_member. rewrite Et. cbn [sm_wt sm_len sm_data sm_pref].
      change (WT_LEN =? WT_LEN) with true. cbn [negb].
      assert (Esk : skipn (Z.to_nat (zlen (e_uint32 (u32 (zlen b'))))) (e_uint32 (u32 (zlen b')) ++ b') = b')
        by (unfold zlen; rewrite Nat2Z.id; apply skipn_app_exact).
      rewrite Esk. rewrite <- Cd, HuC. cbn [bind].
      destruct mc; [rewrite (Hold eq_refl eq_refl); reflexivity | reflexivity].
  - (* anything else: the same bytes, the same cell *)
    assert (Et : f_type f <> TMessage) by (intros Et; rewrite Et in Etm; discriminate Etm).
    rewrite (canon_nonmsg_pcell pm _ f v Et C).
    exists F. split; [rewrite (pk_required_nonmsg _ (pack_msg E) f v Et); exact Hp|]. split; [reflexivity|].
    assert (Hc : cell_enc E usub f v F).
    { apply (cell_rt_holds E usub lim Hlim f v C); [|exact Hp | exact Hlen].
      intros m Hv. subst v. exfalso. unfold canon_cell in C. destruct (f_type f); try discriminate C. congruence. }
    split; [exact (cell_enc_nonmsg E usub E' usub' f v F Et Hc)|]. split; [exact Hc|].
    rewrite (canon_nonmsg_rec _ (canon_msg E) f v Et). exact C.
Qed.

(* the union of the field's group in the two messages *)
Definition um_rel (f : field) (um um' : list (Z * sval)) : Prop :=
  forall g c v, nth_error um g = Some (c, v) ->
    if c =? f_id f then nth_error um' g = Some (c, pcell pm v)
    else exists c' v', nth_error um' g = Some (c', v') /\ c' <> f_id f.

Section Field.
Variables md md' : mdesc.

Definition ftr_goal (i i' : nat) (f : field) (s : slot) (um um' : list (Z * sval)) (F : list Z) (r : res (list Z)) : Prop :=
  match r with
  | Ok F' => length F' = length F /\
             fpkg E' usub' md' i' f (map_slot (pcell pm) s) um' F /\
             fpkg E usub md i f s um F' /\
             canon_slot (canon_msg E') um' f (map_slot (pcell pm) s) = true
  | Err _ => False
  end.

Lemma ftr_absent : forall i i' f s um um',
  s = alloc_init f s -> map_slot (pcell pm) s = s -> f_label f <> LRequired ->
  (f_label f = LRepeated -> slot_n s = 0) ->
  (forall g, s = SUnion g -> fst (nth g um (0, VWord 0)) <> f_id f /\ fst (nth g um' (0, VWord 0)) <> f_id f) ->
  canon_slot (canon_msg E') um' f s = true ->
  ftr_goal i i' f s um um' [] (Ok []).
Proof.
  intros i i' f s um um' Hs Hm Hr Hn Hu Hc. cbn [ftr_goal]. rewrite Hm.
  split; [reflexivity|]. split; [|split; [|exact Hc]]; apply fpkg_absent; try assumption; intros g Hg; apply (Hu g Hg).
Qed.

Lemma ftr_single : forall i i' f h v um um' F,
  nth_error (md_fields md) i = Some f -> nth_error (md_fields md') i' = Some f ->
  f_oneof f = false -> label_eqb (f_label f) LRepeated = false ->
  canon_cell (canon_msg E) f v = true -> SubT v ->
  pk_required (pack_msg E) f v = Ok F -> zlen F <= lim ->
  h = match f_label f with LRequired => 0 | _ => match f_quant f with QNone => 0 | _ => 1 end end ->
  (canon_cell (canon_msg E') f (pcell pm v) = true -> canon_slot (canon_msg E') um' f (SOne h (pcell pm v)) = true) ->
  ftr_goal i i' f (SOne h v) um um' F (pk_required (pack_msg E') f (pcell pm v)).
Proof.
  intros i i' f h v um um' F Hn Hn' Ho Hrep C IH Hpk Hlen Hh Hcan.
  destruct (cell_transfer f v F C IH Hpk Hlen) as (F' & HF' & Hl & HA & HC & Cc).
  rewrite HF'. cbn [ftr_goal map_slot]. split; [exact Hl|].
  split; [apply (fpkg_single_enc E' usub' md' i' f h _ um' F Hn' Ho Hrep HA Hh)|].
  split; [apply (fpkg_single_enc E usub md i f h v um F' Hn Ho Hrep HC Hh) | exact (Hcan Cc)].
Qed.

Lemma ftr_oneof : forall i i' f g v um um' F,
  nth_error (md_fields md) i = Some f -> nth_error (md_fields md') i' = Some f ->
  f_oneof f = true -> (f_label f = LOptional \/ f_label f = LNone) ->
  canon_cell (canon_msg E) f v = true -> SubT v ->
  nth_error um g = Some (f_id f, v) -> nth_error um' g = Some (f_id f, pcell pm v) ->
  pk_required (pack_msg E) f v = Ok F -> zlen F <= lim ->
  (canon_cell (canon_msg E') f (pcell pm v) = true -> canon_slot (canon_msg E') um' f (SUnion g) = true) ->
  ftr_goal i i' f (SUnion g) um um' F (pk_required (pack_msg E') f (pcell pm v)).
Proof.
  intros i i' f g v um um' F Hn Hn' Ho Hl C IH Hum Hum' Hpk Hlen Hcan.
  destruct (cell_transfer f v F C IH Hpk Hlen) as (F' & HF' & Hl' & HA & HC & Cc).
  rewrite HF'. cbn [ftr_goal map_slot]. split; [exact Hl'|].
  split; [apply (fpkg_oneof_enc E' usub' md' i' f g _ um' F Hn' Ho Hl HA Hum')|].
  split; [apply (fpkg_oneof_enc E usub md i f g v um F' Hn Ho Hl HC Hum) | exact (Hcan Cc)].
Qed.

Lemma ftr_unpacked : forall i i' f l um um' F,
  nth_error (md_fields md) i = Some f -> nth_error (md_fields md') i' = Some f ->
  f_label f = LRepeated -> f_packed f = false -> l <> [] -> zlen l < 268435456 ->
  Forall (fun v => canon_cell (canon_msg E) f v = true) l -> Forall (fun v => SubT v) l ->
  pk_repeated (pack_msg E) f (zlen l) (Some l) = Ok F -> zlen F <= lim ->
  (forallb (canon_cell (canon_msg E') f) (map (pcell pm) l) = true ->
   canon_slot (canon_msg E') um' f (SRep (zlen l) (zlen l) (Some (map (pcell pm) l))) = true) ->
  ftr_goal i i' f (SRep (zlen l) (zlen l) (Some l)) um um' F
           (pk_repeated (pack_msg E') f (zlen l) (Some (map (pcell pm) l))).
Proof.
  intros i i' f l um um' F Hn Hn' El Hp Hne Hln Hcan Hsub Hpk Hlen Hcs.
  assert (Hz : zlen l <> 0) by (destruct l; [congruence | rewrite zlen_cons; pose proof (zlen_nonneg _ l); lia]).
  unfold pk_repeated in Hpk |- *. rewrite Hp in Hpk |- *. replace (zlen l =? 0) with false in Hpk |- * by lia.
  replace (Z.to_nat (zlen l)) with (length l) in Hpk |- * by (unfold zlen; lia).
  destruct (concatM_n_split usub _ l (length l) F Hpk ltac:(lia)) as (bs & Hbs & HF).
  rewrite firstn_all in Hbs.
  assert (Hsubl : forall b, In b bs -> zlen b <= lim).
  { intros b Hb. subst F. clear - Hb Hlen. induction bs as [|x bs IH]; [contradiction|].
    cbn [concat] in Hlen. rewrite zlen_app in Hlen. pose proof (zlen_nonneg _ x). pose proof (zlen_nonneg _ (concat bs)).
    destruct Hb as [<-|Hb]; [lia | apply IH; [lia | exact Hb]]. }
  assert (Hall : exists bs',
            Forall2 (fun v b' => pk_required (pack_msg E') f v = Ok b') (map (pcell pm) l) bs' /\
            length (concat bs') = length (concat bs) /\
            Forall2 (cell_enc E' usub' f) (map (pcell pm) l) bs /\
            Forall2 (cell_enc E usub f) l bs' /\
            forallb (canon_cell (canon_msg E') f) (map (pcell pm) l) = true).
  { clear Hpk HF Hlen Hne Hln Hz Hcs. induction Hbs as [|v b l' bs0 Hvb Hbs IH].
    - exists []. repeat split; constructor.
    - inversion Hcan as [|? ? Cv Hcan']; subst. inversion Hsub as [|? ? Sv Hsub']; subst.
      destruct (IH Hcan' Hsub') as (bs' & A1 & A2 & A3 & A4 & A5); [intros x Hx; apply Hsubl; right; exact Hx|].
      destruct (cell_transfer f v b Cv Sv Hvb (Hsubl b (or_introl eq_refl))) as (b' & Hb' & Hl' & HA & HC & Cc).
      exists (b' :: bs'). cbn [map concat forallb]. rewrite !app_length.
      split; [constructor; assumption|]. split; [lia|]. split; [constructor; assumption|].
      split; [constructor; assumption|]. rewrite Cc, A5. reflexivity. }
  destruct Hall as (bs' & A1 & A2 & A3 & A4 & A5).
  rewrite <- (map_length (pcell pm) l) at 1.
  rewrite (concatM_n_build _ _ _ A1). cbn [ftr_goal map_slot]. subst F.
  split; [exact A2|].
  assert (Hzm : zlen (map (pcell pm) l) = zlen l) by (unfold zlen; rewrite map_length; reflexivity).
  split.
  - rewrite <- Hzm. apply (fpkg_unpacked_enc E' usub' md' i' f _ um' bs Hn' El Hp); [|lia | exact A3].
    intros E0. apply Hne. destruct l; [reflexivity | discriminate E0].
  - split; [apply (fpkg_unpacked_enc E usub md i f l um bs' Hn El Hp Hne Hln A4) | exact (Hcs A5)].
Qed.

Lemma ftr_packed : forall i i' f ws um um' F,
  nth_error (md_fields md) i = Some f -> nth_error (md_fields md') i' = Some f ->
  f_label f = LRepeated -> f_packed f = true -> is_scalar (f_type f) = true ->
  ws <> [] -> zlen ws < 268435456 -> Forall (fun w => canon_word (f_type f) w = true) ws ->
  0 < f_id f < 536870912 ->
  pk_repeated (pack_msg E) f (zlen ws) (Some (map VWord ws)) = Ok F -> zlen F <= lim ->
  canon_slot (canon_msg E') um' f (SRep (zlen ws) (zlen ws) (Some (map VWord ws))) = true ->
  ftr_goal i i' f (SRep (zlen ws) (zlen ws) (Some (map VWord ws))) um um' F
           (pk_repeated (pack_msg E') f (zlen ws) (Some (map (pcell pm) (map VWord ws)))).
Proof.
  intros i i' f ws um um' F Hn Hn' El Hp Hs Hne Hln Hws Hid Hpk Hlen Hcs.
  assert (Hmm : map (pcell pm) (map VWord ws) = map VWord ws).
  { rewrite map_map. apply map_ext. intros w. reflexivity. }
  assert (Hpk' : pk_repeated (pack_msg E') f (zlen ws) (Some (map VWord ws)) = Ok F).
  { unfold pk_repeated in Hpk |- *. rewrite Hp in Hpk |- *. exact Hpk. }
  rewrite Hmm, Hpk'. cbn [ftr_goal map_slot]. rewrite Hmm.
  split; [reflexivity|]. split.
  - apply (fpkg_packed E' usub' md' lim Hlim i' f ws um' F Hn' El Hp Hs Hne Hln Hws Hid Hpk' Hlen).
  - split; [apply (fpkg_packed E usub md lim Hlim i f ws um F Hn El Hp Hs Hne Hln Hws Hid Hpk Hlen) | exact Hcs].
Qed.

Lemma canon_cell_sub : forall f v, canon_cell (canon_msg E) f v = true -> ptr_absent f (pcell pm v) = Ok false.
Proof. intros f v C. rewrite ptr_absent_pcell. exact (canon_not_absent E f v C). Qed.

Theorem field_transfer : forall nu i i' f s um um' F,
  nth_error (md_fields md) i = Some f -> nth_error (md_fields md') i' = Some f ->
  field_ok nu f = true -> 0 < f_id f < 536870912 ->
  (f_label f = LNone -> zeroish f (init_cell f) = Ok true) ->
  canon_slot (canon_msg E) um f s = true ->
  slot_all (fun v => SubT v) s ->
  Forall (fun cv : Z * sval => SubT (snd cv)) um ->
  um_rel f um um' ->
  pk_field (pack_msg E) um f s = Ok F -> zlen F <= lim ->
  ftr_goal i i' f s um um' F (pk_field (pack_msg E') um' f (map_slot (pcell pm) s)).
Proof.
  intros nu i i' f s um um' F Hn Hn' Hfo Hid Hz C HS HU HR Hpk Hlen.
  unfold field_ok in Hfo. rewrite !andb_true_iff in Hfo. destruct Hfo as [[[_ Hlq] Hpacked] _].
  unfold canon_slot in C. unfold pk_field in Hpk |- *.
  destruct (f_label f) eqn:El.
  - (* required *)
    destruct s as [h v| |]; try discriminate C. cbn [map_slot].
    apply andb_true_iff in C. destruct C as [Hh Cv]. apply Z.eqb_eq in Hh. subst h.
    destruct (f_quant f); try discriminate Hlq. apply negb_true_iff in Hlq.
    apply (ftr_single i i' f 0 v um um' F Hn Hn' Hlq); [rewrite El; reflexivity | exact Cv | exact HS | exact Hpk | exact Hlen | rewrite El; reflexivity |].
    intros Cc. unfold canon_slot. rewrite El, Cc. reflexivity.
  - (* optional *)
    destruct s as [h v| |g]; try discriminate C; cbn [map_slot].
    + destruct (f_quant f) eqn:Eq; try discriminate Hlq.
      * (* no quantifier: string / message *)
        apply andb_true_iff in Hlq. destruct Hlq as [Ho Hty]. apply negb_true_iff in Ho. rewrite Ho in Hpk |- *.
        apply andb_true_iff in C. destruct C as [Hh C]. apply Z.eqb_eq in Hh. subst h.
        assert (Hsm : f_type f = TString \/ f_type f = TMessage).
        { apply orb_true_iff in Hty. destruct Hty as [H|H]; [left | right]; destruct (f_type f); try discriminate H; reflexivity. }
        unfold pk_optional in Hpk |- *.
        apply orb_true_iff in C. destruct C as [Ci | Cv].
        -- pose proof Ci as Ci0. apply shallow_eq in Ci. subst v. rewrite pcell_init.
           assert (Hab := init_absent f Hsm).
           assert (Hgoal : ftr_goal i i' f (SOne 0 (init_cell f)) um um' F (Ok [])).
           { assert (HF : F = []) by (destruct Hsm as [Ht|Ht]; rewrite Ht in Hpk; rewrite Hab in Hpk; cbn [bind] in Hpk; inversion Hpk; reflexivity).
             subst F. apply ftr_absent; absent_tac El.
             unfold canon_slot. rewrite El, Eq, Ci0. reflexivity. }
           destruct Hsm as [Ht|Ht]; rewrite Ht; rewrite Hab; cbn [bind]; exact Hgoal.
        -- assert (Hna := canon_not_absent E f v Cv). assert (Hna' := canon_cell_sub f v Cv).
           assert (Hpk' : pk_required (pack_msg E) f v = Ok F).
           { destruct Hsm as [Ht|Ht]; rewrite Ht in Hpk; rewrite Hna in Hpk; exact Hpk. }
           assert (Hgoal : ftr_goal i i' f (SOne 0 v) um um' F (pk_required (pack_msg E') f (pcell pm v))).
           { apply (ftr_single i i' f 0 v um um' F Hn Hn' Ho); [rewrite El; reflexivity | exact Cv | exact HS | exact Hpk' | exact Hlen | rewrite El, Eq; reflexivity |].
             intros Cc. unfold canon_slot. rewrite El, Eq, Cc. rewrite orb_true_r. reflexivity. }
           destruct Hsm as [Ht|Ht]; rewrite Ht; rewrite Hna'; cbn [bind]; exact Hgoal.
      * (* has flag *)
        rewrite !andb_true_iff in Hlq. destruct Hlq as [[Ho Hns] Hnm]. apply negb_true_iff in Ho. rewrite Ho in Hpk |- *.
        unfold pk_optional in Hpk |- *.
        assert (Hpk2 : (if h =? 0 then Ok [] else pk_required (pack_msg E) f v) = Ok F).
        { destruct (f_type f); try discriminate Hns; try discriminate Hnm; exact Hpk. }
        assert (Hgoal2 : ftr_goal i i' f (SOne h v) um um' F (if h =? 0 then Ok [] else pk_required (pack_msg E') f (pcell pm v))).
        { destruct (Z.eqb_spec h 0) as [-> | Hh].
          - pose proof C as C0. apply shallow_eq in C. subst v. inversion Hpk2.
            apply ftr_absent; absent_tac El.
            unfold canon_slot. rewrite El, Eq. exact C0.
          - apply andb_true_iff in C. destruct C as [Hh1 Cv]. apply Z.eqb_eq in Hh1. subst h.
            apply (ftr_single i i' f 1 v um um' F Hn Hn' Ho); [rewrite El; reflexivity | exact Cv | exact HS | exact Hpk2 | exact Hlen | rewrite El, Eq; reflexivity |].
            intros Cc. unfold canon_slot. rewrite El, Eq, Cc. reflexivity. }
        destruct (f_type f); try discriminate Hns; try discriminate Hnm; exact Hgoal2.
      * apply andb_true_iff in Hlq. destruct Hlq as [Ho _]. rewrite Ho in Hpk. discriminate Hpk.
    + (* oneof member *)
      destruct (f_quant f) eqn:Eq; try discriminate Hlq;
        try (rewrite !andb_true_iff in Hlq; destruct Hlq as [[Ho _] _]; apply negb_true_iff in Ho; rewrite Ho in Hpk; discriminate Hpk);
        try (rewrite !andb_true_iff in Hlq; destruct Hlq as [Ho _]; apply negb_true_iff in Ho; rewrite Ho in Hpk; discriminate Hpk).
      apply andb_true_iff in Hlq. destruct Hlq as [Ho _]. rewrite Ho in Hpk |- *.
      apply andb_true_iff in C. destruct C as [Cg C].
      destruct (with_nth_cases _ _ (fun cv : Z * sval => if fst cv =? f_id f then canon_cell (canon_msg E) f (snd cv) else true) false um g)
        as [(x & Hx & Hw) | (Hx & Hw)]; rewrite Hw in C; [|discriminate C].
      rewrite (with_nth_some _ _ (fun cv : Z * sval => pk_oneof (pack_msg E) f (fst cv) (snd cv)) (Err EDesc) um g x Hx) in Hpk.
      destruct x as [case v]. cbn [fst snd] in *.
      pose proof (HR g case v Hx) as HRg.
      unfold pk_oneof in Hpk.
      destruct (Z.eqb_spec case (f_id f)) as [-> | Hne]; cbn [negb] in Hpk.
      * rewrite (with_nth_some _ _ (fun cv : Z * sval => pk_oneof (pack_msg E') f (fst cv) (snd cv)) (Err EDesc) um' g _ HRg).
        cbn [fst snd]. unfold pk_oneof. rewrite Z.eqb_refl. cbn [negb].
        rewrite (canon_not_absent E f v C) in Hpk. cbn [bind] in Hpk.
        rewrite (canon_cell_sub f v C). cbn [bind].
        apply (ftr_oneof i i' f g v um um' F Hn Hn' Ho (or_introl El) C); [| exact Hx | exact HRg | exact Hpk | exact Hlen |].
        -- rewrite Forall_forall in HU. exact (HU (f_id f, v) (nth_error_In _ _ Hx)).
        -- intros Cc. unfold canon_slot. rewrite El, Eq. apply andb_true_iff. split; [exact Cg|].
           rewrite (with_nth_some _ _ _ false um' g _ HRg). cbn [fst snd]. rewrite Z.eqb_refl. exact Cc.
      * destruct HRg as (c' & v' & Hx' & Hne').
        rewrite (with_nth_some _ _ (fun cv : Z * sval => pk_oneof (pack_msg E') f (fst cv) (snd cv)) (Err EDesc) um' g _ Hx').
        cbn [fst snd]. unfold pk_oneof. replace (c' =? f_id f) with false by lia. cbn [negb].
        inversion Hpk. apply ftr_absent; try reflexivity; try (rewrite El; discriminate); try (intros E0; rewrite El in E0; discriminate).
        -- intros gg Hgg. inversion Hgg; subst gg.
           rewrite (nth_error_nth um g (0, VWord 0) Hx), (nth_error_nth um' g (0, VWord 0) Hx'). cbn [fst]. split; assumption.
        -- unfold canon_slot. rewrite El, Eq. apply andb_true_iff. split; [exact Cg|].
           rewrite (with_nth_some _ _ _ false um' g _ Hx'). cbn [fst snd]. replace (c' =? f_id f) with false by lia. reflexivity.
  - (* repeated *)
    destruct s as [|n cap arr|]; try discriminate C.
    destruct (f_quant f); try discriminate Hlq.
    destruct arr as [l|]; cbn [map_slot].
    + rewrite !andb_true_iff in C. destruct C as [[[[Hn0 Hnl] Hcap] Hn28] Hcells].
      apply Z.eqb_eq in Hnl, Hcap. subst n cap.
      assert (Hne : l <> []) by (intros ->; cbn in Hn0; lia).
      destruct (f_packed f) eqn:Ep.
      * apply andb_true_iff in Hpacked. destruct Hpacked as [_ Hs].
        destruct (words_of_canon E f l Hs Hcells) as (ws & -> & Hws).
        assert (Hzw : zlen (map VWord ws) = zlen ws) by (unfold zlen; rewrite map_length; reflexivity).
        assert (Hnm : f_type f <> TMessage) by (intros Et; rewrite Et in Hs; discriminate Hs).
        assert (Hcells' : forallb (canon_cell (canon_msg E') f) (map VWord ws) = true).
        { rewrite forallb_forall in *. intros v Hv. rewrite (canon_nonmsg_rec _ (canon_msg E) f v Hnm). exact (Hcells v Hv). }
        assert (Hcs : canon_slot (canon_msg E') um' f (SRep (zlen ws) (zlen ws) (Some (map VWord ws))) = true).
        { unfold canon_slot. rewrite El, Hzw, Hcells', Z.eqb_refl. rewrite Hzw in Hn0, Hn28. rewrite Hn0, Hn28. reflexivity. }
        rewrite Hzw in *.
        apply (ftr_packed i i' f ws um um' F Hn Hn' El Ep Hs); try assumption; try lia.
        intros ->. apply Hne. reflexivity.
      * apply (ftr_unpacked i i' f l um um' F Hn Hn' El Ep Hne); try assumption; try lia.
        -- apply Forall_forall. intros v Hv. rewrite forallb_forall in Hcells. exact (Hcells v Hv).
        -- intros Hc'. unfold canon_slot. rewrite El, Hc'.
           replace (zlen (map (pcell pm) l)) with (zlen l) by (unfold zlen; rewrite map_length; reflexivity).
           rewrite Z.eqb_refl, Hn0, Hn28. reflexivity.
    + apply andb_true_iff in C. destruct C as [Hn0 Hc0]. apply Z.eqb_eq in Hn0, Hc0. subst n cap.
      unfold pk_repeated in Hpk |- *. destruct (f_packed f); cbn [Z.eqb] in Hpk |- *; inversion Hpk;
        (apply ftr_absent; try reflexivity; try (rewrite El; discriminate); try (intros g0 Hg0; discriminate Hg0);
         unfold canon_slot; rewrite El; reflexivity).
  - (* none *)
    destruct s as [h v| |g]; try discriminate C; cbn [map_slot].
    + destruct (f_quant f) eqn:Eq; try discriminate Hlq.
      * apply negb_true_iff in Hlq. rewrite Hlq in Hpk |- *.
        apply andb_true_iff in C. destruct C as [Hh C]. apply Z.eqb_eq in Hh. subst h.
        unfold pk_unlabeled in Hpk |- *. rewrite zeroish_pcell.
        apply orb_true_iff in C. destruct C as [Ci | Cv].
        -- pose proof Ci as Ci0. apply shallow_eq in Ci. subst v. rewrite (Hz eq_refl) in Hpk |- *. cbn [bind] in Hpk |- *. inversion Hpk.
           apply ftr_absent; absent_tac El.
           unfold canon_slot. rewrite El, Ci0. reflexivity.
        -- apply andb_true_iff in Cv. destruct Cv as [Cv Hzf].
           destruct (zeroish f v) as [[|]|e] eqn:Hzv; try discriminate Hzf. cbn [bind] in Hpk |- *.
           apply (ftr_single i i' f 0 v um um' F Hn Hn' Hlq); [rewrite El; reflexivity | exact Cv | exact HS | exact Hpk | exact Hlen | rewrite El, Eq; reflexivity |].
           intros Cc. unfold canon_slot. rewrite El. apply andb_true_iff. split; [reflexivity|].
           apply orb_true_iff. right. rewrite Cc, zeroish_pcell, Hzv. reflexivity.
      * apply andb_true_iff in Hlq. destruct Hlq as [Ho _]. rewrite Ho in Hpk. discriminate Hpk.
    + destruct (f_quant f) eqn:Eq; try discriminate Hlq;
        try (apply negb_true_iff in Hlq; rewrite Hlq in Hpk; discriminate Hpk).
      apply andb_true_iff in Hlq. destruct Hlq as [Ho _]. rewrite Ho in Hpk |- *.
      apply andb_true_iff in C. destruct C as [Cg C].
      destruct (with_nth_cases _ _ (fun cv : Z * sval => if fst cv =? f_id f then canon_cell (canon_msg E) f (snd cv) else true) false um g)
        as [(x & Hx & Hw) | (Hx & Hw)]; rewrite Hw in C; [|discriminate C].
      rewrite (with_nth_some _ _ (fun cv : Z * sval => pk_oneof (pack_msg E) f (fst cv) (snd cv)) (Err EDesc) um g x Hx) in Hpk.
      destruct x as [case v]. cbn [fst snd] in *.
      pose proof (HR g case v Hx) as HRg.
      unfold pk_oneof in Hpk.
      destruct (Z.eqb_spec case (f_id f)) as [-> | Hne]; cbn [negb] in Hpk.
      * rewrite (with_nth_some _ _ (fun cv : Z * sval => pk_oneof (pack_msg E') f (fst cv) (snd cv)) (Err EDesc) um' g _ HRg).
        cbn [fst snd]. unfold pk_oneof. rewrite Z.eqb_refl. cbn [negb].
        rewrite (canon_not_absent E f v C) in Hpk. cbn [bind] in Hpk.
        rewrite (canon_cell_sub f v C). cbn [bind].
        apply (ftr_oneof i i' f g v um um' F Hn Hn' Ho (or_intror El) C); [| exact Hx | exact HRg | exact Hpk | exact Hlen |].
        -- rewrite Forall_forall in HU. exact (HU (f_id f, v) (nth_error_In _ _ Hx)).
        -- intros Cc. unfold canon_slot. rewrite El, Eq. apply andb_true_iff. split; [exact Cg|].
           rewrite (with_nth_some _ _ _ false um' g _ HRg). cbn [fst snd]. rewrite Z.eqb_refl. exact Cc.
      * destruct HRg as (c' & v' & Hx' & Hne').
        rewrite (with_nth_some _ _ (fun cv : Z * sval => pk_oneof (pack_msg E') f (fst cv) (snd cv)) (Err EDesc) um' g _ Hx').
        cbn [fst snd]. unfold pk_oneof. replace (c' =? f_id f) with false by lia. cbn [negb].
        inversion Hpk. apply ftr_absent; try reflexivity; try (rewrite El; discriminate); try (intros E0; rewrite El in E0; discriminate).
        -- intros gg Hgg. inversion Hgg; subst gg.
           rewrite (nth_error_nth um g (0, VWord 0) Hx), (nth_error_nth um' g (0, VWord 0) Hx'). cbn [fst]. split; assumption.
        -- unfold canon_slot. rewrite El, Eq. apply andb_true_iff. split; [exact Cg|].
           rewrite (with_nth_some _ _ _ false um' g _ Hx'). cbn [fst snd]. replace (c' =? f_id f) with false by lia. reflexivity.
Qed.

End Field.
End Transfer.

(* C18: the simple append buffer, for every capacity, history and failure plan. *)
From Coq Require Import ZArith List Bool Lia.
From PBC Require Import Impl.BufSimple.
Import ListNotations.
Local Open Scope Z_scope.

(* ---------- the doubling loop terminates and returns a power-of-two multiple *)
Lemma grow_spec : forall fuel a target,
  1 <= a -> target <= a * 2 ^ (Z.of_nat fuel) ->
  exists j, 0 <= j /\ grow fuel a target = Some (a * 2 ^ j) /\ target <= a * 2 ^ j /\
            (j = 0 \/ a * 2 ^ (j - 1) < target).
Proof.
  induction fuel as [|f IH]; intros a target Ha Ht.
  - cbn [grow]. change (Z.of_nat 0) with 0 in Ht. rewrite Z.pow_0_r in Ht.
    destruct (a <? target) eqn:E.
    + apply Z.ltb_lt in E. lia.
    + exists 0. rewrite Z.pow_0_r. repeat split; try lia. f_equal. lia.
  - cbn [grow]. destruct (a <? target) eqn:E.
    + apply Z.ltb_lt in E.
      assert (Hp : 2 ^ Z.of_nat (S f) = 2 * 2 ^ Z.of_nat f).
      { rewrite Nat2Z.inj_succ, Z.pow_succ_r by lia. reflexivity. }
      rewrite Hp in Ht.
      destruct (IH (a + a) target) as (j & Hj & Hg & Hge & Hmin); [lia | nia |].
      exists (j + 1). rewrite Z.pow_add_r by lia. rewrite Z.pow_1_r.
      replace (a * (2 ^ j * 2)) with ((a + a) * 2 ^ j) by lia.
      repeat split; try lia; try assumption.
      right. replace (j + 1 - 1) with j by lia.
      destruct Hmin as [-> | Hmin].
      * rewrite Z.pow_0_r. lia.
      * destruct (Z.eq_dec j 0) as [-> | Hj0]; [rewrite Z.pow_0_r; lia|].
        replace j with ((j - 1) + 1) at 1 by lia. rewrite Z.pow_add_r by lia. rewrite Z.pow_1_r. nia.
    + apply Z.ltb_ge in E. exists 0. rewrite Z.pow_0_r.
      repeat split; try lia. f_equal. lia.
Qed.

Lemma grow_fuel_enough : forall a target, 1 <= a -> target <= a * 2 ^ Z.of_nat (grow_fuel target).
Proof.
  intros a target Ha. unfold grow_fuel.
  destruct (Z_le_gt_dec target 1) as [Hs | Hb].
  - assert (0 < 2 ^ Z.of_nat (S (S (Z.to_nat (Z.log2_up target))))) by (apply Z.pow_pos_nonneg; lia). nia.
  - pose proof (Z.log2_up_spec target ltac:(lia)) as [_ Hu].
    pose proof (Z.log2_up_nonneg target) as Hn.
    rewrite !Nat2Z.inj_succ, Z2Nat.id by lia.
    rewrite !Z.pow_succ_r by lia.
    assert (0 < 2 ^ Z.log2_up target) by (apply Z.pow_pos_nonneg; lia). nia.
Qed.

(* ---------- invariant *)
Definition no_scratch_free (log : list bevent) : Prop := ~ In BFreeScratch log.

Record binv (cap : Z) (b : bstate) : Prop := {
  i_len : b_len b = Z.of_nat (length (b_data b));
  i_fit : b_len b <= b_alloced b;
  i_pow : exists k, 0 <= k /\ b_alloced b = cap * 2 ^ k;
  i_own : b_must_free b = true <-> b_blk b <> None;
  i_live : live_blocks (b_log b) = match b_blk b with Some id => [id] | None => [] end;
  i_fresh : forall id, In id (live_blocks (b_log b)) -> (id < b_next b)%nat;
  i_scratch : no_scratch_free (b_log b);
}.

Lemma binv_init : forall cap, 1 <= cap -> binv cap (buf_init cap).
Proof.
  intros cap Hc.
  constructor; cbn;
    [ lia | lia | exists 0; rewrite Z.pow_0_r; lia | split; [discriminate | congruence]
    | reflexivity | intros id [] | intros [] ].
Qed.

Lemma live_alloc : forall id sz log, live_blocks (BAlloc id sz :: log) = id :: live_blocks log.
Proof. reflexivity. Qed.
Lemma live_free : forall id log,
  live_blocks (BFree id :: log) = filter (fun x => negb (Nat.eqb x id)) (live_blocks log).
Proof. reflexivity. Qed.
Lemma live_refused : forall id sz log, live_blocks (BRefused id sz :: log) = live_blocks log.
Proof. reflexivity. Qed.
Lemma live_scratch : forall log, live_blocks (BFreeScratch :: log) = live_blocks log.
Proof. reflexivity. Qed.

Ltac own_contra Io :=
  exfalso; first [ solve [apply (proj1 Io); reflexivity]
                 | solve [assert (false = true) by (apply (proj2 Io); discriminate); discriminate] ].
Ltac proj := cbn [b_alloced b_len b_data b_must_free b_blk b_log b_next].

Lemma filter_not_self : forall id, filter (fun x => negb (Nat.eqb x id)) [id] = [].
Proof. intros id. cbn. rewrite Nat.eqb_refl. reflexivity. Qed.

(* one append: either the state is unchanged (refused growth), or the chunk is appended *)
Lemma append_step : forall cap plan b chunk,
  1 <= cap -> binv cap b ->
  exists b', buf_append plan b chunk = Some b' /\ binv cap b' /\
    ((b_data b' = b_data b ++ chunk /\ b_len b' = b_len b + Z.of_nat (length chunk))
     \/ (plan (b_next b) = true /\ b_len b + Z.of_nat (length chunk) > b_alloced b /\
         b_data b' = b_data b /\ b_len b' = b_len b /\ b_alloced b' = b_alloced b /\
         b_must_free b' = b_must_free b /\ b_blk b' = b_blk b)).
Proof.
  intros cap plan b chunk Hc I. destruct I as [Il If Ip Io Ilv Ifr Isc].
  unfold buf_append.
  destruct (b_len b + Z.of_nat (length chunk) >? b_alloced b) eqn:Eg.
  - apply Z.gtb_lt in Eg.
    destruct Ip as (k & Hk & Hal).
    assert (Ha1 : 1 <= b_alloced b * 2).
    { assert (0 < 2 ^ k) by (apply Z.pow_pos_nonneg; lia). nia. }
    destruct (grow_spec (grow_fuel (b_len b + Z.of_nat (length chunk))) (b_alloced b * 2)
                (b_len b + Z.of_nat (length chunk)) Ha1 (grow_fuel_enough _ _ Ha1))
      as (j & Hj & Hg & Hge & _).
    rewrite Hg.
    destruct (plan (b_next b)) eqn:Epl.
    + eexists. split; [reflexivity|]. split.
      * constructor; proj; auto.
        -- exists k. auto.
        -- rewrite live_refused. intros id Hid. specialize (Ifr id Hid). lia.
        -- intros [H|H]; [discriminate | exact (Isc H)].
      * right. proj. repeat split; auto. lia.
    + eexists. split; [reflexivity|]. split.
      * constructor; proj.
        -- rewrite app_length, Nat2Z.inj_add. lia.
        -- lia.
        -- exists (k + 1 + j). split; [lia|]. rewrite Hal.
           rewrite !Z.pow_add_r by lia. rewrite Z.pow_1_r. lia.
        -- split; [discriminate | reflexivity].
        -- destruct (b_must_free b) eqn:Em.
           ++ destruct (b_blk b) as [old|] eqn:Eb.
              ** rewrite live_free, live_alloc, Ilv. cbn [filter].
                 destruct (Nat.eqb (b_next b) old) eqn:En.
                 { apply Nat.eqb_eq in En. exfalso.
                   assert (old < b_next b)%nat by (apply Ifr; rewrite Ilv; left; reflexivity). lia. }
                 rewrite Nat.eqb_refl. reflexivity.
              ** own_contra Io.
           ++ rewrite live_alloc, Ilv. destruct (b_blk b) as [old|] eqn:Eb.
              ** own_contra Io.
              ** reflexivity.
        -- intros id Hid.
           assert (Hin : id = b_next b \/ In id (live_blocks (b_log b))).
           { destruct (b_must_free b); [destruct (b_blk b)|].
             - rewrite live_free, live_alloc in Hid.
               apply filter_In in Hid. destruct Hid as [[H|H] _]; auto.
             - rewrite live_scratch, live_alloc in Hid. destruct Hid; auto.
             - rewrite live_alloc in Hid. destruct Hid; auto. }
           destruct Hin as [-> | Hin]; [lia | specialize (Ifr id Hin); lia].
        -- destruct (b_must_free b) eqn:Em.
           ++ destruct (b_blk b) eqn:Eb.
              ** intros [H|[H|H]]; try discriminate. exact (Isc H).
              ** own_contra Io.
           ++ intros [H|H]; [discriminate | exact (Isc H)].
      * left. proj. split; reflexivity.
  - rewrite Z.gtb_ltb in Eg. apply Z.ltb_ge in Eg.
    eexists. split; [reflexivity|]. split.
    + constructor; proj; auto; try (rewrite app_length, Nat2Z.inj_add; lia); try lia.
    + left. proj. split; reflexivity.
Qed.

(* ---------- histories *)
(* the chunks that were actually stored, given which appends were refused *)
Inductive run (cap : Z) (plan : nat -> bool) : bstate -> list (list Z) -> bstate -> list (list Z) -> Prop :=
| run_nil : forall b, run cap plan b [] b []
| run_ok : forall b c b1 h b' acc,
    buf_append plan b c = Some b1 -> b_data b1 = b_data b ++ c ->
    run cap plan b1 h b' acc -> run cap plan b (c :: h) b' (c :: acc)
| run_refused : forall b c b1 h b' acc,
    buf_append plan b c = Some b1 -> b_data b1 = b_data b -> b_len b1 = b_len b ->
    b_alloced b1 = b_alloced b -> plan (b_next b) = true ->
    run cap plan b1 h b' acc -> run cap plan b (c :: h) b' acc.

Lemma appends_total : forall cap plan h b,
  1 <= cap -> binv cap b ->
  exists b' acc, buf_appends plan b h = Some b' /\ binv cap b' /\ run cap plan b h b' acc /\
                 b_data b' = b_data b ++ concat acc.
Proof.
  intros cap plan h. induction h as [|c h IH]; intros b Hc I.
  - exists b, []. cbn [buf_appends concat]. rewrite app_nil_r.
    split; [reflexivity | split; [assumption | split; [constructor | reflexivity]]].
  - destruct (append_step cap plan b c Hc I) as (b1 & Ha & I1 & Hcase).
    destruct (IH b1 Hc I1) as (b' & acc & Hs & I' & Hr & Hd).
    destruct Hcase as [[Hd1 Hl1] | (Hp & Hgt & Hd1 & Hl1 & Hal1 & _ & _)].
    + exists b', (c :: acc). cbn [buf_appends]. rewrite Ha.
      split; [assumption | split; [assumption | split]].
      * eapply run_ok; eauto.
      * rewrite Hd, Hd1. cbn [concat]. rewrite app_assoc. reflexivity.
    + exists b', acc. cbn [buf_appends]. rewrite Ha.
      split; [assumption | split; [assumption | split]].
      * eapply run_refused; eauto.
      * rewrite Hd, Hd1. reflexivity.
Qed.

Lemma run_no_refusal : forall cap plan b h b' acc,
  (forall k, plan k = false) -> run cap plan b h b' acc -> acc = h.
Proof.
  intros cap plan b h b' acc Hp R. induction R; auto.
  - f_equal. auto.
  - rewrite Hp in H3. discriminate.
Qed.

(* Main statement: any capacity >= 1, any history, any plan. *)
Theorem buffer_history : forall cap plan h,
  1 <= cap ->
  exists b acc,
    buf_appends plan (buf_init cap) h = Some b /\
    (* contents and length are exactly what was accepted *)
    b_data b = concat acc /\ b_len b = Z.of_nat (length (concat acc)) /\
    (* nothing is ever written past the capacity, which is cap * 2^k *)
    b_len b <= b_alloced b /\ (exists k, 0 <= k /\ b_alloced b = cap * 2 ^ k) /\
    (* exactly the current heap block is outstanding; the scratch array is never freed *)
    live_blocks (b_log b) = match b_blk b with Some id => [id] | None => [] end /\
    ~ In BFreeScratch (b_log b) /\
    (* CLEAR releases it, once, and nothing else *)
    live_blocks (b_log (buf_clear b)) = [] /\ ~ In BFreeScratch (b_log (buf_clear b)) /\
    (* with no refused request everything appended is stored *)
    ((forall k, plan k = false) -> acc = h).
Proof.
  intros cap plan h Hc.
  destruct (appends_total cap plan h (buf_init cap) Hc (binv_init cap Hc)) as (b & acc & Hs & I & R & Hd).
  exists b, acc. cbn in Hd. destruct I as [Il If Ip Io Ilv Ifr Isc].
  repeat split; auto.
  - rewrite Il, Hd. reflexivity.
  - unfold buf_clear. destruct (b_must_free b) eqn:Em.
    + destruct (b_blk b) as [id|] eqn:Eb.
      * proj. rewrite live_free, Ilv. apply filter_not_self.
      * own_contra Io.
    + rewrite Ilv. destruct (b_blk b) eqn:Eb; auto. own_contra Io.
  - unfold buf_clear. destruct (b_must_free b) eqn:Em; auto.
    destruct (b_blk b) eqn:Eb.
    + proj. intros [H|H]; [discriminate | exact (Isc H)].
    + own_contra Io.
  - intros Hp. eapply run_no_refusal; eauto.
Qed.

(* a refused growth leaves contents, length, capacity and ownership intact (also used by C08) *)
Theorem buffer_refusal_keeps_state : forall cap plan b chunk,
  1 <= cap -> binv cap b ->
  plan (b_next b) = true -> b_len b + Z.of_nat (length chunk) > b_alloced b ->
  exists b', buf_append plan b chunk = Some b' /\
    b_data b' = b_data b /\ b_len b' = b_len b /\ b_alloced b' = b_alloced b /\
    b_must_free b' = b_must_free b /\ b_blk b' = b_blk b /\
    live_blocks (b_log b') = live_blocks (b_log b).
Proof.
  intros cap plan b chunk Hc I Hp Hgt.
  destruct (append_step cap plan b chunk Hc I) as (b' & Ha & I' & Hcase).
  exists b'. split; auto.
  unfold buf_append in Ha.
  assert (Eg : (b_len b + Z.of_nat (length chunk) >? b_alloced b) = true) by (apply Z.gtb_lt; lia).
  rewrite Eg in Ha.
  destruct (grow _ _ _); [|discriminate]. rewrite Hp in Ha. inversion Ha; subst; cbn. auto 10.
Qed.

(* non-vacuity: capacity 2, three doublings *)
Example buffer_three_doublings :
  exists b, buf_appends (fun _ => false) (buf_init 2) [[1;2;3]; [4;5;6;7;8;9]; []; [10]; [11;12;13;14;15;16;17]] = Some b
            /\ b_alloced b = 32 /\ b_len b = 17 /\ length (filter (fun e => match e with BFree _ => true | _ => false end) (b_log b)) = 2%nat
            /\ length (filter (fun e => match e with BAlloc _ _ => true | _ => false end) (b_log b)) = 3%nat.
Proof. eexists. split; [vm_compute; reflexivity|]. vm_compute. repeat split; reflexivity. Qed.

"""Shared infrastructure for bin/check: builds (translator -> coqc -> extraction -> OCaml,
C drivers), proof gate, evidence and verdict handling."""
import os, sys, json, subprocess, hashlib, time, fcntl, re, glob, shutil

ROOT = os.path.dirname(os.path.dirname(os.path.abspath(__file__)))
REPO = os.environ.get('VERIF_REPO', '/repo')
BUILD = os.path.join(ROOT, 'build')
COQ = os.path.join(ROOT, 'coq')
SRC_C = os.path.join(REPO, 'protobuf-c', 'protobuf-c.c')
SRC_H = os.path.join(REPO, 'protobuf-c', 'protobuf-c.h')
NPROC = str(os.cpu_count() or 4)

TRUSTED_BASE = [
    "Coq 8.16.1 kernel (coqc; vm_compute used inside proofs by reflection sweeps; no native_compute)",
    "axioms: none declared; Print Assumptions of every property theorem is recorded below",
    "translator/c2gallina.py (clang 14 JSON AST -> Gallina) for the leaf layer, validated on every run by the leaf tie",
    "Extraction with ExtrOcamlBasic only (no Extract Constant / Extract Inductive of our own); OCaml 4.13.1; harness/ocaml drivers",
    "harness/c drivers (dynamic descriptors, reflective dump, recording allocator); gcc 12 with ASan/UBSan",
    "hand-written Impl model of the pointer-walking runtime: tied to protobuf-c.c by the correspondence check, not verified against C semantics",
]


def log(msg):
    sys.stderr.write(msg + "\n")
    sys.stderr.flush()


def sh(cmd, cwd=None, timeout=1800, env=None, check=False, stdin=None):
    e = dict(os.environ)
    if env:
        e.update(env)
    try:
        r = subprocess.run(cmd, cwd=cwd, shell=isinstance(cmd, str), stdout=subprocess.PIPE,
                           stderr=subprocess.PIPE, timeout=timeout, env=e, input=stdin)
    except subprocess.TimeoutExpired as ex:
        # a hang is an outcome to report (exit status 124, what was printed so far), not a reason to die
        out = (ex.stdout or b'').decode('utf-8', 'replace')
        err = (ex.stderr or b'').decode('utf-8', 'replace') + '\nTIMEOUT after %s s: %s\n' % (timeout, cmd if isinstance(cmd, str) else ' '.join(map(str, cmd)))
        if check:
            raise RuntimeError("command timed out: %s" % (cmd,))
        return 124, out, err
    out = r.stdout.decode('utf-8', 'replace')
    err = r.stderr.decode('utf-8', 'replace')
    if check and r.returncode != 0:
        raise RuntimeError("command failed (%d): %s\n%s\n%s" % (r.returncode, cmd, out[-3000:], err[-3000:]))
    return r.returncode, out, err


def sha_files(paths):
    h = hashlib.sha256()
    for p in sorted(paths):
        h.update(p.encode())
        try:
            h.update(open(p, 'rb').read())
        except FileNotFoundError:
            h.update(b'<missing>')
    return h.hexdigest()[:20]


class Lock:
    def __enter__(self):
        os.makedirs(BUILD, exist_ok=True)
        self.f = open(os.path.join(BUILD, '.lock'), 'w')
        fcntl.flock(self.f, fcntl.LOCK_EX)
        return self

    def __exit__(self, *a):
        fcntl.flock(self.f, fcntl.LOCK_UN)
        self.f.close()


# ---------------------------------------------------------------- builds
def regenerate():
    """translator: /repo's current protobuf-c.c -> coq/Gen/*.v.  Returns dict(status, changed, msg)."""
    info = {'ok': True, 'msgs': []}
    for dst, extra in (('LeafC.v', []), ('LeafC_BE.v', ['--be'])):
        rc, out, err = sh([sys.executable, os.path.join(ROOT, 'translator', 'c2gallina.py'), SRC_C,
                           os.path.join(COQ, 'Gen', dst)] + extra, timeout=300)
        info['msgs'].append((out + err).strip())
        if rc != 0:
            info['ok'] = False
    kw = os.path.join(ROOT, 'translator', 'keywords.py')
    rc, out, err = sh([sys.executable, kw, REPO, os.path.join(COQ, 'Gen')], timeout=60)
    info['msgs'].append((out + err).strip())
    if rc != 0:
        info['ok'] = False
    aud = os.path.join(ROOT, 'translator', 'audits.py')
    if os.path.exists(aud):
        rc, out, err = sh([sys.executable, aud, REPO, os.path.join(COQ, 'Gen')], timeout=300)
        info['msgs'].append((out + err).strip())
        if rc != 0:
            info['ok'] = False
    return info


def coq_build(targets=None, clean=False):
    """full .vo build with make -k; returns (ok, log)"""
    if clean:
        sh('git clean -fdxq -e Gen coq/ 2>/dev/null; find coq -name "*.vo" -delete -o -name "*.glob" -delete -o -name "*.aux" -delete -o -name "*.vos" -delete -o -name "*.vok" -delete', cwd=ROOT)
    if not os.path.exists(os.path.join(COQ, 'Makefile')) or \
            os.path.getmtime(os.path.join(COQ, 'Makefile')) < os.path.getmtime(os.path.join(COQ, '_CoqProject')):
        sh('coq_makefile -f _CoqProject -o Makefile', cwd=COQ, check=True)
    cmd = ['make', '-k', '-j' + NPROC] + (targets or [])
    rc, out, err = sh(cmd, cwd=COQ, timeout=3000)
    return rc == 0, out + err


def vo_exists(rel):
    return os.path.exists(os.path.join(COQ, rel[:-2] + '.vo' if rel.endswith('.v') else rel))


def build_ocaml():
    """extraction + OCaml drivers; cached by the hash of all .v sources involved"""
    d = os.path.join(BUILD, 'ocaml')
    os.makedirs(d, exist_ok=True)
    srcs = glob.glob(os.path.join(COQ, 'Gen', '*.v')) + glob.glob(os.path.join(COQ, 'Impl', '*.v')) + \
        glob.glob(os.path.join(COQ, 'Base', '*.v')) + glob.glob(os.path.join(COQ, 'GenModel', '*.v')) + \
        glob.glob(os.path.join(COQ, 'Extract', '*.v')) + glob.glob(os.path.join(ROOT, 'harness', 'ocaml', '*.ml'))
    key = sha_files(srcs)
    stamp = os.path.join(d, '.stamp')
    if os.path.exists(stamp) and open(stamp).read() == key and os.path.exists(os.path.join(d, 'model_driver')):
        return True, 'cached'
    for f in glob.glob(os.path.join(d, '*')):
        if os.path.isfile(f):
            os.remove(f)
    rc, out, err = sh(['coqc', '-Q', COQ, 'PBC', os.path.join(COQ, 'Extract', 'Extract.v')], cwd=d, timeout=600)
    if rc != 0:
        return False, 'extraction failed:\n' + (out + err)[-3000:]
    for f in glob.glob(os.path.join(ROOT, 'harness', 'ocaml', '*.ml')):
        shutil.copy(f, d)
    drivers = [os.path.basename(f)[:-3] for f in glob.glob(os.path.join(ROOT, 'harness', 'ocaml', '*.ml'))
               if os.path.basename(f) != 'model_util.ml']
    for drv in drivers:
        excl = set(o + '.ml' for o in drivers if o != drv)
        files = sorted(f for f in os.listdir(d) if f.endswith(('.ml', '.mli')) and f not in excl)
        rc, out, err = sh("FILES=$(ocamlfind ocamldep -sort %s 2>/dev/null); ocamlfind ocamlopt -w -a $FILES -o %s"
                          % (' '.join(files), drv), cwd=d, timeout=600)
        if rc != 0:
            return False, 'ocaml build of %s failed:\n%s' % (drv, (out + err)[-3000:])
    open(stamp, 'w').write(key)
    return True, 'built'


SAN = ['-fsanitize=address,undefined', '-fno-sanitize=nonnull-attribute', '-fno-sanitize-recover=undefined']


def build_c(name, src, flags=None, san=True, compiler='gcc', extra_key=''):
    """compile one harness TU against /repo's current sources; cached by hash"""
    d = os.path.join(BUILD, 'c')
    os.makedirs(d, exist_ok=True)
    flags = flags or []
    key = sha_files([SRC_C, SRC_H, src]) + hashlib.sha256((' '.join(flags) + str(san) + compiler + extra_key).encode()).hexdigest()[:8]
    exe = os.path.join(d, '%s-%s' % (name, key))
    if os.path.exists(exe):
        return exe, None
    cmd = [compiler, '-std=gnu11', '-O1', '-g', '-w'] + (SAN if san else []) + flags + \
          ['-I' + REPO, '-I' + os.path.join(REPO, 'protobuf-c'), src, '-o', exe + '.tmp']
    rc, out, err = sh(cmd, timeout=600)
    if rc != 0:
        return None, (out + err)[-4000:]
    os.rename(exe + '.tmp', exe)
    # prune old builds of this name
    olds = sorted(glob.glob(os.path.join(d, name + '-*')), key=os.path.getmtime)
    for o in olds[:-6]:
        try:
            os.remove(o)
        except OSError:
            pass
    return exe, None


# ---------------------------------------------------------------- proof gate
def proof_gate(pid):
    """compile Props/Properties_<pid>.v on its own and collect Print Assumptions output"""
    src = os.path.join(COQ, 'Props', 'Properties_%s.v' % pid)
    res = {'file': 'coq/Props/Properties_%s.v' % pid, 'ok': False, 'theorems': [], 'assumptions': [], 'log': ''}
    if not os.path.exists(src):
        res['log'] = 'missing ' + src
        return res
    txt = open(src).read()
    res['theorems'] = re.findall(r'^\s*(?:Theorem|Corollary)\s+(\w+)', txt, re.M)
    bad = re.findall(r'\b(Admitted|admit|Axiom|Parameter|Conjecture|Unset Guard|bypass_check)\b', txt)
    rc, out, err = sh(['coqc', '-Q', COQ, 'PBC', src], cwd=os.path.join(COQ, 'Props'), timeout=1200)
    res['log'] = (out + err)[-6000:]
    res['assumptions'] = [l.strip() for l in out.splitlines() if l.strip()]
    closed = out.count('Closed under the global context')
    res['closed'] = closed
    res['ok'] = (rc == 0 and not bad and closed >= len(res['theorems']) and len(res['theorems']) > 0)
    if bad:
        res['log'] += '\nforbidden keywords: %s' % bad
    return res


def forbidden_scan():
    rc, out, err = sh(r"grep -rnE '\b(Admitted|admit|Axiom|Parameter|Conjecture|bypass_check)\b|Unset Guard|type-in-type' "
                      r"--include=*.v coq/ | grep -v '^coq/Gen/.*(\* ' || true", cwd=ROOT)
    return [l for l in out.splitlines() if l.strip()]


def count_obligations(pid):
    """statements (Lemma/Theorem/Example/...) in the PBC files Properties_<pid> depends on, and how many of those files compiled"""
    src = os.path.join(COQ, 'Props', 'Properties_%s.v' % pid)
    seen = set()
    todo = [src]
    total = 0
    done = 0
    files = []
    while todo:
        f = todo.pop()
        if f in seen or not os.path.exists(f):
            continue
        seen.add(f)
        txt = open(f).read()
        n = len(re.findall(r'^\s*(?:Theorem|Lemma|Corollary|Example|Fact|Remark|Proposition)\s+\w+', txt, re.M))
        rel = os.path.relpath(f, COQ)
        compiled = os.path.exists(f[:-2] + '.vo')
        if rel.startswith('Gen/') or rel.startswith('Impl/') or rel.startswith('Base/CInt.v'):
            pass
        total += n
        if compiled or f == src:
            done += n
        files.append(rel)
        for m in re.finditer(r'From\s+PBC\s+Require\s+(?:Import|Export)\s+([\w.\s]+?)\.\s*(?:\n|$)', txt):
            for mod in m.group(1).split():
                p = os.path.join(COQ, mod.replace('.', '/') + '.v')
                if os.path.exists(p):
                    todo.append(p)
    return total, done, sorted(files)


# ---------------------------------------------------------------- known findings
def load_findings():
    p = os.path.join(ROOT, 'known_findings.json')
    if not os.path.exists(p):
        return {'findings': [], 'fixed': []}
    return json.load(open(p))


# ---------------------------------------------------------------- evidence / verdict
class Run:
    def __init__(self, pid, tier, seed, level='proof'):
        self.pid = pid; self.tier = tier; self.seed = seed; self.level = level
        self.t0 = time.time()
        self.cov = {}
        self.assumptions = []
        self.violations = []      # (replay_path, no_input_found)
        self.known = []
        self.notes = []
        d = os.path.join(BUILD, 'replay', pid)
        if os.path.isdir(d):
            for f in os.listdir(d):
                try:
                    os.unlink(os.path.join(d, f))
                except OSError:
                    pass

    def replay(self, name, payload):
        d = os.path.join(BUILD, 'replay', self.pid)
        os.makedirs(d, exist_ok=True)
        p = os.path.join(d, name)
        with open(p, 'w') as f:
            if isinstance(payload, str):
                f.write(payload)
            else:
                json.dump(payload, f, indent=1)
        return p

    def violation(self, replay_path, no_input=False):
        self.violations.append((replay_path, no_input))

    def finish(self, gate, obligations):
        total, done, files = obligations
        cov = dict(self.cov)
        cov.setdefault('obligations', max(total, 1))
        cov.setdefault('discharged', max(total, 1) if gate and gate.get('ok') else min(done, max(total - 1, 0)))
        cov.setdefault('checker_cmd', 'coqc -Q coq PBC coq/Props/Properties_%s.v (after make -k in coq/; full .vo build)' % self.pid)
        cov.setdefault('trusted_base', TRUSTED_BASE + (['Print Assumptions: ' + '; '.join(gate.get('assumptions', [])[:12])] if gate else []))
        cov.setdefault('proof_files', files)
        cov.setdefault('samples', [])
        if not cov['samples']:
            cov['samples'] = ['(no sample recorded)']
        ev = {
            'property_id': self.pid, 'tier': self.tier, 'seed': self.seed, 'level': self.level,
            'coverage': cov, 'assumptions': self.assumptions, 'wall_s': round(time.time() - self.t0, 2),
            'violations': len(self.violations),
        }
        if self.notes:
            ev['coverage']['notes'] = self.notes
        os.makedirs(os.path.join(ROOT, 'evidence'), exist_ok=True)
        with open(os.path.join(ROOT, 'evidence', self.pid + '.json'), 'w') as f:
            json.dump(ev, f, indent=1)
        for k in self.known:
            print('KNOWN-FINDING: property=%s %s' % (self.pid, k))
        if self.violations:
            for p, noin in self.violations[:5]:
                print('VIOLATION property=%s replay=%s%s' % (self.pid, p, ' no-failing-input-found' if noin else ''))
            return 1
        print('OK property=%s tier=%s wall=%.1fs' % (self.pid, self.tier, time.time() - self.t0))
        return 0


def diff_lines(a, b):
    """first differing line index of two outputs (lists of lines), or None"""
    n = max(len(a), len(b))
    out = []
    for i in range(n):
        x = a[i] if i < len(a) else '<missing>'
        y = b[i] if i < len(b) else '<missing>'
        if x != y:
            out.append(i)
    return out

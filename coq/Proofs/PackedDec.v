(* Leaf lemmas for packed payloads: scan_varint, max_b128_numbers /
   count_packed_elements, and the element loops of parse_packed_repeated_member. *)
From Coq Require Import ZArith List Bool Lia ZifyBool.
From PBC Require Import Base.CInt Base.Bits Base.Bits2 Gen.LeafC Spec.Wire
     Impl.Desc Impl.Mem Impl.Enc Impl.WF Impl.Unpack Impl.Canon
     Proofs.LeafEnc Proofs.EncLemmas Proofs.LeafDec Proofs.SizePack Proofs.SizePackRep Proofs.ScanRec Proofs.CellRT.
Import ListNotations.
Local Open Scope Z_scope.

Ltac Zify.zify_post_hook ::= Z.div_mod_to_equations.

Lemma while_more : forall (S0 R0 : Type) (b : S0 -> step S0 R0) (f e : nat) s r,
  while_ f b s = LDone r -> while_ (f + e) b s = LDone r.
Proof.
  intros S0 R0 b f. induction f as [|f IHf]; intros e s r Hw; [discriminate|].
  cbn [Nat.add]. rewrite while_S' in *. destruct (b s); auto.
Qed.

Lemma rd_app_skip : forall pre l, rd (pre ++ l) (zlen pre) = rd l 0.
Proof.
  intros pre l. unfold rd, zlen. rewrite Nat2Z.id. change (Z.to_nat 0) with 0%nat.
  rewrite app_nth2 by lia. rewrite Nat.sub_diag. reflexivity.
Qed.

(* ---------- scan_varint *)
Lemma scan_varint_spec : forall bs rest, wfv bs -> (length bs <= 10)%nat ->
  (forall b, In b bs -> 0 <= b < 256) -> zlen (bs ++ rest) < 4294967296 ->
  scan_varint (u32 (zlen (bs ++ rest))) (bs ++ rest) = zlen bs.
Proof.
  intros bs rest W L HB Hlen.
  pose proof (zlen_nonneg _ (bs ++ rest)) as Hnn.
  rewrite (u32_small (zlen (bs ++ rest))) by lia.
  set (data := bs ++ rest) in *. unfold scan_varint. cbv zeta.
  assert (Hbl : zlen bs <= zlen data) by (subst data; rewrite zlen_app; pose proof (zlen_nonneg _ rest); lia).
  assert (Hb1 : 1 <= zlen bs) by (destruct bs; [contradiction | rewrite zlen_cons; pose proof (zlen_nonneg _ bs); lia]).
  (* generic loop claim for a bound LB *)
  assert (LOOP : forall LB (body : Z -> step Z Z),
            (forall i, body i = if i <? LB then (if Z.land (rd data i) 128 =? 0 then Break i else Continue (u32 (i + 1))) else Break i) ->
            zlen bs <= LB ->
            while_ 12 body 0 = LDone (zlen bs - 1)).
  { intros LB body Hbody HLB.
    assert (G : forall bs2 pre, data = pre ++ bs2 ++ rest -> wfv bs2 -> zlen pre + zlen bs2 <= LB ->
                zlen pre + zlen bs2 < 4294967296 -> (forall b, In b bs2 -> 0 <= b < 256) ->
                while_ (S (length bs2)) body (zlen pre) = LDone (zlen pre + zlen bs2 - 1)).
    { induction bs2 as [|b t IH2]; intros pre Hd W2 Hle Hlt HB2; [contradiction|].
      rewrite while_S'. rewrite Hbody.
      pose proof (zlen_nonneg _ pre). pose proof (zlen_nonneg _ t). rewrite zlen_cons in *.
      replace (zlen pre <? LB) with true by lia.
      rewrite Hd, rd_app_skip. cbn [app]. rewrite rd_cons0.
      pose proof (HB2 b (or_introl eq_refl)) as Bb. rewrite land128_zero by lia.
      destruct t as [|b1 t'].
      - cbn [wfv] in W2. replace (b <? 128) with true by lia. f_equal. cbn [length]. unfold zlen. cbn [length]. lia.
      - cbn [wfv] in W2. destruct W2 as [W0 W2]. replace (b <? 128) with false by lia.
        rewrite (u32_small (zlen pre + 1)) by lia.
        replace (zlen pre + 1) with (zlen (pre ++ [b])) by (rewrite zlen_app; reflexivity).
        change (length (b :: b1 :: t')) with (S (length (b1 :: t'))).
        rewrite (IH2 (pre ++ [b])).
        + f_equal. rewrite zlen_app. change (zlen [b]) with 1. lia.
        + rewrite Hd. rewrite <- app_assoc. reflexivity.
        + exact W2.
        + rewrite zlen_app. change (zlen [b]) with 1. lia.
        + rewrite zlen_app. change (zlen [b]) with 1. lia.
        + intros x Hx. apply HB2. right. exact Hx. }
    specialize (G bs [] eq_refl W ltac:(change (zlen (@nil Z)) with 0; lia)
                  ltac:(change (zlen (@nil Z)) with 0; lia) HB).
    change (zlen (@nil Z)) with 0 in G. rewrite Z.add_0_l in G.
    replace 12%nat with (S (length bs) + (11 - length bs))%nat by lia.
    apply while_more. exact G. }
  destruct (Z.gtb_spec (zlen data) 10) as [Hgt | Hle].
  - rewrite (LOOP 10); [| intros i; reflexivity | unfold zlen; lia].
    replace (zlen bs - 1 =? 10) with false by (unfold zlen; lia).
    rewrite u32_small by lia. lia.
  - rewrite (LOOP (zlen data)); [| intros i; reflexivity | exact Hbl].
    replace (zlen bs - 1 =? zlen data) with false by lia.
    rewrite u32_small by lia. lia.
Qed.

(* ---------- max_b128_numbers / count_packed_elements *)
Fixpoint cnt128 (l : list Z) : Z :=
  match l with [] => 0 | b :: t => (if b <? 128 then 1 else 0) + cnt128 t end.

Lemma cnt128_bounds : forall l, 0 <= cnt128 l <= zlen l.
Proof. induction l as [|b t IH]; [cbn; lia|]. cbn [cnt128]. rewrite zlen_cons. destruct (b <? 128); lia. Qed.

Lemma max_b128_spec : forall data, (forall b, In b data -> 0 <= b < 256) -> zlen data < 4294967296 ->
  max_b128_numbers (zlen data) data = cnt128 data.
Proof.
  intros data HB Hlen. unfold max_b128_numbers. cbv zeta.
  match goal with |- context [@while_ _ _ _ ?b _] => set (body := b) end.
  assert (G : forall d rv, (forall b, In b d -> 0 <= b < 256) -> 0 <= rv -> rv + zlen d < 18446744073709551616 ->
              while_ (S (length d)) body (zlen d, d, rv) = LDone (u64 (-1), [], rv + cnt128 d)).
  { induction d as [|b t IHd]; intros rv HBd Hrv Hsum.
    - cbn [cnt128 length]. rewrite Z.add_0_r. change (zlen (@nil Z)) with 0.
      rewrite while_S'. unfold_body body (0, @nil Z, rv). reflexivity.
    - rewrite while_S'. unfold_body body (zlen (b :: t), b :: t, rv).
      rewrite zlen_cons in *. pose proof (zlen_nonneg _ t).
      replace (1 + zlen t =? 0) with false by lia. cbn [negb]. cbv iota.
      change (rd (b :: t) 0) with b. change (skipn 1 (b :: t)) with t.
      rewrite (u64_small (1 + zlen t - 1)) by lia. replace (1 + zlen t - 1) with (zlen t) by lia.
      pose proof (HBd b (or_introl eq_refl)) as Bb. rewrite land128_zero by lia.
      pose proof (cnt128_bounds t).
      cbn [cnt128]. change (length (b :: t)) with (S (length t)). destruct (b <? 128).
      + rewrite (u64_small (rv + 1)) by lia.
        rewrite (IHd (rv + 1)); [f_equal; f_equal; lia | intros x Hx; apply HBd; right; exact Hx | lia | lia].
      + rewrite (IHd rv); [f_equal; f_equal; lia | intros x Hx; apply HBd; right; exact Hx | lia | lia]. }
  pose proof (zlen_nonneg _ data).
  replace (S (Z.to_nat (zlen data))) with (S (length data)) by (unfold zlen; lia).
  rewrite (G data 0 HB ltac:(lia) ltac:(lia)). reflexivity.
Qed.

Lemma cnt128_wfv : forall bs, wfv bs -> (forall b, In b bs -> 0 <= b < 256) -> cnt128 bs = 1.
Proof.
  induction bs as [|b t IH]; intros W HB; [contradiction|].
  cbn [cnt128]. destruct t as [|b1 t'].
  - cbn [wfv] in W. replace (b <? 128) with true by lia. reflexivity.
  - cbn [wfv] in W. destruct W as [W0 W]. replace (b <? 128) with false by lia.
    rewrite IH; [reflexivity | exact W | intros x Hx; apply HB; right; exact Hx].
Qed.

Lemma cnt128_app : forall a b, cnt128 (a ++ b) = cnt128 a + cnt128 b.
Proof. induction a as [|x a IH]; intros b; cbn [app cnt128]; [reflexivity | rewrite IH; lia]. Qed.

(* ---------- the element loops of parse_packed_repeated_member *)
Definition is_varint_type (t : ftype) : bool :=
  match t with
  | TInt32 | TSint32 | TUint32 | TInt64 | TSint64 | TUint64 | TBool | TEnum => true
  | _ => false
  end.

Lemma varint_type_wt : forall t, is_varint_type t = true -> wire_type_of t = WT_VARINT /\ is_scalar t = true.
Proof. intros t H. destruct t; try discriminate H; split; reflexivity. Qed.

Lemma varint_payload : forall t w b, is_varint_type t = true -> e_scalar t w = Ok b ->
  wfv b /\ (length b <= 10)%nat /\ (forall x, In x b -> 0 <= x < 256).
Proof.
  intros t w b Ht He. destruct (varint_type_wt t Ht) as [Hw Hs].
  destruct (scalar_payload_ok t w b Hs He) as (HB & [(_ & W & L) | [(Hw2 & _) | (Hw2 & _)]]).
  - auto.
  - rewrite Hw in Hw2. discriminate Hw2.
  - rewrite Hw in Hw2. discriminate Hw2.
Qed.

Lemma ppv_step : forall k t data, data <> [] ->
  parse_packed_varints (S k) t data =
  (let s := scan_varint (u32 (zlen data)) data in
   if s =? 0 then Err EFail
   else do w <- dec_scalar t WT_VARINT s data;
        do r <- parse_packed_varints k t (skipn (Z.to_nat s) data);
        Ok (VWord w :: r)).
Proof. intros k t data H. destruct data; [congruence | reflexivity]. Qed.

Lemma parse_packed_varints_spec : forall t ws encs fuel,
  is_varint_type t = true ->
  Forall2 (fun w b => canon_word t w = true /\ e_scalar t w = Ok b) ws encs ->
  zlen (concat encs) < 4294967296 -> (length (concat encs) < fuel)%nat ->
  parse_packed_varints fuel t (concat encs) = Ok (map VWord ws).
Proof.
  intros t ws encs fuel Ht H. revert fuel. induction H as [|w b ws encs [Hc He] H IH]; intros fuel Hlen Hf.
  - cbn [concat]. destruct fuel; reflexivity.
  - destruct (varint_type_wt t Ht) as [Hw Hs].
    destruct (varint_payload t w b Ht He) as (W & L & HB).
    cbn [concat] in *.
    assert (Hb1 : (1 <= length b)%nat) by (destruct b; [contradiction | cbn; lia]).
    destruct fuel as [|fuel]; [lia|].
    rewrite ppv_step.
    2:{ intros Edata. apply (f_equal (@length Z)) in Edata. rewrite app_length in Edata. cbn in Edata. lia. }
    cbv zeta. rewrite scan_varint_spec by assumption.
    replace (zlen b =? 0) with false by (unfold zlen; lia).
    pose proof (dec_enc_scalar_rest t w b (concat encs) Hs Hc He) as Hd. rewrite Hw in Hd. rewrite Hd.
    cbn [bind]. assert (Esk : skipn (Z.to_nat (zlen b)) (b ++ concat encs) = concat encs)
      by (unfold zlen; rewrite Nat2Z.id; apply skipn_app_exact).
    rewrite Esk. rewrite IH.
    + reflexivity.
    + rewrite zlen_app in Hlen. pose proof (zlen_nonneg _ b). lia.
    + rewrite app_length in Hf. lia.
Qed.

Lemma parse_packed_fixed_spec : forall t width wt ws encs,
  wire_type_of t = wt -> is_scalar t = true ->
  Forall2 (fun w b => canon_word t w = true /\ e_scalar t w = Ok b /\ length b = width) ws encs ->
  parse_packed_fixed (length ws) width t wt (concat encs) = Ok (map VWord ws).
Proof.
  intros t width wt ws encs Hw Hs H. induction H as [|w b ws encs (Hc & He & Hl) H IH].
  - reflexivity.
  - cbn [length parse_packed_fixed concat map].
    rewrite <- Hl at 2. rewrite firstn_app_exact.
    pose proof (dec_enc_scalar t w b Hs Hc He) as Hd. rewrite Hw in Hd.
    replace (Z.of_nat width) with (zlen b) by (unfold zlen; lia). rewrite Hd. cbn [bind].
    rewrite <- Hl at 2. rewrite skipn_app_exact. rewrite IH. reflexivity.
Qed.

(* ---------- count_packed_elements on a canonical packed payload *)
Definition is_fixed32 (t : ftype) := match t with TSfixed32 | TFixed32 | TFloat => true | _ => false end.
Definition is_fixed64 (t : ftype) := match t with TSfixed64 | TFixed64 | TDouble => true | _ => false end.

Lemma count_fixed32 : forall t len data c0, is_fixed32 t = true ->
  count_packed_elements (type_code t) len data c0 =
  if negb (len mod 4 =? 0) then (0, c0) else (1, len / 4).
Proof. intros t len data c0 H. destruct t; try discriminate H; reflexivity. Qed.
Lemma count_fixed64 : forall t len data c0, is_fixed64 t = true ->
  count_packed_elements (type_code t) len data c0 =
  if negb (len mod 8 =? 0) then (0, c0) else (1, len / 8).
Proof. intros t len data c0 H. destruct t; try discriminate H; reflexivity. Qed.
Lemma count_varint : forall t len data c0, is_varint_type t = true -> t <> TBool ->
  count_packed_elements (type_code t) len data c0 = (1, max_b128_numbers len data).
Proof. intros t len data c0 H Hb. destruct t; try discriminate H; try reflexivity. congruence. Qed.
Lemma count_bool : forall len data c0, count_packed_elements (type_code TBool) len data c0 = (1, len).
Proof. reflexivity. Qed.

Lemma scalar_kinds : forall t, is_scalar t = true -> is_fixed32 t = true \/ is_fixed64 t = true \/ is_varint_type t = true.
Proof. intros t H. destruct t; try discriminate H; auto. Qed.

Lemma concat_cnt128 : forall encs, Forall (fun b => wfv b /\ (forall x, In x b -> 0 <= x < 256)) encs ->
  cnt128 (concat encs) = zlen encs.
Proof.
  induction encs as [|b encs IH]; intros H; [reflexivity|].
  inversion H as [|? ? [W HB] H']; subst. cbn [concat]. rewrite cnt128_app, IH by exact H'.
  rewrite cnt128_wfv by assumption. rewrite zlen_cons. reflexivity.
Qed.

Lemma concat_fixed_len : forall (encs : list (list Z)) w, Forall (fun b => length b = w) encs ->
  zlen (concat encs) = Z.of_nat w * zlen encs.
Proof.
  induction encs as [|b encs IH]; intros w H; [cbn; lia|].
  inversion H as [|? ? Hb H']; subst. cbn [concat]. rewrite zlen_app, (IH _ H'), zlen_cons. unfold zlen. lia.
Qed.

(* the scanner's element count for a canonical packed payload is the number of elements *)
Lemma count_canonical : forall t ws encs,
  is_scalar t = true ->
  Forall2 (fun w b => canon_word t w = true /\ e_scalar t w = Ok b) ws encs ->
  zlen (concat encs) < 4294967296 ->
  count_packed_elements (type_code t) (zlen (concat encs)) (concat encs) 0 = (1, zlen ws).
Proof.
  intros t ws encs Hs H Hlen.
  assert (Hlen2 : zlen ws = zlen encs).
  { unfold zlen. f_equal. clear - H. induction H; cbn; lia. }
  assert (HB : forall x, In x (concat encs) -> 0 <= x < 256).
  { intros x Hx. apply in_concat in Hx. destruct Hx as (b & Hb & Hxb).
    clear - H Hb Hxb Hs. induction H as [|w b0 ws encs [_ He] _ IH]; [contradiction|].
    destruct Hb as [<-|Hb]; [exact (proj1 (scalar_payload_ok t w b0 Hs He) x Hxb) | exact (IH Hb)]. }
  destruct (scalar_kinds t Hs) as [H32 | [H64 | Hv]].
  - rewrite count_fixed32 by exact H32.
    assert (Hall : Forall (fun b => length b = 4%nat) encs).
    { clear - H H32. induction H as [|w b ws encs [_ He] _ IH]; constructor; [|exact IH].
      pose proof (fixed_len t w b He). destruct t; try discriminate H32; unfold zlen in *; lia. }
    rewrite (concat_fixed_len encs 4 Hall). change (Z.of_nat 4) with 4.
    replace (4 * zlen encs mod 4) with 0 by lia. cbn [Z.eqb negb]. f_equal. lia.
  - rewrite count_fixed64 by exact H64.
    assert (Hall : Forall (fun b => length b = 8%nat) encs).
    { clear - H H64. induction H as [|w b ws encs [_ He] _ IH]; constructor; [|exact IH].
      pose proof (fixed_len t w b He). destruct t; try discriminate H64; unfold zlen in *; lia. }
    rewrite (concat_fixed_len encs 8 Hall). change (Z.of_nat 8) with 8.
    replace (8 * zlen encs mod 8) with 0 by lia. cbn [Z.eqb negb]. f_equal. lia.
  - assert (Hall : Forall (fun b => wfv b /\ (forall x, In x b -> 0 <= x < 256)) encs).
    { clear - H Hv. induction H as [|w b ws encs [_ He] _ IH]; constructor; [|exact IH].
      destruct (varint_payload t w b Hv He) as (W & _ & B). auto. }
    destruct (ftype_eqb t TBool) eqn:Eb.
    + assert (t = TBool) by (destruct t; try discriminate Eb; reflexivity). subst t.
      rewrite count_bool. f_equal.
      assert (Hone : Forall (fun b => length b = 1%nat) encs).
      { clear - H. induction H as [|w b ws encs [_ He] _ IH]; constructor; [|exact IH].
        cbn [e_scalar] in He. inversion He. rewrite e_bool_spec. reflexivity. }
      rewrite (concat_fixed_len encs 1 Hone). lia.
    + rewrite count_varint; [|exact Hv | intros ->; discriminate Eb].
      rewrite max_b128_spec by assumption. rewrite concat_cnt128 by exact Hall. f_equal. lia.
Qed.

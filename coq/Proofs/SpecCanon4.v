(* The specification-level parser reads every canonical encoding back, part 4: all the fields, the retained unknown
   fields, the required fields, and the induction over the message tree.  Last statement: [spec_reads_canonical]. *)
From Coq Require Import ZArith List Bool Lia.
From PBC Require Import Base.CInt Spec.Wire Spec.WireMsg Spec.WireRaw Impl.Desc Impl.Mem Impl.Enc Impl.Pack Impl.Unpack Impl.Canon Impl.SpecParse.
From PBC Require Import Impl.WF Impl.Denote.
From PBC Require Proofs.MsgInd Proofs.WholeMsg Proofs.SpecCanon1 Proofs.SpecCanon2 Proofs.SpecCanon3.
Import ListNotations.
Local Open Scope Z_scope.

Module W := Proofs.WholeMsg.
Module C1 := Proofs.SpecCanon1.
Module C2 := Proofs.SpecCanon2.
Module C3 := Proofs.SpecCanon3.

(* ---------------------------------------------------------------- all the known fields, in field order *)
Section Fields.
Variable E : env.
Variable sub : nat -> list Z -> option msg.
Variable N : Z.
Hypothesis HN : N < 2147483648.
Variable md : mdesc.
Variable d : nat.
Variable unions : list (Z * sval).
Hypothesis Hincr : incrb (map f_id (md_fields md)) = true.

Lemma fields_fold : forall nu post_s post_f pre_f pre_s a U unk,
  md_fields md = pre_f ++ post_f -> length pre_s = length pre_f ->
  Forall (W.fgood nu) post_f -> canon_slots (canon_msg E) unions post_f post_s = true ->
  pk_fields (pack_msg E) unions post_f post_s = Ok a -> zlen a <= N ->
  Forall (MsgInd.slot_all (C2.sub_ok E sub N)) post_s ->
  Forall (fun cv : Z * sval => C2.sub_ok E sub N (snd cv)) unions ->
  C3.Uinv unions pre_f U ->
  exists U',
    spec_records E sub md (map C1.to_raw (known_records E unions post_f post_s))
      (Msg d (pre_s ++ map init_slot post_f) U unk) = Some (Msg d (pre_s ++ post_s) U' unk) /\
    C3.Uinv unions (pre_f ++ post_f) U'.
Proof.
  intros nu post_s. induction post_s as [|s ss IH]; intros post_f pre_f pre_s a U unk Hmd Hlen Hg Hc Hp Hz Hsub Hsubu HU.
  - destruct post_f as [|f fs]; [|discriminate Hc]. exists U. split; [reflexivity | rewrite app_nil_r; exact HU].
  - destruct post_f as [|f fs]; [discriminate Hc|].
    rewrite W.canon_slots_cons in Hc. apply andb_true_iff in Hc. destruct Hc as [Hcs Hct].
    rewrite W.pk_fields_cons in Hp.
    destruct (pk_field (pack_msg E) unions f s) as [x|e] eqn:Ex; cbn [bind] in Hp; [|discriminate Hp].
    destruct (pk_fields (pack_msg E) unions fs ss) as [y|e] eqn:Ey; cbn [bind] in Hp; [|discriminate Hp].
    inversion Hp; subst a. clear Hp. rewrite W.zlen_app' in Hz.
    pose proof (W.zlen_nonneg' _ x). pose proof (W.zlen_nonneg' _ y).
    inversion Hg as [|f' fs' Hgf Hgt]; subst.
    inversion Hsub as [|s' ss' Hss Hst]; subst.
    destruct (C3.slot_fold E sub N HN md d unions Hincr nu pre_f f fs pre_s s (map init_slot fs) x U unk
                Hmd Hlen Hgf Hcs Ex ltac:(lia) Hss Hsubu HU) as [U1 [H1 HU1]].
    assert (Hmd' : md_fields md = (pre_f ++ [f]) ++ fs) by (rewrite <- app_assoc; exact Hmd).
    assert (Hlen' : length (pre_s ++ [s]) = length (pre_f ++ [f])) by (rewrite !app_length; cbn [length]; lia).
    destruct (IH fs (pre_f ++ [f]) (pre_s ++ [s]) y U1 unk Hmd' Hlen' Hgt Hct Ey ltac:(lia) Hst Hsubu HU1)
      as [U2 [H2 HU2]].
    exists U2. split.
    + cbn [known_records map]. rewrite map_app, C3.spec_records_app.
      refine (eq_trans (f_equal (fun o => obind o _) H1) _). cbn [obind].
      rewrite <- !app_assoc in H2. exact H2.
    + rewrite <- app_assoc in HU2. exact HU2.
Qed.

(* the retained unknown fields, in order *)
Lemma unk_fold : forall unk acc slots U,
  (forall u, In u unk -> field_index md (u_tag u) = None /\ wt_of (rr_pay (C1.unk_raw u)) = u_wt u) ->
  spec_records E sub md (map C1.unk_raw unk) (Msg d slots U acc) = Some (Msg d slots U (acc ++ unk)).
Proof.
  induction unk as [|u t IH]; intros acc slots U H.
  - rewrite app_nil_r. reflexivity.
  - cbn [map spec_records]. destruct (H u (or_introl eq_refl)) as [Hfi Hwt].
    rewrite (C3.rec_unknown E sub md d (C1.unk_raw u) slots U acc Hfi). cbn [obind]. rewrite Hwt.
    cbn [C1.unk_raw rr_num rr_raw].
    replace {| u_tag := u_tag u; u_wt := u_wt u; u_data := u_data u |} with u by (destruct u; reflexivity).
    rewrite IH by (intros u' Hu'; apply H; right; exact Hu'). rewrite <- app_assoc. reflexivity.
Qed.

End Fields.

(* ---------------------------------------------------------------- every required field occurs *)
Lemma required_known : forall E unions ss fs f, canon_slots (canon_msg E) unions fs ss = true ->
  In f fs -> f_label f = LRequired ->
  exists r, In r (known_records E unions fs ss) /\ fst r = f_id f.
Proof.
  intros E unions ss. induction ss as [|s ss IH]; intros fs f Hc Hin Hl.
  - destruct fs; [destruct Hin | discriminate Hc].
  - destruct fs as [|f0 fs]; [discriminate Hc|].
    rewrite W.canon_slots_cons in Hc. apply andb_true_iff in Hc. destruct Hc as [Hcs Hct].
    cbn [known_records]. destruct Hin as [->|Hin].
    + unfold canon_slot in Hcs. rewrite Hl in Hcs. destruct s as [has v|n cap arr|g]; try discriminate Hcs.
      exists (f_id f, cell_payload E f v). split; [|reflexivity].
      apply in_or_app. left. unfold slot_records. rewrite Hl. left. reflexivity.
    + destruct (IH fs f Hct Hin Hl) as [r [Hr Hf]]. exists r. split; [apply in_or_app; right; exact Hr | exact Hf].
Qed.

Lemma required_ok : forall E md unions slots us, canon_slots (canon_msg E) unions (md_fields md) slots = true ->
  required_present md (map C1.to_raw (known_records E unions (md_fields md) slots) ++ us) = true.
Proof.
  intros E md unions slots us Hc. unfold required_present. apply forallb_forall. intros f Hf.
  destruct (label_eqb (f_label f) LRequired) eqn:El; [|reflexivity]. cbn [negb orb].
  assert (Hl : f_label f = LRequired) by (destruct (f_label f); try discriminate El; reflexivity).
  destruct (required_known E unions slots (md_fields md) f Hc Hf Hl) as [r [Hr Hid]].
  apply existsb_exists. exists (C1.to_raw r). split.
  - apply in_or_app. left. apply in_map. exact Hr.
  - cbn [C1.to_raw rr_num]. rewrite Hid. apply Z.eqb_refl.
Qed.

(* ---------------------------------------------------------------- descriptor facts *)
Lemma desc_ok_incr : forall n md, desc_ok n md = true -> incrb (map f_id (md_fields md)) = true.
Proof.
  intros n md H. unfold desc_ok in H. cbv zeta in H.
  apply andb_true_iff in H. destruct H as [H _].
  apply andb_true_iff in H. destruct H as [H _].
  apply andb_true_iff in H. destruct H as [H _].
  apply andb_true_iff in H. destruct H as [H _].
  apply andb_true_iff in H. destruct H as [H _].
  apply andb_true_iff in H. destruct H as [H _]. exact H.
Qed.

Lemma unk_strict_eq : forall d slots unions unk,
  unk_strict (Msg d slots unions unk) =
  forallb (fun s : slot => match s with
                           | SOne _ v => sval_strict unk_strict v
                           | SRep _ _ (Some l) => forallb (sval_strict unk_strict) l
                           | _ => true
                           end) slots &&
  forallb (fun cv : Z * sval => sval_strict unk_strict (snd cv)) unions &&
  forallb ufield_strict unk.
Proof. reflexivity. Qed.

(* ---------------------------------------------------------------- the message tree *)
Definition P (E : env) (m : msg) : Prop :=
  forall b fuel, canon_msg E m = true -> unk_strict m = true -> pack_msg E m = Ok b -> zlen b <= 268435425 ->
  (length b < fuel)%nat -> spec_parse E fuel (m_desc m) b = Some m.

Definition Q (E : env) (v : sval) : Prop := match v with VMsg (Some m) => P E m | _ => True end.

Lemma Q_sub_ok : forall E k N v, N <= 268435425 -> (forall b' : list Z, zlen b' < N -> (length b' < k)%nat) ->
  Q E v -> sval_strict unk_strict v = true -> C2.sub_ok E (spec_parse E k) N v.
Proof.
  intros E k N v HN Hk HQ Hs. destruct v as [w|p|n p|[m'|]]; try exact I.
  cbn [C2.sub_ok]. intros Hcm b' Hp' Hlt. cbn [Q] in HQ. cbn [sval_strict] in Hs.
  apply (HQ b' k Hcm Hs Hp'); [lia | apply Hk; exact Hlt].
Qed.

Theorem spec_reads_all : forall E, env_ok E = true -> forall m, P E m.
Proof.
  intros E HE. apply (MsgInd.msg_ind2 (P E) (Q E)); try (intros; exact I).
  - intros m Hm. exact Hm.
  - intros d slots unions unk Hslots Hunions b fuel Hc Hst Hp Hz Hf.
    destruct fuel as [|k]; [lia|]. cbn [m_desc].
    pose proof Hc as Hc0. rewrite W.canon_msg_eq in Hc.
    destruct (nth_error E d) as [md|] eqn:Ed; [|discriminate Hc].
    pose proof (C1.desc_of_env _ _ _ HE Ed) as Hd.
    apply andb_true_iff in Hc. destruct Hc as [Hc Hunk].
    apply andb_true_iff in Hc. destruct Hc as [Hc Hcu].
    apply andb_true_iff in Hc. destruct Hc as [Hnu Hcs]. apply Nat.eqb_eq in Hnu.
    rewrite unk_strict_eq in Hst.
    apply andb_true_iff in Hst. destruct Hst as [Hst Hstk].
    apply andb_true_iff in Hst. destruct Hst as [Hsts Hstu].
    cbn [spec_parse]. rewrite Ed.
    rewrite (C1.pack_raw_reads E d md slots unions unk b HE Ed Hc0 Hstk Hp ltac:(lia)).
    rewrite (required_ok E md unions slots _ Hcs).
    rewrite W.pack_msg_eq in Hp. rewrite Ed in Hp.
    destruct (pk_fields (pack_msg E) unions (md_fields md) slots) as [a|e] eqn:Ea; cbn [bind] in Hp; [|discriminate Hp].
    inversion Hp as [Hb]. clear Hp.
    assert (Hza : zlen a <= zlen b).
    { rewrite <- Hb. rewrite W.zlen_app'. pose proof (W.zlen_nonneg' _ (concat (map pk_unknown unk))). lia. }
    assert (HN : zlen b < 2147483648) by lia.
    assert (Hk : forall b' : list Z, zlen b' < zlen b -> (length b' < k)%nat) by (intros b'; unfold zlen; lia).
    assert (Hsub : Forall (MsgInd.slot_all (C2.sub_ok E (spec_parse E k) (zlen b))) slots).
    { rewrite Forall_forall in *. rewrite forallb_forall in Hsts. intros s Hs.
      specialize (Hslots s Hs). specialize (Hsts s Hs).
      destruct s as [h v|n cap [l|]|g]; cbn [MsgInd.slot_all] in *; try exact I.
      - apply Q_sub_ok; assumption.
      - rewrite Forall_forall in *. rewrite forallb_forall in Hsts. intros v Hv.
        apply Q_sub_ok; [assumption | assumption | apply Hslots; exact Hv | apply Hsts; exact Hv]. }
    assert (Hsubu : Forall (fun cv : Z * sval => C2.sub_ok E (spec_parse E k) (zlen b) (snd cv)) unions).
    { rewrite Forall_forall in *. rewrite forallb_forall in Hstu. intros cv Hcv.
      apply Q_sub_ok; [assumption | assumption | apply Hunions; exact Hcv | apply Hstu; exact Hcv]. }
    unfold init_msg. rewrite C3.spec_records_app.
    pose proof (C3.Uinv_init unions) as HU0. rewrite Hnu in HU0.
    destruct (fields_fold E (spec_parse E k) (zlen b) HN md d unions (desc_ok_incr _ _ Hd) (md_n_oneofs md)
                slots (md_fields md) [] [] a (repeat (0, VWord 0) (md_n_oneofs md)) []
                eq_refl eq_refl (W.desc_ok_fgood _ _ Hd) Hcs Ea Hza Hsub Hsubu HU0) as [U' [H1 HU']].
    cbn [app] in H1, HU'.
    refine (eq_trans (f_equal (fun o => obind o _) H1) _). cbn [obind].
    rewrite (C3.Uinv_final _ _ _ Hcu HU').
    rewrite (unk_fold E (spec_parse E k) md d unk [] slots unions); [reflexivity|].
    intros u Hu. rewrite forallb_forall in Hunk, Hstk.
    pose proof (Hunk u Hu) as Hcu1. pose proof (Hstk u Hu) as Hsu1.
    split; [|apply (proj2 (C1.unk_rchunk _ u Hcu1 Hsu1))].
    unfold canon_unk in Hcu1.
    apply andb_true_iff in Hcu1. destruct Hcu1 as [Hcu1 _].
    apply andb_true_iff in Hcu1. destruct Hcu1 as [_ Hnot]. apply negb_true_iff in Hnot.
    unfold field_index. apply C3.field_index_from_none. exact Hnot.
Qed.

(* the specification-level reading of the bytes protobuf_c_message_pack writes for a canonical message is that message *)
Theorem spec_reads_canonical : forall (E : env) (m : msg) (b : list Z),
  env_ok E = true -> canon_msg E m = true -> unk_strict m = true ->
  pack_msg E m = Ok b -> zlen b <= 268435425 ->
  spec_parse_top E (m_desc m) b = Some m.
Proof.
  intros E m b HE Hc Hst Hp Hz. unfold spec_parse_top.
  apply (spec_reads_all E HE m b (S (length b)) Hc Hst Hp Hz). lia.
Qed.
Print Assumptions spec_reads_canonical.

(* protobuf_c_message_get_packed_size and its helpers (protobuf-c.c 402-754). *)
From Coq Require Import ZArith List Bool.
From PBC Require Import Base.CInt Gen.LeafC Impl.Desc Impl.Mem Impl.Enc.
Import ListNotations.
Local Open Scope Z_scope.

Section Size.
Variable E : env.

(* required_field_get_packed_size, given the recursive size function *)
Definition sz_required (rec : msg -> res Z) (f : field) (v : sval) : res Z :=
  let rv := get_tag_size (f_id f) in
  match f_type f with
  | TString =>
      do p <- as_str v;
      do s <- str_bytes f p;
      let len := match s with None => 0 | Some b => zlen b end in
      Ok (rv + uint32_size (u32 len) + len)
  | TBytes =>
      do lp <- as_bytes v;
      let len := fst lp in
      Ok (rv + uint32_size (u32 len) + len)
  | TMessage =>
      do subrv <- match v with
                  | VMsg (Some sub) => rec sub
                  | VMsg None | VWord 0 => Ok 0
                  | _ => Err EConfused
                  end;
      Ok (rv + uint32_size (u32 subrv) + subrv)
  | t =>
      do w <- as_word v;
      do n <- sz_scalar t w;
      Ok (rv + n)
  end.

Definition sz_oneof rec (f : field) (case : Z) (v : sval) : res Z :=
  if negb (case =? f_id f) then Ok 0
  else do a <- ptr_absent f v;
       if a then Ok 0 else sz_required rec f v.

Definition sz_optional rec (f : field) (has : Z) (v : sval) : res Z :=
  match f_type f with
  | TMessage | TString =>
      do a <- ptr_absent f v;
      if a then Ok 0 else sz_required rec f v
  | _ => if has =? 0 then Ok 0 else sz_required rec f v
  end.

Definition sz_unlabeled rec (f : field) (v : sval) : res Z :=
  do z <- zeroish f v;
  if z then Ok 0 else sz_required rec f v.

(* the per-element contribution in repeated_field_get_packed_size *)
Definition sz_elem rec (f : field) (v : sval) : res Z :=
  match f_type f with
  | TString =>
      do p <- as_str v;
      do s <- str_bytes f p;
      match s with
      | None => Err ENull                  (* strlen(NULL) *)
      | Some b => Ok (uint32_size (u32 (zlen b)) + zlen b)
      end
  | TBytes => do lp <- as_bytes v; Ok (uint32_size (u32 (fst lp)) + fst lp)
  | TMessage =>
      match v with
      | VMsg (Some sub) => do len <- rec sub; Ok (uint32_size (u32 len) + len)
      | VMsg None | VWord 0 => Err ENull   (* ASSERT_IS_MESSAGE(NULL) *)
      | _ => Err EConfused
      end
  | t => do w <- as_word v; sz_scalar t w
  end.

(* the switch of repeated_field_get_packed_size: total size of the elements *)
Definition sz_rep_payload rec (f : field) (count : Z) (arr : option (list sval)) : res Z :=
  match f_type f with
  | TSfixed32 | TFixed32 | TFloat => Ok (4 * count)
  | TSfixed64 | TFixed64 | TDouble => Ok (8 * count)
  | TBool => Ok count
  | _ => match arr with
         | None => Err ENull
         | Some l => sumM_n (sz_elem rec f) l (Z.to_nat count)
         end
  end.

Definition sz_repeated rec (f : field) (count : Z) (arr : option (list sval)) : res Z :=
  if count =? 0 then Ok 0
  else
    let header_size := get_tag_size (f_id f) in
    let header_size := if f_packed f then header_size else header_size * count in
    do rv <- sz_rep_payload rec f count arr;
    let header_size := if f_packed f then header_size + uint32_size (u32 rv) else header_size in
    Ok (header_size + rv).

Definition sz_unknown (u : ufield) : Z := get_tag_size (u_tag u) + zlen (u_data u).

(* the dispatch in the main loop, for one field and its slot *)
Definition sz_field rec (unions : list (Z * sval)) (f : field) (s : slot) : res Z :=
  match f_label f with
  | LRequired => match s with SOne _ v => sz_required rec f v | _ => Err EDesc end
  | LOptional | LNone =>
      if f_oneof f then
        match s with
        | SUnion g => with_nth (fun cv : Z * sval => sz_oneof rec f (fst cv) (snd cv)) (Err EDesc) unions g
        | _ => Err EDesc
        end
      else match s with
           | SOne has v =>
               match f_label f with
               | LOptional => sz_optional rec f has v
               | _ => sz_unlabeled rec f v
               end
           | _ => Err EDesc
           end
  | LRepeated => match s with SRep n _ arr => sz_repeated rec f n arr | _ => Err EDesc end
  end.

Definition sz_fields rec unions : list field -> list slot -> res Z :=
  fix go (fs : list field) (ss : list slot) {struct ss} : res Z :=
    match fs, ss with
    | [], _ => Ok 0
    | f :: fs', s :: ss' =>
        do a <- sz_field rec unions f s;
        do b <- go fs' ss';
        Ok (a + b)
    | _ :: _, [] => Err EDesc
    end.

Fixpoint size_msg (m : msg) : res Z :=
  match m with
  | Msg d slots unions unk =>
      match nth_error E d with
      | None => Err EDesc
      | Some md =>
          do a <- sz_fields size_msg unions (md_fields md) slots;
          Ok (a + fold_right (fun u acc => sz_unknown u + acc) 0 unk)
      end
  end.

End Size.

(* The per-field package: for a canonical slot, the bytes pack writes are a
   run of well-formed records, the scanner counts the right number of elements,
   and parsing the records into the initialised slot gives the slot back. *)
From Coq Require Import ZArith List Bool Lia ZifyBool.
From PBC Require Import Base.CInt Base.Bits Base.Bits2 Gen.LeafC Spec.Wire
     Impl.Desc Impl.Mem Impl.Enc Impl.Pack Impl.WF Impl.Unpack Impl.Canon
     Proofs.LeafEnc Proofs.EncLemmas Proofs.LeafDec Proofs.SizePack Proofs.SizePackRep Proofs.SizePackFinal
     Proofs.ScanRec Proofs.ScanRecs Proofs.CellRT Proofs.CellRT2 Proofs.PackedDec Proofs.FieldRT Proofs.FieldRT2 Proofs.MsgInd.
Import ListNotations.
Local Open Scope Z_scope.

Definition slot_n (s : slot) : Z := match s with SRep n _ _ => n | _ => 0 end.

Lemma shallow_eq : forall a b, sval_eqb_shallow a b = true -> a = b.
Proof.
  intros a b H. destruct a as [x|[| |]|n [| |]|[|]], b as [y|[| |]|k [| |]|[|]]; cbn in H; try discriminate H;
    try reflexivity; apply Z.eqb_eq in H; subst; reflexivity.
Qed.

Section Pkg.
Variable E : env.
Variable usub : nat -> list Z -> res msg.
Variable md : mdesc.
Variable lim : Z.
Hypothesis Hlim : lim <= 2147483647.

Definition fpkg_with (recs : list wrec) (i : nat) (f : field) (s : slot) (um : list (Z * sval)) (F : list Z) : Prop :=
    F = concat (map (rec_bytes (f_id f)) recs) /\ Forall rec_ok recs /\
    (f_label f = LRepeated -> exists cs, Forall2 (rec_cnt f) recs cs /\ fold_right Z.add 0 cs = slot_n s) /\
    (f_label f = LRequired -> recs <> []) /\
    (forall g, s = SUnion g -> (recs <> [] <-> fst (nth g um (0, VWord 0)) = f_id f)) /\
    forall d slots unions unk,
      nth_error slots i = Some (alloc_init f s) ->
      (forall g, s = SUnion g -> recs <> [] -> nth_error unions g = Some (0, VWord 0)) ->
      parse_members E usub md (members_of f i recs) (Msg d slots unions unk) =
      Ok (Msg d (set_nth slots i s)
              (match s, recs with
               | SUnion g, _ :: _ => set_nth unions g (nth g um (0, VWord 0))
               | _, _ => unions
               end) unk).

Definition fpkg (i : nat) (f : field) (s : slot) (um : list (Z * sval)) (F : list Z) : Prop :=
  exists recs, fpkg_with recs i f s um F.

(* nothing written: the slot must be the initial one *)
Lemma fpkg_absent : forall i f s um, s = alloc_init f s -> f_label f <> LRequired ->
  (f_label f = LRepeated -> slot_n s = 0) ->
  (forall g, s = SUnion g -> fst (nth g um (0, VWord 0)) <> f_id f) -> fpkg i f s um [].
Proof.
  intros i f s um Hs Hr Hn Hu. exists []. split; [reflexivity|]. split; [constructor|]. split; [|split; [|split]].
  - intros El. exists []. split; [constructor | cbn; symmetry; auto].
  - intros El. contradiction.
  - intros g Hg. split; [intros H; exfalso; apply H; reflexivity | intros H; exfalso; exact (Hu g Hg H)].
  - intros d slots unions unk Hslot _. cbn [members_of map parse_members].
    rewrite <- Hs in Hslot. rewrite (set_nth_same _ slots i s Hslot).
    destruct s; reflexivity.
Qed.

(* one record, from the cell lemma *)
Lemma fpkg_single : forall i f h v um F,
  nth_error (md_fields md) i = Some f ->
  f_oneof f = false -> label_eqb (f_label f) LRepeated = false ->
  cell_rt E usub lim f v ->
  pk_required (pack_msg E) f v = Ok F -> zlen F <= lim ->
  h = match f_label f with LRequired => 0 | _ => match f_quant f with QNone => 0 | _ => 1 end end ->
  fpkg i f (SOne h v) um F.
Proof.
  intros i f h v um F Hn Ho Hrep Hcell Hpk Hlen Hh.
  destruct (Hcell F Hpk Hlen) as (payload & pref & HF & Hpo & Hparse).
  exists [(wire_type_of (f_type f), payload, pref)].
  split; [cbn [map concat]; unfold rec_bytes; cbn [r_wt r_payload fst snd]; rewrite app_nil_r; exact HF|].
  split; [constructor; [|constructor]; split; [apply wt_range | exact Hpo]|].
  split; [|split; [|split]].
  - intros El. rewrite El in Hrep. discriminate Hrep.
  - intros _. discriminate.
  - intros g Hg. discriminate Hg.
  - intros d slots unions unk Hslot _. cbn [members_of map parse_members alloc_init] in *.
    rewrite (parse_single E usub md f i v (wire_type_of (f_type f), payload, pref) d slots unions unk 0 Hn Ho Hrep Hslot eq_refl).
    + cbn [bind]. rewrite Hh. destruct (f_label f); reflexivity.
    + exact Hparse.
Qed.

Lemma fpkg_oneof : forall i f g v um F,
  nth_error (md_fields md) i = Some f ->
  f_oneof f = true -> (f_label f = LOptional \/ f_label f = LNone) ->
  cell_rt E usub lim f v -> nth_error um g = Some (f_id f, v) ->
  pk_required (pack_msg E) f v = Ok F -> zlen F <= lim ->
  fpkg i f (SUnion g) um F.
Proof.
  intros i f g v um F Hn Ho Hl Hcell Hum Hpk Hlen.
  destruct (Hcell F Hpk Hlen) as (payload & pref & HF & Hpo & Hparse).
  exists [(wire_type_of (f_type f), payload, pref)].
  split; [cbn [map concat]; unfold rec_bytes; cbn [r_wt r_payload fst snd]; rewrite app_nil_r; exact HF|].
  split; [constructor; [|constructor]; split; [apply wt_range | exact Hpo]|].
  split; [|split; [|split]].
  - intros El. destruct Hl as [Hl|Hl]; rewrite Hl in El; discriminate El.
  - intros El. destruct Hl as [Hl|Hl]; rewrite Hl in El; discriminate El.
  - intros g0 Hg. inversion Hg; subst g0. rewrite (nth_error_nth um g (0, VWord 0) Hum). cbn [fst].
    split; [reflexivity | discriminate].
  - intros d slots unions unk Hslot Hu. cbn [members_of map parse_members alloc_init] in *.
    rewrite (parse_oneof E usub md f i g v (wire_type_of (f_type f), payload, pref) d slots unions unk Hn Ho Hl Hslot
               (Hu g eq_refl ltac:(discriminate)) eq_refl Hparse).
    cbn [bind]. rewrite (set_nth_same _ slots i (SUnion g) Hslot).
    rewrite (nth_error_nth um g (0, VWord 0) Hum). reflexivity.
Qed.

Lemma unpacked_arrival : forall f, f_packed f = false ->
  packed_arrival f (wire_type_of (f_type f)) = false.
Proof.
  intros f Hp. unfold packed_arrival. rewrite Hp. destruct (f_type f); vm_compute; reflexivity.
Qed.

Lemma concatM_n_split : forall (g : sval -> res (list Z)) l n F,
  concatM_n g l n = Ok F -> (n <= length l)%nat ->
  exists bs, Forall2 (fun v b => g v = Ok b) (firstn n l) bs /\ F = concat bs.
Proof.
  intros g l. induction l as [|v l IH]; intros n F H Hn.
  - destruct n; [|cbn in Hn; lia]. cbn in H. inversion H. exists []. split; [constructor | reflexivity].
  - destruct n as [|n]; [cbn in H; inversion H; exists []; split; [constructor | reflexivity]|].
    cbn [concatM_n] in H. fold (concatM_n g) in H.
    destruct (g v) as [b|e] eqn:Eg; [|discriminate H]. cbn [bind] in H.
    destruct (concatM_n g l n) as [bs'|e] eqn:Er; [|discriminate H]. cbn [bind] in H. inversion H; subst F.
    destruct (IH n bs' Er ltac:(cbn in Hn; lia)) as (bs & HF & ->).
    exists (b :: bs). split; [cbn [firstn]; constructor; assumption | reflexivity].
Qed.

Lemma fpkg_unpacked : forall i f l um F,
  nth_error (md_fields md) i = Some f ->
  f_label f = LRepeated -> f_packed f = false -> l <> [] -> zlen l < 268435456 ->
  Forall (cell_rt E usub lim f) l ->
  pk_repeated (pack_msg E) f (zlen l) (Some l) = Ok F -> zlen F <= lim ->
  fpkg i f (SRep (zlen l) (zlen l) (Some l)) um F.
Proof.
  intros i f l um F Hn El Hp Hne Hln Hcells Hpk Hlen.
  assert (Hz : zlen l <> 0) by (destruct l; [congruence | rewrite zlen_cons; pose proof (zlen_nonneg _ l); lia]).
  unfold pk_repeated in Hpk. rewrite Hp in Hpk. replace (zlen l =? 0) with false in Hpk by lia.
  replace (Z.to_nat (zlen l)) with (length l) in Hpk by (unfold zlen; lia).
  destruct (concatM_n_split _ l (length l) F Hpk ltac:(lia)) as (bs & Hbs & HF).
  rewrite firstn_all in Hbs.
  (* per element: one record *)
  assert (Hrecs : exists recs, Forall2 (fun b r => b = rec_bytes (f_id f) r) bs recs /\
            Forall rec_ok recs /\
            Forall (fun r => r_wt r = wire_type_of (f_type f) /\ packed_arrival f (r_wt r) = false) recs /\
            Forall2 (fun r v => forall i0 old mc, (mc = true -> f_type f = TMessage -> as_msg old = Ok None) ->
                       parse_required E usub f (new_member (f_id f) (wire_type_of (f_type f)) (Some i0) (r_payload r) (r_pref r)) old mc = Ok v)
                    recs l).
  { assert (Hsub : forall b, In b bs -> zlen b <= lim).
    { intros b Hb. subst F. clear - Hb Hlen. induction bs as [|x bs IH]; [contradiction|].
      cbn [concat] in Hlen. rewrite zlen_app in Hlen. pose proof (zlen_nonneg _ x). pose proof (zlen_nonneg _ (concat bs)).
      destruct Hb as [<-|Hb]; [lia | apply IH; [lia | exact Hb]]. }
    clear Hpk HF Hlen Hne Hln Hz. induction Hbs as [|v b l' bs' Hvb Hbs IH].
    - exists []. repeat split; constructor.
    - inversion Hcells as [|? ? Hc Hcs]; subst.
      destruct IH as (recs & R1 & R2 & R3 & R4); [exact Hcs | intros x Hx; apply Hsub; right; exact Hx|].
      destruct (Hc b Hvb (Hsub b (or_introl eq_refl))) as (payload & pref & Hb & Hpo & Hparse).
      exists ((wire_type_of (f_type f), payload, pref) :: recs).
      split; [constructor; [exact Hb | exact R1]|].
      split; [constructor; [split; [apply wt_range | exact Hpo] | exact R2]|].
      split; [constructor; [split; [reflexivity | apply unpacked_arrival; exact Hp] | exact R3]|].
      constructor; [exact Hparse | exact R4]. }
  destruct Hrecs as (recs & R1 & R2 & R3 & R4).
  exists recs. split.
  { subst F. f_equal. clear - R1. induction R1 as [|b r bs recs Hb _ IH]; [reflexivity|]. cbn [map]. rewrite Hb, IH. reflexivity. }
  split; [exact R2|]. split; [|split; [|split]].
  - intros _. exists (map (fun _ => 1) recs). split.
    + clear - R3. induction R3 as [|r recs [_ Hpa] _ IH]; [constructor|]. cbn [map]. constructor; [|exact IH].
      unfold rec_cnt. rewrite Hpa. split; [lia | reflexivity].
    + cbn [slot_n]. assert (Hl : length recs = length l) by (clear - R4; induction R4; cbn; lia).
      unfold zlen. rewrite <- Hl. clear. induction recs as [|r recs IH]; [reflexivity|]. cbn [map fold_right length]. lia.
  - intros Er. rewrite El in Er. discriminate Er.
  - intros g Hg. discriminate Hg.
  - intros d slots unions unk Hslot _. cbn [alloc_init] in Hslot.
    replace (zlen l =? 0) with false in Hslot by lia. pose proof (zlen_nonneg _ l). rewrite (u32_small (zlen l)) in Hslot by lia.
    rewrite (parse_unpacked E usub md f i recs l d slots unions unk 0 (zlen l) [] Hn El R3 R4 Hslot ltac:(lia)).
    rewrite Z.add_0_l. cbn [app]. reflexivity.
Qed.

Lemma fpkg_packed : forall i f ws um F,
  nth_error (md_fields md) i = Some f ->
  f_label f = LRepeated -> f_packed f = true -> is_scalar (f_type f) = true ->
  ws <> [] -> zlen ws < 268435456 -> Forall (fun w => canon_word (f_type f) w = true) ws ->
  0 < f_id f < 536870912 ->
  pk_repeated (pack_msg E) f (zlen ws) (Some (map VWord ws)) = Ok F -> zlen F <= lim ->
  fpkg i f (SRep (zlen ws) (zlen ws) (Some (map VWord ws))) um F.
Proof.
  intros i f ws um F Hn El Hp Hs Hne Hln Hws Hid Hpk Hlen.
  destruct (packed_field_rt E usub md f i ws F Hn El Hp Hs Hne Hws Hid Hpk ltac:(lia)) as (r & HF & Hok & Hcnt & Hparse).
  exists [r]. split; [cbn [map concat]; rewrite app_nil_r; exact HF|].
  split; [constructor; [exact Hok | constructor]|]. split; [|split; [|split]].
  - intros _. exists [zlen ws]. split; [constructor; [exact Hcnt | constructor] | cbn; lia].
  - intros Er. rewrite El in Er. discriminate Er.
  - intros g Hg. discriminate Hg.
  - intros d slots unions unk Hslot _. cbn [alloc_init] in Hslot.
    assert (Hz : zlen ws <> 0) by (destruct ws; [congruence | rewrite zlen_cons; pose proof (zlen_nonneg _ ws); lia]).
    replace (zlen ws =? 0) with false in Hslot by lia. pose proof (zlen_nonneg _ ws).
    rewrite (u32_small (zlen ws)) in Hslot by lia.
    cbn [members_of map parse_members].
    rewrite (Hparse d slots unions unk (zlen ws) Hslot ltac:(lia)). reflexivity.
Qed.

End Pkg.

(* The allocation discipline of the parser (C07 / C08, parser part): protobuf_c_message_unpack, as modelled in
   Impl/Heap.v (h_unpack), satisfies spec_unpack for every fuel, every refusal plan, every input of bytes shorter
   than 2^31 and every environment the generator can emit, GIVEN the specifications of free_unpacked (spec_free)
   and merge_messages (spec_merge).  What is tracked: the message block, the required-fields bitmap, the
   ScannedMember slabs, the arrays of repeated fields, the unknown-field table and data, strings, bytes,
   sub-messages (nested unpack: induction on fuel), the oneof clearing logic and the two error exits. *)
From Coq Require Import ZArith List Bool Permutation Lia ZifyBool.
From PBC Require Import Base.CInt Base.Bits Gen.LeafC Impl.Desc Impl.Mem Impl.Enc Impl.WF Impl.Unpack Impl.Canon
     Impl.Heap Impl.HeapInv Proofs.HeapLib
     Proofs.ScanRec Proofs.LeafSafe Proofs.ScanInv Proofs.Required Proofs.MsgRT4 Proofs.ScanRecs
     Proofs.ScanCount Proofs.PackedDec Proofs.PackedCount Proofs.MergeSafe Proofs.TagRange Proofs.ParseSafe
     Proofs.Reorder Proofs.Records.
Import ListNotations.
Local Open Scope Z_scope.

Ltac Zify.zify_post_hook ::= Z.div_mod_to_equations.

(* ====================================================================== permutations by counting *)

Definition cnt (z : nat) (l : list nat) : nat := count_occ Nat.eq_dec l z.
Definition cnt1 (z a : nat) : nat := if Nat.eq_dec a z then 1%nat else 0%nat.

Lemma cnt_nil : forall z, cnt z [] = 0%nat.
Proof. reflexivity. Qed.
Lemma cnt_cons : forall z a l, cnt z (a :: l) = (cnt1 z a + cnt z l)%nat.
Proof. intros z a l. unfold cnt, cnt1. cbn [count_occ]. destruct (Nat.eq_dec a z); reflexivity. Qed.
Lemma cnt_app : forall z a b, cnt z (a ++ b) = (cnt z a + cnt z b)%nat.
Proof. intros z a b. unfold cnt. apply count_occ_app. Qed.
Lemma perm_cnt : forall a b, Permutation a b -> forall z, cnt z a = cnt z b.
Proof. intros a b H z. unfold cnt. apply (proj1 (Permutation_count_occ Nat.eq_dec a b) H). Qed.
Lemma cnt_perm : forall a b, (forall z, cnt z a = cnt z b) -> Permutation a b.
Proof. intros a b H. apply (proj2 (Permutation_count_occ Nat.eq_dec a b)). intros z. exact (H z). Qed.

Global Hint Rewrite cnt_app cnt_cons cnt_nil : cntdb.

Ltac perm_core :=
  unfold hslot in *; apply cnt_perm; let z := fresh "z" in intro z;
  repeat match goal with
  | H : Permutation ?a ?b |- _ =>
      lazymatch goal with
      | _ : cnt z a = cnt z b |- _ => fail
      | _ => pose proof (perm_cnt a b H z)
      end
  end;
  autorewrite with cntdb in *; lia.

Ltac perm := cbn [opt_list ptr_list owned_slot owned_val fst snd] in *; perm_core.

(* ====================================================================== Hoare helpers *)

Lemma hoare_pure_pre : forall (X : Type) (c : A X) (F : Prop) (P : list nat -> Prop) (Q : X -> list nat -> Prop),
  (F -> hoare P c Q) -> hoare (fun L => F /\ P L) c Q.
Proof.
  intros X c F P Q H. apply hoare_assume. intros L [HF _] _.
  eapply hoare_pre; [exact (H HF)|]. intros L' [_ HP]. exact HP.
Qed.

Lemma hoare_ex_pre : forall (X Y : Type) (c : A X) (P : Y -> list nat -> Prop) (Q : X -> list nat -> Prop),
  (forall y, hoare (P y) c Q) -> hoare (fun L => exists y, P y L) c Q.
Proof. intros X Y c P Q H s L HL [y HP]. exact (H y s L HL HP). Qed.

(* the usual shape: live set = X before, a pure fact about the result and live set = Y r after *)
Definition triple {X : Type} (F : list nat) (c : A X) (Phi : X -> Prop) (G : X -> list nat) : Prop :=
  hoare (fun L => Permutation L F) c (fun r L' => Phi r /\ Permutation L' (G r)).

Lemma triple_bnd : forall (X Y : Type) (F : list nat) (c : A X) (Phi : X -> Prop) (G : X -> list nat)
    (k : X -> A Y) (Q : Y -> list nat -> Prop),
  triple F c Phi G ->
  (forall r, Phi r -> hoare (fun L => Permutation L (G r)) (k r) Q) ->
  hoare (fun L => Permutation L F) (bnd c k) Q.
Proof.
  intros X Y F c Phi G k Q Hc Hk. eapply hoare_bnd; [exact Hc|].
  intros r. cbv beta. apply hoare_pure_pre. intros HPhi. exact (Hk r HPhi).
Qed.

Lemma hoare_perm_pre : forall (X : Type) (c : A X) (F F' : list nat) (Q : X -> list nat -> Prop),
  hoare (fun L => Permutation L F') c Q -> Permutation F F' -> hoare (fun L => Permutation L F) c Q.
Proof.
  intros X c F F' Q H HP. eapply hoare_pre; [exact H|]. intros L HL. eapply Permutation_trans; eassumption.
Qed.

Lemma triple_perm_pre : forall (X : Type) (c : A X) (F F' : list nat) Phi G,
  triple F' c Phi G -> Permutation F F' -> triple F c Phi G.
Proof. intros X c F F' Phi G H HP. unfold triple in *. eapply hoare_perm_pre; eassumption. Qed.

Lemma triple_ret : forall (X : Type) (x : X) (F : list nat) (Phi : X -> Prop) (G : X -> list nat),
  Phi x -> Permutation F (G x) -> triple F (ret x) Phi G.
Proof.
  intros X x F Phi G HPhi HP. unfold triple. apply hoare_ret. intros L HL. split; [exact HPhi|].
  eapply Permutation_trans; eassumption.
Qed.

Lemma triple_post : forall (X : Type) (c : A X) (F : list nat) (Phi Phi' : X -> Prop) (G G' : X -> list nat),
  triple F c Phi' G' -> (forall r, Phi' r -> Phi r /\ Permutation (G' r) (G r)) -> triple F c Phi G.
Proof.
  intros X c F Phi Phi' G G' H HI. unfold triple in *. eapply hoare_post; [exact H|].
  intros r L [H1 H2]. destruct (HI r H1) as [H3 H4]. split; [exact H3|]. eapply Permutation_trans; eassumption.
Qed.

(* a triple as the last step of a triple *)
Lemma triple_bnd_t : forall (X Y : Type) (F : list nat) (c : A X) (Phi : X -> Prop) (G : X -> list nat)
    (k : X -> A Y) (Psi : Y -> Prop) (G2 : Y -> list nat),
  triple F c Phi G -> (forall r, Phi r -> triple (G r) (k r) Psi G2) -> triple F (bnd c k) Psi G2.
Proof. intros X Y F c Phi G k Psi G2 Hc Hk. unfold triple. eapply triple_bnd; [exact Hc|]. exact Hk. Qed.

(* primitives as triples *)
Lemma triple_alloc : forall plan sz F,
  triple F (alloc plan sz) (fun _ => True) (fun o => opt_list o ++ F).
Proof.
  intros plan sz F. unfold triple. eapply hoare_post; [apply hoare_alloc_perm|].
  intros [k|] L H; cbn [opt_list app]; [destruct H as [H _]|]; split; auto.
Qed.

Lemma triple_free_id : forall i F F', Permutation F (i :: F') ->
  triple F (free_id i) (fun _ => True) (fun _ => F').
Proof.
  intros i F F' HP. unfold triple. eapply hoare_perm_pre; [|exact HP].
  eapply hoare_post; [apply hoare_free_id|]. intros u L H. split; [exact I | exact H].
Qed.

Lemma triple_free_opt : forall o F F', Permutation F (opt_list o ++ F') ->
  triple F (free_opt o) (fun _ => True) (fun _ => F').
Proof.
  intros o F F' HP. unfold triple. eapply hoare_perm_pre; [|exact HP].
  eapply hoare_post; [apply hoare_free_opt|]. intros u L H. split; [exact I | exact H].
Qed.

Lemma triple_free_if_owned : forall f p F F', (p = PDef -> has_default f = true) ->
  Permutation F (ptr_list p ++ F') ->
  triple F (free_if_owned f p) (fun _ => True) (fun _ => F').
Proof.
  intros f p F F' Hp HP. unfold triple. eapply hoare_perm_pre; [|exact HP].
  eapply hoare_post; [apply hoare_free_if_owned; exact Hp|]. intros u L H. split; [exact I | exact H].
Qed.

Lemma triple_iter_free_id : forall ids F F', Permutation F (ids ++ F') ->
  triple F (iterA free_id ids) (fun _ => True) (fun _ => F').
Proof.
  intros ids F F' HP. unfold triple. eapply hoare_perm_pre; [|exact HP].
  eapply hoare_post; [apply hoare_iterA_free_id|]. intros u L H. split; [exact I | exact H].
Qed.

(* ====================================================================== lists *)

Lemma flat_map_set_nth : forall (T : Type) (g : T -> list nat) (l : list T) i s,
  nth_error l i = Some s ->
  exists X, Permutation (flat_map g l) (g s ++ X) /\
            forall s', Permutation (flat_map g (set_nth l i s')) (g s' ++ X).
Proof.
  intros T g. induction l as [|a t IH]; intros i s H; [destruct i; discriminate H|].
  destruct i as [|i]; cbn [nth_error] in H.
  - inversion H; subst a. exists (flat_map g t). split; [apply Permutation_refl|].
    intros s'. cbn [set_nth flat_map]. apply Permutation_refl.
  - destruct (IH i s H) as (X & H1 & H2). exists (g a ++ X). split.
    + cbn [flat_map]. perm_core.
    + intros s'. specialize (H2 s'). cbn [set_nth flat_map]. perm_core.
Qed.

Lemma owned_split_slot : forall id d slots unions utab unk i s, nth_error slots i = Some s ->
  exists X, Permutation (owned (HM id d slots unions utab unk)) (owned_slot owned s ++ X) /\
            forall s', Permutation (owned (HM id d (set_nth slots i s') unions utab unk)) (owned_slot owned s' ++ X).
Proof.
  intros id d slots unions utab unk i s H.
  destruct (flat_map_set_nth hslot (owned_slot owned) slots i s H) as (X & H1 & H2).
  exists (id :: X ++ flat_map (fun cv : Z * hval => owned_val owned (snd cv)) unions ++ opt_list utab ++ flat_map opt_list unk).
  split.
  - rewrite owned_eq. perm_core.
  - intros s'. specialize (H2 s'). rewrite owned_eq. perm_core.
Qed.

Lemma owned_split_union : forall id d slots unions utab unk g cv, nth_error unions g = Some cv ->
  exists X, Permutation (owned (HM id d slots unions utab unk)) (owned_val owned (snd cv) ++ X) /\
            forall cv', Permutation (owned (HM id d slots (set_nth unions g cv') utab unk)) (owned_val owned (snd cv') ++ X).
Proof.
  intros id d slots unions utab unk g cv H.
  destruct (flat_map_set_nth (Z * hval) (fun cv : Z * hval => owned_val owned (snd cv)) unions g cv H) as (X & H1 & H2).
  exists (id :: flat_map (owned_slot owned) slots ++ X ++ opt_list utab ++ flat_map opt_list unk).
  split.
  - rewrite owned_eq. perm_core.
  - intros s'. specialize (H2 s'). rewrite owned_eq. perm_core.
Qed.

Lemma owned_unk_app : forall id d slots unions utab unk o,
  Permutation (owned (HM id d slots unions utab (unk ++ [o]))) (opt_list o ++ owned (HM id d slots unions utab unk)).
Proof.
  intros id d slots unions utab unk o. rewrite !owned_eq, flat_map_app. cbn [flat_map]. rewrite app_nil_r. perm_core.
Qed.

Lemma nth_error_repeat_some : forall (T : Type) (x y : T) n g, nth_error (repeat x n) g = Some y -> y = x.
Proof. intros T x y n g H. apply nth_error_In in H. apply repeat_spec in H. exact H. Qed.

Lemma Forall2_nth : forall (T U : Type) (P : T -> U -> Prop) (a : list T) (b : list U), Forall2 P a b ->
  length a = length b /\ forall i x, nth_error a i = Some x -> exists y, nth_error b i = Some y /\ P x y.
Proof.
  intros T U P a b H. induction H as [|x y a b Hxy H IH].
  - split; [reflexivity|]. intros i x Hx. destruct i; discriminate Hx.
  - destruct IH as [IH1 IH2]. split; [cbn [length]; congruence|].
    intros i x0 Hx. destruct i as [|i]; cbn [nth_error] in *.
    + inversion Hx; subst x0. exists y. split; [reflexivity | exact Hxy].
    + exact (IH2 i x0 Hx).
Qed.

(* ====================================================================== the typing invariant, unfolded *)

Lemma hwt_eq : forall E c id d slots unions utab unk,
  hwt E c (HM id d slots unions utab unk) =
  match nth_error E d with
  | None => false
  | Some md =>
      hslots_ok (hwt E true) c (length unions) (md_fields md) slots &&
      Nat.eqb (length unions) (md_n_oneofs md) &&
      hunions_ok (hwt E true) (md_fields md) 0 unions &&
      match utab with
      | None => match unk with [] => true | _ => false end
      | Some _ => negb c || nonempty unk
      end
  end.
Proof. reflexivity. Qed.

Lemma hslots_ok_pointwise : forall rec c nu (fl : list field) (ss : list hslot), length ss = length fl ->
  (forall i f s, nth_error fl i = Some f -> nth_error ss i = Some s -> hslot_ok rec c nu f s = true) ->
  hslots_ok rec c nu fl ss = true.
Proof.
  intros rec c nu. induction fl as [|f t IH]; intros [|s ss] Hl H; cbn [length] in Hl; try discriminate Hl; [reflexivity|].
  cbn [hslots_ok]. fold (hslots_ok rec c nu). rewrite (H 0%nat f s eq_refl eq_refl). cbn [andb].
  apply IH; [lia|]. intros i g x Hg Hx. exact (H (S i) g x Hg Hx).
Qed.

Lemma hunions_ok_pointwise : forall rec fl (us : list (Z * hval)) g0,
  (forall g cv, nth_error us g = Some cv -> hunion_ok rec fl (g0 + g) cv = true) ->
  hunions_ok rec fl g0 us = true.
Proof.
  intros rec fl. induction us as [|cv t IH]; intros g0 H; [reflexivity|].
  cbn [hunions_ok]. fold (hunions_ok rec fl). pose proof (H 0%nat cv eq_refl) as H0. rewrite Nat.add_0_r in H0.
  rewrite H0. cbn [andb]. apply IH. intros g cv' Hg. specialize (H (S g) cv' Hg).
  rewrite <- plus_n_Sm in H. exact H.
Qed.

(* ====================================================================== unknown members *)

Fixpoint nunk (ms : list smember) : Z :=
  match ms with
  | [] => 0
  | sm :: t => (match sm_field sm with None => 1 | Some _ => 0 end) + nunk t
  end.

Lemma nunk_nonneg : forall ms, 0 <= nunk ms.
Proof. induction ms as [|sm t IH]; cbn [nunk]; [lia|]. destruct (sm_field sm); lia. Qed.

Lemma nunk_app : forall a b, nunk (a ++ b) = nunk a + nunk b.
Proof. induction a as [|x t IH]; intros b; cbn [app nunk]; [lia|]. rewrite IH. lia. Qed.

Lemma nunk_rev : forall a, nunk (rev a) = nunk a.
Proof. induction a as [|x t IH]; cbn [rev]; [reflexivity|]. rewrite nunk_app, IH. cbn [nunk]. lia. Qed.

Lemma nunk_in : forall ms sm, In sm ms -> sm_field sm = None -> 0 < nunk ms.
Proof.
  induction ms as [|x t IH]; intros sm Hin Hf; [contradiction|]. cbn [nunk].
  pose proof (nunk_nonneg t). destruct Hin as [->|Hin].
  - rewrite Hf. lia.
  - specialize (IH sm Hin Hf). destruct (sm_field x); lia.
Qed.

(* st_nunk counts the members without a field *)
Lemma scan_one_nunk : forall (E : env) md st st', desc_ok (length E) md = true -> last_ok md st ->
  st_at st <> [] -> LeafSafe.bytes (st_at st) -> scan_one md st = Ok st' ->
  st_nunk st' - nunk (st_members st') = st_nunk st - nunk (st_members st).
Proof.
  intros E md st st' D HL Hne HB H.
  destruct (scan_one_factor_F1 E md st st' D HL Hne HB H) as (sm & _ & Ha).
  unfold apply_member in Ha. destruct (sm_field sm) as [i|] eqn:Ef.
  - destruct (nth_error (md_fields md) i) as [f|]; [|discriminate Ha].
    match type of Ha with bind ?X _ = _ => destruct X as [slots|e] end; cbn [bind] in Ha; [|discriminate Ha].
    injection Ha as <-. cbn [st_nunk st_members nunk]. rewrite Ef. lia.
  - injection Ha as <-. cbn [st_nunk st_members nunk]. rewrite Ef. lia.
Qed.

Lemma scan_loop_nunk : forall (E : env) md N, desc_ok (length E) md = true -> N < 4294967296 ->
  forall fuel st st', scan_loop fuel md st = Ok st' -> scan_inv md N st ->
  st_nunk st' - nunk (st_members st') = st_nunk st - nunk (st_members st).
Proof.
  intros E md N D HN. induction fuel as [|k IH]; intros st st' H I; cbn [scan_loop] in H.
  - destruct (st_at st); [inversion H; subst; reflexivity | discriminate H].
  - destruct (st_at st) as [|b t] eqn:Ea; [inversion H; subst; reflexivity|].
    destruct (scan_one md st) as [st1|e] eqn:E1; cbn [bind] in H; [|discriminate H].
    assert (Hne : st_at st <> []) by congruence.
    pose proof (scan_one_inv' E md D parse_tag_range_bytes count_packed_elements_le_len N st st1 HN E1 Hne I) as I1.
    rewrite (IH st1 st' H I1). destruct I as (HB & HL & _).
    exact (scan_one_nunk E md st st1 D HL Hne HB E1).
Qed.

(* ====================================================================== packed members *)

(* a packed member for which the scan counted at least one element stores at least one *)
Lemma packed_nonempty : forall f sm okc c vs,
  is_scalar (f_type f) = true ->
  LeafSafe.bytes (sm_data sm) -> 0 <= sm_pref sm <= sm_len sm -> sm_len sm = Mem.zlen (sm_data sm) ->
  sm_len sm < 4294967296 ->
  count_packed_elements (type_code (f_type f)) (sm_len sm - sm_pref sm)
                        (skipn (Z.to_nat (sm_pref sm)) (sm_data sm)) 0 = (okc, c) ->
  okc <> 0 -> 0 < c -> parse_packed f sm = Ok vs -> vs <> [].
Proof.
  intros f sm okc c vs Hs HB Hp Hl H32 Hc Hok Hc0 Hpp.
  destruct (ftype_eqb (f_type f) TBool) eqn:Eb.
  - assert (Et : f_type f = TBool) by (destruct (f_type f); try discriminate Eb; reflexivity).
    rewrite Et, count_bool in Hc. injection Hc as _ Hc. subst c.
    unfold parse_packed in Hpp. rewrite Et in Hpp.
    set (payload := skipn (Z.to_nat (sm_pref sm)) (sm_data sm)) in *.
    assert (Hne : payload <> []).
    { intros Hnil. assert (Hz : Mem.zlen payload = sm_len sm - sm_pref sm).
      { unfold payload. rewrite zlen_skipn. unfold Mem.zlen in *. lia. }
      rewrite Hnil in Hz. unfold Mem.zlen in Hz. cbn [length] in Hz. lia. }
    rewrite (ppv_step _ _ _ Hne) in Hpp. cbv zeta in Hpp.
    destruct (scan_varint (u32 (Mem.zlen payload)) payload =? 0); [discriminate Hpp|].
    match type of Hpp with bind ?X _ = _ => destruct X as [w|e] end; cbn [bind] in Hpp; [|discriminate Hpp].
    match type of Hpp with bind ?X _ = _ => destruct X as [r|e] end; cbn [bind] in Hpp; [|discriminate Hpp].
    injection Hpp as <-. discriminate.
  - assert (Hnb : f_type f <> TBool) by (intros Et; rewrite Et in Eb; discriminate Eb).
    pose proof (parse_packed_eq_count f sm okc c vs Hs Hnb HB Hp Hl H32 Hc Hok Hpp) as Hz.
    intros Hnil. subst vs. unfold Mem.zlen in Hz. cbn [length] in Hz. lia.
Qed.

Lemma packed_scalar : forall nu f wt, field_ok nu f = true -> packed_arrival f wt = true -> is_scalar (f_type f) = true.
Proof.
  intros nu f wt Hfok Hpa. unfold packed_arrival in Hpa. apply andb_true_iff in Hpa. destruct Hpa as [_ Hpa].
  apply orb_true_iff in Hpa. destruct Hpa as [Hpk|Hpk].
  - unfold field_ok in Hfok. rewrite Hpk in Hfok. rewrite !andb_true_iff in Hfok. destruct Hfok as [[_ [_ Hsc]] _]. exact Hsc.
  - unfold is_packable in Hpk. unfold is_scalar. destruct (f_type f); try reflexivity; cbn in Hpk; discriminate Hpk.
Qed.

Lemma data_total_nonneg : forall ms, 0 <= data_total ms.
Proof. induction ms as [|y t IH]; cbn [data_total]; unfold Mem.zlen in *; lia. Qed.

Lemma data_total_member : forall ms sm, In sm ms -> Mem.zlen (sm_data sm) + 1 <= data_total ms + Z.of_nat (length ms).
Proof.
  induction ms as [|x t IH]; intros sm Hin; [contradiction|]. cbn [data_total length].
  pose proof (data_total_nonneg t). destruct Hin as [->|Hin]; [unfold Mem.zlen; lia|].
  specialize (IH sm Hin). unfold Mem.zlen in *. lia.
Qed.

Lemma total_ge_mcnt : forall md ms sm i, (forall x, In x ms -> 0 <= mcnt md x) -> In sm ms -> sm_field sm = Some i ->
  mcnt md sm <= total md i ms.
Proof.
  intros md. induction ms as [|x t IH]; intros sm i Hnn Hin Hf; [contradiction|]. cbn [total].
  assert (Ht : 0 <= total md i t).
  { clear - Hnn. induction t as [|y t IH]; cbn [total]; [lia|].
    assert (0 <= total md i t) by (apply IH; intros z [Hz|Hz]; apply Hnn; [left | right; right]; assumption).
    pose proof (Hnn y (or_intror (or_introl eq_refl))). destruct (sm_field y) as [j|]; [destruct (Nat.eqb i j)|]; lia. }
  destruct Hin as [->|Hin].
  - rewrite Hf, Nat.eqb_refl. lia.
  - specialize (IH sm i (fun y Hy => Hnn y (or_intror Hy)) Hin Hf). pose proof (Hnn x (or_introl eq_refl)).
    destruct (sm_field x) as [j|]; [destruct (Nat.eqb i j)|]; lia.
Qed.

(* ====================================================================== cells *)

Lemma hcell_ok_scalar : forall rec f, hcell_ok rec f HScalar = true.
Proof. intros rec f. unfold hcell_ok. destruct (f_type f); reflexivity. Qed.

Lemma helem_ok_scalar : forall rec f, is_scalar (f_type f) = true -> helem_ok rec f HScalar = true.
Proof. intros rec f H. unfold helem_ok. destruct (f_type f); try discriminate H; reflexivity. Qed.

(* ====================================================================== the scanning pass and its slabs *)

Lemma scan_spec : forall plan md fuel st w j slabs F,
  triple (slabs ++ F) (h_scan plan fuel md st w j slabs)
         (fun r => fst (fst r) = true -> scan_loop fuel md st = Ok (snd (fst r)))
         (fun r => snd r ++ F).
Proof.
  intros plan md. induction fuel as [|k IH]; intros st w j slabs F; cbn [h_scan scan_loop].
  - destruct (st_at st) as [|b t].
    + apply triple_ret; [intros _; reflexivity | apply Permutation_refl].
    + apply triple_ret; [intros H; discriminate H | apply Permutation_refl].
  - destruct (st_at st) as [|b t] eqn:Ea.
    + apply triple_ret; [intros _; reflexivity | apply Permutation_refl].
    + destruct (negb (scan_pre (b :: t))); [apply triple_ret; [intros H; discriminate H | apply Permutation_refl]|].
      eapply triple_bnd_t with (Phi := fun _ => True)
        (G := fun r : option (nat * Z * list nat) => match r with None => slabs ++ F | Some (_, _, slabs') => slabs' ++ F end).
      * destruct (j =? Z.shiftl 16 (Z.of_nat w)); [|apply triple_ret; [exact I | apply Permutation_refl]].
        destruct (Nat.eqb w 22); [apply triple_ret; [exact I | apply Permutation_refl]|].
        eapply triple_bnd_t; [apply triple_alloc|]. intros [id|] _; apply triple_ret; try exact I; cbn [opt_list app]; [|apply Permutation_refl].
        rewrite <- app_assoc. perm_core.
      * intros [[[w' j'] slabs']|] _; [|apply triple_ret; [intros H; discriminate H | apply Permutation_refl]].
        destruct (scan_one md st) as [st'|e]; cbn [bind]; [|apply triple_ret; [intros H; discriminate H | apply Permutation_refl]].
        apply IH.
Qed.

(* ====================================================================== arrays for the repeated fields *)

Definition alloc_step (plan : nat -> bool) (f : field) (bm : list bool) (c : slot) (h : hslot) : A (bool * hslot) :=
  match f_label f with
  | LRepeated =>
      match c with
      | SRep n _ _ =>
          if n =? 0 then ret (true, h)
          else doA o <- alloc plan (elt_size (f_type f) * u32 n);
               match o with
               | None => ret (false, h)
               | Some id => ret (true, HRep (Some (id, [])))
               end
      | _ => ret (false, h)
      end
  | LRequired =>
      match f_default f with
      | None => ret (hd false bm, h)
      | Some _ => ret (true, h)
      end
  | _ => ret (true, h)
  end.

Lemma alloc_slots_cons : forall plan f fl bm c cs h hs,
  h_alloc_slots plan (f :: fl) bm (c :: cs) (h :: hs) =
  bnd (alloc_step plan f bm c h)
      (fun r => if fst r then bnd (h_alloc_slots plan fl (tl bm) cs hs) (fun r2 => ret (fst r2, snd r :: snd r2))
                else ret (false, snd r :: hs)).
Proof. reflexivity. Qed.

Lemma alloc_slots_nil : forall plan fl bm cs, h_alloc_slots plan fl bm cs [] = ret (true, []).
Proof. intros plan fl bm cs. destruct fl, cs; reflexivity. Qed.

Definition slot_cnt (c : slot) : Z := match c with SRep n _ _ => n | _ => 1 end.

Definition aslot (ok : bool) (fc : field * slot) (s : hslot) : Prop :=
  if label_eqb (f_label (fst fc)) LRepeated then
    (s = HRep None /\ (ok = true -> slot_cnt (snd fc) = 0)) \/
    (exists a, s = HRep (Some (a, [])) /\ slot_cnt (snd fc) <> 0)
  else s = h_init_slot (fst fc).

Lemma init_slot_owns : forall f, owned_slot owned (h_init_slot f) = [].
Proof.
  intros f. unfold h_init_slot, h_init_cell.
  destruct (f_label f); try reflexivity; destruct (f_quant f); try reflexivity;
    destruct (f_type f); try reflexivity; cbn [owned_slot owned_val];
    try (destruct (has_default f); reflexivity); destruct (f_default f) as [[w|x|x]|]; reflexivity.
Qed.

Lemma init_slots_own : forall fl, flat_map (owned_slot owned) (map h_init_slot fl) = [].
Proof. induction fl as [|f t IH]; [reflexivity|]. cbn [map flat_map]. rewrite init_slot_owns, IH. reflexivity. Qed.

Lemma aslot_init : forall fl cs, length cs = length fl -> Forall2 (aslot false) (combine fl cs) (map h_init_slot fl).
Proof.
  induction fl as [|f t IH]; intros [|c cs] Hl; cbn [length] in Hl; try discriminate Hl; cbn [combine map]; constructor.
  - unfold aslot. cbn [fst snd]. destruct (label_eqb (f_label f) LRepeated) eqn:Er; [|reflexivity].
    left. split; [|intros H; discriminate H]. unfold h_init_slot. destruct (f_label f); try discriminate Er. reflexivity.
  - apply IH. lia.
Qed.

Lemma aslot_weaken : forall ok fc s, aslot true fc s -> aslot ok fc s.
Proof.
  intros ok fc s H. unfold aslot in *. destruct (label_eqb (f_label (fst fc)) LRepeated); [|exact H].
  destruct H as [[H1 H2]|H]; [left; split; [exact H1 | intros _; apply H2; reflexivity] | right; exact H].
Qed.

Lemma alloc_slots_spec : forall plan fl bm cs F, length cs = length fl ->
  triple F (h_alloc_slots plan fl bm cs (map h_init_slot fl))
         (fun r => Forall2 (aslot (fst r)) (combine fl cs) (snd r))
         (fun r => flat_map (owned_slot owned) (snd r) ++ F).
Proof.
  intros plan. induction fl as [|f t IH]; intros bm [|c cs] F Hl; cbn [length] in Hl; try discriminate Hl.
  - cbn [map]. rewrite alloc_slots_nil. apply triple_ret; [constructor | apply Permutation_refl].
  - cbn [map]. rewrite alloc_slots_cons.
    eapply triple_bnd_t with (Phi := fun r : bool * hslot => aslot (fst r) (f, c) (snd r))
                             (G := fun r : bool * hslot => owned_slot owned (snd r) ++ F).
    + assert (Hkeep : forall b, (label_eqb (f_label f) LRepeated = true -> b = true -> slot_cnt c = 0) ->
                triple F (ret (b, h_init_slot f)) (fun r : bool * hslot => aslot (fst r) (f, c) (snd r))
                       (fun r : bool * hslot => owned_slot owned (snd r) ++ F)).
      { intros b Hb. apply triple_ret; [|cbn [snd]; rewrite init_slot_owns; apply Permutation_refl].
        unfold aslot. cbn [fst snd]. destruct (label_eqb (f_label f) LRepeated) eqn:Er; [|reflexivity].
        left. split; [|exact (Hb eq_refl)]. unfold h_init_slot. destruct (f_label f); try discriminate Er. reflexivity. }
      unfold alloc_step. destruct (f_label f) eqn:El.
      * destruct (f_default f); apply Hkeep; intros H; discriminate H.
      * apply Hkeep. intros H; discriminate H.
      * destruct c as [h v|n cap arr|g]; [apply Hkeep; intros _ H; discriminate H | | apply Hkeep; intros _ H; discriminate H].
        destruct (Z.eqb_spec n 0) as [Hz|Hnz]; [apply Hkeep; intros _ _; exact Hz|].
        eapply triple_bnd_t; [apply triple_alloc|]. intros [a|] _; cbn [opt_list app].
        -- apply triple_ret; [|apply Permutation_refl]. unfold aslot. cbn [fst snd]. rewrite El. cbn [label_eqb].
           right. exists a. split; [reflexivity | exact Hnz].
        -- apply Hkeep. intros _ H; discriminate H.
      * apply Hkeep. intros H; discriminate H.
    + intros [ok s] Hs. cbn [fst snd] in *. destruct ok.
      * eapply triple_bnd_t; [apply (IH (tl bm) cs (owned_slot owned s ++ F)); lia|].
        intros [ok2 rs] Hrs. cbn [fst snd] in *. apply triple_ret.
        -- cbn [fst snd combine]. constructor; [apply aslot_weaken; exact Hs | exact Hrs].
        -- cbn [snd flat_map]. perm_core.
      * apply triple_ret.
        -- cbn [fst snd combine]. constructor; [exact Hs | apply aslot_init; lia].
        -- cbn [snd flat_map]. rewrite init_slots_own, app_nil_r. apply Permutation_refl.
Qed.

Lemma hcell_ok_init : forall rec f, hcell_ok rec f (h_init_cell f) = true.
Proof.
  intros rec f. unfold hcell_ok, h_init_cell. destruct (f_type f); try reflexivity.
  - destruct (has_default f) eqn:Ed; reflexivity.
  - destruct (f_default f) as [[w|x|x]|] eqn:Ed; try reflexivity. unfold has_default. rewrite Ed. reflexivity.
Qed.

Lemma init_cell_owns_nothing : forall f, owns_nothing (h_init_cell f) = true.
Proof.
  intros f. unfold h_init_cell. destruct (f_type f); try reflexivity.
  - destruct (has_default f); reflexivity.
  - destruct (f_default f) as [[w|x|x]|]; reflexivity.
Qed.

Lemma init_slot_ok : forall rec c nu f, field_ok nu f = true -> label_eqb (f_label f) LRepeated = false ->
  hslot_ok rec c nu f (h_init_slot f) = true.
Proof.
  intros rec c nu f Hok Hr. unfold field_ok in Hok. rewrite !andb_true_iff in Hok. destruct Hok as [[[_ Hq] _] _].
  unfold h_init_slot, hslot_ok.
  destruct (f_label f) eqn:El; try discriminate Hr; destruct (f_quant f) as [| |g|] eqn:Eq; try discriminate Hq;
    cbn [label_eqb negb andb orb]; rewrite ?andb_true_iff in Hq.
  all: try (match type of Hq with _ /\ Nat.ltb _ _ = true => destruct Hq as [Ho Hg]; rewrite Ho, Hg, Nat.eqb_refl; reflexivity end).
  all: repeat (match type of Hq with _ /\ _ => destruct Hq as [Hq _] end).
  all: apply negb_true_iff in Hq; rewrite Hq; cbn [negb andb]; rewrite hcell_ok_init; cbn [andb]; try reflexivity.
  all: rewrite init_cell_owns_nothing; apply orb_true_r.
Qed.

Lemma aslot_ok : forall rec nu ok f c s, field_ok nu f = true -> aslot ok (f, c) s -> hslot_ok rec false nu f s = true.
Proof.
  intros rec nu ok f c s Hfok H. unfold aslot in H. cbn [fst snd] in H.
  destruct (label_eqb (f_label f) LRepeated) eqn:Er.
  - destruct H as [[-> _]|(a & -> & _)]; unfold hslot_ok; rewrite Er; reflexivity.
  - subst s. apply init_slot_ok; assumption.
Qed.

Lemma repeat_unions_own : forall n, flat_map (fun cv : Z * hval => owned_val owned (snd cv)) (repeat (0, HScalar) n) = [].
Proof. induction n as [|n IH]; [reflexivity|]. cbn [repeat flat_map snd owned_val app]. exact IH. Qed.

Section HP.
Variable E : env.
Variable plan : nat -> bool.
Variable szmsg : nat -> Z.
Hypothesis EO : env_ok E = true.
Hypothesis Hfree : spec_free E.
Hypothesis Hmerge : spec_merge E plan.

Notation hw := (hwt E true).

Lemma triple_free : forall c m F F', hwt E c m = true -> Permutation F (owned m ++ F') ->
  triple F (h_free E m) (fun _ => True) (fun _ => F').
Proof.
  intros c m F F' Hm HP. unfold triple. eapply hoare_perm_pre; [|exact HP].
  eapply hoare_post; [exact (Hfree c m F' Hm)|]. intros u L H. split; [exact I | exact H].
Qed.

Lemma triple_merge : forall e l F F', hw e = true -> hw l = true -> hm_d e = hm_d l ->
  Permutation F (owned e ++ owned l ++ F') ->
  triple F (h_merge E plan e l)
         (fun r => hw (snd (fst r)) = true /\ hm_d (snd (fst r)) = hm_d e /\ hw (snd r) = true /\ hm_d (snd r) = hm_d l)
         (fun r => owned (snd (fst r)) ++ owned (snd r) ++ F').
Proof.
  intros e l F F' He Hl Hd HP. unfold triple. eapply hoare_perm_pre; [|exact HP].
  eapply hoare_post; [exact (Hmerge e l F' He Hl Hd)|].
  intros [[ok e'] l'] L (H1 & H2 & H3 & H4 & H5). cbn [fst snd]. auto.
Qed.

(* a cell that parse_required_member may be asked to overwrite *)
Definition cell_pre (f : field) (mc : bool) (old : hval) : Prop :=
  if mc then hcell_ok hw f old = true \/ (owns_nothing old = true /\ no_def old = true) else old = HScalar.

Definition cell_post (f : field) (mc : bool) (old : hval) (r : bool * hval) : Prop :=
  (mc = true -> hcell_ok hw f (snd r) = true \/ snd r = old) /\
  (fst r = true -> if mc then hcell_ok hw f (snd r) = true else helem_ok hw f (snd r) = true) /\
  (fst r = false -> snd r = old \/ owns_nothing (snd r) = true \/ (mc = true /\ exists em, old = HMsg (Some em))) /\
  (no_def old = true -> no_def (snd r) = true).

Lemma str_old : forall f old, f_type f = TString -> cell_pre f true old ->
  owned_val owned old = ptr_list (as_hstr old) /\ (as_hstr old = PDef -> has_default f = true).
Proof.
  intros f old Et [Hc|[Ho Hn]].
  - unfold hcell_ok in Hc. rewrite Et in Hc. destruct old as [|[| |i]|n p|o]; try discriminate Hc; cbn [as_hstr owned_val ptr_list];
      split; try reflexivity; try (intros H; discriminate H). intros _. exact Hc.
  - destruct old as [|[| |i]|n [| |i]|[m|]]; try discriminate Ho; try discriminate Hn; cbn [as_hstr owned_val ptr_list];
      split; try reflexivity; intros H; discriminate H.
Qed.

Lemma bytes_old : forall f old, f_type f = TBytes -> cell_pre f true old ->
  owned_val owned old = ptr_list (snd (as_hbytes old)) /\ (snd (as_hbytes old) = PDef -> has_default f = true).
Proof.
  intros f old Et [Hc|[Ho Hn]].
  - unfold hcell_ok in Hc. rewrite Et in Hc. destruct old as [|p|n [| |i]|o]; try discriminate Hc; cbn [as_hbytes owned_val ptr_list snd];
      split; try reflexivity; try (intros H; discriminate H). intros _. exact Hc.
  - destruct old as [|[| |i]|n [| |i]|[m|]]; try discriminate Ho; try discriminate Hn; cbn [as_hbytes owned_val ptr_list snd];
      split; try reflexivity; intros H; discriminate H.
Qed.

Lemma msg_old : forall f old, f_type f = TMessage -> cell_pre f true old ->
  match old with
  | HMsg (Some em) => hw em = true /\ hm_d em = f_sub f
  | _ => owned_val owned old = []
  end.
Proof.
  intros f old Et [Hc|[Ho Hn]].
  - unfold hcell_ok in Hc. rewrite Et in Hc. destruct old as [|p|n p|[m|]]; try discriminate Hc; try reflexivity.
    apply andb_true_iff in Hc. destruct Hc as [H1 H2]. apply Nat.eqb_eq in H2. auto.
  - destruct old as [|p|n p|[m|]]; try discriminate Ho; apply owns_nothing_owned; exact Ho.
Qed.

Lemma scalar_old : forall f mc old, is_scalar (f_type f) = true -> cell_pre f mc old -> owned_val owned old = [].
Proof.
  intros f mc old Hs Hpre. destruct mc; cbn [cell_pre] in Hpre; [|subst old; reflexivity].
  destruct Hpre as [Hc|[Ho _]]; [|apply owns_nothing_owned; exact Ho].
  unfold hcell_ok in Hc. destruct (f_type f); try discriminate Hs; destruct old; try discriminate Hc; reflexivity.
Qed.

Lemma cell_post_keep : forall f mc old, cell_post f mc old (false, old).
Proof.
  intros f mc old. unfold cell_post. cbn [fst snd]. split; [intros _; right; reflexivity|].
  split; [intros H; discriminate H|]. split; [intros _; left; reflexivity | intros H; exact H].
Qed.

Lemma parse_required_scalar : forall f mc old G (rs : res Z), is_scalar (f_type f) = true -> cell_pre f mc old ->
  triple (owned_val owned old ++ G)
         (match rs with Ok _ => ret (true, HScalar) | Err _ => ret (false, old) end)
         (cell_post f mc old) (fun r => owned_val owned (snd r) ++ G).
Proof.
  intros f mc old G rs Hs Hpre. destruct rs as [w|e].
  - apply triple_ret.
    + unfold cell_post. cbn [fst snd]. split; [intros _; left; apply hcell_ok_scalar|].
      split; [intros _; destruct mc; [apply hcell_ok_scalar | apply helem_ok_scalar; exact Hs]|].
      split; [intros H; discriminate H | intros _; reflexivity].
    + cbn [snd]. rewrite (scalar_old f mc old Hs Hpre). apply Permutation_refl.
  - apply triple_ret; [apply cell_post_keep | apply Permutation_refl].
Qed.

(* ---------- one level of the parser: what is known about parsing embedded messages is the induction hypothesis *)
Section Level.
Variable usub : nat -> list Z -> A (option hmsg).
Hypothesis Husub : spec_unpack E usub.

Lemma triple_usub : forall d' data F, LeafSafe.bytes data -> Mem.zlen data < 2147483648 ->
  triple F (usub d' data)
         (fun o => match o with Some m => hw m = true /\ hm_d m = d' | None => True end)
         (fun o => match o with Some m => owned m ++ F | None => F end).
Proof.
  intros d' data F HB HN. unfold triple. eapply hoare_post; [exact (Husub d' data F HB HN)|].
  intros [m|] L H; [destruct H as (H1 & H2 & H3); auto | auto].
Qed.

Lemma parse_required_spec : forall f sm old mc G,
  LeafSafe.bytes (sm_data sm) -> sm_len sm = Mem.zlen (sm_data sm) -> 0 <= sm_pref sm <= sm_len sm ->
  sm_len sm < 2147483648 -> cell_pre f mc old ->
  triple (owned_val owned old ++ G) (h_parse_required E plan usub f sm old mc)
         (cell_post f mc old) (fun r => owned_val owned (snd r) ++ G).
Proof.
  intros f sm old mc G HB Hl Hp HN Hpre. unfold h_parse_required.
  destruct (f_type f) eqn:Et; try (apply parse_required_scalar; [rewrite Et; reflexivity | exact Hpre]).
  - (* string *)
    destruct (negb (sm_wt sm =? WT_LEN)); [apply triple_ret; [apply cell_post_keep | apply Permutation_refl]|].
    eapply triple_bnd_t with (Phi := fun _ => True) (G := fun _ => G).
    { destruct mc; cbn [cell_pre] in Hpre.
      - destruct (str_old f old Et Hpre) as [Ho Hd]. apply triple_free_if_owned; [exact Hd|]. rewrite Ho. apply Permutation_refl.
      - subst old. apply triple_ret; [exact I | apply Permutation_refl]. }
    intros ? _. eapply triple_bnd_t; [apply triple_alloc|]. intros [id|] _; cbn [opt_list app].
    + apply triple_ret; [|apply Permutation_refl]. unfold cell_post. cbn [fst snd].
      split; [intros _; left; unfold hcell_ok; rewrite Et; reflexivity|].
      split; [intros _; destruct mc; [unfold hcell_ok | unfold helem_ok]; rewrite Et; reflexivity|].
      split; [intros H; discriminate H | intros _; reflexivity].
    + apply triple_ret; [|apply Permutation_refl]. unfold cell_post. cbn [fst snd].
      split; [intros _; left; unfold hcell_ok; rewrite Et; reflexivity|].
      split; [intros H; discriminate H|]. split; [intros _; right; left; reflexivity | intros _; reflexivity].
  - (* bytes *)
    destruct (negb (sm_wt sm =? WT_LEN)); [apply triple_ret; [apply cell_post_keep | apply Permutation_refl]|].
    eapply triple_bnd_t with (Phi := fun _ => True) (G := fun _ => G).
    { destruct mc; cbn [cell_pre] in Hpre.
      - destruct (bytes_old f old Et Hpre) as [Ho Hd]. apply triple_free_if_owned; [exact Hd|]. rewrite Ho. apply Permutation_refl.
      - subst old. apply triple_ret; [exact I | apply Permutation_refl]. }
    intros ? _. destruct (Z.gtb_spec (sm_len sm) (sm_pref sm)) as [Hgt|Hle].
    + eapply triple_bnd_t; [apply triple_alloc|]. intros [id|] _; cbn [opt_list app].
      * apply triple_ret; [|apply Permutation_refl]. unfold cell_post. cbn [fst snd].
        assert (Hnz : negb (sm_len sm - sm_pref sm =? 0) = true) by lia.
        split; [intros _; left; unfold hcell_ok; rewrite Et; exact Hnz|].
        split; [intros _; destruct mc; [unfold hcell_ok; rewrite Et; exact Hnz | unfold helem_ok; rewrite Et; reflexivity]|].
        split; [intros H; discriminate H | intros _; reflexivity].
      * apply triple_ret; [|apply Permutation_refl]. unfold cell_post. cbn [fst snd].
        split; [intros _; left; unfold hcell_ok; rewrite Et; reflexivity|].
        split; [intros H; discriminate H|]. split; [intros _; right; left; reflexivity | intros _; reflexivity].
    + apply triple_ret; [|apply Permutation_refl]. unfold cell_post. cbn [fst snd].
      split; [intros _; left; unfold hcell_ok; rewrite Et; reflexivity|].
      split; [intros _; destruct mc; [unfold hcell_ok | unfold helem_ok]; rewrite Et; reflexivity|].
      split; [intros H; discriminate H | intros _; reflexivity].
  - (* sub-message *)
    destruct (negb (sm_wt sm =? WT_LEN)); [apply triple_ret; [apply cell_post_keep | apply Permutation_refl]|].
    assert (HBp : LeafSafe.bytes (skipn (Z.to_nat (sm_pref sm)) (sm_data sm))) by (apply ScanCount.bytes_skipn; exact HB).
    assert (HNp : Mem.zlen (skipn (Z.to_nat (sm_pref sm)) (sm_data sm)) < 2147483648).
    { rewrite zlen_skipn. unfold Mem.zlen in *. lia. }
    eapply triple_bnd_t; [apply (triple_usub (f_sub f) _ (owned_val owned old ++ G) HBp HNp)|].
    intros sub Hsub.
    assert (Hplain : (forall em, (if mc then old else HScalar) <> HMsg (Some em)) -> owned_val owned old = [] ->
              triple (match sub with Some m => owned m ++ owned_val owned old ++ G | None => owned_val owned old ++ G end)
                     (ret (match sub with Some _ => true | None => false end, HMsg sub))
                     (cell_post f mc old) (fun r => owned_val owned (snd r) ++ G)).
    { intros Hnm Hown. apply triple_ret.
      - unfold cell_post. cbn [fst snd]. destruct sub as [lm|].
        + destruct Hsub as [Hs Hd].
          assert (Hc : hcell_ok hw f (HMsg (Some lm)) = true) by (unfold hcell_ok; rewrite Et, Hs, Hd, Nat.eqb_refl; reflexivity).
          split; [intros _; left; exact Hc|].
          split; [intros _; destruct mc; [exact Hc | unfold helem_ok; rewrite Et, Hs, Hd, Nat.eqb_refl; reflexivity]|].
          split; [intros H; discriminate H | intros _; reflexivity].
        + split; [intros _; left; unfold hcell_ok; rewrite Et; reflexivity|].
          split; [intros H; discriminate H|]. split; [intros _; right; left; reflexivity | intros _; reflexivity].
      - rewrite Hown. destruct sub as [lm|]; cbn [snd owned_val app]; apply Permutation_refl. }
    destruct mc; cbn [cell_pre] in Hpre.
    2:{ subst old. apply Hplain; [intros em H; discriminate H | reflexivity]. }
    pose proof (msg_old f old Et Hpre) as Hold.
    destruct old as [|p|n p|[em|]]; try (apply Hplain; [intros em' H; discriminate H | exact Hold]).
    destruct Hold as [Hem Hed]. rewrite owned_val_msg.
    destruct sub as [lm|].
    + destruct Hsub as [Hs Hd].
      eapply triple_bnd_t; [apply (triple_merge em lm _ G Hem Hs); [congruence | perm]|].
      intros [[ok em'] lm'] (H1 & H2 & H3 & H4). cbn [fst snd] in *.
      eapply triple_bnd_t; [apply (triple_free true em' _ (owned lm' ++ G) H1); apply Permutation_refl|].
      intros ? _. apply triple_ret; [|cbn [snd owned_val]; apply Permutation_refl].
      assert (Hc : hcell_ok hw f (HMsg (Some lm')) = true).
      { unfold hcell_ok. rewrite Et, H3. replace (hm_d lm') with (f_sub f) by congruence. rewrite Nat.eqb_refl. reflexivity. }
      unfold cell_post. cbn [fst snd]. split; [intros _; left; exact Hc|]. split; [intros _; exact Hc|].
      split; [intros _; right; right; split; [reflexivity | exists em; reflexivity] | intros _; reflexivity].
    + eapply triple_bnd_t; [apply (triple_free true em _ G Hem); apply Permutation_refl|].
      intros ? _. apply triple_ret; [|apply Permutation_refl].
      unfold cell_post. cbn [fst snd]. split; [intros _; left; unfold hcell_ok; rewrite Et; reflexivity|].
      split; [intros H; discriminate H|]. split; [intros _; right; left; reflexivity | intros _; reflexivity].
Qed.

(* ---------- the message under construction *)
Variable d : nat.
Variable md : mdesc.
Hypothesis Hmd : nth_error E d = Some md.
Notation fs := (md_fields md).
Notation nun := (md_n_oneofs md).

(* the members the scan recorded *)
Variable Ms : list smember.
Hypothesis HMs : Forall (member_ok md) Ms.
Hypothesis HMsN : forall sm, In sm Ms -> sm_len sm < 2147483648.
Hypothesis Hmc0 : forall sm, In sm Ms -> 0 <= mcnt md sm.

Lemma Dmd : desc_ok (length E) md = true.
Proof. exact (env_ok_desc E EO d md Hmd). Qed.

Lemma fs_facts : forall f, In f fs -> field_ok nun f = true /\ 0 < f_id f < 536870912.
Proof. intros f Hin. destruct (desc_ok_fields _ _ Dmd f Hin) as (H1 & H2 & _). auto. Qed.

Definition hslot_base (i : nat) (f : field) (s : hslot) : Prop :=
  if label_eqb (f_label f) LRepeated then
    match s with
    | HRep None => total md i Ms = 0
    | HRep (Some (a, el)) => 0 < total md i Ms /\ forallb (helem_ok hw f) el = true
    | _ => False
    end
  else hslot_ok hw false nun f s = true.

Definition hunion_inv (g : nat) (cv : Z * hval) : Prop :=
  no_def (snd cv) = true /\
  ((fst cv = 0 /\ owns_nothing (snd cv) = true) \/
   exists f, In f fs /\ f_id f = fst cv /\ f_quant f = QCase g /\
             (owns_nothing (snd cv) = true \/ hcell_ok hw f (snd cv) = true)).

(* what holds of the message at every point of the member loop, and after a failed member *)
Definition hbase (m : hmsg) : Prop :=
  match m with
  | HM id d' slots unions utab unk =>
      d' = d /\ length slots = length fs /\
      (forall i f, nth_error fs i = Some f -> exists s, nth_error slots i = Some s /\ hslot_base i f s) /\
      length unions = nun /\
      (forall g cv, nth_error unions g = Some cv -> hunion_inv g cv) /\
      (utab = None <-> nunk Ms = 0) /\ (utab = None -> unk = [])
  end.

(* progress: an array (the unknown-field table) that should have received something by now is not empty *)
Definition hfull (done : list smember) (m : hmsg) : Prop :=
  match m with
  | HM id d' slots unions utab unk =>
      (forall i a el, nth_error slots i = Some (HRep (Some (a, el))) -> 0 < total md i done -> el <> []) /\
      (0 < nunk done -> unk <> [])
  end.

Lemma hone_parts : forall f h old, hslot_ok hw false nun f (HOne h old) = true ->
  hcell_ok hw f old = true /\ (f_quant f = QHas -> (h =? 0) = false \/ owns_nothing old = true).
Proof.
  intros f h old H. unfold hslot_ok in H. rewrite !andb_true_iff in H. destruct H as [[[[H1 H2] H3] H4] H5].
  split; [exact H4|]. intros Hq. rewrite Hq in H5. apply orb_true_iff in H5. destruct H5 as [H5|H5]; [left | right; exact H5].
  apply negb_true_iff in H5. exact H5.
Qed.

Lemma hone_update : forall f h old h' v,
  hslot_ok hw false nun f (HOne h old) = true -> hcell_ok hw f v = true ->
  (f_quant f = QHas -> (h' =? 0) = false \/ owns_nothing v = true) ->
  hslot_ok hw false nun f (HOne h' v) = true.
Proof.
  intros f h old h' v H Hc Hq. unfold hslot_ok in *. rewrite !andb_true_iff in *. destruct H as [[[[H1 H2] H3] H4] H5].
  split; [split; [split; [split|]|]|]; try assumption.
  destruct (f_quant f); try reflexivity. destruct (Hq eq_refl) as [H|H]; rewrite H; [reflexivity | apply orb_true_r].
Qed.

Lemma hbase_set_slot : forall id d' slots unions utab unk i f s',
  hbase (HM id d' slots unions utab unk) -> nth_error fs i = Some f -> hslot_base i f s' ->
  hbase (HM id d' (set_nth slots i s') unions utab unk).
Proof.
  intros id d' slots unions utab unk i f s' (H1 & H2 & H3 & H4 & H5 & H6 & H7) Hn Hs. unfold hbase.
  split; [exact H1|]. split; [rewrite set_nth_len; exact H2|].
  split; [|split; [exact H4 | split; [exact H5 | split; [exact H6 | exact H7]]]].
  intros j g Hj. destruct (Nat.eq_dec i j) as [<-|Hne].
  - rewrite Hn in Hj. inversion Hj; subst g. exists s'. split; [|exact Hs].
    apply set_nth_at. rewrite H2. apply nth_error_Some. congruence.
  - destruct (H3 j g Hj) as (s & Hsj & Hij). exists s. split; [|exact Hij]. rewrite set_nth_other by exact Hne. exact Hsj.
Qed.

Lemma hbase_set_union : forall id d' slots unions utab unk g cv',
  hbase (HM id d' slots unions utab unk) -> (g < length unions)%nat -> hunion_inv g cv' ->
  hbase (HM id d' slots (set_nth unions g cv') utab unk).
Proof.
  intros id d' slots unions utab unk g cv' (H1 & H2 & H3 & H4 & H5 & H6 & H7) Hg Hcv. unfold hbase.
  split; [exact H1|]. split; [exact H2|]. split; [exact H3|]. split; [rewrite set_nth_len; exact H4|].
  split; [|split; [exact H6 | exact H7]].
  intros g' cv Hn. destruct (Nat.eq_dec g g') as [<-|Hne].
  - rewrite set_nth_at in Hn by exact Hg. injection Hn as <-. exact Hcv.
  - rewrite set_nth_other in Hn by exact Hne. exact (H5 g' cv Hn).
Qed.

Lemma hfull_set : forall done sm id d' slots unions utab unk i s' unions',
  hfull done (HM id d' slots unions utab unk) -> sm_field sm = Some i ->
  (forall a el, s' = HRep (Some (a, el)) -> 0 < total md i (sm :: done) -> el <> []) ->
  hfull (sm :: done) (HM id d' (set_nth slots i s') unions' utab unk).
Proof.
  intros done sm id d' slots unions utab unk i s' unions' [H1 H2] Hf Hs. split.
  - intros j a el Hj Ht. destruct (Nat.eq_dec i j) as [<-|Hne].
    + destruct (Nat.lt_ge_cases i (length slots)) as [Hlt|Hge].
      * rewrite set_nth_at in Hj by exact Hlt. injection Hj as ->. exact (Hs a el eq_refl Ht).
      * assert (Hnone : nth_error (set_nth slots i s') i = None) by (apply nth_error_None; rewrite set_nth_len; exact Hge).
        rewrite Hnone in Hj. discriminate Hj.
    + rewrite set_nth_other in Hj by exact Hne. apply (H1 j a el Hj). cbn [total] in Ht. rewrite Hf in Ht.
      destruct (Nat.eqb_spec j i); [congruence | lia].
  - cbn [nunk]. rewrite Hf. intros H. apply H2. lia.
Qed.

Lemma hfull_keep : forall done sm id d' slots unions utab unk i s unions',
  hfull done (HM id d' slots unions utab unk) -> sm_field sm = Some i -> nth_error slots i = Some s ->
  (forall a el, s <> HRep (Some (a, el))) ->
  hfull (sm :: done) (HM id d' slots unions' utab unk).
Proof.
  intros done sm id d' slots unions utab unk i s unions' HF Hf Hs Hnr.
  pose proof (hfull_set done sm id d' slots unions utab unk i s unions' HF Hf) as H.
  rewrite (set_nth_same _ slots i s Hs) in H. apply H. intros a el He. exfalso. exact (Hnr a el He).
Qed.

(* the earlier contents of a cell being cleared (oneof) *)
Lemma free_old_cell : forall old_f cell G, cell_pre old_f true cell ->
  triple (owned_val owned cell ++ G)
         (match f_type old_f with
          | TString => free_if_owned old_f (as_hstr cell)
          | TBytes => free_if_owned old_f (snd (as_hbytes cell))
          | TMessage => match cell with HMsg (Some om) => h_free E om | _ => ret tt end
          | _ => ret tt
          end) (fun _ => True) (fun _ => G).
Proof.
  intros old_f cell G Hpre.
  destruct (f_type old_f) eqn:Et;
    try (apply triple_ret; [exact I | rewrite (scalar_old old_f true cell); [apply Permutation_refl | rewrite Et; reflexivity | exact Hpre]]).
  - destruct (str_old old_f cell Et Hpre) as [Ho Hd]. apply triple_free_if_owned; [exact Hd|]. rewrite Ho. apply Permutation_refl.
  - destruct (bytes_old old_f cell Et Hpre) as [Ho Hd]. apply triple_free_if_owned; [exact Hd|]. rewrite Ho. apply Permutation_refl.
  - pose proof (msg_old old_f cell Et Hpre) as Hold.
    destruct cell as [|p|n p|[om|]]; try (apply triple_ret; [exact I | rewrite Hold; apply Permutation_refl]).
    destruct Hold as [Hw _]. apply (triple_free true om _ G Hw). rewrite owned_val_msg. apply Permutation_refl.
Qed.

Notation Phi_ sm done := (fun r : bool * hmsg => hbase (snd r) /\ (fst r = true -> hfull (sm :: done) (snd r))).

(* a singular member outside oneofs *)
Lemma parse_one_spec : forall sm done id d' slots unions utab unk F i f h old (hf : bool -> Z),
  In sm Ms -> sm_field sm = Some i -> nth_error fs i = Some f -> nth_error slots i = Some (HOne h old) ->
  hbase (HM id d' slots unions utab unk) -> hfull done (HM id d' slots unions utab unk) ->
  (f_quant f = QHas -> (hf true =? 0) = false) -> hf false = h ->
  triple (owned (HM id d' slots unions utab unk) ++ F)
         (doA r <- h_parse_required E plan usub f sm old true;
          ret (fst r, HM id d' (set_nth slots i (HOne (hf (fst r)) (snd r))) unions utab unk))
         (Phi_ sm done) (fun r => owned (snd r) ++ F).
Proof.
  intros sm done id d' slots unions utab unk F i f h old hf Hin Ef Hn Hs HB HF Hhf1 Hhf0.
  pose proof HB as (Hd & Hlen & Hslots & Hun & Hus & Hut & Huk).
  pose proof (proj1 (Forall_forall _ _) HMs sm Hin) as (HBy & Hl & Hp & Hl1 & Hfield & Hpok).
  pose proof (HMsN sm Hin) as HlN.
  destruct (Hslots i f Hn) as (s0 & Hs0 & Hsi). unfold hslot in *.
  pose proof (eq_trans (eq_sym Hs) Hs0) as Heq. injection Heq as <-.
  assert (Hrep : label_eqb (f_label f) LRepeated = false).
  { unfold hslot_base in Hsi. destruct (label_eqb (f_label f) LRepeated); [contradiction | reflexivity]. }
  unfold hslot_base in Hsi. rewrite Hrep in Hsi. destruct (hone_parts f h old Hsi) as [Hc Hq].
  destruct (owned_split_slot id d' slots unions utab unk i (HOne h old) Hs) as (X & HX1 & HX2).
  eapply triple_bnd_t.
  - eapply triple_perm_pre; [apply (parse_required_spec f sm old true (X ++ F) HBy Hl Hp HlN); left; exact Hc|]. perm.
  - intros [ok v] (P2 & P3 & P4 & P5). cbn [fst snd] in *. apply triple_ret.
    + cbn [fst snd]. split.
      * apply (hbase_set_slot id d' slots unions utab unk i f _ HB Hn). unfold hslot_base. rewrite Hrep.
        assert (Hcv : hcell_ok hw f v = true) by (destruct (P2 eq_refl) as [H| ->]; assumption).
        apply (hone_update f h old _ v Hsi Hcv). intros HQ. destruct ok.
        -- left. exact (Hhf1 HQ).
        -- rewrite Hhf0. destruct (P4 eq_refl) as [-> | [Ho | [_ (em & ->)]]]; [exact (Hq HQ) | right; exact Ho|].
           destruct (Hq HQ) as [H|H]; [left; exact H | discriminate H].
      * intros _. apply (hfull_set done sm id d' slots unions utab unk i _ unions HF Ef). intros a el H. discriminate H.
    + specialize (HX2 (HOne (hf ok) v)). cbn [snd]. perm.
Qed.

(* a member of a oneof *)
Lemma parse_union_spec : forall sm done id d' slots unions utab unk F i f g case cell,
  In sm Ms -> sm_field sm = Some i -> nth_error fs i = Some f -> f_id f = sm_tag sm ->
  nth_error slots i = Some (HUnion g) -> nth_error unions g = Some (case, cell) ->
  hbase (HM id d' slots unions utab unk) -> hfull done (HM id d' slots unions utab unk) ->
  triple (owned (HM id d' slots unions utab unk) ++ F)
    (doA c0 <-
       (if negb (case =? 0) && negb ((case =? sm_tag sm) && ftype_eqb (f_type f) TMessage) then
          match find_field md case with
          | None => ret None
          | Some idx =>
              match nth_error fs idx with
              | None => ret None
              | Some old_f =>
                  doA _ <- (match f_type old_f with
                            | TString => free_if_owned old_f (as_hstr cell)
                            | TBytes => free_if_owned old_f (snd (as_hbytes cell))
                            | TMessage => match cell with HMsg (Some om) => h_free E om | _ => ret tt end
                            | _ => ret tt
                            end);
                  ret (Some HScalar)
              end
          end
        else ret (Some cell));
     match c0 with
     | None => ret (false, HM id d' slots unions utab unk)
     | Some cell0 =>
         doA r <- h_parse_required E plan usub f sm cell0 true;
         ret (fst r, HM id d' slots (set_nth unions g (if fst r then sm_tag sm else case, snd r)) utab unk)
     end)
    (Phi_ sm done) (fun r => owned (snd r) ++ F).
Proof.
  intros sm done id d' slots unions utab unk F i f g case cell Hin Ef Hn Hid Hs Hu HB HF.
  pose proof HB as (Hd & Hlen & Hslots & Hun & Hus & Hut & Huk).
  pose proof (proj1 (Forall_forall _ _) HMs sm Hin) as (HBy & Hl & Hp & Hl1 & Hfield & Hpok).
  pose proof (HMsN sm Hin) as HlN.
  assert (Hinf : In f fs) by (eapply nth_error_In; exact Hn).
  destruct (Hslots i f Hn) as (s0 & Hs0 & Hsi). unfold hslot in *.
  pose proof (eq_trans (eq_sym Hs) Hs0) as Heq. injection Heq as <-.
  assert (Hq : f_quant f = QCase g).
  { unfold hslot_base in Hsi. destruct (label_eqb (f_label f) LRepeated); [contradiction|].
    unfold hslot_ok in Hsi. rewrite !andb_true_iff in Hsi. destruct Hsi as [[_ Hsi] _].
    destruct (f_quant f) as [| |g'|]; try discriminate Hsi. apply Nat.eqb_eq in Hsi. subst g'. reflexivity. }
  destruct (owned_split_union id d' slots unions utab unk g (case, cell) Hu) as (X & HX1 & HX2).
  pose proof (Hus g (case, cell) Hu) as (Hnd & Hcase). cbn [fst snd] in Hnd, Hcase.
  assert (Hweak : forall v, owns_nothing v = true ->
            (case = 0 /\ owns_nothing v = true) \/
            exists f', In f' fs /\ f_id f' = case /\ f_quant f' = QCase g /\ (owns_nothing v = true \/ hcell_ok hw f' v = true)).
  { intros v Hv. destruct Hcase as [[H0 _]|(f' & Hf' & Hid' & Hq' & _)]; [left; auto|].
    right. exists f'. auto. }
  eapply triple_bnd_t with
    (Phi := fun c0 : option hval => match c0 with
                     | None => True
                     | Some cell0 => cell_pre f true cell0 /\ no_def cell0 = true /\
                                     (cell0 = HScalar \/ (cell0 = cell /\ (case = 0 \/ case = sm_tag sm)))
                     end)
    (G := fun c0 : option hval => match c0 with
                   | None => owned (HM id d' slots unions utab unk) ++ F
                   | Some cell0 => owned_val owned cell0 ++ X ++ F
                   end).
  - destruct (negb (case =? 0) && negb ((case =? sm_tag sm) && ftype_eqb (f_type f) TMessage)) eqn:Ec.
    + (* the previous member is freed *)
      destruct (find_field md case) as [idx|] eqn:Eff; [|apply triple_ret; [exact I | apply Permutation_refl]].
      destruct (nth_error fs idx) as [old_f|] eqn:Eo; [|apply triple_ret; [exact I | apply Permutation_refl]].
      assert (Hcell : cell_pre old_f true cell).
      { apply andb_true_iff in Ec. destruct Ec as [Ec1 _].
        destruct Hcase as [[H0 _]|(f' & Hf' & Hid' & Hq' & Hoc)]; [lia|].
        apply In_nth_error in Hf'. destruct Hf' as (j & Hj).
        pose proof (find_field_known (length E) md Dmd j f' Hj) as Hk. rewrite Hid', Eff in Hk. injection Hk as ->.
        rewrite Eo in Hj. injection Hj as ->. cbn [cell_pre].
        destruct Hoc as [Ho|Hc]; [right; split; assumption | left; exact Hc]. }
      eapply triple_bnd_t; [eapply triple_perm_pre; [apply (free_old_cell old_f cell (X ++ F) Hcell)|]; perm|].
      intros u _. apply triple_ret; [|apply Permutation_refl].
      split; [left; apply hcell_ok_scalar|]. split; [reflexivity | left; reflexivity].
    + (* the storage is kept: unset, or the same sub-message member again *)
      assert (Hcs : case = 0 \/ case = sm_tag sm).
      { apply andb_false_iff in Ec. destruct Ec as [Ec|Ec]; [left; lia|]. right. apply negb_false_iff in Ec.
        apply andb_true_iff in Ec. lia. }
      apply triple_ret; [|perm]. split; [|split; [exact Hnd | right; split; [reflexivity | exact Hcs]]].
      cbn [cell_pre]. destruct Hcase as [[H0 Ho]|(f' & Hf' & Hid' & Hq' & [Ho|Hc])]; [right; auto | right; auto|].
      left. assert (f' = f); [|subst f'; exact Hc].
      destruct Hcs as [H0|Hst]; [destruct (fs_facts f' Hf') as [_ Hr]; lia|].
      apply (field_unique E md Dmd f' f Hf' Hinf). congruence.
  - intros [cell0|] Hc0.
    + destruct Hc0 as (Hpre0 & Hnd0 & Hrel).
      eapply triple_bnd_t; [apply (parse_required_spec f sm cell0 true (X ++ F) HBy Hl Hp HlN Hpre0)|].
      intros [ok v] (P2 & P3 & P4 & P5). cbn [fst snd] in *. apply triple_ret.
      * cbn [fst snd]. split.
        -- apply hbase_set_union; [exact HB | apply nth_error_Some; congruence|].
           split; [cbn [snd]; exact (P5 Hnd0)|]. cbn [fst snd]. destruct ok.
           ++ right. exists f. split; [exact Hinf|]. split; [exact Hid|]. split; [exact Hq|]. right. exact (P3 eq_refl).
           ++ destruct (P4 eq_refl) as [Hv | [Ho | [_ (em & Hem)]]].
              ** destruct Hrel as [Hr | [Hr _]]; rewrite Hr in Hv; subst v; [apply Hweak; reflexivity | exact Hcase].
              ** apply Hweak. exact Ho.
              ** destruct Hrel as [Hr | [Hr Hcs]]; [rewrite Hr in Hem; discriminate Hem|]. subst cell0.
                 destruct (P2 eq_refl) as [Hc|Hv]; [|subst v; exact Hcase].
                 destruct Hcs as [H0|Hst].
                 --- destruct Hcase as [[_ Ho]|(f' & Hf' & Hid' & _)]; [rewrite Hem in Ho; discriminate Ho|].
                     destruct (fs_facts f' Hf') as [_ Hr]. lia.
                 --- right. exists f. split; [exact Hinf|]. split; [congruence|]. split; [exact Hq|]. right. exact Hc.
        -- intros _. apply (hfull_keep done sm id d' slots unions utab unk i (HUnion g) _ HF Ef Hs). intros a el H. discriminate H.
      * specialize (HX2 (if ok then sm_tag sm else case, v)). cbn [snd]. perm.
    + apply triple_ret; [|apply Permutation_refl]. cbn [fst snd]. split; [exact HB | intros H; discriminate H].
Qed.

(* elements appended to the array of a repeated field *)
Lemma append_ok : forall sm done id d' slots unions utab unk i f s vs',
  sm_field sm = Some i -> nth_error fs i = Some f -> nth_error slots i = Some s -> f_label f = LRepeated ->
  hbase (HM id d' slots unions utab unk) -> hfull done (HM id d' slots unions utab unk) ->
  forallb (helem_ok hw f) vs' = true -> (0 < mcnt md sm -> vs' <> []) ->
  (total md i Ms = 0 -> flat_map (owned_val owned) vs' = []) ->
  hbase (HM id d' (set_nth slots i (snd (h_append s vs'))) unions utab unk) /\
  (fst (h_append s vs') = true -> hfull (sm :: done) (HM id d' (set_nth slots i (snd (h_append s vs'))) unions utab unk)) /\
  Permutation (owned (HM id d' (set_nth slots i (snd (h_append s vs'))) unions utab unk))
              (flat_map (owned_val owned) vs' ++ owned (HM id d' slots unions utab unk)).
Proof.
  intros sm done id d' slots unions utab unk i f s vs' Ef Hn Hs El HB HF Hvs Hne Hz.
  pose proof HB as (Hd & Hlen & Hslots & Hun & Hus & Hut & Huk).
  destruct (Hslots i f Hn) as (s0 & Hs0 & Hsi). unfold hslot in *.
  pose proof (eq_trans (eq_sym Hs) Hs0) as Heq. injection Heq as <-.
  unfold hslot_base in Hsi. rewrite El in Hsi. cbn [label_eqb] in Hsi.
  destruct (owned_split_slot id d' slots unions utab unk i s Hs) as (X & HX1 & HX2).
  destruct s as [h v|[[a el]|]|g]; try contradiction.
  - destruct Hsi as [Ht Hel]. cbn [h_append fst snd]. split; [|split].
    + apply (hbase_set_slot id d' slots unions utab unk i f _ HB Hn). unfold hslot_base. rewrite El. cbn [label_eqb].
      split; [exact Ht|]. rewrite forallb_app, Hel, Hvs. reflexivity.
    + intros _. apply (hfull_set done sm id d' slots unions utab unk i _ unions HF Ef).
      intros a0 el0 He Htot. injection He as <- <-. cbn [total] in Htot. rewrite Ef, Nat.eqb_refl in Htot.
      destruct HF as [HF1 _]. destruct (Z_lt_le_dec 0 (total md i done)) as [Hd0|Hd0].
      * pose proof (HF1 i a el Hs Hd0) as Hel0. destruct el; [congruence | discriminate].
      * assert (Hv0 : vs' <> []) by (apply Hne; lia). destruct el; [exact Hv0 | discriminate].
    + specialize (HX2 (HRep (Some (a, el ++ vs')))). cbn [owned_slot] in HX1, HX2. rewrite flat_map_app in HX2. perm.
  - cbn [h_append fst snd]. rewrite (set_nth_same _ slots i (HRep None) Hs). split; [exact HB|]. split.
    + intros _. apply (hfull_keep done sm id d' slots unions utab unk i (HRep None) unions HF Ef Hs). intros a el H. discriminate H.
    + rewrite (Hz Hsi). apply Permutation_refl.
Qed.

Lemma parse_rep_spec : forall sm done id d' slots unions utab unk F i f s,
  In sm Ms -> sm_field sm = Some i -> nth_error fs i = Some f -> nth_error slots i = Some s -> f_label f = LRepeated ->
  hbase (HM id d' slots unions utab unk) -> hfull done (HM id d' slots unions utab unk) ->
  triple (owned (HM id d' slots unions utab unk) ++ F)
    (if packed_arrival f (sm_wt sm) then
       match parse_packed f sm with
       | Ok vs =>
           let '(ok, s') := h_append s (map (fun _ => HScalar) vs) in
           ret (ok, HM id d' (set_nth slots i s') unions utab unk)
       | Err _ => ret (false, HM id d' slots unions utab unk)
       end
     else
       doA r <- h_parse_required E plan usub f sm HScalar false;
       if fst r then
         let '(ok, s') := h_append s [snd r] in
         ret (ok, HM id d' (set_nth slots i s') unions utab unk)
       else ret (false, HM id d' slots unions utab unk))
    (Phi_ sm done) (fun r => owned (snd r) ++ F).
Proof.
  intros sm done id d' slots unions utab unk F i f s Hin Ef Hn Hs El HB HF.
  pose proof (proj1 (Forall_forall _ _) HMs sm Hin) as (HBy & Hl & Hp & Hl1 & Hfield & Hpok).
  pose proof (HMsN sm Hin) as HlN.
  assert (Hinf : In f fs) by (eapply nth_error_In; exact Hn).
  destruct (fs_facts f Hinf) as [Hfok _].
  assert (Hkeep : triple (owned (HM id d' slots unions utab unk) ++ F) (ret (false, HM id d' slots unions utab unk))
                         (Phi_ sm done) (fun r => owned (snd r) ++ F)).
  { apply triple_ret; [|apply Permutation_refl]. cbn [fst snd]. split; [exact HB | intros H; discriminate H]. }
  assert (Hmc : mcnt md sm = if packed_arrival f (sm_wt sm)
                             then snd (count_packed_elements (type_code (f_type f)) (sm_len sm - sm_pref sm)
                                                             (skipn (Z.to_nat (sm_pref sm)) (sm_data sm)) 0)
                             else 1).
  { unfold mcnt. rewrite Ef, Hn, El. reflexivity. }
  destruct (packed_arrival f (sm_wt sm)) eqn:Epa.
  - destruct (parse_packed f sm) as [vs|e] eqn:Epp; [|exact Hkeep].
    pose proof (packed_scalar nun f (sm_wt sm) Hfok Epa) as Hscal.
    assert (Hown : flat_map (owned_val owned) (map (fun _ : sval => HScalar) vs) = []).
    { clear. induction vs as [|v t IH]; [reflexivity|]. cbn [map flat_map owned_val app]. exact IH. }
    destruct (append_ok sm done id d' slots unions utab unk i f s (map (fun _ => HScalar) vs) Ef Hn Hs El HB HF) as (A1 & A2 & A3).
    + clear - Hscal. induction vs as [|v t IH]; [reflexivity|]. cbn [map forallb]. rewrite (helem_ok_scalar hw f Hscal). exact IH.
    + intros Hpos.
      destruct (count_packed_elements (type_code (f_type f)) (sm_len sm - sm_pref sm) (skipn (Z.to_nat (sm_pref sm)) (sm_data sm)) 0)
        as [okc c] eqn:Ec.
      pose proof (Hpok i f Ef Hn ltac:(rewrite El; reflexivity) Epa) as Hok'. rewrite Ec in Hok'. cbn [fst] in Hok'.
      rewrite Hmc in Hpos. cbn [snd] in Hpos.
      pose proof (packed_nonempty f sm okc c vs Hscal HBy Hp Hl ltac:(lia) Ec Hok' Hpos Epp) as Hv.
      destruct vs; [congruence | discriminate].
    + intros _. exact Hown.
    + destruct (h_append s (map (fun _ : sval => HScalar) vs)) as [ok s'] eqn:Ea. cbn [fst snd] in A1, A2, A3.
      apply triple_ret; [cbn [fst snd]; split; assumption|]. cbn [snd]. rewrite Hown in A3. perm.
  - eapply triple_bnd_t; [apply (parse_required_spec f sm HScalar false (owned (HM id d' slots unions utab unk) ++ F) HBy Hl Hp HlN); reflexivity|].
    intros [ok v] (P2 & P3 & P4 & P5). cbn [fst snd owned_val app] in *. destruct ok.
    + destruct (append_ok sm done id d' slots unions utab unk i f s [v] Ef Hn Hs El HB HF) as (A1 & A2 & A3).
      * cbn [forallb]. rewrite (P3 eq_refl). reflexivity.
      * intros _ H. discriminate H.
      * intros Hz. pose proof (total_ge_mcnt md Ms sm i Hmc0 Hin Ef) as Hge. lia.
      * destruct (h_append s [v]) as [ok s'] eqn:Ea. cbn [fst snd] in A1, A2, A3.
        apply triple_ret; [cbn [fst snd]; split; assumption|]. cbn [snd flat_map] in *. rewrite app_nil_r in A3. perm.
    + eapply triple_perm_pre; [exact Hkeep|].
      assert (Hov : owned_val owned v = []).
      { destruct (P4 eq_refl) as [-> | [Ho | [H _]]]; [reflexivity | apply owns_nothing_owned; exact Ho | discriminate H]. }
      rewrite Hov. apply Permutation_refl.
Qed.
(* ---------- one member *)
Lemma parse_member_spec : forall sm done m F, In sm Ms -> hbase m -> hfull done m ->
  triple (owned m ++ F) (h_parse_member E plan usub md sm m) (Phi_ sm done) (fun r => owned (snd r) ++ F).
Proof.
  intros sm done [id d' slots unions utab unk] F Hin HB HF.
  pose proof HB as (Hd & Hlen & Hslots & Hun & Hus & Hut & Huk).
  pose proof (proj1 (Forall_forall _ _) HMs sm Hin) as (HBy & Hl & Hp & Hl1 & Hfield & Hpok).
  assert (Hkeep : triple (owned (HM id d' slots unions utab unk) ++ F) (ret (false, HM id d' slots unions utab unk))
                         (Phi_ sm done) (fun r => owned (snd r) ++ F)).
  { apply triple_ret; [|apply Permutation_refl]. cbn [fst snd]. split; [exact HB | intros H; discriminate H]. }
  unfold h_parse_member.
  destruct (sm_field sm) as [i|] eqn:Ef.
  2:{ (* unknown field: the entry is appended whether or not its data could be allocated *)
      eapply triple_bnd_t; [apply triple_alloc|]. intros o _. apply triple_ret.
      - cbn [fst snd]. split.
        + unfold hbase. split; [exact Hd|]. split; [exact Hlen|]. split; [exact Hslots|]. split; [exact Hun|].
          split; [exact Hus|]. split; [exact Hut|]. intros Hn. exfalso.
          pose proof (nunk_in Ms sm Hin Ef) as Hpos. apply (proj1 Hut) in Hn. lia.
        + intros _. destruct HF as [HF1 HF2]. split.
          * intros j a el Hj Ht. apply (HF1 j a el Hj). cbn [total] in Ht. rewrite Ef in Ht. lia.
          * intros _. destruct unk; discriminate.
      - cbn [snd]. pose proof (owned_unk_app id d' slots unions utab unk o) as Hu. perm. }
  destruct (Hfield i eq_refl) as (f & Hn & Hid). rewrite Hn.
  destruct (Hslots i f Hn) as (s & Hs & Hsi). unfold hslot in *. rewrite Hs.
  assert (Hinf : In f fs) by (eapply nth_error_In; exact Hn).
  destruct (fs_facts f Hinf) as [Hfok _].
  (* the optional and the implicit-presence label run the same code *)
  match goal with
  | |- triple _ (match f_label f with LRequired => _ | LOptional => ?B | LRepeated => _ | LNone => _ end) _ _ => set (body := B)
  end.
  assert (Hopt : triple (owned (HM id d' slots unions utab unk) ++ F) body (Phi_ sm done) (fun r => owned (snd r) ++ F)).
  { unfold body. destruct s as [h old|arr|g]; [| exact Hkeep |].
    - cbv zeta.
      apply (parse_one_spec sm done id d' slots unions utab unk F i f h old
               (fun b : bool => if b then match f_quant f with QNone => h | _ => 1 end else h) Hin Ef Hn Hs HB HF).
      + intros HQ. rewrite HQ. reflexivity.
      + reflexivity.
    - destruct (nth_error unions g) as [[case cell]|] eqn:Eu; [|exact Hkeep].
      exact (parse_union_spec sm done id d' slots unions utab unk F i f g case cell Hin Ef Hn Hid Hs Eu HB HF). }
  destruct (f_label f) eqn:El; [| exact Hopt | | exact Hopt].
  - (* required *)
    destruct s as [h old|arr|g]; [| exact Hkeep | exact Hkeep].
    apply (parse_one_spec sm done id d' slots unions utab unk F i f h old (fun _ : bool => h) Hin Ef Hn Hs HB HF); [|reflexivity].
    intros HQ. exfalso. unfold field_ok in Hfok. rewrite El, HQ in Hfok. rewrite ?andb_false_r in Hfok. discriminate Hfok.
  - (* repeated *)
    exact (parse_rep_spec sm done id d' slots unions utab unk F i f s Hin Ef Hn Hs El HB HF).
Qed.

(* ---------- all members, in arrival order *)
Lemma parse_members_spec : forall rest done m F,
  (forall x, In x rest -> In x Ms) -> hbase m -> hfull done m ->
  triple (owned m ++ F) (h_parse_members E plan usub md rest m)
         (fun r => hbase (snd r) /\ (fst r = true -> hfull (rev rest ++ done) (snd r)))
         (fun r => owned (snd r) ++ F).
Proof.
  induction rest as [|sm t IH]; intros done m F Hsub HB HF; cbn [h_parse_members rev app].
  - apply triple_ret; [|apply Permutation_refl]. cbn [fst snd]. split; [exact HB | intros _; exact HF].
  - eapply triple_bnd_t; [apply (parse_member_spec sm done m F (Hsub sm (or_introl eq_refl)) HB HF)|].
    intros [ok m'] [HB' HF']. cbn [fst snd] in *. destruct ok.
    + replace ((rev t ++ [sm]) ++ done) with (rev t ++ sm :: done) by (rewrite <- app_assoc; reflexivity).
      apply IH; [intros x Hx; apply Hsub; right; exact Hx | exact HB' | exact (HF' eq_refl)].
    + apply triple_ret; [|apply Permutation_refl]. cbn [fst snd]. split; [exact HB' | intros H; discriminate H].
Qed.

(* ---------- what the invariants give at the two exits *)
Lemma hbase_slots_ok : forall c slots,
  length slots = length fs ->
  (forall i f, nth_error fs i = Some f -> exists s, nth_error slots i = Some s /\ hslot_base i f s) ->
  (c = true -> forall i a el, nth_error slots i = Some (HRep (Some (a, el))) -> el <> []) ->
  hslots_ok hw c nun fs slots = true.
Proof.
  intros c slots Hlen Hslots Hne. apply hslots_ok_pointwise; [exact Hlen|].
  intros i f s Hf Hs. destruct (Hslots i f Hf) as (s' & Hs' & Hi). unfold hslot in *.
  pose proof (eq_trans (eq_sym Hs) Hs') as Heq. injection Heq as <-.
  unfold hslot_base in Hi. destruct (label_eqb (f_label f) LRepeated) eqn:Er.
  - destruct s as [h v|[[a el]|]|g]; try contradiction.
    + destruct Hi as [_ Hel]. unfold hslot_ok. rewrite Er, Hel. cbn [andb]. destruct c; [|reflexivity].
      cbn [negb orb]. specialize (Hne eq_refl i a el Hs). destruct el; [congruence | reflexivity].
    + unfold hslot_ok. rewrite Er. reflexivity.
  - destruct s as [h v|arr|g]; [exact Hi | | exact Hi].
    unfold hslot_ok in Hi. rewrite Er in Hi. discriminate Hi.
Qed.

Lemma hunion_inv_ok : forall g cv, hunion_inv g cv -> hunion_ok hw fs g cv = true.
Proof.
  intros g [case cell] (Hnd & Hc). cbn [fst snd] in *. unfold hunion_ok. cbn [fst snd].
  destruct (owns_nothing cell) eqn:Eo; [rewrite Hnd; reflexivity|]. cbn [andb orb].
  destruct Hc as [[_ H]|(f & Hf & Hid & Hq & [H|H])]; try discriminate H.
  apply existsb_exists. exists f. split; [exact Hf|].
  destruct (fs_facts f Hf) as [Hfok _]. destruct (field_ok_case nun f g Hfok Hq) as (_ & Ho & _).
  rewrite Hid, Z.eqb_refl, (proj2 (in_group_case f g) Hq), Ho, H. reflexivity.
Qed.

Lemma hbase_hwt : forall m, hbase m -> hwt E false m = true /\ hm_d m = d.
Proof.
  intros [id d' slots unions utab unk] (Hd & Hlen & Hslots & Hun & Hus & Hut & Huk). subst d'.
  split; [|reflexivity]. rewrite hwt_eq, Hmd, Hun, Nat.eqb_refl.
  rewrite (hbase_slots_ok false slots Hlen Hslots) by (intros H; discriminate H).
  rewrite hunions_ok_pointwise by (intros g cv Hg; apply hunion_inv_ok; exact (Hus g cv Hg)).
  cbn [andb negb orb]. destruct utab as [t|]; [reflexivity|]. rewrite (Huk eq_refl). reflexivity.
Qed.

Lemma hfull_hwt : forall all m, (forall i, total md i all = total md i Ms) -> nunk all = nunk Ms ->
  hbase m -> hfull all m -> hw m = true /\ hm_d m = d.
Proof.
  intros all [id d' slots unions utab unk] Htot Hnu HB [HF1 HF2].
  pose proof HB as (Hd & Hlen & Hslots & Hun & Hus & Hut & Huk). subst d'.
  split; [|reflexivity]. rewrite hwt_eq, Hmd, Hun, Nat.eqb_refl.
  rewrite (hbase_slots_ok true slots Hlen Hslots).
  2:{ intros _ i a el Hs. apply (HF1 i a el Hs).
      assert (Hi : (i < length fs)%nat) by (rewrite <- Hlen; apply nth_error_Some; unfold hslot in *; congruence).
      destruct (nth_error fs i) as [f|] eqn:Ef; [|apply nth_error_None in Ef; lia].
      destruct (Hslots i f Ef) as (s' & Hs' & Hi'). unfold hslot in *.
      pose proof (eq_trans (eq_sym Hs) Hs') as Heq. injection Heq as <-.
      unfold hslot_base in Hi'. destruct (label_eqb (f_label f) LRepeated) eqn:Er.
      - rewrite Htot. exact (proj1 Hi').
      - unfold hslot_ok in Hi'. rewrite Er in Hi'. discriminate Hi'. }
  rewrite hunions_ok_pointwise by (intros g cv Hg; apply hunion_inv_ok; exact (Hus g cv Hg)).
  cbn [andb negb orb]. destruct utab as [t|].
  - assert (Hpos : 0 < nunk all).
    { rewrite Hnu. pose proof (nunk_nonneg Ms). destruct (Z.eq_dec (nunk Ms) 0) as [Hz|Hz]; [|lia].
      apply (proj2 Hut) in Hz. discriminate Hz. }
    specialize (HF2 Hpos). destruct unk; [congruence | reflexivity].
  - rewrite (Huk eq_refl). reflexivity.
Qed.

End Level.

(* ---------- the two error exits after the scan free a well-typed (incomplete) message *)
Lemma alloc_hwt : forall d md ok rs cs id, nth_error E d = Some md -> length cs = length (md_fields md) ->
  Forall2 (aslot ok) (combine (md_fields md) cs) rs ->
  hwt E false (HM id d rs (repeat (0, HScalar) (md_n_oneofs md)) None []) = true.
Proof.
  intros d md ok rs cs id Hmd Hl HF. destruct (Forall2_nth _ _ _ _ _ HF) as [Hlen Hnth].
  rewrite combine_length, Hl, Nat.min_id in Hlen.
  rewrite hwt_eq, Hmd, repeat_length, Nat.eqb_refl.
  rewrite hslots_ok_pointwise; [| symmetry; exact Hlen |].
  - rewrite hunions_ok_pointwise; [reflexivity|]. intros g cv Hg. apply nth_error_repeat_some in Hg. subst cv. reflexivity.
  - intros i f s Hf Hs.
    assert (Hi : (i < length cs)%nat) by (rewrite Hl; apply nth_error_Some; congruence).
    destruct (nth_error cs i) as [c|] eqn:Ec; [|apply nth_error_None in Ec; lia].
    destruct (Hnth i (f, c) (nth_error_combine _ _ _ _ i f c Hf Ec)) as (s' & Hs' & Ha). unfold hslot in *.
    pose proof (eq_trans (eq_sym Hs) Hs') as Heq. injection Heq as <-.
    apply (aslot_ok (hwt E true) (md_n_oneofs md) ok f c s); [|exact Ha].
    eapply env_field_ok_nth; eassumption.
Qed.

Theorem unpack_ok : forall fuel, spec_unpack E (h_unpack E plan szmsg fuel).
Proof.
  induction fuel as [|k IH]; intros d data R HBy HN.
  - cbn [h_unpack]. apply hoare_ret. auto.
  - assert (Hconv : triple R (h_unpack E plan szmsg (S k) d data)
                      (fun o => match o with Some m => hw m = true /\ hm_d m = d | None => True end)
                      (fun o => match o with Some m => owned m ++ R | None => R end)).
    2:{ eapply hoare_post; [exact Hconv|]. intros [m|] L [H1 H2]; [destruct H1; auto | exact H2]. }
    cbn [h_unpack]. destruct (nth_error E d) as [md|] eqn:Hmd; [|apply triple_ret; [exact I | apply Permutation_refl]].
    cbv zeta.
    eapply triple_bnd_t; [apply triple_alloc|]. intros [id|] _; cbn [opt_list app]; [|apply triple_ret; [exact I | apply Permutation_refl]].
    eapply triple_bnd_t with (Phi := fun _ => True)
      (G := fun bm : option (option nat) => match bm with None => id :: R | Some bmid => opt_list bmid ++ id :: R end).
    { destruct (128 <? Mem.zlen (md_fields md)); [|apply triple_ret; [exact I | apply Permutation_refl]].
      eapply triple_bnd_t; [apply triple_alloc|]. intros [bid|] _; apply triple_ret; try exact I; apply Permutation_refl. }
    intros [bmid|] _.
    2:{ eapply triple_bnd_t; [apply (triple_free_id id _ R); apply Permutation_refl|].
        intros u _. apply triple_ret; [exact I | apply Permutation_refl]. }
    match goal with |- context [h_scan _ _ md ?s0] => set (st0 := s0) end.
    assert (Est0 : st0 = st_init d md data) by reflexivity.
    eapply triple_bnd_t; [eapply triple_perm_pre; [apply (scan_spec plan md (S (length data)) st0 0%nat 0 [] (opt_list bmid ++ id :: R))|]; apply Permutation_refl|].
    intros [[ok st] slabs] Hscan. cbn [fst snd] in Hscan.
    assert (Hclean : forall F', triple (slabs ++ opt_list bmid ++ F') (doA _ <- iterA free_id slabs; free_opt bmid)
                                       (fun _ => True) (fun _ => F')).
    { intros F'. eapply triple_bnd_t; [apply (triple_iter_free_id slabs _ (opt_list bmid ++ F')); apply Permutation_refl|].
      intros u _. apply triple_free_opt. apply Permutation_refl. }
    destruct ok; cbn [negb].
    2:{ eapply triple_bnd_t; [apply (triple_free_id id _ (slabs ++ opt_list bmid ++ R)); cbn [snd]; perm_core|].
        intros u _. eapply triple_bnd_t; [apply Hclean|]. intros u' _. apply triple_ret; [exact I | apply Permutation_refl]. }
    specialize (Hscan eq_refl). rewrite Est0 in Hscan.
    pose proof (env_ok_desc E EO d md Hmd) as D.
    pose proof (init_scan_inv E d md data HBy) as I0.
    destruct (scan_loop_inv' E md D parse_tag_range_bytes count_packed_elements_le_len (Mem.zlen data) _ _ st ltac:(lia) Hscan I0)
      as ((HB' & HL & HMok & HDt & HSl) & Hat).
    pose proof (scan_loop_nunk E md (Mem.zlen data) D ltac:(lia) _ _ st Hscan I0) as Hnunk.
    cbn [st_init st_nunk st_members nunk] in Hnunk.
    set (Ms := st_members st) in *.
    assert (HDt' : data_total Ms + Z.of_nat (length Ms) <= Mem.zlen data).
    { rewrite Hat in HDt. change (Mem.zlen (@nil Z)) with 0 in HDt. lia. }
    assert (HMsN : forall sm, In sm Ms -> sm_len sm < 2147483648).
    { intros sm Hin. pose proof (proj1 (Forall_forall _ _) HMok sm Hin) as (_ & Hl & _).
      pose proof (data_total_member Ms sm Hin). lia. }
    assert (Hmc0 : forall sm, In sm Ms -> 0 <= mcnt md sm).
    { intros sm Hin. pose proof (mcnt_bound E md parse_tag_range_bytes count_packed_elements_le_len sm
                                  (proj1 (Forall_forall _ _) HMok sm Hin) ltac:(pose proof (HMsN sm Hin); lia)). lia. }
    assert (Htot0 : forall i, 0 <= total md i Ms).
    { intros i. pose proof (data_total_nonneg Ms).
      pose proof (total_bound E md parse_tag_range_bytes count_packed_elements_le_len Ms i HMok ltac:(lia)). lia. }
    destruct HSl as [HSlen HSl].
    (* arrays *)
    cbn [snd].
    eapply triple_bnd_t; [apply (alloc_slots_spec plan (md_fields md) (st_bitmap st) (st_slots st)
                                   (slabs ++ opt_list bmid ++ id :: R) HSlen)|].
    intros [ok2 rs] HF2. cbn [fst snd] in *.
    assert (Hown1 : forall ut, Permutation (owned (HM id d rs (repeat (0, HScalar) (md_n_oneofs md)) ut []))
                                           (id :: flat_map (owned_slot owned) rs ++ opt_list ut)).
    { intros ut. rewrite owned_eq, repeat_unions_own. cbn [flat_map app]. rewrite app_nil_r. apply Permutation_refl. }
    destruct ok2; cbn [negb].
    2:{ eapply triple_bnd_t.
        - apply (triple_free false _ _ (slabs ++ opt_list bmid ++ R) (alloc_hwt d md false rs (st_slots st) id Hmd HSlen HF2)).
          pose proof (Hown1 None) as Ho. perm.
        - intros u _. eapply triple_bnd_t; [apply Hclean|]. intros u' _. apply triple_ret; [exact I | apply Permutation_refl]. }
    (* the unknown-field table *)
    eapply triple_bnd_t with
      (Phi := fun r3 : bool * option nat => (fst r3 = false -> snd r3 = None) /\ (fst r3 = true -> (snd r3 = None <-> st_nunk st = 0)))
      (G := fun r3 : bool * option nat => opt_list (snd r3) ++ flat_map (owned_slot owned) rs ++ slabs ++ opt_list bmid ++ id :: R).
    { destruct (Z.eqb_spec (st_nunk st) 0) as [Hz|Hnz].
      - apply triple_ret; [|apply Permutation_refl]. cbn [fst snd]. split; [intros _; reflexivity | intros _; split; auto].
      - eapply triple_bnd_t; [apply triple_alloc|]. intros [tid|] _; apply triple_ret; try apply Permutation_refl; cbn [fst snd].
        + split; [intros H; discriminate H | intros _; split; [intros H; discriminate H | intros H; contradiction]].
        + split; [intros _; reflexivity | intros H; discriminate H]. }
    intros [ok3 ut] [Hut0 Hut1]. cbn [fst snd] in *.
    destruct ok3; cbn [negb].
    2:{ rewrite (Hut0 eq_refl). eapply triple_bnd_t.
        - apply (triple_free false _ _ (slabs ++ opt_list bmid ++ R) (alloc_hwt d md true rs (st_slots st) id Hmd HSlen HF2)).
          pose proof (Hown1 None) as Ho. perm.
        - intros u _. eapply triple_bnd_t; [apply Hclean|]. intros u' _. apply triple_ret; [exact I | apply Permutation_refl]. }
    specialize (Hut1 eq_refl).
    (* the members *)
    set (m2 := HM id d rs (repeat (0, HScalar) (md_n_oneofs md)) ut []).
    assert (HB2 : hbase d md Ms m2).
    { destruct (Forall2_nth _ _ _ _ _ HF2) as [Hlen2 Hnth2]. rewrite combine_length, HSlen, Nat.min_id in Hlen2.
      unfold m2, hbase. split; [reflexivity|]. split; [symmetry; exact Hlen2|]. split; [|split; [apply repeat_length|split; [|split]]].
      - intros i f Hf. pose proof (HSl i f Hf) as Hc.
        destruct (Hnth2 i (f, _) (nth_error_combine _ _ _ _ i f _ Hf Hc)) as (s & Hs & Ha). exists s. split; [exact Hs|].
        assert (Hfok : field_ok (md_n_oneofs md) f = true) by (eapply env_field_ok_nth; eassumption).
        unfold hslot_base. unfold aslot in Ha. cbn [fst snd] in Ha.
        destruct (label_eqb (f_label f) LRepeated) eqn:Er.
        + cbn [slot_cnt] in Ha. destruct Ha as [[-> Hz]|(a & -> & Hnz)]; [exact (Hz eq_refl)|].
          split; [specialize (Htot0 i); lia | reflexivity].
        + subst s. apply init_slot_ok; assumption.
      - intros g cv Hg. apply nth_error_repeat_some in Hg. subst cv. split; [reflexivity|]. left. split; reflexivity.
      - rewrite Hut1. split; intros H; lia.
      - intros _. reflexivity. }
    assert (HF2' : hfull md [] m2).
    { unfold m2, hfull. split; [intros i a el _ H; cbn [total] in H; lia | intros H; cbn [nunk] in H; lia]. }
    eapply triple_bnd_t.
    { eapply triple_perm_pre.
      - apply (parse_members_spec (h_unpack E plan szmsg k) IH d md Hmd Ms HMok HMsN Hmc0 (rev Ms) [] m2
                 (slabs ++ opt_list bmid ++ R)); [intros x Hx; apply in_rev; exact Hx | exact HB2 | exact HF2'].
      - pose proof (Hown1 ut) as Ho. fold m2 in Ho. perm. }
    intros [ok4 m4] [HB4 HF4]. cbn [fst snd] in *. destruct ok4.
    + eapply triple_bnd_t; [eapply triple_perm_pre; [apply (Hclean (owned m4 ++ R)) | perm_core]|].
      intros u _. apply triple_ret; [|apply Permutation_refl].
      apply (hfull_hwt d md Hmd Ms (rev (rev Ms) ++ [])); [| | exact HB4 | exact (HF4 eq_refl)].
      * intros i. rewrite app_nil_r, rev_involutive. reflexivity.
      * rewrite app_nil_r, rev_involutive. reflexivity.
    + destruct (hbase_hwt d md Hmd Ms m4 HB4) as [Hw4 _].
      eapply triple_bnd_t; [apply (triple_free false m4 _ (slabs ++ opt_list bmid ++ R) Hw4); apply Permutation_refl|].
      intros u _. eapply triple_bnd_t; [apply Hclean|]. intros u' _. apply triple_ret; [exact I | apply Permutation_refl].
Qed.

End HP.

(* ====================================================================== closed statements *)

Theorem heap_discipline : forall E plan szmsg d data, env_ok E = true -> spec_free E -> spec_merge E plan ->
  Forall (fun b => 0 <= b < 256) data -> Mem.zlen data < 2147483648 ->
  let r := h_unpack E plan szmsg (S (length data)) d data (mkH 0 []) in
  match fst r with
  | None => lives (snd r) []
  | Some m => lives (snd r) (owned m) /\ lives (snd (h_free E m (snd r))) []
  end.
Proof.
  intros E plan szmsg d data EO Hfree Hmerge HBy HN. cbv zeta.
  destruct (unpack_ok E plan szmsg EO Hfree Hmerge (S (length data)) d data [] HBy HN (mkH 0 []) [] (lives_init 0) (Permutation_refl _))
    as (L' & HL' & HQ & _).
  destruct (fst (h_unpack E plan szmsg (S (length data)) d data (mkH 0 []))) as [m|].
  - destruct HQ as (Hw & _ & HP). rewrite app_nil_r in HP.
    assert (Hm : lives (snd (h_unpack E plan szmsg (S (length data)) d data (mkH 0 []))) (owned m)) by (eapply lives_perm; eassumption).
    split; [exact Hm|].
    destruct (Hfree true m [] Hw _ (owned m) Hm ltac:(rewrite app_nil_r; apply Permutation_refl)) as (L2 & HL2 & HP2 & _).
    eapply lives_perm; eassumption.
  - eapply lives_perm; eassumption.
Qed.

Corollary run_discipline : forall E plan szmsg d data, env_ok E = true -> spec_free E -> spec_merge E plan ->
  Forall (fun b => 0 <= b < 256) data -> Mem.zlen data < 2147483648 ->
  lives (snd (h_run E plan szmsg d data (mkH 0 []))) [].
Proof.
  intros E plan szmsg d data EO Hfree Hmerge HBy HN.
  pose proof (heap_discipline E plan szmsg d data EO Hfree Hmerge HBy HN) as H. cbv zeta in H.
  unfold h_run. rewrite bnd_eq.
  destruct (fst (h_unpack E plan szmsg (S (length data)) d data (mkH 0 []))) as [m|].
  - destruct H as [_ H]. rewrite bnd_eq. unfold ret. cbn [snd]. exact H.
  - unfold ret. cbn [snd]. exact H.
Qed.

(* C07 -- all message memory comes from, and returns to, the caller's allocator.
   Proved on the allocation-level model of the parser (Impl/Heap.v: every do_alloc / do_free of
   protobuf_c_message_unpack, merge_messages and protobuf_c_message_free_unpacked, in the order the C code performs
   them; heap pointers carry the number of the allocator request that produced the block; comparisons with the static
   default values are modelled, a default handed to free is an event EvX):
   for every generator-producible environment (env_ok), every message type, every input shorter than 2^31 -- accepted
   or rejected, with merging, oneof replacement, any number of field occurrences (slabs), more than 128 fields
   (bitmap), unknown fields -- the sequence of allocator events obeys the discipline `replay` (Impl/HeapInv.v: no
   block granted twice, nothing freed that is not a live block -- no double free, no foreign pointer --, no static
   default freed); when parsing fails nothing is outstanding at return; when it succeeds the live blocks are exactly
   the blocks the message owns, and free_unpacked hands each of them back once, leaving nothing.  The statement is for
   an arbitrary refusal plan; C07 proper is the instance "no request refused", C08 the general one.
   The model is tied to protobuf-c.c on every run: the check compares its event sequence (request numbers and sizes)
   with the one the real library produces through a recording allocator, token by token.
   Also kept: the trace monitor of the first version (Impl/Ledger.v), proved sound, which judges the REAL traces. *)
From Coq Require Import ZArith List Bool.
From PBC Require Import Impl.Desc Impl.Mem Impl.Canon Impl.Ledger Impl.Heap Impl.HeapInv Impl.Unpack Proofs.Shape Proofs.LedgerSound Proofs.HeapSafe Proofs.HeapSim Proofs.HeapSim2 Proofs.Examples.
From PBC Require Proofs.LeafSafe.
Local Open Scope Z_scope.
Import ListNotations.

(* ---- the parser itself (allocation-level model) *)
Theorem C07_every_block_is_returned_exactly_once : forall (E : env) (szmsg : nat -> Z) (d : nat) (data : list Z),
  env_ok E = true -> Forall (fun b => 0 <= b < 256) data -> Mem.zlen data < 2147483648 ->
  let r := h_unpack E (fun _ => false) szmsg (S (length data)) d data (mkH 0 []) in
  match fst r with
  | None => live_of (snd r) = Some []                                        (* rejected: everything already returned *)
  | Some m => lives (snd r) (owned m) /\                                     (* accepted: live = what the message owns *)
              live_of (snd (h_free E m (snd r))) = Some []                   (* and freeing it returns all of it *)
  end.
Proof. intros E szmsg d data. exact (heap_trace_discipline E (fun _ => false) szmsg d data). Qed.
Print Assumptions C07_every_block_is_returned_exactly_once.

(* both outcomes occur on the example environment: an accepted input (3 blocks, all returned by free_unpacked) and a
   rejected one (the message block requested and returned before the call returns) *)
Example C07_nonvacuous :
  (let r := h_run ex_env (fun _ => false) (fun _ => 152) 0 [8; 150; 1; 26; 2; 1; 2; 58; 2; 8; 1] (mkH 0 []) in
   fst r = true /\ (length (h_trace (snd r)) = 6)%nat /\ live_of (snd r) = Some []) /\
  (let r := h_run ex_env (fun _ => false) (fun _ => 152) 0 [8; 150; 1; 26; 9; 1] (mkH 0 []) in
   fst r = false /\ h_trace (snd r) = [EvF 0; EvA 0 152] /\ live_of (snd r) = Some []).
Proof. vm_compute. repeat split. Qed.

(* ---- the two models of the parser agree: with no request refused, the allocation-level model returns NULL exactly when
   the value-level model (the subject of C01, C04-C06, C09-C11) rejects, and otherwise builds a message of the same shape
   (same pointer states, has flags, oneof cases, counts: Proofs/HeapSim.v sim_msg).  For every input of less than 2^31
   bytes: protobuf-c and the allocation-level model give up at the 134217713th member of one message ("too many
   fields": 23 slabs), and the value-level model now has the same limit (Impl/Unpack.v: max_members, tested right
   after the scan).  (The proof of this theorem found that the value-level model lacked it, then only agreeing up to
   268435425 bytes; harness/c/findings/slab_limit.c shows the limit on the library; listed as a finding under C04.) *)
Theorem C07_the_two_parser_models_decide_alike : forall (E : env) (szmsg : nat -> Z) d data s,
  env_ok E = true -> LeafSafe.bytes data -> Mem.zlen data < 2147483648 -> (d < length E)%nat ->
  (fst (h_unpack E (fun _ => false) szmsg (S (length data)) d data s) = None <-> unpack_top E d data = Err EFail) /\
  (forall hm, fst (h_unpack E (fun _ => false) szmsg (S (length data)) d data s) = Some hm ->
     exists m, unpack_top E d data = Ok m /\ sim_msg m hm /\ shape_msg E m = true /\ m_desc m = d).
Proof. exact h_unpack_accepts_iff. Qed.
Print Assumptions C07_the_two_parser_models_decide_alike.

(* the step at which the C code and the allocation-level model say "too many fields" (all 23 slabs full, one more member):
   where the two models differed before the value-level one was given the limit (the name is kept) *)
Theorem C07_slab_limit_is_where_they_differ : forall plan md k st slabs s, st_at st <> [] -> scan_pre (st_at st) = true ->
  fst (fst (fst (h_scan plan (S k) md st 22 (Z.shiftl 16 22) slabs s))) = false.
Proof. exact h_scan_slab_limit. Qed.
Print Assumptions C07_slab_limit_is_where_they_differ.

(* ---- the monitor that judges the real traces *)
Theorem C07_monitor_sound_partial : forall evs, monitor evs = true -> discipline evs.
Proof. exact monitor_sound. Qed.
Print Assumptions C07_monitor_sound_partial.

(* the monitor accepts the two shapes a correct run has, and rejects a leak on failure, a double free,
   success after a refusal, and a free of something that is not a live block (e.g. a static default) *)
Theorem C07_monitor_nonvacuous :
  (monitor [EvAlloc 0 152; EvAlloc 1 48; EvAlloc 2 301; EvRet true; EvFree 2; EvFree 1; EvFree 0; EvFreeDone] = true /\
   monitor [EvAlloc 0 152; EvAlloc 1 48; EvRefuse 2 301; EvFree 1; EvFree 0; EvRet false] = true) /\
  (monitor [EvAlloc 0 152; EvAlloc 1 48; EvRefuse 2 301; EvFree 1; EvRet false] = false /\
   monitor [EvAlloc 0 8; EvRet true; EvFree 0; EvFree 0; EvFreeDone] = false /\
   monitor [EvAlloc 0 8; EvRefuse 1 8; EvRet true; EvFree 0; EvFreeDone] = false /\
   monitor [EvAlloc 0 8; EvRet true; EvBadFree; EvFree 0; EvFreeDone] = false).
Proof. exact (conj ledger_accepts ledger_rejects). Qed.
Print Assumptions C07_monitor_nonvacuous.

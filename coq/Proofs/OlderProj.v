(* C09: the projection of a message of the newer schema onto the older one ([proj]): what the older program holds
   after parsing the newer program's bytes.  Slots of the fields the older schema still has (sub-messages
   projected recursively); a union whose selected member was dropped is back in its initial state; the wire
   records of the dropped fields, in the order pack_msg wrote them, become unknown fields in front of the
   message's own unknown fields.
   Also the message-level tools that do not depend on the field analysis: byte strings as lists of SEGMENTS
   (the records of one number), the reordering "kept segments first" ([unpack_segs_reorder]), and what the
   projection does to the unions. *)
From Coq Require Import ZArith List Bool Lia ZifyBool.
From PBC Require Proofs.LeafSafe Proofs.Records.
From PBC Require Import Base.CInt Base.Bits Gen.LeafC Spec.Wire
     Impl.Desc Impl.Mem Impl.Enc Impl.Pack Impl.WF Impl.Unpack Impl.Canon Impl.Older
     Proofs.SizePack Proofs.ScanRec Proofs.ScanRecs Proofs.FieldRT Proofs.FieldPkg Proofs.MsgRT Proofs.MsgRT2 Proofs.MsgRT3 Proofs.MsgRT4
     Proofs.Commute Proofs.OlderEnv Proofs.OlderQuads Proofs.OlderRecs Proofs.OlderField.
Import ListNotations.
Local Open Scope Z_scope.

Ltac Zify.zify_post_hook ::= Z.div_mod_to_equations.

Local Notation brec_ok := Records.rec_ok.
Local Notation rreorder := Records.rreorder.
Local Notation wrec_ok := ScanRecs.rec_ok.

(* ---------- the projection *)
Fixpoint sel {A} (bs : list bool) (l : list A) : list A :=
  match bs, l with
  | b :: bs', x :: l' => if b then x :: sel bs' l' else sel bs' l'
  | _, _ => []
  end.

Section Proj.
Variable E : env.
Variable keep : nat -> field -> bool.

(* the records pack_msg writes for the fields the older schema does not have, as unknown fields *)
Definition dropped_unk (kd : field -> bool) (um : list (Z * sval)) : list field -> list slot -> list ufield :=
  fix go (fs : list field) (ss : list slot) {struct ss} : list ufield :=
    match fs, ss with
    | f :: fs', s :: ss' =>
        (if kd f then []
         else match pk_field (pack_msg E) um f s with Ok F => split_recs F | Err _ => [] end) ++ go fs' ss'
    | _, _ => []
    end.

Fixpoint proj (m : msg) : msg :=
  match m with
  | Msg d slots um unk =>
      match nth_error E d with
      | None => Msg d slots um unk
      | Some md =>
          let fs := md_fields md in
          Msg d (sel (map (keep d) fs) (map (map_slot (pcell proj)) slots))
              (map (punion proj (filter (keep d) fs)) um)
              (dropped_unk (keep d) um fs slots ++ unk)
      end
  end.

Lemma proj_desc : forall m, m_desc (proj m) = m_desc m.
Proof. intros [d slots um unk]. cbn [proj]. destruct (nth_error E d); reflexivity. Qed.

End Proj.

(* ---------- small list facts *)
Lemma filter_map_flag : forall A B (p : A -> bool) (g : A -> B) l,
  filter (fun b : bool * B => fst b) (map (fun t => (p t, g t)) l) = map (fun t => (p t, g t)) (filter p l).
Proof.
  intros A B p g. induction l as [|x l IH]; [reflexivity|]. cbn [map filter fst].
  destruct (p x) eqn:Ep; cbn [map]; rewrite ?Ep, IH; reflexivity.
Qed.

Lemma filter_map_nflag : forall A B (p : A -> bool) (g : A -> B) l,
  filter (fun b : bool * B => negb (fst b)) (map (fun t => (p t, g t)) l) =
  map (fun t => (p t, g t)) (filter (fun t => negb (p t)) l).
Proof.
  intros A B p g. induction l as [|x l IH]; [reflexivity|]. cbn [map filter fst].
  destruct (p x) eqn:Ep; cbn [negb map]; rewrite ?Ep, IH; reflexivity.
Qed.

Lemma concat_length_partition : forall A B (p : A -> bool) (g : A -> list B) l,
  length (concat (map g l)) =
  (length (concat (map g (filter p l))) + length (concat (map g (filter (fun t => negb (p t)) l))))%nat.
Proof.
  intros A B p g. induction l as [|x l IH]; [reflexivity|]. cbn [map concat filter]. rewrite app_length, IH.
  destruct (p x); cbn [negb map concat]; rewrite ?app_length; lia.
Qed.

Lemma concat_length_ext : forall A B (g h : A -> list B) l, Forall (fun x => length (g x) = length (h x)) l ->
  length (concat (map g l)) = length (concat (map h l)).
Proof.
  intros A B g h l H. induction H as [|x l Hx _ IH]; [reflexivity|]. cbn [map concat]. rewrite !app_length. lia.
Qed.

Lemma Forall_filter : forall A (P : A -> Prop) p l, Forall P l -> Forall P (filter p l).
Proof. intros A P p l H. rewrite Forall_forall in *. intros x Hx. apply filter_In in Hx. apply H. tauto. Qed.

Lemma bytes_concat : forall (l : list (list Z)), (forall b, In b l -> LeafSafe.bytes b) -> LeafSafe.bytes (concat l).
Proof.
  induction l as [|b l IH]; intros H; [constructor|]. cbn [concat]. apply Records.bytes_app.
  - apply H. left. reflexivity.
  - apply IH. intros x Hx. apply H. right. exact Hx.
Qed.

(* ---------- segments: the records of one number *)
Definition seg := (bool * Z * list wrec)%type.
Definition sg_k (s : seg) : bool := fst (fst s).
Definition sg_id (s : seg) : Z := snd (fst s).
Definition sg_recs (s : seg) : list wrec := snd s.
Definition seg_bytes (s : seg) : list Z := concat (map (rec_bytes (sg_id s)) (sg_recs s)).

(* the records of number id as the scanner for md reads them *)
Definition blockof (md : mdesc) (id : Z) (recs : list wrec) : list (list Z * smember) :=
  map (fun r => (rec_bytes id r, rec_member id (find_field md id) r)) recs.
Definition seg_recs (md : mdesc) (s : seg) : list (list Z * smember) := blockof md (sg_id s) (sg_recs s).
Definition seg_block (md : mdesc) (s : seg) : bool * list (list Z * smember) := (sg_k s, seg_recs md s).
Definition seg_ok (md : mdesc) (s : seg) : Prop := Forall (brec_ok md) (seg_recs md s).

Lemma blockof_bytes : forall md id recs, concat (map fst (blockof md id recs)) = concat (map (rec_bytes id) recs).
Proof. intros md id recs. unfold blockof. rewrite map_map. reflexivity. Qed.

Lemma segs_bytes : forall md (l : list seg),
  concat (map fst (concat (map (seg_recs md) l))) = concat (map seg_bytes l).
Proof.
  intros md. induction l as [|s l IH]; [reflexivity|]. cbn [map concat].
  rewrite map_app, concat_app, IH. unfold seg_recs at 1. rewrite blockof_bytes. reflexivity.
Qed.

Lemma segs_ok_flat : forall md (l : list seg), Forall (seg_ok md) l ->
  Forall (brec_ok md) (concat (map (seg_recs md) l)).
Proof.
  intros md l H. induction H as [|s l Hs _ IH]; [constructor|]. cbn [map concat].
  apply Forall_app. split; [exact Hs | exact IH].
Qed.

Section SegsKnown.
Variable nenv : nat.
Variable md : mdesc.
Hypothesis D : desc_ok nenv md = true.

Lemma seg_ok_known : forall b i f recs,
  nth_error (md_fields md) i = Some f -> Forall wrec_ok recs ->
  (f_label f = LRepeated -> exists cs, Forall2 (rec_cnt f) recs cs) ->
  zlen (concat (map (rec_bytes (f_id f)) recs)) < 4294967296 ->
  seg_ok md (b, f_id f, recs).
Proof.
  intros b i f recs Hn Hok Hcnt Hlen. unfold seg_ok, seg_recs, sg_id, sg_recs. cbn [fst snd]. unfold blockof.
  rewrite (find_field_known nenv md D i f Hn).
  assert (Hc : forall r, In r recs -> f_label f = LRepeated -> exists c, rec_cnt f r c).
  { intros r Hr El. destruct (Hcnt El) as (cs & Hcs). clear - Hcs Hr. induction Hcs as [|r0 c0 rs cs0 H0 _ IH]; [contradiction|].
    destruct Hr as [<-|Hr]; [exists c0; exact H0 | exact (IH Hr)]. }
  clear Hcnt. induction Hok as [|r rs Hr _ IH]; [constructor|]. cbn [map concat] in *.
  rewrite zlen_app in Hlen. pose proof (zlen_nonneg _ (rec_bytes (f_id f) r)).
  pose proof (zlen_nonneg _ (concat (map (rec_bytes (f_id f)) rs))).
  constructor.
  - apply (brec_known nenv md D i f r Hn Hr); [intros El; apply (Hc r (or_introl eq_refl) El) | unfold Mem.zlen in *; lia].
  - apply IH; [lia | intros r' Hr'; apply Hc; right; exact Hr'].
Qed.

Lemma seg_ok_unknown : forall b id recs,
  0 < id < 536870912 -> existsb (Z.eqb id) (map f_id (md_fields md)) = false -> Forall wrec_ok recs ->
  zlen (concat (map (rec_bytes id) recs)) < 4294967296 ->
  seg_ok md (b, id, recs).
Proof.
  intros b id recs Hid Hex Hok Hlen. unfold seg_ok, seg_recs, sg_id, sg_recs. cbn [fst snd]. unfold blockof.
  rewrite (find_field_unknown nenv md D id Hid Hex).
  induction Hok as [|r rs Hr _ IH]; [constructor|]. cbn [map concat] in *.
  rewrite zlen_app in Hlen. pose proof (zlen_nonneg _ (rec_bytes id r)).
  pose proof (zlen_nonneg _ (concat (map (rec_bytes id) rs))).
  constructor.
  - apply (brec_unknown nenv md D id r Hid Hex Hr). unfold Mem.zlen in *. lia.
  - apply IH. lia.
Qed.

End SegsKnown.

(* ---------- the kept segments first *)
Section SegsReorder.
Variable EE : env.
Hypothesis EO : env_ok EE = true.

Theorem unpack_segs_reorder : forall k d md (segs usegs : list seg),
  nth_error EE d = Some md ->
  Forall (seg_ok md) segs -> Forall (seg_ok md) usegs ->
  (forall s1 s2 r1 r2, In s1 segs -> In s2 segs -> sg_k s1 = false -> sg_k s2 = true ->
     In r1 (sg_recs s1) -> In r2 (sg_recs s2) ->
     indep md (rec_member (sg_id s1) (find_field md (sg_id s1)) r1) (rec_member (sg_id s2) (find_field md (sg_id s2)) r2)) ->
  zlen (concat (map seg_bytes segs) ++ concat (map seg_bytes usegs)) < 2147483648 ->
  res_eq (unpack EE (S k) d (concat (map seg_bytes segs) ++ concat (map seg_bytes usegs)))
         (unpack EE (S k) d (concat (map seg_bytes (filter sg_k segs)) ++
                             concat (map seg_bytes (filter (fun s => negb (sg_k s)) segs)) ++
                             concat (map seg_bytes usegs))).
Proof.
  intros k d md segs usegs Hmd Hok Huok Hind Hlen.
  set (blocks := map (fun s => (sg_k s, seg_recs md s)) segs).
  set (prsU := concat (map (seg_recs md) usegs)).
  assert (E1 : concat (map seg_bytes segs) ++ concat (map seg_bytes usegs) =
               concat (map fst (concat (map snd blocks) ++ prsU))).
  { subst blocks prsU. rewrite map_app, concat_app. rewrite map_map. cbn [snd]. rewrite !segs_bytes. reflexivity. }
  assert (E2 : concat (map seg_bytes (filter sg_k segs)) ++
               concat (map seg_bytes (filter (fun s => negb (sg_k s)) segs)) ++ concat (map seg_bytes usegs) =
               concat (map fst ((part_kept blocks ++ part_drop blocks) ++ prsU))).
  { subst blocks prsU. unfold part_kept, part_drop.
    rewrite (filter_map_flag _ _ sg_k (seg_recs md)).
    rewrite (filter_map_nflag _ _ sg_k (seg_recs md)).
    rewrite !map_app, !concat_app, !map_map. cbn [snd].
    rewrite !segs_bytes. rewrite app_assoc. reflexivity. }
  rewrite E1 in Hlen |- *. rewrite E2.
  apply (unpack_records_fuel EE EO k d md _ _ Hmd).
  - apply Forall_app. split.
    + subst blocks. rewrite map_map. cbn [snd]. apply segs_ok_flat. exact Hok.
    + subst prsU. apply segs_ok_flat. exact Huok.
  - apply rr_app_r. apply rr_partition.
    intros x y A B HA HB Hx Hy. subst blocks.
    apply in_map_iff in HA. destruct HA as (s1 & Hs1 & Hin1). apply in_map_iff in HB. destruct HB as (s2 & Hs2 & Hin2).
    inversion Hs1 as [[K1 B1]]. inversion Hs2 as [[K2 B2]]. subst A B.
    unfold seg_recs, blockof in Hx, Hy. apply in_map_iff in Hx. destruct Hx as (r1 & <- & Hr1).
    apply in_map_iff in Hy. destruct Hy as (r2 & <- & Hr2). cbn [snd].
    apply (Hind s1 s2 r1 r2 Hin1 Hin2 K1 K2 Hr1 Hr2).
  - unfold Mem.zlen, zlen in *. exact Hlen.
Qed.

End SegsReorder.

(* ---------- the unions under the projection *)
Lemma um_rel_proj : forall pm (kept : list field) f um, In f kept -> 0 < f_id f ->
  um_rel pm f um (map (punion pm kept) um).
Proof.
  intros pm kept f um Hin Hid g c v Hg. rewrite nth_error_map, Hg. cbn [option_map]. unfold punion. cbn [fst snd].
  destruct (Z.eqb_spec c (f_id f)) as [-> | Hne].
  - replace (existsb (fun f0 : field => f_id f0 =? f_id f) kept) with true; [reflexivity|].
    symmetry. apply existsb_exists. exists f. split; [exact Hin | lia].
  - destruct (existsb (fun f0 : field => f_id f0 =? c) kept).
    + exists c, (pcell pm v). split; [reflexivity | exact Hne].
    + exists 0, (VWord 0). split; [reflexivity | lia].
Qed.

Section UnionsProj.
Variable nenv : nat.
Variable md : mdesc.
Hypothesis D : desc_ok nenv md = true.
Variable kd : field -> bool.
Variable pm : msg -> msg.

Lemma in_fields_unique : forall f g, In f (md_fields md) -> In g (md_fields md) -> f_id f = f_id g -> f = g.
Proof.
  intros f g Hf Hg Hid. apply In_nth_error in Hf, Hg. destruct Hf as (i & Hi). destruct Hg as (j & Hj).
  assert (i = j) by (eapply (field_index_unique nenv md D); eauto). subst j. congruence.
Qed.

Lemma canon_unions_proj : forall um g0,
  canon_unions (md_fields md) g0 um = true ->
  canon_unions (filter kd (md_fields md)) g0 (map (punion pm (filter kd (md_fields md))) um) = true.
Proof.
  induction um as [|cv um IH]; intros g0 C; [reflexivity|].
  cbn [canon_unions map] in *. apply andb_true_iff in C. destruct C as [C1 C2].
  rewrite (IH (S g0) C2), andb_true_r.
  unfold punion.
  destruct (existsb (fun f : field => f_id f =? fst cv) (filter kd (md_fields md))) eqn:Ex; cbn [fst snd].
  - apply orb_true_iff. left.
    apply existsb_exists in Ex. destruct Ex as (f' & Hf' & Hid'). apply Z.eqb_eq in Hid'.
    apply filter_In in Hf'. destruct Hf' as [Hin' Hk'].
    apply orb_true_iff in C1. destruct C1 as [C1|C1].
    + apply existsb_exists in C1. destruct C1 as (f & Hin & Hf). apply andb_true_iff in Hf. destruct Hf as [Hid Hq].
      apply Z.eqb_eq in Hid.
      assert (f = f') by (apply in_fields_unique; [exact Hin | exact Hin' | congruence]). subst f'.
      apply existsb_exists. exists f. split; [apply filter_In; split; assumption|].
      apply andb_true_iff. split; [lia | exact Hq].
    + exfalso. apply andb_true_iff in C1. destruct C1 as [C0 _].
      destruct (desc_ok_fields nenv md D f' Hin') as (_ & Hr & _). lia.
  - apply orb_true_iff. right. reflexivity.
Qed.

End UnionsProj.

(* The scanning loop over a run of well-formed records of one known field. *)
From Coq Require Import ZArith List Bool Lia ZifyBool.
From PBC Require Import Base.CInt Base.Bits Gen.LeafC Spec.Wire
     Impl.Desc Impl.Mem Impl.Enc Impl.WF Impl.Unpack Impl.Canon
     Proofs.LeafEnc Proofs.EncLemmas Proofs.LeafDec Proofs.SizePack Proofs.ScanRec.
Import ListNotations.
Local Open Scope Z_scope.

Definition wrec := (Z * list Z * Z)%type.       (* wire type, payload, length-prefix length *)
Definition r_wt (r : wrec) := fst (fst r).
Definition r_payload (r : wrec) := snd (fst r).
Definition r_pref (r : wrec) := snd r.
Definition rec_bytes (id : Z) (r : wrec) : list Z := e_tag id (r_wt r) ++ r_payload r.
Definition rec_member (id : Z) (fidx : option nat) (r : wrec) : smember :=
  new_member id (r_wt r) fidx (r_payload r) (r_pref r).
Definition rec_ok (r : wrec) : Prop := 0 <= r_wt r < 8 /\ payload_ok (r_wt r) (r_payload r) (r_pref r).

(* how many elements the scanner counts for one record of field f *)
Definition rec_cnt (f : field) (r : wrec) (c : Z) : Prop :=
  0 <= c /\
  if packed_arrival f (r_wt r) then
    count_packed_elements (type_code (f_type f)) (zlen (r_payload r) - r_pref r)
      (skipn (Z.to_nat (r_pref r)) (r_payload r)) 0 = (1, c)
  else c = 1.

Lemma scan_loop_step : forall fuel md st, st_at st <> [] ->
  scan_loop (S fuel) md st = (do st' <- scan_one md st; scan_loop fuel md st').
Proof. intros fuel md st H. cbn [scan_loop]. destruct (st_at st); [congruence | reflexivity]. Qed.

Lemma key_nonempty : forall id wt, 0 < id < 536870912 -> 0 <= wt < 8 -> e_tag id wt <> [].
Proof. intros id wt Hid Hwt E. destruct (key_wfv id wt Hid Hwt) as (W & _). rewrite E in W. exact W. Qed.

Lemma set_nth_same : forall A (l : list A) i x, nth_error l i = Some x -> set_nth l i x = l.
Proof.
  induction l as [|y l IH]; intros i x H; destruct i; cbn in *; try discriminate; [inversion H; reflexivity|].
  f_equal. apply IH. exact H.
Qed.
Lemma set_nth_set_nth : forall A (l : list A) i x y, set_nth (set_nth l i x) i y = set_nth l i y.
Proof. induction l as [|z l IH]; intros i x y; destruct i; cbn; try reflexivity. f_equal. apply IH. Qed.
Lemma nth_error_set_nth : forall A (l : list A) i x, (i < length l)%nat -> nth_error (set_nth l i x) i = Some x.
Proof.
  induction l as [|z l IH]; intros i x H; [cbn in H; lia|]. destruct i; cbn; [reflexivity|]. apply IH. cbn in H. lia.
Qed.
Lemma set_nth_length : forall A (l : list A) i x, length (set_nth l i x) = length l.
Proof. induction l as [|z l IH]; intros i x; destruct i; cbn; auto. Qed.

Section ScanRecs.
Variable nenv : nat.
Variable md : mdesc.
Hypothesis D : desc_ok nenv md = true.

Definition after_recs (st : sstate) (i : nat) (f : field) (recs : list wrec) (rest : list Z) (slots : list slot) : sstate :=
  match recs with
  | [] => st
  | _ =>
    {| st_at := rest; st_last := Some i; st_last_idx := i;
       st_bitmap := if label_eqb (f_label f) LRequired then set_nth (st_bitmap st) i true else st_bitmap st;
       st_members := rev (map (rec_member (f_id f) (Some i)) recs) ++ st_members st;
       st_slots := slots; st_nunk := st_nunk st |}
  end.

(* records of a non-repeated field: counters untouched *)
Lemma scan_records_single : forall recs st i f rest,
  nth_error (md_fields md) i = Some f ->
  label_eqb (f_label f) LRepeated = false ->
  st_at st = concat (map (rec_bytes (f_id f)) recs) ++ rest ->
  Forall rec_ok recs -> zlen (st_at st) < 4294967296 -> cache_ok md st ->
  forall fuel, scan_loop (length recs + fuel) md st = scan_loop fuel md (after_recs st i f recs rest (st_slots st)).
Proof.
  induction recs as [|r recs IH]; intros st i f rest Hn Hrep Hat Hok Hlen Hc fuel.
  - cbn [length Nat.add after_recs]. reflexivity.
  - inversion Hok as [|? ? [Hwt Hp] Hok']; subst.
    destruct (desc_ok_parts nenv md D) as (_ & Hb & _).
    assert (Hid : 0 < f_id f < 536870912) by (apply Hb; apply in_map; eapply nth_error_In; eauto).
    cbn [map concat] in Hat. unfold rec_bytes at 1 in Hat. rewrite <- !app_assoc in Hat.
    cbn [length Nat.add]. rewrite scan_loop_step.
    2:{ rewrite Hat. intros E. apply app_eq_nil in E. destruct E as [E _]. exact (key_nonempty _ _ Hid Hwt E). }
    rewrite (scan_one_known nenv md D st i f (r_wt r) (r_payload r) (r_pref r)
               (concat (map (rec_bytes (f_id f)) recs) ++ rest) (st_slots st) Hn Hat Hwt Hp Hlen Hc).
    2:{ rewrite Hrep. reflexivity. }
    cbn [bind].
    set (st1 := scanned st (f_id f) (r_wt r) (Some i) (r_payload r) (concat (map (rec_bytes (f_id f)) recs) ++ rest)
                  (r_pref r) (if label_eqb (f_label f) LRequired then set_nth (st_bitmap st) i true else st_bitmap st)
                  (st_slots st)).
    assert (Hlen1 : zlen (st_at st1) < 4294967296).
    { subst st1. cbn [scanned st_at]. rewrite Hat in Hlen. rewrite !zlen_app in Hlen.
      pose proof (zlen_nonneg _ (e_tag (f_id f) (r_wt r))). pose proof (zlen_nonneg _ (r_payload r)).
      rewrite zlen_app. lia. }
    assert (Hc1 : cache_ok md st1).
    { subst st1. unfold cache_ok. cbn [scanned st_last st_last_idx]. split; [reflexivity|].
      apply nth_error_Some. rewrite Hn. discriminate. }
    rewrite (IH st1 i f rest Hn Hrep eq_refl Hok' Hlen1 Hc1 fuel).
    f_equal. destruct recs as [|r2 recs2].
    + subst st1. cbn [after_recs map rev app]. unfold scanned, rec_member. reflexivity.
    + subst st1. cbn [after_recs scanned st_bitmap st_members st_slots st_nunk].
      f_equal.
      * destruct (label_eqb (f_label f) LRequired); [apply set_nth_set_nth | reflexivity].
      * cbn [map rev]. rewrite <- !app_assoc. reflexivity.
Qed.

(* records of a repeated field: the element counter of slot i accumulates *)
Lemma scan_records_repeated : forall recs cs st i f rest n cap arr,
  nth_error (md_fields md) i = Some f ->
  label_eqb (f_label f) LRepeated = true ->
  st_at st = concat (map (rec_bytes (f_id f)) recs) ++ rest ->
  Forall rec_ok recs -> Forall2 (rec_cnt f) recs cs ->
  zlen (st_at st) < 4294967296 -> cache_ok md st ->
  nth_error (st_slots st) i = Some (SRep n cap arr) -> 0 <= n ->
  n + fold_right Z.add 0 cs < 18446744073709551616 ->
  forall fuel, scan_loop (length recs + fuel) md st =
               scan_loop fuel md (after_recs st i f recs rest
                                    (set_nth (st_slots st) i (SRep (n + fold_right Z.add 0 cs) cap arr))).
Proof.
  induction recs as [|r recs IH]; intros cs st i f rest n cap arr Hn Hrep Hat Hok Hcnt Hlen Hc Hslot Hn0 Hsum fuel.
  - cbn [length Nat.add after_recs]. reflexivity.
  - inversion Hok as [|? ? [Hwt Hp] Hok']; subst.
    inversion Hcnt as [|? c ? cs' [Hc0 Hrc] Hcnt']; subst.
    cbn [fold_right] in Hsum.
    assert (Hcs : 0 <= fold_right Z.add 0 cs').
    { clear - Hcnt'. induction Hcnt' as [|? ? ? ? [H0 _] _ IHc]; cbn [fold_right]; lia. }
    destruct (desc_ok_parts nenv md D) as (_ & Hb & _).
    assert (Hid : 0 < f_id f < 536870912) by (apply Hb; apply in_map; eapply nth_error_In; eauto).
    cbn [map concat] in Hat. unfold rec_bytes at 1 in Hat. rewrite <- !app_assoc in Hat.
    cbn [length Nat.add]. rewrite scan_loop_step.
    2:{ rewrite Hat. intros E. apply app_eq_nil in E. destruct E as [E _]. exact (key_nonempty _ _ Hid Hwt E). }
    assert (Hbump : bump_count (st_slots st) i c = Ok (set_nth (st_slots st) i (SRep (n + c) cap arr))).
    { unfold bump_count. rewrite Hslot. rewrite u64_small by lia. reflexivity. }
    rewrite (scan_one_known nenv md D st i f (r_wt r) (r_payload r) (r_pref r)
               (concat (map (rec_bytes (f_id f)) recs) ++ rest)
               (set_nth (st_slots st) i (SRep (n + c) cap arr)) Hn Hat Hwt Hp Hlen Hc).
    2:{ rewrite Hrep. destruct (packed_arrival f (r_wt r)).
        - exists c. split; [exact Hrc | exact Hbump].
        - subst c. exact Hbump. }
    cbn [bind].
    set (st1 := scanned st (f_id f) (r_wt r) (Some i) (r_payload r) (concat (map (rec_bytes (f_id f)) recs) ++ rest)
                  (r_pref r) (if label_eqb (f_label f) LRequired then set_nth (st_bitmap st) i true else st_bitmap st)
                  (set_nth (st_slots st) i (SRep (n + c) cap arr))).
    assert (Hlen1 : zlen (st_at st1) < 4294967296).
    { subst st1. cbn [scanned st_at]. rewrite Hat in Hlen. rewrite !zlen_app in Hlen.
      pose proof (zlen_nonneg _ (e_tag (f_id f) (r_wt r))). pose proof (zlen_nonneg _ (r_payload r)).
      rewrite zlen_app. lia. }
    assert (Hc1 : cache_ok md st1).
    { subst st1. unfold cache_ok. cbn [scanned st_last st_last_idx]. split; [reflexivity|].
      apply nth_error_Some. rewrite Hn. discriminate. }
    assert (Hil : (i < length (st_slots st))%nat) by (apply nth_error_Some; rewrite Hslot; discriminate).
    assert (Hslot1 : nth_error (st_slots st1) i = Some (SRep (n + c) cap arr)).
    { subst st1. cbn [scanned st_slots]. apply nth_error_set_nth. exact Hil. }
    rewrite (IH cs' st1 i f rest (n + c) cap arr Hn Hrep eq_refl Hok' Hcnt' Hlen1 Hc1 Hslot1 ltac:(lia) ltac:(lia) fuel).
    f_equal. destruct recs as [|r2 recs2].
    + inversion Hcnt'; subst. subst st1. cbn [after_recs map rev app fold_right].
      unfold scanned, rec_member. f_equal. f_equal. f_equal. lia.
    + subst st1. cbn [after_recs scanned st_bitmap st_members st_slots st_nunk].
      f_equal.
      * destruct (label_eqb (f_label f) LRequired); [apply set_nth_set_nth | reflexivity].
      * cbn [map rev]. rewrite <- !app_assoc. reflexivity.
      * rewrite set_nth_set_nth. f_equal. f_equal. cbn [fold_right]. lia.
Qed.

End ScanRecs.

(* The normal form (Impl/WNorm.v) of every well-formed (Impl/WF.v), well-typed (Impl/Typed.v) message is
   canonical (Impl/Canon.v) -- provided no REQUIRED sub-message pointer is NULL (reqsub_msg; the one case where
   wnorm_msg is not what the parser returns, see the counterexample at the end).  With
   Proofs/WNormPack.v roundtrip_to_normal_form this gives: for every such message, parsing what pack writes
   returns its normal form. *)
From Coq Require Import ZArith List Bool Lia ZifyBool.
From PBC Require Import Base.CInt Gen.LeafC Impl.Desc Impl.Mem Impl.Enc Impl.Pack Impl.WF Impl.Unpack Impl.Canon Impl.WNorm
     Impl.Typed Proofs.MsgInd Proofs.ScanRec Proofs.MsgRT4 Proofs.NormPack Proofs.WNormPack Proofs.Examples.
Import ListNotations.
Local Open Scope Z_scope.

Ltac Zify.zify_post_hook ::= Z.div_mod_to_equations.

(* ---- words *)
Lemma canon_word_wn : forall t w, canon_word t (wn_word t w) = true.
Proof.
  intros t w. destruct t; cbn [canon_word wn_word is4]; try (unfold u32; lia); try (unfold u64; lia).
  destruct (s32 w =? 0); reflexivity.
Qed.

(* ---- lists *)
Lemma forallb_firstn : forall A (p : A -> bool) k l, forallb p l = true -> forallb p (firstn k l) = true.
Proof.
  intros A p k. induction k as [|k IH]; intros l H; [reflexivity|].
  destruct l as [|x l]; [reflexivity|]. cbn [firstn forallb] in *.
  apply andb_true_iff in H. destruct H as [H1 H2]. rewrite H1, (IH l H2). reflexivity.
Qed.

Lemma with_nth_nth : forall A B (k : A -> B) d l g x, nth_error l g = Some x -> with_nth k d l g = k x.
Proof.
  intros A B k d l. induction l as [|y l IH]; intros g x H; destruct g; try discriminate H; cbn [with_nth nth_error] in *.
  - inversion H. reflexivity.
  - apply IH. exact H.
Qed.

Lemma with_nth_false : forall A (k : A -> bool) l g,
  with_nth k false l g = true -> exists x, nth_error l g = Some x /\ k x = true.
Proof.
  intros A k l. induction l as [|y l IH]; intros g H; destruct g; try discriminate H; cbn [with_nth nth_error] in *.
  - exists y. split; [reflexivity | exact H].
  - apply IH. exact H.
Qed.

Lemma all_n_cons : forall A (p : A -> bool) x t k, all_n p (x :: t) (S k) = p x && all_n p t k.
Proof. reflexivity. Qed.

Lemma all2_cons : forall A B (p : A -> B -> bool) f fs s ss, all2 p (f :: fs) (s :: ss) = p f s && all2 p fs ss.
Proof. reflexivity. Qed.

Lemma all2_nth : forall A B (p : A -> B -> bool) fs ss i f s,
  all2 p fs ss = true -> nth_error fs i = Some f -> nth_error ss i = Some s -> p f s = true.
Proof.
  intros A B p fs. induction fs as [|f0 fs IH]; intros ss i f s H Hf Hs; [destruct i; discriminate Hf|].
  destruct ss as [|s0 ss]; [destruct i; discriminate Hs|].
  rewrite all2_cons in H. apply andb_true_iff in H. destruct H as [H1 H2].
  destruct i as [|i]; cbn [nth_error] in *.
  - inversion Hf; inversion Hs; subst. exact H1.
  - exact (IH ss i f s H2 Hf Hs).
Qed.

Lemma wf_slots_cons : forall rec u f fs s ss,
  wf_slots rec u (f :: fs) (s :: ss) = wf_slot rec u f s && wf_slots rec u fs ss.
Proof. reflexivity. Qed.

Lemma wf_slots_nth : forall rec u fs ss i f,
  wf_slots rec u fs ss = true -> nth_error fs i = Some f ->
  exists s, nth_error ss i = Some s /\ wf_slot rec u f s = true.
Proof.
  intros rec u fs. induction fs as [|f0 fs IH]; intros ss i f H Hf; [destruct i; discriminate Hf|].
  destruct ss as [|s0 ss]; [discriminate H|].
  rewrite wf_slots_cons in H. apply andb_true_iff in H. destruct H as [H1 H2].
  destruct i as [|i]; cbn [nth_error] in *.
  - inversion Hf; subst. exists s0. split; [reflexivity | exact H1].
  - exact (IH ss i f H2 Hf).
Qed.

Lemma canon_slots_cons : forall rec u f fs s ss,
  canon_slots rec u (f :: fs) (s :: ss) = canon_slot rec u f s && canon_slots rec u fs ss.
Proof. reflexivity. Qed.

Lemma wn_slots_cons : forall rec f fs s ss, wn_slots rec (f :: fs) (s :: ss) = wn_slot rec f s :: wn_slots rec fs ss.
Proof. reflexivity. Qed.

(* ---- what field_ok says *)
Lemma field_ok_lq : forall nu f, field_ok nu f = true ->
  match f_label f, f_quant f with
  | LRepeated, QCount => negb (f_oneof f)
  | LRepeated, _ => false
  | LRequired, QNone => negb (f_oneof f)
  | LRequired, _ => false
  | (LOptional | LNone), QCase g => f_oneof f && Nat.ltb g nu
  | LOptional, QHas => negb (f_oneof f) && negb (ftype_eqb (f_type f) TString) && negb (ftype_eqb (f_type f) TMessage)
  | LOptional, QNone => negb (f_oneof f) && (ftype_eqb (f_type f) TString || ftype_eqb (f_type f) TMessage)
  | LNone, QNone => negb (f_oneof f)
  | _, _ => false
  end = true.
Proof.
  intros nu f H. unfold field_ok in H. rewrite !andb_true_iff in H. destruct H as [[[_ H] _] _]. exact H.
Qed.

Lemma field_ok_dflt : forall nu f, field_ok nu f = true ->
  match f_default f, f_type f with
  | None, _ => true
  | Some (DStr s), TString => forallb char_ok s
  | Some (DBytes s), TBytes => forallb byte_ok s
  | Some (DWord _), (TString | TBytes | TMessage) => false
  | Some (DWord _), _ => true
  | Some _, _ => false
  end = true.
Proof.
  intros nu f H. unfold field_ok in H. rewrite !andb_true_iff in H. destruct H as [_ H]. exact H.
Qed.

Lemma field_ok_id : forall nu f, field_ok nu f = true -> 0 < f_id f.
Proof.
  intros nu f H. unfold field_ok in H. rewrite !andb_true_iff in H. destruct H as [[[[H _] _] _] _]. lia.
Qed.

(* a member of a oneof carries the flag and an optional / implicit label *)
Lemma field_ok_case : forall nu f g, field_ok nu f = true -> f_quant f = QCase g ->
  f_oneof f = true /\ (f_label f = LOptional \/ f_label f = LNone).
Proof.
  intros nu f g H Eq. pose proof (field_ok_lq nu f H) as L. rewrite Eq in L.
  destruct (f_label f); try discriminate L; apply andb_true_iff in L; destruct L as [L _]; split; auto.
Qed.

(* ---- cells *)
Lemma shallow_init_refl : forall f, sval_eqb_shallow (init_cell f) (init_cell f) = true.
Proof.
  intros f. unfold init_cell. destruct (f_type f); cbn [sval_eqb_shallow]; try apply Z.eqb_refl.
  - destruct (f_default f); reflexivity.
  - destruct (f_default f) as [[w|s|s]|]; cbn [sval_eqb_shallow]; apply Z.eqb_refl.
  - reflexivity.
Qed.

Lemma bytes_present_canon : forall n s, 0 < n -> n <= zlen s -> forallb byte_ok s = true ->
  (0 <? n) && (n =? zlen (firstn (Z.to_nat n) s)) && forallb byte_ok (firstn (Z.to_nat n) s) = true.
Proof.
  intros n s Hn Hl Hb. rewrite (forallb_firstn _ _ _ _ Hb).
  assert (Hz : zlen (firstn (Z.to_nat n) s) = n) by (unfold zlen in *; rewrite firstn_length; lia).
  rewrite Hz. rewrite Z.eqb_refl. replace (0 <? n) with true by lia. reflexivity.
Qed.

Lemma ptr_absent_wf : forall rec f ia v, wf_cell rec f ia v = true -> exists b, ptr_absent f v = Ok b.
Proof.
  intros rec f ia v H. unfold wf_cell, ptr_absent in *. destruct (f_type f); try (eexists; reflexivity).
  - destruct v as [w|p|n p|o]; try discriminate H.
    + destruct w; try discriminate H. eexists; reflexivity.
    + eexists; reflexivity.
  - destruct v as [w|p|n p|o]; try discriminate H.
    + destruct w; try discriminate H. eexists; reflexivity.
    + eexists; reflexivity.
Qed.

Lemma zeroish_wf : forall rec f ia v, wf_cell rec f ia v = true -> exists b, zeroish f v = Ok b.
Proof.
  intros rec f ia v H. unfold wf_cell, zeroish in *.
  destruct (f_type f); try (destruct v as [w|p|n p|o]; try discriminate H; eexists; reflexivity).
  - (* string *)
    destruct v as [w|p|n p|o]; try discriminate H.
    + destruct w; try discriminate H. eexists; reflexivity.
    + destruct p as [| |s]; try (eexists; reflexivity).
      cbn [as_str bind str_bytes].
      destruct (f_default f) as [[w|s|s]|]; try (rewrite andb_false_r in H; discriminate H). eexists; reflexivity.
  - (* bytes *)
    destruct v as [w|p|n p|o]; try discriminate H.
    + destruct w; try discriminate H. eexists; reflexivity.
    + eexists; reflexivity.
  - (* message *)
    destruct v as [w|p|n p|o]; try discriminate H.
    + destruct w; try discriminate H. eexists; reflexivity.
    + eexists; reflexivity.
Qed.

Lemma sub_set_ptr : forall f v, ptr_absent f v = Ok false -> sub_set f v = true.
Proof.
  intros f v H. unfold ptr_absent, sub_set in *. destruct (f_type f); try reflexivity.
  destruct v as [w|p|n p|[m|]]; try discriminate H; try reflexivity.
  destruct w; discriminate H.
Qed.

Lemma sub_set_zeroish : forall f v, zeroish f v = Ok false -> sub_set f v = true.
Proof.
  intros f v H. unfold zeroish, sub_set in *. destruct (f_type f); try reflexivity.
  destruct v as [w|p|n p|[m|]]; try discriminate H; try reflexivity.
  destruct w; discriminate H.
Qed.

Lemma sub_set_inarr : forall rec f v, wf_cell rec f true v = true -> sub_set f v = true.
Proof.
  intros rec f v H. unfold wf_cell, sub_set in *. destruct (f_type f); try reflexivity.
  destruct v as [w|p|n p|[m|]]; try discriminate H; try reflexivity.
  destruct w; discriminate H.
Qed.

Lemma sub_set_nonmsg : forall f v, ftype_eqb (f_type f) TMessage = false -> sub_set f v = true.
Proof. intros f v H. unfold sub_set. destruct (f_type f); try reflexivity. discriminate H. Qed.

Section WC.
Variable E : env.
Hypothesis EO : env_ok E = true.
Notation wn := (wnorm_msg E).
Notation wfm := (wf_msg E).
Notation tym := (typed_msg E).
Notation rqm := (reqsub_msg E).
Notation cnm := (canon_msg E).

Definition cP (m : msg) : Prop := wfm m = true -> tym m = true -> rqm m = true -> cnm (wn m) = true.
Definition cQ (v : sval) : Prop := forall sub, v = VMsg (Some sub) -> cP sub.

(* a cell the serialiser emits: well-formed + typed + (message: pointer set) gives canonical after wn_present *)
Lemma canon_cell_wn : forall nu f ia v,
  field_ok nu f = true -> cQ v ->
  wf_cell wfm f ia v = true -> typed_cell tym f v = true -> reqsub_cell rqm f v = true -> sub_set f v = true ->
  canon_cell cnm f (wn_present wn f v) = true.
Proof.
  intros nu f ia v Hfo HQ Hwf Hty Hrq Hss.
  pose proof (field_ok_dflt nu f Hfo) as Hd.
  unfold wf_cell, typed_cell, reqsub_cell, sub_set, canon_cell, wn_present in *.
  destruct (f_type f) eqn:Et;
    try (destruct v as [w|p|n p|o]; try discriminate Hwf; cbv beta iota; apply canon_word_wn).
  - (* string *)
    destruct v as [w|p|n p|o]; try discriminate Hwf.
    + destruct w; try discriminate Hwf. reflexivity.
    + destruct p as [| |s]; cbn [as_str str_bytes].
      * reflexivity.
      * destruct (f_default f) as [[w|s|s]|]; try (rewrite andb_false_r in Hwf; discriminate Hwf). exact Hd.
      * exact Hwf.
  - (* bytes *)
    destruct v as [w|p|n p|o]; try discriminate Hwf.
    + destruct w; try discriminate Hwf. reflexivity.
    + cbn [as_bytes]. unfold data_bytes. destruct (Z.eqb_spec n 0) as [Hz|Hnz]; [reflexivity|].
      destruct p as [| |s].
      * exfalso. lia.
      * destruct (f_default f) as [[w|s|s]|]; try (rewrite andb_false_r in Hwf; discriminate Hwf).
        rewrite !andb_true_iff in Hwf. destruct Hwf as [[_ H0] Hle].
        destruct (Z.leb_spec n (zlen s)) as [Hl|Hl]; [|discriminate Hle].
        apply bytes_present_canon; [lia | exact Hl | exact Hd].
      * rewrite !andb_true_iff in Hwf. destruct Hwf as [[H0 Hle] Hb].
        destruct (Z.leb_spec n (zlen s)) as [Hl|Hl]; [|discriminate Hle].
        apply bytes_present_canon; [lia | exact Hl | exact Hb].
  - (* message *)
    destruct v as [w|p|n p|[sub|]]; try discriminate Hss.
    apply andb_true_iff in Hty. destruct Hty as [Hd1 Hty].
    rewrite wnorm_desc. rewrite Hd1. rewrite (HQ sub eq_refl Hwf Hty Hrq). reflexivity.
Qed.

(* the emitted elements of a repeated field *)
Lemma canon_elems_wn : forall nu f, field_ok nu f = true -> forall l k,
  Forall cQ l -> forallb (wf_cell wfm f true) l = true ->
  all_n (typed_cell tym f) l k = true -> all_n (reqsub_cell rqm f) l k = true ->
  forallb (canon_cell cnm f) (firstn k (map (wn_present wn f) l)) = true.
Proof.
  intros nu f Hfo l. induction l as [|x l IH]; intros k HQ Hwf Hty Hrq; destruct k as [|k]; try reflexivity.
  cbn [map firstn forallb] in *. rewrite all_n_cons in Hty, Hrq.
  apply andb_true_iff in Hwf. destruct Hwf as [Hw1 Hw2].
  apply andb_true_iff in Hty. destruct Hty as [Ht1 Ht2].
  apply andb_true_iff in Hrq. destruct Hrq as [Hr1 Hr2].
  inversion HQ as [|x' l' HQ1 HQ2]; subst.
  rewrite (canon_cell_wn nu f true x Hfo HQ1 Hw1 Ht1 Hr1 (sub_set_inarr _ _ _ Hw1)).
  rewrite (IH k HQ2 Hw2 Ht2 Hr2). reflexivity.
Qed.

(* ---- members *)
Section Fields.
Variable md : mdesc.
Hypothesis D : desc_ok (length E) md = true.
Notation fs := (md_fields md).

Lemma wn_union_other : forall cv f, 0 < f_id f -> fst cv <> f_id f ->
  (fst (wn_union wn fs cv) =? f_id f) = false.
Proof.
  intros cv f Hid Hne. unfold wn_union. destruct (find (fun f0 => f_id f0 =? fst cv) fs) as [f2|]; [|cbn [fst]; lia].
  destruct (f_oneof f2); [|lia]. destruct (ptr_absent f2 (snd cv)) as [[|]|e]; cbn [fst]; lia.
Qed.

Lemma wn_union_sel : forall cv f, In f fs -> f_oneof f = true -> fst cv = f_id f ->
  wn_union wn fs cv =
  match ptr_absent f (snd cv) with
  | Ok false => (f_id f, wn_present wn f (snd cv))
  | Ok true => (0, VWord 0)
  | Err _ => cv
  end.
Proof.
  intros cv f Hin Ho Hc. unfold wn_union. rewrite Hc. rewrite (find_by_id_unique E md D f Hin). rewrite Ho. reflexivity.
Qed.

Lemma canon_slot_wn : forall unions f s,
  In f fs -> slot_all cQ s -> Forall (fun cv : Z * sval => cQ (snd cv)) unions ->
  wf_slot wfm unions f s = true -> typed_slot tym unions f s = true -> reqsub_slot rqm unions f s = true ->
  canon_slot cnm (map (wn_union wn fs) unions) f (wn_slot wn f s) = true.
Proof.
  intros unions f s Hin HS HU Hwf Hty Hrq.
  destruct (desc_ok_fields _ _ D f Hin) as (Hfo & Hid & Hz).
  pose proof (field_ok_lq _ _ Hfo) as Hlq.
  destruct s as [h v | n cap arr | g]; cbn [slot_all] in HS.
  - (* one cell *)
    unfold wf_slot, typed_slot, reqsub_slot in *. unfold wn_slot, canon_slot.
    destruct (f_label f) eqn:El; cbn [label_eqb] in Hrq; try discriminate Hwf;
      apply andb_true_iff in Hwf; destruct Hwf as [Hno Hwf];
      apply andb_true_iff in Hrq; destruct Hrq as [Hrs Hrq].
    + (* required *)
      cbn [Z.eqb andb]. exact (canon_cell_wn _ f false v Hfo HS Hwf Hty Hrq Hrs).
    + (* optional *)
      destruct (f_quant f) as [| |g|] eqn:Eq; try discriminate Hlq.
      * (* no quantifier: string or message *)
        rewrite Hno in Hlq. cbn [andb] in Hlq.
        assert (G : forall s',
                  match ptr_absent f v with
                  | Ok true => SOne 0 (init_cell f)
                  | Ok false => SOne 0 (wn_present wn f v)
                  | Err _ => SOne h v
                  end = s' ->
                  match s' with
                  | SOne has v0 => (has =? 0) && (sval_eqb_shallow v0 (init_cell f) || canon_cell cnm f v0)
                  | _ => false
                  end = true).
        { intros s' <-. destruct (ptr_absent_wf _ _ _ _ Hwf) as (b & Eb). rewrite Eb. destruct b.
          - cbn [Z.eqb andb]. rewrite shallow_init_refl. reflexivity.
          - cbn [Z.eqb andb]. rewrite (canon_cell_wn _ f false v Hfo HS Hwf Hty Hrq (sub_set_ptr _ _ Eb)).
            apply orb_true_r. }
        destruct (f_type f) eqn:Et; try discriminate Hlq; apply G; reflexivity.
      * (* has flag: neither string nor message *)
        rewrite Hno in Hlq. cbn [andb] in Hlq. apply andb_true_iff in Hlq. destruct Hlq as [Hns Hnm].
        assert (G : (let s' := if h =? 0 then SOne 0 (init_cell f) else SOne 1 (wn_present wn f v) in
                     match s' with
                     | SOne has v0 => if has =? 0 then sval_eqb_shallow v0 (init_cell f) else (has =? 1) && canon_cell cnm f v0
                     | _ => false
                     end) = true).
        { cbv zeta. destruct (h =? 0).
          - cbn [Z.eqb]. apply shallow_init_refl.
          - cbn [Z.eqb andb]. apply (canon_cell_wn _ f false v Hfo HS Hwf Hty Hrq).
            apply sub_set_nonmsg. destruct (ftype_eqb (f_type f) TMessage); [discriminate Hnm | reflexivity]. }
        cbv zeta in G.
        destruct (f_type f) eqn:Et; try discriminate Hns; try discriminate Hnm; exact G.
      * (* a member of a oneof is not an SOne *)
        apply andb_true_iff in Hlq. destruct Hlq as [Ho _]. rewrite Ho in Hno. discriminate Hno.
    + (* implicit presence *)
      destruct (zeroish_wf _ _ _ _ Hwf) as (b & Eb). rewrite Eb. destruct b.
      * cbn [Z.eqb andb]. rewrite shallow_init_refl. reflexivity.
      * cbn [Z.eqb andb]. rewrite (canon_cell_wn _ f false v Hfo HS Hwf Hty Hrq (sub_set_zeroish _ _ Eb)).
        rewrite (nonzero_wn E f v Eb). apply orb_true_r.
  - (* repeated *)
    unfold wf_slot, typed_slot, reqsub_slot in *. unfold wn_slot, canon_slot.
    destruct (f_label f) eqn:El; try discriminate Hwf.
    rewrite !andb_true_iff in Hwf. destruct Hwf as [[H0 H1] Hwf].
    destruct (Z.eqb_spec n 0) as [Hz0|Hnz]; [reflexivity|].
    destruct arr as [l|]; [|exfalso; lia].
    apply andb_true_iff in Hwf. destruct Hwf as [Hle Hwf].
    assert (Hlen : zlen (firstn (Z.to_nat n) (map (wn_present wn f) l)) = n).
    { unfold zlen in *. rewrite firstn_length, map_length. lia. }
    rewrite Hlen. rewrite Z.eqb_refl.
    rewrite (canon_elems_wn _ f Hfo l (Z.to_nat n) HS Hwf Hty Hrq).
    replace (0 <? n) with true by lia. rewrite H1. reflexivity.
  - (* member of a oneof *)
    unfold wf_slot, typed_slot, reqsub_slot in *. unfold wn_slot, canon_slot.
    apply andb_true_iff in Hty. destruct Hty as [Hq Hty].
    assert (Hwf' : f_oneof f = true /\
                   with_nth (fun cv : Z * sval => if fst cv =? f_id f then wf_cell wfm f false (snd cv) else true)
                            false unions g = true).
    { destruct (f_label f); try discriminate Hwf; apply andb_true_iff in Hwf; exact Hwf. }
    destruct Hwf' as [Ho Hw].
    destruct (with_nth_false _ _ _ _ Hw) as (cv & Hcv & Hk).
    rewrite (with_nth_nth _ _ _ _ _ _ _ Hcv) in Hty. rewrite (with_nth_nth _ _ _ _ _ _ _ Hcv) in Hrq.
    assert (G : with_nth (fun cv0 : Z * sval => if fst cv0 =? f_id f then canon_cell cnm f (snd cv0) else true) false
                         (map (wn_union wn fs) unions) g = true).
    { rewrite with_nth_map. rewrite (with_nth_nth _ _ _ _ _ _ _ Hcv).
      destruct (Z.eqb_spec (fst cv) (f_id f)) as [Hc|Hc].
      - rewrite (wn_union_sel cv f Hin Ho Hc).
        destruct (ptr_absent f (snd cv)) as [[|]|er] eqn:Ea; cbn [fst snd].
        + replace (0 =? f_id f) with false by lia. reflexivity.
        + rewrite Z.eqb_refl. exact (canon_cell_wn _ f false (snd cv) Hfo
                                       (proj1 (Forall_forall _ _) HU cv (nth_error_In _ _ Hcv)) Hk Hty Hrq (sub_set_ptr _ _ Ea)).
        + destruct (ptr_absent_wf _ _ _ _ Hk) as (b & Eb). rewrite Eb in Ea. discriminate Ea.
      - rewrite (wn_union_other cv f (proj1 Hid) Hc). reflexivity. }
    rewrite G. rewrite Hq.
    destruct (f_label f); try discriminate Hwf; reflexivity.
Qed.

Lemma canon_slots_wn : forall unions fs' ss,
  (forall f, In f fs' -> In f fs) ->
  Forall (slot_all cQ) ss -> Forall (fun cv : Z * sval => cQ (snd cv)) unions ->
  wf_slots wfm unions fs' ss = true -> typed_slots tym unions fs' ss = true ->
  all2 (reqsub_slot rqm unions) fs' ss = true ->
  canon_slots cnm (map (wn_union wn fs) unions) fs' (wn_slots wn fs' ss) = true.
Proof.
  intros unions fs'. induction fs' as [|f fs' IH]; intros ss Hsub HS HU Hwf Hty Hrq.
  - destruct ss; [reflexivity | discriminate Hwf].
  - destruct ss as [|s ss]; [discriminate Hwf|]. inversion HS as [|s' ss' HS1 HS2]; subst.
    unfold typed_slots in *. rewrite wf_slots_cons in Hwf. rewrite all2_cons in Hty, Hrq.
    apply andb_true_iff in Hwf. destruct Hwf as [Hw1 Hw2].
    apply andb_true_iff in Hty. destruct Hty as [Ht1 Ht2].
    apply andb_true_iff in Hrq. destruct Hrq as [Hr1 Hr2].
    rewrite wn_slots_cons, canon_slots_cons.
    rewrite (canon_slot_wn unions f s (Hsub f (or_introl eq_refl)) HS1 HU Hw1 Ht1 Hr1).
    rewrite (IH ss (fun f' Hf' => Hsub f' (or_intror Hf')) HS2 HU Hw2 Ht2 Hr2). reflexivity.
Qed.

(* ---- the case words *)
Lemma typed_unions_nth : forall us g k cv, typed_unions fs g us = true -> nth_error us k = Some cv ->
  forallb (fun f => if f_id f =? fst cv
                    then match f_quant f with QCase g' => Nat.eqb (g + k) g' | _ => false end
                    else true) fs = true.
Proof.
  induction us as [|u us IH]; intros g k cv H Hn; [destruct k; discriminate Hn|].
  cbn [typed_unions] in H. apply andb_true_iff in H. destruct H as [H1 H2].
  destruct k as [|k]; cbn [nth_error] in Hn.
  - inversion Hn; subst u. rewrite Nat.add_0_r. exact H1.
  - replace (g + S k)%nat with (S g + k)%nat by lia. exact (IH (S g) k cv H2 Hn).
Qed.

Definition union_canon (g : nat) (cv : Z * sval) : bool :=
  existsb (fun f => (f_id f =? fst cv) && match f_quant f with QCase g' => Nat.eqb g g' | _ => false end) fs
  || ((fst cv =? 0) && sval_eqb_shallow (snd cv) (VWord 0)).

Lemma canon_unions_intro : forall us g,
  (forall k cv, nth_error us k = Some cv -> union_canon (g + k) cv = true) -> canon_unions fs g us = true.
Proof.
  induction us as [|u us IH]; intros g H; [reflexivity|].
  cbn [canon_unions]. apply andb_true_iff. split.
  - pose proof (H 0%nat u eq_refl) as H0. rewrite Nat.add_0_r in H0. exact H0.
  - apply IH. intros k cv Hn. replace (S g + k)%nat with (g + S k)%nat by lia. apply H. exact Hn.
Qed.

Lemma canon_unions_wn : forall unions slots,
  wf_slots wfm unions fs slots = true -> typed_slots tym unions fs slots = true ->
  typed_unions fs 0 unions = true ->
  canon_unions fs 0 (map (wn_union wn fs) unions) = true.
Proof.
  intros unions slots Hwf Hty Htu. apply canon_unions_intro. intros g c Hn. cbn [Nat.add].
  rewrite nth_error_map in Hn. destruct (nth_error unions g) as [cv|] eqn:Hcv; [|discriminate Hn].
  cbn [option_map] in Hn. inversion Hn as [Hc]. clear Hn.
  pose proof (typed_unions_nth unions 0%nat g cv Htu Hcv) as Hall. cbn [Nat.add] in Hall.
  unfold union_canon, wn_union.
  destruct (find (fun f => f_id f =? fst cv) fs) as [f|] eqn:Ef; [|cbn [fst snd sval_eqb_shallow Z.eqb andb]; apply orb_true_r].
  destruct (find_some _ _ Ef) as (Hin & Hidc). apply Z.eqb_eq in Hidc.
  rewrite forallb_forall in Hall. pose proof (Hall f Hin) as Hf. rewrite Hidc, Z.eqb_refl in Hf.
  destruct (f_quant f) as [| |g'|] eqn:Eq; try discriminate Hf. apply Nat.eqb_eq in Hf. subst g'.
  destruct (desc_ok_fields _ _ D f Hin) as (Hfo & Hid & _).
  destruct (field_ok_case _ _ _ Hfo Eq) as (Ho & Hlab). rewrite Ho.
  (* the member's slot is SUnion g, so its cell is well-formed at this field *)
  destruct (In_nth_error _ _ Hin) as (i & Hi).
  destruct (wf_slots_nth _ _ _ _ _ _ Hwf Hi) as (s & Hs & Hws).
  pose proof (all2_nth _ _ _ _ _ _ _ _ Hty Hi Hs) as Hts.
  assert (Hcell : wf_cell wfm f false (snd cv) = true).
  { unfold wf_slot, typed_slot in *. destruct s as [h v | n cap arr | g2].
    - destruct Hlab as [El|El]; rewrite El in Hws; rewrite Ho in Hws; discriminate Hws.
    - destruct Hlab as [El|El]; rewrite El in Hws; discriminate Hws.
    - rewrite Eq in Hts. apply andb_true_iff in Hts. destruct Hts as [Hg _]. apply Nat.eqb_eq in Hg. subst g2.
      assert (Hw : with_nth (fun cv0 : Z * sval => if fst cv0 =? f_id f then wf_cell wfm f false (snd cv0) else true)
                            false unions g = true).
      { destruct Hlab as [El|El]; rewrite El in Hws; apply andb_true_iff in Hws; exact (proj2 Hws). }
      rewrite (with_nth_nth _ _ _ _ _ _ _ Hcv) in Hw. rewrite Hidc, Z.eqb_refl in Hw. exact Hw. }
  destruct (ptr_absent_wf _ _ _ _ Hcell) as (b & Eb). rewrite Eb. destruct b; cbn [fst snd].
  - cbn [sval_eqb_shallow Z.eqb andb]. apply orb_true_r.
  - apply orb_true_iff. left. apply existsb_exists. exists f. split; [exact Hin|].
    rewrite Hidc, Z.eqb_refl, Eq, Nat.eqb_refl. reflexivity.
Qed.

End Fields.

Lemma wf_typed_canon_P : forall m, cP m.
Proof.
  apply (msg_ind2 cP cQ); unfold cQ; try (intros; discriminate).
  - intros m IH sub Hv. inversion Hv; subst. exact IH.
  - intros d slots unions unk HS HU. unfold cP. intros Hwf Hty Hrq.
    cbn [wf_msg typed_msg reqsub_msg wnorm_msg] in *.
    destruct (nth_error E d) as [md|] eqn:Ed; [|discriminate Hwf].
    cbn [canon_msg]. rewrite Ed.
    assert (D : desc_ok (length E) md = true).
    { unfold env_ok in EO. rewrite forallb_forall in EO. apply EO. eapply nth_error_In; exact Ed. }
    rewrite !andb_true_iff in Hwf. destruct Hwf as [[[_ Hlen] Hws] _].
    rewrite !andb_true_iff in Hty. destruct Hty as [[Hts Htu] Hunk].
    rewrite map_length. rewrite Hlen.
    rewrite (canon_slots_wn md D unions (md_fields md) slots (fun f H => H) HS HU Hws Hts Hrq).
    rewrite (canon_unions_wn md D unions slots Hws Hts Htu).
    rewrite Hunk. reflexivity.
Qed.

End WC.

(* The normal form of every well-formed, well-typed message in which no required sub-message pointer is NULL
   is canonical. *)
Theorem wf_typed_canon : forall (E : env) (m : msg),
  env_ok E = true -> wf_msg E m = true -> typed_msg E m = true -> reqsub_msg E m = true ->
  canon_msg E (wnorm_msg E m) = true.
Proof. intros E m EO Hwf Hty Hrq. exact (wf_typed_canon_P E EO m Hwf Hty Hrq). Qed.

(* hence the round trip: parsing what pack writes for such a message gives its normal form *)
Corollary wf_typed_roundtrip : forall (E : env) (m : msg) (b : list Z),
  env_ok E = true -> wf_msg E m = true -> typed_msg E m = true -> reqsub_msg E m = true ->
  pack_msg E m = Ok b -> Z.of_nat (length b) <= max_input ->
  unpack_top E (m_desc m) b = Ok (wnorm_msg E m).
Proof.
  intros E m b EO Hwf Hty Hrq Hp Hl.
  exact (roundtrip_to_normal_form E EO m b (wf_typed_canon E m EO Hwf Hty Hrq) Hp Hl).
Qed.

(* ---- where the extra hypothesis is void: no required field of message type anywhere in the environment *)
Section NoReq.
Variable E : env.
Hypothesis NR : no_required_sub E = true.
Notation wfm := (wf_msg E).
Notation rqm := (reqsub_msg E).

Definition rP (m : msg) : Prop := wfm m = true -> rqm m = true.
Definition rQ (v : sval) : Prop := forall sub, v = VMsg (Some sub) -> rP sub.

Lemma reqsub_cell_wf : forall f ia v, rQ v -> wf_cell wfm f ia v = true -> reqsub_cell rqm f v = true.
Proof.
  intros f ia v HQ H. unfold wf_cell, reqsub_cell in *. destruct (f_type f); try reflexivity.
  destruct v as [w|p|n p|[sub|]]; try reflexivity. exact (HQ sub eq_refl H).
Qed.

Lemma reqsub_elems_wf : forall f l k, Forall rQ l -> forallb (wf_cell wfm f true) l = true ->
  all_n (reqsub_cell rqm f) l k = true.
Proof.
  intros f l. induction l as [|x l IH]; intros k HQ H; destruct k as [|k]; try reflexivity.
  rewrite all_n_cons. cbn [forallb] in H. apply andb_true_iff in H. destruct H as [H1 H2].
  inversion HQ as [|x' l' HQ1 HQ2]; subst.
  rewrite (reqsub_cell_wf f true x HQ1 H1). rewrite (IH k HQ2 H2). reflexivity.
Qed.

Lemma reqsub_slot_wf : forall unions f s,
  negb (label_eqb (f_label f) LRequired && ftype_eqb (f_type f) TMessage) = true ->
  slot_all rQ s -> Forall (fun cv : Z * sval => rQ (snd cv)) unions ->
  wf_slot wfm unions f s = true -> reqsub_slot rqm unions f s = true.
Proof.
  intros unions f s Hnr HS HU Hwf. unfold wf_slot, reqsub_slot in *.
  destruct s as [h v | n cap arr | g]; cbn [slot_all] in HS.
  - destruct (f_label f); try discriminate Hwf; cbn [label_eqb andb] in *;
      apply andb_true_iff in Hwf; destruct Hwf as [_ Hwf]; rewrite (reqsub_cell_wf f false v HS Hwf);
      try reflexivity.
    rewrite sub_set_nonmsg; [reflexivity|]. destruct (ftype_eqb (f_type f) TMessage); [discriminate Hnr | reflexivity].
  - destruct arr as [l|]; [|reflexivity].
    destruct (f_label f); try discriminate Hwf.
    rewrite !andb_true_iff in Hwf. destruct Hwf as [_ [_ Hwf]]. exact (reqsub_elems_wf f l _ HS Hwf).
  - assert (Hw : with_nth (fun cv : Z * sval => if fst cv =? f_id f then wf_cell wfm f false (snd cv) else true)
                          false unions g = true).
    { destruct (f_label f); try discriminate Hwf; apply andb_true_iff in Hwf; exact (proj2 Hwf). }
    destruct (with_nth_false _ _ _ _ Hw) as (cv & Hcv & Hk).
    rewrite (with_nth_nth _ _ _ _ _ _ _ Hcv).
    destruct (fst cv =? f_id f); [|reflexivity].
    exact (reqsub_cell_wf f false (snd cv) (proj1 (Forall_forall _ _) HU cv (nth_error_In _ _ Hcv)) Hk).
Qed.

Lemma reqsub_slots_wf : forall unions fs ss,
  forallb (fun f => negb (label_eqb (f_label f) LRequired && ftype_eqb (f_type f) TMessage)) fs = true ->
  Forall (slot_all rQ) ss -> Forall (fun cv : Z * sval => rQ (snd cv)) unions ->
  wf_slots wfm unions fs ss = true -> all2 (reqsub_slot rqm unions) fs ss = true.
Proof.
  intros unions fs. induction fs as [|f fs IH]; intros ss Hnr HS HU Hwf.
  - destruct ss; reflexivity.
  - destruct ss as [|s ss]; [reflexivity|]. inversion HS as [|s' ss' HS1 HS2]; subst.
    rewrite wf_slots_cons in Hwf. apply andb_true_iff in Hwf. destruct Hwf as [Hw1 Hw2].
    cbn [forallb] in Hnr. apply andb_true_iff in Hnr. destruct Hnr as [Hn1 Hn2].
    rewrite all2_cons. rewrite (reqsub_slot_wf unions f s Hn1 HS1 HU Hw1). rewrite (IH ss Hn2 HS2 HU Hw2). reflexivity.
Qed.

Lemma wf_reqsub : forall m, wf_msg E m = true -> reqsub_msg E m = true.
Proof.
  apply (msg_ind2 rP rQ); unfold rQ; try (intros; discriminate).
  - intros m IH sub Hv. inversion Hv; subst. exact IH.
  - intros d slots unions unk HS HU. unfold rP. intros Hwf. cbn [wf_msg reqsub_msg] in *.
    destruct (nth_error E d) as [md|] eqn:Ed; [|discriminate Hwf].
    rewrite !andb_true_iff in Hwf. destruct Hwf as [[_ Hws] _].
    unfold no_required_sub in NR. rewrite forallb_forall in NR.
    exact (reqsub_slots_wf unions (md_fields md) slots (NR md (nth_error_In _ _ Ed)) HS HU Hws).
Qed.
End NoReq.

(* the statement without the extra hypothesis, for environments without required fields of message type *)
Corollary wf_typed_canon_no_required_sub : forall (E : env) (m : msg),
  env_ok E = true -> no_required_sub E = true -> wf_msg E m = true -> typed_msg E m = true ->
  canon_msg E (wnorm_msg E m) = true.
Proof. intros E m EO NR Hwf Hty. exact (wf_typed_canon E m EO Hwf Hty (wf_reqsub E NR m Hwf)). Qed.

(* ---------------------------------------------------------------------------------------------------------
   Non-vacuity: concrete well-formed, well-typed messages that are NOT canonical themselves (has flags 2 / 7,
   bits above the width, default / NULL string pointers, array slack, stale values) and whose normal form is. *)

(* over Proofs/Examples.v's ex_env: required int32 1; optional string 2 (default "hi"); repeated packed uint32 3;
   oneof {sint64 5, bytes 6}; optional message 7 (self); repeated string 9; proto3-style double 300 *)
Definition tc_inner : msg :=    (* has = 2, bits above 32, NULL string, array with count 0 and slack, oneof in its initial state *)
  Msg 0 [ SOne 2 (VWord 4294967296); SOne 0 (VStr PNull); SRep 0 3 (Some [VWord 1]); SUnion 0; SUnion 0;
          SOne 0 (VWord 0); SRep 0 0 None; SOne 0 (VWord 0) ]
      [ (0, VWord 0) ] [ {| u_tag := 1000; u_wt := 2; u_data := [2; 150; 1] |} ].

Definition tc_msg : msg :=      (* default string pointer, slack in both arrays, oneof selecting the bytes member, sub-message *)
  Msg 0 [ SOne 2 (VWord (-1)); SOne 7 (VStr PDef);
          SRep 2 5 (Some [VWord 1; VWord 4294967296; VWord 77]); SUnion 0; SUnion 0;
          SOne 0 (VMsg (Some tc_inner)); SRep 1 4 (Some [VStr (PHeap []); VStr (PHeap [120])]);
          SOne 0 (VWord 18446744073709551616) ]
      [ (6, VBytes 2 (PHeap [0; 255; 7])) ] [].

Example tc_msg_hyps : wf_msg ex_env tc_msg = true /\ typed_msg ex_env tc_msg = true /\ reqsub_msg ex_env tc_msg = true.
Proof. vm_compute. repeat split; reflexivity. Qed.
Example tc_msg_not_canon : canon_msg ex_env tc_msg = false.
Proof. vm_compute. reflexivity. Qed.
Example tc_msg_canon : canon_msg ex_env (wnorm_msg ex_env tc_msg) = true.
Proof. vm_compute. reflexivity. Qed.
Example ex_env_no_required_sub : no_required_sub ex_env = true.
Proof. vm_compute. reflexivity. Qed.

(* a second environment with has flags, bools, a bytes default, message-typed members of every kind, two oneofs
   (one proto3 style) and a required sub-message.
   message 0: optional bool 1; optional bytes 2 [default 1 2 3]; required string 3; repeated Sub 4; string 5 (implicit);
              oneof a { Sub 6; string 7 }; oneof b { int32 8 (implicit) }; required Sub 9; bool 10 (implicit)
   message 1 (Sub): optional int32 1 [default 7]          message 2 (Other): empty *)
Definition ty_env : env :=
  [ mkdesc [ mkf 1 LOptional TBool QHas false false 0%nat None;
             mkf 2 LOptional TBytes QHas false false 0%nat (Some (DBytes [1; 2; 3]));
             mkf 3 LRequired TString QNone false false 0%nat None;
             mkf 4 LRepeated TMessage QCount false false 1%nat None;
             mkf 5 LNone TString QNone false false 0%nat None;
             mkf 6 LOptional TMessage (QCase 0) false true 1%nat None;
             mkf 7 LOptional TString (QCase 0) false true 0%nat None;
             mkf 8 LNone TInt32 (QCase 1) false true 0%nat None;
             mkf 9 LRequired TMessage QNone false false 1%nat None;
             mkf 10 LNone TBool QNone false false 0%nat None ] 2;
    mkdesc [ mkf 1 LOptional TInt32 QHas false false 0%nat (Some (DWord 7)) ] 0;
    mkdesc [] 0 ].

Example ty_env_ok : env_ok ty_env = true.
Proof. vm_compute. reflexivity. Qed.

Definition ty_sub (h w : Z) : msg := Msg 1 [ SOne h (VWord w) ] [] [].

(* has = 2 with bool = 5; has = 255 with bytes through the default pointer; a zeroed required string cell;
   count 2 of 3 with the slack element being a message that is NOT typed (it carries an "unknown" field 1);
   NULL implicit string with has = 9; oneof a selecting its message member; oneof b with a case that names no
   field and a stale string pointer; implicit bool = 256 (nonzero, emitted as true) with has = 1 *)
Definition ty_m1 : msg :=
  Msg 0 [ SOne 2 (VWord 5); SOne 255 (VBytes 2 PDef); SOne 1 (VWord 0);
          SRep 2 5 (Some [VMsg (Some (ty_sub 0 99)); VMsg (Some (ty_sub 3 (-1)));
                          VMsg (Some (Msg 1 [SOne 0 (VWord 0)] [] [{| u_tag := 1; u_wt := 0; u_data := [] |}]))]);
          SOne 9 (VStr PNull); SUnion 0; SUnion 0; SUnion 1; SOne 0 (VMsg (Some (ty_sub 1 7))); SOne 1 (VWord 256) ]
      [ (6, VMsg (Some (ty_sub 2 4294967297))); (77, VStr PDef) ]
      [ {| u_tag := 11; u_wt := 5; u_data := [1; 2; 3; 4] |} ].

Example ty_m1_hyps : wf_msg ty_env ty_m1 = true /\ typed_msg ty_env ty_m1 = true /\ reqsub_msg ty_env ty_m1 = true.
Proof. vm_compute. repeat split; reflexivity. Qed.
Example ty_m1_not_canon : canon_msg ty_env ty_m1 = false.
Proof. vm_compute. reflexivity. Qed.
Example ty_m1_canon : canon_msg ty_env (wnorm_msg ty_env ty_m1) = true.
Proof. vm_compute. reflexivity. Qed.
Example ty_m1_normal_form :
  wnorm_msg ty_env ty_m1 =
  Msg 0 [ SOne 1 (VWord 1); SOne 1 (VBytes 2 (PHeap [1; 2])); SOne 0 (VStr (PHeap []));
          SRep 2 2 (Some [VMsg (Some (ty_sub 0 7)); VMsg (Some (ty_sub 1 4294967295))]);
          SOne 0 (VStr PNull); SUnion 0; SUnion 0; SUnion 1; SOne 0 (VMsg (Some (ty_sub 1 7))); SOne 0 (VWord 1) ]
      [ (6, VMsg (Some (ty_sub 1 1))); (0, VWord 0) ]
      [ {| u_tag := 11; u_wt := 5; u_data := [1; 2; 3; 4] |} ].
Proof. vm_compute. reflexivity. Qed.

(* cleared has flags hiding stale values; oneof a selecting its string member through a NULL pointer (nothing is
   emitted: back to the initial state); oneof b selecting its implicit int32 member with value 0 (emitted) *)
Definition ty_m2 : msg :=
  Msg 0 [ SOne 0 (VWord 5); SOne 0 (VBytes 2 (PHeap [9; 9; 9])); SOne 0 (VStr (PHeap [65]));
          SRep 0 0 None;
          SOne 0 (VStr (PHeap [66])); SUnion 0; SUnion 0; SUnion 1; SOne 0 (VMsg (Some (ty_sub 0 0)));
          SOne 0 (VWord 4294967296) ]
      [ (7, VStr PNull); (8, VWord 0) ] [].

Example ty_m2_hyps : wf_msg ty_env ty_m2 = true /\ typed_msg ty_env ty_m2 = true /\ reqsub_msg ty_env ty_m2 = true.
Proof. vm_compute. repeat split; reflexivity. Qed.
Example ty_m2_not_canon : canon_msg ty_env ty_m2 = false.
Proof. vm_compute. reflexivity. Qed.
Example ty_m2_canon : canon_msg ty_env (wnorm_msg ty_env ty_m2) = true.
Proof. vm_compute. reflexivity. Qed.

(* both through the theorem, and the round trip *)
Example ty_m1_roundtrip : exists b, pack_msg ty_env ty_m1 = Ok b /\ unpack_top ty_env 0 b = Ok (wnorm_msg ty_env ty_m1).
Proof.
  destruct (pack_msg ty_env ty_m1) as [b|e] eqn:Ep; [|vm_compute in Ep; discriminate Ep].
  exists b. split; [reflexivity|].
  apply (wf_typed_roundtrip ty_env ty_m1 b ty_env_ok (proj1 ty_m1_hyps) (proj1 (proj2 ty_m1_hyps)) (proj2 (proj2 ty_m1_hyps)) Ep).
  vm_compute in Ep. inversion Ep. vm_compute. discriminate.
Qed.

(* ---------------------------------------------------------------------------------------------------------
   The typing hypothesis is needed: well-formed messages that are not typed and whose normal form is not canonical. *)
Definition ty_base (sub9 : msg) (case_a : Z) (unk : list ufield) : msg :=
  Msg 0 [ SOne 0 (VWord 0); SOne 0 (VWord 0); SOne 0 (VWord 0); SRep 0 0 None;
          SOne 0 (VWord 0); SUnion 0; SUnion 0; SUnion 1; SOne 0 (VMsg (Some sub9)); SOne 0 (VWord 0) ]
      [ (case_a, VWord 0); (0, VWord 0) ] unk.

Example ty_base_ok :
  let m := ty_base (ty_sub 0 0) 0 [] in
  wf_msg ty_env m = true /\ typed_msg ty_env m = true /\ reqsub_msg ty_env m = true /\ canon_msg ty_env (wnorm_msg ty_env m) = true.
Proof. vm_compute. repeat split; reflexivity. Qed.

(* (c) a sub-message pointer of the wrong struct type: field 9 declares Sub (descriptor 1), the pointee is an Other *)
Example untyped_wrong_descriptor :
  let m := ty_base (Msg 2 [] [] []) 0 [] in
  wf_msg ty_env m = true /\ typed_msg ty_env m = false /\ reqsub_msg ty_env m = true /\ canon_msg ty_env (wnorm_msg ty_env m) = false.
Proof. vm_compute. repeat split; reflexivity. Qed.

(* (b) the case word of oneof a (group 0) holds 8, the id of the member of oneof b *)
Example untyped_foreign_case :
  let m := ty_base (ty_sub 0 0) 8 [] in
  wf_msg ty_env m = true /\ typed_msg ty_env m = false /\ reqsub_msg ty_env m = true /\ canon_msg ty_env (wnorm_msg ty_env m) = false.
Proof. vm_compute. repeat split; reflexivity. Qed.

(* (b) the case word of oneof a holds 3, the id of a field outside every oneof *)
Example untyped_plain_field_case :
  let m := ty_base (ty_sub 0 0) 3 [] in
  wf_msg ty_env m = true /\ typed_msg ty_env m = false /\ reqsub_msg ty_env m = true /\ canon_msg ty_env (wnorm_msg ty_env m) = false.
Proof. vm_compute. repeat split; reflexivity. Qed.

(* (d) an unknown field whose payload is not what its wire type (5: four bytes) delimits *)
Example untyped_unknown_payload :
  let m := ty_base (ty_sub 0 0) 0 [ {| u_tag := 11; u_wt := 5; u_data := [1; 2; 3] |} ] in
  wf_msg ty_env m = true /\ typed_msg ty_env m = false /\ reqsub_msg ty_env m = true /\ canon_msg ty_env (wnorm_msg ty_env m) = false.
Proof. vm_compute. repeat split; reflexivity. Qed.

(* (d) an unknown field carrying the number of a declared field *)
Example untyped_unknown_declared :
  let m := ty_base (ty_sub 0 0) 0 [ {| u_tag := 10; u_wt := 0; u_data := [1] |} ] in
  wf_msg ty_env m = true /\ typed_msg ty_env m = false /\ reqsub_msg ty_env m = true /\ canon_msg ty_env (wnorm_msg ty_env m) = false.
Proof. vm_compute. repeat split; reflexivity. Qed.

(* (a) a oneof member stored in the union of another oneof: field 8 (group 1) given SUnion 0 *)
Example untyped_foreign_union :
  let m := Msg 0 [ SOne 0 (VWord 0); SOne 0 (VWord 0); SOne 0 (VWord 0); SRep 0 0 None;
                   SOne 0 (VWord 0); SUnion 0; SUnion 0; SUnion 0; SOne 0 (VMsg (Some (ty_sub 0 0))); SOne 0 (VWord 0) ]
                 [ (0, VWord 0); (0, VWord 0) ] [] in
  wf_msg ty_env m = true /\ typed_msg ty_env m = false /\ reqsub_msg ty_env m = true /\ canon_msg ty_env (wnorm_msg ty_env m) = false.
Proof. vm_compute. repeat split; reflexivity. Qed.

(* ---------------------------------------------------------------------------------------------------------
   The reqsub_msg hypothesis is needed, and this one is a gap in Impl/WNorm.v rather than a typing condition:
   a required sub-message held through a NULL pointer.  The message is well-formed and typed; the serialiser
   writes key 74, length 0 for field 9; the parser returns a freshly initialised Sub there (its optional int32
   holding the default 7), whereas wnorm_msg keeps the NULL -- which is neither canonical nor what the parser returns. *)
Definition ty_null_required : msg :=
  Msg 0 [ SOne 0 (VWord 0); SOne 0 (VWord 0); SOne 0 (VWord 0); SRep 0 0 None;
          SOne 0 (VWord 0); SUnion 0; SUnion 0; SUnion 1; SOne 0 (VMsg None); SOne 0 (VWord 0) ]
      [ (0, VWord 0); (0, VWord 0) ] [].

Example null_required_hyps :
  wf_msg ty_env ty_null_required = true /\ typed_msg ty_env ty_null_required = true /\
  reqsub_msg ty_env ty_null_required = false.
Proof. vm_compute. repeat split; reflexivity. Qed.
Example null_required_not_canon : canon_msg ty_env (wnorm_msg ty_env ty_null_required) = false.
Proof. vm_compute. reflexivity. Qed.
Example null_required_bytes : pack_msg ty_env ty_null_required = Ok [26; 0; 74; 0].
Proof. vm_compute. reflexivity. Qed.
Example null_required_parse :
  (* what comes back is the normal form of the message holding an EMPTY Sub, not of the one holding NULL *)
  unpack_top ty_env 0 [26; 0; 74; 0] = Ok (wnorm_msg ty_env (ty_base (ty_sub 0 0) 0 [])) /\
  wnorm_msg ty_env ty_null_required <> wnorm_msg ty_env (ty_base (ty_sub 0 0) 0 []).
Proof. split; [vm_compute; reflexivity | vm_compute; discriminate]. Qed.

#!/usr/bin/env python3
"""Random generator of valid .proto schemas inside protobuf-c's supported feature set.

    gen_case(rnd: random.Random) -> (protos: {filename: text}, root: filename)

Covered: proto2 / proto3; all 15 scalar types, enum and message fields; required / optional / repeated (proto2),
implicit / repeated (proto3); [packed=...], [deprecated=true]; oneofs; nested and recursive messages, nested enums;
a second file in another package (about 30%) whose types are used by the root file; enums with negative, sparse,
aliased and extreme values, value / field / method names that are prefixes of each other or differ in the last
character; services with 0, 1, 2, 3 or many methods; keyword / mixed-case field names; sparse and large field numbers; proto2
defaults of every kind; the protobuf-c options (about 40%).

Never emitted (outside the supported set or known to break the plugin): proto3 `optional`, groups, maps,
extensions, inf/nan defaults, the trigraph `??/` in a default, `use_oneof_field_name`, `string_as_bytes` in proto3,
service method names / field names that are keywords the plugin does not escape (see DENY_* below).

CLI:  python3 protogen.py <seed> [outdir]     prints (or writes) the files of one case.
"""
import random
import sys

SCALARS = ['double', 'float', 'int32', 'int64', 'uint32', 'uint64', 'sint32', 'sint64', 'fixed32', 'fixed64',
           'sfixed32', 'sfixed64', 'bool', 'string', 'bytes']
PACKABLE = set(SCALARS) - {'string', 'bytes'}

INT32_MIN, INT32_MAX = -2147483648, 2147483647
INT64_MIN, INT64_MAX = -9223372036854775808, 9223372036854775807
UINT32_MAX, UINT64_MAX = 4294967295, 18446744073709551615
MAX_FIELD = 536870911

# Names.  Within one scope no two names have the same canonical key (lower case, '_' removed), which keeps the
# C identifiers the plugin derives (CamelToLower / ToCamel / ToLower) and proto3's JSON names distinct.
TYPE_NAMES = ['Person', 'Address', 'Item', 'Node', 'Tree', 'Leaf', 'Request', 'Reply', 'Empty', 'Config', 'Entry',
              'Blob', 'HTTPRequest', 'XMLDoc2', 'foo_msg', 'Mixed_Case', 'lowercase', 'Rec', 'Inner', 'Outer',
              'Pair', 'Triple', 'Wrapper', 'Status', 'Color', 'Kind', 'Mode', 'Level', 'Flag_set', 'Shape',
              'Header', 'Body', 'Chunk', 'Point3D', 'a_b_c_T', 'Q', 'Zz', 'Ping', 'Pong', 'Stats', 'Opts',
              'Int', 'Class', 'Union', 'Struct', 'Descriptor', 'Init', 'Pack', 'Closure']
# C / C++ keywords that protoc-gen-c escapes (kKeywordList), and ordinary / mixed-case names.
FIELD_NAMES = ['int', 'class', 'default', 'union', 'new', 'delete', 'bool', 'register', 'template', 'short',
               'double', 'float', 'char', 'this', 'namespace', 'typename', 'and', 'or', 'not', 'xor', 'struct',
               'enum', 'void', 'while', 'for', 'if', 'else', 'return', 'static', 'const', 'signed', 'unsigned',
               'Int', 'CLASS', 'Default',
               'fooBar', 'Foo_bar', 'HTTPPort', 'x', 'X1', 'a_b_c', 'value', 'data', 'len', 'descriptor', 'name',
               'id', 'kindOf', 'Type', 'count', 'items', 'payload', 'f', 'zz_top', 'camelCaseName', 'UPPER',
               'UPPER_SNAKE', 'snake_case', 'with1digit', 'v2', 'next', 'prev', 'left', 'right', 'child', 'parent',
               'message', 'service', 'option', 'package', 'import', 'syntax', 'repeated', 'optional', 'required',
               'string', 'bytes', 'int32', 'uint64', 'oneof', 'map', 'stream', 'rpc', 'returns', 'extend',
               'unknown_fields', 'n_unknown', 'base', 'has_more', 'n_items',
               # names that are prefixes of each other or differ in the last character only (by-name lookups)
               'val', 'valu', 'values', 'item', 'na', 'nam', 'names', 'v1', 'v3', 'ida', 'idb', 'lena', 'lenb',
               'dat', 'datb', 'y', 'z', 'co', 'coun', 'counts']
ONEOF_NAMES = ['kind', 'choice', 'variant', 'u', 'testOneof', 'Body', 'sel', 'which', 'alt_form']
ENUM_VALUE_WORDS = ['ZERO', 'ONE', 'RED', 'GREEN', 'BLUE', 'NONE', 'SOME', 'ALL', 'kFoo', 'lower_val', 'MixedVal',
                    'MIN', 'MAX', 'NEG', 'BIG', 'ALIAS', 'X', 'UNKNOWN', 'OK', 'FAIL']
METHOD_NAMES = ['Get', 'Put', 'List', 'Remove', 'Update', 'getThing', 'Do_it', 'Ping', 'HTTPFetch', 'a', 'Run',
                'Stop', 'Watch', 'query', 'Lookup', 'SetX',
                # prefixes of each other / last character differs
                'Ge', 'Gets', 'Puts', 'Lists', 'Rum', 'b', 'Stops', 'Pin', 'SetY', 'Lookuq']
SERVICE_NAMES = ['Svc', 'Store', 'Echo_service', 'dir', 'RPC1', 'Manager']
PACKAGES = ['', 'pkg', 'foo.bar', 'Foo.BarBaz', 'a.b.c', 'test_pkg', 'v1']
DEP_PACKAGES = ['dep', 'other.pkg', 'Lib', 'common.types.v2', 'x_y']
C_PACKAGES = ['cpkg', 'My.CPkg', 'c_pk', '']
ROOT_FILES = ['root.proto', 'case.proto', 'dir/root.proto', 'my-file.v1.proto', 'a/b/c.proto', 'Mixed_Name.proto']
DEP_FILES = ['dep.proto', 'sub/dep.proto', 'common/types.proto', 'other-dep.proto', 'a/b/d.proto']

# Valid schemas that are known to give code that does not compile; excluded so that random runs stay quiet.
# (they are kept as reproducers under fixed_protos/findings/)
DENY_FIELD_NAMES = {'restrict', 'alignas', 'alignof', 'char16_t', 'char32_t', 'constexpr', 'decltype', 'noexcept',
                    'nullptr', 'static_assert', 'thread_local', 'errno', 'base'}
DENY_METHOD_KEYS = {'do', 'new', 'delete', 'init', 'descriptor', 'base', 'class', 'int', 'for', 'if', 'this'}


def key(name):
    return name.replace('_', '').lower()


def camel_to_upper(name):
    """protoc-gen-c's CamelToUpper."""
    out, was_upper = '', True
    for ch in name:
        up = ch.isupper()
        if up and not was_upper:
            out += '_'
        out += ch.upper()
        was_upper = up
    return out


class Enum:
    def __init__(self, name, full, syntax, file_idx):
        self.name, self.full, self.syntax, self.file_idx = name, full, syntax, file_idx
        self.values = []        # (name, number)
        self.alias = False


class Msg:
    def __init__(self, name, full, syntax, file_idx, depth):
        self.name, self.full, self.syntax, self.file_idx, self.depth = name, full, syntax, file_idx, depth
        self.msgs, self.enums = [], []
        self.fields = []        # dicts
        self.oneofs = []        # names; field['oneof'] is an index or None
        self.options = []       # option lines
        self.base_name = 'base'
        self.comment = None


class File:
    def __init__(self, name, package, syntax, idx):
        self.name, self.package, self.syntax, self.idx = name, package, syntax, idx
        self.msgs, self.enums, self.services = [], [], []
        self.options = []
        self.use_pbc = False
        self.imports = []


def proto_string_literal(data, rnd):
    """A .proto string literal (with quotes) denoting exactly the bytes `data`."""
    out = []
    i = 0
    while i < len(data):
        b = data[i]
        ch = chr(b)
        if b >= 0x80 or b < 0x20 or b == 0x7f:
            # always 3 octal digits: cannot swallow a following digit
            out.append('\\%03o' % b if rnd.random() < 0.7 else '\\x%02x' % b)
            if out[-1].startswith('\\x') and i + 1 < len(data) and chr(data[i + 1]) in '0123456789abcdefABCDEF':
                out[-1] = '\\%03o' % b
        elif ch == '"':
            out.append('\\"')
        elif ch == '\\':
            out.append('\\\\')
        elif ch == "'":
            out.append("\\'" if rnd.random() < 0.5 else "'")
        elif ch == '?':
            out.append('\\?' if rnd.random() < 0.2 else '?')
        else:
            out.append(ch)
        i += 1
    return '"' + ''.join(out) + '"'


STRING_DEFAULTS = [b'', b'hello', b'a"b', b'back\\slash', b'tab\there', b'new\nline', b"it's", b'what?',
                   b'really??', b'??=', b'a??!b', b'??', b'?\\?', b'100%', b'$var$', b'$', b'$$', b'a$$b$$$$', b'/* c */', b'//',
                   'héllo'.encode(), '€'.encode(), '\U0001f600'.encode(), b'\x7f', b'\x01\x02',
                   b'\\n', b'"', b'\\', b'1\x012', b'\x017', b'\x1f0\x0b12', b'x' * 70, b'trail ', b' lead', b'%s%n', b'a\rb']
BYTES_EXTRA = [b'\x00', b'\x00\x00abc', b'abc\x00', b'\xff\xfe', b'\x80', bytes(range(0, 32)), b'\xffz', b'a\x00b',
               b'\xc3', b'\x00' * 5, bytes(range(120, 140))]
FLOAT_DEFAULTS = ['0.1', '16777217', '-0.0', '1e-320', '1.5', '-1e10', '1e-45', '0', '3.4028235e38',
                  '1.17549435e-38', '-16777216', '123456789', '1e38', '-2.5e-3', '0.30000001', '7']
DOUBLE_DEFAULTS = ['0.1', '1e-320', '-0.0', '16777217', '1.7976931348623157e308', '2.2250738585072014e-308',
                   '0.30000000000000004', '4.9e-324', '-1.5', '1e100', '9007199254740993', '0', '3.141592653589793',
                   '-123456.789e-7', '42']


def contains_bad_trigraph(data):
    return b'??/' in data


class Gen:
    def __init__(self, rnd):
        self.r = rnd
        self.type_keys = set()          # canonical keys of every message / enum / service name of the case
        self.value_ctr = 0
        self.value_names = set()
        self.files = []
        self.all_msgs = []              # every Msg of every file
        self.all_enums = []

    # ---------------------------------------------------------------- names
    def fresh_type_name(self, pool=TYPE_NAMES):
        r = self.r
        for _ in range(50):
            n = r.choice(pool)
            if key(n) not in self.type_keys:
                self.type_keys.add(key(n))
                return n
        n = 'T%d' % len(self.type_keys)
        while key(n) in self.type_keys:
            n += 'x'
        self.type_keys.add(key(n))
        return n

    def fresh_value_name(self, siblings=()):
        """A value name that is new in the whole case.  With some probability it is derived from one of
        `siblings` (names already in the same enum): that name plus a character, or with its last character
        changed, so that by-name tables contain prefixes and near misses."""
        r = self.r
        self.value_ctr += 1
        if siblings and r.random() < 0.3:
            base = r.choice(list(siblings))
            cands = [base + r.choice('xX_0'), base[:-1] + r.choice('abyz019'), base + base[-1]]
            r.shuffle(cands)
            for n in cands:
                # protoc compares value names of one enum ignoring case and underscores
                if key(n) not in self.value_names and n[-1] != '_':
                    self.value_names.add(key(n))
                    return n
        w = r.choice(ENUM_VALUE_WORDS)
        n = '%s_%d' % (w, self.value_ctr) if r.random() < 0.8 else '%s%dv' % (w, self.value_ctr)
        while key(n) in self.value_names:
            n += 'q'
        self.value_names.add(key(n))
        return n

    # ---------------------------------------------------------------- enums
    def fill_enum(self, e):
        r = self.r
        n = r.randint(1, 7)
        style = r.choice(['dense', 'sparse', 'negative', 'extreme', 'alias', 'mixed'])
        nums = []
        if e.syntax == 3:
            nums.append(0)
        pool_extreme = [INT32_MIN, INT32_MAX, INT32_MIN + 1, INT32_MAX - 1, -1, 0, 1]
        while len(nums) < n:
            if style == 'dense':
                v = (nums[-1] + 1) if nums else r.choice([0, 1, -3, 100])
            elif style == 'sparse':
                v = r.choice([0, 1, 2, 5, 10, 11, 12, 100, 1000, 65536, 1 << 20, (1 << 30) + 7])
            elif style == 'negative':
                v = r.choice([-1, -2, -3, -10, -100, -65536, 0, 1, 2, INT32_MIN])
            elif style == 'extreme':
                v = r.choice(pool_extreme)
            elif style == 'alias':
                v = r.choice(nums) if nums and r.random() < 0.5 else r.randint(-3, 6)
            else:
                v = r.choice(pool_extreme + [2, 3, 4, 7, 8, 9, -2, 1000, -1000] + nums)
            if v in nums and style not in ('alias', 'mixed'):
                if style == 'dense':
                    v = max(nums) + 1
                    if v > INT32_MAX:
                        break
                else:
                    continue
            nums.append(v)
        if e.syntax != 3 and r.random() < 0.6:
            first = nums[0]
            r.shuffle(nums)             # declaration order need not be numeric order
            if r.random() < 0.3:
                nums.remove(first)
                nums.insert(0, first)
        e.alias = len(set(nums)) != len(nums)
        e.values = []
        for v in nums:
            e.values.append((self.fresh_value_name([n for n, _ in e.values]), v))

    # ---------------------------------------------------------------- skeleton
    def make_msg(self, f, parent, depth):
        name = self.fresh_type_name()
        prefix = parent.full if parent else f.package
        full = (prefix + '.' if prefix else '') + name
        m = Msg(name, full, f.syntax, f.idx, depth)
        self.all_msgs.append(m)
        r = self.r
        if r.random() < 0.15:
            m.comment = r.choice([' A message.', ' tricky */ comment /* here', ' multi\n line\n comment',
                                  '/ leading slash', ' back\\slash at end \\'])
        return m

    def make_enum(self, f, parent):
        name = self.fresh_type_name()
        prefix = parent.full if parent else f.package
        full = (prefix + '.' if prefix else '') + name
        e = Enum(name, full, f.syntax, f.idx)
        self.fill_enum(e)
        self.all_enums.append(e)
        return e

    def skeleton(self, f, n_msgs):
        r = self.r
        budget = [n_msgs]

        def grow(parent, depth):
            m = self.make_msg(f, parent, depth)
            budget[0] -= 1
            if r.random() < 0.3:
                m.enums.append(self.make_enum(f, m))
            while budget[0] > 0 and depth < 3 and r.random() < 0.3:
                m.msgs.append(grow(m, depth + 1))
            return m

        while budget[0] > 0:
            f.msgs.append(grow(None, 0))
        for _ in range(r.choice([0, 0, 1, 1, 2])):
            f.enums.append(self.make_enum(f, None))

    # ---------------------------------------------------------------- defaults
    def default_for(self, ftype, enum):
        r = self.r
        if enum is not None:
            return r.choice(enum.values)[0]
        if ftype in ('int32', 'sint32', 'sfixed32'):
            return str(r.choice([INT32_MIN, INT32_MAX, 0, -1, 1, 42, -2147483647, r.randint(-1000, 1000)]))
        if ftype in ('uint32', 'fixed32'):
            return str(r.choice([0, UINT32_MAX, 1, 2147483648, 2147483647, r.randint(0, 100000)]))
        if ftype in ('int64', 'sint64', 'sfixed64'):
            return str(r.choice([INT64_MIN, INT64_MAX, 0, -1, 4294967296, -4294967297, INT64_MIN + 1,
                                 r.randint(-10 ** 12, 10 ** 12)]))
        if ftype in ('uint64', 'fixed64'):
            return str(r.choice([0, UINT64_MAX, 9223372036854775808, 9223372036854775807, 1, 4294967296]))
        if ftype == 'float':
            return r.choice(FLOAT_DEFAULTS)
        if ftype == 'double':
            return r.choice(DOUBLE_DEFAULTS)
        if ftype == 'bool':
            return r.choice(['true', 'false'])
        if ftype == 'string':
            return proto_string_literal(r.choice(STRING_DEFAULTS), r)
        if ftype == 'bytes':
            data = r.choice(STRING_DEFAULTS + BYTES_EXTRA + BYTES_EXTRA)
            if r.random() < 0.15:
                data = bytes(r.randrange(256) for _ in range(r.randint(1, 12)))
                while contains_bad_trigraph(data):
                    data = data.replace(b'??/', b'??.')
            return proto_string_literal(data, r)
        raise AssertionError(ftype)

    # ---------------------------------------------------------------- fields
    def field_numbers(self, n):
        r = self.r
        special = [1, 15, 16, 2047, 2048, MAX_FIELD, 18999, 20000, 127, 128, 16383, 16384, 2, 3]
        style = r.choice(['dense', 'special', 'mixed', 'mixed'])
        nums = []
        while len(nums) < n:
            if style == 'dense':
                v = len(nums) + 1
            elif style == 'special':
                v = r.choice(special)
            else:
                v = r.choice(special + [len(nums) + 1, r.randint(1, 40), r.randint(1, MAX_FIELD)])
            if v in nums or 19000 <= v <= 19999 or not 1 <= v <= MAX_FIELD:
                if style == 'special' and len(nums) >= len(special):
                    style = 'mixed'
                continue
            nums.append(v)
        if r.random() < 0.5:
            r.shuffle(nums)
        return nums

    def candidates(self, m, f):
        """Message and enum types a field of message m (in file f) may use."""
        vis_files = {f.idx} | {d.idx for d in f.imports}
        msgs = [x for x in self.all_msgs if x.file_idx in vis_files]
        enums = [e for e in self.all_enums if e.file_idx in vis_files and (m.syntax == 2 or e.syntax == 3)]
        return msgs, enums

    def pick_type(self, m, f, allow_msg=True):
        """-> (type text, kind, enum or None); kind in scalar|enum|message."""
        r = self.r
        msgs, enums = self.candidates(m, f)
        x = r.random()
        if x < 0.62 or (not msgs and not enums):
            t = r.choice(SCALARS)
            return t, 'scalar', None
        if x < 0.8 and enums:
            pref = [e for e in enums if e.file_idx != f.idx]
            e = r.choice(pref) if pref and r.random() < 0.5 else r.choice(enums)
            return '.' + e.full, 'enum', e
        if msgs and allow_msg:
            pref = [y for y in msgs if y.file_idx != f.idx]
            if pref and r.random() < 0.4:
                y = r.choice(pref)
            elif r.random() < 0.25:
                y = m                                    # directly recursive
            else:
                y = r.choice(msgs)
            return '.' + y.full, 'message', None
        t = r.choice(SCALARS)
        return t, 'scalar', None

    def fill_msg(self, m, f):
        r = self.r
        nf = r.choice([0, 1, 2, 3, 3, 4, 5, 6, 8, 10])
        n_oneofs = 0
        if nf >= 2 and r.random() < 0.35:
            n_oneofs = 1 if nf < 5 or r.random() < 0.7 else 2
        # scope symbols already taken: nested types and the values of nested enums
        used_keys = {key(x.name) for x in m.msgs} | {key(e.name) for e in m.enums}
        for e in m.enums:
            used_keys |= {key(v[0]) for v in e.values}
        deny = set(DENY_FIELD_NAMES)
        if m.base_name != 'base':
            deny.discard('base')

        def fresh(pool, extra_ok=None):
            for _ in range(80):
                n = r.choice(pool)
                k = key(n)
                low = n.lower()
                if k in used_keys or n in deny or low in deny:
                    continue
                if extra_ok and not extra_ok(n):
                    continue
                used_keys.add(k)
                return n
            n = 'f%d' % len(used_keys)
            while key(n) in used_keys:
                n += 'q'
            used_keys.add(key(n))
            return n

        # C member names that must stay distinct: <lower(name)>[_], has_<..>, n_<..>, <oneof>_case
        members = set()

        def member_ok(n):
            low = n.lower()
            cand = {low, low + '_', 'has_' + low, 'n_' + low, 'has_' + low + '_', 'n_' + low + '_'}
            return not (cand & members)

        def take_member(n):
            low = n.lower()
            members.update({low, low + '_', 'has_' + low, 'n_' + low, 'has_' + low + '_', 'n_' + low + '_'})

        members.add(m.base_name)
        for i in range(n_oneofs):
            on = fresh(ONEOF_NAMES, lambda n: (camel_lower(n) + '_case') not in members)
            m.oneofs.append(on)
            members.add(camel_lower(on) + '_case')

        numbers = self.field_numbers(nf)
        # which fields go into which oneof: runs of 2..4 fields declared together
        oneof_of = [None] * nf
        pos = 0
        for oi in range(n_oneofs):
            need_after = 2 * (n_oneofs - oi - 1)
            maxsize = min(4, nf - pos - need_after)
            if maxsize < 2:
                break
            size = r.randint(2, maxsize)
            start = r.randint(pos, nf - need_after - size)
            for j in range(start, start + size):
                oneof_of[j] = oi
            pos = start + size
        m.oneofs = m.oneofs[:max([o for o in oneof_of if o is not None], default=-1) + 1]

        case_consts = set()
        for i in range(nf):
            oi = oneof_of[i]
            for _ in range(100):
                name = fresh(FIELD_NAMES, member_ok)
                if oi is not None:
                    c = camel_to_upper(m.oneofs[oi]) + '_' + camel_to_upper(name)
                    if c in case_consts:
                        continue
                    case_consts.add(c)
                break
            take_member(name)
            ftype, kind, enum = self.pick_type(m, f)
            fld = {'name': name, 'number': numbers[i], 'type': ftype, 'kind': kind, 'oneof': oi, 'opts': [],
                   'label': '', 'comment': None}
            if oi is not None:
                fld['label'] = ''
            elif m.syntax == 3:
                fld['label'] = 'repeated' if r.random() < 0.35 else ''
            else:
                fld['label'] = r.choice(['optional', 'optional', 'optional', 'required', 'repeated', 'repeated'])
            rep = fld['label'] == 'repeated'
            if rep and (kind == 'enum' or (kind == 'scalar' and ftype in PACKABLE)) and r.random() < 0.5:
                fld['opts'].append('packed = %s' % r.choice(['true', 'false']))
            if m.syntax == 2 and not rep and kind != 'message' and r.random() < 0.5:
                fld['opts'].append('default = %s' % self.default_for(ftype, enum))
            if r.random() < 0.12:
                fld['opts'].append('deprecated = %s' % ('true' if r.random() < 0.85 else 'false'))
            if f.use_pbc and m.syntax == 2 and ftype == 'string' and r.random() < 0.4:
                fld['opts'].append('(pb_c_field).string_as_bytes = %s' % ('true' if r.random() < 0.85 else 'false'))
            if r.random() < 0.08:
                fld['comment'] = r.choice([' a field', ' ends the comment */ early', ' /* nested', '* star'])
            r.shuffle(fld['opts'])
            m.fields.append(fld)

        for sub in m.msgs:
            self.fill_msg(sub, f)

    # ---------------------------------------------------------------- options
    def file_options(self, f):
        r = self.r
        if r.random() < 0.15:
            # a file that is not LITE_RUNTIME may not import one that is: only the root file may be lite
            modes = ['CODE_SIZE', 'CODE_SIZE', 'SPEED'] + (['LITE_RUNTIME'] if f.idx == 0 else [])
            f.options.append('option optimize_for = %s;' % r.choice(modes))
        if not f.use_pbc:
            return
        if r.random() < 0.45:
            f.options.append('option (pb_c_file).c_package = "%s";' % r.choice(C_PACKAGES))
        if r.random() < 0.4:
            f.options.append('option (pb_c_file).const_strings = %s;' % r.choice(['true', 'true', 'false']))
        if r.random() < 0.4:
            f.options.append('option (pb_c_file).gen_pack_helpers = %s;' % r.choice(['true', 'false']))
        if r.random() < 0.4:
            f.options.append('option (pb_c_file).gen_init_helpers = %s;' % r.choice(['true', 'false', 'false']))
        r.shuffle(f.options)

    def msg_options(self, m, f):
        r = self.r
        if f.use_pbc:
            if r.random() < 0.3:
                m.options.append('option (pb_c_msg).gen_pack_helpers = %s;' % r.choice(['true', 'false']))
            if r.random() < 0.3:
                m.options.append('option (pb_c_msg).gen_init_helpers = %s;' % r.choice(['true', 'false']))
            if r.random() < 0.15:
                m.base_name = r.choice(['base_', 'parent_msg', 'pbc_base', 'super'])
                m.options.append('option (pb_c_msg).base_field_name = "%s";' % m.base_name)
        for sub in m.msgs:
            self.msg_options(sub, f)

    # ---------------------------------------------------------------- services
    def services(self, f):
        r = self.r
        vis_files = {f.idx} | {d.idx for d in f.imports}
        msgs = [x for x in self.all_msgs if x.file_idx in vis_files]
        if not msgs or r.random() > 0.4:
            return
        for _ in range(r.choice([1, 1, 1, 2])):
            name = self.fresh_type_name(SERVICE_NAMES)
            full = (f.package + '.' if f.package else '') + name
            methods, used = [], set()
            # 0, 1, 2, 3 and many methods: every shape of the binary search over method_indices_by_name
            for _ in range(r.choice([0, 1, 2, 3, 3, r.randint(4, 9)])):
                for _ in range(50):
                    mn = r.choice(METHOD_NAMES)
                    if methods and r.random() < 0.4:
                        # a name that extends or truncates one already taken, declared in either order
                        base = r.choice(methods)[0]
                        mn = r.choice([base + 's', base + 'All', base + 'X1', base[:-1] if len(base) > 1 else base + 'y',
                                       base[:max(1, len(base) // 2)]])
                    if key(mn) not in used and camel_lower(mn) not in DENY_METHOD_KEYS:
                        break
                else:
                    mn = 'M%d' % len(used)
                used.add(key(mn))
                methods.append((mn, r.choice(msgs), r.choice(msgs)))
            f.services.append((name, full, methods))

    # ---------------------------------------------------------------- text
    def emit_enum(self, e, ind, out):
        out.append('%senum %s {' % (ind, e.name))
        if e.alias:
            out.append('%s  option allow_alias = true;' % ind)
        for n, v in e.values:
            out.append('%s  %s = %d;' % (ind, n, v))
        out.append('%s}' % ind)

    def emit_comment(self, text, ind, out):
        if text is None:
            return
        for line in text.split('\n'):
            out.append('%s//%s' % (ind, line))

    def emit_field(self, fld, ind, out):
        self.emit_comment(fld['comment'], ind, out)
        opts = ' [%s]' % ', '.join(fld['opts']) if fld['opts'] else ''
        label = fld['label'] + ' ' if fld['label'] else ''
        out.append('%s%s%s %s = %d%s;' % (ind, label, fld['type'], fld['name'], fld['number'], opts))

    def emit_msg(self, m, ind, out):
        r = self.r
        self.emit_comment(m.comment, ind, out)
        out.append('%smessage %s {' % (ind, m.name))
        sub = ind + '  '
        for o in m.options:
            out.append(sub + o)
        # nested declarations before or after the fields
        nested_first = r.random() < 0.5
        body_nested = []
        for e in m.enums:
            self.emit_enum(e, sub, body_nested)
        for x in m.msgs:
            self.emit_msg(x, sub, body_nested)
        if nested_first:
            out.extend(body_nested)
        i = 0
        while i < len(m.fields):
            fld = m.fields[i]
            if fld['oneof'] is None:
                self.emit_field(fld, sub, out)
                i += 1
            else:
                oi = fld['oneof']
                out.append('%soneof %s {' % (sub, m.oneofs[oi]))
                while i < len(m.fields) and m.fields[i]['oneof'] == oi:
                    self.emit_field(m.fields[i], sub + '  ', out)
                    i += 1
                out.append('%s}' % sub)
        if not nested_first:
            out.extend(body_nested)
        out.append('%s}' % ind)

    def emit_file(self, f):
        r = self.r
        out = []
        if f.syntax == 3 or r.random() < 0.85:
            out.append('syntax = "proto%d";' % f.syntax)       # proto2 is also the default without the line
        if f.package:
            out.append('package %s;' % f.package)
        imports = ['import "%s";' % d.name for d in f.imports]
        if f.use_pbc:
            imports.append('import "protobuf-c/protobuf-c.proto";')
        r.shuffle(imports)
        out.extend(imports)
        out.extend(f.options)
        out.append('')
        blocks = []
        for m in f.msgs:
            b = []
            self.emit_msg(m, '', b)
            blocks.append(b)
        for e in f.enums:
            b = []
            self.emit_enum(e, '', b)
            blocks.append(b)
        for name, _full, methods in f.services:
            b = ['service %s {' % name]
            for mn, a, c in methods:
                b.append('  rpc %s(.%s) returns (.%s);' % (mn, a.full, c.full))
            b.append('}')
            blocks.append(b)
        r.shuffle(blocks)           # declaration order is free in .proto files
        for b in blocks:
            out.extend(b)
            out.append('')
        return '\n'.join(out)

    # ---------------------------------------------------------------- driver
    def run(self):
        r = self.r
        syntax = r.choice([2, 2, 3])
        root = File(r.choice(ROOT_FILES), r.choice(PACKAGES), syntax, 0)
        files = [root]
        if r.random() < 0.3:
            dsyn = r.choice([2, 3])
            dep = File(r.choice(DEP_FILES), r.choice(DEP_PACKAGES), dsyn, 1)
            while dep.name == root.name:
                dep.name = r.choice(DEP_FILES)
            root.imports.append(dep)
            files.append(dep)
        self.files = files
        total = r.randint(1, 6)
        for f in reversed(files):
            f.use_pbc = r.random() < 0.4
            n = total if f is root else r.randint(1, 3)
            if f is root and len(files) > 1:
                n = max(1, total - 1)
            self.skeleton(f, n)
        for f in files:
            for m in f.msgs:
                self.msg_options(m, f)
            self.file_options(f)
        for f in files:
            for m in f.msgs:
                self.fill_msg(m, f)
            self.services(f)
        protos = {f.name: self.emit_file(f) for f in files}
        return protos, root.name


def camel_lower(name):
    """protoc-gen-c's CamelToLower."""
    out, was_upper = '', True
    for ch in name:
        up = ch.isupper()
        if up and not was_upper:
            out += '_'
        out += ch.lower()
        was_upper = up
    return out


def gen_case(rnd):
    return Gen(rnd).run()


def _selfcheck_pools():
    names = TYPE_NAMES + SERVICE_NAMES
    assert len({key(n) for n in names}) == len(names), 'type / service name pools have clashing keys'
    assert len({key(n) for n in ONEOF_NAMES}) == len(ONEOF_NAMES)


_selfcheck_pools()


if __name__ == '__main__':
    seed = int(sys.argv[1]) if len(sys.argv) > 1 else 0
    protos, root = gen_case(random.Random(seed))
    if len(sys.argv) > 2:
        import os
        for n, t in protos.items():
            p = os.path.join(sys.argv[2], n)
            os.makedirs(os.path.dirname(p) or '.', exist_ok=True)
            with open(p, 'w') as fh:
                fh.write(t)
        print(root)
    else:
        for n, t in protos.items():
            print('// ---- %s%s' % (n, '  (root)' if n == root else ''))
            print(t)

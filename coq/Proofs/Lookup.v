(* C14, runtime side: int_range_lookup (regenerated from the C source) is a
   total, exact search over every table satisfying ranges_ok, for every 32-bit key. *)
From Coq Require Import ZArith List Bool Lia ZifyBool.
From PBC Require Import Base.CInt Base.Bits Gen.LeafC.
Import ListNotations.
Local Open Scope Z_scope.

Ltac Zify.zify_post_hook ::= Z.div_mod_to_equations.

Definition rsz (rs : list IntRange) (i : Z) : Z := orig_index (rdr rs (i + 1)) - orig_index (rdr rs i).
Definition rst (rs : list IntRange) (i : Z) : Z := start_value (rdr rs i).
Definition rorig (rs : list IntRange) (i : Z) : Z := orig_index (rdr rs i).

Record ranges_ok (rs : list IntRange) (N : Z) : Prop := {
  ro_len : Z.of_nat (length rs) = N + 1;
  ro_N : 0 < N < 2147483648;
  ro_start : forall i, 0 <= i < N -> -2147483648 <= rst rs i /\ rst rs i + rsz rs i <= 2147483648;
  ro_sz : forall i, 0 <= i < N -> 1 <= rsz rs i;
  ro_orig : forall i, 0 <= i <= N -> 0 <= rorig rs i < 2147483648;
  ro_sorted : forall i, 0 <= i -> i + 1 < N -> rst rs i + rsz rs i <= rst rs (i + 1);
}.

Definition hit (rs : list IntRange) (v i : Z) : Prop := rst rs i <= v < rst rs i + rsz rs i.

Lemma sorted_far : forall rs N, ranges_ok rs N ->
  forall d, 0 <= d -> forall i, 0 <= i -> i + 1 + d < N -> rst rs i + rsz rs i <= rst rs (i + 1 + d).
Proof.
  intros rs N R d Hd. pattern d. apply natlike_ind; [| |exact Hd].
  - intros i Hi Hn. replace (i + 1 + 0) with (i + 1) by lia. apply (ro_sorted _ _ R); lia.
  - intros x Hx IH i Hi Hn.
    pose proof (IH i Hi ltac:(lia)).
    pose proof (ro_sorted _ _ R (i + 1 + x) ltac:(lia) ltac:(lia)).
    pose proof (ro_sz _ _ R (i + 1 + x) ltac:(lia)).
    replace (i + 1 + Z.succ x) with (i + 1 + x + 1) by lia. lia.
Qed.

Lemma sorted_lt : forall rs N, ranges_ok rs N ->
  forall i j, 0 <= i -> i < j -> j < N -> rst rs i + rsz rs i <= rst rs j.
Proof.
  intros rs N R i j Hi Hij Hj.
  replace j with (i + 1 + (j - i - 1)) by lia. apply (sorted_far rs N R (j - i - 1)); lia.
Qed.

Lemma u32_diff : forall v s, -2147483648 <= s -> s <= v -> v < 2147483648 -> u32 (u32 v - u32 s) = v - s.
Proof. intros v s H1 H2 H3. unfold u32. lia. Qed.

Lemma s32_small : forall v, -2147483648 <= v < 2147483648 -> s32 v = v.
Proof. intros v H. unfold s32, sw. destruct (_ <? _) eqn:E; lia. Qed.

Lemma while_S' : forall (S R : Type) f (b : S -> step S R) s,
  while_ (Datatypes.S f) b s =
  match b s with Continue s' => while_ f b s' | Break s' => LDone s' | Return r => LRet r end.
Proof. reflexivity. Qed.

Section Search.
Variable rs : list IntRange.
Variable N : Z.
Hypothesis R : ranges_ok rs N.
Variable v : Z.
Hypothesis Hv : -2147483648 <= v < 2147483648.

Definition inv (n start : Z) : Prop :=
  0 <= start /\ 0 <= n /\ start + n <= N /\
  (forall i, 0 <= i < start -> rst rs i + rsz rs i <= v) /\
  (forall i, start + n <= i < N -> v < rst rs i).

Definition answer (r : Z) : Prop := exists i, 0 <= i < N /\ hit rs v i /\ r = v - rst rs i + rorig rs i.

Lemma lookup_correct :
  (forall r, answer r -> int_range_lookup N rs v = r) /\
  ((forall i, 0 <= i < N -> ~ hit rs v i) -> int_range_lookup N rs v = -1).
Proof.
  pose proof (ro_N _ _ R) as HN.
  unfold int_range_lookup. cbv zeta.
  destruct (Z.eqb_spec N 0) as [?|_]; [lia|].
  match goal with |- context [@while_ _ _ _ ?b _] => set (body := b) end.
  (* the loop: binary search keeps the invariant and ends with n <= 1 or with the answer *)
  assert (L : forall (f : nat) n start, inv n start -> n < 2 ^ Z.of_nat f ->
              (exists r, while_ (S f) body (n, start) = LRet r /\ answer r) \/
              (exists n' start', while_ (S f) body (n, start) = LDone (n', start') /\ n' <= 1 /\ inv n' start')).
  { induction f as [|f IH]; intros n start I Hn.
    - change (2 ^ Z.of_nat 0) with 1 in Hn. right. exists n, start.
      destruct I as (I1 & I2 & I3 & I4 & I5).
      rewrite while_S'.
      assert (Hb : body (n, start) = ltac:(let t := eval cbv beta iota zeta delta [body] in (body (n, start)) in exact t)) by reflexivity.
      rewrite Hb; clear Hb.
      destruct (Z.gtb_spec n 1) as [Hgt | Hle]; [lia|].
      split; [reflexivity|]. split; [lia|]. repeat split; auto.
    - rewrite Nat2Z.inj_succ, Z.pow_succ_r in Hn by lia.
      rewrite while_S'.
      assert (Hb : body (n, start) = ltac:(let t := eval cbv beta iota zeta delta [body] in (body (n, start)) in exact t)) by reflexivity.
      rewrite Hb; clear Hb.
      destruct I as (I1 & I2 & I3 & I4 & I5).
      destruct (Z.gtb_spec n 1) as [Hgt | Hle].
      2:{ right. exists n, start. split; [reflexivity|]. split; [lia|]. repeat split; auto. }
      assert (Hmid : u32 (start + n / 2) = start + n / 2) by (apply u32_small; lia).
      rewrite Hmid. set (mid := start + n / 2).
      assert (Hm : start < mid < start + n) by (subst mid; lia).
      fold (rst rs mid). fold (rorig rs mid).
      rewrite (u32_small (mid + 1)) by lia. fold (rorig rs (mid + 1)).
      pose proof (ro_start _ _ R mid ltac:(lia)) as [Hs1 Hs2].
      pose proof (ro_sz _ _ R mid ltac:(lia)) as Hsz.
      pose proof (ro_orig _ _ R mid ltac:(lia)) as Ho1.
      pose proof (ro_orig _ _ R (mid + 1) ltac:(lia)) as Ho2.
      destruct (Z.ltb_spec v (rst rs mid)) as [Hlt | Hge].
      + (* go left *)
        rewrite (u32_small (mid - start)) by lia.
        apply IH; [|lia]. repeat split; try lia; auto.
        intros i Hi. destruct (Z.eq_dec i mid) as [->|Hne]; [lia|].
        pose proof (sorted_lt rs N R mid i ltac:(lia) ltac:(lia) ltac:(lia)). lia.
      + rewrite (u32_diff v (rst rs mid)) by lia.
        assert (Esz : u32 (rorig rs (mid + 1) - rorig rs mid) = rsz rs mid).
        { unfold rsz, rorig in *. apply u32_small. lia. }
        rewrite Esz.
        rewrite Z.geb_leb. destruct (Z.leb_spec (rsz rs mid) (v - rst rs mid)) as [Hbeyond | Hin].
        * (* go right *)
          rewrite (u32_small (start + n)) by lia.
          rewrite (u32_small (start + n - (mid + 1))) by lia.
          apply IH; [|lia]. repeat split; try lia; auto.
          -- intros i Hi. destruct (Z.eq_dec i mid) as [->|Hne]; [lia|].
             destruct (Z_lt_ge_dec i start); [apply I4; lia|].
             pose proof (sorted_lt rs N R i mid ltac:(lia) ltac:(lia) ltac:(lia)).
             pose proof (ro_sz _ _ R i ltac:(lia)). lia.
          -- intros i Hi. apply I5. lia.
        * (* found *)
          left. eexists. split; [reflexivity|].
          exists mid. split; [lia|]. split; [unfold hit; lia|].
          rewrite (s32_small (v - rst rs mid)) by (unfold rsz, rorig in *; lia).
          rewrite (u32_small (v - rst rs mid)) by (unfold rsz, rorig in *; lia).
          rewrite u32_small by (unfold rsz, rorig in *; lia).
          rewrite s32_small by (unfold rsz, rorig in *; lia). reflexivity. }
  assert (I0 : inv N 0).
  { repeat split; try lia. }
  destruct (L 39%nat N 0 I0 ltac:(change (2 ^ Z.of_nat 39) with 549755813888; lia))
    as [(r & Hw & Hans) | (n' & start' & Hw & Hn' & I')]; rewrite Hw.
  - (* the loop returned: it is the unique answer *)
    split.
    + intros r' (i' & Hi' & Hh' & Er'). destruct Hans as (i & Hi & Hh & Er).
      assert (i = i').
      { destruct (Z.lt_trichotomy i i') as [Hlt | [Heq | Hgt]]; [|exact Heq|]; exfalso.
        - pose proof (sorted_lt rs N R i i' ltac:(lia) Hlt ltac:(lia)). unfold hit in *. lia.
        - pose proof (sorted_lt rs N R i' i ltac:(lia) ltac:(lia) ltac:(lia)). unfold hit in *. lia. }
      subst i'. congruence.
    + intros Hno. destruct Hans as (i & Hi & Hh & _). exfalso. exact (Hno i Hi Hh).
  - (* the loop ended with at most one candidate range *)
    destruct I' as (I1 & I2 & I3 & I4 & I5).
    destruct (Z.gtb_spec n' 0) as [Hpos | Hz].
    + assert (n' = 1) by lia. subst n'.
      fold (rst rs start'). fold (rorig rs start').
      rewrite (u32_small (start' + 1)) by lia. fold (rorig rs (start' + 1)).
      pose proof (ro_start _ _ R start' ltac:(lia)) as [Hs1 Hs2].
      pose proof (ro_sz _ _ R start' ltac:(lia)) as Hsz.
      pose proof (ro_orig _ _ R start' ltac:(lia)) as Ho1.
      pose proof (ro_orig _ _ R (start' + 1) ltac:(lia)) as Ho2.
      assert (Esz : u32 (rorig rs (start' + 1) - rorig rs start') = rsz rs start').
      { unfold rsz, rorig in *. apply u32_small. lia. }
      rewrite Esz.
      destruct (Z.leb_spec (rst rs start') v) as [Hge | Hlt]; cbn [andb].
      * rewrite (u32_diff v (rst rs start')) by lia.
        destruct (Z.ltb_spec (v - rst rs start') (rsz rs start')) as [Hin | Hout].
        -- assert (Hhit : hit rs v start') by (unfold hit; lia).
           rewrite (s32_small (v - rst rs start')) by (unfold rsz, rorig in *; lia).
           rewrite (u32_small (v - rst rs start')) by (unfold rsz, rorig in *; lia).
           rewrite u32_small by (unfold rsz, rorig in *; lia).
           rewrite s32_small by (unfold rsz, rorig in *; lia).
           split.
           ++ intros r' (i' & Hi' & Hh' & Er').
              assert (start' = i').
              { destruct (Z.lt_trichotomy start' i') as [Hlt | [Heq | Hgt]]; [|exact Heq|]; exfalso.
                - pose proof (I5 i' ltac:(lia)). unfold hit in *. lia.
                - pose proof (I4 i' ltac:(lia)). unfold hit in *. lia. }
              subst i'. lia.
           ++ intros Hno. exfalso. exact (Hno start' ltac:(lia) Hhit).
        -- split.
           ++ intros r' (i' & Hi' & Hh' & _). exfalso.
              destruct (Z.lt_trichotomy start' i') as [Hlt | [Heq | Hgt]].
              ** pose proof (I5 i' ltac:(lia)). unfold hit in *. lia.
              ** subst i'. unfold hit in *. lia.
              ** pose proof (I4 i' ltac:(lia)). unfold hit in *. lia.
           ++ intros _. reflexivity.
      * split.
        -- intros r' (i' & Hi' & Hh' & _). exfalso.
           destruct (Z.lt_trichotomy start' i') as [Hlt' | [Heq | Hgt]].
           ** pose proof (I5 i' ltac:(lia)). unfold hit in *. lia.
           ** subst i'. unfold hit in *. lia.
           ** pose proof (I4 i' ltac:(lia)). unfold hit in *. lia.
        -- intros _. reflexivity.
    + assert (n' = 0) by lia. subst n'. split.
      * intros r' (i' & Hi' & Hh' & _). exfalso.
        destruct (Z_lt_ge_dec i' start').
        -- pose proof (I4 i' ltac:(lia)). unfold hit in *. lia.
        -- pose proof (I5 i' ltac:(lia)). unfold hit in *. lia.
      * intros _. reflexivity.
Qed.

End Search.

(* The two hand-written models of protobuf_c_message_unpack agree.

   Impl/Unpack.v (values: which message comes back, or failure) and Impl/Heap.v (allocations: every do_alloc / do_free,
   under a plan of refused requests) are tied to the C code separately.  This file and Proofs/HeapSim2.v prove that,
   under the plan that refuses nothing, the allocation-level model takes exactly the accept / reject decision of the
   value-level one, and that the heap message it builds has the shape of the value message: same descriptor, same has
   flags, same oneof case words, same pointer states (NULL / static default / heap block), same bytes lengths, same
   element counts, same number of unknown fields ([sim_msg]).  Hence what is proved about the decisions of the value
   model carries over to the model on which the allocation discipline (C07 / C08) is proved.
   (The unknown-field table pointer is not part of the relation: no decision depends on it.  Impl/HeapInv.v's hwt says
   when it exists.)

   ONE DISAGREEMENT was found by this proof, and has since been removed from the value-level model:
   the C code refuses a message with more than 16 * (2^23 - 1) = 134217712 members at one nesting level ("too many
   fields": which_slab == MAX_SCANNED_MEMBER_SLAB = 22), and so does Impl/Heap.v (h_scan: Nat.eqb w 22); the
   value-level scan_loop has no such limit, and unpack used to accept such inputs (the smallest: 268435426 bytes).
   Impl/Unpack.v's unpack now makes the test right after the scan (max_members), and the simulation covers every input
   of less than 2^31 bytes; [h_scan_slab_limit], [h_scan_sim] and Example [slab_limit_diverges] (HeapSim2.v) show the
   step and how the two models meet there.

   One UNREACHABLE state also disagrees and is excluded by the invariant, not by a hypothesis: merge_messages on a
   singular string member holding the "static default" pointer when the field has no default (value level:
   str_is_dflt says "is the default"; heap level: is_def says "is not", because default_value is NULL).  The parser
   never builds such a cell (ParseGood.good_msg: PDef only where a default exists), so good_msg is carried along
   ([is_def_agree]).

   This file: the simulation relation, and merge_messages ([merge_sim]: on well-shaped good messages of one type the
   value-level merge returns Ok, the heap-level one returns true, and the latter messages are related; the heap loop
   over the fields meets a oneof once per member field, the value level once per group: [ust], [union_step]).
   HeapSim2.v: scan, arrays, parse_required_member, members, fuel induction, closed statements. *)
From Coq Require Import ZArith List Bool Lia ZifyBool.
From PBC Require Import Base.CInt Base.Bits Gen.LeafC Impl.Desc Impl.Mem Impl.Enc Impl.WF Impl.Unpack Impl.Canon
     Impl.Typed Impl.Heap Impl.HeapInv Proofs.MsgInd Proofs.Shape Proofs.ScanRec Proofs.ScanRecs Proofs.MsgRT4 Proofs.ScanCount
     Proofs.MergeSafe Proofs.ParseSafe Proofs.ParseGood.
Import ListNotations.
Local Open Scope Z_scope.

(* ====================================================================== the simulation relation *)

(* same pointer state; the contents (value level) and the block identity (heap level) are not compared *)
Definition sim_ptr {X Y : Type} (p : ptr X) (q : ptr Y) : Prop :=
  match p, q with
  | PNull, PNull => True
  | PDef, PDef => True
  | PHeap _, PHeap _ => True
  | _, _ => False
  end.

(* pairwise relation of two lists (a fix with the relation outside, so that sim_msg may be passed to it) *)
Definition rel2 {X Y : Type} (R : X -> Y -> Prop) : list X -> list Y -> Prop :=
  fix go (a : list X) (b : list Y) {struct a} : Prop :=
    match a, b with
    | [], [] => True
    | x :: a', y :: b' => R x y /\ go a' b'
    | _, _ => False
    end.

(* a scalar cell, and a zeroed cell (VWord 0, which as_str / as_bytes / as_msg read as NULL exactly as as_hstr /
   as_hbytes / the HMsg match read HScalar), correspond to HScalar *)
Definition sim_val_ (rec : msg -> hmsg -> Prop) (v : sval) (hv : hval) : Prop :=
  match v, hv with
  | VWord _, HScalar => True
  | VStr p, HStr q => sim_ptr p q
  | VBytes n p, HBytes k q => n = k /\ sim_ptr p q
  | VMsg None, HMsg None => True
  | VMsg (Some m), HMsg (Some hm) => rec m hm
  | _, _ => False
  end.

Definition sim_slot_ (rec : msg -> hmsg -> Prop) (s : slot) (h : hslot) : Prop :=
  match s, h with
  | SOne a v, HOne b hv => a = b /\ sim_val_ rec v hv
  | SRep n cap None, HRep None => n = 0
  | SRep n cap (Some l), HRep (Some (_, hl)) => n = zlen l /\ rel2 (sim_val_ rec) l hl
  | SUnion g, HUnion g' => g = g'
  | _, _ => False
  end.

Definition sim_union_ (rec : msg -> hmsg -> Prop) (cv : Z * sval) (hcv : Z * hval) : Prop :=
  fst cv = fst hcv /\ sim_val_ rec (snd cv) (snd hcv).

Fixpoint sim_msg (m : msg) (hm : hmsg) {struct m} : Prop :=
  match m with
  | Msg d ss us uk =>
      match hm with
      | HM _ hd hss hus _ huk =>
          d = hd /\ rel2 (sim_slot_ sim_msg) ss hss /\ rel2 (sim_union_ sim_msg) us hus /\ length uk = length huk
      end
  end.

Definition sim_val : sval -> hval -> Prop := sim_val_ sim_msg.
Definition sim_slot : slot -> hslot -> Prop := sim_slot_ sim_msg.
Definition sim_union : Z * sval -> Z * hval -> Prop := sim_union_ sim_msg.

(* ---------- rel2 is Forall2 *)
Lemma rel2_F2 : forall (X Y : Type) (R : X -> Y -> Prop) a b, rel2 R a b <-> Forall2 R a b.
Proof.
  intros X Y R. induction a as [|x a IH]; intros [|y b]; cbn [rel2].
  - split; intros _; [constructor | exact I].
  - split; intros H; [contradiction | inversion H].
  - split; intros H; [contradiction | inversion H].
  - split; intros H.
    + constructor; [exact (proj1 H) | apply IH; exact (proj2 H)].
    + inversion H; subst. split; [assumption | apply IH; assumption].
Qed.

Lemma sim_msg_eq : forall d ss us uk id hd hss hus ut huk,
  sim_msg (Msg d ss us uk) (HM id hd hss hus ut huk) <->
  d = hd /\ Forall2 sim_slot ss hss /\ Forall2 sim_union us hus /\ length uk = length huk.
Proof.
  intros. cbn [sim_msg]. fold sim_slot sim_union. rewrite !rel2_F2. reflexivity.
Qed.

Lemma sim_slot_rep : forall n cap l a hl, sim_slot (SRep n cap (Some l)) (HRep (Some (a, hl))) <-> n = zlen l /\ Forall2 sim_val l hl.
Proof. intros. unfold sim_slot. cbn [sim_slot_]. fold sim_val. rewrite rel2_F2. reflexivity. Qed.

Lemma sim_hm_d : forall m hm, sim_msg m hm -> hm_d hm = m_desc m.
Proof. intros [d ss us uk] [id hd hss hus ut huk] H. apply sim_msg_eq in H. cbn [hm_d m_desc]. symmetry. exact (proj1 H). Qed.

(* ---------- Forall2 helpers *)
Lemma F2_nth_l : forall (X Y : Type) (R : X -> Y -> Prop) a b, Forall2 R a b ->
  forall i x, nth_error a i = Some x -> exists y, nth_error b i = Some y /\ R x y.
Proof.
  intros X Y R a b H. induction H as [|x y a b Hxy H IH]; intros i x0 Hx; [destruct i; discriminate Hx|].
  destruct i as [|i]; cbn [nth_error] in *; [inversion Hx; subst; eauto | exact (IH i x0 Hx)].
Qed.

Lemma F2_nth_r : forall (X Y : Type) (R : X -> Y -> Prop) a b, Forall2 R a b ->
  forall i y, nth_error b i = Some y -> exists x, nth_error a i = Some x /\ R x y.
Proof.
  intros X Y R a b H. induction H as [|x y a b Hxy H IH]; intros i y0 Hy; [destruct i; discriminate Hy|].
  destruct i as [|i]; cbn [nth_error] in *; [inversion Hy; subst; eauto | exact (IH i y0 Hy)].
Qed.

Lemma F2_len : forall (X Y : Type) (R : X -> Y -> Prop) a b, Forall2 R a b -> length a = length b.
Proof. intros X Y R a b H. induction H; cbn [length]; congruence. Qed.

Lemma F2_set_nth : forall (X Y : Type) (R : X -> Y -> Prop) a b i x y, Forall2 R a b -> R x y ->
  Forall2 R (set_nth a i x) (set_nth b i y).
Proof.
  intros X Y R a b i x y H Hxy. revert i. induction H as [|x0 y0 a b H0 H IH]; intros i; [destruct i; constructor|].
  destruct i as [|i]; cbn [set_nth]; constructor; auto.
Qed.

Lemma F2_repeat : forall (X Y : Type) (R : X -> Y -> Prop) x y n, R x y -> Forall2 R (repeat x n) (repeat y n).
Proof. intros X Y R x y n H. induction n; cbn [repeat]; constructor; auto. Qed.

Lemma F2_pointwise : forall (X Y : Type) (R : X -> Y -> Prop) a b, length a = length b ->
  (forall i x y, nth_error a i = Some x -> nth_error b i = Some y -> R x y) -> Forall2 R a b.
Proof.
  intros X Y R. induction a as [|x a IH]; intros [|y b] Hl H; cbn [length] in Hl; try discriminate Hl; constructor.
  - exact (H 0%nat x y eq_refl eq_refl).
  - apply IH; [lia|]. intros i x0 y0 Hx Hy. exact (H (S i) x0 y0 Hx Hy).
Qed.

Lemma set_nth_same' : forall (X : Type) (l : list X) i x, nth_error l i = Some x -> set_nth l i x = l.
Proof.
  intros X. induction l as [|y l IH]; intros [|i] x H; cbn [nth_error set_nth] in *; try discriminate H.
  - inversion H. reflexivity.
  - rewrite (IH i x H). reflexivity.
Qed.

Lemma with_nth_eq : forall (X Y : Type) (k : X -> Y) (d : Y) l n,
  with_nth k d l n = match nth_error l n with Some x => k x | None => d end.
Proof.
  intros X Y k d. induction l as [|x l IH]; intros [|n]; cbn [with_nth nth_error]; try reflexivity. apply IH.
Qed.

(* ---------- readings of a cell agree *)
Lemma sim_as_str : forall v hv p, sim_val v hv -> as_str v = Ok p -> sim_ptr p (as_hstr hv).
Proof.
  intros v hv p H Hp. destruct v as [w|q|n q|o]; cbn [as_str] in Hp.
  - destruct w; try discriminate Hp. inversion Hp; subst. destruct hv; try contradiction. exact I.
  - inversion Hp; subst. destruct hv; try contradiction. exact H.
  - discriminate Hp.
  - discriminate Hp.
Qed.

Lemma sim_as_bytes : forall v hv n p, sim_val v hv -> as_bytes v = Ok (n, p) ->
  fst (as_hbytes hv) = n /\ sim_ptr p (snd (as_hbytes hv)).
Proof.
  intros v hv n p H Hp. destruct v as [w|q|k q|o]; cbn [as_bytes] in Hp.
  - destruct w; try discriminate Hp. inversion Hp; subst. destruct hv; try contradiction. split; [reflexivity | exact I].
  - discriminate Hp.
  - inversion Hp; subst. destruct hv; try contradiction. destruct H as [-> H]. split; [reflexivity | exact H].
  - discriminate Hp.
Qed.

(* ====================================================================== the plan that refuses nothing *)

Definition nr : nat -> bool := fun _ => false.

Lemma alloc_nr : forall sz s, alloc nr sz s = (Some (h_next s), mkH (S (h_next s)) (EvA (h_next s) sz :: h_trace s)).
Proof. reflexivity. Qed.

(* running a free-like command: only the state changes *)
Lemma unit_run : forall (c : A unit) s, exists s', c s = (tt, s').
Proof. intros c s. destruct (c s) as [[] s']. exists s'. reflexivity. Qed.

Lemma bnd_run : forall (X Y : Type) (c : A X) (k : X -> A Y) s x s', c s = (x, s') -> bnd c k s = k x s'.
Proof. intros X Y c k s x s' H. unfold bnd. rewrite H. reflexivity. Qed.

Lemma bnd_unit : forall (Y : Type) (c : A unit) (k : unit -> A Y) s, exists s', bnd c k s = k tt s'.
Proof. intros Y c k s. destruct (unit_run c s) as [s' H]. exists s'. apply (bnd_run _ _ _ _ _ _ _ H). Qed.

(* ====================================================================== merge_messages *)

Section MergeSim.
Variable E : env.
Hypothesis EO : env_ok E = true.
Notation shp := (shape_msg E).
Notation gd := (good_msg E).

(* what the recursive calls are expected to do on the later sub-message lm *)
Definition mrel (recv : msg -> msg -> res msg) (rech : hmsg -> hmsg -> A (bool * hmsg * hmsg)) (lm : msg) : Prop :=
  forall em hem hlm s B1 B2, shp em = true -> shp lm = true -> m_desc em = m_desc lm ->
    gd B1 em = true -> gd B2 lm = true -> sim_msg em hem -> sim_msg lm hlm ->
    exists m hem' hlm' s', recv em lm = Ok m /\ rech hem hlm s = (true, hem', hlm', s') /\ sim_msg m hlm'.

Definition mrelv recv rech (v : sval) : Prop := forall lm, v = VMsg (Some lm) -> mrel recv rech lm.

(* ---------- one cell of message type (a singular member, or the storage of a oneof) *)
Lemma hmc_msg : forall recv rech f om eq ev xv lq lv yv s B1 B2,
  f_type f = TMessage ->
  (forall em, ev = VMsg (Some em) -> shp em = true /\ m_desc em = f_sub f /\ gd B1 em = true) ->
  (forall lm, lv = VMsg (Some lm) -> shp lm = true /\ m_desc lm = f_sub f /\ gd B2 lm = true) ->
  mrelv recv rech lv -> sim_val ev xv -> sim_val lv yv ->
  match ev, lv with
  | VMsg (Some em), VMsg (Some lm) =>
      exists m hem' hlm' s', recv em lm = Ok m /\
        h_merge_cell rech f om eq xv lq yv s = (true, (eq, HMsg (Some hem')), (lq, HMsg (Some hlm')), s') /\ sim_msg m hlm'
  | VMsg (Some em), _ =>
      h_merge_cell rech f om eq xv lq yv s =
      (match f_quant f with QNone => (true, (eq, HScalar), (lq, xv)) | _ => (true, (0, HScalar), (eq, xv)) end, s)
  | _, _ => h_merge_cell rech f om eq xv lq yv s = (true, (eq, xv), (lq, yv), s)
  end.
Proof.
  intros recv rech f om eq ev xv lq lv yv s B1 B2 ET He Hl HQ Sx Sy. unfold h_merge_cell. rewrite ET.
  destruct ev as [w|p|n p|[em|]]; destruct xv as [|q|k q|[hem|]]; try contradiction; try reflexivity.
  destruct (He em eq_refl) as (Se & De & Ge).
  destruct lv as [w|p|n p|[lm|]]; destruct yv as [|q|k q|[hlm|]]; try contradiction;
    try (destruct (f_quant f); reflexivity).
  destruct (Hl lm eq_refl) as (Sl & Dl & Gl).
  destruct (HQ lm eq_refl em hem hlm s B1 B2 Se Sl ltac:(congruence) Ge Gl Sx Sy) as (m & hem' & hlm' & s' & Hm & Hh & Sm).
  exists m, hem', hlm', s'. split; [exact Hm|]. split; [|exact Sm].
  unfold bnd. rewrite Hh. reflexivity.
Qed.

(* the static default pointer occurs only where a default exists: the two "is the default" tests agree *)
Lemma is_def_agree : forall r f ia v hv p, f_type f = TString -> gcell r f ia v = true -> sim_val v hv -> as_str v = Ok p ->
  str_is_dflt f p = is_def f (as_hstr hv).
Proof.
  intros r f ia v hv p ET G S Hp. unfold gcell in G. rewrite ET in G.
  destruct v as [w|q|n q|o]; try discriminate G. cbn [as_str] in Hp. inversion Hp; subst p.
  destruct hv as [|hq|k hq|o]; try contradiction. cbn [as_hstr]. unfold sim_val, sim_val_, sim_ptr in S.
  unfold str_is_dflt, is_def, has_default.
  destruct q as [| |x]; destruct hq as [| |y]; try contradiction.
  - destruct (f_default f); reflexivity.
  - destruct (f_default f) as [[w|x|x]|]; try reflexivity; rewrite ?andb_false_r in G; discriminate G.
  - reflexivity.
Qed.

Lemma sim_nonempty : forall l hl, Forall2 sim_val l hl -> nonempty hl = (zlen l >? 0).
Proof. intros l hl H. destruct H; cbn [nonempty]; unfold zlen; cbn [length]; lia. Qed.

Lemma firstn_zlen' : forall (X : Type) (l : list X), firstn (Z.to_nat (zlen l)) l = l.
Proof. intros X l. unfold zlen. rewrite Nat2Z.id. apply firstn_all. Qed.

(* ---------- what field_ok says about quantifiers *)
Lemma fok_mid : forall nu f, field_ok nu f = true ->
  match f_label f, f_quant f with
  | LRepeated, QCount => negb (f_oneof f)
  | LRepeated, _ => false
  | LRequired, QNone => negb (f_oneof f)
  | LRequired, _ => false
  | (LOptional | LNone), QCase g => f_oneof f && Nat.ltb g nu
  | LOptional, QHas => negb (f_oneof f) && negb (ftype_eqb (f_type f) TString) && negb (ftype_eqb (f_type f) TMessage)
  | LOptional, QNone => negb (f_oneof f) && (ftype_eqb (f_type f) TString || ftype_eqb (f_type f) TMessage)
  | LNone, QNone => negb (f_oneof f)
  | _, _ => false
  end = true.
Proof. intros nu f H. unfold field_ok in H. rewrite !andb_true_iff in H. exact (proj2 (proj1 (proj1 H))). Qed.

Lemma fok_ptr_quant : forall nu f, field_ok nu f = true -> f_label f <> LRepeated -> is_case (f_quant f) = false ->
  f_type f = TString \/ f_type f = TMessage -> f_quant f = QNone.
Proof.
  intros nu f H Hl Hq Ht. apply fok_mid in H.
  destruct (f_label f); destruct (f_quant f); try discriminate H; try discriminate Hq; try reflexivity; try congruence.
  destruct Ht as [Ht|Ht]; rewrite Ht in H; cbn [ftype_eqb negb andb] in H; rewrite ?andb_false_r in H; discriminate H.
Qed.

Lemma fok_not_count : forall nu f, field_ok nu f = true -> f_label f <> LRepeated -> f_quant f <> QCount.
Proof. intros nu f H Hl Hq. apply fok_mid in H. rewrite Hq in H. destruct (f_label f); try discriminate H. congruence. Qed.

Lemma fok_rep_quant : forall nu f, field_ok nu f = true -> f_label f = LRepeated -> f_quant f = QCount.
Proof. intros nu f H Hl. apply fok_mid in H. rewrite Hl in H. destruct (f_quant f); try discriminate H. reflexivity. Qed.

(* ---------- a singular member outside any oneof: optional, with implicit presence, or a required sub-message *)
Lemma merge_sone_sim : forall recv rech nu B1 B2 f eh ev lh lv xv yv s,
  field_ok nu f = true ->
  f_label f = LOptional \/ f_label f = LNone \/ (f_label f = LRequired /\ f_type f = TMessage) ->
  slot_shape shp nu f (SOne eh ev) = true -> slot_shape shp nu f (SOne lh lv) = true ->
  gcell (gd B1) f false ev = true -> gcell (gd B2) f false lv = true ->
  mrelv recv rech lv -> sim_val ev xv -> sim_val lv yv ->
  exists sv ecv lcv s', merge_slot recv f (SOne eh ev) (SOne lh lv) = Ok sv /\
    h_merge_cell rech f false eh xv lh yv s = (true, ecv, lcv, s') /\ sim_slot sv (HOne (fst lcv) (snd lcv)).
Proof.
  intros recv rech nu B1 B2 f eh ev lh lv xv yv s Hfok Hlab He Hl Gev Glv HQ Sx Sy.
  destruct (sone_shape _ _ _ _ _ Hl) as (Hlr & Hlq & Hlo & Hlc).
  destruct (sone_shape _ _ _ _ _ He) as (_ & _ & _ & Hec).
  assert (Hnr : f_label f <> LRepeated) by (destruct Hlab as [H|[H|[H _]]]; rewrite H; discriminate).
  assert (Hgoal : exists sv ecv lcv s',
    match f_type f with
    | TMessage =>
        match ev, lv with
        | VMsg (Some em), VMsg (Some lm) => do m <- recv em lm; Ok (SOne lh (VMsg (Some m)))
        | VMsg (Some em), (VMsg None | VWord 0) => Ok (SOne lh ev)
        | (VMsg None | VWord 0), _ => Ok (SOne lh lv)
        | _, _ => Err EConfused
        end
    | TString =>
        do ep <- as_str ev; do lp <- as_str lv;
        if negb (str_is_dflt f ep) && str_is_dflt f lp then Ok (SOne lh ev) else Ok (SOne lh lv)
    | _ =>
        match f_quant f with
        | QNone =>
            do ze <- zeroish f ev; do zl <- zeroish f lv;
            if negb ze && zl then Ok (SOne lh ev) else Ok (SOne lh lv)
        | _ => if negb (eh =? 0) && (lh =? 0) then Ok (SOne eh ev) else Ok (SOne lh lv)
        end
    end = Ok sv /\
    h_merge_cell rech f false eh xv lh yv s = (true, ecv, lcv, s') /\ sim_slot sv (HOne (fst lcv) (snd lcv))).
  2:{ unfold merge_slot. destruct Hlab as [EL|[EL|[EL ET]]]; rewrite EL; [exact Hgoal | exact Hgoal |].
      rewrite ET in Hgoal |- *. exact Hgoal. }
  destruct (f_type f) eqn:ET.
  15:{ (* string *)
    assert (EQ : f_quant f = QNone) by (apply (fok_ptr_quant _ _ Hfok); [exact Hnr | exact Hlq | auto]).
    unfold cell_shape in Hec, Hlc. rewrite ET in Hec, Hlc.
    destruct ev as [|pe| |]; try discriminate Hec. destruct lv as [|pl| |]; try discriminate Hlc.
    cbn [as_str bind].
    rewrite (is_def_agree _ f false (VStr pe) xv pe ET Gev Sx eq_refl).
    rewrite (is_def_agree _ f false (VStr pl) yv pl ET Glv Sy eq_refl).
    unfold h_merge_cell. rewrite ET, EQ. cbn [orb].
    destruct (negb (is_def f (as_hstr xv)) && is_def f (as_hstr yv));
      eexists; eexists; eexists; eexists; (split; [reflexivity|]); (split; [reflexivity|]); (split; [reflexivity|]); assumption. }
  15:{ (* bytes *)
    unfold cell_shape in Hec, Hlc. rewrite ET in Hec, Hlc.
    destruct ev as [| |ne pe|]; try discriminate Hec. destruct lv as [| |nl pl|]; try discriminate Hlc.
    destruct xv as [| |ke qe|]; try contradiction. destruct yv as [| |kl ql|]; try contradiction.
    pose proof Sx as [<- _]. pose proof Sy as [<- _].
    unfold h_merge_cell. rewrite ET. unfold zeroish. rewrite ET. cbn [as_bytes bind fst as_hbytes].
    destruct (f_quant f) eqn:EQ; cbn [is_case] in Hlq; try discriminate Hlq.
    - destruct (negb (ne =? 0) && (nl =? 0));
        eexists; eexists; eexists; eexists; (split; [reflexivity|]); (split; [reflexivity|]); (split; [reflexivity|]); assumption.
    - destruct (negb (eh =? 0) && (lh =? 0));
        eexists; eexists; eexists; eexists; (split; [reflexivity|]); (split; [reflexivity|]); (split; [reflexivity|]); assumption.
    - exfalso. apply (fok_not_count _ _ Hfok); [exact Hnr | exact EQ]. }
  15:{ (* sub-message *)
    assert (EQ : f_quant f = QNone) by (apply (fok_ptr_quant _ _ Hfok); [exact Hnr | exact Hlq | auto]).
    assert (He' : forall em, ev = VMsg (Some em) -> shp em = true /\ m_desc em = f_sub f /\ gd B1 em = true).
    { intros em ->. unfold cell_shape in Hec. unfold gcell in Gev. rewrite ET in Hec, Gev.
      apply andb_true_iff in Hec, Gev. destruct Hec as [H1 H2], Gev as [H3 _]. apply Nat.eqb_eq in H2. auto. }
    assert (Hl' : forall lm, lv = VMsg (Some lm) -> shp lm = true /\ m_desc lm = f_sub f /\ gd B2 lm = true).
    { intros lm ->. unfold cell_shape in Hlc. unfold gcell in Glv. rewrite ET in Hlc, Glv.
      apply andb_true_iff in Hlc, Glv. destruct Hlc as [H1 H2], Glv as [H3 _]. apply Nat.eqb_eq in H2. auto. }
    pose proof (hmc_msg recv rech f false eh ev xv lh lv yv s B1 B2 ET He' Hl' HQ Sx Sy) as HC.
    unfold cell_shape in Hec, Hlc. rewrite ET in Hec, Hlc.
    destruct ev as [| | |[em|]]; try discriminate Hec; destruct lv as [| | |[lm|]]; try discriminate Hlc.
    - destruct HC as (m & hem' & hlm' & s' & Hm & Hh & Sm). rewrite Hm. cbn [bind].
      eexists; eexists; eexists; eexists. split; [reflexivity|]. split; [exact Hh|]. split; [reflexivity | exact Sm].
    - rewrite EQ in HC.
      eexists; eexists; eexists; eexists. split; [reflexivity|]. split; [exact HC|]. split; [reflexivity | exact Sx].
    - eexists; eexists; eexists; eexists. split; [reflexivity|]. split; [exact HC|]. split; [reflexivity | exact Sy].
    - eexists; eexists; eexists; eexists. split; [reflexivity|]. split; [exact HC|]. split; [reflexivity | exact Sy]. }
  (* scalars *)
  all: unfold cell_shape in Hec, Hlc; rewrite ET in Hec, Hlc.
  all: destruct ev as [we| | |]; try discriminate Hec; destruct lv as [wl| | |]; try discriminate Hlc.
  all: destruct xv; try contradiction; destruct yv; try contradiction.
  all: unfold h_merge_cell; rewrite ET; unfold zeroish; rewrite ET; cbn [as_word bind].
  all: destruct (f_quant f) eqn:EQ; cbn [is_case] in Hlq; try discriminate Hlq.
  all: try (exfalso; apply (fok_not_count _ _ Hfok); [exact Hnr | exact EQ]).
  all: match goal with |- context [if ?c then Ok _ else Ok _] => destruct c end.
  all: eexists; eexists; eexists; eexists; (split; [reflexivity|]); (split; [reflexivity|]); split; [reflexivity | exact I].
Qed.

(* ---------- one slot that is not the storage of a oneof: the unions are not touched *)
Lemma merge_slot_sim : forall recv rech md hlu0 nu B1 B2 f es ls hes hls heu hlu s,
  field_ok nu f = true ->
  slot_shape shp nu f es = true -> slot_shape shp nu f ls = true ->
  gslot B1 (gd B1) f es = true -> gslot B2 (gd B2) f ls = true ->
  slot_all (mrelv recv rech) ls -> sim_slot es hes -> sim_slot ls hls ->
  (forall g, ls <> SUnion g) ->
  exists sv hes' hls' s', merge_slot recv f es ls = Ok sv /\
    h_merge_slot nr rech md hlu0 f hes hls heu hlu s = (true, hes', hls', heu, hlu, s') /\ sim_slot sv hls'.
Proof.
  intros recv rech md hlu0 nu B1 B2 f es ls hes hls heu hlu s Hfok He Hl Ge Gl HQ Se Sl Hnu.
  destruct ls as [lh lv|nl cl al|gl]; [| |exfalso; exact (Hnu gl eq_refl)].
  - (* singular member *)
    destruct hls as [lh' yv|?|?]; try contradiction. destruct Sl as [<- Sy].
    destruct (sone_shape _ _ _ _ _ Hl) as (Hlr & Hlq & Hlo & Hlc).
    destruct es as [eh ev|ne ce ae|ge].
    2:{ apply srep_shape in He. rewrite He in Hlr. discriminate Hlr. }
    2:{ destruct (sunion_shape _ _ _ _ He) as (Hq & _). rewrite Hq in Hlq. discriminate Hlq. }
    destruct hes as [eh' xv|?|?]; try contradiction. destruct Se as [<- Sx].
    cbn [gslot] in Ge, Gl. apply andb_true_iff in Ge, Gl. destruct Ge as [Gev _], Gl as [Glv _].
    cbn [slot_all] in HQ.
    assert (Hopt : f_label f = LOptional \/ f_label f = LNone \/ (f_label f = LRequired /\ f_type f = TMessage) ->
      exists sv hes' hls' s', merge_slot recv f (SOne eh ev) (SOne lh lv) = Ok sv /\
        (doA r <- h_merge_cell rech f false eh xv lh yv;
         let '(ok, (eh', ev'), (lh', lv')) := r in
         ret (ok, HOne eh' ev', HOne lh' lv', heu, hlu)) s = (true, hes', hls', heu, hlu, s') /\ sim_slot sv hls').
    { intros Hlab.
      destruct (merge_sone_sim recv rech nu B1 B2 f eh ev lh lv xv yv s Hfok Hlab He Hl Gev Glv HQ Sx Sy)
        as (sv & [ec' ev'] & [lc' lv'] & s' & Hm & Hh & Ss).
      exists sv, (HOne ec' ev'), (HOne lc' lv'), s'. split; [exact Hm|]. split; [|exact Ss].
      unfold bnd. rewrite Hh. reflexivity. }
    unfold h_merge_slot. destruct (f_label f) eqn:EL; try discriminate Hlr.
    + (* required: a sub-message is merged, anything else is left alone *)
      destruct (f_type f) eqn:ET;
        try (exists (SOne lh lv), (HOne eh xv), (HOne lh yv), s; unfold merge_slot; rewrite EL, ET;
             split; [reflexivity|]; split; [reflexivity|]; split; [reflexivity | exact Sy]).
      cbn [label_eqb ftype_eqb orb andb]. apply Hopt. right. right. split; reflexivity.
    + apply Hopt. left. reflexivity.
    + apply Hopt. right. left. reflexivity.
  - (* repeated member *)
    pose proof (srep_shape _ _ _ _ _ _ Hl) as Hlr.
    assert (EL : f_label f = LRepeated) by (destruct (f_label f); try discriminate Hlr; reflexivity).
    destruct es as [eh ev|ne ce ae|ge].
    1:{ destruct (sone_shape _ _ _ _ _ He) as (H & _). rewrite H in Hlr. discriminate Hlr. }
    2:{ unfold slot_shape in He. rewrite EL in He. discriminate He. }
    unfold merge_slot. rewrite EL.
    assert (exists harr_l, hls = HRep harr_l) as [harr_l ->].
    { destruct al; destruct hls as [?|a|?]; try contradiction; eauto. }
    unfold h_merge_slot.
    destruct ae as [le|]; destruct hes as [?|[[ea ee]|]|?]; try contradiction.
    2:{ unfold sim_slot, sim_slot_ in Se. subst ne. cbn [Z.gtb Z.compare].
        exists (SRep nl cl al), (HRep None), (HRep harr_l), s. split; [reflexivity|]. split; [reflexivity | exact Sl]. }
    apply sim_slot_rep in Se. destruct Se as [Hne Fe].
    rewrite (sim_nonempty le ee Fe), <- Hne.
    destruct (ne >? 0) eqn:Ene.
    2:{ exists (SRep nl cl al), (HRep (Some (ea, ee))), (HRep harr_l), s. split; [reflexivity|]. split; [reflexivity | exact Sl]. }
    destruct al as [ll|]; destruct harr_l as [[la hl]|]; try contradiction.
    2:{ unfold sim_slot, sim_slot_ in Sl. subst nl. cbn [Z.gtb Z.compare].
        exists (SRep ne ne (Some le)), (HRep None), (HRep (Some (ea, ee))), s. split; [reflexivity|]. split; [reflexivity|].
        apply sim_slot_rep. split; assumption. }
    apply sim_slot_rep in Sl. destruct Sl as [Hnl Fl].
    rewrite (sim_nonempty ll hl Fl), <- Hnl.
    destruct (nl >? 0) eqn:Enl.
    2:{ exists (SRep ne ne (Some le)), (HRep None), (HRep (Some (ea, ee))), s. split; [reflexivity|]. split; [reflexivity|].
        apply sim_slot_rep. split; assumption. }
    rewrite !Z.leb_refl. cbn [andb].
    eexists; eexists; eexists; eexists. split; [reflexivity|]. split; [reflexivity|].
    apply sim_slot_rep. subst ne nl. rewrite !firstn_zlen'. split.
    + unfold zlen. rewrite app_length. lia.
    + apply Forall2_app; assumption.
Qed.

(* ---------- the storage of the oneofs.  The value level merges them group by group; the heap level (as the C code)
   meets a group once per member field, in the loop over the fields, and only one of these visits can change it. *)
Section USim.
Variable md : mdesc.
Hypothesis D : desc_ok (length E) md = true.
Notation fs := (md_fields md).

Variable recv : msg -> msg -> res msg.
Variable rech : hmsg -> hmsg -> A (bool * hmsg * hmsg).
Variables B1 B2 : Z.

Lemma find_by_id_group : forall g fl, In fl fs -> f_quant fl = QCase g ->
  find_by_id (filter (fun f => in_group f g) fs) (f_id fl) = Some fl.
Proof.
  intros g fl Hin Hq. unfold find_by_id.
  assert (Hfl : In fl (filter (fun f => in_group f g) fs)).
  { apply filter_In. split; [exact Hin|]. unfold in_group. rewrite Hq. apply Nat.eqb_refl. }
  destruct (find (fun f => f_id f =? f_id fl) (filter (fun f => in_group f g) fs)) as [f1|] eqn:Ef.
  - apply find_some in Ef. destruct Ef as [H1 H2]. apply filter_In in H1. destruct H1 as [H1 _]. apply Z.eqb_eq in H2.
    f_equal. exact (field_unique E md D f1 fl H1 Hin H2).
  - pose proof (find_none _ _ Ef fl Hfl) as H. cbv beta in H. rewrite Z.eqb_refl in H. discriminate H.
Qed.

Lemma unset_cell : forall g lv, union_shape shp fs g (0, lv) = true -> lv = VWord 0.
Proof.
  intros g lv H. destruct (union_shape_inv E _ _ _ _ H) as [[_ H0]|(f & Hin & Hid & _)]; [exact H0|].
  destruct (desc_ok_fields _ md D f Hin) as (_ & Hr & _). lia.
Qed.

Lemma hmc_move : forall f g eq xv yv s, f_type f <> TMessage -> f_quant f = QCase g -> eq <> 0 ->
  h_merge_cell rech f true eq xv 0 yv s = (true, (0, HScalar), (eq, xv), s).
Proof.
  intros f g eq xv yv s Ht Hq Hne. unfold h_merge_cell. rewrite Hq.
  assert (Hb : negb (eq =? 0) && (0 =? 0) = true) by lia.
  destruct (f_type f); try congruence; cbn [orb]; rewrite ?Hb; reflexivity.
Qed.

(* state of group g in the loop over the fields: eg / lg its storage in the two value messages, ug the merged storage;
   x / y the current storage in the two heap messages; rest the fields still to be visited *)
Definition ust (eg lg ug : Z * sval) (g : nat) (rest : list field) (x y : Z * hval) : Prop :=
  (sim_union eg x /\ sim_union lg y /\
   (ug = lg \/ exists fw, In fw rest /\ f_quant fw = QCase g /\ (fst lg = 0 \/ f_id fw = fst lg)))
  \/ (sim_union ug y /\ fst y <> 0 /\ (fst x = fst y -> forall f', In f' rest -> f_id f' <> fst y)).

Lemma ust_weaken : forall eg lg ug g f rest x y, f_quant f <> QCase g ->
  ust eg lg ug g (f :: rest) x y -> ust eg lg ug g rest x y.
Proof.
  intros eg lg ug g f rest x y Hq [(H1 & H2 & H3)|(H1 & H2 & H3)].
  - left. split; [exact H1|]. split; [exact H2|]. destruct H3 as [H3|(fw & [<-|Hin] & Hfq & Hw)]; [left; exact H3 | contradiction |].
    right. exists fw. auto.
  - right. split; [exact H1|]. split; [exact H2|]. intros He f' Hin. apply (H3 He). right. exact Hin.
Qed.

Lemma union_step : forall g eg lg ug f rest hlu0 heu hlu x y y0 s,
  In f fs -> f_quant f = QCase g ->
  union_shape shp fs g eg = true -> union_shape shp fs g lg = true ->
  gunion (gd B1) fs g eg = true -> gunion (gd B2) fs g lg = true ->
  merge_union recv md g eg lg = Ok ug -> mrelv recv rech (snd lg) ->
  NoDup (map f_id (f :: rest)) ->
  nth_error hlu0 g = Some y0 -> sim_union lg y0 ->
  nth_error heu g = Some x -> nth_error hlu g = Some y ->
  ust eg lg ug g (f :: rest) x y ->
  exists x' y' s',
    h_merge_slot nr rech md hlu0 f (HUnion g) (HUnion g) heu hlu s =
      (true, HUnion g, HUnion g, set_nth heu g x', set_nth hlu g y', s') /\
    ust eg lg ug g rest x' y'.
Proof.
  intros g [ec ev] [lc lv] ug f rest hlu0 heu hlu [xc xv] [yc yv] [y0c y0v] s
    Hinf Hfq He Hl Ge Gl Hm HQ ND Hy0 Sy0 Hx Hy Hust.
  cbn [snd] in HQ. destruct Sy0 as [Hy0c Sy0]. cbn [fst snd] in Hy0c, Sy0. subst y0c.
  unfold h_merge_slot. rewrite with_nth_eq, Hy0, Hx, Hy. cbn [snd].
  (* a visit that changes nothing *)
  assert (Noop : forall x1 y1, x1 = (xc, xv) -> y1 = (yc, yv) -> ust (ec, ev) (lc, lv) ug g rest x1 y1 ->
            exists x' y' s', (@ret (bool * hslot * hslot * list (Z * hval) * list (Z * hval))
                                (true, HUnion g, HUnion g, heu, hlu)) s =
                             (true, HUnion g, HUnion g, set_nth heu g x', set_nth hlu g y', s') /\
                             ust (ec, ev) (lc, lv) ug g rest x' y').
  { intros x1 y1 -> -> HU. exists (xc, xv), (yc, yv), s. split; [|exact HU].
    rewrite (set_nth_same' _ heu g _ Hx), (set_nth_same' _ hlu g _ Hy). reflexivity. }
  destruct Hust as [(Sx & Sy & H3)|(Sy & Hyc & Hrest)].
  2:{ (* the group is settled *)
      cbn [fst] in Hyc, Hrest.
      destruct (Z.eqb_spec yc 0) as [Hz|_]; [contradiction|].
      assert (Hc : (yc =? xc) && (yc =? f_id f) && ftype_eqb (f_type f) TMessage = false).
      { destruct (Z.eqb_spec yc xc) as [Hxy|_]; [|reflexivity].
        destruct (Z.eqb_spec yc (f_id f)) as [Hyf|_]; [|reflexivity].
        exfalso. apply (Hrest (eq_sym Hxy) f (or_introl eq_refl)). congruence. }
      rewrite Hc. apply (Noop _ _ eq_refl eq_refl). right. split; [exact Sy|]. split; [exact Hyc|].
      intros Hxy f' Hin'. apply (Hrest Hxy). right. exact Hin'. }
  destruct Sx as [Hxc Sx], Sy as [Hyc Sy]. cbn [fst snd] in Hxc, Hyc, Sx, Sy, H3. subst xc yc.
  unfold merge_union in Hm.
  destruct (Z.eqb_spec lc 0) as [Hlc|Hlc].
  - (* the latter message has the group unset *)
    subst lc. pose proof (unset_cell g lv Hl) as ->.
    destruct y0v; try contradiction. destruct yv; try contradiction.
    destruct (Z.eqb_spec ec 0) as [Hec|Hec].
    + inversion Hm; subst ug. apply (Noop _ _ eq_refl eq_refl). left. split; [split; [reflexivity | exact Sx]|].
      split; [split; [reflexivity | exact I]|]. left. reflexivity.
    + destruct (union_shape_inv E _ _ _ _ He) as [[H _]|(fe & Hine & Hide & Hqe & Hoe & Hce)]; [contradiction|].
      destruct (gunion_inv _ _ _ _ _ Ge) as [[H _]|(fe' & Hine' & Hide' & _ & _ & Gce)]; [contradiction|].
      assert (fe' = fe) by (apply (field_unique E md D); [assumption | assumption | congruence]). subst fe'.
      destruct (In_nth_error _ _ Hine) as [i Hi].
      rewrite <- Hide in Hm |- *. rewrite (find_field_known (length E) md D i fe Hi) in Hm |- *. rewrite Hi in Hm |- *.
      assert (Hig : in_group fe g = true) by (unfold in_group; rewrite Hqe; apply Nat.eqb_refl).
      rewrite Hig in Hm |- *. cbn [negb] in Hm.
      destruct (ftype_eqb (f_type fe) TMessage) eqn:EM.
      * assert (ET : f_type fe = TMessage) by (destruct (f_type fe); try discriminate EM; reflexivity).
        rewrite ET in Hm.
        assert (He' : forall em, ev = VMsg (Some em) -> shp em = true /\ m_desc em = f_sub fe /\ gd B1 em = true).
        { intros em ->. unfold cell_shape in Hce. unfold gcell in Gce. rewrite ET in Hce, Gce.
          apply andb_true_iff in Hce, Gce. destruct Hce as [H1 H2], Gce as [H3' _]. apply Nat.eqb_eq in H2. auto. }
        pose proof (hmc_msg recv rech fe true (f_id fe) ev xv 0 (VWord 0) HScalar s B1 B2 ET He'
                      ltac:(intros lm H; discriminate H) ltac:(intros lm H; discriminate H) Sx I) as HC.
        unfold cell_shape in Hce. rewrite ET in Hce.
        destruct ev as [| | |[em|]]; try discriminate Hce.
        -- rewrite Hqe in HC. inversion Hm; subst ug.
           exists (0, HScalar), (f_id fe, xv), s. split; [unfold bnd; rewrite HC; reflexivity|].
           right. split; [split; [reflexivity | exact Sx]|]. split; [cbn [fst]; congruence|]. cbn [fst]. intros H0. exfalso. congruence.
        -- inversion Hm; subst ug.
           exists (f_id fe, xv), (0, HScalar), s. split; [unfold bnd; rewrite HC; reflexivity|].
           left. split; [split; [reflexivity | exact Sx]|]. split; [split; [reflexivity | exact I]|]. left. reflexivity.
      * assert (ET : f_type fe <> TMessage) by (intros H; rewrite H in EM; discriminate EM).
        assert (Hug : ug = (f_id fe, ev)) by (destruct (f_type fe); try congruence; inversion Hm; reflexivity).
        subst ug.
        exists (0, HScalar), (f_id fe, xv), s.
        split; [unfold bnd; rewrite (hmc_move fe g (f_id fe) xv HScalar s ET Hqe ltac:(congruence)); reflexivity|].
        right. split; [split; [reflexivity | exact Sx]|]. split; [cbn [fst]; congruence|]. cbn [fst]. intros H0. exfalso. congruence.
  - (* the latter message has a member of the group set *)
    destruct (Z.eqb_spec lc ec) as [Hle|Hle].
    2:{ inversion Hm; subst ug. cbn [andb]. apply (Noop _ _ eq_refl eq_refl). left.
        split; [split; [reflexivity | exact Sx]|]. split; [split; [reflexivity | exact Sy]|]. left. reflexivity. }
    subst ec.
    destruct (union_shape_inv E _ _ _ _ Hl) as [[H _]|(fl & Hinl & Hidl & Hql & Hol & Hcl)]; [contradiction|].
    rewrite <- Hidl in Hm. rewrite (find_by_id_group g fl Hinl Hql) in Hm. rewrite Hidl in Hm.
    destruct (Z.eqb_spec lc (f_id f)) as [Hlf|Hlf].
    2:{ cbn [andb]. apply (Noop _ _ eq_refl eq_refl). left.
        split; [split; [reflexivity | exact Sx]|]. split; [split; [reflexivity | exact Sy]|].
        destruct H3 as [H3|(fw & [<-|Hinw] & Hfw & [H0|Hw])]; [left; exact H3 | | | |]; cbn [fst] in *; try lia; try congruence.
        right. exists fw. split; [exact Hinw|]. split; [exact Hfw|]. right. exact Hw. }
    assert (fl = f) by (apply (field_unique E md D); [assumption | assumption | congruence]). subst fl.
    cbn [andb].
    destruct (ftype_eqb (f_type f) TMessage) eqn:EM.
    2:{ assert (Hug : ug = (lc, lv)) by (destruct (f_type f); try discriminate EM; inversion Hm; reflexivity). subst ug.
        apply (Noop _ _ eq_refl eq_refl). left.
        split; [split; [reflexivity | exact Sx]|]. split; [split; [reflexivity | exact Sy]|]. left. reflexivity. }
    assert (ET : f_type f = TMessage) by (destruct (f_type f); try discriminate EM; reflexivity).
    rewrite ET in Hm.
    destruct (union_shape_inv E _ _ _ _ He) as [[H _]|(fe & Hine & Hide & Hqe & Hoe & Hce)]; [contradiction|].
    assert (fe = f) by (apply (field_unique E md D); [assumption | assumption | congruence]). subst fe.
    destruct (gunion_inv _ _ _ _ _ Ge) as [[H _]|(fe' & Hine' & Hide' & _ & _ & Gce)]; [contradiction|].
    assert (fe' = f) by (apply (field_unique E md D); [assumption | assumption | congruence]). subst fe'.
    destruct (gunion_inv _ _ _ _ _ Gl) as [[H _]|(fl' & Hinl' & Hidl' & _ & _ & Gcl)]; [contradiction|].
    assert (fl' = f) by (apply (field_unique E md D); [assumption | assumption | congruence]). subst fl'.
    assert (He' : forall em, ev = VMsg (Some em) -> shp em = true /\ m_desc em = f_sub f /\ gd B1 em = true).
    { intros em ->. unfold cell_shape in Hce. unfold gcell in Gce. rewrite ET in Hce, Gce.
      apply andb_true_iff in Hce, Gce. destruct Hce as [H1 H2], Gce as [H3' _]. apply Nat.eqb_eq in H2. auto. }
    assert (Hl' : forall lm, lv = VMsg (Some lm) -> shp lm = true /\ m_desc lm = f_sub f /\ gd B2 lm = true).
    { intros lm ->. unfold cell_shape in Hcl. unfold gcell in Gcl. rewrite ET in Hcl, Gcl.
      apply andb_true_iff in Hcl, Gcl. destruct Hcl as [H1 H2], Gcl as [H3' _]. apply Nat.eqb_eq in H2. auto. }
    pose proof (hmc_msg recv rech f false lc ev xv lc lv y0v s B1 B2 ET He' Hl' HQ Sx Sy0) as HC.
    unfold cell_shape in Hce, Hcl. rewrite ET in Hce, Hcl.
    destruct ev as [| | |[em|]]; try discriminate Hce; destruct lv as [| | |[lm|]]; try discriminate Hcl.
    + destruct HC as (m & hem' & hlm' & s' & Hrm & Hh & Sm). rewrite Hrm in Hm. cbn [bind] in Hm. inversion Hm; subst ug.
      exists (lc, HMsg (Some hem')), (lc, HMsg (Some hlm')), s'. split; [unfold bnd; rewrite Hh; reflexivity|].
      right. split; [split; [reflexivity | exact Sm]|]. split; [exact Hlc|]. cbn [fst]. intros _ f' Hin' Hid'.
      cbn [map] in ND. inversion ND as [|? ? Hnin _]; subst. apply Hnin. rewrite <- Hid'. apply in_map. exact Hin'.
    + rewrite Hfq in HC. inversion Hm; subst ug.
      exists (0, HScalar), (lc, xv), s. split; [unfold bnd; rewrite HC; reflexivity|].
      right. split; [split; [reflexivity | exact Sx]|]. split; [exact Hlc|]. cbn [fst]. intros H0. exfalso. congruence.
    + inversion Hm; subst ug.
      exists (lc, xv), (lc, y0v), s. split; [unfold bnd; rewrite HC; reflexivity|].
      left. split; [split; [reflexivity | exact Sx]|]. split; [split; [reflexivity | exact Sy0]|]. left. reflexivity.
    + inversion Hm; subst ug.
      exists (lc, xv), (lc, y0v), s. split; [unfold bnd; rewrite HC; reflexivity|].
      left. split; [split; [reflexivity | exact Sx]|]. split; [split; [reflexivity | exact Sy0]|]. left. reflexivity.
Qed.

(* ---------- the loop over the fields *)
Lemma merge_unions_nth : forall lu g0 eu us, merge_unions recv md g0 eu lu = Ok us -> length eu = length lu ->
  length us = length lu /\
  forall g eg lg, nth_error eu g = Some eg -> nth_error lu g = Some lg ->
    exists ug, nth_error us g = Some ug /\ merge_union recv md (g0 + g) eg lg = Ok ug.
Proof.
  induction lu as [|l lu IH]; intros g0 eu us H Hlen.
  - destruct eu; [|discriminate Hlen]. inversion H; subst us. split; [reflexivity|]. intros g eg lg Hg. destruct g; discriminate Hg.
  - destruct eu as [|e eu]; [discriminate Hlen|]. cbn [merge_unions] in H. fold (merge_unions recv md) in H.
    destruct (merge_union recv md g0 e l) as [u|e1] eqn:Eu; cbn [bind] in H; [|discriminate H].
    destruct (merge_unions recv md (S g0) eu lu) as [r|e1] eqn:Er; cbn [bind] in H; [|discriminate H].
    inversion H; subst us. destruct (IH (S g0) eu r Er ltac:(cbn [length] in Hlen; lia)) as [IH1 IH2].
    split; [cbn [length]; lia|]. intros g eg lg He Hl. destruct g as [|g]; cbn [nth_error] in *.
    + inversion He; inversion Hl; subst. exists u. rewrite Nat.add_0_r. auto.
    + destruct (IH2 g eg lg He Hl) as (ug & H1 & H2). exists ug. split; [exact H1|]. rewrite <- plus_n_Sm. exact H2.
Qed.

Lemma merge_slots_cons : forall f fs' e es' l ls',
  merge_slots recv (f :: fs') (e :: es') (l :: ls') =
  (do s <- merge_slot recv f e l; do r <- merge_slots recv fs' es' ls'; Ok (s :: r)).
Proof. reflexivity. Qed.

Lemma h_merge_slots_cons : forall hlu0 f fs' (e : hslot) es' (l : hslot) ls' eu lu,
  h_merge_slots nr rech md hlu0 (f :: fs') (e :: es') (l :: ls') eu lu =
  (doA r <- h_merge_slot nr rech md hlu0 f e l eu lu;
   let '(ok, e', l', eu', lu') := r in
   if ok then
     doA r2 <- h_merge_slots nr rech md hlu0 fs' es' ls' eu' lu';
     let '(ok2, es'', ls'', eu'', lu'') := r2 in
     ret (ok2, e' :: es'', l' :: ls'', eu'', lu'')
   else ret (false, e' :: es', l' :: ls', eu', lu')).
Proof. reflexivity. Qed.

Variables eu0 lu0 us : list (Z * sval).
Variable hlu0 : list (Z * hval).

Definition UInv (rest : list field) (heu hlu : list (Z * hval)) : Prop :=
  length heu = length eu0 /\ length hlu = length eu0 /\
  forall g eg lg ug, nth_error eu0 g = Some eg -> nth_error lu0 g = Some lg -> nth_error us g = Some ug ->
    exists x y, nth_error heu g = Some x /\ nth_error hlu g = Some y /\ ust eg lg ug g rest x y.

Hypothesis Hlen_l : length lu0 = length eu0.
Hypothesis Hnun : length eu0 = md_n_oneofs md.
Hypothesis SHe : unions_shape shp fs 0 eu0 = true.
Hypothesis SHl : unions_shape shp fs 0 lu0 = true.
Hypothesis GUe : gunions (gd B1) fs 0 eu0 = true.
Hypothesis GUl : gunions (gd B2) fs 0 lu0 = true.
Hypothesis Hus : merge_unions recv md 0 eu0 lu0 = Ok us.
Hypothesis HQu : Forall (fun cv : Z * sval => mrelv recv rech (snd cv)) lu0.
Hypothesis F0 : Forall2 sim_union lu0 hlu0.

Lemma UInv_weaken : forall f rest heu hlu, (forall g, f_quant f <> QCase g) -> UInv (f :: rest) heu hlu -> UInv rest heu hlu.
Proof.
  intros f rest heu hlu Hq (H1 & H2 & H3). split; [exact H1|]. split; [exact H2|].
  intros g eg lg ug He Hl Hu. destruct (H3 g eg lg ug He Hl Hu) as (x & y & Hx & Hy & HU).
  exists x, y. split; [exact Hx|]. split; [exact Hy|]. exact (ust_weaken _ _ _ _ f rest x y (Hq g) HU).
Qed.

Lemma merge_slots_sim : forall rest es ls hes hls heu hlu s,
  (forall f, In f rest -> In f fs) -> NoDup (map f_id rest) ->
  slots_shape shp (length eu0) rest es = true -> slots_shape shp (length eu0) rest ls = true ->
  all2 (gslot B1 (gd B1)) rest es = true -> all2 (gslot B2 (gd B2)) rest ls = true ->
  Forall (slot_all (mrelv recv rech)) ls ->
  Forall2 sim_slot es hes -> Forall2 sim_slot ls hls ->
  UInv rest heu hlu ->
  exists ss hes' hls' heu' hlu' s',
    merge_slots recv rest es ls = Ok ss /\
    h_merge_slots nr rech md hlu0 rest hes hls heu hlu s = (true, hes', hls', heu', hlu', s') /\
    Forall2 sim_slot ss hls' /\ UInv [] heu' hlu'.
Proof.
  induction rest as [|f rest IH]; intros es ls hes hls heu hlu s Hsub ND SSe SSl GSe GSl HQ Fe Fl HU.
  - destruct ls as [|l ls]; [|destruct es; discriminate SSl]. inversion Fl; subst.
    exists [], hes, [], heu, hlu, s. split; [reflexivity|]. split; [destruct hes; reflexivity|]. split; [constructor | exact HU].
  - destruct es as [|e es]; [discriminate SSe|]. destruct ls as [|l ls]; [discriminate SSl|].
    cbn [slots_shape] in SSe, SSl. apply andb_true_iff in SSe, SSl. destruct SSe as [Se1 Se2], SSl as [Sl1 Sl2].
    cbn [all2] in GSe, GSl. apply andb_true_iff in GSe, GSl. destruct GSe as [Ge1 Ge2], GSl as [Gl1 Gl2].
    inversion HQ as [|? ? HQ1 HQ2]; subst.
    inversion Fe as [|? he ? hes' Fe1 Fe2]; subst. inversion Fl as [|? hl ? hls' Fl1 Fl2]; subst.
    assert (Hinf : In f fs) by (apply Hsub; left; reflexivity).
    destruct (desc_ok_fields _ md D f Hinf) as (Hfok & _ & _). rewrite <- Hnun in Hfok.
    assert (ND' : NoDup (map f_id rest)) by (cbn [map] in ND; inversion ND; assumption).
    (* this field *)
    assert (Hstep : exists sv he' hl' heu1 hlu1 s1,
              merge_slot recv f e l = Ok sv /\
              h_merge_slot nr rech md hlu0 f he hl heu hlu s = (true, he', hl', heu1, hlu1, s1) /\
              sim_slot sv hl' /\ UInv rest heu1 hlu1).
    { destruct l as [lh lv|nl cl al|gl].
      3:{ (* member of a oneof *)
          destruct (sunion_shape _ _ _ _ Sl1) as (Hq & Ho & Hg).
          assert (e = SUnion gl) as ->.
          { destruct e as [eh ev|ne ce ae|ge].
            - destruct (sone_shape _ _ _ _ _ Se1) as (_ & Hc & _). rewrite Hq in Hc. discriminate Hc.
            - apply srep_shape in Se1. unfold slot_shape in Sl1. destruct (f_label f); discriminate.
            - destruct (sunion_shape _ _ _ _ Se1) as (Hq' & _). congruence. }
          destruct he as [?|?|ge']; try contradiction. destruct hl as [?|?|gl']; try contradiction.
          unfold sim_slot, sim_slot_ in Fe1, Fl1. subst ge' gl'.
          destruct HU as (HL1 & HL2 & HU).
          destruct (nth_error eu0 gl) as [eg|] eqn:Eeg; [|apply nth_error_None in Eeg; lia].
          destruct (nth_error lu0 gl) as [lg|] eqn:Elg; [|apply nth_error_None in Elg; lia].
          destruct (merge_unions_nth lu0 0%nat eu0 us Hus ltac:(lia)) as [Lus Hun].
          destruct (Hun gl eg lg Eeg Elg) as (ug & Eug & Hmu). cbn [plus] in Hmu.
          destruct (HU gl eg lg ug Eeg Elg Eug) as (x & y & Hx & Hy & Hst).
          destruct (F2_nth_l _ _ _ _ _ F0 gl lg Elg) as (y0 & Hy0 & Sy0).
          pose proof (unions_shape_nth' E fs eu0 0 gl eg SHe Eeg) as She. cbn [plus] in She.
          pose proof (unions_shape_nth' E fs lu0 0 gl lg SHl Elg) as Shl. cbn [plus] in Shl.
          pose proof (gunions_nth _ fs eu0 0 gl eg GUe Eeg) as Gge. cbn [plus] in Gge.
          pose proof (gunions_nth _ fs lu0 0 gl lg GUl Elg) as Ggl. cbn [plus] in Ggl.
          assert (HQg : mrelv recv rech (snd lg)).
          { rewrite Forall_forall in HQu. apply HQu. eapply nth_error_In; exact Elg. }
          destruct (union_step gl eg lg ug f rest hlu0 heu hlu x y y0 s Hinf Hq She Shl Gge Ggl Hmu HQg ND Hy0 Sy0 Hx Hy Hst)
            as (x' & y' & s1 & Hrun & Hst').
          exists (SUnion gl), (HUnion gl), (HUnion gl), (set_nth heu gl x'), (set_nth hlu gl y'), s1.
          split.
          { unfold merge_slot. unfold slot_shape in Sl1. destruct (f_label f); try reflexivity; discriminate Sl1. }
          split; [exact Hrun|]. split; [reflexivity|].
          split; [rewrite set_nth_len; exact HL1|]. split; [rewrite set_nth_len; exact HL2|].
          intros g' eg' lg' ug' He' Hl' Hu'. destruct (Nat.eq_dec gl g') as [<-|Hne].
          - rewrite Eeg in He'. rewrite Elg in Hl'. rewrite Eug in Hu'. inversion He'; inversion Hl'; inversion Hu'; subst.
            exists x', y'. split; [apply set_nth_at; rewrite HL1; lia|]. split; [apply set_nth_at; rewrite HL2; lia | exact Hst'].
          - destruct (HU g' eg' lg' ug' He' Hl' Hu') as (x1 & y1 & Hx1 & Hy1 & Hst1).
            exists x1, y1. rewrite !set_nth_other by exact Hne. split; [exact Hx1|]. split; [exact Hy1|].
            apply (ust_weaken _ _ _ _ f rest x1 y1); [rewrite Hq; congruence | exact Hst1]. }
      - destruct (merge_slot_sim recv rech md hlu0 _ B1 B2 f e _ he hl heu hlu s Hfok Se1 Sl1 Ge1 Gl1 HQ1 Fe1 Fl1 ltac:(intros g H; discriminate H))
          as (sv & he' & hl' & s1 & Hm & Hh & Ss).
        exists sv, he', hl', heu, hlu, s1. split; [exact Hm|]. split; [exact Hh|]. split; [exact Ss|].
        apply (UInv_weaken f); [|exact HU]. intros g Hq.
        destruct (sone_shape _ _ _ _ _ Sl1) as (_ & Hc & _). rewrite Hq in Hc. discriminate Hc.
      - destruct (merge_slot_sim recv rech md hlu0 _ B1 B2 f e _ he hl heu hlu s Hfok Se1 Sl1 Ge1 Gl1 HQ1 Fe1 Fl1 ltac:(intros g H; discriminate H))
          as (sv & he' & hl' & s1 & Hm & Hh & Ss).
        exists sv, he', hl', heu, hlu, s1. split; [exact Hm|]. split; [exact Hh|]. split; [exact Ss|].
        apply (UInv_weaken f); [|exact HU]. intros g Hq.
        apply srep_shape in Sl1. assert (EL : f_label f = LRepeated) by (destruct (f_label f); try discriminate Sl1; reflexivity).
        rewrite (fok_rep_quant _ _ Hfok EL) in Hq. discriminate Hq. }
    destruct Hstep as (sv & he' & hl' & heu1 & hlu1 & s1 & Hm & Hh & Ss & HU1).
    destruct (IH es ls hes' hls' heu1 hlu1 s1 (fun f' H => Hsub f' (or_intror H)) ND' Se2 Sl2 Ge2 Gl2 HQ2 Fe2 Fl2 HU1)
      as (ss & hes2 & hls2 & heu2 & hlu2 & s2 & Hms & Hhs & Sss & HU2).
    exists (sv :: ss), (he' :: hes2), (hl' :: hls2), heu2, hlu2, s2.
    split; [rewrite merge_slots_cons, Hm; cbn [bind]; rewrite Hms; reflexivity|].
    split; [rewrite h_merge_slots_cons; unfold bnd; rewrite Hh, Hhs; reflexivity|].
    split; [constructor; assumption | exact HU2].
Qed.

End USim.

(* ---------- the whole message *)
Lemma merge_messages_eq : forall e d ls lu lk,
  merge_messages E e (Msg d ls lu lk) =
  match nth_error E d with
  | None => Err EDesc
  | Some md =>
      do ss <- merge_slots (merge_messages E) (md_fields md) (m_slots e) ls;
      do us <- merge_unions (merge_messages E) md 0%nat (m_unions e) lu;
      Ok (Msg d ss us (m_unk e ++ lk))
  end.
Proof. reflexivity. Qed.

Lemma h_merge_eq : forall eid ed es eu et ek lid ld ls lu lt lk,
  h_merge E nr (HM eid ed es eu et ek) (HM lid ld ls lu lt lk) =
  match nth_error E ld with
  | None => ret (false, HM eid ed es eu et ek, HM lid ld ls lu lt lk)
  | Some md =>
      doA r <- h_merge_slots nr (h_merge E nr) md lu (md_fields md) es ls eu lu;
      let '(ok, es', ls', eu', lu') := r in
      if negb ok then ret (false, HM eid ed es' eu' et ek, HM lid ld ls' lu' lt lk) else
      if nonempty ek then
        if nonempty lk then
          doA o <- alloc nr ((zlen ek + zlen lk) * 24);
          match o with
          | None => ret (false, HM eid ed es' eu' et ek, HM lid ld ls' lu' lt lk)
          | Some id => doA _ <- free_opt lt; doA _ <- free_opt et;
                       ret (true, HM eid ed es' eu' None [], HM lid ld ls' lu' (Some id) (ek ++ lk))
          end
        else ret (true, HM eid ed es' eu' None [], HM lid ld ls' lu' et ek)
      else ret (true, HM eid ed es' eu' et ek, HM lid ld ls' lu' lt lk)
  end.
Proof. reflexivity. Qed.

Lemma fields_nodup : forall md, desc_ok (length E) md = true -> NoDup (map f_id (md_fields md)).
Proof.
  intros md D. apply NoDup_nth_error. intros i j Hi Hij. rewrite map_length in Hi.
  rewrite !nth_error_map in Hij.
  destruct (nth_error (md_fields md) i) as [f|] eqn:Ef; [|apply nth_error_None in Ef; lia].
  destruct (nth_error (md_fields md) j) as [g|] eqn:Eg; [|discriminate Hij].
  cbn [option_map] in Hij. inversion Hij. exact (field_index_unique (length E) md D i j f g Ef Eg H0).
Qed.

Theorem merge_sim : forall l, mrel (merge_messages E) (h_merge E nr) l.
Proof.
  apply (msg_ind2 (mrel (merge_messages E) (h_merge E nr)) (mrelv (merge_messages E) (h_merge E nr)));
    unfold mrelv; try (intros; discriminate).
  - intros m IH lm Hv. inversion Hv; subst. exact IH.
  - intros d ls lu lk HS HU [de es eu ek] [eid ed hes heu het hek] [lid ld hls hlu hlt hlk] s B1 B2 Se Sl Dd Ge Gl Sime Siml.
    cbn [m_desc] in Dd. subst de.
    apply sim_msg_eq in Sime, Siml. destruct Sime as (<- & Fes & Feu & Lek), Siml as (<- & Fls & Flu & Llk).
    cbn [shape_msg] in Se, Sl. cbn [good_msg] in Ge, Gl. destruct (nth_error E d) as [md|] eqn:Emd; [|discriminate Sl].
    rewrite !andb_true_iff in Se, Sl, Ge, Gl. destruct Se as [[Se1 Se2] Se3], Sl as [[Sl1 Sl2] Sl3].
    destruct Ge as [[Ge1 Ge2] Ge3], Gl as [[Gl1 Gl2] Gl3].
    apply Nat.eqb_eq in Se2, Sl2.
    pose proof (env_desc_ok E EO d md Emd) as D.
    assert (HQu : Forall (fun cv : Z * sval => forall lm, snd cv = VMsg (Some lm) -> mrel (merge_messages E) (h_merge E nr) lm) lu).
    { exact HU. }
    destruct (merge_unions_shape E md D (merge_messages E) lu 0%nat eu ltac:(congruence) Se3 Sl3) as (us & Hus & Sus & Lus).
    { eapply Forall_impl; [|exact HU]. intros cv Hcv lm Hv em S1 S2 Dm.
      destruct (merge_shape E EO em lm S1 S2 Dm) as (m & Hm & Sm & Dm'). exists m. auto. }
    assert (HU0 : UInv eu lu us (md_fields md) heu hlu).
    { split; [symmetry; exact (F2_len _ _ _ _ _ Feu)|]. split; [rewrite <- (F2_len _ _ _ _ _ Flu); congruence|].
      intros g [ec ev] [lc lv] ug Eeg Elg Eug.
      destruct (F2_nth_l _ _ _ _ _ Feu g _ Eeg) as (x & Hx & Sx). destruct (F2_nth_l _ _ _ _ _ Flu g _ Elg) as (y & Hy & Sy).
      exists x, y. split; [exact Hx|]. split; [exact Hy|]. left. split; [exact Sx|]. split; [exact Sy|].
      pose proof (unions_shape_nth' E _ eu 0 g _ Se3 Eeg) as She. cbn [plus] in She.
      pose proof (unions_shape_nth' E _ lu 0 g _ Sl3 Elg) as Shl. cbn [plus] in Shl.
      destruct (union_shape_inv E _ _ _ _ Shl) as [[-> ->]|(fl & Hinl & Hidl & Hql & _)].
      - destruct (union_shape_inv E _ _ _ _ She) as [[-> ->]|(fe & Hine & Hide & Hqe & _)].
        + left. destruct (merge_unions_nth md (merge_messages E) lu 0%nat eu us Hus ltac:(congruence)) as [_ Hn].
          destruct (Hn g _ _ Eeg Elg) as (ug' & Eug' & Hmu). rewrite Eug in Eug'. inversion Eug'; subst ug'.
          unfold merge_union in Hmu. cbn [Z.eqb] in Hmu. inversion Hmu. reflexivity.
        + right. exists fe. split; [exact Hine|]. split; [exact Hqe|]. left. reflexivity.
      - right. exists fl. split; [exact Hinl|]. split; [exact Hql|]. right. exact Hidl. }
    rewrite Se2 in Se1. rewrite Sl2 in Sl1. rewrite <- Se2 in Se1, Sl1.
    destruct (merge_slots_sim md D (merge_messages E) (h_merge E nr) B1 B2 eu lu us hlu ltac:(congruence) Se2 Se3 Sl3 Ge2 Gl2 Hus HU Flu
                (md_fields md) es ls hes hls heu hlu s (fun f H => H) (fields_nodup md D) Se1 Sl1 Ge1 Gl1 HS Fes Fls HU0)
      as (ss & hes' & hls' & heu' & hlu' & s' & Hms & Hhs & Fss & HUf).
    assert (Fus : Forall2 sim_union us hlu').
    { destruct HUf as (HL1 & HL2 & HUf). apply F2_pointwise; [congruence|].
      intros g ug y Eug Ey.
      assert (Hg : (g < length us)%nat) by (apply nth_error_Some; congruence).
      destruct (nth_error eu g) as [eg|] eqn:Eeg; [|apply nth_error_None in Eeg; lia].
      destruct (nth_error lu g) as [lg|] eqn:Elg; [|apply nth_error_None in Elg; lia].
      destruct (HUf g eg lg ug Eeg Elg Eug) as (x1 & y1 & _ & Hy1 & Hst). rewrite Ey in Hy1. inversion Hy1; subst y1.
      destruct Hst as [(_ & Sy & [->|(fw & [] & _)])|(Sy & _)]; exact Sy. }
    rewrite merge_messages_eq, Emd. cbn [m_slots m_unions m_unk]. rewrite Hms. cbn [bind]. rewrite Hus. cbn [bind].
    rewrite h_merge_eq, Emd. unfold bnd. rewrite Hhs. cbn [negb].
    assert (Hlen : forall (hk : list (option nat)), length (ek ++ lk) = length hk -> length (ek ++ lk) = length hk) by auto.
    destruct hek as [|a hek']; cbn [nonempty].
    + eexists; eexists; eexists; eexists. split; [reflexivity|]. split; [reflexivity|].
      apply sim_msg_eq. split; [reflexivity|]. split; [exact Fss|]. split; [exact Fus|].
      destruct ek; [|discriminate Lek]. exact Llk.
    + destruct hlk as [|b hlk']; cbn [nonempty].
      * eexists; eexists; eexists; eexists. split; [reflexivity|]. split; [reflexivity|].
        apply sim_msg_eq. split; [reflexivity|]. split; [exact Fss|]. split; [exact Fus|].
        destruct lk; [|discriminate Llk]. rewrite app_nil_r. exact Lek.
      * destruct (unit_run (free_opt hlt) (mkH (S (h_next s')) (EvA (h_next s') ((zlen (a :: hek') + zlen (b :: hlk')) * 24) :: h_trace s'))) as [s2 H2].
        destruct (unit_run (free_opt het) s2) as [s3 H3].
        eexists; eexists; eexists; exists s3. split; [reflexivity|]. split.
        { rewrite alloc_nr. rewrite H2, H3. reflexivity. }
        apply sim_msg_eq. split; [reflexivity|]. split; [exact Fss|]. split; [exact Fus|].
        rewrite !app_length. congruence.
Qed.

End MergeSim.

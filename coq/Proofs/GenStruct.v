(* C13 / C14, generator side: structure of the descriptors GenModel.Gen produces.
   - the field array is the schema's field list sorted by number: a permutation, strictly increasing,
     each entry carrying exactly the attributes of its schema field;
   - hence the generated range table finds every field number and rejects every other key;
   - the same for the value array of an enum (distinct numbers, ascending). *)
From Coq Require Import ZArith List Bool Lia Permutation Sorted.
From PBC Require Import Base.CInt Gen.LeafC GenModel.Ranges GenModel.Gen Proofs.SortLemmas Proofs.LookupGen.
Import ListNotations.
Local Open Scope Z_scope.

(* ---- sorting integers by a key *)
Section ByKey.
Variable A : Type.
Variable key : A -> Z.
Let ltk (a b : A) : bool := key a <? key b.

Lemma ltk_sorted : forall l, StronglySorted (fun a b => key a <= key b) (isort_by ltk l).
Proof.
  intros l.
  assert (H : StronglySorted (le' A ltk) (isort_by ltk l)).
  { apply isort_by_sorted; unfold le', ltk; intros; lia. }
  eapply StronglySorted_ind with (P := fun l => StronglySorted (fun a b => key a <= key b) l); [constructor| |exact H].
  intros a t _ IH Ha. constructor; [exact IH|].
  rewrite Forall_forall in *. intros x Hx. specialize (Ha x Hx). unfold le', ltk in Ha. lia.
Qed.

Lemma sorted_nodup_incr : forall l, StronglySorted (fun a b => key a <= key b) l -> NoDup (map key l) -> incr (map key l).
Proof.
  induction l as [|a t IH]; intros Hs Hn; [exact I|].
  inversion Hs as [|? ? Hst Ha]; subst. cbn [map] in Hn. inversion Hn as [|? ? Hnotin Hn']; subst.
  cbn [map incr]. destruct t as [|b t']; [exact I|]. cbn [map]. split.
  - rewrite Forall_forall in Ha. specialize (Ha b (or_introl eq_refl)).
    assert (key a <> key b) by (intros E; apply Hnotin; left; symmetry; exact E). lia.
  - exact (IH Hst Hn').
Qed.

Lemma isort_key_incr : forall l, NoDup (map key l) -> incr (map key (isort_by ltk l)).
Proof.
  intros l Hn. apply sorted_nodup_incr; [apply ltk_sorted|].
  eapply Permutation_NoDup; [|exact Hn]. apply Permutation_map. apply Permutation_sym. apply isort_by_perm.
Qed.
End ByKey.

(* ---- messages *)
Lemma map3_length : forall A B C D (g : A -> B -> C -> D) la lb lc,
  length lb = length la -> length lc = length la -> length (map3 g la lb lc) = length la.
Proof.
  intros A B C D g la. induction la as [|a la IH]; intros [|b lb] [|c lc] H1 H2; try discriminate; [reflexivity|].
  cbn [map3 length]. f_equal. apply IH; [inversion H1 | inversion H2]; reflexivity.
Qed.

Lemma assign_groups_length : forall l seen, length (fst (assign_groups seen l)) = length l.
Proof.
  induction l as [|fd t IH]; intros seen; [reflexivity|]. cbn [assign_groups].
  destruct (pf_oneof fd) as [k|].
  - destruct (is_optional fd).
    + destruct (Gen.index_of k seen 0%nat).
      * specialize (IH seen). destruct (assign_groups seen t). cbn [fst length] in *. congruence.
      * specialize (IH (seen ++ [k])). destruct (assign_groups (seen ++ [k]) t). cbn [fst length] in *. congruence.
    + specialize (IH seen). destruct (assign_groups seen t). cbn [fst length] in *. congruence.
  - specialize (IH seen). destruct (assign_groups seen t). cbn [fst length] in *. congruence.
Qed.

(* what the descriptor entry of a schema field must say, whatever its position *)
Definition mirrors (fs : list pfile) (f : pfile) (m : pmsg) (fd : pfield) (gf : gfield) : Prop :=
  gf_id gf = pf_number fd /\ gf_name gf = name_ptr f (field_proto_name f m fd) /\
  gf_label gf = field_label f fd /\ gf_type gf = field_gtype fd /\ gf_flags gf = field_flags f fd /\
  gf_descriptor gf = field_descriptor_sym fs fd /\
  (exists grp, gf_quant gf = field_quant f fd grp).

Lemma map3_forall2 : forall fs f m la lb lc,
  length lb = length la -> length lc = length la ->
  Forall2 (mirrors fs f m) la (map3 (gen_field fs f m) la lb lc).
Proof.
  intros fs f m la. induction la as [|a la IH]; intros [|b lb] [|c lc] H1 H2; try discriminate; [constructor|].
  cbn [map3]. constructor; [|apply IH; [inversion H1 | inversion H2]; reflexivity].
  unfold mirrors, gen_field; cbn. repeat split; try reflexivity. exists b. reflexivity.
Qed.

Theorem gen_msg_fields : forall tg fs f gi m,
  let g := gen_msg tg fs f gi m in
  let sorted := sort_fields (pm_fields m) in
  Permutation sorted (pm_fields m) /\
  Forall2 (mirrors fs f m) sorted (gm_fields g) /\
  (gm_field_ranges g, gm_n_field_ranges g) = mk_ranges (map pf_number sorted).
Proof.
  intros tg fs f gi m. cbv zeta. unfold gen_msg.
  pose proof (assign_groups_length (sort_fields (pm_fields m)) []) as HL.
  destruct (assign_groups [] (sort_fields (pm_fields m))) as [groups seen] eqn:EG. cbn [fst] in HL.
  destruct (mk_ranges (map pf_number (sort_fields (pm_fields m)))) as [ranges n] eqn:ER.
  cbn [gm_fields gm_field_ranges gm_n_field_ranges].
  split; [apply isort_by_perm|]. split; [|reflexivity].
  apply map3_forall2; [exact HL | apply map_length].
Qed.

Lemma forall2_ids : forall fs f m la lg, Forall2 (mirrors fs f m) la lg -> map gf_id lg = map pf_number la.
Proof. intros fs f m la lg H. induction H as [|a g la lg Hm _ IH]; [reflexivity|]. cbn [map]. rewrite IH. f_equal. exact (proj1 Hm). Qed.

(* every field number of the schema is found at the index of its descriptor entry; every other
   32-bit key is rejected *)
Theorem gen_msg_number_lookup : forall tg fs f gi m x,
  pm_fields m <> [] -> NoDup (map pf_number (pm_fields m)) -> Forall in32 (map pf_number (pm_fields m)) ->
  Z.of_nat (length (pm_fields m)) < 2147483648 -> in32 x ->
  let g := gen_msg tg fs f gi m in
  int_range_lookup (gm_n_field_ranges g) (gm_field_ranges g) x =
  match LookupGen.index_of x (map gf_id (gm_fields g)) with Some k => k | None => -1 end.
Proof.
  intros tg fs f gi m x Hne Hnd Hb Hlen Hx g.
  destruct (gen_msg_fields tg fs f gi m) as (HP & HF & HR). fold g in HF, HR.
  rewrite (forall2_ids _ _ _ _ _ HF).
  set (vs := map pf_number (sort_fields (pm_fields m))) in *.
  assert (Hperm : Permutation vs (map pf_number (pm_fields m))) by (apply Permutation_map; exact HP).
  replace (gm_n_field_ranges g) with (snd (mk_ranges vs)) by (rewrite <- HR; reflexivity).
  replace (gm_field_ranges g) with (fst (mk_ranges vs)) by (rewrite <- HR; reflexivity).
  apply generated_table_lookup.
  - intros E. apply Hne. apply Permutation_length in Hperm. rewrite E in Hperm. cbn in Hperm.
    rewrite map_length in Hperm. destruct (pm_fields m); [reflexivity | discriminate].
  - apply (isort_key_incr pfield pf_number). exact Hnd.
  - rewrite Forall_forall in *. intros v Hv. apply Hb. eapply Permutation_in; [exact Hperm | exact Hv].
  - unfold vs. rewrite map_length. unfold sort_fields. rewrite isort_by_length. exact Hlen.
  - exact Hx.
Qed.

(* ---- enums: the values array holds each distinct number once, ascending *)
Lemma unique_values_spec : forall l prev,
  StronglySorted (fun a b : str * Z => snd a <= snd b) l ->
  (forall p, prev = Some p -> Forall (fun a => p <= snd a) l) ->
  incr (map snd (unique_values prev l)) /\
  (forall p, prev = Some p -> Forall (fun a => p < snd a) (unique_values prev l)) /\
  (forall v, In v (map snd l) -> In v (map snd (unique_values prev l)) \/ prev = Some v) /\
  (forall v, In v (map snd (unique_values prev l)) -> In v (map snd l)).
Proof.
  induction l as [|[n v] t IH]; intros prev Hs Hp.
  - cbn. repeat split; auto; try contradiction.
  - inversion Hs as [|? ? Hst Ha]; subst. cbn [unique_values].
    assert (Hnext : forall p, Some v = Some p -> Forall (fun a : str * Z => p <= snd a) t).
    { intros p E. inversion E; subst. exact Ha. }
    assert (Hkeep : incr (map snd ((n, v) :: unique_values (Some v) t)) /\
                    (forall v0, In v0 (map snd ((n, v) :: t)) -> In v0 (map snd ((n, v) :: unique_values (Some v) t))) /\
                    (forall v0, In v0 (map snd ((n, v) :: unique_values (Some v) t)) -> In v0 (map snd ((n, v) :: t)))).
    { destruct (IH (Some v) Hst Hnext) as (I1 & I2 & I3 & I4). repeat split.
      - cbn [map incr snd]. destruct (unique_values (Some v) t) as [|[n2 v2] u] eqn:EU; [exact I|].
        split; [|exact I1]. specialize (I2 v eq_refl). inversion I2; subst. cbn in *. lia.
      - intros v0 [<-|Hin]; [left; reflexivity|]. destruct (I3 v0 Hin) as [H|H]; [right; exact H | left; inversion H; reflexivity].
      - intros v0 [<-|Hin]; [left; reflexivity | right; exact (I4 v0 Hin)]. }
    destruct prev as [p|].
    + destruct (Z.eqb_spec p v) as [->|Hne].
      * destruct (IH (Some v) Hst Hnext) as (I1 & I2 & I3 & I4). repeat split.
        -- exact I1.
        -- intros p E. inversion E; subst. exact (I2 p eq_refl).
        -- intros v0 [<-|Hin]; [right; reflexivity|]. exact (I3 v0 Hin).
        -- intros v0 Hin. right. exact (I4 v0 Hin).
      * destruct Hkeep as (K1 & K2 & K3). repeat split; auto.
        intros p0 E. inversion E; subst p0. specialize (Hp p eq_refl). inversion Hp as [|? ? Hpv Hpt]; subst. cbn in Hpv.
        constructor; [cbn; lia|].
        destruct (IH (Some v) Hst Hnext) as (_ & I2 & _). specialize (I2 v eq_refl).
        rewrite Forall_forall in *. intros a Hain. specialize (I2 a Hain). lia.
    + destruct Hkeep as (K1 & K2 & K3). repeat split; auto. intros p E. discriminate E.
Qed.

Theorem gen_enum_values : forall f e,
  let g := gen_enum f e in
  let nums := map gev_value (ge_values g) in
  incr nums /\ (forall v, In v nums <-> In v (map snd (pe_values e))) /\
  (ge_value_ranges g, ge_n_value_ranges g) = mk_ranges nums.
Proof.
  intros f e. cbv zeta. unfold gen_enum.
  set (sorted := sort_enum_values (pe_values e)).
  destruct (mk_ranges (map snd (unique_values None sorted))) as [ranges n] eqn:ER.
  cbn [ge_values ge_value_ranges ge_n_value_ranges].
  match goal with |- context [map gev_value (map ?h ?l)] =>
    replace (map gev_value (map h l)) with (map snd l) by (rewrite map_map; reflexivity) end.
  rewrite ER.
  assert (Hs : StronglySorted (fun a b : str * Z => snd a <= snd b) sorted) by (apply (ltk_sorted (str * Z) snd)).
  destruct (unique_values_spec sorted None Hs ltac:(intros p E; discriminate E)) as (I1 & _ & I3 & I4).
  assert (Hperm : Permutation (map snd sorted) (map snd (pe_values e))) by (apply Permutation_map; apply isort_by_perm).
  split; [exact I1|]. split; [|reflexivity].
  intros v. split.
  - intros Hin. eapply Permutation_in; [exact Hperm | exact (I4 v Hin)].
  - intros Hin. destruct (I3 v) as [H|H]; [eapply Permutation_in; [apply Permutation_sym; exact Hperm | exact Hin] | exact H | discriminate H].
Qed.

Theorem gen_enum_number_lookup : forall f e x,
  pe_values e <> [] -> Forall in32 (map snd (pe_values e)) -> Z.of_nat (length (pe_values e)) < 2147483648 -> in32 x ->
  let g := gen_enum f e in
  int_range_lookup (ge_n_value_ranges g) (ge_value_ranges g) x =
  match LookupGen.index_of x (map gev_value (ge_values g)) with Some k => k | None => -1 end.
Proof.
  intros f e x Hne Hb Hlen Hx g.
  destruct (gen_enum_values f e) as (HI & HIn & HR). fold g in HI, HIn, HR.
  set (nums := map gev_value (ge_values g)) in *.
  replace (ge_n_value_ranges g) with (snd (mk_ranges nums)) by (rewrite <- HR; reflexivity).
  replace (ge_value_ranges g) with (fst (mk_ranges nums)) by (rewrite <- HR; reflexivity).
  apply generated_table_lookup; try assumption.
  - intros E. destruct (pe_values e) as [|[n v] t] eqn:Ev; [congruence|].
    assert (Hin : In v nums) by (apply HIn; left; reflexivity). rewrite E in Hin. contradiction.
  - rewrite Forall_forall in *. intros v Hv. apply Hb. apply HIn. exact Hv.
  - (* no more distinct numbers than values *)
    assert (Hl : (length nums <= length (pe_values e))%nat).
    { assert (Hnd : NoDup nums).
      { clear -HI. induction nums as [|a t IH]; [constructor|]. constructor.
        - intros Hin. pose proof (incr_lower t a a HI Hin). lia.
        - apply IH. cbn [incr] in HI. destruct t; [exact I | exact (proj2 HI)]. }
      rewrite <- (map_length snd (pe_values e)). apply NoDup_incl_length; [exact Hnd|].
      intros v Hv. apply HIn. exact Hv. }
    lia.
Qed.

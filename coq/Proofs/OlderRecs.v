(* C09, tools (2): records and their reorderings.
   - [unpack_reorder_fuel], [unpack_records_fuel]: Reorder.unpack_reorder / Records.unpack_record_order_independent
     for any amount of fuel left for the sub-messages (the originals are stated for [unpack_top]);
   - [scan_pure_known], [scan_pure_unknown]: a canonical wire record [key ++ payload] is a record in the sense of
     Records.v (the state-free scanner reads it as exactly one member), for a known and for an unknown number;
   - [rr_partition]: moving the records of some blocks behind all the others is a reordering of independent
     records, provided the moved records are independent of the ones they pass. *)
From Coq Require Import ZArith List Bool Lia ZifyBool.
From PBC Require Import Base.CInt Gen.LeafC Impl.Desc Impl.Mem Impl.Enc Impl.WF Impl.Unpack Impl.Canon
     Proofs.LeafSafe Proofs.ScanInv Proofs.Required Proofs.ScanRec Proofs.ScanRecs Proofs.ScanCount Proofs.PackedCount Proofs.TagRange
     Proofs.MergeSafe Proofs.ParseSafe Proofs.PrefixStable Proofs.Commute Proofs.Reorder Proofs.Records.
Import ListNotations.
Local Open Scope Z_scope.

Ltac Zify.zify_post_hook ::= Z.div_mod_to_equations.

Local Notation bytes := LeafSafe.bytes.
Local Notation wrec_ok := ScanRecs.rec_ok.
Local Notation brec_ok := Records.rec_ok.

(* ---------- order independence with any fuel for the sub-messages *)
Section RO.
Variable E : env.
Hypothesis EO : env_ok E = true.

Theorem unpack_reorder_fuel : forall k d md data data' st st',
  nth_error E d = Some md ->
  bytes data -> bytes data' -> Mem.zlen data < 2147483648 -> length data' = length data ->
  scan_loop (S (length data)) md (st_init d md data) = Ok st ->
  scan_loop (S (length data')) md (st_init d md data') = Ok st' ->
  reorder md (rev (st_members st)) (rev (st_members st')) ->
  res_eq (unpack E (S k) d data) (unpack E (S k) d data').
Proof.
  intros k d md data data' st st' Hmd HB HB' HN Hlen Hs Hs' HR.
  pose proof (env_desc_ok E EO d md Hmd) as D.
  rewrite (unpack_unfold E k d md data Hmd), (unpack_unfold E k d md data' Hmd).
  rewrite Hs, Hs'. cbn [bind].
  assert (Hcnt : Mem.zlen (st_members st') = Mem.zlen (st_members st)).
  { unfold Mem.zlen. rewrite <- (rev_length (st_members st')), <- (rev_length (st_members st)).
    rewrite (reorder_length md _ _ HR). reflexivity. }
  rewrite Hcnt. destruct (max_members <? Mem.zlen (st_members st)); [exact I|].
  assert (HN' : Mem.zlen data' < 2147483648) by (unfold Mem.zlen in *; lia).
  destruct (scan_loop_inv' E md D parse_tag_range_bytes count_packed_elements_le_len (Mem.zlen data) _ _ st ltac:(lia) Hs (init_scan_inv E d md data HB))
    as ((_ & _ & _ & _ & HSl) & _).
  destruct (scan_loop_inv' E md D parse_tag_range_bytes count_packed_elements_le_len (Mem.zlen data') _ _ st' ltac:(lia) Hs' (init_scan_inv E d md data' HB'))
    as ((_ & _ & _ & _ & HSl') & _).
  destruct (scan_loop_track md _ _ st Hs (init_track d md data)) as ((_ & T2 & T3 & _) & TL).
  destruct (scan_loop_track md _ _ st' Hs' (init_track d md data')) as ((_ & T2' & T3' & _) & TL').
  cbn [st_init st_bitmap] in TL, TL'. rewrite repeat_length in TL, TL'.
  assert (Hin : forall x, In x (st_members st) <-> In x (st_members st')).
  { intros x. rewrite (in_rev (st_members st)), (in_rev (st_members st')). apply (reorder_in md _ _ HR). }
  assert (Htot : forall i, total md i (st_members st) = total md i (st_members st')).
  { intros i. rewrite <- (total_rev md i (st_members st)), <- (total_rev md i (st_members st')). apply reorder_total. exact HR. }
  assert (Hslots : st_slots st' = st_slots st).
  { destruct HSl as (L1 & S1). destruct HSl' as (L2 & S2). apply list_eq_nth. intros i.
    destruct (nth_error (md_fields md) i) as [f|] eqn:Hf.
    - rewrite (S1 i f Hf), (S2 i f Hf), Htot. reflexivity.
    - apply nth_error_None in Hf.
      rewrite (proj2 (nth_error_None (st_slots st') i)) by lia. rewrite (proj2 (nth_error_None (st_slots st) i)) by lia. reflexivity. }
  assert (Hbm : alloc_slots (md_fields md) (st_bitmap st') (st_slots st') = alloc_slots (md_fields md) (st_bitmap st) (st_slots st)).
  { rewrite Hslots. apply alloc_slots_ext. intros i f Hf Hr.
    assert (Hi : (i < length (md_fields md))%nat) by (apply nth_error_Some; congruence).
    apply eq_true_iff_eq. split; intros Hb.
    - destruct (T2' i Hb) as (sm & Hsm & Hfi). apply (T3 sm i f (proj2 (Hin sm) Hsm) Hfi Hf Hr). lia.
    - destruct (T2 i Hb) as (sm & Hsm & Hfi). apply (T3' sm i f (proj1 (Hin sm) Hsm) Hfi Hf Hr). lia. }
  rewrite Hbm.
  destruct (alloc_slots (md_fields md) (st_bitmap st) (st_slots st)) as [slots0|e] eqn:Ea; cbn [bind res_eq]; [|exact I].
  apply parse_members_reorder; [|exact HR].
  apply (slots_agree_alloc md d (st_bitmap st) (st_slots st) slots0 (repeat (0, VWord 0) (md_n_oneofs md)) [] _ _ Ea).
  apply (scan_slots_agree md d _ (st_members st)). exact HSl.
Qed.

Theorem unpack_records_fuel : forall k d md prs prs', nth_error E d = Some md ->
  Forall (brec_ok md) prs -> rreorder md prs prs' -> Mem.zlen (concat (map fst prs)) < 2147483648 ->
  res_eq (unpack E (S k) d (concat (map fst prs))) (unpack E (S k) d (concat (map fst prs'))).
Proof.
  intros k d md prs prs' Hmd HF HR HN.
  pose proof (rreorder_rec_ok md prs prs' HR HF) as HF'.
  pose proof (rreorder_length md prs prs' HR) as Hlen.
  assert (HN' : Mem.zlen (concat (map fst prs')) < 2147483648) by (unfold Mem.zlen in *; lia).
  destruct (scan_records E EO d md prs Hmd HF HN) as (st & Hs & Hm).
  destruct (scan_records E EO d md prs' Hmd HF' HN') as (st' & Hs' & Hm').
  apply (unpack_reorder_fuel k d md _ _ st st' Hmd (records_bytes md prs HF) (records_bytes md prs' HF') HN
           (eq_sym Hlen) Hs Hs').
  rewrite Hm, Hm'. apply rreorder_reorder. exact HR.
Qed.

End RO.

(* ---------- canonical wire records are records *)
Section ScanPure.
Variable nenv : nat.
Variable md : mdesc.
Hypothesis D : desc_ok nenv md = true.

Lemma scan_pure_known_rest : forall i f wt payload pref rest,
  nth_error (md_fields md) i = Some f ->
  0 <= wt < 8 -> payload_ok wt payload pref ->
  (label_eqb (f_label f) LRepeated = true -> packed_arrival f wt = true ->
     exists c, count_packed_elements (type_code (f_type f)) (Mem.zlen payload - pref)
                 (skipn (Z.to_nat pref) payload) 0 = (1, c)) ->
  Mem.zlen (e_tag (f_id f) wt ++ payload ++ rest) < 4294967296 ->
  scan_pure md (e_tag (f_id f) wt ++ payload ++ rest) = Ok (new_member (f_id f) wt (Some i) payload pref, rest).
Proof.
  intros i f wt payload pref rest Hn Hwt Hp Hcnt Hlen.
  destruct (desc_ok_parts nenv md D) as (Hinc & Hb & _).
  assert (Hid : 0 < f_id f < 536870912).
  { apply Hb. apply in_map. eapply nth_error_In; eauto. }
  unfold scan_pure.
  rewrite (tag_of_record nenv md (f_id f) wt (payload ++ rest) Hid Hwt Hlen). cbv beta iota zeta.
  assert (Hk1 : 1 <= Mem.zlen (e_tag (f_id f) wt)).
  { destruct (key_wfv (f_id f) wt Hid Hwt) as (W & _). destruct (e_tag (f_id f) wt) as [|b0 k0]; [contradiction|].
    unfold Mem.zlen. cbn [length]. lia. }
  replace (Mem.zlen (e_tag (f_id f) wt) =? 0) with false by lia.
  rewrite (find_field_known nenv md D i f Hn). rewrite Hn. cbn [bind].
  assert (Esk : skipn (Z.to_nat (Mem.zlen (e_tag (f_id f) wt))) (e_tag (f_id f) wt ++ payload ++ rest) = payload ++ rest).
  { unfold Mem.zlen. rewrite Nat2Z.id. apply skipn_app_exact. }
  rewrite !Esk.
  assert (Hrem : Mem.zlen (e_tag (f_id f) wt ++ payload ++ rest) - Mem.zlen (e_tag (f_id f) wt) = Mem.zlen (payload ++ rest)).
  { rewrite !zlen_app. lia. }
  rewrite Hrem.
  assert (Hl2 : Mem.zlen (payload ++ rest) < 4294967296).
  { rewrite !zlen_app in *. lia. }
  pose proof (payload_scan nenv md wt payload pref rest Hp Hl2) as Hps.
  cbv zeta in Hps. rewrite Hps. cbn [bind].
  assert (Efn : firstn (Z.to_nat (Mem.zlen payload)) (payload ++ rest) = payload).
  { unfold Mem.zlen. rewrite Nat2Z.id. apply firstn_app_exact. }
  assert (Esk2 : skipn (Z.to_nat (Mem.zlen payload)) (payload ++ rest) = rest).
  { unfold Mem.zlen. rewrite Nat2Z.id. apply skipn_app_exact. }
  rewrite !Efn, !Esk2.
  assert (Hsl : (if label_eqb (f_label f) LRepeated
                 then if packed_arrival f wt
                      then let '(okc, count) := count_packed_elements (type_code (f_type f)) (Mem.zlen payload - pref)
                                                  (skipn (Z.to_nat pref) payload) 0 in
                           if okc =? 0 then Err EFail else Ok tt
                      else Ok tt
                 else Ok tt) = Ok tt).
  { destruct (label_eqb (f_label f) LRepeated); [|reflexivity].
    destruct (packed_arrival f wt); [|reflexivity].
    destruct (Hcnt eq_refl eq_refl) as (c & Hc). rewrite Hc. reflexivity. }
  rewrite Hsl. cbn [bind]. reflexivity.
Qed.

Lemma scan_pure_unknown_rest : forall tag wt payload pref rest,
  0 < tag < 536870912 -> existsb (Z.eqb tag) (map f_id (md_fields md)) = false ->
  0 <= wt < 8 -> payload_ok wt payload pref ->
  Mem.zlen (e_tag tag wt ++ payload ++ rest) < 4294967296 ->
  scan_pure md (e_tag tag wt ++ payload ++ rest) = Ok (new_member tag wt None payload pref, rest).
Proof.
  intros tag wt payload pref rest Hid Hex Hwt Hp Hlen.
  unfold scan_pure.
  rewrite (tag_of_record nenv md tag wt (payload ++ rest) Hid Hwt Hlen). cbv beta iota zeta.
  assert (Hk1 : 1 <= Mem.zlen (e_tag tag wt)).
  { destruct (key_wfv tag wt Hid Hwt) as (W & _). destruct (e_tag tag wt) as [|b0 k0]; [contradiction|].
    unfold Mem.zlen. cbn [length]. lia. }
  replace (Mem.zlen (e_tag tag wt) =? 0) with false by lia.
  rewrite (find_field_unknown nenv md D tag Hid Hex). cbn [bind].
  assert (Esk : skipn (Z.to_nat (Mem.zlen (e_tag tag wt))) (e_tag tag wt ++ payload ++ rest) = payload ++ rest).
  { unfold Mem.zlen. rewrite Nat2Z.id. apply skipn_app_exact. }
  rewrite !Esk.
  assert (Hrem : Mem.zlen (e_tag tag wt ++ payload ++ rest) - Mem.zlen (e_tag tag wt) = Mem.zlen (payload ++ rest)).
  { rewrite !zlen_app. lia. }
  rewrite Hrem.
  assert (Hl2 : Mem.zlen (payload ++ rest) < 4294967296).
  { rewrite !zlen_app in *. lia. }
  pose proof (payload_scan nenv md wt payload pref rest Hp Hl2) as Hps.
  cbv zeta in Hps. rewrite Hps. cbn [bind].
  assert (Efn : firstn (Z.to_nat (Mem.zlen payload)) (payload ++ rest) = payload).
  { unfold Mem.zlen. rewrite Nat2Z.id. apply firstn_app_exact. }
  assert (Esk2 : skipn (Z.to_nat (Mem.zlen payload)) (payload ++ rest) = rest).
  { unfold Mem.zlen. rewrite Nat2Z.id. apply skipn_app_exact. }
  rewrite !Efn, !Esk2. reflexivity.
Qed.

Lemma wrec_bytes : forall id r, 0 < id < 536870912 -> wrec_ok r -> bytes (rec_bytes id r).
Proof.
  intros id r Hid [Hwt [HB _]]. unfold bytes, rec_bytes. apply Forall_forall. intros x Hx.
  apply in_app_or in Hx. destruct Hx as [Hx|Hx].
  - destruct (key_wfv id (r_wt r) Hid Hwt) as (_ & _ & B & _). exact (B x Hx).
  - exact (HB x Hx).
Qed.

Lemma wrec_nonempty : forall id r, 0 < id < 536870912 -> wrec_ok r -> rec_bytes id r <> [].
Proof.
  intros id r Hid [Hwt _] E0. unfold rec_bytes in E0. apply app_eq_nil in E0. destruct E0 as [E0 _].
  exact (key_nonempty _ _ Hid Hwt E0).
Qed.

(* a record of a known field *)
Lemma brec_known : forall i f r,
  nth_error (md_fields md) i = Some f -> wrec_ok r ->
  (f_label f = LRepeated -> exists c, rec_cnt f r c) ->
  Mem.zlen (rec_bytes (f_id f) r) < 4294967296 ->
  brec_ok md (rec_bytes (f_id f) r, rec_member (f_id f) (Some i) r).
Proof.
  intros i f r Hn Hok Hcnt Hlen.
  destruct (desc_ok_parts nenv md D) as (_ & Hb & _).
  assert (Hid : 0 < f_id f < 536870912).
  { apply Hb. apply in_map. eapply nth_error_In; eauto. }
  unfold Records.rec_ok. cbn [fst snd].
  split; [apply wrec_nonempty; assumption|]. split; [apply wrec_bytes; assumption|].
  destruct Hok as [Hwt Hp]. unfold rec_bytes, rec_member in *.
  rewrite <- (app_nil_r (r_payload r)) at 1.
  apply scan_pure_known_rest; try assumption.
  - intros Hrep Hpa. assert (El : f_label f = LRepeated) by (destruct (f_label f); try discriminate Hrep; reflexivity).
    destruct (Hcnt El) as (c & _ & Hc). rewrite Hpa in Hc. exists c. exact Hc.
  - rewrite app_nil_r. exact Hlen.
Qed.

(* a record of a number that is not a field *)
Lemma brec_unknown : forall id r,
  0 < id < 536870912 -> existsb (Z.eqb id) (map f_id (md_fields md)) = false -> wrec_ok r ->
  Mem.zlen (rec_bytes id r) < 4294967296 ->
  brec_ok md (rec_bytes id r, rec_member id None r).
Proof.
  intros id r Hid Hex Hok Hlen. unfold Records.rec_ok. cbn [fst snd].
  split; [apply wrec_nonempty; assumption|]. split; [apply wrec_bytes; assumption|].
  destruct Hok as [Hwt Hp]. unfold rec_bytes, rec_member in *.
  rewrite <- (app_nil_r (r_payload r)) at 1.
  apply scan_pure_unknown_rest; try assumption.
  rewrite app_nil_r. exact Hlen.
Qed.

End ScanPure.

(* ---------- moving blocks of records *)
Section Part.
Variable md : mdesc.
Notation rr := (rreorder md).
Notation brec := (list Z * smember)%type.

Lemma rr_app_l : forall (p l l' : list brec), rr l l' -> rr (p ++ l) (p ++ l').
Proof.
  intros p l l' H. induction H as [l|l1 a b l2 Hi|l1 l2 l3 H1 IH1 H2 IH2].
  - apply rr_refl.
  - rewrite !app_assoc. apply rr_swap. exact Hi.
  - eapply rr_trans; eassumption.
Qed.

Lemma rr_app_r : forall (s l l' : list brec), rr l l' -> rr (l ++ s) (l' ++ s).
Proof.
  intros s l l' H. induction H as [l|l1 a b l2 Hi|l1 l2 l3 H1 IH1 H2 IH2].
  - apply rr_refl.
  - rewrite <- !app_assoc. cbn [app]. apply rr_swap. exact Hi.
  - eapply rr_trans; eassumption.
Qed.

Lemma rr_move_one : forall (a : brec) B C, (forall b, In b B -> indep md (snd a) (snd b)) ->
  rr (a :: B ++ C) (B ++ a :: C).
Proof.
  intros a B. induction B as [|b B IH]; intros C H; [apply rr_refl|].
  cbn [app]. eapply rr_trans.
  - apply (rr_swap md [] a b (B ++ C)). apply H. left. reflexivity.
  - cbn [app]. apply (rr_app_l [b]). apply IH. intros b' Hb'. apply H. right. exact Hb'.
Qed.

Lemma rr_move_block : forall (A B C : list brec),
  (forall a b, In a A -> In b B -> indep md (snd a) (snd b)) -> rr (A ++ B ++ C) (B ++ A ++ C).
Proof.
  induction A as [|a A IH]; intros B C H; [apply rr_refl|].
  cbn [app]. eapply rr_trans.
  - apply (rr_app_l [a]). apply IH. intros a' b Ha' Hb. apply H; [right; exact Ha' | exact Hb].
  - cbn [app]. apply rr_move_one. intros b Hb. apply H; [left; reflexivity | exact Hb].
Qed.

Definition part_kept (blocks : list (bool * list brec)) : list brec :=
  concat (map snd (filter (fun b => fst b) blocks)).
Definition part_drop (blocks : list (bool * list brec)) : list brec :=
  concat (map snd (filter (fun b => negb (fst b)) blocks)).

Lemma rr_partition : forall blocks,
  (forall x y A B, In (false, A) blocks -> In (true, B) blocks -> In x A -> In y B -> indep md (snd x) (snd y)) ->
  rr (concat (map snd blocks)) (part_kept blocks ++ part_drop blocks).
Proof.
  induction blocks as [|[b A] blocks IH]; intros H; [apply rr_refl|].
  assert (IH' : rr (concat (map snd blocks)) (part_kept blocks ++ part_drop blocks)).
  { apply IH. intros x y A0 B0 HA HB. apply H; right; assumption. }
  cbn [map concat snd]. unfold part_kept, part_drop in *. cbn [filter fst].
  destruct b; cbn [negb map concat snd].
  - rewrite <- app_assoc. apply rr_app_l. exact IH'.
  - eapply rr_trans; [apply rr_app_l; exact IH'|].
    apply rr_move_block. intros x y Hx Hy.
    apply in_concat in Hy. destruct Hy as (B0 & HB0 & HyB). apply in_map_iff in HB0.
    destruct HB0 as ([b0 B1] & Hs & Hin). cbn [snd] in Hs. subst B1. apply filter_In in Hin. destruct Hin as [Hin Hb0].
    cbn [fst] in Hb0. subst b0.
    apply (H x y A B0); [left; reflexivity | right; exact Hin | exact Hx | exact HyB].
Qed.

End Part.

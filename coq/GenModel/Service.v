(* Model of the C code protoc-gen-c emits for a service besides its descriptor (c_service.cc:
   GenerateVfuncs, GenerateInitMacros, GenerateCallersDeclarations / GenerateCallersImplementations,
   GenerateInit) and of the three library functions that code relies on
   (protobuf_c_service_invoke_internal, protobuf_c_service_generated_init, protobuf_c_service_destroy).

   For   service Svc { rpc M0 (In0) returns (Out0);  rpc M1 ... }   the generator emits

     struct <Cname>_Service { ProtobufCService base;               GenerateVfuncs
                              void (*<m0>)(<Cname>_Service *, const In0 *, Out0_Closure, void *);
                              void (*<m1>)(...); ... };
     #define <UC>__BASE_INIT { &<lc>__descriptor, protobuf_c_service_invoke_internal, NULL }
     #define <UC>__INIT(function_prefix__)                         GenerateInitMacros
             { <UC>__BASE_INIT, function_prefix__ ## <m0>, function_prefix__ ## <m1>, ... }
     void <lc>__<mi>(ProtobufCService *service, const Ini *input, Outi_Closure closure, void *closure_data)
     { assert(service->descriptor == &<lc>__descriptor);           GenerateCallersImplementations
       service->invoke(service, i, (const ProtobufCMessage *) input, (ProtobufCClosure) closure, closure_data); }
     void <lc>__init (<Cname>_Service *service, <Cname>_ServiceDestroy destroy)
     { protobuf_c_service_generated_init (&service->base, &<lc>__descriptor, (ProtobufCServiceDestroy) destroy); }

   with <mi> = CamelToLower(method i's name), all four loops running over the methods in declaration
   order -- the order of the descriptor's method array (method_indices_by_name alone is sorted).

   Hand-written; tied to the tool by harness/gen/gencmp.py (lines SS SI SX of harness/GENFORMAT.md: the
   harness compiles the generated code, installs one handler per struct member, calls every stub and
   <lc>__init / protobuf_c_service_destroy).  Plain Gallina, no proofs. *)
From Coq Require Import ZArith List Bool.
From PBC Require Import Base.CInt GenModel.Ranges GenModel.Gen.
Import ListNotations.
Local Open Scope Z_scope.

(* "_Service", "__init", "__INIT" *)
Definition s_Service : str := [95; 83; 101; 114; 118; 105; 99; 101].
Definition s_init : str := [95; 95; 105; 110; 105; 116].
Definition s_INIT : str := [95; 95; 73; 78; 73; 84].

(* one generated stub <lc>__<m>: its name and the constant it passes to service->invoke *)
Record gstub := { gst_name : str; gst_index : nat }.

Record gsvc_code := {
  gsc_sym : str;                 (* <lc>__descriptor: the descriptor all of this refers to *)
  gsc_struct : str;              (* <Cname>_Service *)
  gsc_handlers : list str;       (* the handler members after base, in struct order *)
  gsc_init_macro : str;          (* <UC>__INIT *)
  gsc_init_macro_args : list str;(* the members the macro initialises after base, in order:
                                    function_prefix__ ## <name> *)
  gsc_stubs : list gstub;        (* in the order of their definitions *)
  gsc_init_fn : str;             (* <lc>__init *)
}.

Fixpoint stubs_from (lc : str) (i : nat) (names : list str) : list gstub :=
  match names with
  | [] => []
  | n :: t => {| gst_name := lc ++ s_uu ++ n; gst_index := i |} :: stubs_from lc (S i) t
  end.

(* ServiceGenerator for one service of file f *)
Definition gen_svc_code (f : pfile) (s : psvc) : gsvc_code :=
  let lc := full_name_to_lower f (ps_full_name s) in
  let members := map (fun mt => camel_to_lower (pmt_name mt)) (ps_methods s) in
  {| gsc_sym := descriptor_sym f (ps_full_name s);
     gsc_struct := full_name_to_c f (ps_full_name s) ++ s_Service;
     gsc_handlers := members;
     gsc_init_macro := full_name_to_upper f (ps_full_name s) ++ s_INIT;
     gsc_init_macro_args := members;
     gsc_stubs := stubs_from lc O members;
     gsc_init_fn := lc ++ s_init |}.

Definition gen_all_svc_code (fs : list pfile) : list gsvc_code :=
  flat_map (fun f => map (gen_svc_code f) (pfl_services f)) fs.

(* the method_index the stub of the i-th method hands to service->invoke *)
Definition stub_index (c : gsvc_code) (i : nat) : option nat :=
  match nth_error (gsc_stubs c) i with
  | Some st => Some (gst_index st)
  | None => None
  end.

(* ---- the library side *)

(* a ProtobufCService followed by its handler array, as far as the generated code and the library
   touch it.  D: what base.destroy can be; H: what a handler slot can hold. *)
Record service_state (D H : Type) := {
  sv_descriptor : option str;        (* base.descriptor: symbol of the descriptor, None = not set *)
  sv_invoke_internal : bool;         (* base.invoke == protobuf_c_service_invoke_internal *)
  sv_destroy : option D;             (* base.destroy *)
  sv_handlers : list (option H);     (* the members after base, None = NULL *)
}.
Arguments sv_descriptor {D H}. Arguments sv_invoke_internal {D H}.
Arguments sv_destroy {D H}. Arguments sv_handlers {D H}.

(* protobuf_c_service_invoke_internal: handlers = (GenericHandler * ) (service + 1);
   handler = handlers[method_index] -- the slot, None if there is no such slot (the assert) *)
Definition invoke {H : Type} (handlers : list H) (method_index : nat) : option H :=
  nth_error handlers method_index.

(* static <Cname>_Service svc = <UC>__INIT(prefix): handler k of the struct is the function named
   prefix ## (k-th macro argument); with [hs] the functions in macro-argument order *)
Definition macro_init {D H : Type} (c : gsvc_code) (hs : list H) : service_state D H :=
  {| sv_descriptor := Some (gsc_sym c);
     sv_invoke_internal := true;
     sv_destroy := None;
     sv_handlers := map Some hs |}.

(* what a call of a generated stub does: the arguments reach the handler unchanged *)
Record handler_call (H I C X : Type) := {
  hc_handler : H; hc_input : I; hc_closure : C; hc_closure_data : X
}.
Arguments hc_handler {H I C X}. Arguments hc_input {H I C X}.
Arguments hc_closure {H I C X}. Arguments hc_closure_data {H I C X}.

(* <lc>__<mi>(service, input, closure, closure_data) on a service whose invoke is the library's:
   None when no handler is reached (no such stub, slot out of range or NULL) *)
Definition call_stub {D H I C X : Type} (c : gsvc_code) (sv : service_state D H) (i : nat)
           (input : I) (closure : C) (data : X) : option (handler_call H I C X) :=
  match stub_index c i with
  | None => None
  | Some idx =>
      match invoke (sv_handlers sv) idx with
      | Some (Some h) =>
          Some {| hc_handler := h; hc_input := input; hc_closure := closure; hc_closure_data := data |}
      | _ => None
      end
  end.

(* <lc>__init(service, destroy) = protobuf_c_service_generated_init(&service->base, &<lc>__descriptor,
   destroy): descriptor, destroy and invoke are set, memset clears n_methods handler slots;
   whatever the memory held before is gone *)
Definition generated_init {D H : Type} (c : gsvc_code) (destroy : D) : service_state D H :=
  {| sv_descriptor := Some (gsc_sym c);
     sv_invoke_internal := true;
     sv_destroy := Some destroy;
     sv_handlers := map (fun _ => None) (gsc_handlers c) |}.

(* protobuf_c_service_destroy(service) = service->destroy(service): the function that is called
   (with the service itself as its argument) *)
Definition service_destroy {D H : Type} (sv : service_state D H) : option D := sv_destroy sv.

Definition all_handlers_null {D H : Type} (sv : service_state D H) : bool :=
  forallb (fun h => match h with None => true | Some _ => false end) (sv_handlers sv).

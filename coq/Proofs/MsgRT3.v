(* Message level, continued: unknown fields. *)
From Coq Require Import ZArith List Bool Lia ZifyBool.
From PBC Require Import Base.CInt Base.Bits Gen.LeafC Spec.Wire
     Impl.Desc Impl.Mem Impl.Enc Impl.Pack Impl.WF Impl.Unpack Impl.Canon
     Proofs.LeafEnc Proofs.EncLemmas Proofs.LeafDec Proofs.SizePack Proofs.ScanRec Proofs.ScanRecs
     Proofs.CellRT2 Proofs.FieldRT Proofs.FieldPkg Proofs.MsgRT Proofs.MsgRT2.
Import ListNotations.
Local Open Scope Z_scope.

Lemma take_varint_spec : forall fuel l p r,
  take_varint fuel l = Some (p, r) -> (forall b, In b l -> 0 <= b < 256) ->
  l = p ++ r /\ wfv p /\ (length p <= fuel)%nat.
Proof.
  induction fuel as [|k IH]; intros l p r H HB; [discriminate H|].
  destruct l as [|b t]; [discriminate H|]. cbn [take_varint] in H.
  pose proof (HB b (or_introl eq_refl)) as Bb.
  destruct (Z.ltb_spec b 128) as [Hs|Hb].
  - inversion H; subst. split; [reflexivity|]. split; [cbn [wfv]; lia | cbn; lia].
  - destruct (take_varint k t) as [[p' r']|] eqn:Et; [|discriminate H]. inversion H; subst.
    destruct (IH t p' r Et ltac:(intros x Hx; apply HB; right; exact Hx)) as (-> & W & L).
    split; [reflexivity|]. split; [|cbn [length]; lia].
    cbn [wfv]. destruct p' as [|x p'']; [contradiction|]. split; [lia | exact W].
Qed.

Lemma unk_payload : forall wt data, unk_payload_ok wt data = true ->
  0 <= wt < 8 /\ exists pref, payload_ok wt data pref.
Proof.
  intros wt data H. unfold unk_payload_ok in H. apply andb_true_iff in H. destruct H as [HB H].
  assert (HB' : forall b, In b data -> 0 <= b < 256) by (apply byte_bytes; exact HB).
  destruct (Z.eqb_spec wt 0) as [-> | N0].
  - split; [lia|]. destruct (take_varint 10 data) as [[p r]|] eqn:Et; [|discriminate H].
    destruct r; [|discriminate H].
    destruct (take_varint_spec 10 data p [] Et HB') as (-> & W & L). rewrite app_nil_r in *.
    exists 0. split; [exact HB'|]. left. auto.
  - destruct (Z.eqb_spec wt 1) as [-> | N1].
    + split; [lia|]. exists 0. split; [exact HB'|]. right. left. split; [reflexivity|]. split; [unfold zlen in H; lia | reflexivity].
    + destruct (Z.eqb_spec wt 5) as [-> | N5].
      * split; [lia|]. exists 0. split; [exact HB'|]. right. right. left. split; [reflexivity|]. split; [unfold zlen in H; lia | reflexivity].
      * destruct (Z.eqb_spec wt 2) as [-> | N2]; [|discriminate H].
        split; [lia|]. destruct (take_varint 5 data) as [[lp body]|] eqn:Et; [|discriminate H].
        destruct (take_varint_spec 5 data lp body Et HB') as (-> & W & L).
        apply andb_true_iff in H. destruct H as [Hv Hm].
        exists (zlen lp). split; [exact HB'|]. right. right. right. split; [reflexivity|].
        exists lp, body. repeat split; auto; lia.
Qed.

Definition umember (u : ufield) (pref : Z) : smember := new_member (u_tag u) (u_wt u) None (u_data u) pref.

Section Unknown.
Variable nenv : nat.
Variable E : env.
Variable usub : nat -> list Z -> res msg.
Variable md : mdesc.
Hypothesis D : desc_ok nenv md = true.

Lemma scan_unknowns : forall us st rest,
  forallb (canon_unk (map f_id (md_fields md))) us = true ->
  st_at st = concat (map pk_unknown us) ++ rest -> cache_ok md st -> zlen (st_at st) < 4294967296 ->
  exists prefs st',
    length prefs = length us /\
    (forall fuel, scan_loop (length us + fuel) md st = scan_loop fuel md st') /\
    st_at st' = rest /\
    st_members st' = rev (map (fun up => umember (fst up) (snd up)) (combine us prefs)) ++ st_members st /\
    st_nunk st' = st_nunk st + zlen us /\ st_slots st' = st_slots st /\ st_bitmap st' = st_bitmap st /\
    cache_ok md st'.
Proof.
  induction us as [|u us IH]; intros st rest Hc Hat Hca Hlen.
  - exists [], st. cbn [map concat app length combine rev Nat.add] in *. repeat split; auto. cbn. lia.
  - cbn [forallb] in Hc. apply andb_true_iff in Hc. destruct Hc as [Hu Hus].
    unfold canon_unk in Hu. rewrite !andb_true_iff in Hu. destruct Hu as [[[Ht0 Ht1] Hnot] Hp].
    apply negb_true_iff in Hnot.
    destruct (unk_payload _ _ Hp) as (Hwt & pref & Hpo).
    cbn [map concat] in Hat. unfold pk_unknown at 1 in Hat. rewrite <- !app_assoc in Hat.
    assert (Hid : 0 < u_tag u < 536870912) by lia.
    pose proof (scan_one_unknown nenv md D st (u_tag u) (u_wt u) (u_data u) pref (concat (map pk_unknown us) ++ rest)
                  Hid Hnot Hat Hwt Hpo Hlen Hca) as H1.
    set (st1 := scanned st (u_tag u) (u_wt u) None (u_data u) (concat (map pk_unknown us) ++ rest) pref (st_bitmap st) (st_slots st)) in *.
    assert (Hlen1 : zlen (st_at st1) < 4294967296).
    { subst st1. cbn [scanned st_at]. rewrite Hat in Hlen. rewrite !zlen_app in *.
      pose proof (zlen_nonneg _ (e_tag (u_tag u) (u_wt u))). pose proof (zlen_nonneg _ (u_data u)). lia. }
    assert (Hca1 : cache_ok md st1) by (subst st1; unfold cache_ok in *; cbn [scanned st_last st_last_idx]; exact Hca).
    destruct (IH st1 rest Hus eq_refl Hca1 Hlen1) as (prefs & st' & Hl & Hs & Ha & Hm & Hn & Hsl & Hb & Hc').
    exists (pref :: prefs), st'. split; [cbn [length]; lia|]. split.
    { intros fuel. cbn [length Nat.add]. rewrite scan_loop_step.
      - rewrite H1. cbn [bind]. apply Hs.
      - rewrite Hat. intros E0. apply app_eq_nil in E0. destruct E0 as [E0 _]. exact (key_nonempty _ _ Hid Hwt E0). }
    split; [exact Ha|]. split.
    { rewrite Hm. subst st1. cbn [scanned st_members combine map rev fst snd]. unfold umember. rewrite <- app_assoc. reflexivity. }
    split; [rewrite Hn; subst st1; cbn [scanned st_nunk]; rewrite zlen_cons; lia|].
    split; [rewrite Hsl; reflexivity|]. split; [rewrite Hb; reflexivity | exact Hc'].
Qed.

Lemma parse_unknowns : forall us prefs d slots unions unk0, length prefs = length us ->
  parse_members E usub md (map (fun up => umember (fst up) (snd up)) (combine us prefs)) (Msg d slots unions unk0) =
  Ok (Msg d slots unions (unk0 ++ us)).
Proof.
  induction us as [|u us IH]; intros prefs d slots unions unk0 Hl.
  - cbn. rewrite app_nil_r. reflexivity.
  - destruct prefs as [|p prefs]; [discriminate Hl|]. cbn [combine map parse_members fst snd].
    unfold parse_member at 1, umember at 1, new_member. cbn [sm_field sm_tag sm_wt sm_data bind].
    rewrite IH by (cbn in Hl; lia). rewrite <- app_assoc. destruct u. reflexivity.
Qed.

End Unknown.

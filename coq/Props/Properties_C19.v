(* C19 -- the validity check accepts only messages that are safe to serialise.
   Statements only; proofs in Proofs/CheckSafe.v, Proofs/CheckReject.v, Proofs/MsgRT4.v.

   check_msg   : protobuf_c_message_check (Impl/Check.v), as repaired by the "fix:" commit df8aeeb.
   size_msg / pack_msg / chunks_msg : get_packed_size, pack, pack_to_buffer.  In the model every
                 pointer the C code dereferences unconditionally is a value that may be null
                 (PNull / None); dereferencing it yields Err ENull.
   defect_msg  : Spec/Defect.v, written from the property text: some field that will be
                 serialised, at any depth, is a null required string / sub-message, a null element
                 of a repeated string / message field, a bytes value with a length but no data
                 (required, present optional, implicit-presence, selected oneof member, repeated
                 element), or a non-zero count with no array. *)
From Coq Require Import ZArith List Bool.
From PBC Require Import Impl.Desc Impl.Mem Impl.Size Impl.Pack Impl.PackBuf Impl.Unpack Impl.Check Impl.Canon
     Spec.Defect Impl.WF Impl.WNorm Impl.Typed Proofs.CheckSafe Proofs.CheckReject Proofs.MsgRT4 Proofs.CheckReqsub Proofs.Examples Proofs.Examples2.
Import ListNotations.
Local Open Scope Z_scope.

(* For every descriptor environment (no hypothesis on it) and every in-memory message, if the
   check accepts, none of the three serialisers dereferences a null pointer, at any depth. *)
Theorem C19_accepted_is_null_safe : forall (E : env) (m : msg),
  check_msg E m = Ok true ->
  size_msg E m <> Err ENull /\ pack_msg E m <> Err ENull /\ chunks_msg E m <> Err ENull.
Proof. exact check_safe. Qed.
Print Assumptions C19_accepted_is_null_safe.

(* Every message with a defect, in whichever kind of field and at whatever depth, is not accepted. *)
Theorem C19_defects_are_rejected : forall (E : env) (m : msg),
  defect_msg E m = true -> check_msg E m <> Ok true.
Proof. exact check_rejects_defects. Qed.
Print Assumptions C19_defects_are_rejected.

(* "the bytes parse back successfully": proved for accepted messages in the parser's normal form
   (they parse back to themselves); for accepted messages outside it the claim is carried by the
   correspondence run only (RT on accepted messages), which is why this one is named _partial.
   The bound 268435425 (max_input) is the size up to which the parser cannot meet its "too many fields" limit. *)
Theorem C19_parse_back_partial : forall (E : env) (m : msg) (b : list Z),
  env_ok E = true -> canon_msg E m = true -> check_msg E m = Ok true ->
  pack_msg E m = Ok b -> Z.of_nat (length b) <= 268435425 ->
  exists m', unpack_top E (m_desc m) b = Ok m'.
Proof.
  intros E m b EO C _ Hp Hl. exists m. unfold unpack_top.
  exact (proj1 (roundtrip_canonical E EO m C (S (length b)) b Hp Hl (Nat.lt_succ_diag_r _))).
Qed.
Print Assumptions C19_parse_back_partial.

(* ... and for EVERY accepted message that is well-formed and well-typed (Impl/Typed.v: what C's types impose, no
   restriction on values): the bytes parse back, to the message's normal form (Proofs/WfCanon.v, Proofs/CheckReqsub.v) *)
Theorem C19_parse_back : forall (E : env) (m : msg) (b : list Z),
  env_ok E = true -> wf_msg E m = true -> typed_msg E m = true -> check_msg E m = Ok true ->
  pack_msg E m = Ok b -> Z.of_nat (length b) <= 268435425 ->
  unpack_top E (m_desc m) b = Ok (wnorm_msg E m).
Proof. exact checked_typed_roundtrip. Qed.
Print Assumptions C19_parse_back.

Theorem C19_nonvacuous :
  check_msg ex_env ex_msg = Ok true /\
  defect_msg ex_env ex_msg_bad = true /\ check_msg ex_env ex_msg_bad = Ok false.
Proof. exact (conj ex_check_ok ex_bad_defect). Qed.
Print Assumptions C19_nonvacuous.

(* An older version of a schema: the same messages with an arbitrary subset of the fields removed (C09).  Oneof
   groups keep their numbering (the struct keeps its unions even if some members are gone); range tables are the
   ones the generator emits for the remaining field numbers. *)
From Coq Require Import ZArith List Bool.
From PBC Require Import Base.CInt Impl.Desc GenModel.Ranges.
Import ListNotations.
Local Open Scope Z_scope.

Definition drop_fields (keep : field -> bool) (md : mdesc) : mdesc :=
  let fs := filter keep (md_fields md) in
  let r := mk_ranges (map f_id fs) in
  {| md_fields := fs; md_ranges := fst r; md_n_ranges := snd r;
     md_n_oneofs := md_n_oneofs md; md_generic_init := md_generic_init md |}.

(* keep d f: does message type number d of the older schema still have field f *)
Definition older (keep : nat -> field -> bool) (E : env) : env :=
  map (fun dm : nat * mdesc => drop_fields (keep (fst dm)) (snd dm)) (combine (seq 0 (length E)) E).

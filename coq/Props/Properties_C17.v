(* C17 -- no hidden shared state; concurrent use on separate messages is safe.
   (a) source audit, regenerated from the compiled object and the AST on every run;
   (b) for every schedule, a thread whose operations read only the shared read-only
   region and its own region, and write only its own region, gets exactly the
   results of running alone.  That the compiled code has that footprint is observed
   (ThreadSanitizer tie), not proved. *)
From Coq Require Import List Arith Bool String.
From PBC Require Import Gen.Globals Proofs.Audits Proofs.Interleave.
Import ListNotations.

Theorem C17_no_mutable_static_state :
  writable_objects = ["protobuf_c__allocator"%string] /\ stores_to_static_state = [] /\
  nonconst_file_scope = ["protobuf_c__allocator"%string].
Proof. exact no_mutable_static_state. Qed.
Print Assumptions C17_no_mutable_static_state.

Theorem C17_every_schedule_is_invisible :
  forall (loc val res : Type) (owner : loc -> option nat) (loc_eqb : loc -> loc -> bool),
  (forall a b, loc_eqb a b = true <-> a = b) ->
  forall sched progs h out t hs os,
  (forall u, Forall (respects loc val res owner u) (progs u)) ->
  (forall l, visible loc owner t l -> h l = hs l) ->
  out t = os ->
  let '(h', out', progs') := exec loc val res loc_eqb progs sched h out in
  let k := Nat.min (count_t t sched) (List.length (progs t)) in
  let '(hs', os') := solo loc val res loc_eqb (firstn k (progs t)) hs os in
  (forall l, visible loc owner t l -> h' l = hs' l) /\ out' t = os' /\ progs' t = skipn k (progs t).
Proof. intros. apply interleaving_invisible; assumption. Qed.
Print Assumptions C17_every_schedule_is_invisible.

(* C13 -- generated descriptors mirror the .proto.
   Statements only; proofs in Proofs/SortLemmas.v, Proofs/GenStruct.v.  GenModel/Gen.v is the model of
   protoc-gen-c (what its emitted C, once compiled, contains), tied to the real generator on every run
   by the generator tie (harness/gen): protoc-gen-c + gcc + a reflective dump vs. the extracted model on
   the same schemas.  Structure size and member offsets are C-compiler facts: the tie checks them on the
   real generated code (sizeof_ok / off_ok of harness/GENFORMAT.md); they are not modelled in Coq. *)
From Coq Require Import ZArith List Bool Permutation.
From PBC Require Import Base.CInt Gen.LeafC Impl.Desc Impl.Canon GenModel.Ranges GenModel.Gen GenModel.ToRuntime
     Proofs.GenStruct Proofs.LookupGen Proofs.GenEnvOk.
Import ListNotations.
Local Open Scope Z_scope.

(* For every schema message: the descriptor's field array is the schema's field list sorted by number --
   nothing lost, nothing invented (a permutation) -- and every entry says about its field exactly what the
   schema says: number, name, label, type, packed/deprecated/oneof flags, referenced message / enum
   descriptor and quantifier kind; the range table is WriteIntRanges' table for those numbers. *)
Theorem C13_message_descriptor_mirrors_schema : forall tg fs f gi m,
  let g := gen_msg tg fs f gi m in
  let sorted := sort_fields (pm_fields m) in
  Permutation sorted (pm_fields m) /\
  Forall2 (mirrors fs f m) sorted (gm_fields g) /\
  (gm_field_ranges g, gm_n_field_ranges g) = mk_ranges (map pf_number sorted).
Proof. exact gen_msg_fields. Qed.
Print Assumptions C13_message_descriptor_mirrors_schema.

(* For every schema enum: the values array holds each declared number exactly once (aliases collapse),
   ascending, and the range table is the table for those numbers. *)
Theorem C13_enum_descriptor_values : forall f e,
  let g := gen_enum f e in
  let nums := map gev_value (ge_values g) in
  incr nums /\ (forall v, In v nums <-> In v (map snd (pe_values e))) /\
  (ge_value_ranges g, ge_n_value_ranges g) = mk_ranges nums.
Proof. exact gen_enum_values. Qed.
Print Assumptions C13_enum_descriptor_values.

(* What the generator emits is what the runtime theorems assume: read through GenModel/ToRuntime.v (names and
   C symbols forgotten, message descriptors numbered by position), the descriptors of EVERY protoc run over
   schemas with protoc's own guarantees (distinct field numbers in [1, 2^29), oneof members optional, defaults
   of the field's type, proto3 without required fields and explicit defaults, referenced message types present;
   no groups; not the two listed findings) satisfy Canon.env_ok -- the hypothesis of the round-trip theorem C01:
   fields strictly ascending, label / quantifier / flag combinations the runtime relies on, well-typed
   defaults, valid sub-descriptor indices, range tables as WriteIntRanges emits them, implicit-presence
   fields starting out zero. *)
Theorem C13_generated_descriptors_satisfy_runtime_assumptions : forall tg fs,
  let syms := map gm_sym (go_msgs (gen_all tg fs)) in
  (forall f, In f fs -> (pfl_syntax f = 2 \/ pfl_syntax f = 3) /\
                        forall m, In m (pfl_messages f) -> msg_hyp fs f syms m) ->
  env_ok (rt_env (gen_all tg fs)) = true.
Proof. exact gen_env_ok. Qed.
Print Assumptions C13_generated_descriptors_satisfy_runtime_assumptions.

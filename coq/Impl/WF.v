(* Well-formed in-memory messages (the domain of C01-C03): the message fits
   its descriptor, pointers that the serialisers dereference are non-null and
   point at enough data, counts are within their arrays.  Boolean, so that the
   generators and the Examples can evaluate it. *)
From Coq Require Import ZArith List Bool.
From PBC Require Import Base.CInt Gen.LeafC Impl.Desc Impl.Mem Impl.Enc.
Import ListNotations.
Local Open Scope Z_scope.

Definition is_scalar (t : ftype) : bool := negb (is_len_type t).

Definition byte_ok (b : Z) : bool := (0 <=? b) && (b <? 256).
Definition char_ok (b : Z) : bool := (0 <? b) && (b <? 256).

(* descriptor-level conditions the runtime relies on *)
Definition field_ok (nunions : nat) (f : field) : bool :=
  (0 <? f_id f) && (f_id f <? 4294967296) &&
  match f_label f, f_quant f with
  | LRepeated, QCount => negb (f_oneof f)
  | LRepeated, _ => false
  | LRequired, QNone => negb (f_oneof f)
  | LRequired, _ => false
  | (LOptional | LNone), QCase g => f_oneof f && Nat.ltb g nunions
  | LOptional, QHas => negb (f_oneof f) && negb (ftype_eqb (f_type f) TString) && negb (ftype_eqb (f_type f) TMessage)
  | LOptional, QNone => negb (f_oneof f) && (ftype_eqb (f_type f) TString || ftype_eqb (f_type f) TMessage)
  | LNone, QNone => negb (f_oneof f)
  | _, _ => false
  end &&
  (if f_packed f then label_eqb (f_label f) LRepeated && is_scalar (f_type f) else true) &&
  match f_default f, f_type f with
  | None, _ => true
  | Some (DStr s), TString => forallb char_ok s
  | Some (DBytes s), TBytes => forallb byte_ok s
  | Some (DWord _), (TString | TBytes | TMessage) => false
  | Some (DWord _), _ => true
  | Some _, _ => false
  end.

Section WF.
Variable E : env.

(* a cell holding a value of field f; in_array: element of a repeated field *)
Definition wf_cell (rec : msg -> bool) (f : field) (in_array : bool) (v : sval) : bool :=
  match f_type f with
  | TString =>
      match v with
      | VStr (PHeap s) => forallb char_ok s
      | VStr PDef => negb in_array && match f_default f with Some (DStr _) => true | _ => false end
      | VStr PNull => negb in_array
      | VWord 0 => negb in_array
      | _ => false
      end
  | TBytes =>
      match v with
      | VBytes len (PHeap s) => (0 <=? len) && (len <=? zlen s) && forallb byte_ok s
      | VBytes len PDef =>
          negb in_array && (0 <=? len) &&
          match f_default f with Some (DBytes s) => len <=? zlen s | _ => false end
      | VBytes len PNull => len =? 0
      | VWord 0 => true
      | _ => false
      end
  | TMessage =>
      match v with
      | VMsg (Some m) => rec m
      | VMsg None | VWord 0 => negb in_array
      | _ => false
      end
  | _ => match v with VWord _ => true | _ => false end
  end.

Definition wf_slot (rec : msg -> bool) (unions : list (Z * sval)) (f : field) (s : slot) : bool :=
  match f_label f, s with
  | LRepeated, SRep n _ arr =>
      (0 <=? n) && (n <? 268435456) &&
      match arr with
      | None => n =? 0
      | Some l => (n <=? zlen l) && forallb (wf_cell rec f true) l
      end
  | (LOptional | LNone), SUnion g =>
      f_oneof f &&
      with_nth (fun cv : Z * sval => if fst cv =? f_id f then wf_cell rec f false (snd cv) else true)
               false unions g
  | (LRequired | LOptional | LNone), SOne _ v => negb (f_oneof f) && wf_cell rec f false v
  | _, _ => false
  end.

Definition wf_slots (rec : msg -> bool) (unions : list (Z * sval)) : list field -> list slot -> bool :=
  fix go (fs : list field) (ss : list slot) {struct ss} : bool :=
    match fs, ss with
    | [], [] => true
    | f :: fs', s :: ss' => wf_slot rec unions f s && go fs' ss'
    | _, _ => false
    end.

Definition wf_unk (u : ufield) : bool :=
  (0 <? u_tag u) && (u_tag u <? 4294967296) && (0 <=? u_wt u) && (u_wt u <? 8) && forallb byte_ok (u_data u).

Fixpoint wf_msg (m : msg) : bool :=
  match m with
  | Msg d slots unions unk =>
      match nth_error E d with
      | None => false
      | Some md =>
          forallb (field_ok (md_n_oneofs md)) (md_fields md) &&
          Nat.eqb (length unions) (md_n_oneofs md) &&
          wf_slots wf_msg unions (md_fields md) slots &&
          forallb wf_unk unk
      end
  end.

End WF.

(* Refinement of the specification-level parser, part 3: one member.
   [cell_of] / [parse_required], and the step  [spec_record] / [parse_member]  under the relation [rel] between the
   specification's message state and the implementation's: equal except that the implementation's arrays already have
   their final capacity (what the scan counted), of which [total md i rest] is still to come. *)
From Coq Require Import ZArith List Bool Lia ZifyBool.
From PBC Require Import Base.CInt Base.Bits Gen.LeafC Spec.Wire Spec.WireMsg Spec.WireRaw
     Impl.Desc Impl.Mem Impl.Enc Impl.WF Impl.Unpack Impl.Canon Impl.SpecParse
     Proofs.SpecRefine1 Proofs.SpecRefine2.
From PBC Require Proofs.LeafSafe Proofs.ScanRec Proofs.ScanCount Proofs.MsgRT4 Proofs.MergeSafe Proofs.TagRange Proofs.PackedCount.
Import ListNotations.
Local Open Scope Z_scope.

Ltac Zify.zify_post_hook ::= Z.div_mod_to_equations.

Local Notation bytes := LeafSafe.bytes.
Local Notation total := ScanCount.total.
Local Notation mcnt := ScanCount.mcnt.

(* ---- lists *)
Lemma nth_error_set_nth : forall A (l : list A) i x j y, nth_error (set_nth l i x) j = Some y ->
  (j = i /\ y = x) \/ (j <> i /\ nth_error l j = Some y).
Proof.
  induction l as [|a l IH]; intros i x j y H.
  - destruct i; cbn [set_nth] in H; destruct j; discriminate H.
  - destruct i as [|i]; destruct j as [|j]; cbn [set_nth nth_error] in H |- *.
    + inversion H. left. split; reflexivity.
    + right. split; [lia | exact H].
    + right. split; [lia | exact H].
    + destruct (IH i x j y H) as [[-> ->]|[Hne Hn]]; [left; split; reflexivity | right; split; [lia | exact Hn]].
Qed.

Lemma set_nth_other : forall A (l : list A) i j x, i <> j -> nth_error (set_nth l i x) j = nth_error l j.
Proof. induction l as [|y l IH]; intros [|i] [|j] x H; cbn [set_nth nth_error]; try reflexivity; try lia. apply IH. lia. Qed.
Lemma set_nth_len : forall A (l : list A) i x, length (set_nth l i x) = length l.
Proof. induction l as [|y l IH]; intros [|i] x; cbn [set_nth length]; try reflexivity. rewrite IH. reflexivity. Qed.
Lemma set_nth_at : forall A (l : list A) i x, (i < length l)%nat -> nth_error (set_nth l i x) i = Some x.
Proof. induction l as [|y l IH]; intros [|i] x H; cbn [set_nth nth_error length] in *; try lia; [reflexivity | apply IH; lia]. Qed.

(* ---- the specification's array states *)
Definition spec_of (l : list sval) : slot :=
  match l with [] => SRep 0 0 None | _ :: _ => SRep (Mem.zlen l) (Mem.zlen l) (Some l) end.

Lemma spec_append_of : forall l vs, spec_append (spec_of l) vs = Some (spec_of (l ++ vs)).
Proof.
  intros [|x l] [|v vs]; cbn [spec_of spec_append app].
  - reflexivity.
  - reflexivity.
  - rewrite app_nil_r. reflexivity.
  - change (x :: l ++ v :: vs) with ((x :: l) ++ v :: vs). rewrite zlen_app. reflexivity.
Qed.

Lemma is_packable_packable : forall t, is_packable t = packable t.
Proof. intros t. destruct t; reflexivity. Qed.

Lemma wt_of_len : forall p, (wt_of p =? WT_LEN) = match p with PLen _ => true | _ => false end.
Proof. intros [v|v|a|v]; reflexivity. Qed.

Definition cell_kind (f : field) (v : sval) : Prop := f_type f = TMessage -> exists o, v = VMsg o.

Lemma as_msg_old : forall v, (exists o, v = VMsg o) -> as_msg v = Ok (old_msg v).
Proof. intros v (o & ->). destruct o; reflexivity. Qed.

Ltac sm_simpl :=
  repeat match goal with
         | |- context [sm_wt (sm_of ?md ?r)] => change (sm_wt (sm_of md r)) with (wt_of (rr_pay r))
         | |- context [sm_tag (sm_of ?md ?r)] => change (sm_tag (sm_of md r)) with (rr_num r)
         | |- context [sm_len (sm_of ?md ?r)] => change (sm_len (sm_of md r)) with (Mem.zlen (rr_raw r))
         | |- context [sm_pref (sm_of ?md ?r)] => change (sm_pref (sm_of md r)) with (pref_of r)
         | |- context [sm_data (sm_of ?md ?r)] => change (sm_data (sm_of md r)) with (rr_raw r)
         | |- context [sm_field (sm_of ?md ?r)] => change (sm_field (sm_of md r)) with (find_field md (rr_num r))
         end.

Section Member.
Variable E : env.
Hypothesis EO : env_ok E = true.
Variable sub : nat -> list Z -> option msg.
Variable usub : nat -> list Z -> res msg.
Variable N : Z.
Hypothesis HN : N <= 2147483648.
Hypothesis Hsub : forall d' p m, bytes p -> Mem.zlen p < N -> sub d' p = Some m -> usub d' p = Ok m.
Variable d : nat.
Variable md : mdesc.
Hypothesis Hmd : nth_error E d = Some md.
Notation fs := (md_fields md).
Notation D := (Dmd E EO d md Hmd).

Lemma cell_of_kind : forall f p old v, cell_of E sub f p old = Some v -> cell_kind f v.
Proof.
  intros f p old v H Ht. unfold cell_of in H. rewrite Ht in H.
  destruct p as [x|x|bs|x]; try discriminate H.
  destruct (sub (f_sub f) bs) as [m|]; cbn [obind] in H; [|discriminate H].
  destruct old as [om|].
  - destruct (merge_messages E om m) as [mm|e] eqn:Em; [|discriminate H]. inversion H. eauto.
  - inversion H. eauto.
Qed.

(* ---- one cell *)
Lemma cell_refine : forall f r old oldcell (mc : bool) v, rec_wf r -> Mem.zlen (rr_raw r) < N ->
  cell_of E sub f (rr_pay r) old = Some v ->
  (f_type f = TMessage -> if mc then as_msg oldcell = Ok old else old = None) ->
  parse_required E usub f (sm_of md r) oldcell mc = Ok v.
Proof.
  intros f r old oldcell mc v Hwf HlN H Hold.
  unfold parse_required. sm_simpl.
  unfold cell_of in H.
  assert (Hsc : forall t, (match scalar_of t (rr_pay r) with Some w => Some (VWord w) | None => None end) = Some v ->
                 bind (dec_scalar t (wt_of (rr_pay r)) (Mem.zlen (rr_raw r)) (rr_raw r)) (fun w => Ok (VWord w)) = Ok v).
  { intros t Hs. destruct (scalar_of t (rr_pay r)) as [w|] eqn:Es; [|discriminate Hs]. inversion Hs; subst v.
    rewrite (scalar_refine t r w Hwf Es). reflexivity. }
  destruct (f_type f) eqn:Et; try (exact (Hsc _ H)).
  - (* string *)
    destruct (rr_pay r) as [x|x|a|x] eqn:Ep; try discriminate H. inversion H; subst v.
    destruct (rec_wf_payload r a Hwf Ep) as (Esk & _ & _). rewrite Esk.
    change (wt_of (PLen a) =? WT_LEN) with true. reflexivity.
  - (* bytes *)
    destruct (rr_pay r) as [x|x|a|x] eqn:Ep; try discriminate H.
    destruct (rec_wf_payload r a Hwf Ep) as (Esk & Epl & _). rewrite Esk.
    change (wt_of (PLen a) =? WT_LEN) with true. cbn [negb].
    destruct a as [|b a].
    + inversion H; subst v. change (Mem.zlen (@nil Z)) with 0 in Epl.
      destruct (Z.gtb_spec (Mem.zlen (rr_raw r)) (pref_of r)) as [Hgt|_]; [lia | reflexivity].
    + inversion H; subst v.
      destruct (Z.gtb_spec (Mem.zlen (rr_raw r)) (pref_of r)) as [_|Hle].
      * rewrite Epl. reflexivity.
      * assert (0 < Mem.zlen (b :: a)) by (unfold Mem.zlen; cbn [length]; lia). lia.
  - (* message *)
    destruct (rr_pay r) as [x|x|a|x] eqn:Ep; try discriminate H.
    destruct (rec_wf_payload r a Hwf Ep) as (Esk & Epl & HBa). rewrite Esk.
    change (wt_of (PLen a) =? WT_LEN) with true. cbn [negb].
    destruct (sub (f_sub f) a) as [m|] eqn:Esub; cbn [obind] in H; [|discriminate H].
    assert (Hal : Mem.zlen a < N) by (pose proof (rec_wf_pref r Hwf); lia).
    rewrite (Hsub (f_sub f) a m HBa Hal Esub). cbn [bind].
    specialize (Hold eq_refl). destruct mc.
    + rewrite Hold. cbn [bind]. destruct old as [om|].
      * destruct (merge_messages E om m) as [mm|e] eqn:Em; [|discriminate H]. cbn [bind]. inversion H. reflexivity.
      * inversion H. reflexivity.
    + subst old. inversion H. reflexivity.
Qed.

(* ---- the relation between the two message states *)
Definition rep_rel (c : Z) (l : list sval) (sA : slot) : Prop :=
  (exists cap, sA = SRep (Mem.zlen l) cap (Some l) /\ cap = Mem.zlen l + c /\ 0 < cap) \/
  (l = [] /\ c = 0 /\ sA = SRep 0 0 None).

Definition slot_rel (c : Z) (f : field) (s sA : slot) : Prop :=
  if label_eqb (f_label f) LRepeated then exists l, s = spec_of l /\ rep_rel c l sA
  else sA = s /\
       match s with
       | SOne h v => f_oneof f = false /\ cell_kind f v
       | SUnion g => f_oneof f = true
       | SRep _ _ _ => False
       end.

Definition union_ok (cv : Z * sval) : Prop :=
  (fst cv = 0 /\ snd cv = VWord 0) \/
  (0 < fst cv < 536870912 /\
   exists i f, find_field md (fst cv) = Some i /\ nth_error fs i = Some f /\ cell_kind f (snd cv)).

Definition rel (rest : list smember) (m mA : msg) : Prop :=
  match m, mA with
  | Msg d1 slots unions unk, Msg d2 slotsA unionsA unkA =>
      d2 = d1 /\ unionsA = unions /\ unkA = unk /\
      length slots = length fs /\ length slotsA = length fs /\
      (forall i f, nth_error fs i = Some f ->
         exists s sA, nth_error slots i = Some s /\ nth_error slotsA i = Some sA /\ slot_rel (total md i rest) f s sA) /\
      (forall g cv, nth_error unions g = Some cv -> union_ok cv)
  end.

Lemma total_cons_other : forall sm rest i j, sm_field sm = Some i -> j <> i -> total md j (sm :: rest) = total md j rest.
Proof.
  intros sm rest i j Hf Hne. cbn [ScanCount.total]. rewrite Hf.
  destruct (Nat.eqb_spec j i); [contradiction | lia].
Qed.

Lemma total_cons_same : forall sm rest i, sm_field sm = Some i -> total md i (sm :: rest) = mcnt md sm + total md i rest.
Proof. intros sm rest i Hf. cbn [ScanCount.total]. rewrite Hf, Nat.eqb_refl. reflexivity. Qed.

Lemma total_cons_zero : forall sm rest j, mcnt md sm = 0 -> total md j (sm :: rest) = total md j rest.
Proof.
  intros sm rest j Hz. cbn [ScanCount.total]. rewrite Hz. destruct (sm_field sm) as [i|]; [destruct (Nat.eqb j i)|]; lia.
Qed.

(* slot i is replaced on both sides, nothing else changes *)
Lemma rel_set_slot : forall sm rest d1 slots unions unk slotsA i f s' sA',
  rel (sm :: rest) (Msg d1 slots unions unk) (Msg d1 slotsA unions unk) ->
  sm_field sm = Some i -> nth_error fs i = Some f ->
  slot_rel (total md i rest) f s' sA' ->
  rel rest (Msg d1 (set_nth slots i s') unions unk) (Msg d1 (set_nth slotsA i sA') unions unk).
Proof.
  intros sm rest d1 slots unions unk slotsA i f s' sA' (_ & _ & _ & L1 & L2 & HS & HU) Hf Hn Hs.
  assert (Hi : (i < length fs)%nat) by (apply nth_error_Some; congruence).
  unfold rel. split; [reflexivity|]. split; [reflexivity|]. split; [reflexivity|].
  split; [rewrite set_nth_len; exact L1|]. split; [rewrite set_nth_len; exact L2|]. split; [|exact HU].
  intros j g Hj. destruct (Nat.eq_dec j i) as [->|Hne].
  - rewrite Hn in Hj. inversion Hj; subst g. exists s', sA'.
    split; [apply set_nth_at; lia|]. split; [apply set_nth_at; lia | exact Hs].
  - destruct (HS j g Hj) as (s & sA & H1 & H2 & H3). exists s, sA.
    rewrite !set_nth_other by congruence. split; [exact H1|]. split; [exact H2|].
    rewrite <- (total_cons_other sm rest i j Hf Hne). exact H3.
Qed.

(* appending the elements of one record *)
Lemma append_step : forall c l vs sA, 0 <= c -> rep_rel (Mem.zlen vs + c) l sA ->
  exists sA', append_elems sA vs = Ok sA' /\ rep_rel c (l ++ vs) sA'.
Proof.
  intros c l vs sA Hc [(cap & -> & Hcap & Hpos)|(-> & Hz & ->)].
  - pose proof (zlen_nonneg _ vs) as Hv0. cbn [append_elems].
    destruct (Z.leb_spec (Mem.zlen l + Mem.zlen vs) cap) as [_|Hgt]; [|lia].
    eexists. split; [reflexivity|]. left. exists cap. rewrite zlen_app. split; [reflexivity|]. split; lia.
  - pose proof (zlen_nonneg _ vs) as Hv0. assert (Hv : Mem.zlen vs = 0) by lia.
    assert (vs = []) by (destruct vs; [reflexivity | unfold Mem.zlen in Hv; cbn [length] in Hv; lia]). subst vs.
    cbn [append_elems]. change (Mem.zlen (@nil sval) =? 0) with true. cbv iota.
    eexists. split; [reflexivity|]. right. split; [reflexivity|]. split; [lia | reflexivity].
Qed.

(* ---- facts about a known field *)
Lemma field_facts : forall i f, nth_error fs i = Some f ->
  field_ok (md_n_oneofs md) f = true /\ 0 < f_id f < 536870912.
Proof.
  intros i f Hn. destruct (MsgRT4.desc_ok_fields _ _ D f (nth_error_In _ _ Hn)) as (H1 & H2 & _). split; assumption.
Qed.

(* which way a record for a repeated field is read *)
Lemma packed_sel : forall f p, field_ok (md_n_oneofs md) f = true ->
  packed_arrival f (wt_of p) =
  match (if packable (f_type f) then match p with PLen bs => Some bs | _ => None end else None) with
  | Some _ => true
  | None => false
  end.
Proof.
  intros f p Hok. unfold packed_arrival. rewrite wt_of_len, is_packable_packable.
  assert (Hpk : f_packed f = true -> packable (f_type f) = true).
  { intros Hp. unfold field_ok in Hok. rewrite Hp in Hok. rewrite !andb_true_iff in Hok.
    destruct Hok as [[_ [_ Hsc]] _]. exact Hsc. }
  destruct (packable (f_type f)) eqn:Ep.
  - rewrite orb_true_r, andb_true_r. destruct p; reflexivity.
  - destruct (f_packed f); [specialize (Hpk eq_refl); discriminate Hpk|]. cbn [orb]. rewrite andb_false_r. reflexivity.
Qed.

Lemma mcnt_sm_of : forall r i f, find_field md (rr_num r) = Some i -> nth_error fs i = Some f ->
  mcnt md (sm_of md r) =
  if label_eqb (f_label f) LRepeated then
    if packed_arrival f (wt_of (rr_pay r))
    then snd (count_packed_elements (type_code (f_type f)) (Mem.zlen (rr_raw r) - pref_of r)
                (skipn (Z.to_nat (pref_of r)) (rr_raw r)) 0)
    else 1
  else 0.
Proof. intros r i f Ef Hn. unfold ScanCount.mcnt. sm_simpl. rewrite Ef, Hn. reflexivity. Qed.

(* ---- one member *)
Lemma member_step : forall r rest m mA m',
  rec_wf r -> Mem.zlen (rr_raw r) < N -> (forall i, 0 <= total md i rest) ->
  spec_record E sub md r m = Some m' -> rel (sm_of md r :: rest) m mA ->
  exists mA', parse_member E usub md (sm_of md r) mA = Ok mA' /\ rel rest m' mA'.
Proof.
  intros r rest [d1 slots unions unk] [d2 slotsA unionsA unkA] m' Hwf HlN Hnn H HR.
  pose proof HR as (-> & -> & -> & L1 & L2 & HS & HU).
  pose proof Hwf as (Hnum & HBr & Hp).
  unfold spec_record in H. rewrite (field_index_find E md D (rr_num r) ltac:(lia)) in H.
  unfold parse_member. sm_simpl.
  destruct (find_field md (rr_num r)) as [i|] eqn:Ef.
  2:{ (* a record with an unknown number *)
      inversion H; subst m'. eexists. split; [reflexivity|].
      unfold rel. split; [reflexivity|]. split; [reflexivity|]. split; [reflexivity|].
      split; [exact L1|]. split; [exact L2|]. split; [|exact HU].
      intros j g Hj. destruct (HS j g Hj) as (s & sA & H1 & H2 & H3). exists s, sA.
      split; [exact H1|]. split; [exact H2|].
      rewrite <- (total_cons_zero (sm_of md r) rest j); [exact H3|].
      unfold ScanCount.mcnt. sm_simpl. rewrite Ef. reflexivity. }
  destruct (find_field_nth E md D (rr_num r) i ltac:(lia) Ef) as (f & Hn & Hid).
  rewrite Hn in H |- *.
  destruct (HS i f Hn) as (s & sA & Hs & HsA & Hrel). rewrite Hs in H. rewrite HsA.
  assert (Hsmf : sm_field (sm_of md r) = Some i) by exact Ef.
  destruct (field_facts i f Hn) as (Hfok & Hidr).
  pose proof (mcnt_sm_of r i f Ef Hn) as Hmc.
  unfold slot_rel in Hrel.
  (* the two singular, non-required kinds are read alike *)
  assert (Hsing : label_eqb (f_label f) LRepeated = false -> mcnt md (sm_of md r) = 0 ->
            sA = s /\ match s with
                      | SOne h v => f_oneof f = false /\ cell_kind f v
                      | SUnion g => f_oneof f = true
                      | SRep _ _ _ => False
                      end ->
            match s with
            | SOne h old =>
                obind (cell_of E sub f (rr_pay r) (old_msg old)) (fun v =>
                let h' := match f_quant f with QNone => h | _ => 1 end in
                Some (Msg d1 (set_nth slots i (SOne h' v)) unions unk))
            | SUnion g =>
                match nth_error unions g with
                | Some (case, cell) =>
                    let old := if case =? rr_num r then old_msg cell else None in
                    obind (cell_of E sub f (rr_pay r) old) (fun v =>
                    Some (Msg d1 slots (set_nth unions g (rr_num r, v)) unk))
                | None => None
                end
            | _ => None
            end = Some m' ->
            exists mA',
              (if f_oneof f then
                 match sA with
                 | SUnion g =>
                     match nth_error unions g with
                     | None => Err EDesc
                     | Some (case, cell) =>
                         do cell0 <-
                           (if negb (case =? 0) &&
                               negb ((case =? rr_num r) && ftype_eqb (f_type f) TMessage)
                            then match find_field md case with
                                 | None => Err EFail
                                 | Some _ => Ok (VWord 0)
                                 end
                            else Ok cell);
                         do v <- parse_required E usub f (sm_of md r) cell0 true;
                         Ok (Msg d1 slotsA (set_nth unions g (rr_num r, v)) unk)
                     end
                 | _ => Err EDesc
                 end
               else
                 match sA with
                 | SOne h old =>
                     do v <- parse_required E usub f (sm_of md r) old true;
                     let h' := match f_quant f with QNone => h | _ => 1 end in
                     Ok (Msg d1 (set_nth slotsA i (SOne h' v)) unions unk)
                 | _ => Err EDesc
                 end) = Ok mA' /\ rel rest m' mA').
  { intros Elab Hmc0 (-> & Hk) H0.
    destruct s as [h old|n c a|g]; [|contradiction|].
    - destruct Hk as (Ho & Hck). rewrite Ho.
      destruct (cell_of E sub f (rr_pay r) (old_msg old)) as [v|] eqn:Ec; cbn [obind] in H0; [|discriminate H0].
      cbv zeta in H0. inversion H0; subst m'.
      rewrite (cell_refine f r (old_msg old) old true v Hwf HlN Ec (fun Ht => as_msg_old old (Hck Ht))). cbn [bind]. cbv zeta.
      eexists. split; [reflexivity|].
      apply (rel_set_slot (sm_of md r) rest d1 slots unions unk slotsA i f _ _ HR Hsmf Hn).
      unfold slot_rel. rewrite Elab. split; [reflexivity|]. split; [exact Ho | exact (cell_of_kind _ _ _ _ Ec)].
    - rewrite Hk.
      destruct (nth_error unions g) as [[case cell]|] eqn:Eu; [|discriminate H0].
      cbv zeta in H0.
      destruct (cell_of E sub f (rr_pay r) (if case =? rr_num r then old_msg cell else None)) as [v|] eqn:Ec;
        cbn [obind] in H0; [|discriminate H0].
      inversion H0; subst m'.
      pose proof (HU g (case, cell) Eu) as Huk.
      assert (Hc0 : exists cell0,
                (if negb (case =? 0) && negb ((case =? rr_num r) && ftype_eqb (f_type f) TMessage)
                 then match find_field md case with None => Err EFail | Some _ => Ok (VWord 0) end
                 else Ok cell) = Ok cell0 /\
                (f_type f = TMessage -> as_msg cell0 = Ok (if case =? rr_num r then old_msg cell else None))).
      { destruct (negb (case =? 0) && negb ((case =? rr_num r) && ftype_eqb (f_type f) TMessage)) eqn:Econd.
        - apply andb_true_iff in Econd. destruct Econd as [Ec1 Ec2].
          destruct Huk as [(Hz & _)|(Hr & i' & f' & Ef' & _)]; cbn [fst snd] in *.
          + subst case. discriminate Ec1.
          + rewrite Ef'. exists (VWord 0). split; [reflexivity|]. intros Ht. rewrite Ht in Ec2.
            destruct (case =? rr_num r); [discriminate Ec2 | reflexivity].
        - exists cell. split; [reflexivity|]. intros Ht.
          apply andb_false_iff in Econd. destruct Econd as [Ec1|Ec2].
          + apply negb_false_iff in Ec1. apply Z.eqb_eq in Ec1. subst case.
            destruct Huk as [(_ & Hc)|(Hr & _)]; cbn [fst snd] in *; [|lia].
            subst cell. destruct (Z.eqb_spec 0 (rr_num r)); [lia | reflexivity].
          + apply negb_false_iff in Ec2. apply andb_true_iff in Ec2. destruct Ec2 as [Ec2 _].
            rewrite Ec2. apply Z.eqb_eq in Ec2. subst case.
            destruct Huk as [(Hz & _)|(Hr & i' & f' & Ef' & Hn' & Hck')]; cbn [fst snd] in *; [lia|].
            rewrite Ef in Ef'. inversion Ef'; subst i'. rewrite Hn in Hn'. inversion Hn'; subst f'.
            apply as_msg_old. exact (Hck' Ht). }
      destruct Hc0 as (cell0 & Ec0 & Hold0). rewrite Ec0. cbn [bind].
      rewrite (cell_refine f r _ cell0 true v Hwf HlN Ec Hold0). cbn [bind].
      eexists. split; [reflexivity|].
      unfold rel. split; [reflexivity|]. split; [reflexivity|]. split; [reflexivity|].
      split; [exact L1|]. split; [exact L2|]. split.
      + intros j g0 Hj. destruct (HS j g0 Hj) as (s1 & sA1 & H1 & H2 & H3). exists s1, sA1.
        split; [exact H1|]. split; [exact H2|]. rewrite <- (total_cons_zero (sm_of md r) rest j Hmc0). exact H3.
      + intros g' cv Hg'.
        destruct (nth_error_set_nth _ unions g (rr_num r, v) g' cv Hg') as [[_ ->]|[_ Hold]]; [|exact (HU g' cv Hold)].
        right. cbn [fst snd]. split; [lia|]. exists i, f. split; [exact Ef|]. split; [exact Hn | exact (cell_of_kind _ _ _ _ Ec)]. }
  destruct (f_label f) eqn:El; cbn [label_eqb] in Hrel, Hmc, Hsing.
  - (* required *)
    destruct Hrel as (-> & Hk). destruct s as [h old|n c a|g]; [|contradiction|discriminate H].
    destruct Hk as (Ho & Hck).
    destruct (cell_of E sub f (rr_pay r) (old_msg old)) as [v|] eqn:Ec; cbn [obind] in H; [|discriminate H].
    inversion H; subst m'.
    rewrite (cell_refine f r (old_msg old) old true v Hwf HlN Ec (fun Ht => as_msg_old old (Hck Ht))). cbn [bind].
    eexists. split; [reflexivity|].
    apply (rel_set_slot (sm_of md r) rest d1 slots unions unk slotsA i f _ _ HR Hsmf Hn).
    unfold slot_rel. rewrite El. cbn [label_eqb]. split; [reflexivity|]. split; [exact Ho | exact (cell_of_kind _ _ _ _ Ec)].
  - (* optional *) exact (Hsing eq_refl Hmc Hrel H).
  - (* repeated *)
    destruct Hrel as (l & -> & Hrep).
    pose proof (packed_sel f (rr_pay r) Hfok) as Hsel.
    destruct (if packable (f_type f) then match rr_pay r with PLen bs => Some bs | _ => None end else None)
      as [bs|] eqn:Esel; cbv iota in Hsel; rewrite Hsel in Hmc |- *.
    + assert (Epay : rr_pay r = PLen bs).
      { destruct (packable (f_type f)); [|discriminate Esel]. destruct (rr_pay r); try discriminate Esel.
        inversion Esel; reflexivity. }
      destruct (packed_elems (f_type f) bs) as [vs|] eqn:Evs; cbn [obind] in H; [|discriminate H].
      rewrite spec_append_of in H. cbn [obind] in H. inversion H; subst m'.
      destruct (rec_wf_payload r bs Hwf Epay) as (Esk & Epl & HBa).
      assert (Hbl : Mem.zlen bs < 4294967296) by (pose proof (rec_wf_pref r Hwf); lia).
      rewrite (packed_refine f (sm_of md r) bs vs Evs HBa Hbl Esk Epl). cbn [bind].
      destruct (packed_count (f_type f) bs vs Evs HBa Hbl) as (okc & Ecnt & _).
      assert (Hmc' : mcnt md (sm_of md r) = Mem.zlen vs) by (rewrite Hmc, Esk, Epl, Ecnt; reflexivity).
      rewrite (total_cons_same _ rest i Hsmf), Hmc' in Hrep.
      destruct (append_step (total md i rest) l vs sA (Hnn i) Hrep) as (sA' & Eapp & Hrep').
      rewrite Eapp. cbn [bind]. eexists. split; [reflexivity|].
      apply (rel_set_slot (sm_of md r) rest d1 slots unions unk slotsA i f _ _ HR Hsmf Hn).
      unfold slot_rel. rewrite El. cbn [label_eqb]. exists (l ++ vs). split; [reflexivity | exact Hrep'].
    + destruct (cell_of E sub f (rr_pay r) None) as [v|] eqn:Ec; cbn [obind] in H; [|discriminate H].
      rewrite spec_append_of in H. cbn [obind] in H. inversion H; subst m'.
      rewrite (cell_refine f r None (VWord 0) false v Hwf HlN Ec (fun _ => eq_refl)). cbn [bind].
      rewrite (total_cons_same _ rest i Hsmf), Hmc in Hrep.
      change 1 with (Mem.zlen [v]) in Hrep.
      destruct (append_step (total md i rest) l [v] sA (Hnn i) Hrep) as (sA' & Eapp & Hrep').
      rewrite Eapp. cbn [bind]. eexists. split; [reflexivity|].
      apply (rel_set_slot (sm_of md r) rest d1 slots unions unk slotsA i f _ _ HR Hsmf Hn).
      unfold slot_rel. rewrite El. cbn [label_eqb]. exists (l ++ [v]). split; [reflexivity | exact Hrep'].
  - (* implicit presence *) exact (Hsing eq_refl Hmc Hrel H).
Qed.

(* ---- all members, in arrival order *)
Lemma data_total_nonneg : forall ms, 0 <= ScanCount.data_total ms.
Proof. induction ms as [|x t IH]; cbn [ScanCount.data_total]; [lia|]. pose proof (zlen_nonneg _ (sm_data x)). lia. Qed.

Lemma members_refine : forall rs m mA m',
  Forall rec_wf rs -> (forall r, In r rs -> Mem.zlen (rr_raw r) < N) ->
  Forall (ScanCount.member_ok md) (map (sm_of md) rs) -> ScanCount.data_total (map (sm_of md) rs) < 4294967296 ->
  spec_records E sub md rs m = Some m' -> rel (map (sm_of md) rs) m mA ->
  exists mA', parse_members E usub md (map (sm_of md) rs) mA = Ok mA' /\ rel [] m' mA'.
Proof.
  induction rs as [|r t IH]; intros m mA m' HW HL HM HD H HR.
  - cbn [spec_records] in H. inversion H; subst m'. exists mA. split; [reflexivity | exact HR].
  - cbn [spec_records] in H. cbn [map] in HM, HD, HR |- *.
    inversion HW as [|? ? Hwf HW']; subst. inversion HM as [|? ? Hm HM']; subst.
    cbn [ScanCount.data_total] in HD. pose proof (zlen_nonneg _ (sm_data (sm_of md r))) as Hz0.
    pose proof (data_total_nonneg (map (sm_of md) t)) as Hd0.
    destruct (spec_record E sub md r m) as [m1|] eqn:E1; cbn [obind] in H; [|discriminate H].
    assert (Hnn : forall i, 0 <= total md i (map (sm_of md) t)).
    { intros i. pose proof (ScanCount.total_bound E md TagRange.parse_tag_range_bytes PackedCount.count_packed_elements_le_len
                              (map (sm_of md) t) i HM' ltac:(lia)). lia. }
    destruct (member_step r (map (sm_of md) t) m mA m1 Hwf (HL r (or_introl eq_refl)) Hnn E1 HR) as (mA1 & Ep & HR1).
    destruct (IH m1 mA1 m' HW' (fun r0 Hr0 => HL r0 (or_intror Hr0)) HM' ltac:(lia) H HR1) as (mA' & Eps & HR').
    exists mA'. split; [|exact HR']. cbn [parse_members]. rewrite Ep. cbn [bind]. exact Eps.
Qed.

Lemma list_eq_nth : forall A (l l' : list A), length l = length l' ->
  (forall i x y, nth_error l i = Some x -> nth_error l' i = Some y -> x = y) -> l = l'.
Proof.
  induction l as [|a l IH]; intros [|b l'] Hl H; cbn [length] in Hl; try discriminate Hl; [reflexivity|].
  f_equal; [exact (H 0%nat a b eq_refl eq_refl)|]. apply IH; [lia|].
  intros i x y Hx Hy. exact (H (S i) x y Hx Hy).
Qed.

(* when every member has been parsed the two states are the same *)
Lemma rel_nil_eq : forall m mA, rel [] m mA -> mA = m.
Proof.
  intros [d1 slots unions unk] [d2 slotsA unionsA unkA] (-> & -> & -> & L1 & L2 & HS & _).
  f_equal. apply list_eq_nth; [congruence|].
  intros i x y Hx Hy.
  assert (Hi : (i < length fs)%nat) by (rewrite <- L2; apply nth_error_Some; congruence).
  destruct (nth_error fs i) as [f|] eqn:Hn; [|apply nth_error_None in Hn; lia].
  destruct (HS i f Hn) as (s & sA & Hs & HsA & Hr).
  rewrite Hx in HsA. inversion HsA; subst sA. rewrite Hy in Hs. inversion Hs; subst s. clear Hs HsA.
  unfold slot_rel in Hr. cbn [ScanCount.total] in Hr.
  destruct (label_eqb (f_label f) LRepeated); [|exact (proj1 Hr)].
  destruct Hr as (l & -> & [(cap & -> & Hcap & Hpos)|(-> & _ & ->)]); [|reflexivity].
  destruct l as [|v l]; [change (Mem.zlen (@nil sval)) with 0 in Hcap; lia|].
  cbn [spec_of]. f_equal. lia.
Qed.

(* ---- the packed records met by a successful reading have well-formed payloads *)
Lemma spec_record_good : forall r m m', rec_wf r -> spec_record E sub md r m = Some m' -> rec_good md r.
Proof.
  intros r [d1 slots unions unk] m' Hwf H i f bs Ef Hn Er Hpa Epay.
  pose proof Hwf as (Hnum & _ & _).
  unfold spec_record in H. rewrite (field_index_find E md D (rr_num r) ltac:(lia)), Ef, Hn in H.
  destruct (nth_error slots i) as [s|]; [|discriminate H].
  destruct (field_facts i f Hn) as (Hfok & _).
  destruct (f_label f); try discriminate Er.
  pose proof (packed_sel f (rr_pay r) Hfok) as Hsel. rewrite Epay in Hsel, H. cbn [wt_of] in Hsel.
  change 2 with WT_LEN in Hsel. rewrite Hpa in Hsel.
  destruct (packable (f_type f)); [|discriminate Hsel].
  destruct (packed_elems (f_type f) bs) as [vs|]; [eauto | discriminate H].
Qed.

Lemma spec_records_good : forall rs m m', Forall rec_wf rs -> spec_records E sub md rs m = Some m' ->
  Forall (rec_good md) rs.
Proof.
  induction rs as [|r t IH]; intros m m' HW H; [constructor|].
  inversion HW as [|? ? Hwf HW']; subst. cbn [spec_records] in H.
  destruct (spec_record E sub md r m) as [m1|] eqn:E1; cbn [obind] in H; [|discriminate H].
  constructor; [exact (spec_record_good r m m1 Hwf E1) | exact (IH m1 m' HW' H)].
Qed.

End Member.

(* C12, run-time side: presence decides what is written. *)
From Coq Require Import ZArith List Bool Lia ZifyBool.
From PBC Require Import Base.CInt Gen.LeafC Impl.Desc Impl.Mem Impl.Enc Impl.Pack.
Import ListNotations.
Local Open Scope Z_scope.

Section P.
Variable rec : msg -> res (list Z).

(* proto2 optional scalar / bytes / enum: written iff has_ is set, whatever the value (also the default) *)
Lemma optional_scalar_presence : forall f has w,
  f_type f <> TString -> f_type f <> TMessage ->
  pk_optional rec f has w = if has =? 0 then Ok [] else pk_required rec f w.
Proof. intros f has w H1 H2. unfold pk_optional. destruct (f_type f); try reflexivity; congruence. Qed.

(* optional string / message: written iff the pointer is neither NULL nor the default object *)
Lemma optional_pointer_presence : forall f has v,
  f_type f = TString \/ f_type f = TMessage ->
  pk_optional rec f has v = (do a <- ptr_absent f v; if a then Ok [] else pk_required rec f v).
Proof. intros f has v [H|H]; unfold pk_optional; rewrite H; reflexivity. Qed.

(* proto3 implicit presence: omitted exactly when the value is the zero value *)
Lemma implicit_presence : forall f v z, zeroish f v = Ok z ->
  pk_unlabeled rec f v = if z then Ok [] else pk_required rec f v.
Proof. intros f v z H. unfold pk_unlabeled. rewrite H. reflexivity. Qed.

(* ... where the zero value of a scalar is all-bits-zero of its width (so -0.0 is not zero) *)
Lemma zeroish_scalar : forall f w, is_len_type (f_type f) = false ->
  zeroish f (VWord w) = Ok (u32 w =? 0) \/ zeroish f (VWord w) = Ok (u64 w =? 0).
Proof. intros f w H. unfold zeroish. destruct (f_type f); try discriminate H; cbn [as_word bind]; auto. Qed.

(* a oneof member is written iff it is the selected one (and its pointer, if any, is set) *)
Lemma oneof_presence : forall f case v,
  pk_oneof rec f case v = if case =? f_id f then (do a <- ptr_absent f v; if a then Ok [] else pk_required rec f v) else Ok [].
Proof. intros f case v. unfold pk_oneof. destruct (case =? f_id f); reflexivity. Qed.

(* an empty repeated field writes nothing *)
Lemma repeated_empty : forall f arr, pk_repeated rec f 0 arr = Ok [].
Proof. intros f arr. unfold pk_repeated. destruct (f_packed f); reflexivity. Qed.
End P.

(* Leaf lemmas, decoders: the regenerated C decoders compute the value of any
   well-formed varint (minimal or padded, up to ten bytes), undo zig-zag, and
   read little-endian fixed-width values. *)
From Coq Require Import ZArith List Bool Lia ZifyBool.
From PBC Require Import Base.CInt Base.Bits Base.Bits2 Gen.LeafC Spec.Wire Proofs.LeafEnc.
Import ListNotations.
Local Open Scope Z_scope.

Ltac Zify.zify_post_hook ::= Z.div_mod_to_equations.

Lemma rd_cons0 : forall b t, rd (b :: t) 0 = b.
Proof. reflexivity. Qed.
Lemma rd_cons_S : forall b t i, 0 <= i -> rd (b :: t) (i + 1) = rd t i.
Proof. intros b t i Hi. unfold rd. replace (Z.to_nat (i + 1)) with (S (Z.to_nat i)) by lia. reflexivity. Qed.

Ltac rd_calc :=
  repeat match goal with
         | |- context [rd (?b :: ?t) 0] => change (rd (b :: t) 0) with b
         | |- context [rd (?b0 :: ?b1 :: ?t) 1] => change (rd (b0 :: b1 :: t) 1) with b1
         | |- context [rd (?b0 :: ?b1 :: ?b2 :: ?t) 2] => change (rd (b0 :: b1 :: b2 :: t) 2) with b2
         | |- context [rd (?b0 :: ?b1 :: ?b2 :: ?b3 :: ?t) 3] => change (rd (b0 :: b1 :: b2 :: b3 :: t) 3) with b3
         | |- context [rd (?b0 :: ?b1 :: ?b2 :: ?b3 :: ?b4 :: ?t) 4] => change (rd (b0 :: b1 :: b2 :: b3 :: b4 :: t) 4) with b4
         end.

(* one masked, shifted 7-bit group *)
Lemma group32 : forall b k, 0 <= b < 256 -> 0 <= k <= 21 ->
  u32 (Z.shiftl (u32 (Z.land b 127)) k) = (b mod 128) * 2 ^ k.
Proof.
  intros b k Hb Hk. rewrite land127. rewrite (u32_small (b mod 128)) by lia.
  rewrite shiftl_mul by lia. apply u32_small.
  assert (2 ^ k <= 2 ^ 21) by (apply Z.pow_le_mono_r; lia). change (2 ^ 21) with 2097152 in *.
  assert (0 < 2 ^ k) by (apply Z.pow_pos_nonneg; lia). nia.
Qed.

Lemma zlen_cons' : forall (b : Z) t, Z.of_nat (length (b :: t)) = 1 + Z.of_nat (length t).
Proof. intros. cbn [length]. lia. Qed.

Lemma wfv_byte : forall b t, wfv (b :: t) -> 0 <= b < 256.
Proof. intros b t H. cbn [wfv] in H. destruct t; lia. Qed.

(* parse_uint32 reads at most five bytes: the value modulo 2^32 *)
Lemma parse_uint32_spec : forall bs rest, wfv bs -> (length bs <= 10)%nat ->
  parse_uint32 (Z.of_nat (length bs)) (bs ++ rest) = varint_val bs mod 4294967296.
Proof.
  intros bs rest W L. unfold parse_uint32. cbv zeta.
  destruct bs as [|b0 bs]; [contradiction|].
  pose proof (wfv_byte _ _ W) as B0.
  cbn [app]. rd_calc.
  rewrite land127, (u32_small (b0 mod 128)) by lia.
  destruct bs as [|b1 bs].
  { cbn [app length]. change (Z.of_nat 1 >? 1) with false. cbv iota.
    cbn [varint_val]. cbn [wfv] in W. lia. }
  cbn [wfv] in W. destruct W as [W0 W]. pose proof (wfv_byte _ _ W) as B1.
  replace (Z.of_nat (length (b0 :: b1 :: bs)) >? 1) with true by (cbn [length]; lia).
  cbn [app]. rd_calc. rewrite (group32 b1 7) by lia.
  rewrite (lor_disjoint (b0 mod 128) (b1 mod 128) 7) by lia.
  destruct bs as [|b2 bs].
  { change (Z.of_nat (length [b0; b1]) >? 2) with false. cbv iota. cbn [varint_val]. cbn [wfv] in W. lia. }
  cbn [wfv] in W. destruct W as [W1 W]. pose proof (wfv_byte _ _ W) as B2.
  replace (Z.of_nat (length (b0 :: b1 :: b2 :: bs)) >? 2) with true by (cbn [length]; lia).
  cbn [app]. rd_calc. rewrite (group32 b2 14) by lia.
  rewrite (lor_disjoint _ (b2 mod 128) 14) by lia.
  destruct bs as [|b3 bs].
  { change (Z.of_nat (length [b0; b1; b2]) >? 3) with false. cbv iota. cbn [varint_val]. cbn [wfv] in W. lia. }
  cbn [wfv] in W. destruct W as [W2 W]. pose proof (wfv_byte _ _ W) as B3.
  replace (Z.of_nat (length (b0 :: b1 :: b2 :: b3 :: bs)) >? 3) with true by (cbn [length]; lia).
  cbn [app]. rd_calc. rewrite (group32 b3 21) by lia.
  rewrite (lor_disjoint _ (b3 mod 128) 21) by lia.
  destruct bs as [|b4 bs].
  { change (Z.of_nat (length [b0; b1; b2; b3]) >? 4) with false. cbv iota. cbn [varint_val]. cbn [wfv] in W. lia. }
  assert (B4 : 0 <= b4 < 256) by (cbn [wfv] in W; destruct bs; lia).
  replace (Z.of_nat (length (b0 :: b1 :: b2 :: b3 :: b4 :: bs)) >? 4) with true by (cbn [length]; lia).
  cbn [app]. rd_calc. rewrite (shiftl_mul b4 28) by lia.
  assert (E4 : u32 (b4 * 2 ^ 28) = (b4 mod 16) * 2 ^ 28).
  { unfold u32. change (2 ^ 28) with 268435456. lia. }
  rewrite E4. rewrite (lor_disjoint _ (b4 mod 16) 28) by lia.
  cbn [varint_val]. change (2 ^ 7) with 128. change (2 ^ 14) with 16384. change (2 ^ 21) with 2097152.
  change (2 ^ 28) with 268435456. lia.
Qed.

(* ---------- parse_uint64: four unrolled groups, then a loop over the rest *)
Lemma group64 : forall b k, 0 <= b < 256 -> 0 <= k <= 56 ->
  u64 (Z.shiftl (u64 (Z.land b 127)) k) = (b mod 128) * 2 ^ k.
Proof.
  intros b k Hb Hk. rewrite land127. rewrite (u64_small (b mod 128)) by lia.
  rewrite shiftl_mul by lia. apply u64_small.
  assert (2 ^ k <= 2 ^ 56) by (apply Z.pow_le_mono_r; lia). change (2 ^ 56) with 72057594037927936 in *.
  assert (0 < 2 ^ k) by (apply Z.pow_pos_nonneg; lia). nia.
Qed.

Lemma group64_top : forall b, 0 <= b < 256 ->
  u64 (Z.shiftl (u64 (Z.land b 127)) 63) = (b mod 2) * 2 ^ 63.
Proof.
  intros b Hb. rewrite land127. rewrite (u64_small (b mod 128)) by lia.
  rewrite shiftl_mul by lia. unfold u64. change (2 ^ 63) with 9223372036854775808. lia.
Qed.

(* value of the first i groups of a byte string *)
Definition vpre (data : list Z) (i : nat) : Z := varint_val (firstn i data).

Lemma vpre_step : forall data i, (i < length data)%nat ->
  vpre data (S i) = vpre data i + (rd data (Z.of_nat i) mod 128) * 2 ^ (7 * Z.of_nat i).
Proof.
  induction data as [|b t IH]; intros i Hi; [cbn in Hi; lia|].
  destruct i as [|i].
  - unfold vpre. cbn [firstn varint_val]. change (Z.of_nat 0) with 0. rewrite rd_cons0.
    change (7 * 0) with 0. rewrite Z.pow_0_r. lia.
  - unfold vpre in *. rewrite !firstn_cons. cbn [varint_val].
    rewrite (IH i ltac:(cbn [length] in Hi; lia)).
    rewrite Nat2Z.inj_succ. rewrite <- Z.add_1_r. rewrite rd_cons_S by lia.
    replace (7 * (Z.of_nat i + 1)) with (7 * Z.of_nat i + 7) by lia.
    rewrite Z.pow_add_r by lia. change (2 ^ 7) with 128. lia.
Qed.

Lemma vpre_bound : forall data i, 0 <= vpre data i < 2 ^ (7 * Z.of_nat i).
Proof.
  intros data i. revert data. induction i as [|i IH]; intros data.
  - unfold vpre. cbn. lia.
  - unfold vpre in *. destruct data as [|b t]; [rewrite firstn_nil | rewrite firstn_cons]; cbn [varint_val].
    + assert (0 < 2 ^ (7 * Z.of_nat (S i))) by (apply Z.pow_pos_nonneg; lia). lia.
    + specialize (IH t). rewrite Nat2Z.inj_succ. rewrite <- Z.add_1_r.
      replace (7 * (Z.of_nat i + 1)) with (7 + 7 * Z.of_nat i) by lia.
      rewrite Z.pow_add_r by lia. change (2 ^ 7) with 128. lia.
Qed.

Lemma vpre_all : forall bs rest, vpre (bs ++ rest) (length bs) = varint_val bs.
Proof. intros. unfold vpre. rewrite firstn_app, Nat.sub_diag, firstn_all. cbn [firstn]. rewrite app_nil_r. reflexivity. Qed.

Lemma parse_uint64_spec : forall bs rest, wfv bs -> (length bs <= 10)%nat ->
  (forall b, In b bs -> 0 <= b < 256) ->
  parse_uint64 (Z.of_nat (length bs)) (bs ++ rest) = varint_val bs mod 18446744073709551616.
Proof.
  intros bs rest W L HB. unfold parse_uint64. cbv zeta.
  destruct (Z.ltb_spec (Z.of_nat (length bs)) 5) as [Hs | Hb].
  - rewrite parse_uint32_spec by assumption.
    assert (varint_val bs < 4294967296 /\ 0 <= varint_val bs); [|lia].
    destruct bs as [|b0 [|b1 [|b2 [|b3 [|b4 bs]]]]]; cbn [length] in Hs; try lia; cbn [wfv] in W; cbn [varint_val]; lia.
  - set (data := bs ++ rest). set (len := Z.of_nat (length bs)).
    assert (Hdl : (length bs <= length data)%nat) by (subst data; rewrite app_length; lia).
    assert (HD : forall i, 0 <= i < len -> 0 <= rd data i < 256).
    { intros i Hi. subst data len. unfold rd. rewrite app_nth1 by lia. apply HB. apply nth_In. lia. }
    (* the four unrolled groups *)
    rewrite (land127 (rd data 0)), (u64_small (rd data 0 mod 128)) by lia.
    rewrite (group64 (rd data 1) 7), (group64 (rd data 2) 14), (group64 (rd data 3) 21) by (try apply HD; lia).
    rewrite (lor_disjoint (rd data 0 mod 128) _ 7) by lia.
    rewrite (lor_disjoint _ (rd data 2 mod 128) 14) by lia.
    rewrite (lor_disjoint _ (rd data 3 mod 128) 21) by lia.
    assert (E4 : rd data 0 mod 128 + rd data 1 mod 128 * 2 ^ 7 + rd data 2 mod 128 * 2 ^ 14 + rd data 3 mod 128 * 2 ^ 21
                 = vpre data 4).
    { rewrite (vpre_step data 3), (vpre_step data 2), (vpre_step data 1), (vpre_step data 0) by lia.
      unfold vpre. cbn [firstn varint_val]. change (Z.of_nat 0) with 0. change (Z.of_nat 1) with 1.
      change (Z.of_nat 2) with 2. change (Z.of_nat 3) with 3.
      change (7 * 0) with 0. change (7 * 1) with 7. change (7 * 2) with 14. change (7 * 3) with 21. lia. }
    rewrite E4.
    match goal with |- context [@while_ _ _ _ ?b _] => set (body := b) end.
    (* loop invariant: rv = value of the first i groups (mod 2^64), shift = 7 i *)
    assert (LOOP : forall (k : nat) (i : nat), (4 <= i <= 10)%nat -> (i + k = length bs)%nat ->
              while_ (S k) body (Z.of_nat i, vpre data i mod 18446744073709551616, 7 * Z.of_nat i) =
              LDone (len, vpre data (length bs) mod 18446744073709551616, 7 * len)).
    { induction k as [|k IH]; intros i Hi Hk.
      - rewrite while_S.
        assert (Hb' : body (Z.of_nat i, vpre data i mod 18446744073709551616, 7 * Z.of_nat i) =
                      ltac:(let t := eval cbv beta iota zeta delta [body] in
                                     (body (Z.of_nat i, vpre data i mod 18446744073709551616, 7 * Z.of_nat i)) in exact t))
          by reflexivity.
        rewrite Hb'; clear Hb'.
        replace (Z.of_nat i <? len) with false by (subst len; lia).
        replace i with (length bs) by lia. reflexivity.
      - rewrite while_S.
        assert (Hb' : body (Z.of_nat i, vpre data i mod 18446744073709551616, 7 * Z.of_nat i) =
                      ltac:(let t := eval cbv beta iota zeta delta [body] in
                                     (body (Z.of_nat i, vpre data i mod 18446744073709551616, 7 * Z.of_nat i)) in exact t))
          by reflexivity.
        rewrite Hb'; clear Hb'.
        replace (Z.of_nat i <? len) with true by (subst len; lia).
        rewrite (u32_small (7 * Z.of_nat i + 7)) by lia. rewrite (u32_small (Z.of_nat i + 1)) by lia.
        replace (Z.of_nat i + 1) with (Z.of_nat (S i)) by lia.
        replace (7 * Z.of_nat i + 7) with (7 * Z.of_nat (S i)) by lia.
        assert (Hstep : Z.lor (vpre data i mod 18446744073709551616)
                          (u64 (Z.shiftl (u64 (Z.land (rd data (Z.of_nat i)) 127)) (7 * Z.of_nat i)))
                        = vpre data (S i) mod 18446744073709551616).
        { pose proof (vpre_bound data i) as Hvb.
          pose proof (HD (Z.of_nat i) ltac:(subst len; lia)) as Hbi.
          rewrite (vpre_step data i) by lia.
          destruct (Nat.eq_dec i 9) as [-> | Hne].
          - change (7 * Z.of_nat 9) with 63 in *. rewrite group64_top by lia.
            change (2 ^ 63) with 9223372036854775808 in *.
            rewrite (Z.mod_small (vpre data 9)) by lia.
            rewrite (lor_disjoint _ _ 63) by (change (2 ^ 63) with 9223372036854775808; lia).
            change (2 ^ 63) with 9223372036854775808. lia.
          - assert (Hi8 : (i <= 8)%nat) by lia.
            rewrite group64 by lia.
            assert (Hp : 2 ^ (7 * Z.of_nat i) <= 2 ^ 56) by (apply Z.pow_le_mono_r; lia).
            change (2 ^ 56) with 72057594037927936 in Hp.
            rewrite (Z.mod_small (vpre data i)) by lia.
            rewrite lor_disjoint by lia.
            symmetry. apply Z.mod_small.
            assert (0 < 2 ^ (7 * Z.of_nat i)) by (apply Z.pow_pos_nonneg; lia). nia. }
        rewrite Hstep. apply IH; lia. }
    assert (Hlen4 : (4 <= 4 <= 10)%nat) by lia.
    pose proof (LOOP (length bs - 4)%nat 4%nat Hlen4 ltac:(subst len; lia)) as HL.
    change (Z.of_nat 4) with 4 in HL. change (7 * 4) with 28 in HL.
    rewrite (Z.mod_small (vpre data 4)) in HL.
    2:{ pose proof (vpre_bound data 4). change (2 ^ (7 * Z.of_nat 4)) with 268435456 in *. lia. }
    replace (S (Z.to_nat len)) with (S (length bs - 4) + 4)%nat by (subst len; lia).
    (* extra fuel does not matter once the loop is done *)
    assert (MORE : forall (S0 R0 : Type) (b : S0 -> step S0 R0) (f e : nat) s r,
               while_ f b s = LDone r -> while_ (f + e) b s = LDone r).
    { intros S0 R0 b f. induction f as [|f IHf]; intros e s r Hw; [discriminate|].
      cbn [Nat.add]. rewrite while_S in *. destruct (b s); auto. }
    rewrite (MORE _ _ _ _ 4%nat _ _ HL).
    subst data. rewrite vpre_all. reflexivity.
Qed.

(* ---------- canonical varints are well formed and denote their value *)
Lemma varint_n_len_bounds' : forall f v, (length (varint_n f v) <= f)%nat.
Proof.
  induction f as [|f IH]; intros v; cbn [varint_n]; [cbn; lia|].
  destruct (v <? 128); cbn [length]; [lia|]. specialize (IH (v / 128)). lia.
Qed.

Lemma varint_n_wf : forall f v, 0 <= v < 128 ^ Z.of_nat f -> (1 <= f)%nat ->
  wfv (varint_n f v) /\ varint_val (varint_n f v) = v /\ (forall b, In b (varint_n f v) -> 0 <= b < 256).
Proof.
  induction f as [|f IH]; intros v Hv Hf; [lia|].
  cbn [varint_n]. destruct (Z.ltb_spec v 128) as [Hs | Hb].
  - cbn [wfv varint_val In]. split; [lia | split; [lia | intros b [<-|[]]; lia]].
  - rewrite Nat2Z.inj_succ, Z.pow_succ_r in Hv by lia.
    destruct f as [|f].
    { change (128 ^ Z.of_nat 0) with 1 in Hv. lia. }
    destruct (IH (v / 128) ltac:(lia) ltac:(lia)) as (W & V & B).
    split; [|split].
    + cbn [wfv]. destruct (varint_n (S f) (v / 128)) eqn:E; [contradiction|]. split; [lia | exact W].
    + cbn [varint_val]. rewrite V. lia.
    + intros b [<-|Hin]; [lia | exact (B b Hin)].
Qed.

Lemma varint_wf : forall v, 0 <= v < 18446744073709551616 ->
  wfv (varint v) /\ varint_val (varint v) = v /\ (length (varint v) <= 10)%nat /\
  (forall b, In b (varint v) -> 0 <= b < 256).
Proof.
  intros v Hv. unfold varint.
  destruct (varint_n_wf 10 v ltac:(change (128 ^ Z.of_nat 10) with 1180591620717411303424; lia) ltac:(lia))
    as (W & V & B).
  split; [exact W | split; [exact V | split; [apply varint_n_len_bounds' | exact B]]].
Qed.

(* ---------- zig-zag decoding *)
Lemma unzigzag32_spec : forall z, 0 <= z < 4294967296 -> unzigzag32 z = unzigzag z.
Proof.
  intros z Hz. unfold unzigzag32, unzigzag. rewrite land1, (shiftr_div z 1) by lia. change (2 ^ 1) with 2.
  destruct (Z.even z) eqn:Ev.
  - apply Z.even_spec in Ev. destruct Ev as [k ->].
    replace (2 * k mod 2) with 0 by lia. change (u32 (- 0)) with 0. rewrite Z.lxor_0_r.
    replace (2 * k / 2) with k by lia. unfold s32, sw. rewrite Z.mod_small by lia.
    destruct (Z.ltb_spec k 2147483648); lia.
  - assert (Hodd : Z.odd z = true) by (rewrite <- Z.negb_even, Ev; reflexivity).
    apply Z.odd_spec in Hodd. destruct Hodd as [k ->].
    replace ((2 * k + 1) mod 2) with 1 by lia. change (u32 (- (1))) with (2 ^ 32 - 1).
    replace ((2 * k + 1) / 2) with k by lia. replace ((2 * k + 1 + 1) / 2) with (k + 1) by lia.
    rewrite (lxor_ones_sub 32) by (change (2 ^ 32) with 4294967296; lia).
    change (2 ^ 32) with 4294967296. unfold s32, sw. rewrite Z.mod_small by lia.
    destruct (Z.ltb_spec (4294967296 - 1 - k) 2147483648); lia.
Qed.

Lemma unzigzag64_spec : forall z, 0 <= z < 18446744073709551616 -> unzigzag64 z = unzigzag z.
Proof.
  intros z Hz. unfold unzigzag64, unzigzag. rewrite land1, (shiftr_div z 1) by lia. change (2 ^ 1) with 2.
  destruct (Z.even z) eqn:Ev.
  - apply Z.even_spec in Ev. destruct Ev as [k ->].
    replace (2 * k mod 2) with 0 by lia. change (u64 (- 0)) with 0. rewrite Z.lxor_0_r.
    replace (2 * k / 2) with k by lia. unfold s64, sw. rewrite Z.mod_small by lia.
    destruct (Z.ltb_spec k 9223372036854775808); lia.
  - assert (Hodd : Z.odd z = true) by (rewrite <- Z.negb_even, Ev; reflexivity).
    apply Z.odd_spec in Hodd. destruct Hodd as [k ->].
    replace ((2 * k + 1) mod 2) with 1 by lia. change (u64 (- (1))) with (2 ^ 64 - 1).
    replace ((2 * k + 1) / 2) with k by lia. replace ((2 * k + 1 + 1) / 2) with (k + 1) by lia.
    rewrite (lxor_ones_sub 64) by (change (2 ^ 64) with 18446744073709551616; lia).
    change (2 ^ 64) with 18446744073709551616. unfold s64, sw. rewrite Z.mod_small by lia.
    destruct (Z.ltb_spec (18446744073709551616 - 1 - k) 9223372036854775808); lia.
Qed.

Lemma unzigzag_zigzag : forall bits v, unzigzag (zigzag bits v) = v.
Proof.
  intros bits v. unfold zigzag, unzigzag. destruct (Z.ltb_spec v 0).
  - replace (Z.even (- 2 * v - 1)) with false.
    2:{ symmetry. rewrite <- Z.negb_odd. replace (- 2 * v - 1) with (1 + 2 * (- v - 1)) by lia.
        rewrite Z.odd_add_mul_2. reflexivity. }
    lia.
  - replace (Z.even (2 * v)) with true by (symmetry; rewrite Z.even_mul; reflexivity). lia.
Qed.

(* ---------- little-endian fixed width *)
Lemma le_n_length' : forall n v, length (le_n n v) = n.
Proof. induction n as [|k IH]; intros v; cbn [le_n length]; [reflexivity | rewrite IH; reflexivity]. Qed.

Lemma le_value_le_n : forall n v, le_value (le_n n v) = v mod 256 ^ Z.of_nat n.
Proof.
  induction n as [|k IH]; intros v; cbn [le_n le_value].
  - change (256 ^ Z.of_nat 0) with 1. lia.
  - rewrite IH. rewrite Nat2Z.inj_succ, Z.pow_succ_r by lia.
    assert (0 < 256 ^ Z.of_nat k) by (apply Z.pow_pos_nonneg; lia).
    rewrite (Z.rem_mul_r v 256 (256 ^ Z.of_nat k)) by lia. lia.
Qed.

Lemma take_pad_app : forall n (a b : list Z), length a = n -> take_pad n (a ++ b) = a.
Proof.
  induction n as [|k IH]; intros a b Hl.
  - destruct a; [reflexivity | discriminate].
  - destruct a as [|x a]; [discriminate|]. cbn [app take_pad]. rewrite IH; [reflexivity|]. cbn in Hl. lia.
Qed.

Lemma parse_fixed_uint32_spec : forall v rest, 0 <= v < 4294967296 ->
  parse_fixed_uint32 (le_n 4 v ++ rest) = v.
Proof.
  intros v rest Hv. unfold parse_fixed_uint32, load_le. cbv zeta. change (Z.to_nat 4) with 4%nat.
  rewrite take_pad_app by apply le_n_length'. rewrite le_value_le_n.
  change (256 ^ Z.of_nat 4) with 4294967296. apply Z.mod_small. lia.
Qed.

Lemma parse_fixed_uint64_spec : forall v rest, 0 <= v < 18446744073709551616 ->
  parse_fixed_uint64 (le_n 8 v ++ rest) = v.
Proof.
  intros v rest Hv. unfold parse_fixed_uint64, load_le. cbv zeta. change (Z.to_nat 8) with 8%nat.
  rewrite take_pad_app by apply le_n_length'. rewrite le_value_le_n.
  change (256 ^ Z.of_nat 8) with 18446744073709551616. apply Z.mod_small. lia.
Qed.

Ltac rdn :=
  repeat match goal with
         | |- context [rd ?l ?i] =>
             let r := eval cbv [rd nth Z.to_nat Pos.to_nat Pos.iter_op Nat.add] in (rd l i) in
             change (rd l i) with r
         end.

Lemma while_S' : forall (S R : Type) f (b : S -> step S R) s,
  while_ (Datatypes.S f) b s =
  match b s with Continue s' => while_ f b s' | Break s' => LDone s' | Return r => LRet r end.
Proof. reflexivity. Qed.

(* ---------- field keys: parse_tag_and_wiretype on any well-formed key of up to five bytes *)
Lemma tag_group : forall b k, 0 <= b < 256 -> 0 <= k <= 18 ->
  u32 (Z.shiftl (u32 (Z.land b 127)) k) = (b mod 128) * 2 ^ k.
Proof. intros. apply group32; lia. Qed.

Lemma tag_first : forall b, 0 <= b < 256 -> u32 (Z.shiftr (Z.land b 127) 3) = (b mod 128) / 8.
Proof. intros b H. rewrite land127, shiftr_div by lia. change (2 ^ 3) with 8. apply u32_small. lia. Qed.

Ltac unfold_body body st :=
  let H := fresh "Hb" in
  assert (H : body st = ltac:(let t := eval cbv beta iota zeta delta [body] in (body st) in exact t)) by reflexivity;
  rewrite H; clear H.

Lemma parse_tag_spec : forall bs rest len t0 w0,
  wfv bs -> (length bs <= 5)%nat -> (forall b, In b bs -> 0 <= b < 256) ->
  Z.of_nat (length bs) <= len < 4294967296 ->
  (varint_val bs / 8) mod 4294967296 <> 0 ->
  parse_tag_and_wiretype len (bs ++ rest) t0 w0 =
  (Z.of_nat (length bs), (varint_val bs / 8) mod 4294967296, varint_val bs mod 8).
Proof.
  intros bs rest len t0 w0 W L HB Hlen Hnz.
  unfold parse_tag_and_wiretype. cbv zeta.
  assert (EM : u32 (if len >? 5 then 5 else len) = Z.min len 5).
  { destruct (Z.gtb_spec len 5); rewrite u32_small; lia. }
  rewrite EM. set (M := Z.min len 5) in *.
  destruct bs as [|b0 bs]; [contradiction|].
  pose proof (HB b0 (or_introl eq_refl)) as B0.
  cbn [app]. rdn. rewrite tag_first by lia. rewrite land248_zero, land128_zero by lia.
  rewrite (land7 b0). rewrite (u8_small (b0 mod 8)) by lia.
  destruct bs as [|b1 bs].
  { (* one byte *)
    cbn [wfv] in W. cbn [varint_val] in *.
    replace (b0 <? 8) with false by lia. replace (b0 <? 128) with true by lia. cbv iota.
    cbn [length]. repeat (f_equal; try lia). }
  cbn [wfv] in W. destruct W as [W0 W].
  replace (b0 <? 8) with false by lia. replace (b0 <? 128) with false by lia. cbv iota.
  match goal with |- context [@while_ _ _ _ ?b _] => set (body := b) end.
  pose proof (HB b1 (or_intror (or_introl eq_refl))) as B1.
  assert (HM1 : 1 < M) by (subst M; cbn [length] in Hlen; lia).
  rewrite while_S'. unfold_body body (1, b0 mod 128 / 8, 4, t0).
  replace (1 <? M) with true by lia. cbn [app]. rdn. rewrite land128_zero by lia.
  destruct bs as [|b2 bs].
  { (* two bytes *)
    cbn [wfv] in W. replace (b1 <? 128) with true by lia. cbn [negb]. cbv iota.
    rewrite (shiftl_mul b1 4) by lia. rewrite (u32_small (b1 * 2 ^ 4)) by (change (2 ^ 4) with 16; lia).
    rewrite (lor_disjoint _ b1 4) by (change (2 ^ 4) with 16; lia).
    cbn [varint_val] in *. change (2 ^ 4) with 16 in *.
    assert (E : b0 mod 128 / 8 + b1 * 16 = ((b0 mod 128 + 128 * (b1 mod 128 + 128 * 0)) / 8) mod 4294967296) by lia.
    rewrite E. destruct (Z.eqb_spec (((b0 mod 128 + 128 * (b1 mod 128 + 128 * 0)) / 8) mod 4294967296) 0) as [Ez|_]; [contradiction|].
    cbn [length]. change (u32 (1 + 1)) with 2. repeat (f_equal; try lia). }
  cbn [wfv] in W. destruct W as [W1 W].
  replace (b1 <? 128) with false by lia. cbn [negb]. cbv iota.
  rewrite (tag_group b1 4) by lia. rewrite (lor_disjoint _ _ 4) by (change (2 ^ 4) with 16; lia).
  change (u32 (4 + 7)) with 11. change (u32 (1 + 1)) with 2.
  pose proof (HB b2 (or_intror (or_intror (or_introl eq_refl)))) as B2.
  assert (HM2 : 2 < M) by (subst M; cbn [length] in Hlen; lia).
  rewrite while_S'. unfold_body body (2, b0 mod 128 / 8 + b1 mod 128 * 2 ^ 4, 11, t0).
  replace (2 <? M) with true by lia. cbn [app]. rdn. rewrite land128_zero by lia.
  destruct bs as [|b3 bs].
  { (* three bytes *)
    cbn [wfv] in W. replace (b2 <? 128) with true by lia. cbn [negb]. cbv iota.
    rewrite (shiftl_mul b2 11) by lia. rewrite (u32_small (b2 * 2 ^ 11)) by (change (2 ^ 11) with 2048; lia).
    rewrite (lor_disjoint _ b2 11) by (change (2 ^ 4) with 16; change (2 ^ 11) with 2048; lia).
    cbn [varint_val] in *. change (2 ^ 4) with 16 in *. change (2 ^ 11) with 2048 in *.
    match goal with |- context [?t =? 0] =>
      assert (E : t = ((b0 mod 128 + 128 * (b1 mod 128 + 128 * (b2 mod 128 + 128 * 0))) / 8) mod 4294967296) by lia;
      rewrite E end.
    destruct (Z.eqb_spec (((b0 mod 128 + 128 * (b1 mod 128 + 128 * (b2 mod 128 + 128 * 0))) / 8) mod 4294967296) 0) as [Ez|_]; [contradiction|].
    cbn [length]. change (u32 (2 + 1)) with 3. repeat (f_equal; try lia). }
  cbn [wfv] in W. destruct W as [W2 W].
  replace (b2 <? 128) with false by lia. cbn [negb]. cbv iota.
  rewrite (tag_group b2 11) by lia.
  rewrite (lor_disjoint _ _ 11) by (change (2 ^ 4) with 16; change (2 ^ 11) with 2048; lia).
  change (u32 (11 + 7)) with 18. change (u32 (2 + 1)) with 3.
  pose proof (HB b3 (or_intror (or_intror (or_intror (or_introl eq_refl))))) as B3.
  assert (HM3 : 3 < M) by (subst M; cbn [length] in Hlen; lia).
  rewrite while_S'. unfold_body body (3, b0 mod 128 / 8 + b1 mod 128 * 2 ^ 4 + b2 mod 128 * 2 ^ 11, 18, t0).
  replace (3 <? M) with true by lia. cbn [app]. rdn. rewrite land128_zero by lia.
  destruct bs as [|b4 bs].
  { (* four bytes *)
    cbn [wfv] in W. replace (b3 <? 128) with true by lia. cbn [negb]. cbv iota.
    rewrite (shiftl_mul b3 18) by lia. rewrite (u32_small (b3 * 2 ^ 18)) by (change (2 ^ 18) with 262144; lia).
    rewrite (lor_disjoint _ b3 18) by (change (2 ^ 4) with 16; change (2 ^ 11) with 2048; change (2 ^ 18) with 262144; lia).
    cbn [varint_val] in *. change (2 ^ 4) with 16 in *. change (2 ^ 11) with 2048 in *. change (2 ^ 18) with 262144 in *.
    match goal with |- context [?t =? 0] =>
      assert (E : t = ((b0 mod 128 + 128 * (b1 mod 128 + 128 * (b2 mod 128 + 128 * (b3 mod 128 + 128 * 0)))) / 8) mod 4294967296) by lia;
      rewrite E end.
    destruct (Z.eqb_spec (((b0 mod 128 + 128 * (b1 mod 128 + 128 * (b2 mod 128 + 128 * (b3 mod 128 + 128 * 0)))) / 8) mod 4294967296) 0) as [Ez|_]; [contradiction|].
    cbn [length]. change (u32 (3 + 1)) with 4. repeat (f_equal; try lia). }
  cbn [wfv] in W. destruct W as [W3 W].
  replace (b3 <? 128) with false by lia. cbn [negb]. cbv iota.
  rewrite (tag_group b3 18) by lia.
  rewrite (lor_disjoint _ _ 18) by (change (2 ^ 4) with 16; change (2 ^ 11) with 2048; change (2 ^ 18) with 262144; lia).
  change (u32 (18 + 7)) with 25. change (u32 (3 + 1)) with 4.
  pose proof (HB b4 (or_intror (or_intror (or_intror (or_intror (or_introl eq_refl)))))) as B4.
  destruct bs as [|b5 bs]; [|cbn [length] in L; lia].
  assert (HM4 : 4 < M) by (subst M; cbn [length] in Hlen; lia).
  rewrite while_S'.
  unfold_body body (4, b0 mod 128 / 8 + b1 mod 128 * 2 ^ 4 + b2 mod 128 * 2 ^ 11 + b3 mod 128 * 2 ^ 18, 25, t0).
  replace (4 <? M) with true by lia. cbn [app]. rdn. rewrite land128_zero by lia.
  cbn [wfv] in W. replace (b4 <? 128) with true by lia. cbn [negb]. cbv iota.
  rewrite (shiftl_mul b4 25) by lia.
  assert (E5 : u32 (b4 * 2 ^ 25) = (b4 mod 128) * 2 ^ 25) by (unfold u32; change (2 ^ 25) with 33554432; lia).
  rewrite E5.
  rewrite (lor_disjoint _ _ 25) by (change (2 ^ 4) with 16; change (2 ^ 11) with 2048; change (2 ^ 18) with 262144; change (2 ^ 25) with 33554432; lia).
  cbn [varint_val] in *. change (2 ^ 4) with 16 in *. change (2 ^ 11) with 2048 in *. change (2 ^ 18) with 262144 in *.
  change (2 ^ 25) with 33554432 in *.
  match goal with |- context [?t =? 0] =>
    assert (E : t = ((b0 mod 128 + 128 * (b1 mod 128 + 128 * (b2 mod 128 + 128 * (b3 mod 128 + 128 * (b4 mod 128 + 128 * 0))))) / 8) mod 4294967296) by lia;
    rewrite E end.
  destruct (Z.eqb_spec (((b0 mod 128 + 128 * (b1 mod 128 + 128 * (b2 mod 128 + 128 * (b3 mod 128 + 128 * (b4 mod 128 + 128 * 0))))) / 8) mod 4294967296) 0) as [Ez|_]; [contradiction|].
  cbn [length]. change (u32 (4 + 1)) with 5. repeat (f_equal; try lia).
Qed.

(* ---------- length prefixes: scan_length_prefixed_data on any well-formed prefix of up to five bytes *)
Lemma len_group : forall b k, 0 <= b < 256 -> 0 <= k <= 28 ->
  u64 (Z.shiftl (Z.land b 127) k) = (b mod 128) * 2 ^ k.
Proof.
  intros b k Hb Hk. rewrite land127, shiftl_mul by lia. apply u64_small.
  assert (2 ^ k <= 2 ^ 28) by (apply Z.pow_le_mono_r; lia). change (2 ^ 28) with 268435456 in *.
  assert (0 < 2 ^ k) by (apply Z.pow_pos_nonneg; lia). nia.
Qed.

Definition scan_len_result (n len V : Z) : Z * Z :=
  if V >? 2147483647 then (0, n) else if u64 (n + V) >? len then (0, n) else (u64 (n + V), n).

Lemma scan_len_spec : forall bs rest len p0,
  wfv bs -> (length bs <= 5)%nat -> (forall b, In b bs -> 0 <= b < 256) ->
  Z.of_nat (length bs) <= len < 4294967296 ->
  scan_length_prefixed_data len (bs ++ rest) p0 =
  scan_len_result (Z.of_nat (length bs)) len (varint_val bs).
Proof.
  intros bs rest len p0 W L HB Hlen.
  unfold scan_length_prefixed_data, scan_len_result. cbv zeta.
  assert (EM : u32 (if len <? 5 then len else 5) = Z.min len 5).
  { destruct (Z.ltb_spec len 5); rewrite u32_small; lia. }
  rewrite EM. set (M := Z.min len 5) in *.
  match goal with |- context [@while_ _ _ _ ?b _] => set (body := b) end.
  destruct bs as [|b0 bs]; [contradiction|].
  pose proof (HB b0 (or_introl eq_refl)) as B0.
  assert (HM0 : 0 < M) by (subst M; cbn [length] in Hlen; lia).
  rewrite while_S'. unfold_body body (0, 0, 0).
  replace (0 <? M) with true by lia. cbn [app]. rdn. rewrite land128_zero by lia.
  rewrite (len_group b0 0) by lia. change (2 ^ 0) with 1. rewrite Z.mul_1_r. rewrite Z.lor_0_l.
  change (u32 (0 + 7)) with 7.
  destruct bs as [|b1 bs].
  { cbn [wfv] in W. replace (b0 <? 128) with true by lia. cbv iota.
    replace (0 =? M) with false by lia. cbv iota. change (u32 (0 + 1)) with 1.
    cbn [varint_val length]. change (Z.of_nat 1) with 1. replace (b0 mod 128 + 128 * 0) with (b0 mod 128) by lia. reflexivity. }
  cbn [wfv] in W. destruct W as [W0 W]. replace (b0 <? 128) with false by lia. cbv iota.
  change (u32 (0 + 1)) with 1.
  pose proof (HB b1 (or_intror (or_introl eq_refl))) as B1.
  assert (HM1 : 1 < M) by (subst M; cbn [length] in Hlen; lia).
  rewrite while_S'. unfold_body body (1, b0 mod 128, 7).
  replace (1 <? M) with true by lia. cbn [app]. rdn. rewrite land128_zero by lia.
  rewrite (len_group b1 7) by lia. rewrite (lor_disjoint _ _ 7) by (change (2 ^ 7) with 128; lia).
  change (u32 (7 + 7)) with 14.
  destruct bs as [|b2 bs].
  { cbn [wfv] in W. replace (b1 <? 128) with true by lia. cbv iota.
    replace (1 =? M) with false by lia. cbv iota. change (u32 (1 + 1)) with 2.
    cbn [varint_val length]. change (Z.of_nat 2) with 2. change (2 ^ 7) with 128.
    replace (b0 mod 128 + 128 * (b1 mod 128 + 128 * 0)) with (b0 mod 128 + b1 mod 128 * 128) by lia. reflexivity. }
  cbn [wfv] in W. destruct W as [W1 W]. replace (b1 <? 128) with false by lia. cbv iota.
  change (u32 (1 + 1)) with 2.
  pose proof (HB b2 (or_intror (or_intror (or_introl eq_refl)))) as B2.
  assert (HM2 : 2 < M) by (subst M; cbn [length] in Hlen; lia).
  rewrite while_S'. unfold_body body (2, b0 mod 128 + b1 mod 128 * 2 ^ 7, 14).
  replace (2 <? M) with true by lia. cbn [app]. rdn. rewrite land128_zero by lia.
  rewrite (len_group b2 14) by lia.
  rewrite (lor_disjoint _ _ 14) by (change (2 ^ 7) with 128; change (2 ^ 14) with 16384; lia).
  change (u32 (14 + 7)) with 21.
  destruct bs as [|b3 bs].
  { cbn [wfv] in W. replace (b2 <? 128) with true by lia. cbv iota.
    replace (2 =? M) with false by lia. cbv iota. change (u32 (2 + 1)) with 3.
    cbn [varint_val length]. change (Z.of_nat 3) with 3. change (2 ^ 7) with 128. change (2 ^ 14) with 16384.
    replace (b0 mod 128 + 128 * (b1 mod 128 + 128 * (b2 mod 128 + 128 * 0)))
      with (b0 mod 128 + b1 mod 128 * 128 + b2 mod 128 * 16384) by lia. reflexivity. }
  cbn [wfv] in W. destruct W as [W2 W]. replace (b2 <? 128) with false by lia. cbv iota.
  change (u32 (2 + 1)) with 3.
  pose proof (HB b3 (or_intror (or_intror (or_intror (or_introl eq_refl))))) as B3.
  assert (HM3 : 3 < M) by (subst M; cbn [length] in Hlen; lia).
  rewrite while_S'. unfold_body body (3, b0 mod 128 + b1 mod 128 * 2 ^ 7 + b2 mod 128 * 2 ^ 14, 21).
  replace (3 <? M) with true by lia. cbn [app]. rdn. rewrite land128_zero by lia.
  rewrite (len_group b3 21) by lia.
  rewrite (lor_disjoint _ _ 21) by (change (2 ^ 7) with 128; change (2 ^ 14) with 16384; change (2 ^ 21) with 2097152; lia).
  change (u32 (21 + 7)) with 28.
  destruct bs as [|b4 bs].
  { cbn [wfv] in W. replace (b3 <? 128) with true by lia. cbv iota.
    replace (3 =? M) with false by lia. cbv iota. change (u32 (3 + 1)) with 4.
    cbn [varint_val length]. change (Z.of_nat 4) with 4. change (2 ^ 7) with 128. change (2 ^ 14) with 16384.
    change (2 ^ 21) with 2097152.
    replace (b0 mod 128 + 128 * (b1 mod 128 + 128 * (b2 mod 128 + 128 * (b3 mod 128 + 128 * 0))))
      with (b0 mod 128 + b1 mod 128 * 128 + b2 mod 128 * 16384 + b3 mod 128 * 2097152) by lia. reflexivity. }
  cbn [wfv] in W. destruct W as [W3 W]. replace (b3 <? 128) with false by lia. cbv iota.
  change (u32 (3 + 1)) with 4.
  pose proof (HB b4 (or_intror (or_intror (or_intror (or_intror (or_introl eq_refl)))))) as B4.
  destruct bs as [|b5 bs]; [|cbn [length] in L; lia].
  assert (HM4 : 4 < M) by (subst M; cbn [length] in Hlen; lia).
  rewrite while_S'.
  unfold_body body (4, b0 mod 128 + b1 mod 128 * 2 ^ 7 + b2 mod 128 * 2 ^ 14 + b3 mod 128 * 2 ^ 21, 28).
  replace (4 <? M) with true by lia. cbn [app]. rdn. rewrite land128_zero by lia.
  rewrite (len_group b4 28) by lia.
  rewrite (lor_disjoint _ _ 28) by (change (2 ^ 7) with 128; change (2 ^ 14) with 16384; change (2 ^ 21) with 2097152; change (2 ^ 28) with 268435456; lia).
  cbn [wfv] in W. replace (b4 <? 128) with true by lia. cbv iota.
  replace (4 =? M) with false by lia. cbv iota. change (u32 (4 + 1)) with 5.
  cbn [varint_val length]. change (Z.of_nat 5) with 5. change (2 ^ 7) with 128. change (2 ^ 14) with 16384.
  change (2 ^ 21) with 2097152. change (2 ^ 28) with 268435456.
  replace (b0 mod 128 + 128 * (b1 mod 128 + 128 * (b2 mod 128 + 128 * (b3 mod 128 + 128 * (b4 mod 128 + 128 * 0)))))
    with (b0 mod 128 + b1 mod 128 * 128 + b2 mod 128 * 16384 + b3 mod 128 * 2097152 + b4 mod 128 * 268435456) by lia.
  reflexivity.
Qed.

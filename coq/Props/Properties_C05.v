(* C05 -- parsing arbitrary bytes is memory-safe and always terminates.
   Proved (Proofs/Terminates.v, Proofs/LeafSafe.v):
   - termination: with fuel above the input length the model of protobuf_c_message_unpack never runs out of
     fuel, for every descriptor environment, every message type, every byte string and at every nesting
     depth: the scanning loop consumes at least one byte per member, the packed-varint loop at least one
     byte per element, an embedded message is strictly shorter than the input it is embedded in;
   - no undefined behaviour in the decoding leaf functions (regenerated from protobuf-c.c by the translator,
     each with its UB-freedom predicate: array reads inside the buffer, shift amounts in range, signed
     arithmetic without overflow, loops within their bound) under exactly the preconditions their callers
     establish, for arbitrary byte contents.
   Not proved: that the pointer-walking layer above the leaves (hand-written Impl model) stays inside the
   blocks it allocated; that part of the property is decided on the implementation by the check (every input
   in an exact-size heap block under AddressSanitizer / UBSan, fork + watchdog).  Hence "partial". *)
From Coq Require Import ZArith List Bool.
From PBC Require Import Base.CInt Gen.LeafC Impl.Desc Impl.Mem Impl.Unpack Proofs.Lookup Proofs.LeafSafe Proofs.Terminates.
Import ListNotations.
Local Open Scope Z_scope.

Theorem C05_unpack_terminates : forall (E : env) fuel d data,
  (length data < fuel)%nat -> unpack E fuel d data <> Err EFuel.
Proof. exact unpack_terminates. Qed.
Print Assumptions C05_unpack_terminates.

Theorem C05_top_level_terminates : forall (E : env) d data, unpack_top E d data <> Err EFuel.
Proof. intros E d data. apply unpack_terminates. apply Nat.lt_succ_diag_r. Qed.
Print Assumptions C05_top_level_terminates.

(* the key parser never reads outside the rest of the input and never shifts out of range *)
Theorem C05_key_parser_safe : forall d t w, d <> [] -> parse_tag_and_wiretype_ok (LeafSafe.zlen d) d t w = true.
Proof. exact parse_tag_and_wiretype_safe. Qed.
Print Assumptions C05_key_parser_safe.

Theorem C05_length_scanner_safe : forall len d, 0 <= len -> forall p, len <= LeafSafe.zlen d ->
  scan_length_prefixed_data_ok len d p = true.
Proof. exact scan_length_prefixed_data_safe. Qed.
Print Assumptions C05_length_scanner_safe.

Theorem C05_packed_counter_safe : forall ty len d c, 0 <= len <= LeafSafe.zlen d -> count_packed_elements_ok ty len d c = true.
Proof. exact count_packed_elements_safe. Qed.
Print Assumptions C05_packed_counter_safe.

Theorem C05_varint_scanner_safe : forall len d, 0 <= len <= LeafSafe.zlen d -> scan_varint_ok len d = true.
Proof. exact scan_varint_safe. Qed.
Print Assumptions C05_varint_scanner_safe.

Theorem C05_uint32_parser_safe : forall len d, 1 <= len <= LeafSafe.zlen d -> parse_uint32_ok len d = true.
Proof. exact parse_uint32_safe. Qed.
Print Assumptions C05_uint32_parser_safe.

Theorem C05_uint64_parser_safe : forall len d, 1 <= len <= LeafSafe.zlen d -> len <= 10 -> parse_uint64_ok len d = true.
Proof. exact parse_uint64_safe. Qed.
Print Assumptions C05_uint64_parser_safe.

Theorem C05_boolean_parser_safe : forall len d, 0 <= len <= LeafSafe.zlen d -> len < 4294967296 -> parse_boolean_ok len d = true.
Proof. exact parse_boolean_safe. Qed.
Print Assumptions C05_boolean_parser_safe.

Theorem C05_fixed_readers_safe : forall d,
  (4 <= LeafSafe.zlen d -> parse_fixed_uint32_ok d = true) /\ (8 <= LeafSafe.zlen d -> parse_fixed_uint64_ok d = true).
Proof. intros d. split; [apply parse_fixed_uint32_safe | apply parse_fixed_uint64_safe]. Qed.
Print Assumptions C05_fixed_readers_safe.

Theorem C05_field_lookup_safe : forall n rs v, ranges_ok rs n -> -2147483648 <= v < 2147483648 -> int_range_lookup_ok n rs v = true.
Proof. exact int_range_lookup_safe. Qed.
Print Assumptions C05_field_lookup_safe.

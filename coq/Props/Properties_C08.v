(* C08 -- a refused allocation at any point fails cleanly.
   Second sentence (the simple append buffer): proved for every history (Proofs/BufHistory.v).
   First sentence (the parser): carried by the verified monitor of C07 -- its discipline contains
   "a refused request makes parsing report failure" and "when parsing fails nothing is outstanding and
   nothing is freed twice" -- run on the traces of the real parser with the k-th request refused, for
   every k below the number of requests of the failure-free run (and k+, and subsets).  Partial in the same
   sense as C07. *)
From Coq Require Import ZArith List Bool.
From PBC Require Import Impl.BufSimple Impl.Ledger Proofs.BufHistory Proofs.LedgerSound.
Import ListNotations.
Local Open Scope Z_scope.

Theorem C08_refused_growth_keeps_buffer : forall cap plan b chunk,
  1 <= cap -> binv cap b ->
  plan (b_next b) = true -> b_len b + Z.of_nat (length chunk) > b_alloced b ->
  exists b', buf_append plan b chunk = Some b' /\
    b_data b' = b_data b /\ b_len b' = b_len b /\ b_alloced b' = b_alloced b /\
    b_must_free b' = b_must_free b /\ b_blk b' = b_blk b /\
    live_blocks (b_log b') = live_blocks (b_log b).
Proof. exact buffer_refusal_keeps_state. Qed.
Print Assumptions C08_refused_growth_keeps_buffer.

Theorem C08_monitor_sound_partial : forall evs, monitor evs = true ->
  (forall pre post, evs = pre ++ EvRet true :: post -> existsb is_refuse pre = false) /\
  (forall pre post, evs = pre ++ EvRet false :: post -> forall id, n_alloc id pre = n_free id pre) /\
  (forall pre id post, evs = pre ++ EvFree id :: post -> n_alloc id pre = 1%nat /\ n_free id pre = 0%nat) /\
  ~ In EvBadFree evs.
Proof.
  intros evs H. destruct (monitor_sound evs H) as [D1 D2 D3 D4 D5 D6]. auto.
Qed.
Print Assumptions C08_monitor_sound_partial.

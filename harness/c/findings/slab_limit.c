/* Known finding (C04): protobuf_c_message_unpack rejects a valid encoding in which one message carries more than
 * 16 * (2^23 - 1) = 134217712 field occurrences ("too many fields": the ScannedMember slab table has 23 entries).
 * Here: `optional int32 x = 1;` occurring n times (a valid encoding of x = its last value; 2 bytes per occurrence).
 * usage: slab_limit <n>   prints "message <x>" or "NULL"; exit 2 when the input buffer cannot be allocated. */
#include <stdio.h>
#include <stdlib.h>
#include <stddef.h>
#include <string.h>
#include "protobuf-c/protobuf-c.h"

typedef struct { ProtobufCMessage base; protobuf_c_boolean has_x; int32_t x; } M;
static const ProtobufCFieldDescriptor m_fields[1] = {
	{ "x", 1, PROTOBUF_C_LABEL_OPTIONAL, PROTOBUF_C_TYPE_INT32, offsetof(M, has_x), offsetof(M, x), NULL, NULL, 0, 0, NULL, NULL },
};
static const unsigned m_by_name[] = { 0 };
static const ProtobufCIntRange m_ranges[1 + 1] = { { 1, 0 }, { 0, 1 } };
static const ProtobufCMessageDescriptor m_desc = {
	PROTOBUF_C__MESSAGE_DESCRIPTOR_MAGIC, "M", "M", "M", "", sizeof(M), 1, m_fields, m_by_name, 1, m_ranges,
	NULL, NULL, NULL, NULL
};

int main(int argc, char **argv)
{
	size_t n = argc > 1 ? strtoull(argv[1], NULL, 10) : 134217713u, i;
	uint8_t *buf = malloc(2 * n + 1);
	M *m;

	if (!buf)
		return 2;
	for (i = 0; i < n; i++) {
		buf[2 * i] = 0x08;
		buf[2 * i + 1] = (uint8_t) (i & 0x7f);
	}
	m = (M *) protobuf_c_message_unpack(&m_desc, NULL, 2 * n, buf);
	if (m) {
		printf("message %d\n", (int) m->x);
		protobuf_c_message_free_unpacked(&m->base, NULL);
	} else {
		printf("NULL\n");
	}
	free(buf);
	return 0;
}

(* Round trip of one field: the bytes pack writes for it are a run of
   well-formed records of that field, and parsing those records into the
   freshly initialised slot gives the slot back. *)
From Coq Require Import ZArith List Bool Lia ZifyBool.
From PBC Require Import Base.CInt Base.Bits Base.Bits2 Gen.LeafC Spec.Wire
     Impl.Desc Impl.Mem Impl.Enc Impl.Pack Impl.WF Impl.Unpack Impl.Canon
     Proofs.LeafEnc Proofs.EncLemmas Proofs.LeafDec Proofs.SizePack Proofs.ScanRec Proofs.ScanRecs
     Proofs.CellRT Proofs.CellRT2.
Import ListNotations.
Local Open Scope Z_scope.

Section FieldRT.
Variable E : env.
Variable usub : nat -> list Z -> res msg.
Variable md : mdesc.

(* the slot as the parser finds it after the scan and the allocation pass *)
Definition alloc_init (f : field) (s : slot) : slot :=
  match s with
  | SRep n _ _ => if n =? 0 then SRep 0 0 None else SRep 0 (u32 n) (Some [])
  | SOne _ _ => SOne 0 (init_cell f)
  | SUnion g => SUnion g
  end.

Definition members_of (f : field) (i : nat) (recs : list wrec) : list smember :=
  map (rec_member (f_id f) (Some i)) recs.

Lemma parse_members_app : forall a b m,
  parse_members E usub md (a ++ b) m = (do m' <- parse_members E usub md a m; parse_members E usub md b m').
Proof.
  induction a as [|x a IH]; intros b m; cbn [app parse_members bind]; [reflexivity|].
  destruct (parse_member E usub md x m); cbn [bind]; [apply IH | reflexivity].
Qed.

Lemma init_cell_as_msg : forall f, f_type f = TMessage -> as_msg (init_cell f) = Ok None.
Proof. intros f H. unfold init_cell. rewrite H. reflexivity. Qed.

(* P1: a present singular field outside any oneof *)
Lemma parse_single : forall f i v r d slots unions unk h,
  nth_error (md_fields md) i = Some f ->
  f_oneof f = false -> label_eqb (f_label f) LRepeated = false ->
  nth_error slots i = Some (SOne h (init_cell f)) ->
  r_wt r = wire_type_of (f_type f) ->
  (forall i0 old mc, (mc = true -> f_type f = TMessage -> as_msg old = Ok None) ->
     parse_required E usub f (new_member (f_id f) (wire_type_of (f_type f)) (Some i0) (r_payload r) (r_pref r)) old mc = Ok v) ->
  parse_member E usub md (rec_member (f_id f) (Some i) r) (Msg d slots unions unk) =
  Ok (Msg d (set_nth slots i (SOne (match f_label f with
                                    | LRequired => h
                                    | _ => match f_quant f with QNone => h | _ => 1 end
                                    end) v)) unions unk).
Proof.
  intros f i v r d slots unions unk h Hn Ho Hrep Hs Hwt Hpr.
  unfold parse_member, rec_member, new_member. cbn [sm_field]. rewrite Hn, Hs.
  assert (Hcall : parse_required E usub f
                    {| sm_tag := f_id f; sm_wt := r_wt r; sm_field := Some i; sm_len := zlen (r_payload r);
                       sm_pref := r_pref r; sm_data := r_payload r |} (init_cell f) true = Ok v).
  { rewrite Hwt. apply (Hpr i (init_cell f) true). intros _ Ht. apply init_cell_as_msg. exact Ht. }
  destruct (f_label f) eqn:El; try discriminate Hrep.
  - rewrite Hcall. reflexivity.
  - rewrite Ho. rewrite Hcall. reflexivity.
  - rewrite Ho. rewrite Hcall. reflexivity.
Qed.

(* P2: the selected member of a oneof *)
Lemma parse_oneof : forall f i g v r d slots unions unk,
  nth_error (md_fields md) i = Some f ->
  f_oneof f = true -> (f_label f = LOptional \/ f_label f = LNone) ->
  nth_error slots i = Some (SUnion g) ->
  nth_error unions g = Some (0, VWord 0) ->
  r_wt r = wire_type_of (f_type f) ->
  (forall i0 old mc, (mc = true -> f_type f = TMessage -> as_msg old = Ok None) ->
     parse_required E usub f (new_member (f_id f) (wire_type_of (f_type f)) (Some i0) (r_payload r) (r_pref r)) old mc = Ok v) ->
  parse_member E usub md (rec_member (f_id f) (Some i) r) (Msg d slots unions unk) =
  Ok (Msg d slots (set_nth unions g (f_id f, v)) unk).
Proof.
  intros f i g v r d slots unions unk Hn Ho Hl Hs Hu Hwt Hpr.
  unfold parse_member, rec_member, new_member. cbn [sm_field sm_tag]. rewrite Hn, Hs, Hu.
  assert (Hcall : parse_required E usub f
                    {| sm_tag := f_id f; sm_wt := r_wt r; sm_field := Some i; sm_len := zlen (r_payload r);
                       sm_pref := r_pref r; sm_data := r_payload r |} (VWord 0) true = Ok v).
  { rewrite Hwt. apply (Hpr i (VWord 0) true). intros _ _. reflexivity. }
  destruct Hl as [El | El]; rewrite El, Ho; cbn [Z.eqb negb andb bind]; rewrite Hcall; reflexivity.
Qed.

(* P3: elements of a repeated field arriving one record each *)
Lemma parse_unpacked : forall f i recs vs d slots unions unk k cap l,
  nth_error (md_fields md) i = Some f ->
  f_label f = LRepeated ->
  Forall (fun r => r_wt r = wire_type_of (f_type f) /\ packed_arrival f (r_wt r) = false) recs ->
  Forall2 (fun r v => forall i0 old mc, (mc = true -> f_type f = TMessage -> as_msg old = Ok None) ->
             parse_required E usub f (new_member (f_id f) (wire_type_of (f_type f)) (Some i0) (r_payload r) (r_pref r)) old mc = Ok v)
          recs vs ->
  nth_error slots i = Some (SRep k cap (Some l)) ->
  k + zlen vs <= cap ->
  parse_members E usub md (members_of f i recs) (Msg d slots unions unk) =
  Ok (Msg d (set_nth slots i (SRep (k + zlen vs) cap (Some (l ++ vs)))) unions unk).
Proof.
  intros f i recs. induction recs as [|r recs IH]; intros vs d slots unions unk k cap l Hn El Hw Hp Hs Hcap.
  - inversion Hp; subst. cbn [members_of map parse_members]. rewrite Z.add_0_r, app_nil_r.
    rewrite set_nth_same by exact Hs. reflexivity.
  - inversion Hp as [|? v ? vs' Hpr Hp']; subst. inversion Hw as [|? ? [Hwt Hpa] Hw']; subst.
    cbn [members_of map parse_members].
    assert (Hstep : parse_member E usub md (rec_member (f_id f) (Some i) r) (Msg d slots unions unk) =
                    Ok (Msg d (set_nth slots i (SRep (k + 1) cap (Some (l ++ [v])))) unions unk)).
    { unfold parse_member, rec_member, new_member. cbn [sm_field sm_wt]. rewrite Hn, Hs, El, Hpa.
      assert (Hcall : parse_required E usub f
                        {| sm_tag := f_id f; sm_wt := r_wt r; sm_field := Some i; sm_len := zlen (r_payload r);
                           sm_pref := r_pref r; sm_data := r_payload r |} (VWord 0) false = Ok v).
      { rewrite Hwt. apply (Hpr i (VWord 0) false). discriminate. }
      rewrite Hcall. cbn [bind append_elems]. change (zlen [v]) with 1.
      rewrite zlen_cons in Hcap. pose proof (zlen_nonneg _ vs').
      replace (k + 1 <=? cap) with true by lia. reflexivity. }
    rewrite Hstep. cbn [bind]. fold (members_of f i recs).
    assert (Hil : (i < length slots)%nat) by (apply nth_error_Some; rewrite Hs; discriminate).
    rewrite (IH vs' d _ unions unk (k + 1) cap (l ++ [v]) Hn El Hw' Hp').
    + rewrite set_nth_set_nth. rewrite zlen_cons, <- app_assoc. cbn [app]. f_equal. f_equal. f_equal. f_equal. lia.
    + apply nth_error_set_nth. exact Hil.
    + rewrite zlen_cons in Hcap. lia.
Qed.

End FieldRT.

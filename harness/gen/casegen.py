"""Case generators for the Impl <-> C correspondence (harness/FORMAT.md): schemas, well-formed
messages, wire encodings (canonical, valid re-encodings, corruptions, random), defect-planted
messages, allocation-failure plans and buffer histories.  Every random choice derives from one
random.Random so that a case file is reproducible from (seed, parameters)."""
import random, struct

T4 = ['INT32', 'SINT32', 'SFIXED32', 'UINT32', 'FIXED32', 'FLOAT', 'BOOL', 'ENUM']
T8 = ['INT64', 'SINT64', 'SFIXED64', 'UINT64', 'FIXED64', 'DOUBLE']
SCALARS = T4 + T8
TYPES = SCALARS + ['STRING', 'BYTES', 'MESSAGE']
VARINT_T = ['INT32', 'SINT32', 'UINT32', 'BOOL', 'ENUM', 'INT64', 'SINT64', 'UINT64']
WT = {'INT32': 0, 'SINT32': 0, 'UINT32': 0, 'BOOL': 0, 'ENUM': 0, 'INT64': 0, 'SINT64': 0, 'UINT64': 0,
      'SFIXED32': 5, 'FIXED32': 5, 'FLOAT': 5, 'SFIXED64': 1, 'FIXED64': 1, 'DOUBLE': 1,
      'STRING': 2, 'BYTES': 2, 'MESSAGE': 2}
M32, M64 = (1 << 32) - 1, (1 << 64) - 1


def hexs(bs):
    return bytes(bs).hex() if len(bs) else '-'


# ---------------------------------------------------------------- schema
class Field:
    def __init__(self, id, label, type, quant, packed=0, oneof=0, sub=None, default=None):
        self.id = id; self.label = label; self.type = type; self.quant = quant
        self.packed = packed; self.oneof = oneof; self.sub = sub; self.default = default
        self.deprecated = 0      # PROTOBUF_C_FIELD_FLAG_DEPRECATED: no effect on behaviour, but the flags word is no longer a single bit

    def line(self):
        d = '-'
        if self.default is not None:
            k, v = self.default
            d = 'W:%016x' % v if k == 'W' else '%s:%s' % (k, bytes(v).hex())
        return 'F %d %s %s %s %d %d %s %s' % (self.id, self.label, self.type, self.quant, self.packed + 2 * self.deprecated,
                                              self.oneof, '-' if self.sub is None else self.sub, d)

    def group(self):
        return int(self.quant[1:]) if self.quant.startswith('C') else None


class MsgDesc:
    def __init__(self, idx, fields, n_oneofs, generic_init):
        self.idx = idx; self.fields = sorted(fields, key=lambda f: f.id)
        self.n_oneofs = n_oneofs; self.generic_init = generic_init
        self.by_id = {f.id: f for f in self.fields}


class Env:
    def __init__(self, msgs):
        self.msgs = msgs

    def text(self):
        out = ['ENV %d' % len(self.msgs)]
        for m in self.msgs:
            out.append('MSG %d %d %d %d' % (m.idx, len(m.fields), m.n_oneofs, m.generic_init))
            out += [f.line() for f in m.fields]
        out.append('END')
        return '\n'.join(out) + '\n'


ID_POOL = [1, 2, 3, 4, 5, 7, 8, 15, 16, 17, 100, 127, 128, 2047, 2048, 2049, 16383, 16384, 262143, 262144,
           (1 << 25) - 1, 1 << 25, (1 << 29) - 1]


def gen_ids(rnd, n, dense=False):
    if dense:
        start = rnd.choice([1, 1, 1, 10, 120, 2040])
        ids = list(range(start, start + n))
        if rnd.random() < 0.3 and n > 3:
            ids.pop(rnd.randrange(1, n - 1))
            ids.append(ids[-1] + rnd.choice([2, 5, 1000]))
        return ids
    s = set()
    while len(s) < n:
        r = rnd.random()
        if r < 0.5:
            s.add(rnd.randint(1, 40))
        elif r < 0.8:
            s.add(rnd.choice(ID_POOL))
        else:
            s.add(rnd.randint(1, (1 << 29) - 1))
    return sorted(s)


def sample_word(rnd, t):
    """raw cell bits for a scalar of type t (boundary-heavy)"""
    bits = 32 if t in T4 else 64
    m = (1 << bits) - 1
    if t == 'BOOL':
        return rnd.choice([0, 1])
    if t == 'FLOAT':
        return rnd.choice([0, 0x80000000, 0x3f800000, 0x7f800000, 0xff800000, 0x7fc00000, 0x7fa00001, 1,
                           0x4b800001, rnd.getrandbits(32)])
    if t == 'DOUBLE':
        return rnd.choice([0, 1 << 63, 0x3ff0000000000000, 0x7ff0000000000000, 0xfff0000000000000,
                           0x7ff8000000000000, 0x7ff0000000000001, 1, 0x4340000000000001, rnd.getrandbits(64)])
    r = rnd.random()
    if r < 0.45:
        k = rnd.choice([0, 1, 6, 7, 8, 13, 14, 15, 20, 21, 22, 27, 28, 29, 31, 32, 34, 35, 36, 41, 42, 43, 48, 49,
                        50, 55, 56, 57, 62, 63])
        k = min(k, bits - 1)
        v = (1 << k) + rnd.choice([-1, 0, 1])
        if rnd.random() < 0.4:
            v = -v
        return v & m
    if r < 0.6:
        return rnd.choice([0, 1, m, m >> 1, (m >> 1) + 1, m - 1])
    return rnd.getrandbits(rnd.randint(1, bits)) & m


def gen_env(rnd, nmsgs=None, big=False, oneof_defaults=False, wide=False):
    """wide: message 0 is proto2 with more than 128 fields (the parser's required-fields bitmap leaves the stack)"""
    nmsgs = nmsgs or rnd.randint(1, 4)
    msgs = []
    for idx in range(nmsgs):
        proto3 = rnd.random() < 0.4
        nf = rnd.choice([0, 1, 2, 3, 5, 8, 12]) if not big else rnd.choice([17, 40, 130, 200])
        if wide and idx == 0:
            proto3 = False
            # beyond 128: heap bitmap; beyond 256: field indices that need more than a byte (wide = 300 asks for that)
            nf = wide if (wide is not True and wide > 1) else rnd.choice([130, 200, 300])
        ids = gen_ids(rnd, nf, dense=big or rnd.random() < 0.4)
        n_oneofs = 0
        fields = []
        i = 0
        while i < len(ids):
            r = rnd.random()
            if r < 0.15 and i + 1 < len(ids) and not big:
                # a oneof group of 2..4 members
                g = n_oneofs; n_oneofs += 1
                k = min(rnd.randint(2, 4), len(ids) - i)
                for j in range(k):
                    t = rnd.choice(TYPES)
                    odef = None
                    if oneof_defaults and not proto3 and rnd.random() < 0.6:
                        # proto2 allows [default=...] on oneof members (outside the domain of the C01 theorem: env_ok)
                        if t in SCALARS:
                            odef = ('W', sample_word(rnd, t))
                        elif t == 'STRING':
                            odef = ('S', [rnd.randint(1, 255) for _ in range(rnd.randint(0, 5))])
                        elif t == 'BYTES':
                            odef = ('B', [rnd.randint(0, 255) for _ in range(rnd.randint(0, 5))])
                    fields.append(Field(ids[i + j], 'NONE' if proto3 else 'OPT', t, 'C%d' % g, 0, 1,
                                        rnd.randrange(nmsgs) if t == 'MESSAGE' else None, odef))
                i += k
                continue
            t = rnd.choice(TYPES)
            sub = rnd.randrange(nmsgs) if t == 'MESSAGE' else None
            lab = rnd.choice(['NONE', 'REP', 'REP', 'NONE'] if proto3 else ['REQ', 'OPT', 'OPT', 'REP', 'REP'])
            if big and rnd.random() < 0.5:
                lab = 'REQ' if not proto3 else 'NONE'
            default = None
            if lab == 'REP':
                packed = 1 if (t in SCALARS and rnd.random() < (0.8 if proto3 else 0.5)) else 0
                fields.append(Field(ids[i], 'REP', t, 'K', packed, 0, sub))
            elif lab == 'REQ':
                if t in SCALARS and rnd.random() < 0.25:
                    default = ('W', sample_word(rnd, t))
                elif t == 'STRING' and rnd.random() < 0.35:
                    default = ('S', [rnd.randint(1, 255) for _ in range(rnd.randint(0, 8))])
                elif t == 'BYTES' and rnd.random() < 0.35:
                    default = ('B', [rnd.randint(0, 255) for _ in range(rnd.randint(0, 8))])
                fields.append(Field(ids[i], 'REQ', t, 'N', 0, 0, sub, default))
            elif lab == 'OPT':
                if t in SCALARS and rnd.random() < 0.3:
                    default = ('W', sample_word(rnd, t))
                elif t == 'STRING' and rnd.random() < 0.4:
                    default = ('S', [rnd.randint(1, 255) for _ in range(rnd.choice([0, 1, 2, 3, 5, 13]))])
                elif t == 'BYTES' and rnd.random() < 0.4:
                    default = ('B', [rnd.randint(0, 255) for _ in range(rnd.choice([0, 1, 2, 3, 5, 13]))])
                q = 'N' if t in ('STRING', 'MESSAGE') else 'H'
                fields.append(Field(ids[i], 'OPT', t, q, 0, 0, sub, default))
            else:
                if t == 'STRING':
                    default = ('S', [])      # &protobuf_c_empty_string
                fields.append(Field(ids[i], 'NONE', t, 'N', 0, 0, sub, default))
            i += 1
        msgs.append(MsgDesc(idx, fields, n_oneofs, 1 if rnd.random() < 0.5 else 0))
    # avoid infinitely-required recursion: a required message field must not reach its own type
    for m in msgs:
        for f in m.fields:
            if f.type == 'MESSAGE' and f.label == 'REQ' and f.sub <= m.idx:
                f.label = 'OPT'
            if rnd.random() < 0.2:
                f.deprecated = 1
    return Env(msgs)


def corner_envs():
    """hand-made schemas that put rare shapes next to each other, so that every run exercises them:
    defaults on oneof members and on optional/required fields of every kind, proto3 fields of every 64-bit type,
    packed and unpacked repeated fields of every scalar type, nesting through every label."""
    F = Field
    e1 = Env([MsgDesc(0, [
        F(1, 'OPT', 'STRING', 'C0', 0, 1, None, ('S', [117, 110, 110, 97, 109, 101, 100])),
        F(2, 'OPT', 'BYTES', 'C0', 0, 1, None, ('B', [1, 0, 255])),
        F(3, 'OPT', 'INT32', 'C0', 0, 1, None, ('W', 7)),
        F(4, 'OPT', 'MESSAGE', 'C0', 0, 1, 1),
        F(5, 'OPT', 'STRING', 'N', 0, 0, None, ('S', [100, 102, 108, 116])),
        F(6, 'OPT', 'BYTES', 'H', 0, 0, None, ('B', [9, 8])),
        F(7, 'REQ', 'SINT64', 'N', 0, 0, None, ('W', 5)),
        F(8, 'OPT', 'DOUBLE', 'H', 0, 0, None, ('W', 0x8000000000000000)),
        F(9, 'OPT', 'STRING', 'C1', 0, 1, None, ('S', [])),
        F(10, 'OPT', 'BOOL', 'C1', 0, 1, None, ('W', 1)),
    ], 2, 1), MsgDesc(1, [
        F(1, 'OPT', 'MESSAGE', 'N', 0, 0, 0),
        F(2, 'REP', 'MESSAGE', 'K', 0, 0, 0),
        F(3, 'OPT', 'STRING', 'C0', 0, 1, None, ('S', [120])),
        F(4, 'OPT', 'FIXED64', 'C0', 0, 1, None),
    ], 1, 0)])
    p3 = []
    for i, t in enumerate(TYPES):
        if t != 'MESSAGE':
            p3.append(F(i + 1, 'NONE', t, 'N', 0, 0, None, ('S', []) if t == 'STRING' else None))
    p3.append(F(40, 'NONE', 'MESSAGE', 'N', 0, 0, 0))
    p3.append(F(41, 'NONE', 'INT64', 'C0', 0, 1, None))
    p3.append(F(42, 'NONE', 'STRING', 'C0', 0, 1, None))
    p3.append(F(43, 'NONE', 'BYTES', 'C0', 0, 1, None))
    p3.append(F(44, 'NONE', 'MESSAGE', 'C0', 0, 1, 0))
    e2 = Env([MsgDesc(0, p3, 1, 1)])
    reps = []
    n = 1
    for t in TYPES:
        if t in SCALARS:
            reps.append(F(n, 'REP', t, 'K', 1, 0, None)); n += 1
            reps.append(F(n, 'REP', t, 'K', 0, 0, None)); n += 1
    reps.append(F(n, 'REP', 'STRING', 'K', 0, 0, None)); n += 1
    reps.append(F(n, 'REP', 'BYTES', 'K', 0, 0, None)); n += 1
    reps.append(F(n, 'REP', 'MESSAGE', 'K', 0, 0, 0)); n += 1
    for i, f in enumerate(reps):
        f.deprecated = 1 if i % 3 == 0 else 0
    e3 = Env([MsgDesc(0, reps, 0, 0)])
    # oneofs with several message-typed members inside a message that can be split over occurrences (merge paths)
    e4 = Env([MsgDesc(0, [F(1, 'OPT', 'MESSAGE', 'N', 0, 0, 1), F(2, 'REP', 'MESSAGE', 'K', 0, 0, 1)], 0, 0),
              MsgDesc(1, [F(1, 'OPT', 'MESSAGE', 'C0', 0, 1, 2), F(2, 'OPT', 'MESSAGE', 'C0', 0, 1, 2),
                          F(3, 'OPT', 'INT32', 'C0', 0, 1, None), F(4, 'OPT', 'STRING', 'C0', 0, 1, None),
                          F(5, 'REP', 'INT32', 'K', 0, 0, None), F(6, 'OPT', 'BYTES', 'C1', 0, 1, None),
                          F(7, 'OPT', 'MESSAGE', 'C1', 0, 1, 1), F(8, 'OPT', 'BYTES', 'H', 0, 0, None)], 2, 1),
              MsgDesc(2, [F(1, 'OPT', 'INT32', 'H', 0, 0, None), F(2, 'OPT', 'STRING', 'N', 0, 0, None),
                          F(3, 'REP', 'STRING', 'K', 0, 0, None)], 0, 0)])
    e5 = Env([MsgDesc(0, [F(1, 'NONE', 'MESSAGE', 'N', 0, 0, 1)], 0, 1),
              MsgDesc(1, [F(1, 'NONE', 'MESSAGE', 'C0', 0, 1, 1), F(2, 'NONE', 'MESSAGE', 'C0', 0, 1, 0),
                          F(3, 'NONE', 'SINT64', 'C0', 0, 1, None), F(4, 'NONE', 'INT64', 'N', 0, 0, None),
                          F(5, 'NONE', 'BYTES', 'N', 0, 0, None), F(6, 'REP', 'DOUBLE', 'K', 1, 0, None)], 1, 0)])
    # required sub-messages inside messages that can be split over occurrences: every fragment carries the required member,
    # the fragments of the required member are merged (required sub-message two levels deep, with a oneof and a repeated field)
    e6 = Env([MsgDesc(0, [F(1, 'OPT', 'MESSAGE', 'N', 0, 0, 1), F(2, 'REP', 'MESSAGE', 'K', 0, 0, 1), F(3, 'REQ', 'MESSAGE', 'N', 0, 0, 2)], 0, 1),
              MsgDesc(1, [F(1, 'REQ', 'MESSAGE', 'N', 0, 0, 2), F(2, 'OPT', 'INT32', 'H', 0, 0, None),
                          F(3, 'REP', 'STRING', 'K', 0, 0, None), F(4, 'OPT', 'MESSAGE', 'C0', 0, 1, 3),
                          F(5, 'OPT', 'SINT32', 'C0', 0, 1, None)], 1, 0),
              MsgDesc(2, [F(1, 'OPT', 'INT32', 'H', 0, 0, None), F(2, 'OPT', 'INT64', 'H', 0, 0, None),
                          F(3, 'REP', 'UINT32', 'K', 1, 0, None), F(4, 'REQ', 'MESSAGE', 'N', 0, 0, 3),
                          F(5, 'OPT', 'STRING', 'N', 0, 0, None, ('S', [100]))], 0, 1),
              MsgDesc(3, [F(1, 'OPT', 'BYTES', 'H', 0, 0, None), F(2, 'REP', 'SFIXED32', 'K', 0, 0, None),
                          F(3, 'OPT', 'BOOL', 'H', 0, 0, None)], 0, 0)])
    # a message type that declares no fields at all, nested through every kind of member (it still carries unknown fields),
    # and required string / bytes members with declared defaults
    e7 = Env([MsgDesc(0, [F(1, 'REQ', 'INT32', 'N', 0, 0, None), F(2, 'OPT', 'MESSAGE', 'N', 0, 0, 1), F(3, 'REP', 'MESSAGE', 'K', 0, 0, 1),
                          F(4, 'OPT', 'MESSAGE', 'C0', 0, 1, 1), F(5, 'OPT', 'INT32', 'C0', 0, 1, None), F(6, 'REQ', 'MESSAGE', 'N', 0, 0, 1),
                          F(7, 'OPT', 'INT32', 'H', 0, 0, None), F(8, 'REQ', 'STRING', 'N', 0, 0, None, ('S', [114, 101, 113])),
                          F(9, 'REQ', 'BYTES', 'N', 0, 0, None, ('B', [1, 2, 0, 4, 5, 6, 7, 8, 9, 10, 11, 12, 13])),
                          F(10, 'OPT', 'BYTES', 'H', 0, 0, None, ('B', [99, 104, 97, 114, 97, 99, 116, 101, 114]))], 1, 0),
              MsgDesc(1, [], 0, 1)])
    # oneof members that carry a second descriptor flag (deprecated), inside a message that can be split over occurrences:
    # the lowest-numbered member a deprecated 32-bit scalar, 64-bit and pointer members beside it
    e8 = Env([MsgDesc(0, [F(1, 'OPT', 'MESSAGE', 'N', 0, 0, 1), F(2, 'REP', 'MESSAGE', 'K', 0, 0, 1)], 0, 0),
              MsgDesc(1, [F(1, 'OPT', 'INT32', 'C0', 0, 1, None), F(2, 'OPT', 'INT64', 'C0', 0, 1, None),
                          F(3, 'OPT', 'DOUBLE', 'C0', 0, 1, None), F(4, 'OPT', 'STRING', 'C0', 0, 1, None),
                          F(5, 'OPT', 'MESSAGE', 'C0', 0, 1, 2), F(6, 'OPT', 'STRING', 'C1', 0, 1, None),
                          F(7, 'OPT', 'FIXED64', 'C1', 0, 1, None), F(8, 'OPT', 'BOOL', 'C1', 0, 1, None),
                          F(9, 'OPT', 'INT32', 'H', 0, 0, None)], 2, 1),
              MsgDesc(2, [F(1, 'OPT', 'INT32', 'H', 0, 0, None), F(2, 'REP', 'INT32', 'K', 0, 0, None)], 0, 0)])
    for f in e8.msgs[1].fields:
        if f.id in (1, 4, 5, 6):
            f.deprecated = 1
    return [e1, e2, e3, e4, e5, e6, e7, e8]


# ---------------------------------------------------------------- messages
class Msg:
    def __init__(self, d, slots, unions, unk):
        self.d = d; self.slots = slots; self.unions = unions; self.unk = unk


def ptr_text(p):
    return p if isinstance(p, str) else 'H ' + hexs(p[1])


def cell_text(c):
    k = c[0]
    if k == 'W':
        return 'W %016x' % c[1]
    if k == 'T':
        return 'T ' + ptr_text(c[1])
    if k == 'B':
        return 'B %d %s' % (c[1], ptr_text(c[2]))
    if k == 'G':
        return 'G N' if c[1] is None else 'G ' + msg_text(c[1])
    raise ValueError(k)


def msg_text(m):
    out = ['M %d %d' % (m.d, len(m.slots))]
    for s in m.slots:
        if s[0] == 'S':
            out.append('S %d %s' % (s[1], cell_text(s[2])))
        elif s[0] == 'R':
            if s[2] is None:
                out.append('R %d %d N' % (s[1], s[1]))
            else:
                out.append('R %d %d A %d%s' % (s[1], len(s[2]), len(s[2]), ''.join(' ' + cell_text(c) for c in s[2])))
        else:
            out.append('U %d' % s[1])
    out.append(str(len(m.unions)))
    for case, cell in m.unions:
        out.append('%d %s' % (case, cell_text(cell)))
    out.append(str(len(m.unk)))
    for tag, wt, data in m.unk:
        out.append('%d %d %s' % (tag, wt, hexs(data)))
    return ' '.join(out)


def gen_bytes(rnd, nul_ok=True, maxlen=None):
    n = rnd.choice([0, 0, 1, 2, 3, 5, 20, 126, 127, 128, 129, 300]) if maxlen is None else rnd.randint(0, maxlen)
    if BUDGET[0] < 0:
        n = min(n, 3)
    if rnd.random() < 0.01 and maxlen is None and BUDGET[0] > 0:
        n = rnd.choice([16383, 16384, 20000])
    BUDGET[0] -= n // 16
    lo = 0 if nul_ok else 1
    return [rnd.randint(lo, 255) for _ in range(n)]


def gen_cell(rnd, env, f, depth, in_array=False, canon=False):
    t = f.type
    if t in SCALARS:
        if t == 'BOOL' and not canon and rnd.random() < 0.3:
            # protobuf_c_boolean is an int: any non-zero value is "true" (mode & 0x100, -1, ...)
            return ('W', rnd.choice([2, 255, 256, 0x10000, 0x80000000, 0xffffffff]))
        return ('W', sample_word(rnd, t))
    if t == 'STRING':
        if not canon and not in_array and f.default is not None and rnd.random() < 0.3:
            return ('T', 'D')          # the pointer is the default object itself: treated as absent by the serialisers
        if not in_array and f.default is not None and len(f.default[1]) > 0 and rnd.random() < 0.4:
            return ('T', ('H', gen_bytes(rnd, nul_ok=False, maxlen=len(f.default[1]))))
        return ('T', ('H', gen_bytes(rnd, nul_ok=False)))
    if t == 'BYTES':
        if not canon and not in_array and f.default is not None and rnd.random() < 0.2:
            return ('B', len(f.default[1]), 'D')
        b = gen_bytes(rnd)
        if not in_array and f.default is not None and len(f.default[1]) > 0 and rnd.random() < 0.4:
            b = gen_bytes(rnd, maxlen=len(f.default[1]))        # a value that would fit in the default's storage
        if not b and not in_array and rnd.random() < 0.5:
            return ('B', 0, 'N')
        if not b:
            return ('B', 0, 'N') if canon else ('B', 0, ('H', []))
        return ('B', len(b), ('H', b))
    return ('G', gen_msg(rnd, env, f.sub, depth + 1, canon=canon))


def gen_unknown(rnd, desc, n=None):
    out = []
    for _ in range(rnd.choice([0, 0, 0, 1, 2, 4]) if n is None else n):
        while True:
            tag = rnd.choice([rnd.randint(1, 50), rnd.choice(ID_POOL), rnd.randint(1, (1 << 29) - 1)])
            if tag not in desc.by_id:
                break
        wt = rnd.choice([0, 1, 2, 5])
        if wt == 0:
            data = varint(rnd.getrandbits(rnd.choice([1, 7, 8, 32, 64])))
        elif wt == 1:
            data = [rnd.randint(0, 255) for _ in range(8)]
        elif wt == 5:
            data = [rnd.randint(0, 255) for _ in range(4)]
        else:
            b = gen_bytes(rnd, maxlen=200)
            data = varint(len(b)) + b
        out.append((tag, wt, data))
    return out


BUDGET = [0]


NULL_REQ = [0.0]    # probability that a REQUIRED sub-message pointer is left NULL (serialisable: written as an empty message;
                    # rejected by protobuf_c_message_check); set by the callers that want such messages


def gen_msg(rnd, env, d, depth=0, canon=False):
    """a well-formed message of type d.  canon: only states the parser itself can produce
    (so that pack -> unpack gives back the same text).  A global cell budget keeps one
    message below a few thousand cells whatever the schema."""
    desc = env.msgs[d]
    if depth == 0:
        BUDGET[0] = 1500
    BUDGET[0] -= len(desc.fields)
    if BUDGET[0] < 0 and depth < 6:
        depth = max(depth, 3)
    slots = []
    unions = [(0, ('W', 0)) for _ in range(desc.n_oneofs)]
    for f in desc.fields:
        g = f.group()
        if g is not None:
            slots.append(('U', g))
            continue
        absent = rnd.random() < (0.35 + 0.15 * depth) or (BUDGET[0] < 0 and f.label != 'REQ')
        if len(desc.fields) > 30 and rnd.random() < 0.5:
            absent = True
        if f.label == 'REP':
            if absent or (f.type == 'MESSAGE' and depth >= 3):
                slots.append(('R', 0, None))
            else:
                n = rnd.choice([1, 1, 2, 3, 5, 17]) if f.type != 'MESSAGE' else rnd.choice([1, 2, 3])
                if f.type in SCALARS and rnd.random() < 0.08:
                    n = rnd.choice([126, 127, 128, 129, 300])
                slots.append(('R', n, [gen_cell(rnd, env, f, depth, True, canon) for _ in range(n)]))
        elif f.label == 'REQ':
            if f.type == 'MESSAGE' and not canon and NULL_REQ[0] > 0 and rnd.random() < NULL_REQ[0]:
                slots.append(('S', 0, ('G', None)))
            elif f.type == 'MESSAGE' and depth >= 4:
                # cannot stop here: required sub-message, keep it minimal
                slots.append(('S', 0, gen_cell(rnd, env, f, depth, canon=canon)))
            else:
                slots.append(('S', 0, gen_cell(rnd, env, f, depth, canon=canon)))
        elif f.label == 'OPT':
            if absent or (f.type == 'MESSAGE' and depth >= 3):
                if not canon and f.type == 'STRING' and f.default is not None and rnd.random() < 0.3:
                    slots.append(('S', 0, ('T', 'N')))       # the caller cleared the pointer: absent, like the default pointer
                else:
                    slots.append(('S', 0, default_cell(f)))
            else:
                has = 1 if f.quant == 'H' else 0
                slots.append(('S', has, gen_cell(rnd, env, f, depth, canon=canon)))
        else:   # NONE (proto3 implicit presence)
            if absent or (f.type == 'MESSAGE' and depth >= 3):
                if not canon and f.type == 'STRING' and rnd.random() < 0.4:
                    slots.append(('S', 0, ('T', 'N')))       # a NULL string is "zero" too
                else:
                    slots.append(('S', 0, default_cell(f)))
            else:
                c = gen_cell(rnd, env, f, depth, canon=canon)
                if canon and is_zero_cell(f, c):
                    c = default_cell(f)
                slots.append(('S', 0, c))
    # oneofs: choose at most one member per group
    for g in range(desc.n_oneofs):
        members = [f for f in desc.fields if f.group() == g]
        if members and rnd.random() < 0.7:
            f = rnd.choice(members)
            if not (f.type == 'MESSAGE' and depth >= 3):
                unions[g] = (f.id, gen_cell(rnd, env, f, depth, canon=canon))
    unk = gen_unknown(rnd, desc) if rnd.random() < 0.3 else []
    return Msg(d, slots, unions, unk)


def default_cell(f):
    t = f.type
    if t in SCALARS:
        return ('W', f.default[1] if f.default else 0)
    if t == 'STRING':
        return ('T', 'D' if f.default else 'N')
    if t == 'BYTES':
        return ('B', len(f.default[1]), 'D') if f.default else ('B', 0, 'N')
    return ('G', None)


def is_zero_cell(f, c):
    if c[0] == 'W':
        return (c[1] & (M32 if f.type in T4 else M64)) == 0
    if c[0] == 'T':
        return c[1] == 'N' or (c[1] != 'D' and len(c[1][1]) == 0)
    if c[0] == 'B':
        return c[1] == 0
    return c[1] is None


# ---------------------------------------------------------------- wire encoding (reference encoder in Python)
def varint(v, pad=0):
    v &= M64
    out = []
    while True:
        b = v & 0x7f
        v >>= 7
        if v or pad:
            out.append(b | 0x80)
        else:
            out.append(b)
            break
        if not v and pad:
            out += [0x80] * (pad - 1) + [0x00]
            break
    return out


def zz(v, bits):
    if v >= 1 << (bits - 1):
        v -= 1 << bits
    return ((v << 1) ^ (v >> (bits - 1))) & ((1 << bits) - 1)


def enc_scalar(t, w, rnd=None, pad=False):
    """payload bytes after the key for raw cell bits w"""
    p = 0
    if t in T4:
        w &= M32
    if t in ('INT32', 'ENUM'):
        v = w if w < (1 << 31) else w | (M64 ^ M32)
    elif t == 'SINT32':
        v = zz(w, 32)
    elif t == 'SINT64':
        v = zz(w, 64)
    elif t == 'BOOL':
        v = 1 if w else 0
    elif t in ('SFIXED32', 'FIXED32', 'FLOAT'):
        return list(struct.pack('<I', w))
    elif t in ('SFIXED64', 'FIXED64', 'DOUBLE'):
        return list(struct.pack('<Q', w))
    else:
        v = w
    b = varint(v)
    if pad and rnd is not None and len(b) < 10:
        p = rnd.randint(1, 10 - len(b))
        b = varint(v, p)
    return b


def key(id, wt, pad=0):
    # a key may be padded up to 5 bytes in all (what the parser accepts, C04)
    n = len(varint((id << 3) | wt))
    return varint((id << 3) | wt, max(0, min(pad, 5 - n)))


def lenpref(n, rnd=None, pad=False):
    b = varint(n)
    if pad and rnd is not None and len(b) < 5:
        b = varint(n, rnd.randint(1, 5 - len(b)))
    return b


class Opts:
    """how non-canonical the encoding may be"""
    def __init__(self, rnd=None, shuffle=False, pad=False, repack=False, split=False, stale=False, unknown=False, drop=None, split_ok=None,
                 lead_unknown=False, bad_later=False):
        self.rnd = rnd; self.shuffle = shuffle; self.pad = pad; self.repack = repack
        self.split = split; self.stale = stale; self.unknown = unknown
        self.lead_unknown = lead_unknown   # every message starts with an unknown field (the scan has resolved no field yet)
        self.bad_later = bad_later         # once: a singular message field that is present gets one more occurrence whose payload is rejected
        self.bad_done = False
        self.drop = drop          # (message type index, field id): leave that field out of every message of that type
        self.split_ok = split_ok  # predicate on a MsgDesc: may an embedded message of that type be split over several occurrences


def cell_payload(env, f, c, o):
    t = f.type
    rnd = o.rnd
    if t in SCALARS:
        return enc_scalar(t, c[1], rnd, o.pad and rnd.random() < 0.3)
    if t == 'STRING':
        b = [] if isinstance(c[1], str) else c[1][1]
        if c[1] == 'D':
            b = list(f.default[1])
        return lenpref(len(b), rnd, o.pad and rnd.random() < 0.3) + list(b)
    if t == 'BYTES':
        if c[2] == 'D':
            b = list(f.default[1])[:c[1]]
        elif c[2] == 'N':
            b = []
        else:
            b = c[2][1][:c[1]]
        return lenpref(len(b), rnd, o.pad and rnd.random() < 0.3) + list(b)
    sub = encode(env, c[1], o, top=False) if c[1] is not None else []
    return lenpref(len(sub), rnd, o.pad and rnd.random() < 0.3) + sub


def field_records(env, desc, f, slot_or_cell, o):
    """list of encoded records (bytes) for one field, in order"""
    rnd = o.rnd
    kp = lambda: (rnd.randint(1, 2) if (o.pad and rnd.random() < 0.15) else 0)
    recs = []
    if f.label == 'REP':
        n, cells = slot_or_cell[1], slot_or_cell[2]
        if n == 0:
            return []
        cells = cells[:n]
        packed = bool(f.packed)
        if f.type in SCALARS and o.repack:
            mode = rnd.choice(['packed', 'unpacked', 'mixed'])
        else:
            mode = 'packed' if packed else 'unpacked'
        if f.type not in SCALARS:
            mode = 'unpacked'
        if mode == 'packed':
            payload = []
            for c in cells:
                payload += enc_scalar(f.type, c[1], rnd, o.pad and rnd.random() < 0.2)
            recs.append(key(f.id, 2, kp()) + lenpref(len(payload), rnd, o.pad and rnd.random() < 0.3) + payload)
        elif mode == 'unpacked':
            for c in cells:
                recs.append(key(f.id, WT[f.type], kp()) + cell_payload(env, f, c, o))
        else:
            i = 0
            while i < len(cells):
                k = rnd.randint(0, 3)      # 0: an empty packed chunk
                if rnd.random() < 0.5:
                    payload = []
                    for c in cells[i:i + k]:
                        payload += enc_scalar(f.type, c[1], rnd, o.pad and rnd.random() < 0.2)
                    recs.append(key(f.id, 2, kp()) + lenpref(len(payload)) + payload)
                    i += k
                else:
                    recs.append(key(f.id, WT[f.type], kp()) + cell_payload(env, f, cells[i], o))
                    i += 1
        return recs
    c = slot_or_cell
    if f.type == 'MESSAGE' and o.split and c[1] is not None and rnd.random() < 0.5 and \
            (o.split_ok is None or o.split_ok(env.msgs[f.sub])):
        # split the sub-message's records over two or three occurrences
        k = rnd.randint(2, 3)
        parts = split_parts(env, c[1], o, k)
        for p in parts:
            body = [b for r in p for b in r]
            recs.append(key(f.id, 2, kp()) + lenpref(len(body)) + body)
        return recs
    if o.stale and f.type != 'MESSAGE' and rnd.random() < 0.3:
        # an earlier, different value for a singular field: the last one must win
        stale = gen_cell(rnd, env, f, 9)
        recs.append(key(f.id, WT[f.type], kp()) + cell_payload(env, f, stale, o))
    recs.append(key(f.id, WT[f.type], kp()) + cell_payload(env, f, c, o))
    return recs


def split_parts(env, m, o, k):
    """k record lists whose concatenation, in order, encodes m: records with the same field number (and the unknown fields
    among themselves) keep their relative order; a REQUIRED sub-message is carried by EVERY part, its own records split
    the same way (each occurrence of the embedded message is parsed on its own and must be complete)"""
    rnd = o.rnd
    desc = env.msgs[m.d]
    parts = [[] for _ in range(k)]
    last = {}
    req_msg = dict((f.id, (f, s)) for f, s in zip(desc.fields, m.slots)
                   if f.label == 'REQ' and f.type == 'MESSAGE' and f.group() is None)
    handled = set()
    for fid, r in msg_records(env, m, o):
        if fid in handled:
            continue                         # further fragments of a required sub-message already re-split below
        if fid in req_msg:
            f, s = req_msg.pop(fid)
            sub = s[2][1]
            if sub is not None:
                handled.add(fid)
                subparts = split_parts(env, sub, o, k)
                for i in range(k):
                    body = [b for rr in subparts[i] for b in rr]
                    parts[i].append(key(f.id, 2) + lenpref(len(body)) + body)
                continue
        cl = 'unk' if fid < 0 else fid       # unknown fields keep their mutual order (it is part of the value)
        lo = last.get(cl, 0)
        pi = rnd.randint(lo, k - 1)
        last[cl] = pi
        parts[pi].append(r)
    return parts


def splittable(env, desc, depth=0):
    """may an embedded message of this type be split over several occurrences: every fragment must be complete, so the
    only required fields allowed are sub-messages that are themselves splittable (they are carried by every fragment)"""
    for f in desc.fields:
        if f.label == 'REQ':
            if f.type != 'MESSAGE' or f.group() is not None or depth > 4:
                return False
            if not splittable(env, env.msgs[f.sub], depth + 1):
                return False
    return True


def present(f, slot):
    """does pack emit this singular non-oneof field"""
    has, c = slot[1], slot[2]
    if f.label == 'REQ':
        return True
    if f.label == 'OPT':
        if f.type == 'STRING':
            return not isinstance(c[1], str)
        if f.type == 'MESSAGE':
            return c[1] is not None
        return has != 0
    return not is_zero_cell(f, c) if f.type != 'STRING' else (not isinstance(c[1], str) and len(c[1][1]) > 0)


def msg_records(env, m, o):
    """[(field id, record bytes)] in canonical order (fields by number, then unknown fields)"""
    desc = env.msgs[m.d]
    out = []
    for f, s in zip(desc.fields, m.slots):
        g = f.group()
        if o.drop is not None and o.drop == (m.d, f.id):
            continue
        if g is not None:
            case, cell = m.unions[g]
            if case != f.id:
                continue
            if f.type == 'STRING' and isinstance(cell[1], str):
                continue
            if f.type == 'MESSAGE' and cell[1] is None:
                continue
            if o.stale and o.rnd is not None and o.rnd.random() < 0.35:
                others = [x for x in desc.fields if x.group() == g and x.id != f.id]
                if others:
                    sf = o.rnd.choice(others)
                    sc = gen_cell(o.rnd, env, sf, 9, canon=True)
                    if not (sf.type == 'MESSAGE' and sc[1] is None):
                        # recorded under the selected member's id so that every re-ordering keeps it in front of it
                        out.append((f.id, key(sf.id, WT[sf.type]) + cell_payload(env, sf, sc, CANON_NOSPLIT)))
            for r in field_records(env, desc, f, cell, o):
                out.append((f.id, r))
        elif f.label == 'REP':
            for r in field_records(env, desc, f, s, o):
                out.append((f.id, r))
        else:
            if present(f, s):
                for r in field_records(env, desc, f, s[2], o):
                    out.append((f.id, r))
    for tag, wt, data in m.unk:
        out.append((-tag, key(tag, wt) + list(data)))
    return out


def encode(env, m, o, top=True):
    recs = msg_records(env, m, o)
    rnd = o.rnd
    if o.shuffle and rnd is not None and len(recs) > 1:
        # any interleaving that keeps the relative order of records with the same id, keeps
        # unknown fields in order, and keeps oneof members in order
        desc = env.msgs[m.d]
        def cls(fid):
            if fid < 0:
                return 'unk'
            g = desc.by_id[fid].group()
            return ('g', g) if g is not None else fid
        queues = {}
        order = []
        for fid, r in recs:
            c = cls(fid)
            if c not in queues:
                queues[c] = []
                order.append(c)
            queues[c].append(r)
        res = []
        live = [c for c in order]
        while live:
            c = rnd.choice(live)
            res.append(queues[c].pop(0))
            if not queues[c]:
                live.remove(c)
        recs2 = res
    else:
        recs2 = [r for _, r in recs]
    if o.unknown and rnd is not None:
        desc = env.msgs[m.d]
        for tag, wt, data in gen_unknown(rnd, desc, rnd.randint(1, 3)):
            recs2.insert(rnd.randint(0, len(recs2)), key(tag, wt) + list(data))
    if o.lead_unknown and rnd is not None:
        for tag, wt, data in gen_unknown(rnd, env.msgs[m.d], 1):
            recs2.insert(0, key(tag, wt) + list(data))
    if o.bad_later and not o.bad_done and rnd is not None:
        desc = env.msgs[m.d]
        cands = sorted(set(fid for fid, _ in recs if fid > 0 and desc.by_id[fid].type == 'MESSAGE' and desc.by_id[fid].label != 'REP'))
        # a oneof whose selected member is on the wire: one more member of the same oneof (another one, or the same) that is
        # rejected AFTER the selected one has been released -- wrong wire type, or a sub-message that does not parse
        ocands = []
        for fid in sorted(set(fid for fid, _ in recs if fid > 0 and desc.by_id[fid].group() is not None)):
            g = desc.by_id[fid].group()
            for f2 in desc.fields:
                if f2.group() == g and f2.type != 'BOOL':
                    ocands.append(f2)
        # a repeated string / bytes / message field with elements on the wire: one more occurrence with the wrong wire type
        # (counted by the scan, rejected by the parse after the earlier elements have been stored)
        rcands = sorted(set(fid for fid, _ in recs if fid > 0 and desc.by_id[fid].label == 'REP'
                            and desc.by_id[fid].type in ('STRING', 'BYTES', 'MESSAGE')))
        if rcands and (top or rnd.random() < 0.5) and rnd.random() < 0.4:
            o.bad_done = True
            fid = rnd.choice(rcands)
            recs2.append(rnd.choice([key(fid, 0) + [1], key(fid, 5) + [1, 0, 0, 0]]))
        elif (cands or ocands) and (top or rnd.random() < 0.5):
            o.bad_done = True
            if ocands and (not cands or rnd.random() < 0.6):
                f2 = rnd.choice(ocands)
                if f2.type == 'MESSAGE' and rnd.random() < 0.5:
                    recs2.append(key(f2.id, 2) + rnd.choice([[1, 0x80], [2, 0x08, 0x80]]))
                elif WT[f2.type] == 2:
                    recs2.append(rnd.choice([key(f2.id, 0) + [1], key(f2.id, 5) + [1, 0, 0, 0]]))   # a varint / four bytes where a length is due
                else:
                    recs2.append(key(f2.id, 2) + [1, 0])
            else:
                # a truncated key: the nested parse fails after the earlier occurrence was parsed and stored
                recs2.append(key(rnd.choice(cands), 2) + rnd.choice([[1, 0x80], [2, 0x08, 0x80], [1, 0x07]]))
    return [b for r in recs2 for b in r]


CANON = Opts()
CANON_NOSPLIT = CANON


def merge_corner_inputs(rnd, env, cap=16):
    """valid encodings in which a singular embedded message arrives in TWO occurrences built to exercise merge_messages'
    per-member decisions (every occurrence is complete: it carries the required members):
      absent-later: the later occurrence leaves one member of the earlier one out (carry-over, incl. the oneof member with
                    field index 0 and deprecated oneof members);
      empty-later:  the later occurrence sets a member the earlier one holds to its EXPLICIT empty / zero value (an empty
                    string or bytes value, a zero scalar of a field with a has flag, a zero oneof member): the last one wins;
      other-later:  the later occurrence is another random message of the type.
    (implicit-presence scalars / bytes written as explicit zero are listed finding 12 and are not produced.)
    Returns [(d, bytes, kind)]."""
    out = []
    cands = [(desc, f) for desc in env.msgs for f in desc.fields if f.type == 'MESSAGE' and f.label != 'REP' and env.msgs[f.sub].fields]
    rnd.shuffle(cands)
    zero = {0: [0], 1: [0] * 8, 2: [0], 5: [0] * 4}
    for desc, f in cands:
        S = env.msgs[f.sub]
        for kind in ('absent-later', 'empty-later', 'other-later'):
            if len(out) >= cap:
                return out
            m = gen_msg(rnd, env, desc.idx, canon=True)
            A = gen_msg(rnd, env, f.sub, depth=1, canon=True)
            # select as many oneof members of A as possible, preferring the lowest-numbered member half of the time
            for g in range(S.n_oneofs):
                mem = [x for x in S.fields if x.group() == g and not (x.type == 'MESSAGE')]
                if mem and A.unions[g][0] == 0:
                    x = mem[0] if rnd.random() < 0.5 else rnd.choice(mem)
                    A.unions[g] = (x.id, gen_cell(rnd, env, x, 2, canon=True))
            i = desc.fields.index(f)
            if f.group() is not None:
                m.unions[f.group()] = (f.id, ('G', A))
            else:
                m.slots[i] = ('S', 0, ('G', A))
            arecs = msg_records(env, A, CANON)
            req = set(x.id for x in S.fields if x.label == 'REQ')
            held = [fid for fid, _ in arecs if fid > 0 and fid not in req]
            if kind == 'other-later':
                B = gen_msg(rnd, env, f.sub, depth=2, canon=True)
                brecs = [r for _, r in msg_records(env, B, CANON)]
            elif kind == 'absent-later':
                if not held:
                    continue
                gone = rnd.choice(held)
                brecs = [r for fid, r in arecs if fid != gone and (fid in req or rnd.random() < 0.6)]
            else:
                ok = [fid for fid in held if S.by_id[fid].label != 'REP' and S.by_id[fid].type != 'MESSAGE'
                      and (S.by_id[fid].type == 'STRING' or S.by_id[fid].label != 'NONE' or S.by_id[fid].group() is not None)]
                if not ok:
                    continue
                z = S.by_id[rnd.choice(ok)]
                brecs = [r for fid, r in arecs if fid in req or (fid != z.id and rnd.random() < 0.4)]
                brecs.insert(rnd.randint(0, len(brecs)), key(z.id, WT[z.type]) + zero[WT[z.type]])
            abody = [b for _, r in arecs for b in r]
            bbody = [b for r in brecs for b in r]
            top = []
            for fid, r in msg_records(env, m, CANON):
                if fid == f.id:
                    top.append(key(f.id, 2) + lenpref(len(abody)) + abody)
                    top.append(key(f.id, 2) + lenpref(len(bbody)) + bbody)
                else:
                    top.append(r)
            out.append((desc.idx, [b for r in top for b in r], kind))
    return out


def oneof_replacement_failures(rnd, env, cap=16):
    """inputs (d, bytes): a complete message of type d, then a member A of one of its oneofs with a valid value, then a member B
    of the same oneof (every ordered pair, B = A included, at most cap per schema) that is rejected after A has been released:
    wrong wire type, or a sub-message that does not parse"""
    out = []
    pairs = []
    for desc in env.msgs:
        groups = {}
        for f in desc.fields:
            if f.group() is not None:
                groups.setdefault(f.group(), []).append(f)
        for g, ms in groups.items():
            for a in ms:
                for b in ms:
                    if b.type != 'BOOL':
                        pairs.append((desc, a, b))
    rnd.shuffle(pairs)
    # heap-owning first members first: those are the ones whose release can go wrong
    pairs.sort(key=lambda p: 0 if p[1].type in ('BYTES', 'STRING', 'MESSAGE') else 1)
    for desc, a, b in pairs[:cap]:
        ca = None
        for _ in range(6):
            ca = gen_cell(rnd, env, a, 9, canon=True)
            if not (a.type == 'MESSAGE' and ca[1] is None) and not (a.type == 'BYTES' and ca[1] == 0):
                break
        if ca is None or (a.type == 'MESSAGE' and ca[1] is None):
            continue
        m = gen_msg(rnd, env, desc.idx, canon=True)
        bs = encode(env, m, CANON)
        bs += key(a.id, WT[a.type]) + cell_payload(env, a, ca, CANON)
        if b.type == 'MESSAGE' and rnd.random() < 0.5:
            bs += key(b.id, 2) + rnd.choice([[1, 0x80], [2, 0x08, 0x80]])
        elif WT[b.type] == 2:
            bs += rnd.choice([key(b.id, 0) + [1], key(b.id, 5) + [1, 0, 0, 0]])
        else:
            bs += key(b.id, 2) + [1, 0]
        out.append((desc.idx, bs))
    return out


def older_schema(rnd, env, keep=0.6):
    """env with a random subset of the fields outside oneofs removed (message indices, oneof groups unchanged)"""
    msgs = []
    for m in env.msgs:
        fs = [f for f in m.fields if f.group() is not None or rnd.random() < keep]
        msgs.append(MsgDesc(m.idx, fs, m.n_oneofs, m.generic_init))
    return Env(msgs)


def contains_type(env, m, d):
    """does a message of type d occur in the tree of m at a place pack would emit"""
    if m.d == d:
        return True
    desc = env.msgs[m.d]
    for f, s in zip(desc.fields, m.slots):
        if f.type != 'MESSAGE':
            continue
        g = f.group()
        if g is not None:
            case, cell = m.unions[g]
            if case == f.id and cell[1] is not None and contains_type(env, cell[1], d):
                return True
        elif f.label == 'REP':
            if s[1] and s[2] and any(c[1] is not None and contains_type(env, c[1], d) for c in s[2][:s[1]]):
                return True
        elif s[2][1] is not None and contains_type(env, s[2][1], d):
            return True
    return False


def corrupt(rnd, bs):
    bs = list(bs)
    k = rnd.random()
    if not bs:
        return [rnd.randint(0, 255) for _ in range(rnd.randint(1, 4))]
    if k < 0.3:
        return bs[:rnd.randint(0, len(bs) - 1)]
    if k < 0.5:
        i = rnd.randrange(len(bs))
        bs[i] ^= 1 << rnd.randrange(8)
        return bs
    if k < 0.65:
        i = rnd.randrange(len(bs))
        bs[i] = rnd.choice([0, 0x80, 0xff, 0x7f, 2, 3, 4, 6, 7])
        return bs
    if k < 0.8:
        i = rnd.randrange(len(bs) + 1)
        return bs[:i] + [rnd.choice([0x80, 0xff, 0x00, 0x0b, 0x0c])] * rnd.randint(1, 11) + bs[i:]
    if k < 0.9:
        i = rnd.randrange(len(bs))
        return bs[:i] + bs[i + 1:]
    return bs + [rnd.randint(0, 255) for _ in range(rnd.randint(1, 3))]


def special_inputs():
    return [[], [0x00], [0x80], [0x80, 0x00, 0x05], [0x08], [0x08, 0x80], [0x0a, 0x05, 0x01],
            [0x80, 0x80, 0x80, 0x80, 0x7f, 0x00], [0x80, 0x80, 0x80, 0x80, 0x80, 0x01, 0x00],
            [0x0b], [0x0c], [0x0e, 0x00], [0x0f, 0x00], [0x0a, 0xff, 0xff, 0xff, 0xff, 0x0f],
            [0x0a, 0x80, 0x80, 0x80, 0x80, 0x10], [0x0a, 0xff, 0xff, 0xff, 0xff, 0x07] + [0] * 8,
            [0x08] + [0xff] * 9 + [0x01], [0x08] + [0xff] * 9 + [0x7f], [0x08] + [0xff] * 10,
            [0x09, 1, 2, 3, 4, 5, 6, 7], [0x0d, 1, 2, 3],
            [0x80, 0x80, 0x80, 0x80, 0x10, 0x01], [0xf8, 0xff, 0xff, 0xff, 0x0f, 0x01], [0xf8, 0xff, 0xff, 0xff, 0x7f, 0x01]]


# ---------------------------------------------------------------- defects for CHECK
def plant_defect(rnd, env, m, depth=0, taken=None):
    """returns True if a serialisation-relevant defect was planted somewhere in m.
    taken: positions already altered by earlier calls (never altered twice, so an earlier verdict stays true)"""
    if taken is None:
        taken = set()
    desc = env.msgs[m.d]
    cands = []
    for i, (f, s) in enumerate(zip(desc.fields, m.slots)):
        if s[0] == 'S':
            if f.type == 'BYTES':
                cands.append(('bytes', i))
            if f.type == 'STRING' and f.label == 'REQ':
                cands.append(('reqstr', i))
            if f.type == 'MESSAGE' and f.label == 'REQ':
                cands.append(('reqmsg', i))
            if f.type == 'MESSAGE' and s[2][1] is not None:
                cands.append(('sub', i))
        elif s[0] == 'R' and s[1] > 0 and s[2]:
            if f.type in ('STRING', 'MESSAGE', 'BYTES'):
                cands.append(('elem', i))
            cands.append(('nullarr', i))
    for g, (case, cell) in enumerate(m.unions):
        f = desc.by_id.get(case)
        if f is not None and f.type == 'BYTES':
            cands.append(('ubytes', g))
        if f is not None and f.type == 'MESSAGE' and cell[1] is not None:
            cands.append(('usub', g))
    cands = [(k, i) for (k, i) in cands
             if k in ('sub', 'usub') or (id(m), k in ('ubytes',), i) not in taken]
    if not cands:
        return False
    kind, i = rnd.choice(cands)
    if kind not in ('sub', 'usub'):
        taken.add((id(m), kind in ('ubytes',), i))
    if kind == 'bytes':
        f = desc.fields[i]
        has = m.slots[i][1]
        if f.label == 'OPT':
            has = rnd.choice([1, 1, 2, 0])
        m.slots[i] = ('S', has, ('B', rnd.randint(1, 9), 'N'))
        return not (f.label == 'OPT' and has == 0)
    if kind == 'reqstr':
        m.slots[i] = ('S', 0, ('T', 'N'))
        return True
    if kind == 'reqmsg':
        m.slots[i] = ('S', 0, ('G', None))
        return True
    if kind == 'sub':
        return plant_defect(rnd, env, m.slots[i][2][1], depth + 1, taken)
    if kind == 'usub':
        return plant_defect(rnd, env, m.unions[i][1][1], depth + 1, taken)
    if kind == 'ubytes':
        m.unions[i] = (m.unions[i][0], ('B', rnd.randint(1, 9), 'N'))
        return True
    if kind == 'nullarr':
        m.slots[i] = ('R', m.slots[i][1], None)
        return True
    f = desc.fields[i]
    n, cells = m.slots[i][1], list(m.slots[i][2])
    j = rnd.randrange(n)
    if f.type == 'STRING':
        cells[j] = ('T', 'N')
    elif f.type == 'MESSAGE':
        if rnd.random() < 0.5 and cells[j][1] is not None:
            m.slots[i] = ('R', n, cells)
            return plant_defect(rnd, env, cells[j][1], depth + 1, taken)
        cells[j] = ('G', None)
    else:
        cells[j] = ('B', rnd.randint(1, 9), 'N')
    m.slots[i] = ('R', n, cells)
    return True


def gen_plan(rnd, nreq_hint=12):
    r = rnd.random()
    if r < 0.15:
        return '-'
    if r < 0.55:
        return str(rnd.randrange(nreq_hint))
    if r < 0.8:
        return '%d+' % rnd.randrange(nreq_hint)
    ks = sorted(set(rnd.randrange(nreq_hint) for _ in range(rnd.randint(1, 4))))
    return ','.join(map(str, ks))


def gen_buf_case(rnd):
    cap = rnd.choice([1, 1, 2, 3, 4, 7, 8, 16, 100])
    lens = []
    alloced, ln = cap, 0
    for _ in range(rnd.randint(0, 8)):
        free = alloced - ln
        l = rnd.choice([0, 1, max(free - 1, 0), free, free + 1, free * 2 + 1, alloced * 5, rnd.randint(0, 40)])
        lens.append(l)
        if ln + l > alloced:
            a = alloced * 2
            while a < ln + l:
                a += a
            alloced = a
        ln += l
    return ('BUF %d %s %s' % (cap, gen_plan(rnd, 5), ' '.join(map(str, lens)))).strip()

(* C09, the message level (2): from the items of OlderMsg.v to the three facts about one message, given the same
   facts for its sub-messages ([msg_transfer]):
     A. the older parser reads the newer program's bytes as the projection;
     B. the older serialiser writes, for the projection, bytes of the same length;
     C. the newer parser reads those bytes as the original message.
   A and C: the bytes are a reordering of independent records of a field-ordered string of packages
   ([unpack_segs_reorder], [unpack_quads]). *)
From Coq Require Import ZArith List Bool Lia ZifyBool.
From PBC Require Import Base.CInt Base.Bits Gen.LeafC Spec.Wire
     Impl.Desc Impl.Mem Impl.Enc Impl.Pack Impl.WF Impl.Unpack Impl.Canon Impl.Older
     Proofs.SizePack Proofs.ScanRec Proofs.ScanRecs Proofs.CellRT2 Proofs.FieldRT Proofs.FieldPkg Proofs.FieldPkg2 Proofs.MsgInd
     Proofs.MsgRT Proofs.MsgRT2 Proofs.MsgRT3 Proofs.MsgRT4 Proofs.Commute
     Proofs.OlderEnv Proofs.OlderQuads Proofs.OlderField Proofs.OlderProj Proofs.OlderMsg.
Import ListNotations.
Local Open Scope Z_scope.

Ltac Zify.zify_post_hook ::= Z.div_mod_to_equations.

Local Notation wrec_ok := ScanRecs.rec_ok.

(* ---------- list plumbing *)
Lemma filter_map_comm : forall A B (p : B -> bool) (g : A -> B) l,
  filter p (map g l) = map g (filter (fun x => p (g x)) l).
Proof.
  intros A B p g. induction l as [|x l IH]; [reflexivity|]. cbn [map filter]. rewrite IH. destruct (p (g x)); reflexivity.
Qed.

Lemma in_concat_le : forall A (g : A -> list Z) l x, In x l -> zlen (g x) <= zlen (concat (map g l)).
Proof.
  intros A g. induction l as [|y l IH]; intros x Hx; [contradiction|]. cbn [map concat]. rewrite zlen_app.
  pose proof (zlen_nonneg _ (g y)). pose proof (zlen_nonneg _ (concat (map g l))).
  destruct Hx as [<-|Hx]; [lia | specialize (IH x Hx); lia].
Qed.

Lemma res_eq_ok : forall A (r : res A) x, res_eq r (Ok x) -> r = Ok x.
Proof. intros A [a|e] x H; cbn [res_eq] in H; [subst; reflexivity | contradiction]. Qed.

Lemma existsb_sub_false : forall (x : Z) (l l' : list Z), (forall y, In y l' -> In y l) ->
  existsb (Z.eqb x) l = false -> existsb (Z.eqb x) l' = false.
Proof.
  intros x l l' Hsub H. destruct (existsb (Z.eqb x) l') eqn:Ex; [|reflexivity].
  apply existsb_exists in Ex. destruct Ex as (y & Hy & Hxy).
  assert (existsb (Z.eqb x) l = true) by (apply existsb_exists; exists y; split; [apply Hsub; exact Hy | exact Hxy]).
  congruence.
Qed.

Definition dufs_of (l : list seg) : list ufield := concat (map (fun s => map (rec_uf (sg_id s)) (sg_recs s)) l).

Lemma dufs_bytes : forall l, concat (map pk_unknown (dufs_of l)) = concat (map seg_bytes l).
Proof.
  induction l as [|s l IH]; [reflexivity|]. unfold dufs_of in *. cbn [map concat].
  rewrite map_app, concat_app, IH. f_equal. unfold seg_bytes. rewrite map_map. reflexivity.
Qed.

Lemma seg_bytes_range : forall s, 0 < sg_id s < 536870912 -> Forall wrec_ok (sg_recs s) ->
  forall x, In x (seg_bytes s) -> 0 <= x < 256.
Proof.
  intros s Hid Hok x Hx. unfold seg_bytes in Hx. apply in_concat in Hx. destruct Hx as (rb & Hrb & Hx).
  apply in_map_iff in Hrb. destruct Hrb as (r & <- & Hr). rewrite Forall_forall in Hok.
  exact (rec_bytes_range (sg_id s) r Hid (Hok r Hr) x Hx).
Qed.

(* the message's own unknown fields as segments *)
Lemma unk_segs : forall ids unk, forallb (canon_unk ids) unk = true ->
  exists usegs : list seg, map seg_bytes usegs = map pk_unknown unk /\
    Forall (fun s => 0 < sg_id s < 536870912 /\ existsb (Z.eqb (sg_id s)) ids = false /\ Forall wrec_ok (sg_recs s)) usegs.
Proof.
  intros ids. induction unk as [|u unk IH]; intros C; [exists []; split; [reflexivity | constructor]|].
  cbn [forallb] in C. apply andb_true_iff in C. destruct C as [Cu C]. destruct (IH C) as (usegs & Hb & Hok).
  unfold canon_unk in Cu. rewrite !andb_true_iff in Cu. destruct Cu as [[[T0 T1] Hnot] Hp].
  apply negb_true_iff in Hnot. destruct (unk_payload _ _ Hp) as (Hwt & pref & Hpo).
  exists ((false, u_tag u, [(u_wt u, u_data u, pref)]) :: usegs). split.
  - cbn [map]. rewrite Hb. f_equal. unfold seg_bytes, sg_id, sg_recs. cbn [fst snd map concat]. rewrite app_nil_r. reflexivity.
  - constructor; [|exact Hok]. unfold sg_id, sg_recs. cbn [fst snd].
    split; [lia|]. split; [exact Hnot|]. constructor; [|constructor]. split; assumption.
Qed.

Lemma kind_union : forall nu f s g, field_ok nu f = true -> kind_ok f s -> f_quant f = QCase g -> s = SUnion g.
Proof.
  intros nu f s g Hfo Kq Eq. unfold field_ok in Hfo. rewrite !andb_true_iff in Hfo. destruct Hfo as [[[_ Hlq] _] _].
  rewrite Eq in Hlq. unfold kind_ok in Kq.
  destruct (f_label f); try discriminate Hlq; destruct s as [| |g2]; try contradiction;
    try (exfalso; apply (Kq g); exact Eq); rewrite Eq in Kq; inversion Kq; reflexivity.
Qed.

Lemma qsA_fields_gen : forall E keep d (l : list titem), Forall (item_ok E keep d) l ->
  map q_f (map t_A (filter t_k l)) = filter (keep d) (map (fun t => q_f (t_C t)) l).
Proof.
  intros E keep d l H. induction H as [|t l Ht _ IH]; [reflexivity|]. cbn [map filter].
  destruct Ht as (Hk & Hf & _). rewrite <- Hk.
  destruct (t_k t); cbn [map]; rewrite IH; [rewrite Hf; reflexivity | reflexivity].
Qed.

Lemma qsA_slots_gen : forall E keep d (l : list titem), Forall (item_ok E keep d) l ->
  map q_s (map t_A (filter t_k l)) =
  sel (map (keep d) (map (fun t => q_f (t_C t)) l)) (map (map_slot (pcell (proj E keep))) (map (fun t => q_s (t_C t)) l)).
Proof.
  intros E keep d l H. induction H as [|t l Ht _ IH]; [reflexivity|]. cbn [map filter sel].
  destruct Ht as (Hk & _ & _ & Hs & _). rewrite <- Hk.
  destruct (t_k t) eqn:Ek; cbn [map]; rewrite IH; [rewrite (Hs eq_refl); reflexivity | reflexivity].
Qed.

Section After.
Variable E : env.
Variable keep : nat -> field -> bool.
Hypothesis EO : env_ok E = true.
Variable k : nat.
Variable d : nat.
Variable md : mdesc.
Hypothesis Ed : nth_error E d = Some md.
Variable um : list (Z * sval).
Variable unk : list ufield.
Variable its : list titem.

Notation E' := (older keep E).
Notation kd := (keep d).
Notation md' := (drop_fields (keep d) md).
Notation pm := (proj E keep).
Notation um' := (map (punion (proj E keep) (filter (keep d) (md_fields md))) um).

Hypothesis I1 : map (fun t => q_f (t_C t)) its = md_fields md.
Hypothesis I4 : forall j t, nth_error its j = Some t ->
  fpkg_with E (unpack E k) md (q_r (t_C t)) j (q_f (t_C t)) (q_s (t_C t)) um (q_F (t_C t)).
Hypothesis I5 : Forall (fun t => kind_ok (q_f (t_C t)) (q_s (t_C t))) its.
Hypothesis I6 : Forall (item_ok E keep d) its.
Hypothesis I7 : forall j q, nth_error (map t_A (filter t_k its)) j = Some q ->
  fpkg_with (older keep E) (unpack (older keep E) k) (drop_fields (keep d) md) (q_r q) j (q_f q) (q_s q)
            (map (punion (proj E keep) (filter (keep d) (md_fields md))) um) (q_F q).
Hypothesis Cn : length um = md_n_oneofs md.
Hypothesis Cu : canon_unions (md_fields md) 0 um = true.
Hypothesis Ck : forallb (canon_unk (map f_id (md_fields md))) unk = true.

Definition segA (t : titem) : seg := (t_k t, f_id (q_f (t_A t)), q_r (t_A t)).
Definition segC (t : titem) : seg := (t_k t, f_id (q_f (t_C t)), q_r (t_C t)).
Definition bytesA : list Z := concat (map (fun t => q_F (t_A t)) its).
Definition U : list Z := concat (map pk_unknown unk).
Definition dufs : list ufield := dufs_of (map segA (filter (fun t => negb (t_k t)) its)).

Hypothesis Hlen : zlen (bytesA ++ U) <= max_input.

Lemma D_md : desc_ok (length E) md = true.
Proof. exact (env_desc E EO d md Ed). Qed.

Lemma EO' : env_ok (older keep E) = true.
Proof. apply older_env_ok. exact EO. Qed.

Lemma Ed' : nth_error (older keep E) d = Some (drop_fields (keep d) md).
Proof. apply older_nth_some. exact Ed. Qed.

Lemma D_md' : desc_ok (length (older keep E)) (drop_fields (keep d) md) = true.
Proof. exact (env_desc _ EO' d _ Ed'). Qed.

Lemma item_in : forall t, In t its ->
  In (q_f (t_C t)) (md_fields md) /\ 0 < f_id (q_f (t_C t)) < 536870912 /\ item_ok E keep d t /\
  kind_ok (q_f (t_C t)) (q_s (t_C t)) /\
  exists j, nth_error its j = Some t /\ nth_error (md_fields md) j = Some (q_f (t_C t)).
Proof.
  intros t Hin.
  assert (Hf : In (q_f (t_C t)) (md_fields md)) by (rewrite <- I1; apply (in_map (fun t0 => q_f (t_C t0))); exact Hin).
  split; [exact Hf|]. split; [exact (proj1 (proj2 (desc_ok_fields _ _ D_md _ Hf)))|].
  rewrite Forall_forall in I5, I6. split; [exact (I6 t Hin)|]. split; [exact (I5 t Hin)|].
  apply In_nth_error in Hin. destruct Hin as (j & Hj). exists j. split; [exact Hj|].
  rewrite <- I1, nth_error_map, Hj. reflexivity.
Qed.

(* ---- the fields of the older descriptor are the kept items *)
Lemma qsA_fields : map q_f (map t_A (filter t_k its)) = md_fields (drop_fields (keep d) md).
Proof. rewrite drop_fields_fields, <- I1. apply (qsA_fields_gen E keep d its I6). Qed.

Lemma qsA_slots : map q_s (map t_A (filter t_k its)) =
  sel (map (keep d) (map (fun t => q_f (t_C t)) its)) (map (map_slot (pcell (proj E keep))) (map (fun t => q_s (t_C t)) its)).
Proof. apply (qsA_slots_gen E keep d its I6). Qed.

Lemma dropped_not_in : forall f, In f (md_fields md) -> keep d f = false ->
  existsb (Z.eqb (f_id f)) (map f_id (filter (keep d) (md_fields md))) = false.
Proof.
  intros f Hin Hk. destruct (existsb (Z.eqb (f_id f)) (map f_id (filter (keep d) (md_fields md)))) eqn:Ex; [|reflexivity].
  apply existsb_exists in Ex. destruct Ex as (y & Hy & Hxy). apply Z.eqb_eq in Hxy.
  apply in_map_iff in Hy. destruct Hy as (g & Hg & Hgin). apply filter_In in Hgin. destruct Hgin as [Hgin Hgk].
  assert (f = g) by (apply (in_fields_unique (length E) md D_md); [exact Hin | exact Hgin | congruence]).
  subst g. congruence.
Qed.

Lemma kept_index : forall t, In t its -> t_k t = true ->
  exists j, nth_error (md_fields (drop_fields (keep d) md)) j = Some (q_f (t_A t)) /\
    fpkg_with (older keep E) (unpack (older keep E) k) (drop_fields (keep d) md) (q_r (t_A t)) j (q_f (t_A t)) (q_s (t_A t))
      (map (punion (proj E keep) (filter (keep d) (md_fields md))) um) (q_F (t_A t)).
Proof.
  intros t Hin Hk.
  assert (HinA : In (t_A t) (map t_A (filter t_k its))) by (apply in_map; apply filter_In; split; assumption).
  apply In_nth_error in HinA. destruct HinA as (j & Hj). exists j. split.
  - rewrite <- qsA_fields, nth_error_map, Hj. reflexivity.
  - apply I7. exact Hj.
Qed.

(* ---- bytes *)
Lemma bytesA_segs : map seg_bytes (map segA its) = map (fun t => q_F (t_A t)) its.
Proof.
  rewrite map_map. apply map_ext_in. intros t Hin. destruct (item_in t Hin) as (_ & _ & Hok & _).
  destruct Hok as (_ & _ & _ & _ & _ & HF & _). unfold seg_bytes, segA, sg_id, sg_recs. cbn [fst snd]. symmetry. exact HF.
Qed.

Lemma bytesC_segs : map seg_bytes (map segC its) = map (fun t => q_F (t_C t)) its.
Proof.
  rewrite map_map. apply map_ext_in. intros t Hin. destruct (item_in t Hin) as (_ & _ & _ & _ & j & Hj & _).
  destruct (I4 j t Hj) as (HF & _). unfold seg_bytes, segC, sg_id, sg_recs. cbn [fst snd]. symmetry. exact HF.
Qed.

Lemma lenC_A : Forall (fun t => length (q_F (t_C t)) = length (q_F (t_A t))) its.
Proof. apply Forall_forall. intros t Hin. destruct (item_in t Hin) as (_ & _ & Hok & _). exact (proj1 (proj2 (proj2 Hok))). Qed.

Lemma item_len_small : forall t, In t its -> zlen (q_F (t_A t)) < 4294967296 /\ zlen (q_F (t_C t)) < 4294967296.
Proof.
  intros t Hin. pose proof (in_concat_le _ (fun t0 => q_F (t_A t0)) its t Hin) as H1. fold bytesA in H1.
  rewrite zlen_app in Hlen. pose proof (zlen_nonneg _ U).
  pose proof lenC_A as HL. rewrite Forall_forall in HL. specialize (HL t Hin). unfold zlen in *. (unfold max_input, max_members in *; lia).
Qed.

(* ---- the segments are records for the two descriptors *)
Lemma segA_ok : Forall (seg_ok (drop_fields (keep d) md)) (map segA its).
Proof.
  apply Forall_forall. intros s Hs. apply in_map_iff in Hs. destruct Hs as (t & <- & Hin).
  destruct (item_in t Hin) as (Hf & Hid & Hok & _). destruct (item_len_small t Hin) as [HlA _].
  destruct Hok as (Hk & HfA & _ & _ & Hd & HF & Hrok). unfold segA.
  destruct (t_k t) eqn:Ek.
  - destruct (kept_index t Hin Ek) as (j & Hj & Hpk). destruct Hpk as (_ & _ & Hcnt & _).
    apply (seg_ok_known (length (older keep E)) _ D_md' true j (q_f (t_A t)) (q_r (t_A t)) Hj Hrok).
    + intros El. destruct (Hcnt El) as (cs & Hcs & _). exists cs. exact Hcs.
    + rewrite <- HF. exact HlA.
  - apply (seg_ok_unknown (length (older keep E)) _ D_md' false).
    + rewrite HfA. exact Hid.
    + rewrite HfA. rewrite drop_fields_fields. apply dropped_not_in; [exact Hf | symmetry; exact Hk].
    + exact Hrok.
    + rewrite <- HF. exact HlA.
Qed.

Lemma segC_ok : Forall (seg_ok md) (map segC its).
Proof.
  apply Forall_forall. intros s Hs. apply in_map_iff in Hs. destruct Hs as (t & <- & Hin).
  destruct (item_in t Hin) as (Hf & Hid & _ & _ & j & Hj & Hn). destruct (item_len_small t Hin) as [_ HlC].
  destruct (I4 j t Hj) as (HF & Hrok & Hcnt & _). unfold segC.
  apply (seg_ok_known (length E) md D_md (t_k t) j (q_f (t_C t)) (q_r (t_C t)) Hn Hrok).
  - intros El. destruct (Hcnt El) as (cs & Hcs & _). exists cs. exact Hcs.
  - rewrite <- HF. exact HlC.
Qed.

Lemma indepA : forall s1 s2 r1 r2, In s1 (map segA its) -> In s2 (map segA its) -> sg_k s1 = false -> sg_k s2 = true ->
  In r1 (sg_recs s1) -> In r2 (sg_recs s2) ->
  indep (drop_fields (keep d) md) (rec_member (sg_id s1) (find_field (drop_fields (keep d) md) (sg_id s1)) r1)
        (rec_member (sg_id s2) (find_field (drop_fields (keep d) md) (sg_id s2)) r2).
Proof.
  intros s1 s2 r1 r2 H1 H2 K1 K2 _ _.
  apply in_map_iff in H1. destruct H1 as (t1 & <- & Hin1). apply in_map_iff in H2. destruct H2 as (t2 & <- & Hin2).
  unfold segA, sg_k, sg_id in *. cbn [fst snd] in *.
  destruct (item_in t1 Hin1) as (Hf1 & Hid1 & Hok1 & _). destruct Hok1 as (Hk1 & HfA1 & _).
  destruct (kept_index t2 Hin2 K2) as (j2 & Hj2 & _).
  unfold indep, rec_member, new_member. cbn [sm_field].
  rewrite (find_field_known _ _ D_md' j2 _ Hj2).
  rewrite (find_field_unknown _ _ D_md'); [exact I | rewrite HfA1; exact Hid1|].
  rewrite HfA1, drop_fields_fields. apply dropped_not_in; [exact Hf1 | rewrite <- Hk1; exact K1].
Qed.

Lemma indepC : forall s1 s2 r1 r2, In s1 (map segC its) -> In s2 (map segC its) -> sg_k s1 = false -> sg_k s2 = true ->
  In r1 (sg_recs s1) -> In r2 (sg_recs s2) ->
  indep md (rec_member (sg_id s1) (find_field md (sg_id s1)) r1) (rec_member (sg_id s2) (find_field md (sg_id s2)) r2).
Proof.
  intros s1 s2 r1 r2 H1 H2 K1 K2 Hr1 Hr2.
  apply in_map_iff in H1. destruct H1 as (t1 & <- & Hin1). apply in_map_iff in H2. destruct H2 as (t2 & <- & Hin2).
  unfold segC, sg_k, sg_id, sg_recs in *. cbn [fst snd] in *.
  destruct (item_in t1 Hin1) as (Hf1 & _ & Hok1 & Kd1 & j1 & Hj1 & Hn1).
  destruct (item_in t2 Hin2) as (Hf2 & _ & Hok2 & Kd2 & j2 & Hj2 & Hn2).
  destruct Hok1 as (Hk1 & _). destruct Hok2 as (Hk2 & _).
  unfold indep, rec_member, new_member. cbn [sm_field].
  rewrite (find_field_known _ _ D_md j1 _ Hn1), (find_field_known _ _ D_md j2 _ Hn2).
  assert (Hne : j1 <> j2).
  { intros ->. assert (q_f (t_C t1) = q_f (t_C t2)) by congruence. congruence. }
  split; [exact Hne|].
  intros (fa & fb & g & Ha & Hb & Qa & Qb).
  assert (fa = q_f (t_C t1)) by congruence. assert (fb = q_f (t_C t2)) by congruence. subst fa fb.
  destruct (desc_ok_fields _ _ D_md _ Hf1) as (Hfo1 & _ & _). destruct (desc_ok_fields _ _ D_md _ Hf2) as (Hfo2 & _ & _).
  pose proof (kind_union _ _ _ g Hfo1 Kd1 Qa) as S1. pose proof (kind_union _ _ _ g Hfo2 Kd2 Qb) as S2.
  destruct (I4 j1 t1 Hj1) as (_ & _ & _ & _ & A1 & _). destruct (I4 j2 t2 Hj2) as (_ & _ & _ & _ & A2 & _).
  assert (N1 : q_r (t_C t1) <> []) by (intros E0; rewrite E0 in Hr1; contradiction).
  assert (N2 : q_r (t_C t2) <> []) by (intros E0; rewrite E0 in Hr2; contradiction).
  pose proof (proj1 (A1 g S1) N1) as X1. pose proof (proj1 (A2 g S2) N2) as X2.
  apply Hne. apply (field_index_unique (length E) md D_md j1 j2 _ _ Hn1 Hn2). congruence.
Qed.

(* ---- A: the older parser *)
Lemma dufs_canon : forallb (canon_unk (map f_id (md_fields (drop_fields (keep d) md)))) (dufs ++ unk) = true.
Proof.
  rewrite forallb_app. apply andb_true_iff. split.
  - apply forallb_forall. intros u Hu. unfold dufs, dufs_of in Hu. apply in_concat in Hu. destruct Hu as (l & Hl & Hu).
    apply in_map_iff in Hl. destruct Hl as (s & <- & Hs). apply in_map_iff in Hs. destruct Hs as (t & <- & Ht).
    apply filter_In in Ht. destruct Ht as [Hin Hk]. apply negb_true_iff in Hk.
    apply in_map_iff in Hu. destruct Hu as (r & <- & Hr). unfold segA, sg_id, sg_recs in *. cbn [fst snd] in *.
    destruct (item_in t Hin) as (Hf & Hid & Hok & _). destruct Hok as (Hk1 & HfA & _ & _ & _ & _ & Hrok).
    rewrite Forall_forall in Hrok. rewrite HfA.
    apply rec_uf_canon; [exact Hid | | exact (Hrok r Hr)].
    rewrite drop_fields_fields. apply dropped_not_in; [exact Hf | rewrite <- Hk1; exact Hk].
  - rewrite forallb_forall in *. intros u Hu. specialize (Ck u Hu). unfold canon_unk in *.
    rewrite !andb_true_iff in *. destruct Ck as [[[T0 T1] Hnot] Hp]. repeat split; try assumption.
    apply negb_true_iff in Hnot. apply negb_true_iff.
    apply (existsb_sub_false _ (map f_id (md_fields md))); [|exact Hnot].
    intros y Hy. rewrite drop_fields_fields in Hy. apply in_map_iff in Hy. destruct Hy as (g & <- & Hg).
    apply filter_In in Hg. apply in_map. tauto.
Qed.

Lemma sortedA_eq : forall usegs, map seg_bytes usegs = map pk_unknown unk ->
  concat (map seg_bytes (filter sg_k (map segA its))) ++
  concat (map seg_bytes (filter (fun s => negb (sg_k s)) (map segA its))) ++ concat (map seg_bytes usegs) =
  concat (map q_F (map t_A (filter t_k its))) ++ concat (map pk_unknown (dufs ++ unk)).
Proof.
  intros usegs Hu. f_equal.
  - rewrite (filter_map_comm _ _ sg_k segA its). unfold sg_k, segA at 1. cbn [fst].
    rewrite !map_map. f_equal. apply map_ext_in. intros t Ht. apply filter_In in Ht. destruct Ht as [Hin _].
    destruct (item_in t Hin) as (_ & _ & Hok & _). destruct Hok as (_ & _ & _ & _ & _ & HF & _).
    unfold seg_bytes, segA, sg_id, sg_recs. cbn [fst snd]. symmetry. exact HF.
  - rewrite map_app, concat_app. f_equal; [|rewrite Hu; reflexivity].
    unfold dufs. rewrite dufs_bytes.
    rewrite (filter_map_comm _ _ (fun s => negb (sg_k s)) segA its). reflexivity.
Qed.

Theorem older_parses : unpack (older keep E) (S k) d (bytesA ++ U) =
  Ok (Msg d (map q_s (map t_A (filter t_k its))) (map (punion (proj E keep) (filter (keep d) (md_fields md))) um) (dufs ++ unk)).
Proof.
  destruct (unk_segs _ unk Ck) as (usegs & Hub & Huok).
  assert (HusA : Forall (seg_ok (drop_fields (keep d) md)) usegs).
  { apply Forall_forall. intros s Hs. rewrite Forall_forall in Huok. destruct (Huok s Hs) as (Hid & Hex & Hrok).
    destruct s as [[b id] recs]. unfold sg_id, sg_recs in *. cbn [fst snd] in *.
    apply (seg_ok_unknown (length (older keep E)) _ D_md' b id recs Hid); [| exact Hrok|].
    - apply (existsb_sub_false _ (map f_id (md_fields md))); [|exact Hex].
      intros y Hy. rewrite drop_fields_fields in Hy. apply in_map_iff in Hy. destruct Hy as (g & <- & Hg).
      apply filter_In in Hg. apply in_map. tauto.
    - pose proof (in_concat_le _ seg_bytes usegs (b, id, recs) Hs) as Hle. rewrite Hub in Hle. fold U in Hle.
      unfold seg_bytes, sg_id, sg_recs in Hle. cbn [fst snd] in Hle.
      rewrite zlen_app in Hlen. pose proof (zlen_nonneg _ bytesA). (unfold max_input, max_members in *; lia). }
  assert (Hb : bytesA ++ U = concat (map seg_bytes (map segA its)) ++ concat (map seg_bytes usegs)).
  { unfold bytesA, U. rewrite bytesA_segs, Hub. reflexivity. }
  pose proof (unpack_segs_reorder (older keep E) EO' k d _ (map segA its) usegs Ed' segA_ok HusA indepA
                ltac:(rewrite <- Hb; (unfold max_input, max_members in *; lia))) as HR.
  rewrite <- Hb in HR. rewrite (sortedA_eq usegs Hub) in HR.
  assert (Hlen2 : zlen (concat (map q_F (map t_A (filter t_k its))) ++ concat (map pk_unknown (dufs ++ unk))) <= max_input).
  { rewrite <- (sortedA_eq usegs Hub).
    assert (HL : length (concat (map seg_bytes (filter sg_k (map segA its))) ++
                         concat (map seg_bytes (filter (fun s => negb (sg_k s)) (map segA its))) ++ concat (map seg_bytes usegs)) =
                 length (bytesA ++ U)).
    { rewrite Hb. rewrite !app_length. rewrite (concat_length_partition _ _ sg_k seg_bytes (map segA its)). lia. }
    unfold zlen in *. lia. }
  pose proof (unpack_quads (older keep E) EO' k d _ _ (dufs ++ unk) (map t_A (filter t_k its)) Ed' qsA_fields I7) as UQ.
  rewrite UQ in HR.
  - apply res_eq_ok. exact HR.
  - apply Forall_forall. intros q Hq. apply in_map_iff in Hq. destruct Hq as (t & <- & Ht).
    apply filter_In in Ht. destruct Ht as [Hin Hk]. destruct (item_in t Hin) as (_ & _ & Hok & Kd & _).
    destruct Hok as (_ & HfA & _ & Hs & _). rewrite HfA, (Hs Hk). apply kind_ok_map_slot. exact Kd.
  - rewrite map_length, drop_fields_oneofs. exact Cn.
  - rewrite drop_fields_fields. apply (canon_unions_proj (length E) md D_md). exact Cu.
  - exact dufs_canon.
  - exact Hlen2.
Qed.

(* ---- C: the newer parser on the re-serialised bytes *)
Definition bytesB : list Z :=
  concat (map (fun t => q_F (t_C t)) (filter t_k its)) ++ concat (map pk_unknown (dufs ++ unk)).

Lemma dropped_bytes : concat (map seg_bytes (map segA (filter (fun t => negb (t_k t)) its))) =
  concat (map (fun t => q_F (t_A t)) (filter (fun t => negb (t_k t)) its)).
Proof.
  rewrite map_map. f_equal. apply map_ext_in. intros t Ht. apply filter_In in Ht. destruct Ht as [Hin _].
  destruct (item_in t Hin) as (_ & _ & Hok & _). destruct Hok as (_ & _ & _ & _ & _ & HF & _).
  unfold seg_bytes, segA, sg_id, sg_recs. cbn [fst snd]. symmetry. exact HF.
Qed.

Lemma bytesB_length : length bytesB = length (bytesA ++ U).
Proof.
  unfold bytesB, bytesA, U. rewrite map_app, concat_app, !app_length.
  unfold dufs. rewrite dufs_bytes, dropped_bytes.
  rewrite (concat_length_partition _ _ t_k (fun t => q_F (t_A t)) its).
  rewrite (concat_length_ext _ _ (fun t => q_F (t_C t)) (fun t => q_F (t_A t)) (filter t_k its)) by (apply Forall_filter; exact lenC_A).
  lia.
Qed.

Lemma sortedC_eq : forall usegs, map seg_bytes usegs = map pk_unknown unk ->
  concat (map seg_bytes (filter sg_k (map segC its))) ++
  concat (map seg_bytes (filter (fun s => negb (sg_k s)) (map segC its))) ++ concat (map seg_bytes usegs) = bytesB.
Proof.
  intros usegs Hu. unfold bytesB. f_equal.
  - rewrite (filter_map_comm _ _ sg_k segC its). unfold sg_k, segC at 1. cbn [fst].
    rewrite !map_map. f_equal. apply map_ext_in. intros t Ht. apply filter_In in Ht. destruct Ht as [Hin _].
    destruct (item_in t Hin) as (_ & _ & _ & _ & j & Hj & _). destruct (I4 j t Hj) as (HF & _).
    unfold seg_bytes, segC, sg_id, sg_recs. cbn [fst snd]. symmetry. exact HF.
  - rewrite map_app, concat_app. f_equal; [|rewrite Hu; reflexivity].
    unfold dufs. rewrite dufs_bytes.
    rewrite (filter_map_comm _ _ (fun s => negb (sg_k s)) segC its).
    change (fun x : titem => negb (sg_k (segC x))) with (fun t : titem => negb (t_k t)).
    rewrite !map_map. f_equal. apply map_ext_in. intros t Ht. apply filter_In in Ht. destruct Ht as [Hin Hk].
    apply negb_true_iff in Hk. destruct (item_in t Hin) as (_ & _ & Hok & _). destruct Hok as (_ & _ & _ & _ & Hd & _).
    unfold segC, segA. rewrite (Hd Hk). reflexivity.
Qed.

Theorem newer_parses : unpack E (S k) d bytesB = Ok (Msg d (map (fun t => q_s (t_C t)) its) um unk).
Proof.
  destruct (unk_segs _ unk Ck) as (usegs & Hub & Huok).
  assert (HLC : length (concat (map (fun t => q_F (t_C t)) its)) = length bytesA).
  { unfold bytesA. apply concat_length_ext. exact lenC_A. }
  assert (HusC : Forall (seg_ok md) usegs).
  { apply Forall_forall. intros s Hs. rewrite Forall_forall in Huok. destruct (Huok s Hs) as (Hid & Hex & Hrok).
    destruct s as [[b id] recs]. unfold sg_id, sg_recs in *. cbn [fst snd] in *.
    apply (seg_ok_unknown (length E) _ D_md b id recs Hid Hex Hrok).
    pose proof (in_concat_le _ seg_bytes usegs (b, id, recs) Hs) as Hle. rewrite Hub in Hle. fold U in Hle.
    unfold seg_bytes, sg_id, sg_recs in Hle. cbn [fst snd] in Hle.
    rewrite zlen_app in Hlen. pose proof (zlen_nonneg _ bytesA). (unfold max_input, max_members in *; lia). }
  assert (Hb : concat (map (fun t => q_F (t_C t)) its) ++ U = concat (map seg_bytes (map segC its)) ++ concat (map seg_bytes usegs)).
  { unfold U. rewrite bytesC_segs, Hub. reflexivity. }
  assert (Hl2 : zlen (concat (map (fun t => q_F (t_C t)) its) ++ U) <= max_input).
  { rewrite zlen_app in *. unfold zlen in *. lia. }
  pose proof (unpack_segs_reorder E EO k d md (map segC its) usegs Ed segC_ok HusC indepC
                ltac:(rewrite <- Hb; (unfold max_input, max_members in *; lia))) as HR.
  rewrite <- Hb in HR. rewrite (sortedC_eq usegs Hub) in HR.
  pose proof (unpack_quads E EO k d md um unk (map t_C its) Ed) as UQ.
  rewrite !map_map in UQ. unfold U in HR. rewrite UQ in HR.
  - apply res_eq_ok. apply res_eq_sym. exact HR.
  - exact I1.
  - intros i q Hq. rewrite nth_error_map in Hq. destruct (nth_error its i) as [t|] eqn:Et; [|discriminate Hq].
    cbn [option_map] in Hq. inversion Hq; subst q. apply I4. exact Et.
  - apply Forall_forall. intros q Hq. apply in_map_iff in Hq. destruct Hq as (t & <- & Ht).
    rewrite Forall_forall in I5. exact (I5 t Ht).
  - exact Cn.
  - exact Cu.
  - exact Ck.
  - exact Hl2.
Qed.

Lemma bytesB_range : forall x, In x bytesB -> 0 <= x < 256.
Proof.
  destruct (unk_segs _ unk Ck) as (usegs & Hub & Huok).
  intros x Hx. rewrite <- (sortedC_eq usegs Hub) in Hx.
  assert (Hseg : forall l, (forall s, In s l -> 0 < sg_id s < 536870912 /\ Forall wrec_ok (sg_recs s)) ->
            In x (concat (map seg_bytes l)) -> 0 <= x < 256).
  { intros l Hl Hin. apply in_concat in Hin. destruct Hin as (bs & Hbs & Hxb). apply in_map_iff in Hbs.
    destruct Hbs as (s & <- & Hs). destruct (Hl s Hs) as [Hid Hok]. exact (seg_bytes_range s Hid Hok x Hxb). }
  assert (HsC : forall s, In s (map segC its) -> 0 < sg_id s < 536870912 /\ Forall wrec_ok (sg_recs s)).
  { intros s Hs. apply in_map_iff in Hs. destruct Hs as (t & <- & Hin).
    destruct (item_in t Hin) as (_ & Hid & _ & _ & j & Hj & _). destruct (I4 j t Hj) as (_ & Hok & _).
    unfold segC, sg_id, sg_recs. cbn [fst snd]. split; assumption. }
  apply in_app_or in Hx. destruct Hx as [Hx|Hx].
  - apply (Hseg _ (fun s Hs => HsC s (proj1 (proj1 (filter_In _ _ _) Hs))) Hx).
  - apply in_app_or in Hx. destruct Hx as [Hx|Hx].
    + apply (Hseg _ (fun s Hs => HsC s (proj1 (proj1 (filter_In _ _ _) Hs))) Hx).
    + apply (Hseg usegs); [|exact Hx]. intros s Hs. rewrite Forall_forall in Huok. destruct (Huok s Hs) as (Hid & _ & Hok).
      split; assumption.
Qed.

End After.

(* The insertion sort of GenModel/Gen.v (the model of the generator's qsort calls):
   its output is a permutation of the input and is ordered. *)
From Coq Require Import ZArith List Bool Lia Permutation Sorted.
From PBC Require Import Base.CInt GenModel.Gen.
Import ListNotations.
Local Open Scope Z_scope.

Section Sort.
Variable A : Type.
Variable lt : A -> A -> bool.

Lemma insert_by_perm : forall x l, Permutation (insert_by lt x l) (x :: l).
Proof.
  intros x l. induction l as [|y t IH]; cbn [insert_by]; [apply Permutation_refl|].
  destruct (lt y x).
  - eapply Permutation_trans; [apply perm_skip; exact IH | apply perm_swap].
  - apply Permutation_refl.
Qed.

Lemma isort_by_perm : forall l, Permutation (isort_by lt l) l.
Proof.
  induction l as [|x t IH]; cbn [isort_by]; [apply Permutation_refl|].
  eapply Permutation_trans; [apply insert_by_perm | apply perm_skip; exact IH].
Qed.

Lemma isort_by_length : forall l, length (isort_by lt l) = length l.
Proof. intros l. apply Permutation_length. apply isort_by_perm. Qed.

Lemma isort_by_in : forall l x, In x (isort_by lt l) <-> In x l.
Proof.
  intros l x. split; apply Permutation_in; [apply isort_by_perm | apply Permutation_sym; apply isort_by_perm].
Qed.

(* ordered: no element is followed (anywhere later) by a strictly smaller one *)
Definition le' (a b : A) : Prop := lt b a = false.

Hypothesis lt_trans : forall a b c, lt a b = true -> lt b c = true -> lt a c = true.
(* totality in the weak form the proof needs: if y is not below x then everything not below y ... *)
Hypothesis le_trans : forall a b c, le' a b -> le' b c -> le' a c.
Hypothesis lt_le : forall a b, lt a b = true -> le' a b.

Lemma insert_by_sorted : forall x l, StronglySorted le' l -> StronglySorted le' (insert_by lt x l).
Proof.
  intros x l H. induction H as [|y t Ht IH Hy]; cbn [insert_by].
  - constructor; [constructor | constructor].
  - destruct (lt y x) eqn:Eyx.
    + constructor; [exact IH|].
      rewrite Forall_forall. intros z Hz.
      apply (Permutation_in _ (insert_by_perm x t)) in Hz. destruct Hz as [<-|Hz].
      * apply lt_le. exact Eyx.
      * rewrite Forall_forall in Hy. exact (Hy z Hz).
    + constructor; [constructor; assumption|].
      constructor; [exact Eyx|].
      rewrite Forall_forall in *. intros z Hz. eapply le_trans; [exact Eyx | exact (Hy z Hz)].
Qed.

Lemma isort_by_sorted : forall l, StronglySorted le' (isort_by lt l).
Proof.
  induction l as [|x t IH]; cbn [isort_by]; [constructor | apply insert_by_sorted; exact IH].
Qed.

End Sort.

(* ---- instances *)
Lemma str_ltb_irrefl : forall a, str_ltb a a = false.
Proof. induction a as [|x a IH]; cbn [str_ltb]; [reflexivity|]. rewrite Z.ltb_irrefl. exact IH. Qed.

Lemma str_eqb_eq : forall a b, str_eqb a b = true <-> a = b.
Proof.
  induction a as [|x a IH]; destruct b as [|y b]; cbn [str_eqb]; split; intros H; try reflexivity; try discriminate H.
  - apply andb_true_iff in H. destruct H as [H1 H2]. apply Z.eqb_eq in H1. apply IH in H2. congruence.
  - inversion H; subst. rewrite Z.eqb_refl. apply IH. reflexivity.
Qed.

Lemma str_ltb_trans : forall a b c, str_ltb a b = true -> str_ltb b c = true -> str_ltb a c = true.
Proof.
  induction a as [|x a IH]; destruct b as [|y b]; destruct c as [|z c]; cbn [str_ltb]; intros H1 H2;
    try reflexivity; try discriminate.
  destruct (Z.ltb_spec x y).
  - destruct (Z.ltb_spec y z).
    + destruct (Z.ltb_spec x z); [reflexivity | lia].
    + destruct (Z.ltb_spec z y); [discriminate H2|]. destruct (Z.ltb_spec x z); [reflexivity | lia].
  - destruct (Z.ltb_spec y x); [discriminate H1|].
    destruct (Z.ltb_spec y z).
    + destruct (Z.ltb_spec x z); [reflexivity | lia].
    + destruct (Z.ltb_spec z y); [discriminate H2|].
      destruct (Z.ltb_spec x z); [reflexivity|]. destruct (Z.ltb_spec z x); [lia|].
      exact (IH b c H1 H2).
Qed.

(* trichotomy *)
Lemma str_ltb_total : forall a b, str_ltb a b = false -> str_ltb b a = false -> a = b.
Proof.
  induction a as [|x a IH]; destruct b as [|y b]; cbn [str_ltb]; intros H1 H2; try reflexivity; try discriminate.
  destruct (Z.ltb_spec x y); [discriminate|]. destruct (Z.ltb_spec y x); [discriminate|].
  assert (x = y) by lia. subst y. f_equal. exact (IH b H1 H2).
Qed.

Lemma str_ltb_asym : forall a b, str_ltb a b = true -> str_ltb b a = false.
Proof.
  intros a b H. destruct (str_ltb b a) eqn:E; [|reflexivity].
  pose proof (str_ltb_trans _ _ _ H E) as H2. rewrite str_ltb_irrefl in H2. discriminate H2.
Qed.

Lemma str_le_trans : forall a b c, str_ltb b a = false -> str_ltb c b = false -> str_ltb c a = false.
Proof.
  intros a b c H1 H2. destruct (str_ltb c a) eqn:E; [|reflexivity].
  (* c < a, not b < a, not c < b *)
  destruct (str_ltb a b) eqn:E2.
  - pose proof (str_ltb_trans _ _ _ E E2) as H3. rewrite H3 in H2. discriminate H2.
  - assert (a = b) by (apply str_ltb_total; assumption). subst b. rewrite E in H2. discriminate H2.
Qed.

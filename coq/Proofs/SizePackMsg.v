(* C02, continued: labels, repeated fields, whole messages. *)
From Coq Require Import ZArith List Bool Lia ZifyBool.
From PBC Require Import Base.CInt Base.Bits Gen.LeafC Spec.Wire Impl.Desc Impl.Mem Impl.Enc Impl.Size
     Impl.Pack Impl.PackBuf Impl.WF Proofs.LeafEnc Proofs.EncLemmas Proofs.MsgInd Proofs.SizePack.
Import ListNotations.
Local Open Scope Z_scope.

Ltac Zify.zify_post_hook ::= Z.div_mod_to_equations.

Section AgreeMsg.
Variable E : env.

Notation IHm v := (forall m, v = VMsg (Some m) -> wf_msg E m = true -> msg_agree E m).

(* the guards of the optional / oneof / unlabeled wrappers are the same in the three families *)
Lemma optional_agree : forall nu f has v,
  field_ok nu f = true -> wf_cell (wf_msg E) f false v = true -> IHm v ->
  agree_res (pk_optional (pack_msg E) f has v) (sz_optional (size_msg E) f has v)
            (pb_optional E (chunks_msg E) f has v).
Proof.
  intros nu f has v Hf W IH.
  pose proof (required_agree E nu f false v Hf W IH) as R.
  unfold pk_optional, sz_optional, pb_optional.
  destruct (f_type f) eqn:Et;
    try (destruct (has =? 0); [apply agree_nil | exact R]);
    (destruct (ptr_absent f v) as [[|]|e] eqn:Ea; cbn [bind];
     [apply agree_nil | exact R |]);
    exfalso; unfold ptr_absent, wf_cell in *; rewrite Et in *;
    destruct v as [w|p|n p|[m|]]; try discriminate W; try discriminate Ea;
    destruct w; discriminate.
Qed.

Lemma oneof_agree : forall nu f case v,
  field_ok nu f = true -> (case =? f_id f = true -> wf_cell (wf_msg E) f false v = true) -> IHm v ->
  agree_res (pk_oneof (pack_msg E) f case v) (sz_oneof (size_msg E) f case v)
            (pb_oneof E (chunks_msg E) f case v).
Proof.
  intros nu f case v Hf W IH.
  unfold pk_oneof, sz_oneof, pb_oneof.
  destruct (case =? f_id f) eqn:Ec; cbn [negb]; [|apply agree_nil].
  specialize (W eq_refl).
  pose proof (required_agree E nu f false v Hf W IH) as R.
  destruct (ptr_absent f v) as [[|]|e] eqn:Ea; cbn [bind]; [apply agree_nil | exact R |].
  exfalso; unfold ptr_absent, wf_cell in *.
  destruct (f_type f); try discriminate Ea;
    destruct v as [w|p|n p|[m|]]; try discriminate W; try discriminate Ea;
    destruct w; discriminate.
Qed.

Lemma zeroish_total : forall f v, wf_cell (wf_msg E) f false v = true -> exists z, zeroish f v = Ok z.
Proof.
  intros f v W. unfold zeroish, wf_cell in *.
  destruct (f_type f); destruct v as [w|p|n p|[m|]]; try discriminate W; cbn [as_word as_str as_bytes as_msg bind]; eauto;
    try (destruct w; try discriminate W; cbn [bind str_bytes]; eauto).
  destruct p as [| |s]; cbn [str_bytes bind]; eauto.
  destruct (f_default f) as [[| |]|]; try discriminate W; cbn [bind]; eauto.
Qed.

Lemma unlabeled_agree : forall nu f v,
  field_ok nu f = true -> wf_cell (wf_msg E) f false v = true -> IHm v ->
  agree_res (pk_unlabeled (pack_msg E) f v) (sz_unlabeled (size_msg E) f v)
            (pb_unlabeled E (chunks_msg E) f v).
Proof.
  intros nu f v Hf W IH.
  pose proof (required_agree E nu f false v Hf W IH) as R.
  unfold pk_unlabeled, sz_unlabeled, pb_unlabeled.
  destruct (zeroish_total f v W) as (z & Hz). rewrite Hz. cbn [bind].
  destruct z; [apply agree_nil | exact R].
Qed.

End AgreeMsg.

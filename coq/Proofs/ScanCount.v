(* The scanning loop of protobuf_c_message_unpack, for ARBITRARY input bytes: what each step records, how the
   element counts of repeated fields accumulate, and that the bytes of all recorded members fit in the input. *)
From Coq Require Import ZArith List Bool Lia ZifyBool.
From PBC Require Import Base.CInt Base.Bits Gen.LeafC Impl.Desc Impl.Mem Impl.Enc Impl.WF Impl.Unpack Impl.Canon
     Proofs.Lookup Proofs.LookupGen Proofs.ScanRec Proofs.LeafSafe Proofs.ScanInv Proofs.Required Proofs.MsgRT4.
Import ListNotations.
Local Open Scope Z_scope.

Ltac Zify.zify_post_hook ::= Z.div_mod_to_equations.

Notation bytes := LeafSafe.bytes.


Lemma in_skipn : forall A (l : list A) n x, In x (skipn n l) -> In x l.
Proof. intros A l. induction l as [|y l IH]; intros [|n] x H; cbn [skipn] in H; auto. right. exact (IH n x H). Qed.
Lemma in_firstn' : forall A (l : list A) n x, In x (firstn n l) -> In x l.
Proof. intros A l. induction l as [|y l IH]; intros [|n] x H; cbn [firstn] in H; try contradiction. destruct H; [left; assumption | right; eauto]. Qed.
Lemma bytes_skipn : forall n d, bytes d -> bytes (skipn n d).
Proof. intros n d H. unfold bytes in *. rewrite Forall_forall in *. intros x Hx. apply H. eapply in_skipn; exact Hx. Qed.
Lemma bytes_firstn : forall n d, bytes d -> bytes (firstn n d).
Proof. intros n d H. unfold bytes in *. rewrite Forall_forall in *. intros x Hx. apply H. eapply in_firstn'; exact Hx. Qed.

Lemma varint_end_bound : forall l max i, varint_end l max = Some i -> 0 <= i < Mem.zlen l.
Proof.
  induction l as [|b t IH]; intros max i H; destruct max; cbn [varint_end] in H; try discriminate H.
  destruct (Z.land b 128 =? 0).
  - inversion H; subst. unfold Mem.zlen. cbn [length]. lia.
  - destruct (varint_end t max) as [j|] eqn:E; [|discriminate H]. inversion H; subst.
    specialize (IH max j E). unfold Mem.zlen in *. cbn [length]. lia.
Qed.

Lemma set_nth_other : forall A (l : list A) i j x, i <> j -> nth_error (set_nth l i x) j = nth_error l j.
Proof. induction l as [|y l IH]; intros [|i] [|j] x H; cbn [set_nth nth_error]; try reflexivity; try lia. apply IH. lia. Qed.
Lemma set_nth_len : forall A (l : list A) i x, length (set_nth l i x) = length l.
Proof. induction l as [|y l IH]; intros [|i] x; cbn [set_nth length]; try reflexivity. rewrite IH. reflexivity. Qed.
Lemma set_nth_at : forall A (l : list A) i x, (i < length l)%nat -> nth_error (set_nth l i x) i = Some x.
Proof. induction l as [|y l IH]; intros [|i] x H; cbn [set_nth nth_error length] in *; try lia; [reflexivity | apply IH; lia]. Qed.

Lemma zlen_nonneg_local : forall (l : list Z), 0 <= Mem.zlen l.
Proof. intros l. unfold Mem.zlen. lia. Qed.

Section SC.
Variable E : env.
Variable md : mdesc.
Hypothesis D : desc_ok (length E) md = true.
Notation fs := (md_fields md).

(* range of what the key parser returns (Proofs/TagRange.v) *)
Hypothesis Htag : forall len d t w used tag wt, 1 <= len <= LeafSafe.zlen d -> bytes d ->
  parse_tag_and_wiretype len d t w = (used, tag, wt) -> used <> 0 -> 0 <= tag < 4294967296 /\ 0 <= wt < 8.

(* a successful lookup names a field with that number *)
Lemma find_field_sound : forall tag i, find_field md tag = Some i ->
  exists f, nth_error fs i = Some f /\ f_id f = s32 tag.
Proof.
  intros tag i H. destruct (desc_ok_parts (length E) md D) as (Hinc & Hb & Hl & Er & En).
  unfold find_field in H. rewrite Er, En in H.
  set (ids := map f_id fs) in *.
  assert (Hx : in32 (s32 tag)) by (unfold in32; apply s32_range).
  destruct ids as [|v0 t0] eqn:Eids.
  - rewrite empty_table_lookup in H. discriminate H.
  - rewrite <- Eids in *.
    rewrite generated_table_lookup in H; [|rewrite Eids; discriminate | exact Hinc | apply Forall_forall; intros x Hxi; specialize (Hb x Hxi); unfold in32; lia | exact Hl | exact Hx].
    destruct (index_of (s32 tag) ids) as [k|] eqn:Ei; [|discriminate H].
    assert (Hk : 0 <= k /\ nth_error ids (Z.to_nat k) = Some (s32 tag)).
    { clear - Ei. revert k Ei. induction ids as [|y l IH]; intros k Ei; [discriminate Ei|].
      cbn [index_of] in Ei. destruct (Z.eqb_spec y (s32 tag)) as [->|Hne].
      - inversion Ei; subst. split; [lia | reflexivity].
      - destruct (index_of (s32 tag) l) as [j|]; [|discriminate Ei]. cbn [option_map] in Ei. inversion Ei; subst.
        destruct (IH j eq_refl) as [Hj Hn]. split; [lia|]. replace (Z.to_nat (Z.succ j)) with (S (Z.to_nat j)) by lia. exact Hn. }
    destruct Hk as [Hk0 Hkn].
    destruct (k <? 0) eqn:Ek; [lia|]. inversion H; subst i.
    unfold ids in Hkn. rewrite nth_error_map in Hkn.
    destruct (nth_error fs (Z.to_nat k)) as [f|]; [|discriminate Hkn]. exists f. split; [reflexivity|]. cbn in Hkn. inversion Hkn. reflexivity.
Qed.

(* the element count the scan attributes to a member *)
Definition mcnt (sm : smember) : Z :=
  match sm_field sm with
  | Some i =>
      match nth_error fs i with
      | Some f =>
          if label_eqb (f_label f) LRepeated then
            if packed_arrival f (sm_wt sm)
            then snd (count_packed_elements (type_code (f_type f)) (sm_len sm - sm_pref sm)
                                            (skipn (Z.to_nat (sm_pref sm)) (sm_data sm)) 0)
            else 1
          else 0
      | None => 0
      end
  | None => 0
  end.

Definition member_ok (sm : smember) : Prop :=
  bytes (sm_data sm) /\ sm_len sm = Mem.zlen (sm_data sm) /\ 0 <= sm_pref sm <= sm_len sm /\ 1 <= sm_len sm /\
  (forall i, sm_field sm = Some i -> exists f, nth_error fs i = Some f /\ f_id f = sm_tag sm) /\
  (forall i f, sm_field sm = Some i -> nth_error fs i = Some f -> label_eqb (f_label f) LRepeated = true ->
     packed_arrival f (sm_wt sm) = true ->
     fst (count_packed_elements (type_code (f_type f)) (sm_len sm - sm_pref sm)
                                (skipn (Z.to_nat (sm_pref sm)) (sm_data sm)) 0) <> 0).

(* one step, in full *)
Lemma scan_one_full : forall st st', scan_one md st = Ok st' -> bytes (st_at st) -> st_at st <> [] ->
  (st_last st = None \/ exists f, nth_error fs (st_last_idx st) = Some f /\ st_last st = Some (st_last_idx st)) ->
  exists sm used,
    st_members st' = sm :: st_members st /\ member_ok sm /\
    1 <= used /\ used + sm_len sm <= Mem.zlen (st_at st) /\
    st_at st' = skipn (Z.to_nat (sm_len sm)) (skipn (Z.to_nat used) (st_at st)) /\
    (st_last st' = None \/ exists f, nth_error fs (st_last_idx st') = Some f /\ st_last st' = Some (st_last_idx st')) /\
    (match sm_field sm with
     | Some i => match nth_error fs i with
                 | Some f => if label_eqb (f_label f) LRepeated
                             then bump_count (st_slots st) i (mcnt sm) = Ok (st_slots st')
                             else st_slots st' = st_slots st
                 | None => False
                 end
     | None => st_slots st' = st_slots st
     end).
Proof.
  intros st st' H HB Hne Hlast. unfold scan_one in H.
  assert (Hlen : 1 <= Mem.zlen (st_at st) <= Mem.zlen (st_at st)).
  { unfold Mem.zlen. destruct (st_at st); [congruence | cbn [length]; lia]. }
  destruct (parse_tag_and_wiretype (Mem.zlen (st_at st)) (st_at st) 0 0) as [[used tag] wt] eqn:Ep.
  destruct (parse_tag_and_wiretype_used _ _ Hlen _ _ _ _ _ Ep) as [Hu Hul].
  destruct (Z.eqb_spec used 0) as [->|Hnz]; [discriminate H|].
  set (at1 := skipn (Z.to_nat used) (st_at st)) in *.
  assert (Hat1 : Mem.zlen at1 = Mem.zlen (st_at st) - used).
  { unfold at1, Mem.zlen. rewrite skipn_length. unfold Mem.zlen in *. lia. }
  assert (HB1 : bytes at1) by (apply bytes_skipn; exact HB).
  (* the lookup *)
  set (cached := match st_last st with
                 | None => false
                 | Some li => match nth_error fs li with Some lf => f_id lf =? tag | None => false end
                 end) in H.
  assert (Hlook : exists fidx last last_idx nunk,
             (if cached then (st_last st, st_last st, st_last_idx st, st_nunk st)
              else match find_field md tag with
                   | None => (None, st_last st, st_last_idx st, st_nunk st + 1)
                   | Some i => (Some i, Some i, i, st_nunk st)
                   end) = (fidx, last, last_idx, nunk) /\
             (forall i, fidx = Some i -> exists f, nth_error fs i = Some f /\ (f_id f = tag \/ f_id f = s32 tag)) /\
             (last = None \/ exists f, nth_error fs last_idx = Some f /\ last = Some last_idx)).
  { unfold cached. destruct (st_last st) as [li|] eqn:El.
    - destruct Hlast as [Hl|(f0 & Hn0 & Hl0)]; [discriminate Hl|]. inversion Hl0; subst li.
      rewrite Hn0. destruct (Z.eqb_spec (f_id f0) tag) as [Heq|Hneq].
      + do 4 eexists. split; [reflexivity|]. split; [|right; eauto].
        intros i Hi. inversion Hi; subst. exists f0. auto.
      + destruct (find_field md tag) as [i|] eqn:Ef.
        * destruct (find_field_sound tag i Ef) as (f & Hn & Hid). do 4 eexists. split; [reflexivity|]. split; [|right; eauto].
          intros i' Hi'. inversion Hi'; subst. eauto.
        * do 4 eexists. split; [reflexivity|]. split; [intros i Hi; discriminate Hi | right; eauto].
    - destruct (find_field md tag) as [i|] eqn:Ef.
      + destruct (find_field_sound tag i Ef) as (f & Hn & Hid). do 4 eexists. split; [reflexivity|]. split; [|right; eauto].
        intros i' Hi'. inversion Hi'; subst. eauto.
      + do 4 eexists. split; [reflexivity|]. split; [intros i Hi; discriminate Hi | left; reflexivity]. }
  destruct Hlook as (fidx & last & last_idx & nunk & Elook & Hfidx & Hlast').
  rewrite Elook in H. cbv beta iota zeta in H.
  (* the field record *)
  destruct (match fidx with
            | Some i => match nth_error fs i with Some f => Ok (Some f) | None => Err EOob end
            | None => Ok None
            end) as [fo|e] eqn:Efo; cbn [bind] in H; [|discriminate H].
  (* the payload *)
  match type of H with bind ?X _ = _ => destruct X as [[len pref]|e] eqn:Elp end; cbn [bind] in H; [|discriminate H].
  assert (Hlp : 0 <= pref <= len /\ 1 <= len <= Mem.zlen at1).
  { destruct (wt =? WT_VARINT).
    - destruct (varint_end at1 10) as [i|] eqn:Ev; [|discriminate Elp]. inversion Elp; subst.
      pose proof (varint_end_bound _ _ _ Ev). lia.
    - destruct (wt =? WT_64BIT).
      + destruct (Z.ltb_spec (Mem.zlen (st_at st) - used) 8); [discriminate Elp|]. inversion Elp; subst. lia.
      + destruct (wt =? WT_LEN).
        * destruct (scan_length_prefixed_data (Mem.zlen (st_at st) - used) at1 0) as [l p] eqn:Es.
          destruct (Z.eqb_spec l 0); [discriminate Elp|]. inversion Elp; subst.
          destruct (scan_length_prefixed_data_used (Mem.zlen (st_at st) - used) at1 ltac:(lia) 0 len pref Es) as [H0|H1]; lia.
        * destruct (wt =? WT_32BIT); [|discriminate Elp].
          destruct (Z.ltb_spec (Mem.zlen (st_at st) - used) 4); [discriminate Elp|]. inversion Elp; subst. lia. }
  set (sm := {| sm_tag := tag; sm_wt := wt; sm_field := fidx; sm_len := len; sm_pref := pref;
                sm_data := firstn (Z.to_nat len) at1 |}) in *.
  assert (Hdl : Mem.zlen (firstn (Z.to_nat len) at1) = len) by (unfold Mem.zlen in *; rewrite firstn_length; lia).
  match type of H with bind ?X _ = _ => destruct X as [slots|e] eqn:Esl end; cbn [bind] in H; [|discriminate H].
  inversion H; subst st'; clear H. cbn [st_members st_at st_slots st_last st_last_idx].
  exists sm, used. split; [reflexivity|].
  (* what fo is *)
  assert (Hfo : match fidx with
                | Some i => exists f, nth_error fs i = Some f /\ fo = Some f
                | None => fo = None
                end).
  { destruct fidx as [i|]; [|inversion Efo; reflexivity].
    destruct (nth_error fs i) as [f|]; [|discriminate Efo]. inversion Efo. eauto. }
  split; [|split; [lia | split; [cbn [sm sm_len]; lia | split; [reflexivity | split; [exact Hlast'|]]]]].
  - (* member_ok *)
    unfold member_ok. cbn [sm sm_data sm_len sm_pref sm_field sm_tag sm_wt].
    split; [apply bytes_firstn; exact HB1|]. split; [symmetry; exact Hdl|]. split; [lia|]. split; [lia|]. split.
    + intros i Hi. destruct (Hfidx i Hi) as (f & Hn & Hid). exists f. split; [exact Hn|].
      destruct Hid as [Hid|Hid]; [exact Hid|].
      (* lookup path: ids are in (0, 2^29) and the tag in [0, 2^32), so s32 tag = id forces tag = id *)
      destruct (desc_ok_fields _ _ D f (nth_error_In _ _ Hn)) as (_ & Hr & _).
      destruct (Htag _ _ _ _ _ _ _ Hlen HB Ep Hnz) as [Ht _].
      rewrite Hid in Hr. unfold s32, sw in Hr, Hid |- *. rewrite Hid. clear Hid.
      destruct (Z.ltb_spec (tag mod 4294967296) 2147483648); lia.
    + intros i f Hi Hn Hrep Hpa. subst fidx. destruct Hfo as (f' & Hn' & ->). rewrite Hn in Hn'. inversion Hn'; subst f'.
      rewrite Hrep, Hpa in Esl.
      destruct (count_packed_elements (type_code (f_type f)) (len - pref) (skipn (Z.to_nat pref) (firstn (Z.to_nat len) at1)) 0) as [okc cnt].
      cbn [fst]. destruct (Z.eqb_spec okc 0); [discriminate Esl | assumption].
  - (* slots *)
    cbn [sm sm_field]. destruct fidx as [i|].
    + destruct Hfo as (f & Hn & ->). rewrite Hn.
      destruct (label_eqb (f_label f) LRepeated) eqn:Er; [|inversion Esl; reflexivity].
      unfold mcnt. cbn [sm sm_field sm_wt sm_len sm_pref sm_data]. rewrite Hn, Er.
      destruct (packed_arrival f wt).
      * destruct (count_packed_elements (type_code (f_type f)) (len - pref) (skipn (Z.to_nat pref) (firstn (Z.to_nat len) at1)) 0) as [okc cnt].
        cbn [snd]. destruct (okc =? 0); [discriminate Esl | exact Esl].
      * exact Esl.
    + subst fo. inversion Esl. reflexivity.
Qed.

(* ---- accumulated counts *)
Fixpoint total (i : nat) (ms : list smember) : Z :=
  match ms with
  | [] => 0
  | sm :: t => (match sm_field sm with Some j => if Nat.eqb i j then mcnt sm else 0 | None => 0 end) + total i t
  end.

Fixpoint data_total (ms : list smember) : Z :=
  match ms with [] => 0 | sm :: t => Mem.zlen (sm_data sm) + data_total t end.

(* bound on what count_packed_elements reports (Proofs/PackedCount.v) *)
Hypothesis Hcount : forall ty len d c0 okc c,
  count_packed_elements ty len d c0 = (okc, c) -> okc <> 0 -> 0 <= len -> len = Mem.zlen d -> bytes d -> len < 4294967296 ->
  0 <= c <= len.

Lemma mcnt_bound : forall sm, member_ok sm -> sm_len sm < 4294967296 -> 0 <= mcnt sm <= sm_len sm.
Proof.
  intros sm (HB & Hl & Hp & Hl1 & Hf & Hok) Hlt. unfold mcnt.
  destruct (sm_field sm) as [i|] eqn:Ei; [|lia].
  destruct (nth_error fs i) as [f|] eqn:En; [|lia].
  destruct (label_eqb (f_label f) LRepeated) eqn:Er; [|lia].
  destruct (packed_arrival f (sm_wt sm)) eqn:Ep; [|lia].
  specialize (Hok i f eq_refl En Er Ep).
  destruct (count_packed_elements (type_code (f_type f)) (sm_len sm - sm_pref sm) (skipn (Z.to_nat (sm_pref sm)) (sm_data sm)) 0) as [okc c] eqn:Ec.
  cbn [fst snd] in *.
  assert (Hz : sm_len sm - sm_pref sm = Mem.zlen (skipn (Z.to_nat (sm_pref sm)) (sm_data sm))).
  { unfold Mem.zlen in *. rewrite skipn_length. lia. }
  pose proof (Hcount _ _ _ _ _ _ Ec Hok ltac:(lia) Hz (bytes_skipn _ _ HB) ltac:(lia)). lia.
Qed.

Lemma total_bound : forall ms i, Forall member_ok ms -> data_total ms < 4294967296 ->
  0 <= total i ms <= data_total ms.
Proof.
  induction ms as [|sm t IH]; intros i HF Hd; cbn [total data_total] in *; [lia|].
  inversion HF as [|? ? Hm HF']; subst.
  assert (Hz := zlen_nonneg_local (sm_data sm)).
  destruct Hm as (HB & Hl & Hrest).
  assert (Hm : member_ok sm) by (split; [exact HB | split; [exact Hl | exact Hrest]]).
  assert (Hdt : 0 <= data_total t).
  { clear. induction t as [|x t IH]; cbn [data_total]; [lia|]. unfold Mem.zlen. lia. }
  pose proof (mcnt_bound sm Hm ltac:(lia)) as Hb.
  specialize (IH i HF' ltac:(lia)).
  destruct (sm_field sm) as [j|]; [destruct (Nat.eqb i j)|]; lia.
Qed.

(* the slots during the scan: counters of repeated fields hold the accumulated counts, nothing else changes *)
Definition scan_slots (slots : list slot) (ms : list smember) : Prop :=
  (length slots = length fs)%nat /\
  forall i f, nth_error fs i = Some f ->
    nth_error slots i = Some (if label_eqb (f_label f) LRepeated then SRep (total i ms) 0 None else init_slot f).

Definition last_ok (st : sstate) : Prop :=
  st_last st = None \/ exists f, nth_error fs (st_last_idx st) = Some f /\ st_last st = Some (st_last_idx st).

Definition scan_inv (N : Z) (st : sstate) : Prop :=
  bytes (st_at st) /\ last_ok st /\ Forall member_ok (st_members st) /\
  data_total (st_members st) + Z.of_nat (length (st_members st)) + Mem.zlen (st_at st) <= N /\ scan_slots (st_slots st) (st_members st).

Lemma scan_one_inv' : forall N st st', N < 4294967296 -> scan_one md st = Ok st' -> st_at st <> [] ->
  scan_inv N st -> scan_inv N st'.
Proof.
  intros N st st' HN H Hne (HB & HL & HM & HD & (HSl & HS)).
  destruct (scan_one_full st st' H HB Hne HL) as (sm & used & Hm & Hok & Hu & Hul & Hat & HL' & Hsl).
  assert (Hdl : Mem.zlen (sm_data sm) = sm_len sm) by (destruct Hok as (_ & Hl & _); lia).
  assert (Hz2 : 0 <= Mem.zlen (st_at st')) by (unfold Mem.zlen; lia).
  assert (Hat' : Mem.zlen (st_at st') = Mem.zlen (st_at st) - used - sm_len sm).
  { rewrite Hat. unfold Mem.zlen in *. rewrite !skipn_length. destruct Hok as (_ & _ & _ & Hl1 & _). lia. }
  unfold scan_inv. rewrite Hm. cbn [data_total length]. split; [|split; [exact HL'|split; [constructor; assumption|split; [lia|]]]].
  - rewrite Hat. apply bytes_skipn. apply bytes_skipn. exact HB.
  - (* slots *)
    assert (HMs : Forall member_ok (sm :: st_members st)) by (constructor; assumption).
    assert (Hdt : data_total (sm :: st_members st) < 4294967296) by (cbn [data_total]; lia).
    destruct (sm_field sm) as [i|] eqn:Ef.
    + destruct (nth_error fs i) as [f|] eqn:En; [|contradiction].
      destruct (label_eqb (f_label f) LRepeated) eqn:Er.
      * unfold bump_count in Hsl. rewrite (HS i f En), Er in Hsl. inversion Hsl as [Hs']; clear Hsl.
        split; [rewrite set_nth_len; exact HSl|].
        intros j g Hj. cbn [total]. rewrite Ef.
        destruct (Nat.eqb_spec j i) as [->|Hji].
        -- rewrite Hj in En. inversion En; subst g. rewrite Er.
           rewrite set_nth_at by (rewrite HSl; apply nth_error_Some; congruence).
           f_equal. f_equal.
           pose proof (total_bound (st_members st) i HM ltac:(cbn [data_total] in Hdt; unfold Mem.zlen in *; lia)) as Hb1.
           pose proof (mcnt_bound sm Hok ltac:(lia)) as Hb2.
           rewrite u64_small by (cbn [data_total] in Hdt; lia). lia.
        -- rewrite set_nth_other by congruence. rewrite (HS j g Hj). replace (0 + total j (st_members st)) with (total j (st_members st)) by lia. reflexivity.
      * rewrite Hsl. split; [exact HSl|]. intros j g Hj. cbn [total]. rewrite Ef.
        destruct (Nat.eqb_spec j i) as [->|Hji].
        -- rewrite Hj in En. inversion En; subst g. rewrite (HS i f Hj), Er. reflexivity.
        -- rewrite (HS j g Hj). replace (0 + total j (st_members st)) with (total j (st_members st)) by lia. reflexivity.
    + rewrite Hsl. split; [exact HSl|]. intros j g Hj. cbn [total]. rewrite Ef. rewrite (HS j g Hj).
      replace (0 + total j (st_members st)) with (total j (st_members st)) by lia. reflexivity.
Qed.

Lemma scan_loop_inv' : forall N fuel st st', N < 4294967296 -> scan_loop fuel md st = Ok st' ->
  scan_inv N st -> scan_inv N st' /\ st_at st' = [].
Proof.
  intros N. induction fuel as [|k IH]; intros st st' HN H I; cbn [scan_loop] in H.
  - destruct (st_at st) eqn:Ea; [inversion H; subst; auto | discriminate H].
  - destruct (st_at st) as [|b t] eqn:Ea; [inversion H; subst; auto|].
    destruct (scan_one md st) as [st1|e] eqn:E1; cbn [bind] in H; [|discriminate H].
    apply (IH st1 st' HN H). apply (scan_one_inv' N st st1 HN E1); [congruence | exact I].
Qed.

(* a step that does not succeed rejects the input: no other failure is possible *)
Lemma scan_one_err : forall N st e, scan_inv N st -> st_at st <> [] -> scan_one md st = Err e -> e = EFail.
Proof.
  intros N st e (HB & HL & HM & HD & (HSl & HS)) Hne H. unfold scan_one in H.
  destruct (parse_tag_and_wiretype (Mem.zlen (st_at st)) (st_at st) 0 0) as [[used tag] wt] eqn:Ep.
  destruct (Z.eqb_spec used 0) as [->|Hnz]; [inversion H; reflexivity|].
  set (cached := match st_last st with
                 | None => false
                 | Some li => match nth_error fs li with Some lf => f_id lf =? tag | None => false end
                 end) in H.
  assert (Hlook : exists fidx last last_idx nunk,
             (if cached then (st_last st, st_last st, st_last_idx st, st_nunk st)
              else match find_field md tag with
                   | None => (None, st_last st, st_last_idx st, st_nunk st + 1)
                   | Some i => (Some i, Some i, i, st_nunk st)
                   end) = (fidx, last, last_idx, nunk) /\
             (forall i, fidx = Some i -> exists f, nth_error fs i = Some f)).
  { unfold cached. unfold last_ok in HL. destruct (st_last st) as [li|] eqn:El.
    - destruct HL as [Hl|(f0 & Hn0 & Hl0)]; [discriminate Hl|]. inversion Hl0; subst li.
      rewrite Hn0. destruct (f_id f0 =? tag).
      + do 4 eexists. split; [reflexivity|]. intros i Hi. inversion Hi; subst. eauto.
      + destruct (find_field md tag) as [i|] eqn:Ef.
        * destruct (find_field_sound tag i Ef) as (f & Hn & _). do 4 eexists. split; [reflexivity|]. intros i' Hi'. inversion Hi'; subst. eauto.
        * do 4 eexists. split; [reflexivity|]. intros i Hi; discriminate Hi.
    - destruct (find_field md tag) as [i|] eqn:Ef.
      + destruct (find_field_sound tag i Ef) as (f & Hn & _). do 4 eexists. split; [reflexivity|]. intros i' Hi'. inversion Hi'; subst. eauto.
      + do 4 eexists. split; [reflexivity|]. intros i Hi; discriminate Hi. }
  destruct Hlook as (fidx & last & last_idx & nunk & Elook & Hfidx).
  rewrite Elook in H. cbv beta iota zeta in H.
  destruct (match fidx with
            | Some i => match nth_error fs i with Some f => Ok (Some f) | None => Err EOob end
            | None => Ok None
            end) as [fo|e0] eqn:Efo; cbn [bind] in H.
  2:{ destruct fidx as [i|]; [|discriminate Efo]. destruct (Hfidx i eq_refl) as (f & Hn). rewrite Hn in Efo. discriminate Efo. }
  match type of H with bind ?X _ = _ => destruct X as [[len pref]|e1] eqn:Elp end; cbn [bind] in H.
  2:{ inversion H; subst e1. clear H.
      destruct (wt =? WT_VARINT); [destruct (varint_end _ 10); [discriminate Elp | inversion Elp; reflexivity]|].
      destruct (wt =? WT_64BIT); [destruct (_ <? 8); [inversion Elp; reflexivity | discriminate Elp]|].
      destruct (wt =? WT_LEN).
      - destruct (scan_length_prefixed_data _ _ 0) as [l p]. destruct (l =? 0); [inversion Elp; reflexivity | discriminate Elp].
      - destruct (wt =? WT_32BIT); [destruct (_ <? 4); [inversion Elp; reflexivity | discriminate Elp] | inversion Elp; reflexivity]. }
  match type of H with bind ?X _ = _ => destruct X as [slots|e2] eqn:Esl end; cbn [bind] in H; [discriminate H|].
  inversion H; subst e2. clear H.
  destruct fo as [f|]; [|destruct fidx; discriminate Esl].
  destruct fidx as [i|]; [|discriminate Esl].
  assert (Hn : nth_error fs i = Some f).
  { destruct (nth_error fs i) as [f'|]; [inversion Efo; reflexivity | discriminate Efo]. }
  destruct (label_eqb (f_label f) LRepeated) eqn:Er; [|discriminate Esl].
  assert (Hb : forall c, exists r, bump_count (st_slots st) i c = Ok r).
  { intros c. unfold bump_count. rewrite (HS i f Hn), Er. eauto. }
  destruct (packed_arrival f wt).
  - destruct (count_packed_elements _ _ _ 0) as [okc cnt]. destruct (okc =? 0); [inversion Esl; reflexivity|].
    destruct (Hb cnt) as (r & Hr). rewrite Hr in Esl. discriminate Esl.
  - destruct (Hb 1) as (r & Hr). rewrite Hr in Esl. discriminate Esl.
Qed.

Lemma scan_loop_err : forall N fuel st e, N < 4294967296 -> scan_inv N st -> scan_loop fuel md st = Err e -> e = EFail \/ e = EFuel.
Proof.
  intros N. induction fuel as [|k IH]; intros st e HN I H; cbn [scan_loop] in H.
  - destruct (st_at st); [discriminate H | inversion H; right; reflexivity].
  - destruct (st_at st) as [|b t] eqn:Ea; [discriminate H|].
    destruct (scan_one md st) as [st1|e1] eqn:E1; cbn [bind] in H.
    + apply (IH st1 e HN); [|exact H]. apply (scan_one_inv' N st st1 HN E1); [congruence | exact I].
    + inversion H; subst e1. left. apply (scan_one_err N st e I); [congruence | exact E1].
Qed.

End SC.

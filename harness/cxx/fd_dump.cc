// fd_dump: print the schema dump of harness/GENFORMAT.md section 1.
//
//   fd_dump <root.proto> [<more.proto> ...] -I <dir> [-I <dir> ...]
//
// Build:
//   g++ -std=c++17 -O1 -I/repo -I/repo/protobuf-c fd_dump.cc /repo/protobuf-c/protobuf-c.pb.cc \
//       $(pkg-config --cflags --libs protobuf) -o fd_dump
//
// The .proto files are parsed with compiler::Importer over a DiskSourceTree in which every -I
// directory is mapped at the virtual root (same search rule as protoc).  protobuf-c.pb.cc is linked
// in so that the extensions pb_c_file / pb_c_msg / pb_c_field are compiled-in extensions: the
// pool's option interpreter then stores them as parsed extensions and GetExtension() reads them,
// exactly as protoc-gen-c does.
//
// Exit status: 0 ok, 1 import error (messages on stderr), 2 usage.

#include <cstdint>
#include <cstdio>
#include <cstring>
#include <iostream>
#include <set>
#include <string>
#include <vector>

#include <google/protobuf/compiler/importer.h>
#include <google/protobuf/descriptor.h>
#include <google/protobuf/descriptor.pb.h>

#include <protobuf-c/protobuf-c.pb.h>

namespace gp = google::protobuf;

static std::string hexs(const std::string &s) {
  static const char *d = "0123456789abcdef";
  std::string r = "s:";
  for (unsigned char c : s) {
    r.push_back(d[c >> 4]);
    r.push_back(d[c & 15]);
  }
  return r;
}

class ErrPrinter : public gp::compiler::MultiFileErrorCollector {
 public:
  void AddError(const std::string &filename, int line, int column, const std::string &message) override {
    std::cerr << filename << ":" << (line + 1) << ":" << (column + 1) << ": " << message << "\n";
  }
  void AddWarning(const std::string &filename, int line, int column, const std::string &message) override {
    std::cerr << filename << ":" << (line + 1) << ":" << (column + 1) << ": warning: " << message << "\n";
  }
};

static bool skipped_file(const std::string &name) {
  return name.rfind("google/protobuf/", 0) == 0 || name == "protobuf-c/protobuf-c.proto";
}

static const char *type_name(gp::FieldDescriptor::Type t) {
  switch (t) {
    case gp::FieldDescriptor::TYPE_DOUBLE: return "DOUBLE";
    case gp::FieldDescriptor::TYPE_FLOAT: return "FLOAT";
    case gp::FieldDescriptor::TYPE_INT64: return "INT64";
    case gp::FieldDescriptor::TYPE_UINT64: return "UINT64";
    case gp::FieldDescriptor::TYPE_INT32: return "INT32";
    case gp::FieldDescriptor::TYPE_FIXED64: return "FIXED64";
    case gp::FieldDescriptor::TYPE_FIXED32: return "FIXED32";
    case gp::FieldDescriptor::TYPE_BOOL: return "BOOL";
    case gp::FieldDescriptor::TYPE_STRING: return "STRING";
    case gp::FieldDescriptor::TYPE_GROUP: return "GROUP";
    case gp::FieldDescriptor::TYPE_MESSAGE: return "MESSAGE";
    case gp::FieldDescriptor::TYPE_BYTES: return "BYTES";
    case gp::FieldDescriptor::TYPE_UINT32: return "UINT32";
    case gp::FieldDescriptor::TYPE_ENUM: return "ENUM";
    case gp::FieldDescriptor::TYPE_SFIXED32: return "SFIXED32";
    case gp::FieldDescriptor::TYPE_SFIXED64: return "SFIXED64";
    case gp::FieldDescriptor::TYPE_SINT32: return "SINT32";
    case gp::FieldDescriptor::TYPE_SINT64: return "SINT64";
  }
  return "?";
}

static void dump_enum(const gp::EnumDescriptor *e) {
  printf("ENUM %s %d\n", hexs(e->full_name()).c_str(), e->value_count());
  for (int i = 0; i < e->value_count(); i++)
    printf("EV %s %d\n", hexs(e->value(i)->name()).c_str(), e->value(i)->number());
}

static std::string default_token(const gp::FieldDescriptor *f) {
  if (!f->has_default_value()) return "-";
  char buf[64];
  switch (f->cpp_type()) {
    case gp::FieldDescriptor::CPPTYPE_INT32:
      snprintf(buf, sizeof buf, "%d", (int)f->default_value_int32());
      return buf;
    case gp::FieldDescriptor::CPPTYPE_INT64:
      snprintf(buf, sizeof buf, "%lld", (long long)f->default_value_int64());
      return buf;
    case gp::FieldDescriptor::CPPTYPE_UINT32:
      snprintf(buf, sizeof buf, "%u", (unsigned)f->default_value_uint32());
      return buf;
    case gp::FieldDescriptor::CPPTYPE_UINT64:
      snprintf(buf, sizeof buf, "%llu", (unsigned long long)f->default_value_uint64());
      return buf;
    case gp::FieldDescriptor::CPPTYPE_BOOL:
      return f->default_value_bool() ? "1" : "0";
    case gp::FieldDescriptor::CPPTYPE_FLOAT: {
      float v = f->default_value_float();
      uint32_t bits;
      memcpy(&bits, &v, 4);
      snprintf(buf, sizeof buf, "x:%08x", (unsigned)bits);
      return buf;
    }
    case gp::FieldDescriptor::CPPTYPE_DOUBLE: {
      double v = f->default_value_double();
      uint64_t bits;
      memcpy(&bits, &v, 8);
      snprintf(buf, sizeof buf, "x:%016llx", (unsigned long long)bits);
      return buf;
    }
    case gp::FieldDescriptor::CPPTYPE_STRING:
      return hexs(f->default_value_string());
    case gp::FieldDescriptor::CPPTYPE_ENUM:
      snprintf(buf, sizeof buf, "%d", f->default_value_enum()->number());
      return buf;
    case gp::FieldDescriptor::CPPTYPE_MESSAGE:
      return "-";
  }
  return "-";
}

static void dump_message(const gp::Descriptor *m, bool nested, int file_no_generate) {
  const ProtobufCMessageOptions mo = m->options().GetExtension(pb_c_msg);
  std::string gp_s = mo.has_gen_pack_helpers() ? (mo.gen_pack_helpers() ? "1" : "0") : "-";
  std::string gi_s = mo.has_gen_init_helpers() ? (mo.gen_init_helpers() ? "1" : "0") : "-";
  printf("MSG %s %d %d %d %d %s %s %s\n", hexs(m->full_name()).c_str(), m->field_count(),
         m->oneof_decl_count(), nested ? 1 : 0, file_no_generate, hexs(mo.base_field_name()).c_str(),
         gp_s.c_str(), gi_s.c_str());
  for (int i = 0; i < m->oneof_decl_count(); i++)
    printf("ONEOF %d %s\n", i, hexs(m->oneof_decl(i)->name()).c_str());
  for (int i = 0; i < m->field_count(); i++) {
    const gp::FieldDescriptor *f = m->field(i);
    const ProtobufCFieldOptions fo = f->options().GetExtension(pb_c_field);
    const char *label = f->label() == gp::FieldDescriptor::LABEL_REQUIRED   ? "REQ"
                        : f->label() == gp::FieldDescriptor::LABEL_REPEATED ? "REP"
                                                                            : "OPT";
    std::string tn = "s:";
    if (f->type() == gp::FieldDescriptor::TYPE_MESSAGE || f->type() == gp::FieldDescriptor::TYPE_GROUP)
      tn = hexs(f->message_type()->full_name());
    else if (f->type() == gp::FieldDescriptor::TYPE_ENUM)
      tn = hexs(f->enum_type()->full_name());
    const char *packed = f->options().has_packed() ? (f->options().packed() ? "1" : "0") : "-";
    printf("FLD %s %d %s %s %s %d %s %d %d %d %s %d\n", hexs(f->name()).c_str(), f->number(), label,
           type_name(f->type()), tn.c_str(), f->containing_oneof() ? f->containing_oneof()->index() : -1,
           packed, f->options().deprecated() ? 1 : 0, fo.string_as_bytes() ? 1 : 0,
           f->has_default_value() ? 1 : 0, default_token(f).c_str(), (f->containing_oneof() && f->containing_oneof()->is_synthetic()) ? 1 : 0);
  }
  for (int i = 0; i < m->enum_type_count(); i++) dump_enum(m->enum_type(i));
  for (int i = 0; i < m->nested_type_count(); i++) dump_message(m->nested_type(i), true, file_no_generate);
}

static void dump_file(const gp::FileDescriptor *fd) {
  const ProtobufCFileOptions fo = fd->options().GetExtension(pb_c_file);
  int syntax = fd->syntax() == gp::FileDescriptor::SYNTAX_PROTO3 ? 3 : 2;
  const char *opt = "-";
  if (fd->options().has_optimize_for()) {
    switch (fd->options().optimize_for()) {
      case gp::FileOptions::SPEED: opt = "SPEED"; break;
      case gp::FileOptions::CODE_SIZE: opt = "CODE_SIZE"; break;
      case gp::FileOptions::LITE_RUNTIME: opt = "LITE_RUNTIME"; break;
    }
  }
  std::string cpkg = fo.has_c_package() ? hexs(fo.c_package()) : "NULL";
  printf("FILE %s %s %d %s %d %d %d %d %d %s\n", hexs(fd->name()).c_str(), hexs(fd->package()).c_str(),
         syntax, cpkg.c_str(), fo.no_generate() ? 1 : 0, fo.const_strings() ? 1 : 0,
         fo.use_oneof_field_name() ? 1 : 0, fo.gen_pack_helpers() ? 1 : 0, fo.gen_init_helpers() ? 1 : 0,
         opt);
  int ng = fo.no_generate() ? 1 : 0;
  for (int i = 0; i < fd->message_type_count(); i++) dump_message(fd->message_type(i), false, ng);
  for (int i = 0; i < fd->enum_type_count(); i++) dump_enum(fd->enum_type(i));
  for (int i = 0; i < fd->service_count(); i++) {
    const gp::ServiceDescriptor *s = fd->service(i);
    printf("SVC %s %d %d\n", hexs(s->full_name()).c_str(), s->method_count(), ng);
    for (int j = 0; j < s->method_count(); j++) {
      const gp::MethodDescriptor *m = s->method(j);
      printf("MTH %s %s %s\n", hexs(m->name()).c_str(), hexs(m->input_type()->full_name()).c_str(),
             hexs(m->output_type()->full_name()).c_str());
    }
  }
  printf("ENDFILE\n");
}

static void visit(const gp::FileDescriptor *fd, std::set<std::string> &seen) {
  if (seen.count(fd->name())) return;
  seen.insert(fd->name());
  for (int i = 0; i < fd->dependency_count(); i++) visit(fd->dependency(i), seen);
  if (!skipped_file(fd->name())) dump_file(fd);
}

int main(int argc, char **argv) {
  // Force the generated extension registrations of protobuf-c.pb.cc to be linked and initialised.
  (void)ProtobufCFileOptions::default_instance();

  std::vector<std::string> files, incs;
  for (int i = 1; i < argc; i++) {
    std::string a = argv[i];
    if (a == "-I") {
      if (++i >= argc) {
        fprintf(stderr, "fd_dump: -I needs an argument\n");
        return 2;
      }
      incs.push_back(argv[i]);
    } else if (a.rfind("-I", 0) == 0) {
      incs.push_back(a.substr(2));
    } else {
      files.push_back(a);
    }
  }
  if (files.empty()) {
    fprintf(stderr, "usage: fd_dump <root.proto> [<more.proto>...] -I <dir>...\n");
    return 2;
  }
  if (incs.empty()) incs.push_back(".");

  gp::compiler::DiskSourceTree tree;
  for (const std::string &d : incs) tree.MapPath("", d);
  ErrPrinter ep;
  gp::compiler::Importer importer(&tree, &ep);

  std::set<std::string> seen;
  std::vector<const gp::FileDescriptor *> fds;
  for (const std::string &f : files) {
    const gp::FileDescriptor *fd = importer.Import(f);
    if (fd == nullptr) {
      fprintf(stderr, "fd_dump: cannot import %s\n", f.c_str());
      return 1;
    }
    fds.push_back(fd);
  }
  for (const gp::FileDescriptor *fd : fds) visit(fd, seen);
  return 0;
}

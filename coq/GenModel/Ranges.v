(* WriteIntRanges (c_helpers.cc) and the enum variant (c_enum.cc): the range
   table the generator emits for a strictly increasing list of numbers. *)
From Coq Require Import ZArith List Bool.
From PBC Require Import Base.CInt.
Import ListNotations.
Local Open Scope Z_scope.

(* [cur_start, cur_idx]: first value / first index of the run being built;
   [prev]: the previous value; [i]: index of the next value *)
Fixpoint mk_ranges_aux (vs : list Z) (cur_start cur_idx prev i : Z) : list IntRange :=
  match vs with
  | [] => [ {| start_value := cur_start; orig_index := cur_idx |};
            {| start_value := 0; orig_index := i |} ]
  | v :: t =>
      if prev + 1 =? v then mk_ranges_aux t cur_start cur_idx v (i + 1)
      else {| start_value := cur_start; orig_index := cur_idx |} :: mk_ranges_aux t v i v (i + 1)
  end.

(* the table and n_ranges *)
Definition mk_ranges (vs : list Z) : list IntRange * Z :=
  match vs with
  | [] => ([], 0)
  | v :: t => let r := mk_ranges_aux t v 0 v 1 in (r, Z.of_nat (length r) - 1)
  end.

(* enum values sorted by number, aliases removed (first of each number kept) *)
Fixpoint dedup_sorted (vs : list Z) : list Z :=
  match vs with
  | [] => []
  | v :: t => match t with
              | [] => [v]
              | w :: _ => if v =? w then dedup_sorted t else v :: dedup_sorted t
              end
  end.

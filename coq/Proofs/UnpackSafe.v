(* C05, model level: the model of protobuf_c_message_unpack, on EVERY byte string shorter than 2^31 and every
   environment the generator can emit (env_ok), either rejects the input (the C function returns NULL) or returns a
   well-shaped message of the requested type.  In particular it never reports an out-of-bounds index (EOob), a
   NULL dereference (ENull), a slot or cell of the wrong kind (EDesc, EConfused) or a failed assertion (EAssert),
   and never runs out of fuel: these are the model's images of the undefined behaviour C05 excludes. *)
From Coq Require Import ZArith List Bool Lia ZifyBool.
From PBC Require Import Base.CInt Base.Bits Gen.LeafC Impl.Desc Impl.Mem Impl.Enc Impl.WF Impl.Unpack Impl.Canon
     Proofs.LeafSafe Proofs.Shape Proofs.ScanCount Proofs.PackedCount Proofs.MergeSafe Proofs.TagRange
     Proofs.Terminates Proofs.ParseSafe.
Import ListNotations.
Local Open Scope Z_scope.

Lemma err_of_okres : forall A (P : A -> Prop) (r : res A) e, okres P r -> r = Err e -> e = EFail.
Proof. intros A P r e H ->. exact H. Qed.

Lemma ppv_err : forall fuel t data e, is_scalar t = true ->
  parse_packed_varints fuel t data = Err e -> e = EFail \/ e = EFuel.
Proof.
  induction fuel as [|k IH]; intros t data e Hs H; destruct data as [|b r]; cbn [parse_packed_varints] in H; try discriminate H.
  - inversion H. right. reflexivity.
  - destruct (scan_varint _ _ =? 0); [inversion H; left; reflexivity|].
    match type of H with bind ?X _ = _ => destruct X as [w|e1] eqn:Ed end; cbn [bind] in H.
    + match type of H with bind ?X _ = _ => destruct X as [r'|e2] eqn:Er end; cbn [bind] in H; [discriminate H|].
      inversion H; subst e2. exact (IH t _ e Hs Er).
    + inversion H; subst e1. left. exact (err_of_okres _ _ _ _ (dec_scalar_okres t _ _ _ Hs) Ed).
Qed.

Lemma ppf_err : forall n width t wt data e, is_scalar t = true ->
  parse_packed_fixed n width t wt data = Err e -> e = EFail.
Proof.
  induction n as [|k IH]; intros width t wt data e Hs H; cbn [parse_packed_fixed] in H; [discriminate H|].
  match type of H with bind ?X _ = _ => destruct X as [w|e1] eqn:Ed end; cbn [bind] in H.
  - match type of H with bind ?X _ = _ => destruct X as [r'|e2] eqn:Er end; cbn [bind] in H; [discriminate H|].
    inversion H; subst e2. exact (IH _ _ _ _ e Hs Er).
  - inversion H; subst e1. exact (err_of_okres _ _ _ _ (dec_scalar_okres t _ _ _ Hs) Ed).
Qed.

Lemma parse_packed_err : forall f sm e, is_scalar (f_type f) = true -> parse_packed f sm = Err e -> e = EFail.
Proof.
  intros f sm e Hs H. unfold parse_packed in H.
  destruct (f_type f) eqn:Et; try discriminate Hs;
    try (exact (ppf_err _ _ _ _ _ e Hs H));
    (destruct (ppv_err _ _ _ e Hs H) as [->| ->]; [reflexivity|]; exfalso;
     exact (parse_packed_varints_terminates _ _ _ (Nat.lt_succ_diag_r _) H)).
Qed.

Section Top.
Variable E : env.
Hypothesis EO : env_ok E = true.

Theorem unpack_safe : forall fuel d data,
  bytes data -> Mem.zlen data < 2147483648 -> (d < length E)%nat -> (length data < fuel)%nat ->
  okres (fun m => shape_msg E m = true /\ m_desc m = d) (unpack E fuel d data).
Proof.
  induction fuel as [|k IH]; intros d data HB HN Hd Hf; [lia|].
  cbn [unpack]. destruct (nth_error E d) as [md|] eqn:Hmd; [|apply nth_error_None in Hmd; lia].
  pose proof (env_desc_ok E EO d md Hmd) as D. cbv zeta.
  match goal with |- context [scan_loop _ md ?s] => set (st0 := s) end.
  assert (I0 : scan_inv md (Mem.zlen data) st0).
  { unfold scan_inv, st0. cbn [st_at st_members st_slots init_msg m_slots data_total length].
    split; [exact HB|]. split.
    { unfold last_ok. cbn [st_last st_last_idx]. destruct (md_fields md) as [|f0 t]; [left; reflexivity|right].
      exists f0. split; reflexivity. }
    split; [constructor|]. split; [lia|]. split; [apply map_length|].
    intros i f Hfi. rewrite (map_nth_error init_slot i (md_fields md) Hfi). f_equal.
    destruct (label_eqb (f_label f) LRepeated) eqn:Er; [|reflexivity].
    unfold init_slot. destruct (f_label f); try discriminate Er. reflexivity. }
  destruct (scan_loop (S (length data)) md st0) as [st|e] eqn:Es; cbn [bind].
  2:{ cbn [okres].
      destruct (scan_loop_err E md D parse_tag_range_bytes count_packed_elements_le_len (Mem.zlen data) _ st0 e ltac:(lia) I0 Es) as [->| ->]; [reflexivity|].
      exfalso. exact (scan_loop_terminates md (S (length data)) st0 (Nat.lt_succ_diag_r _) Es). }
  destruct (scan_loop_inv' E md D parse_tag_range_bytes count_packed_elements_le_len (Mem.zlen data) _ st0 st ltac:(lia) Es I0)
    as ((HB' & HL & HM & HDt & HSl) & Hat).
  (* "too many fields": a rejection like any other *)
  destruct (max_members <? Mem.zlen (st_members st)); [reflexivity|].
  cbn [init_msg m_unions].
  apply (parse_all E EO parse_tag_range_bytes count_packed_elements_le_len) with (N := Mem.zlen data).
  - intros f sm okc c vs H1 H2 H3 H4 H5 H6 H7 H8.
    destruct (parse_packed_le_count f sm okc c vs H1 H2 H3 H4 H5 H6 H7 H8) as (Ha & _ & Hb). split; [exact Ha | exact Hb].
  - exact parse_packed_err.
  - exact (merge_shape E EO).
  - exact HN.
  - intros d' payload HBp Hlp Hd'. apply IH; try assumption; unfold Mem.zlen in *; lia.
  - exact Hmd.
  - exact HM.
  - rewrite Hat in HDt. change (Mem.zlen (@nil Z)) with 0 in HDt. lia.
  - exact HSl.
Qed.

(* the entry point protobuf_c_message_unpack *)
Corollary unpack_top_safe : forall d data, bytes data -> Mem.zlen data < 2147483648 -> (d < length E)%nat ->
  okres (fun m => shape_msg E m = true /\ m_desc m = d) (unpack_top E d data).
Proof. intros d data HB HN Hd. unfold unpack_top. apply unpack_safe; try assumption. lia. Qed.

Corollary unpack_never_ub : forall d data e, bytes data -> Mem.zlen data < 2147483648 -> (d < length E)%nat ->
  unpack_top E d data = Err e -> e = EFail.
Proof. intros d data e HB HN Hd H. exact (err_of_okres _ _ _ _ (unpack_top_safe d data HB HN Hd) H). Qed.

Corollary unpack_top_total : forall d data, bytes data -> Mem.zlen data < 2147483648 -> (d < length E)%nat ->
  unpack_top E d data = Err EFail \/
  exists m, unpack_top E d data = Ok m /\ shape_msg E m = true /\ m_desc m = d.
Proof.
  intros d data HB HN Hd. pose proof (unpack_top_safe d data HB HN Hd) as H.
  destruct (unpack_top E d data) as [m|e]; cbn [okres] in H; [right; exists m; auto | left; rewrite H; reflexivity].
Qed.

End Top.

(* C20: the generated service stubs dispatch to the handler of their own method. *)
From Coq Require Import ZArith List Bool Lia.
From PBC Require Import Base.CInt GenModel.Gen GenModel.Service.
Import ListNotations.

Lemma stubs_from_nth : forall lc names k i st,
  nth_error (stubs_from lc k names) i = Some st -> gst_index st = (k + i)%nat.
Proof.
  intros lc names. induction names as [|n t IH]; intros k i st H; [destruct i; discriminate H|].
  destruct i as [|i]; cbn [stubs_from nth_error] in H.
  - inversion H; subst. cbn. lia.
  - rewrite (IH (S k) i st H). lia.
Qed.

Lemma stubs_from_length : forall lc names k, length (stubs_from lc k names) = length names.
Proof. intros lc names. induction names as [|n t IH]; intros k; [reflexivity|]. cbn. f_equal. apply IH. Qed.

Section Svc.
Variables (f : pfile) (s : psvc).
Let c := gen_svc_code f s.
Let n := length (ps_methods s).

Lemma stub_index_id : forall i, (i < n)%nat -> stub_index c i = Some i.
Proof.
  intros i Hi. unfold stub_index, c, gen_svc_code. cbn [gsc_stubs].
  destruct (nth_error (stubs_from _ 0 _) i) as [st|] eqn:E.
  - f_equal. exact (stubs_from_nth _ _ _ _ _ E).
  - apply nth_error_None in E. rewrite stubs_from_length, map_length in E. unfold n in Hi. lia.
Qed.

(* the stub of method i reaches exactly the i-th handler of the structure, and the caller's
   input, closure and closure data arrive unchanged *)
Theorem stub_dispatch : forall (D H I C X : Type) (hs : list H) (i : nat) (inp : I) (cl : C) (d : X) h,
  length hs = n -> nth_error hs i = Some h ->
  call_stub c (macro_init (D := D) c hs) i inp cl d =
  Some {| hc_handler := h; hc_input := inp; hc_closure := cl; hc_closure_data := d |}.
Proof.
  intros D H I C X hs i inp cl d h Hl Hn.
  assert (Hi : (i < n)%nat) by (rewrite <- Hl; apply nth_error_Some; congruence).
  unfold call_stub. rewrite (stub_index_id i Hi). unfold invoke, macro_init. cbn [sv_handlers].
  rewrite nth_error_map, Hn. reflexivity.
Qed.

(* no stub beyond the methods *)
Theorem no_extra_stub : forall i, (n <= i)%nat -> stub_index c i = None.
Proof.
  intros i Hi. unfold stub_index, c, gen_svc_code. cbn [gsc_stubs].
  destruct (nth_error (stubs_from _ 0 _) i) eqn:E; [|reflexivity].
  assert (nth_error (stubs_from (full_name_to_lower f (ps_full_name s)) 0
            (map (fun mt => camel_to_lower (pmt_name mt)) (ps_methods s))) i <> None) by congruence.
  apply nth_error_Some in H. rewrite stubs_from_length, map_length in H. unfold n in Hi. lia.
Qed.

(* <svc>__init records the descriptor, the library's invoke and the destroy callback and clears one
   slot per method; destroying the service calls that callback *)
Theorem init_and_destroy : forall (D H : Type) (destroy : D),
  let sv := generated_init (D := D) (H := H) c destroy in
  sv_descriptor sv = Some (descriptor_sym f (ps_full_name s)) /\ sv_invoke_internal sv = true /\
  service_destroy sv = Some destroy /\ all_handlers_null sv = true /\ length (sv_handlers sv) = n.
Proof.
  intros D H destroy sv. unfold sv, generated_init, service_destroy, all_handlers_null. cbn.
  repeat split.
  - induction (ps_methods s) as [|m t IH]; [reflexivity | exact IH].
  - rewrite !map_length. reflexivity.
Qed.

(* the handler members of the structure are in the order of the descriptor's method array *)
Theorem handler_order_is_method_order : forall fs,
  length (gsc_handlers c) = length (gs_methods (gen_svc fs f s)) /\
  forall i mt, nth_error (ps_methods s) i = Some mt ->
    nth_error (gsc_handlers c) i = Some (camel_to_lower (pmt_name mt)) /\
    nth_error (gs_methods (gen_svc fs f s)) i = Some (gen_method fs f mt).
Proof.
  intros fs. unfold c, gen_svc_code, gen_svc. cbn [gsc_handlers gs_methods]. split; [rewrite !map_length; reflexivity|].
  intros i mt Hn. rewrite !nth_error_map, Hn. split; reflexivity.
Qed.
End Svc.

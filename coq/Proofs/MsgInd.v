(* Induction principle for the nested message tree. *)
From Coq Require Import ZArith List Bool.
From PBC Require Import Impl.Desc Impl.Mem.
Import ListNotations.

Definition slot_all (Q : sval -> Prop) (s : slot) : Prop :=
  match s with
  | SOne _ v => Q v
  | SRep _ _ (Some l) => Forall Q l
  | SRep _ _ None => True
  | SUnion _ => True
  end.

Section MsgInd.
Variable P : msg -> Prop.
Variable Q : sval -> Prop.
Hypothesis Hword : forall w, Q (VWord w).
Hypothesis Hstr : forall p, Q (VStr p).
Hypothesis Hbytes : forall n p, Q (VBytes n p).
Hypothesis HmsgN : Q (VMsg None).
Hypothesis HmsgS : forall m, P m -> Q (VMsg (Some m)).
Hypothesis HMsg : forall d slots unions unk,
  Forall (slot_all Q) slots -> Forall (fun cv : Z * sval => Q (snd cv)) unions ->
  P (Msg d slots unions unk).

Fixpoint msg_ind2 (m : msg) : P m :=
  match m with
  | Msg d slots unions unk =>
      HMsg d slots unions unk
        ((fix go (l : list slot) : Forall (slot_all Q) l :=
            match l with
            | [] => Forall_nil _
            | s :: t =>
                Forall_cons s
                  (match s return slot_all Q s with
                   | SOne _ v => sval_ind2 v
                   | SRep _ _ (Some l) =>
                       (fix gov (l : list sval) : Forall Q l :=
                          match l with
                          | [] => Forall_nil _
                          | v :: t => Forall_cons v (sval_ind2 v) (gov t)
                          end) l
                   | SRep _ _ None => I
                   | SUnion _ => I
                   end) (go t)
            end) slots)
        ((fix gou (l : list (Z * sval)) : Forall (fun cv : Z * sval => Q (snd cv)) l :=
            match l with
            | [] => Forall_nil _
            | cv :: t => Forall_cons cv (sval_ind2 (snd cv)) (gou t)
            end) unions)
  end
with sval_ind2 (v : sval) : Q v :=
  match v with
  | VWord w => Hword w
  | VStr p => Hstr p
  | VBytes n p => Hbytes n p
  | VMsg None => HmsgN
  | VMsg (Some m) => HmsgS m (msg_ind2 m)
  end.
End MsgInd.

(* protobuf_c_message_pack_to_buffer and its helpers (protobuf-c.c 1525-2010):
   the sequence of (len, data) chunks handed to buffer->append, in order. *)
From Coq Require Import ZArith List Bool.
From PBC Require Import Base.CInt Gen.LeafC Impl.Desc Impl.Mem Impl.Enc Impl.Size.
Import ListNotations.
Local Open Scope Z_scope.

Section PackBuf.
Variable E : env.

(* required_field_pack_to_buffer *)
Definition pb_required (rec : msg -> res (list (list Z))) (f : field) (v : sval) : res (list (list Z)) :=
  let key := e_tag (f_id f) (wire_type_of (f_type f)) in
  match f_type f with
  | TString =>
      do p <- as_str v;
      do s <- str_bytes f p;
      let b := match s with None => [] | Some b => b end in
      Ok [key ++ e_uint32 (u32 (zlen b)); b]
  | TBytes =>
      do lp <- as_bytes v;
      do b <- data_bytes f (fst lp) (snd lp);
      Ok [key ++ e_uint32 (u32 (fst lp)); b]
  | TMessage =>
      match v with
      | VMsg (Some sub) =>
          do sublen <- size_msg E sub;
          do cs <- rec sub;
          Ok ((key ++ e_uint32 (u32 sublen)) :: cs)
      | VMsg None | VWord 0 => Ok [key ++ e_uint32 0]
      | _ => Err EConfused
      end
  | t =>
      do w <- as_word v;
      do b <- e_scalar t w;
      Ok [key ++ b]
  end.

Definition pb_oneof rec (f : field) (case : Z) (v : sval) : res (list (list Z)) :=
  if negb (case =? f_id f) then Ok []
  else do a <- ptr_absent f v;
       if a then Ok [] else pb_required rec f v.

Definition pb_optional rec (f : field) (has : Z) (v : sval) : res (list (list Z)) :=
  match f_type f with
  | TMessage | TString =>
      do a <- ptr_absent f v;
      if a then Ok [] else pb_required rec f v
  | _ => if has =? 0 then Ok [] else pb_required rec f v
  end.

Definition pb_unlabeled rec (f : field) (v : sval) : res (list (list Z)) :=
  do z <- zeroish f v;
  if z then Ok [] else pb_required rec f v.

(* get_packed_payload_length: per element *)
Definition pb_payload_len_elem (f : field) (v : sval) : res Z :=
  match f_type f with
  | TString | TBytes | TMessage => Err EAssert
  | t => do w <- as_word v; sz_scalar t w
  end.

Definition pb_payload_len (f : field) (count : Z) (l : list sval) : res Z :=
  match f_type f with
  | TSfixed32 | TFixed32 | TFloat => Ok (u32 (count * 4))
  | TSfixed64 | TFixed64 | TDouble => Ok (u32 (count * 8))
  | TBool => Ok (u32 count)
  | TString | TBytes | TMessage => Err EAssert
  | _ => sumM_n (pb_payload_len_elem f) l (Z.to_nat count)
  end.

(* pack_buffer_packed_payload: chunks and returned length *)
Definition pb_packed_elem (f : field) (v : sval) : res (list (list Z)) :=
  match f_type f with
  | TString | TBytes | TMessage => Err EAssert
  | t => do w <- as_word v; do b <- e_scalar t w; Ok [b]
  end.

Definition pb_payload (f : field) (count : Z) (l : list sval) : res (list (list Z) * Z) :=
  match f_type f with
  | TSfixed32 | TFixed32 | TFloat | TSfixed64 | TFixed64 | TDouble =>
      (* little-endian host: one append of the raw array *)
      do cs <- concatM_n (pb_packed_elem f) l (Z.to_nat count);
      let raw := concat cs in
      Ok ([raw], zlen raw)
  | TBool =>
      do cs <- concatM_n (pb_packed_elem f) l (Z.to_nat count);
      Ok (cs, u32 count)
  | TString | TBytes | TMessage => Err EAssert
  | _ =>
      do cs <- concatM_n (pb_packed_elem f) l (Z.to_nat count);
      Ok (cs, zlen (concat cs))
  end.

Definition pb_repeated rec (f : field) (count : Z) (arr : option (list sval)) : res (list (list Z)) :=
  (* the parameter is 'unsigned count': counts of 2^32 elements and more are outside the model *)
  if count =? 0 then Ok []
  else if f_packed f then
    match arr with
    | None => Err ENull
    | Some l =>
        do payload_len <- pb_payload_len f count l;
        let hdr := e_tag (f_id f) WT_LEN ++ e_uint32 (u32 payload_len) in
        do pr <- pb_payload f count l;
        if snd pr =? payload_len then Ok (hdr :: fst pr) else Err EAssert
    end
  else match arr with
       | None => Err ENull
       | Some l => concatM_n (pb_required rec f) l (Z.to_nat count)
       end.

Definition pb_unknown (u : ufield) : list (list Z) :=
  [e_tag (u_tag u) (u_wt u); u_data u].

Definition pb_field rec (unions : list (Z * sval)) (f : field) (s : slot) : res (list (list Z)) :=
  match f_label f with
  | LRequired => match s with SOne _ v => pb_required rec f v | _ => Err EDesc end
  | LOptional | LNone =>
      if f_oneof f then
        match s with
        | SUnion g => with_nth (fun cv : Z * sval => pb_oneof rec f (fst cv) (snd cv)) (Err EDesc) unions g
        | _ => Err EDesc
        end
      else match s with
           | SOne has v =>
               match f_label f with
               | LOptional => pb_optional rec f has v
               | _ => pb_unlabeled rec f v
               end
           | _ => Err EDesc
           end
  | LRepeated => match s with SRep n _ arr => pb_repeated rec f n arr | _ => Err EDesc end
  end.

Definition pb_fields rec unions : list field -> list slot -> res (list (list Z)) :=
  fix go (fs : list field) (ss : list slot) {struct ss} : res (list (list Z)) :=
    match fs, ss with
    | [], _ => Ok []
    | f :: fs', s :: ss' =>
        do a <- pb_field rec unions f s;
        do b <- go fs' ss';
        Ok (a ++ b)
    | _ :: _, [] => Err EDesc
    end.

Fixpoint chunks_msg (m : msg) : res (list (list Z)) :=
  match m with
  | Msg d slots unions unk =>
      match nth_error E d with
      | None => Err EDesc
      | Some md =>
          do a <- pb_fields chunks_msg unions (md_fields md) slots;
          Ok (a ++ concat (map pb_unknown unk))
      end
  end.

End PackBuf.

/*
 * impl_driver.c -- implementation side of the differential-testing harness
 * for the protobuf-c runtime.  See ../FORMAT.md for the case-file format.
 *
 *   impl_driver <casefile>
 *
 * reads the schema section, builds ProtobufCMessageDescriptor objects at run
 * time (synthetic struct layout of FORMAT.md section 1) and then prints exactly
 * one output line per case line.  A malformed case line yields `ERR <reason>`.
 *
 * The library is compiled into this translation unit by including its source,
 * so there is exactly one copy of it, always built from the current tree, and
 * the driver can reach the static `message_init_generic`.
 *
 * Build:
 *   gcc -std=gnu11 -O1 -g -fsanitize=address,undefined \
 *       -fno-sanitize=nonnull-attribute -fno-sanitize-recover=undefined \
 *       -I<repo> -I<repo>/protobuf-c impl_driver.c -o impl_driver
 */
#define _GNU_SOURCE
#include <errno.h>
#include <fcntl.h>
#include <setjmp.h>
#include <signal.h>
#include <stdarg.h>
#include <stdint.h>
#include <stdio.h>
#include <stdlib.h>
#include <string.h>
#include <sys/types.h>
#include <sys/wait.h>
#include <unistd.h>

#include "protobuf-c.c"		/* the library itself (found via -I<repo>/protobuf-c) */

_Static_assert(sizeof(ProtobufCMessage) == 24, "layout assumes a 24-byte ProtobufCMessage");
_Static_assert(sizeof(ProtobufCBinaryData) == 16, "layout assumes a 16-byte ProtobufCBinaryData");
_Static_assert(sizeof(void *) == 8 && sizeof(size_t) == 8, "LP64 only");
_Static_assert(sizeof(protobuf_c_boolean) == 4, "protobuf_c_boolean is a 4-byte int");

/* ------------------------------------------------------------------------- */
/* errors                                                                    */
/* ------------------------------------------------------------------------- */

/* per-case state is thread local so that the -j mode (C17 tie, under ThreadSanitizer) can run
 * cases on several threads against the shared, read-only descriptors */
#ifndef DRV_TLS
# define DRV_TLS __thread
#endif
static DRV_TLS jmp_buf g_jmp;
static DRV_TLS char g_err[256];
static int g_in_schema = 1;	/* schema errors are fatal (exit 2) */
static FILE *g_fp;		/* the case file */
static DRV_TLS unsigned long g_lineno;

static void drv_fail(const char *fmt, ...) __attribute__((noreturn, format(printf, 1, 2)));
static void
drv_fail(const char *fmt, ...)
{
	va_list ap;

	va_start(ap, fmt);
	vsnprintf(g_err, sizeof g_err, fmt, ap);
	va_end(ap);
	if (g_in_schema) {
		fprintf(stderr, "impl_driver: line %lu: schema error: %s\n", g_lineno, g_err);
		exit(2);
	}
	longjmp(g_jmp, 1);
}

static void drv_die(const char *msg) __attribute__((noreturn));
static void
drv_die(const char *msg)
{
	fflush(stdout);
	fprintf(stderr, "impl_driver: line %lu: fatal: %s\n", g_lineno, msg);
	exit(2);
}

/* ------------------------------------------------------------------------- */
/* per-case arena: every block the driver builds for a case is freed at the   */
/* end of the case (keeps ASan/LSan clean even on ERR paths)                 */
/* ------------------------------------------------------------------------- */

static DRV_TLS void **g_arena;
static DRV_TLS size_t g_arena_n, g_arena_cap;

/* exact-size allocation (so that ASan sees over-reads); never returns NULL */
static void *
arena_alloc(size_t n)
{
	void *p;

	if (g_arena_n == g_arena_cap) {
		size_t nc = g_arena_cap ? g_arena_cap * 2 : 256;
		void **na = realloc(g_arena, nc * sizeof *na);
		if (!na)
			drv_die("out of memory (arena)");
		g_arena = na;
		g_arena_cap = nc;
	}
	p = malloc(n);
	if (!p && n == 0)
		p = malloc(1);
	if (!p)
		drv_fail("out of memory allocating %zu bytes", n);
	g_arena[g_arena_n++] = p;
	return p;
}

static void *
arena_calloc(size_t n)
{
	void *p = arena_alloc(n);
	memset(p, 0, n);
	return p;
}

static void
arena_release(void)
{
	size_t i;
	for (i = 0; i < g_arena_n; i++)
		free(g_arena[i]);
	g_arena_n = 0;
}

/* ------------------------------------------------------------------------- */
/* output buffer: one line is assembled, then written (or replaced by ERR)    */
/* ------------------------------------------------------------------------- */

static DRV_TLS char *g_ob;
static DRV_TLS size_t g_ob_len, g_ob_cap;

static void
ob_reserve(size_t extra)
{
	if (g_ob_len + extra > g_ob_cap) {
		size_t nc = g_ob_cap ? g_ob_cap : 4096;
		char *nb;
		while (nc < g_ob_len + extra)
			nc *= 2;
		nb = realloc(g_ob, nc);
		if (!nb)
			drv_die("out of memory (output)");
		g_ob = nb;
		g_ob_cap = nc;
	}
}

static void
ob_putc(char c)
{
	ob_reserve(1);
	g_ob[g_ob_len++] = c;
}

static void
ob_puts(const char *s)
{
	size_t n = strlen(s);
	ob_reserve(n);
	memcpy(g_ob + g_ob_len, s, n);
	g_ob_len += n;
}

static void
ob_u64(uint64_t v)
{
	char tmp[24];
	int i = 0;
	do {
		tmp[i++] = (char) ('0' + v % 10);
		v /= 10;
	} while (v);
	ob_reserve((size_t) i);
	while (i)
		g_ob[g_ob_len++] = tmp[--i];
}

/* " <decimal>" */
static void
ob_sp_u64(uint64_t v)
{
	ob_putc(' ');
	ob_u64(v);
}

static const char hexdig[] = "0123456789abcdef";

/* hex token; the empty byte string is `-` */
static void
ob_hex(const uint8_t *p, size_t n)
{
	size_t i;
	char *o;

	if (n == 0) {
		ob_putc('-');
		return;
	}
	ob_reserve(2 * n);
	o = g_ob + g_ob_len;
	for (i = 0; i < n; i++) {
		*o++ = hexdig[p[i] >> 4];
		*o++ = hexdig[p[i] & 15];
	}
	g_ob_len += 2 * n;
}

static void
ob_sp_hex(const uint8_t *p, size_t n)
{
	ob_putc(' ');
	ob_hex(p, n);
}

static void
ob_hex64(uint64_t v)
{
	int i;
	ob_reserve(16);
	for (i = 15; i >= 0; i--)
		g_ob[g_ob_len++] = hexdig[(v >> (4 * i)) & 15];
}

/* ------------------------------------------------------------------------- */
/* tokenizer (tokens are separated by single spaces; done in place)          */
/* ------------------------------------------------------------------------- */

static DRV_TLS char *g_cur;		/* NULL when the line is exhausted */

static char *
tok_opt(void)
{
	char *s = g_cur, *e;

	if (!s)
		return NULL;
	e = strchr(s, ' ');
	if (e) {
		*e = 0;
		g_cur = e + 1;
	} else {
		g_cur = NULL;
	}
	return s;
}

static char *
tok(void)
{
	char *s = tok_opt();
	if (!s)
		drv_fail("unexpected end of line");
	return s;
}

static void
expect_eol(void)
{
	if (g_cur)
		drv_fail("trailing tokens");
}

static uint64_t
parse_u64(const char *s, const char *what)
{
	uint64_t v = 0;
	const char *p = s;

	if (!*p)
		drv_fail("empty token where %s expected", what);
	for (; *p; p++) {
		unsigned dgt;
		if (*p < '0' || *p > '9')
			drv_fail("bad %s '%.40s'", what, s);
		dgt = (unsigned) (*p - '0');
		if (v > (UINT64_MAX - dgt) / 10)
			drv_fail("%s out of range", what);
		v = v * 10 + dgt;
	}
	return v;
}

static uint64_t
tok_u64(const char *what)
{
	return parse_u64(tok(), what);
}

static unsigned
tok_u32(const char *what)
{
	uint64_t v = tok_u64(what);
	if (v > UINT32_MAX)
		drv_fail("%s out of range", what);
	return (unsigned) v;
}

/* integer with optional leading '-' (two's complement, truncated by the user) */
static uint64_t
tok_i64(const char *what)
{
	char *s = tok();
	if (s[0] == '-')
		return (uint64_t) 0 - parse_u64(s + 1, what);
	return parse_u64(s, what);
}

static int
hexval(char c)
{
	if (c >= '0' && c <= '9')
		return c - '0';
	if (c >= 'a' && c <= 'f')
		return c - 'a' + 10;
	if (c >= 'A' && c <= 'F')
		return c - 'A' + 10;
	return -1;
}

static uint64_t
parse_hex64(const char *s)
{
	uint64_t v = 0;
	size_t n = strlen(s), i;

	if (n == 0 || n > 16)
		drv_fail("bad hex64 '%.40s'", s);
	for (i = 0; i < n; i++) {
		int h = hexval(s[i]);
		if (h < 0)
			drv_fail("bad hex64 '%.40s'", s);
		v = (v << 4) | (unsigned) h;
	}
	return v;
}

/*
 * Decode a hex token into a fresh arena block of exactly `len + extra` bytes
 * (the extra bytes are zero: used for the string terminator).
 */
static uint8_t *
hex_decode(const char *s, size_t extra, size_t *len_out)
{
	size_t n, i;
	uint8_t *out;

	if (s[0] == '-' && s[1] == 0) {
		out = arena_calloc(extra);
		*len_out = 0;
		return out;
	}
	n = strlen(s);
	if (n == 0 || (n & 1))
		drv_fail("bad hex string (length %zu)", n);
	n /= 2;
	out = arena_alloc(n + extra);
	for (i = 0; i < n; i++) {
		int hi = hexval(s[2 * i]), lo = hexval(s[2 * i + 1]);
		if ((hi | lo) < 0)
			drv_fail("bad hex digit");
		out[i] = (uint8_t) (hi << 4 | lo);
	}
	memset(out + n, 0, extra);
	*len_out = n;
	return out;
}

/* ------------------------------------------------------------------------- */
/* schema: dynamic descriptors                                               */
/* ------------------------------------------------------------------------- */

enum { Q_N, Q_H, Q_C, Q_K };
enum { K_SCALAR, K_STRING, K_BYTES, K_MESSAGE };

typedef struct {
	int quant;		/* Q_* */
	unsigned group;		/* for Q_C */
	int kind;		/* K_* */
	unsigned wbytes;	/* scalar width: 4 or 8 (8 for non scalars) */
	unsigned elsize;	/* element size in a repeated array: 4, 8 or 16 */
} FInfo;

typedef struct {
	unsigned nfields, noneofs;
	int generic_init;
	unsigned nread;		/* F lines read so far */
	FInfo *fi;
	unsigned *case_off, *union_off;
	ProtobufCFieldDescriptor *fields;
	unsigned *by_name;
	ProtobufCIntRange *ranges;
	char *name;
	void *templ;		/* generic_init == 0: initial value copied by message_init */
} MInfo;

static ProtobufCMessageDescriptor *g_desc;
static MInfo *g_mi;
static unsigned g_nmsgs;
static void shared_snapshot(void);

static const char *const type_names[17] = {
	"INT32", "SINT32", "SFIXED32", "INT64", "SINT64", "SFIXED64", "UINT32",
	"FIXED32", "UINT64", "FIXED64", "FLOAT", "DOUBLE", "BOOL", "ENUM",
	"STRING", "BYTES", "MESSAGE"
};

static int
type_is_4byte(ProtobufCType t)
{
	switch (t) {
	case PROTOBUF_C_TYPE_INT32:
	case PROTOBUF_C_TYPE_SINT32:
	case PROTOBUF_C_TYPE_SFIXED32:
	case PROTOBUF_C_TYPE_UINT32:
	case PROTOBUF_C_TYPE_FIXED32:
	case PROTOBUF_C_TYPE_FLOAT:
	case PROTOBUF_C_TYPE_BOOL:
	case PROTOBUF_C_TYPE_ENUM:
		return 1;
	default:
		return 0;
	}
}

/*
 * message_init trampolines.  The callback has no descriptor argument, so each
 * descriptor with generic_init == 0 gets its own function; all of them copy
 * a template that was built once with the library's message_init_generic.
 */
#define MAX_TRAMPS 64
static void *g_tramp_templ[MAX_TRAMPS];
static size_t g_tramp_size[MAX_TRAMPS];
static unsigned g_ntramps;

static void
templ_init(unsigned k, ProtobufCMessage *msg)
{
	memcpy(msg, g_tramp_templ[k], g_tramp_size[k]);
}

#define TRAMP_LIST(X) \
	X(0)  X(1)  X(2)  X(3)  X(4)  X(5)  X(6)  X(7)  \
	X(8)  X(9)  X(10) X(11) X(12) X(13) X(14) X(15) \
	X(16) X(17) X(18) X(19) X(20) X(21) X(22) X(23) \
	X(24) X(25) X(26) X(27) X(28) X(29) X(30) X(31) \
	X(32) X(33) X(34) X(35) X(36) X(37) X(38) X(39) \
	X(40) X(41) X(42) X(43) X(44) X(45) X(46) X(47) \
	X(48) X(49) X(50) X(51) X(52) X(53) X(54) X(55) \
	X(56) X(57) X(58) X(59) X(60) X(61) X(62) X(63)
#define INIT_TRAMP(k) \
	static void init_tramp_##k(ProtobufCMessage *m) { templ_init(k, m); }
#define TRAMP_REF(k) init_tramp_##k,
TRAMP_LIST(INIT_TRAMP)
static const ProtobufCMessageInit g_tramps[MAX_TRAMPS] = { TRAMP_LIST(TRAMP_REF) };

static void *
schema_alloc(size_t n)
{
	void *p = calloc(1, n ? n : 1);
	if (!p)
		drv_die("out of memory (schema)");
	return p;
}

static const ProtobufCFieldDescriptor *g_sort_fields;

static int
cmp_by_name(const void *a, const void *b)
{
	unsigned ia = *(const unsigned *) a, ib = *(const unsigned *) b;
	return strcmp(g_sort_fields[ia].name, g_sort_fields[ib].name);
}

/* all F lines of message `idx` have been read: lay out the struct */
static void
schema_finish_msg(unsigned idx)
{
	MInfo *mi = &g_mi[idx];
	ProtobufCMessageDescriptor *d = &g_desc[idx];
	unsigned off = (unsigned) sizeof(ProtobufCMessage);
	unsigned i, g;

	for (i = 0; i < mi->nfields; i++) {
		ProtobufCFieldDescriptor *f = &mi->fields[i];
		FInfo *fi = &mi->fi[i];

		if (fi->quant == Q_H || fi->quant == Q_K) {
			f->quantifier_offset = off;
			off += 8;
		} else {
			f->quantifier_offset = 0;
		}
		if (fi->quant != Q_C) {
			f->offset = off;
			off += 16;
		}
	}
	for (g = 0; g < mi->noneofs; g++) {
		mi->case_off[g] = off;
		off += 8;
		mi->union_off[g] = off;
		off += 16;
	}
	for (i = 0; i < mi->nfields; i++) {
		if (mi->fi[i].quant == Q_C) {
			mi->fields[i].quantifier_offset = mi->case_off[mi->fi[i].group];
			mi->fields[i].offset = mi->union_off[mi->fi[i].group];
		}
	}

	d->magic = PROTOBUF_C__MESSAGE_DESCRIPTOR_MAGIC;
	d->name = d->short_name = d->c_name = mi->name;
	d->package_name = "";
	d->sizeof_message = off;
	d->n_fields = mi->nfields;
	if (mi->nfields == 0) {
		/* as protoc-gen-c emits for an empty message: NULL tables, 0 ranges */
		d->fields = NULL;
		d->fields_sorted_by_name = NULL;
		d->n_field_ranges = 0;
		d->field_ranges = NULL;
	} else {
		unsigned nr = 0;

		d->fields = mi->fields;
		for (i = 0; i < mi->nfields; i++)
			mi->by_name[i] = i;
		g_sort_fields = mi->fields;
		qsort(mi->by_name, mi->nfields, sizeof(unsigned), cmp_by_name);
		d->fields_sorted_by_name = mi->by_name;

		mi->ranges = schema_alloc((mi->nfields + 1) * sizeof(ProtobufCIntRange));
		for (i = 0; i < mi->nfields; i++) {
			if (i == 0 || mi->fields[i - 1].id + 1 != mi->fields[i].id) {
				mi->ranges[nr].start_value = (int) mi->fields[i].id;
				mi->ranges[nr].orig_index = i;
				nr++;
			}
		}
		mi->ranges[nr].start_value = 0;
		mi->ranges[nr].orig_index = mi->nfields;
		d->n_field_ranges = nr;
		d->field_ranges = mi->ranges;
	}
	d->message_init = NULL;
	if (!mi->generic_init) {
		unsigned k = g_ntramps;

		if (k >= MAX_TRAMPS)
			drv_fail("more than %d descriptors with generic_init=0", MAX_TRAMPS);
		g_ntramps++;
		mi->templ = schema_alloc(off);
		message_init_generic(d, mi->templ);	/* d->message_init is still NULL here */
		g_tramp_templ[k] = mi->templ;
		g_tramp_size[k] = off;
		d->message_init = g_tramps[k];
	}
}

static int s_state;		/* 0: expect ENV, 1: expect MSG/END, 2: expect F, 3: done */
static unsigned s_msg;		/* number of MSG blocks started */

static void
schema_line(char *line)
{
	char *kw;

	if (line[0] == '#' || line[0] == 0)
		return;
	g_cur = line;
	kw = tok();
	if (s_state == 0) {
		if (strcmp(kw, "ENV"))
			drv_fail("expected ENV");
		g_nmsgs = tok_u32("nmsgs");
		if (g_nmsgs > 100000)
			drv_fail("too many messages");
		expect_eol();
		g_desc = schema_alloc(g_nmsgs * sizeof *g_desc);
		g_mi = schema_alloc(g_nmsgs * sizeof *g_mi);
		s_state = 1;
	} else if (s_state == 1 && !strcmp(kw, "MSG")) {
		MInfo *mi;
		unsigned idx = tok_u32("idx");

		if (idx != s_msg || idx >= g_nmsgs)
			drv_fail("MSG index %u out of order (expected %u of %u)", idx, s_msg, g_nmsgs);
		mi = &g_mi[idx];
		mi->nfields = tok_u32("nfields");
		mi->noneofs = tok_u32("n_oneofs");
		mi->generic_init = (int) tok_u32("generic_init");
		if (mi->generic_init > 1)
			drv_fail("generic_init must be 0 or 1");
		if (mi->nfields > 1000000 || mi->noneofs > 1000000)
			drv_fail("message too large");
		expect_eol();
		mi->fi = schema_alloc(mi->nfields * sizeof(FInfo));
		mi->fields = schema_alloc(mi->nfields * sizeof(ProtobufCFieldDescriptor));
		mi->by_name = schema_alloc(mi->nfields * sizeof(unsigned));
		mi->case_off = schema_alloc(mi->noneofs * sizeof(unsigned));
		mi->union_off = schema_alloc(mi->noneofs * sizeof(unsigned));
		mi->name = schema_alloc(16);
		snprintf(mi->name, 16, "M%u", idx);
		s_msg++;
		if (mi->nfields == 0)
			schema_finish_msg(idx);
		else
			s_state = 2;
	} else if (s_state == 1 && !strcmp(kw, "END")) {
		expect_eol();
		if (s_msg != g_nmsgs)
			drv_fail("END after %u of %u MSG blocks", s_msg, g_nmsgs);
		s_state = 3;
		g_in_schema = 0;
		shared_snapshot();
	} else if (s_state == 2 && !strcmp(kw, "F")) {
		unsigned idx = s_msg - 1;
		MInfo *mi = &g_mi[idx];
		unsigned i = mi->nread;
		ProtobufCFieldDescriptor *f = &mi->fields[i];
		FInfo *fi = &mi->fi[i];
		char *t, *nm;
		unsigned ty;

		f->id = tok_u32("field id");
		if (f->id == 0 || (i > 0 && mi->fields[i - 1].id >= f->id))
			drv_fail("field ids must be positive and strictly ascending");
		nm = schema_alloc(16);
		snprintf(nm, 16, "f%u", f->id);
		f->name = nm;

		t = tok();
		if (!strcmp(t, "REQ"))
			f->label = PROTOBUF_C_LABEL_REQUIRED;
		else if (!strcmp(t, "OPT"))
			f->label = PROTOBUF_C_LABEL_OPTIONAL;
		else if (!strcmp(t, "REP"))
			f->label = PROTOBUF_C_LABEL_REPEATED;
		else if (!strcmp(t, "NONE"))
			f->label = PROTOBUF_C_LABEL_NONE;
		else
			drv_fail("bad label '%.20s'", t);

		t = tok();
		for (ty = 0; ty < 17; ty++)
			if (!strcmp(t, type_names[ty]))
				break;
		if (ty == 17)
			drv_fail("bad type '%.20s'", t);
		f->type = (ProtobufCType) ty;
		switch (f->type) {
		case PROTOBUF_C_TYPE_STRING:
			fi->kind = K_STRING;
			fi->wbytes = 8;
			fi->elsize = 8;
			break;
		case PROTOBUF_C_TYPE_BYTES:
			fi->kind = K_BYTES;
			fi->wbytes = 8;
			fi->elsize = 16;
			break;
		case PROTOBUF_C_TYPE_MESSAGE:
			fi->kind = K_MESSAGE;
			fi->wbytes = 8;
			fi->elsize = 8;
			break;
		default:
			fi->kind = K_SCALAR;
			fi->wbytes = type_is_4byte(f->type) ? 4 : 8;
			fi->elsize = fi->wbytes;
			break;
		}

		t = tok();
		if (!strcmp(t, "N"))
			fi->quant = Q_N;
		else if (!strcmp(t, "H"))
			fi->quant = Q_H;
		else if (!strcmp(t, "K"))
			fi->quant = Q_K;
		else if (t[0] == 'C') {
			fi->quant = Q_C;
			fi->group = (unsigned) parse_u64(t + 1, "oneof group");
			if (fi->group >= mi->noneofs)
				drv_fail("oneof group %u out of range", fi->group);
		} else
			drv_fail("bad quant '%.20s'", t);
		if (f->label == PROTOBUF_C_LABEL_REPEATED && fi->quant == Q_N)
			drv_fail("repeated field f%u needs a count cell (quant K)", f->id);

		f->flags = 0;
		t = tok();
		/* bit 0: PACKED, bit 1: DEPRECATED (no effect on behaviour; makes the flags word more than one bit) */
		if (strlen(t) != 1 || t[0] < '0' || t[0] > '3')
			drv_fail("bad packed flag");
		if ((t[0] - '0') & 1)
			f->flags |= PROTOBUF_C_FIELD_FLAG_PACKED;
		if ((t[0] - '0') & 2)
			f->flags |= PROTOBUF_C_FIELD_FLAG_DEPRECATED;
		t = tok();
		if (!strcmp(t, "1"))
			f->flags |= PROTOBUF_C_FIELD_FLAG_ONEOF;
		else if (strcmp(t, "0"))
			drv_fail("bad oneof flag");

		t = tok();
		f->descriptor = NULL;
		if (f->type == PROTOBUF_C_TYPE_MESSAGE) {
			uint64_t sub = parse_u64(t, "sub");
			if (sub >= g_nmsgs)
				drv_fail("sub-message index out of range");
			f->descriptor = &g_desc[sub];
		} else if (strcmp(t, "-")) {
			drv_fail("sub must be '-' for a non-message field");
		}

		t = tok();
		f->default_value = NULL;
		if (!strcmp(t, "-")) {
			/* none */
		} else if (t[0] == 'W' && t[1] == ':') {
			uint64_t v = parse_hex64(t + 2);
			uint8_t *cell = schema_alloc(8);

			if (fi->kind != K_SCALAR)
				drv_fail("W default on a non-scalar field");
			if (fi->wbytes == 4) {
				uint32_t v32 = (uint32_t) v;
				memcpy(cell, &v32, 4);
			} else {
				memcpy(cell, &v, 8);
			}
			f->default_value = cell;
		} else if ((t[0] == 'S' || t[0] == 'B') && t[1] == ':') {
			size_t n;
			uint8_t *tmp, *copy;

			if ((t[0] == 'S') != (fi->kind == K_STRING) ||
			    (t[0] == 'B') != (fi->kind == K_BYTES))
				drv_fail("S/B default on a field of another type");
			tmp = hex_decode(t[2] ? t + 2 : "-", 0, &n);
			copy = schema_alloc(n + 1);
			memcpy(copy, tmp, n);
			arena_release();
			if (t[0] == 'S') {
				f->default_value = copy;
			} else {
				ProtobufCBinaryData *bd = schema_alloc(sizeof *bd);
				bd->len = n;
				bd->data = copy;
				f->default_value = bd;
			}
		} else {
			drv_fail("bad default '%.20s'", t);
		}
		expect_eol();
		if (++mi->nread == mi->nfields) {
			schema_finish_msg(idx);
			s_state = 1;
		}
	} else {
		drv_fail("unexpected schema line '%.20s'", kw);
	}
}

static void
schema_free(void)
{
	unsigned m, i;

	for (m = 0; m < g_nmsgs; m++) {
		MInfo *mi = &g_mi[m];
		for (i = 0; i < mi->nfields; i++) {
			ProtobufCFieldDescriptor *f = &mi->fields[i];
			free((void *) f->name);
			if (f->default_value && mi->fi[i].kind == K_BYTES)
				free(((const ProtobufCBinaryData *) f->default_value)->data);
			free((void *) f->default_value);
		}
		free(mi->fi);
		free(mi->fields);
		free(mi->by_name);
		free(mi->ranges);
		free(mi->case_off);
		free(mi->union_off);
		free(mi->name);
		free(mi->templ);
	}
	free(g_mi);
	free(g_desc);
}

/* ------------------------------------------------------------------------- */
/* shared state: descriptors and default values are shared by every message  */
/* (and every thread) and must never be written by the library.  A snapshot  */
/* is taken when the schema is complete and compared at exit; a difference   */
/* adds the line SHARED-STATE-CHANGED to the output.                         */
/* ------------------------------------------------------------------------- */
static struct { const void *p; size_t n; void *copy; } *g_sh;
static size_t g_nsh, g_csh;

static void
shared_add(const void *p, size_t n)
{
	if (!p || !n)
		return;
	if (g_nsh == g_csh) {
		g_csh = g_csh ? g_csh * 2 : 64;
		g_sh = realloc(g_sh, g_csh * sizeof *g_sh);
	}
	g_sh[g_nsh].p = p;
	g_sh[g_nsh].n = n;
	g_sh[g_nsh].copy = malloc(n);
	memcpy(g_sh[g_nsh].copy, p, n);
	g_nsh++;
}

static void
shared_snapshot(void)
{
	unsigned m, i;

	for (m = 0; m < g_nmsgs; m++) {
		MInfo *mi = &g_mi[m];

		shared_add(&g_desc[m], sizeof g_desc[m]);
		shared_add(mi->fields, mi->nfields * sizeof *mi->fields);
		shared_add(mi->by_name, mi->nfields * sizeof *mi->by_name);
		shared_add(mi->ranges, (g_desc[m].n_field_ranges + 1) * sizeof *mi->ranges);
		for (i = 0; i < mi->nfields; i++) {
			const ProtobufCFieldDescriptor *f = &mi->fields[i];

			if (!f->default_value)
				continue;
			if (mi->fi[i].kind == K_STRING) {
				shared_add(f->default_value, strlen(f->default_value) + 1);
			} else if (mi->fi[i].kind == K_BYTES) {
				const ProtobufCBinaryData *bd = f->default_value;

				shared_add(bd, sizeof *bd);
				shared_add(bd->data, bd->len + 1);
			} else {
				shared_add(f->default_value, 8);
			}
		}
	}
	shared_add(&protobuf_c__allocator, sizeof protobuf_c__allocator);
}

static void
shared_report(void)
{
	size_t i;
	int changed = 0;

	for (i = 0; i < g_nsh; i++) {
		if (memcmp(g_sh[i].p, g_sh[i].copy, g_sh[i].n))
			changed = 1;
		free(g_sh[i].copy);
	}
	free(g_sh);
	g_sh = NULL;
	g_nsh = g_csh = 0;
	if (changed) {
		fputs("SHARED-STATE-CHANGED\n", stdout);
		fflush(stdout);
	}
}

/* ------------------------------------------------------------------------- */
/* building a message from the text syntax                                   */
/* ------------------------------------------------------------------------- */

static ProtobufCMessage *build_msg(void);	/* after the `M` token */

static void *
build_ptr(int is_string, const ProtobufCFieldDescriptor *f, const FInfo *fi)
{
	char *t = tok();
	size_t n;

	if (!strcmp(t, "N"))
		return NULL;
	if (!strcmp(t, "D")) {
		if (!f || !f->default_value)
			return NULL;
		if (is_string)
			return (void *) f->default_value;
		if (fi->kind == K_BYTES)
			return ((const ProtobufCBinaryData *) f->default_value)->data;
		return NULL;
	}
	if (!strcmp(t, "H"))
		return hex_decode(tok(), is_string ? 1 : 0, &n);
	drv_fail("bad ptr '%.20s'", t);
}

static ProtobufCMessage *
build_optmsg(void)
{
	char *t = tok();

	if (!strcmp(t, "N"))
		return NULL;
	if (!strcmp(t, "M"))
		return build_msg();
	drv_fail("bad optmsg '%.20s'", t);
}

/*
 * Parse one cell and store it at dst, of which `avail` bytes belong to the
 * cell.  A W cell stores its low `wbytes` bytes.  f/fi (may be NULL) give the
 * meaning of `D`.
 */
static void
build_cell(uint8_t *dst, unsigned avail, unsigned wbytes,
	   const ProtobufCFieldDescriptor *f, const FInfo *fi)
{
	char *t = tok();

	if (!strcmp(t, "W")) {
		uint64_t v = parse_hex64(tok());
		memcpy(dst, &v, wbytes);	/* little endian: low bytes first */
	} else if (!strcmp(t, "T")) {
		void *p;
		if (avail < 8)
			drv_fail("T cell does not fit a %u-byte element", avail);
		p = build_ptr(1, f, fi);
		memcpy(dst, &p, 8);
	} else if (!strcmp(t, "B")) {
		ProtobufCBinaryData bd;
		if (avail < 16)
			drv_fail("B cell does not fit a %u-byte element", avail);
		bd.len = tok_u64("bytes len");
		bd.data = build_ptr(0, f, fi);
		memcpy(dst, &bd, 16);
	} else if (!strcmp(t, "G")) {
		ProtobufCMessage *m;
		if (avail < 8)
			drv_fail("G cell does not fit a %u-byte element", avail);
		m = build_optmsg();
		memcpy(dst, &m, 8);
	} else {
		drv_fail("bad cell '%.20s'", t);
	}
}

static ProtobufCMessage *
build_msg(void)
{
	unsigned d = tok_u32("descriptor index");
	const MInfo *mi;
	const ProtobufCMessageDescriptor *desc;
	ProtobufCMessage *msg;
	uint8_t *base;
	unsigned i, n, g;

	if (d >= g_nmsgs)
		drv_fail("descriptor index %u out of range", d);
	mi = &g_mi[d];
	desc = &g_desc[d];
	n = tok_u32("nslots");
	if (n != mi->nfields)
		drv_fail("nslots %u != nfields %u of M%u", n, mi->nfields, d);
	msg = arena_calloc(desc->sizeof_message);
	msg->descriptor = desc;
	base = (uint8_t *) msg;

	for (i = 0; i < mi->nfields; i++) {
		const ProtobufCFieldDescriptor *f = &desc->fields[i];
		const FInfo *fi = &mi->fi[i];
		char *t = tok();

		if (!strcmp(t, "S")) {
			uint64_t has = tok_i64("has");

			if (fi->quant == Q_C || f->label == PROTOBUF_C_LABEL_REPEATED)
				drv_fail("S slot for field f%u which is repeated or a oneof member", f->id);
			if (fi->quant == Q_H) {
				int h = (int) (uint32_t) has;
				memcpy(base + f->quantifier_offset, &h, 4);
			} else if (fi->quant == Q_K) {
				memcpy(base + f->quantifier_offset, &has, 8);
			}
			build_cell(base + f->offset, 16, fi->wbytes, f, fi);
		} else if (!strcmp(t, "R")) {
			size_t cnt = tok_u64("n");
			void *arr = NULL;

			(void) tok_u64("cap");
			if (fi->quant == Q_C || f->label != PROTOBUF_C_LABEL_REPEATED)
				drv_fail("R slot for field f%u which is not a repeated non-oneof field", f->id);
			memcpy(base + f->quantifier_offset, &cnt, 8);
			t = tok();
			if (!strcmp(t, "A")) {
				size_t count = tok_u64("array count"), j;
				uint8_t *a;

				if (count > ((size_t) 1 << 32))
					drv_fail("array count too large");
				a = arena_calloc(count * fi->elsize);
				for (j = 0; j < count; j++)
					build_cell(a + j * fi->elsize, fi->elsize,
						   fi->kind == K_SCALAR ? fi->elsize : 8, f, fi);
				arr = a;
			} else if (strcmp(t, "N")) {
				drv_fail("bad arr '%.20s'", t);
			}
			memcpy(base + f->offset, &arr, 8);
		} else if (!strcmp(t, "U")) {
			unsigned grp = tok_u32("oneof group");
			if (fi->quant != Q_C || fi->group != grp)
				drv_fail("U %u slot for field f%u which is not a member of that group", grp, f->id);
		} else {
			drv_fail("bad slot '%.20s'", t);
		}
	}

	n = tok_u32("nunions");
	if (n != mi->noneofs)
		drv_fail("nunions %u != n_oneofs %u of M%u", n, mi->noneofs, d);
	for (g = 0; g < mi->noneofs; g++) {
		uint32_t cs = tok_u32("case");
		const ProtobufCFieldDescriptor *mf = NULL;
		const FInfo *mfi = NULL;

		for (i = 0; i < mi->nfields && cs != 0; i++) {
			if (mi->fi[i].quant == Q_C && mi->fi[i].group == g &&
			    desc->fields[i].id == cs) {
				mf = &desc->fields[i];
				mfi = &mi->fi[i];
				break;
			}
		}
		memcpy(base + mi->case_off[g], &cs, 4);
		build_cell(base + mi->union_off[g], 16, 8, mf, mfi);
	}

	n = tok_u32("nunk");
	msg->n_unknown_fields = n;
	msg->unknown_fields = NULL;
	if (n > 0) {
		ProtobufCMessageUnknownField *u = arena_calloc((size_t) n * sizeof *u);

		msg->unknown_fields = u;
		for (i = 0; i < n; i++) {
			u[i].tag = tok_u32("unknown tag");
			u[i].wire_type = (ProtobufCWireType) tok_u32("unknown wire type");
			u[i].data = hex_decode(tok(), 0, &u[i].len);
		}
	}
	return msg;
}

static ProtobufCMessage *
build_toplevel_msg(void)
{
	char *t = tok();
	ProtobufCMessage *m;

	if (strcmp(t, "M"))
		drv_fail("expected M");
	m = build_msg();
	expect_eol();
	return m;
}

/* ------------------------------------------------------------------------- */
/* printing a message (reflective dump, canonicalised)                       */
/* ------------------------------------------------------------------------- */

static void print_msg(const ProtobufCMessage *m);	/* emits " M ..." */

/* emits " <cell>" read at the type of field f */
static void
print_cell(const uint8_t *src, const ProtobufCFieldDescriptor *f, const FInfo *fi)
{
	switch (fi->kind) {
	case K_SCALAR: {
		uint64_t v = 0;
		memcpy(&v, src, fi->wbytes);
		ob_puts(" W ");
		ob_hex64(v);
		break;
	}
	case K_STRING: {
		const char *p;
		memcpy(&p, src, 8);
		if (!p)
			ob_puts(" T N");
		else if ((const void *) p == f->default_value)
			ob_puts(" T D");
		else {
			ob_puts(" T H ");
			ob_hex((const uint8_t *) p, strlen(p));
		}
		break;
	}
	case K_BYTES: {
		ProtobufCBinaryData bd;
		memcpy(&bd, src, 16);
		ob_puts(" B");
		ob_sp_u64(bd.len);
		if (!bd.data)
			ob_puts(" N");
		else if (f->default_value &&
			 bd.data == ((const ProtobufCBinaryData *) f->default_value)->data)
			ob_puts(" D");
		else {
			ob_puts(" H ");
			ob_hex(bd.data, bd.len);
		}
		break;
	}
	case K_MESSAGE: {
		const ProtobufCMessage *sm;
		memcpy(&sm, src, 8);
		ob_puts(" G");
		if (!sm)
			ob_puts(" N");
		else
			print_msg(sm);
		break;
	}
	}
}

static void
print_msg(const ProtobufCMessage *m)
{
	const ProtobufCMessageDescriptor *d = m->descriptor;
	const uint8_t *base = (const uint8_t *) m;
	const MInfo *mi;
	unsigned di, i, g;

	if (d < g_desc || d >= g_desc + g_nmsgs)
		drv_die("message with a foreign descriptor pointer");
	di = (unsigned) (d - g_desc);
	mi = &g_mi[di];
	ob_puts(" M");
	ob_sp_u64(di);
	ob_sp_u64(mi->nfields);
	for (i = 0; i < mi->nfields; i++) {
		const ProtobufCFieldDescriptor *f = &d->fields[i];
		const FInfo *fi = &mi->fi[i];

		if (fi->quant == Q_C) {
			ob_puts(" U");
			ob_sp_u64(fi->group);
		} else if (f->label == PROTOBUF_C_LABEL_REPEATED) {
			size_t n, j;
			const uint8_t *arr;

			memcpy(&n, base + f->quantifier_offset, 8);
			memcpy(&arr, base + f->offset, 8);
			ob_puts(" R");
			ob_sp_u64(n);
			ob_sp_u64(n);
			if (n == 0 || !arr) {
				ob_puts(" N");
			} else {
				ob_puts(" A");
				ob_sp_u64(n);
				for (j = 0; j < n; j++)
					print_cell(arr + j * fi->elsize, f, fi);
			}
		} else {
			uint64_t has = 0;

			if (fi->quant == Q_H) {
				uint32_t h;
				memcpy(&h, base + f->quantifier_offset, 4);
				has = h;
			} else if (fi->quant == Q_K) {
				memcpy(&has, base + f->quantifier_offset, 8);
			}
			ob_puts(" S");
			ob_sp_u64(has);
			print_cell(base + f->offset, f, fi);
		}
	}
	ob_sp_u64(mi->noneofs);
	for (g = 0; g < mi->noneofs; g++) {
		uint32_t cs;
		const ProtobufCFieldDescriptor *mf = NULL;
		const FInfo *mfi = NULL;

		memcpy(&cs, base + mi->case_off[g], 4);
		for (i = 0; i < mi->nfields && cs != 0; i++) {
			if (mi->fi[i].quant == Q_C && mi->fi[i].group == g &&
			    d->fields[i].id == cs) {
				mf = &d->fields[i];
				mfi = &mi->fi[i];
				break;
			}
		}
		ob_sp_u64(cs);
		if (mf)
			print_cell(base + mi->union_off[g], mf, mfi);
		else
			ob_puts(" W 0000000000000000");
	}
	ob_sp_u64(m->n_unknown_fields);
	for (i = 0; i < m->n_unknown_fields; i++) {
		const ProtobufCMessageUnknownField *u = &m->unknown_fields[i];
		ob_sp_u64(u->tag);
		ob_sp_u64((uint32_t) u->wire_type);
		ob_sp_hex(u->data, u->len);
	}
}

/* ------------------------------------------------------------------------- */
/* chunk-recording ProtobufCBuffer                                           */
/* ------------------------------------------------------------------------- */

typedef struct {
	ProtobufCBuffer base;
	uint8_t *bytes;
	size_t len, cap;
	size_t *clen;
	uint8_t *cnull;
	size_t n, ncap;
} ChunkBuf;

static DRV_TLS ChunkBuf g_cb;		/* storage is reused from case to case */

static void
chunk_append(ProtobufCBuffer *b, size_t len, const uint8_t *data)
{
	ChunkBuf *cb = (ChunkBuf *) b;

	if (cb->n == cb->ncap) {
		size_t nc = cb->ncap ? cb->ncap * 2 : 64;
		size_t *nl = realloc(cb->clen, nc * sizeof *nl);
		uint8_t *nn;
		if (!nl)
			drv_die("out of memory (chunks)");
		cb->clen = nl;
		nn = realloc(cb->cnull, nc);
		if (!nn)
			drv_die("out of memory (chunks)");
		cb->cnull = nn;
		cb->ncap = nc;
	}
	if (cb->len + len > cb->cap) {
		size_t nc = cb->cap ? cb->cap : 1024;
		uint8_t *nb;
		while (nc < cb->len + len)
			nc *= 2;
		nb = realloc(cb->bytes, nc);
		if (!nb)
			drv_die("out of memory (chunks)");
		cb->bytes = nb;
		cb->cap = nc;
	}
	cb->clen[cb->n] = len;
	cb->cnull[cb->n] = (data == NULL && len > 0);
	if (len > 0) {
		if (data)
			memcpy(cb->bytes + cb->len, data, len);
		else
			memset(cb->bytes + cb->len, 0, len);
	}
	cb->len += len;
	cb->n++;
}

static void
chunk_reset(void)
{
	g_cb.base.append = chunk_append;
	g_cb.len = 0;
	g_cb.n = 0;
}

/* a buffer that only reads what it is given (CHECK child) */
static DRV_TLS volatile unsigned g_sink;

static void
discard_append(ProtobufCBuffer *b, size_t len, const uint8_t *data)
{
	unsigned s = 0;
	size_t i;

	(void) b;
	for (i = 0; i < len; i++)
		s += data[i];
	g_sink += s;
}

/* ------------------------------------------------------------------------- */
/* recording allocator                                                       */
/* ------------------------------------------------------------------------- */

/*
 * allocator_data is NOT the address of the allocator object: it points at the
 * Recorder, whose first member is a magic word, and the ProtobufCAllocator
 * comes after it.  A callback that is handed anything else than
 * allocator_data (e.g. the allocator object itself) is counted as a bad call
 * (`closure`), served all the same, and makes every output line that reports
 * the recorder's books differ.
 */
#define REC_MAGIC 0x7265636f72646572ULL
typedef struct {
	uint64_t magic;
	ProtobufCAllocator base;
	size_t nclosure;		/* callbacks reached with a wrong closure argument */
	/* plan */
	size_t *refuse;
	size_t nrefuse, refuse_cap;
	size_t refuse_from;		/* SIZE_MAX: none */
	/* log of requests */
	size_t *sizes;
	uint8_t *refused;
	size_t nreq, req_cap;
	/* live blocks: open-addressing pointer set */
	void **tab;
	size_t tab_cap, tab_used;	/* used counts live entries + tombstones */
	size_t nlive;
	size_t nfree_ok;		/* frees of live blocks */
	size_t nbad;			/* frees of anything else */
	const void *scratch;		/* BUF: the scratch array */
	int freed_scratch;
	/* UNPACKT: event trace.  live blocks with the index of the request that created them */
	int trace_on;
	void **tr_ptr;
	size_t *tr_id;
	size_t tr_n, tr_cap;
	char *tr_buf;
	size_t tr_len, tr_bufcap;
} Recorder;

static DRV_TLS Recorder g_rec;
#define PS_TOMB ((void *) (uintptr_t) 1)

static size_t
ps_hash(const void *p, size_t cap)
{
	uint64_t x = (uint64_t) (uintptr_t) p;
	x ^= x >> 33;
	x *= 0xff51afd7ed558ccdULL;
	x ^= x >> 29;
	return (size_t) x & (cap - 1);
}

static void
ps_insert_raw(void **tab, size_t cap, void *p)
{
	size_t i = ps_hash(p, cap);
	while (tab[i] != NULL && tab[i] != PS_TOMB)
		i = (i + 1) & (cap - 1);
	tab[i] = p;
}

static void
ps_add(Recorder *r, void *p)
{
	if ((r->tab_used + 1) * 2 > r->tab_cap) {
		size_t nc = r->tab_cap ? r->tab_cap : 64, i;
		void **nt;

		while ((r->nlive + 1) * 4 > nc)
			nc *= 2;
		nt = calloc(nc, sizeof *nt);
		if (!nt)
			drv_die("out of memory (pointer set)");
		for (i = 0; i < r->tab_cap; i++)
			if (r->tab[i] != NULL && r->tab[i] != PS_TOMB)
				ps_insert_raw(nt, nc, r->tab[i]);
		free(r->tab);
		r->tab = nt;
		r->tab_cap = nc;
		r->tab_used = r->nlive;
	}
	ps_insert_raw(r->tab, r->tab_cap, p);
	r->tab_used++;
	r->nlive++;
}

static int
ps_remove(Recorder *r, void *p)
{
	size_t i;

	if (r->tab_cap == 0)
		return 0;
	i = ps_hash(p, r->tab_cap);
	while (r->tab[i] != NULL) {
		if (r->tab[i] == p) {
			r->tab[i] = PS_TOMB;
			r->nlive--;
			return 1;
		}
		i = (i + 1) & (r->tab_cap - 1);
	}
	return 0;
}

static int
rec_plan_refuses(const Recorder *r, size_t idx)
{
	size_t i;

	if (idx >= r->refuse_from)
		return 1;
	for (i = 0; i < r->nrefuse; i++)
		if (r->refuse[i] == idx)
			return 1;
	return 0;
}

static void
tr_printf(Recorder *r, const char *fmt, unsigned long long a, unsigned long long b)
{
	char tmp[64];
	int n = snprintf(tmp, sizeof tmp, fmt, a, b);

	if (r->tr_len + (size_t) n + 1 > r->tr_bufcap) {
		size_t nc = r->tr_bufcap ? r->tr_bufcap * 2 : 4096;
		char *nb;
		while (nc < r->tr_len + (size_t) n + 1)
			nc *= 2;
		nb = realloc(r->tr_buf, nc);
		if (!nb)
			drv_die("out of memory (trace)");
		r->tr_buf = nb;
		r->tr_bufcap = nc;
	}
	memcpy(r->tr_buf + r->tr_len, tmp, (size_t) n + 1);
	r->tr_len += (size_t) n;
}

static void
tr_add(Recorder *r, void *p, size_t id)
{
	if (r->tr_n == r->tr_cap) {
		size_t nc = r->tr_cap ? r->tr_cap * 2 : 64;
		void **np = realloc(r->tr_ptr, nc * sizeof *np);
		size_t *ni;
		if (!np)
			drv_die("out of memory (trace)");
		r->tr_ptr = np;
		ni = realloc(r->tr_id, nc * sizeof *ni);
		if (!ni)
			drv_die("out of memory (trace)");
		r->tr_id = ni;
		r->tr_cap = nc;
	}
	r->tr_ptr[r->tr_n] = p;
	r->tr_id[r->tr_n] = id;
	r->tr_n++;
}

/* id of a live block, and forget it; (size_t) -1 if unknown */
static size_t
tr_take(Recorder *r, void *p)
{
	size_t i;

	for (i = r->tr_n; i-- > 0;)
		if (r->tr_ptr[i] == p) {
			size_t id = r->tr_id[i];
			r->tr_ptr[i] = r->tr_ptr[r->tr_n - 1];
			r->tr_id[i] = r->tr_id[r->tr_n - 1];
			r->tr_n--;
			return id;
		}
	return (size_t) -1;
}

/* the Recorder behind a callback's closure argument; a wrong closure (not allocator_data) is counted as a bad call */
static Recorder *
rec_of(void *ad)
{
	Recorder *r = ad;

	if (r != &g_rec || r->magic != REC_MAGIC) {
		r = &g_rec;
		r->nclosure++;
		r->nbad++;
		if (r->trace_on)
			tr_printf(r, " x%llu%.0llu", 2, 0);
	}
	return r;
}

static void *
rec_alloc(void *ad, size_t size)
{
	Recorder *r = rec_of(ad);
	size_t idx = r->nreq;
	void *p;

	if (r->nreq == r->req_cap) {
		size_t nc = r->req_cap ? r->req_cap * 2 : 64;
		size_t *ns = realloc(r->sizes, nc * sizeof *ns);
		uint8_t *nr;
		if (!ns)
			drv_die("out of memory (recorder)");
		r->sizes = ns;
		nr = realloc(r->refused, nc);
		if (!nr)
			drv_die("out of memory (recorder)");
		r->refused = nr;
		r->req_cap = nc;
	}
	r->sizes[idx] = size;
	r->refused[idx] = 0;
	r->nreq++;
	if (rec_plan_refuses(r, idx)) {
		r->refused[idx] = 1;
		if (r->trace_on)
			tr_printf(r, " r%llu:%llu", idx, size);
		return NULL;
	}
	p = malloc(size);		/* exact size: ASan sees over-reads/-writes */
	if (!p && size == 0)
		p = malloc(1);
	if (!p) {
		r->refused[idx] = 1;	/* genuine exhaustion looks like a refusal */
		return NULL;
	}
	ps_add(r, p);
	if (r->trace_on) {
		tr_printf(r, " a%llu:%llu", idx, size);
		tr_add(r, p, idx);
	}
	return p;
}

static void
rec_free(void *ad, void *p)
{
	Recorder *r = rec_of(ad);

	if (p == NULL) {
		r->nbad++;	/* do_free never passes NULL */
		if (r->trace_on)
			tr_printf(r, " x%llu%.0llu", 0, 0);
		return;
	}
	if (p == r->scratch) {
		r->freed_scratch = 1;
		return;
	}
	if (ps_remove(r, p)) {
		r->nfree_ok++;
		if (r->trace_on)
			tr_printf(r, " f%llu%.0llu", tr_take(r, p), 0);
		free(p);
	} else {
		r->nbad++;	/* not ours / already freed: do NOT pass it to free() */
		if (r->trace_on)
			tr_printf(r, " x%llu%.0llu", 1, 0);
	}
}

/* free whatever is still live and forget the log (storage is kept) */
static void
rec_purge(void)
{
	Recorder *r = &g_rec;
	size_t i;

	if (r->nlive) {
		for (i = 0; i < r->tab_cap; i++)
			if (r->tab[i] != NULL && r->tab[i] != PS_TOMB)
				free(r->tab[i]);
	}
	if (r->tab_used)
		memset(r->tab, 0, r->tab_cap * sizeof *r->tab);
	r->tab_used = 0;
	r->nlive = 0;
	r->nreq = 0;
	r->nrefuse = 0;
	r->refuse_from = SIZE_MAX;
	r->nfree_ok = 0;
	r->nbad = 0;
	r->nclosure = 0;
	r->magic = REC_MAGIC;
	r->scratch = NULL;
	r->freed_scratch = 0;
	r->trace_on = 0;
	r->tr_n = 0;
	r->tr_len = 0;
}

/* plan := - | idx(,idx)*  where the last element may be `k+` */
static void
rec_setup(char *plan)
{
	Recorder *r = &g_rec;

	rec_purge();
	r->base.alloc = rec_alloc;
	r->base.free = rec_free;
	r->base.allocator_data = r;
	if (!strcmp(plan, "-"))
		return;
	for (;;) {
		char *comma = strchr(plan, ',');
		size_t n;

		if (comma)
			*comma = 0;
		n = strlen(plan);
		if (n > 1 && plan[n - 1] == '+') {
			if (comma)
				drv_fail("k+ must be the last plan element");
			plan[n - 1] = 0;
			r->refuse_from = parse_u64(plan, "plan index");
		} else {
			if (r->nrefuse == r->refuse_cap) {
				size_t nc = r->refuse_cap ? r->refuse_cap * 2 : 16;
				size_t *nr = realloc(r->refuse, nc * sizeof *nr);
				if (!nr)
					drv_die("out of memory (plan)");
				r->refuse = nr;
				r->refuse_cap = nc;
			}
			r->refuse[r->nrefuse++] = parse_u64(plan, "plan index");
		}
		if (!comma)
			break;
		plan = comma + 1;
	}
}

/* " <nreq> <sizes>" */
static void
rec_print_requests(void)
{
	const Recorder *r = &g_rec;
	size_t i;

	ob_sp_u64(r->nreq);
	ob_putc(' ');
	if (r->nreq == 0)
		ob_putc('-');
	for (i = 0; i < r->nreq; i++) {
		if (i)
			ob_putc(',');
		ob_u64(r->sizes[i]);
		if (r->refused[i])
			ob_putc('!');
	}
}

/* ------------------------------------------------------------------------- */
/* cases                                                                     */
/* ------------------------------------------------------------------------- */

static const ProtobufCMessageDescriptor *
tok_desc(void)
{
	unsigned d = tok_u32("descriptor index");
	if (d >= g_nmsgs)
		drv_fail("descriptor index %u out of range", d);
	return &g_desc[d];
}

/* copy into a block of exactly n bytes so that ASan catches over-reads */
static uint8_t *
exact_copy(const uint8_t *p, size_t n)
{
	uint8_t *q = arena_alloc(n ? n : 1);
	if (n)
		memcpy(q, p, n);
	return q;
}

static uint8_t *
tok_input_bytes(size_t *len)
{
	uint8_t *tmp = hex_decode(tok(), 0, len);
	/* hex_decode already returns an exact-size block, except for len 0 */
	return *len ? tmp : exact_copy(tmp, 0);
}

static void
case_pack(void)
{
	ProtobufCMessage *msg = build_toplevel_msg();
	size_t size, ret, ret2, i, shown, off;
	uint8_t *buf;
	int overrun = 0;

	size = protobuf_c_message_get_packed_size(msg);
	if (size > SIZE_MAX - 64)
		drv_fail("packed size overflows");
	buf = arena_alloc(size + 64);
	memset(buf + size, 0xA5, 64);
	ret = protobuf_c_message_pack(msg, buf);
	if (ret > size)
		overrun = 1;
	for (i = 0; i < 64; i++)
		if (buf[size + i] != 0xA5)
			overrun = 1;
	chunk_reset();
	ret2 = protobuf_c_message_pack_to_buffer(msg, &g_cb.base);

	shown = ret < size + 64 ? ret : size + 64;
	ob_puts("P");
	ob_sp_u64(size);
	ob_sp_u64(ret);
	ob_sp_hex(buf, shown);
	ob_sp_u64((uint64_t) overrun);
	ob_sp_u64(ret2);
	ob_sp_u64(g_cb.n);
	for (i = 0, off = 0; i < g_cb.n; i++) {
		if (g_cb.cnull[i]) {
			ob_puts(" NULL");
			ob_u64(g_cb.clen[i]);
		} else {
			ob_sp_hex(g_cb.bytes + off, g_cb.clen[i]);
		}
		off += g_cb.clen[i];
	}
}

static void
case_unpack(void)
{
	const ProtobufCMessageDescriptor *desc = tok_desc();
	size_t len;
	uint8_t *data = tok_input_bytes(&len);
	ProtobufCMessage *m;

	expect_eol();
	m = protobuf_c_message_unpack(desc, NULL, len, data);
	if (!m) {
		ob_puts("U FAIL");
		return;
	}
	ob_puts("U");
	print_msg(m);
	protobuf_c_message_free_unpacked(m, NULL);
}

static void
case_rt(void)
{
	const ProtobufCMessageDescriptor *desc = tok_desc();
	size_t len, size, ret, n;
	uint8_t *data = tok_input_bytes(&len), *buf, *copy;
	ProtobufCMessage *m, *m2;
	int chk;

	expect_eol();
	m = protobuf_c_message_unpack(desc, NULL, len, data);
	if (!m) {
		ob_puts("RT FAIL");
		return;
	}
	chk = protobuf_c_message_check(m);
	size = protobuf_c_message_get_packed_size(m);
	buf = arena_alloc(size ? size : 1);
	ret = protobuf_c_message_pack(m, buf);
	chunk_reset();
	(void) protobuf_c_message_pack_to_buffer(m, &g_cb.base);
	protobuf_c_message_free_unpacked(m, NULL);
	n = ret < size ? ret : size;
	ob_puts("RT");
	ob_sp_u64((uint64_t) (unsigned) chk);
	ob_sp_u64(size);
	ob_sp_hex(buf, n);
	ob_sp_hex(g_cb.bytes, g_cb.len);

	copy = exact_copy(buf, n);
	m2 = protobuf_c_message_unpack(desc, NULL, n, copy);
	if (!m2) {
		ob_puts(" FAIL2");
		return;
	}
	size = protobuf_c_message_get_packed_size(m2);
	buf = arena_alloc(size ? size : 1);
	ret = protobuf_c_message_pack(m2, buf);
	protobuf_c_message_free_unpacked(m2, NULL);
	ob_sp_hex(buf, ret < size ? ret : size);
}

static void
case_unpacka(void)
{
	const ProtobufCMessageDescriptor *desc = tok_desc();
	size_t len, out1, out2 = 0;
	uint8_t *data = tok_input_bytes(&len);
	char *plan = tok();
	ProtobufCMessage *m;

	expect_eol();
	rec_setup(plan);
	m = protobuf_c_message_unpack(desc, &g_rec.base, len, data);
	out1 = g_rec.nlive;
	ob_puts(m ? "A OK" : "A FAIL");
	rec_print_requests();	/* free_unpacked makes no requests: log == unpack's */
	if (m) {
		protobuf_c_message_free_unpacked(m, &g_rec.base);
		out2 = g_rec.nlive;
	}
	ob_sp_u64(out1);
	ob_sp_u64(out2);
	ob_sp_u64(g_rec.nbad);
}

/* UNPACKT <d> <hex> <plan>: the same run as UNPACKA, printed as the sequence of allocator events:
 *   a<i>:<size>  request i granted    r<i>:<size>  request i refused    f<i>  block of request i freed
 *   x<k>         free of NULL (0) / of a pointer that is not a live block (1)
 *   U1 / U0      protobuf_c_message_unpack returned a message / NULL      F  free_unpacked returned */
static void
case_unpackt(void)
{
	const ProtobufCMessageDescriptor *desc = tok_desc();
	size_t len;
	uint8_t *data = tok_input_bytes(&len);
	char *plan = tok();
	ProtobufCMessage *m;

	expect_eol();
	rec_setup(plan);
	g_rec.trace_on = 1;
	m = protobuf_c_message_unpack(desc, &g_rec.base, len, data);
	tr_printf(&g_rec, m ? " U1%.0llu%.0llu" : " U0%.0llu%.0llu", 0, 0);
	if (m) {
		protobuf_c_message_free_unpacked(m, &g_rec.base);
		tr_printf(&g_rec, " F%.0llu%.0llu", 0, 0);
	}
	g_rec.trace_on = 0;
	ob_puts("T");
	if (g_rec.tr_len)
		ob_puts(g_rec.tr_buf);
}

/* LOOKUP <d> <field number>: the shared descriptor queried by number and by name (f<number>); prints the index found
 * each way (-1: none).  No model counterpart: used by the multi-threaded run, whose output must equal the sequential one. */
static void
case_lookup(void)
{
	const ProtobufCMessageDescriptor *desc = tok_desc();
	unsigned id = tok_u32("field number");
	char nm[16];
	const ProtobufCFieldDescriptor *a, *b;

	expect_eol();
	snprintf(nm, sizeof nm, "f%u", id);
	a = protobuf_c_message_descriptor_get_field(desc, id);
	b = protobuf_c_message_descriptor_get_field_by_name(desc, nm);
	ob_puts("K");
	ob_sp_u64(a ? (uint64_t) (a - desc->fields) : (uint64_t) -1);
	ob_sp_u64(b ? (uint64_t) (b - desc->fields) : (uint64_t) -1);
}

/* ENUMNAME <name> | ENUMNUM <number>: the enum lookups on a fixed enum descriptor with aliases, laid out as the generator lays
 * one out (values by number without the aliases, the name index with them).  Prints `E -` (not found),
 * `E <index in values[]> <value> <name>`, or `E OUTSIDE <value> <name>` when the pointer returned is not an entry of the
 * descriptor's values[] array (the lookups return descriptor entries, nothing else).  No model counterpart. */
static const ProtobufCEnumValue drv_enum_values[] = {
	{ "VALUE_A", "DRV__E__VALUE_A", 0 },
	{ "VALUE_B", "DRV__E__VALUE_B", 42 },
	{ "VALUE_D", "DRV__E__VALUE_D", 666 },
	{ "VALUE_F", "DRV__E__VALUE_F", 1000 },
};
static const ProtobufCIntRange drv_enum_ranges[] = { { 0, 0 }, { 42, 1 }, { 666, 2 }, { 1000, 3 }, { 0, 4 } };
static const ProtobufCEnumValueIndex drv_enum_by_name[] = {
	{ "VALUE_A", 0 }, { "VALUE_AA", 0 }, { "VALUE_B", 1 }, { "VALUE_C", 1 },
	{ "VALUE_D", 2 }, { "VALUE_E", 2 }, { "VALUE_F", 3 }, { "VALUE_FF", 3 },
};
static const ProtobufCEnumDescriptor drv_enum = {
	PROTOBUF_C__ENUM_DESCRIPTOR_MAGIC, "drv.E", "E", "Drv__E", "drv",
	4, drv_enum_values, 8, drv_enum_by_name, 4, drv_enum_ranges, NULL, NULL, NULL, NULL
};

static void
put_enum_value(const ProtobufCEnumValue *v)
{
	if (!v) {
		ob_puts("E -");
		return;
	}
	if (v >= drv_enum_values && v < drv_enum_values + 4) {
		ob_puts("E");
		ob_sp_u64((uint64_t) (v - drv_enum_values));
	} else {
		ob_puts("E OUTSIDE");
	}
	ob_sp_u64((uint64_t) (uint32_t) v->value);
	ob_putc(' ');
	ob_puts(v->name ? v->name : "(null)");
}

static void
case_enumname(void)
{
	char *t = tok();
	char nm[64];

	if (!t)
		drv_fail("ENUMNAME needs a name");
	snprintf(nm, sizeof nm, "%s", t);
	expect_eol();
	put_enum_value(protobuf_c_enum_descriptor_get_value_by_name(&drv_enum, nm));
}

static void
case_enumnum(void)
{
	unsigned n = tok_u32("enum number");

	expect_eol();
	put_enum_value(protobuf_c_enum_descriptor_get_value(&drv_enum, (int) n));
}

/* METHODNAME <0|1> <name>: protobuf_c_service_descriptor_get_method_by_name on one of two fixed service descriptors that
 * declare the same eight method names in opposite orders (laid out as the generator lays them out: methods in declaration
 * order, method_indices_by_name sorted by name).  Prints `V -` or `V <index in methods[]> <name>`; `V OUTSIDE` when the
 * pointer returned is not an entry of that descriptor's methods[].  No model counterpart (threads of C17). */
#define DRV_M(n) { n, NULL, NULL }
static const ProtobufCMethodDescriptor drv_methods0[] = {
	DRV_M("Alpha"), DRV_M("Bravo"), DRV_M("Charlie"), DRV_M("Delta"), DRV_M("Echo"), DRV_M("Foxtrot"), DRV_M("Golf"), DRV_M("Hotel")
};
static const unsigned drv_by_name0[] = { 0, 1, 2, 3, 4, 5, 6, 7 };
static const ProtobufCMethodDescriptor drv_methods1[] = {
	DRV_M("Hotel"), DRV_M("Golf"), DRV_M("Foxtrot"), DRV_M("Echo"), DRV_M("Delta"), DRV_M("Charlie"), DRV_M("Bravo"), DRV_M("Alpha")
};
static const unsigned drv_by_name1[] = { 7, 6, 5, 4, 3, 2, 1, 0 };
static const ProtobufCServiceDescriptor drv_svc[2] = {
	{ PROTOBUF_C__SERVICE_DESCRIPTOR_MAGIC, "drv.Store", "Store", "Drv__Store", "drv", 8, drv_methods0, drv_by_name0 },
	{ PROTOBUF_C__SERVICE_DESCRIPTOR_MAGIC, "drv.Admin", "Admin", "Drv__Admin", "drv", 8, drv_methods1, drv_by_name1 },
};

static void
case_methodname(void)
{
	unsigned which = tok_u32("service index");
	char *t = tok();
	char nm[64];
	const ProtobufCMethodDescriptor *m;

	if (which > 1 || !t)
		drv_fail("METHODNAME needs 0|1 and a name");
	snprintf(nm, sizeof nm, "%s", t);
	expect_eol();
	m = protobuf_c_service_descriptor_get_method_by_name(&drv_svc[which], nm);
	if (!m) {
		ob_puts("V -");
		return;
	}
	if (m >= drv_svc[which].methods && m < drv_svc[which].methods + 8) {
		ob_puts("V");
		ob_sp_u64((uint64_t) (m - drv_svc[which].methods));
	} else {
		ob_puts("V OUTSIDE");
	}
	ob_putc(' ');
	ob_puts(m->name ? m->name : "(null)");
}

/* SIZES: sizeof_message of every descriptor of the schema (the allocation-level model needs them to print sizes) */
static void
case_sizes(void)
{
	unsigned d;

	expect_eol();
	ob_puts("S");
	for (d = 0; d < g_nmsgs; d++)
		ob_sp_u64((uint64_t) g_desc[d].sizeof_message);
}

static void
case_check(void)
{
	ProtobufCMessage *msg = build_toplevel_msg();
	int verdict = protobuf_c_message_check(msg);
	pid_t pid;
	int status;

	if (!verdict) {
		ob_puts("C 0 -");
		return;
	}
	fflush(stdout);
	pid = fork();
	if (pid < 0)
		drv_fail("fork failed: %s", strerror(errno));
	if (pid == 0) {
		ProtobufCBuffer db = { discard_append };
		size_t size, ret;
		uint8_t *buf;
		ProtobufCMessage *m2;
		int fd = open("/dev/null", O_WRONLY);

		if (fd >= 0)
			dup2(fd, 2);	/* keep sanitizer reports out of the log */
		/*
		 * The case file's descriptor shares its offset with the parent:
		 * close it so that no exit path of the child (libc stream
		 * cleanup run by a tool, etc.) can seek it and make the parent
		 * re-read lines.
		 */
		close(fileno(g_fp));
		alarm(20);		/* a hang counts as a crash */
		size = protobuf_c_message_get_packed_size(msg);
		buf = malloc(size);	/* exact size */
		if (!buf && size == 0)
			buf = malloc(1);
		ret = protobuf_c_message_pack(msg, buf);
		(void) protobuf_c_message_pack_to_buffer(msg, &db);
		m2 = protobuf_c_message_unpack(msg->descriptor, NULL,
					       ret < size ? ret : size, buf);
		_exit(m2 ? 0 : 3);
	}
	while (waitpid(pid, &status, 0) < 0) {
		if (errno != EINTR)
			drv_fail("waitpid failed: %s", strerror(errno));
	}
	ob_puts("C 1 ");
	if (WIFEXITED(status) && WEXITSTATUS(status) == 0)
		ob_puts("OK");
	else if (WIFEXITED(status) && WEXITSTATUS(status) == 3)
		ob_puts("REPARSE");
	else
		ob_puts("CRASH");
}

static void
case_buf(void)
{
	size_t cap = tok_u64("cap");
	char *plan = tok();
	size_t *lens = NULL, nlens = 0, lens_cap = 0, i, k, total = 0, pos = 0;
	uint8_t *scratch;
	ProtobufCBufferSimple sb;
	char *t;

	if (cap > ((size_t) 1 << 30))
		drv_fail("cap too large");
	while ((t = tok_opt()) != NULL) {
		size_t l = parse_u64(t, "append length");
		if (l > ((size_t) 1 << 30) || total + l > ((size_t) 1 << 30))
			drv_fail("append lengths too large");
		total += l;
		if (nlens == lens_cap) {
			size_t nc = lens_cap ? lens_cap * 2 : 16;
			size_t *nl = arena_alloc(nc * sizeof *nl);
			if (nlens)
				memcpy(nl, lens, nlens * sizeof *nl);
			lens = nl;
			lens_cap = nc;
		}
		lens[nlens++] = l;
	}
	/*
	 * protobuf_c_buffer_simple_append doubles `alloced` until it is large
	 * enough: with alloced == 0 that loop never terminates.  Refuse to run
	 * such a case rather than hang the harness.
	 */
	if (cap == 0 && total > 0)
		drv_fail("BUF cap 0 with a non-empty append would not terminate (alloced*2 == 0)");

	rec_setup(plan);
	scratch = arena_alloc(cap);	/* exactly cap bytes */
	g_rec.scratch = scratch;
	sb.base.append = protobuf_c_buffer_simple_append;
	sb.alloced = cap;
	sb.len = 0;
	sb.data = scratch;
	sb.must_free_data = 0;
	sb.allocator = &g_rec.base;

	for (i = 0; i < nlens; i++) {
		uint8_t *src = arena_alloc(lens[i]);	/* exactly len bytes */
		for (k = 0; k < lens[i]; k++, pos++)
			src[k] = (uint8_t) ((pos * 7 + 3) & 0xff);
		protobuf_c_buffer_simple_append(&sb.base, lens[i], src);
	}

	ob_puts("BF");
	ob_sp_u64(sb.alloced);
	ob_sp_u64(sb.len);
	ob_sp_u64((uint64_t) (unsigned) sb.must_free_data);
	ob_sp_hex(sb.data, sb.len);
	rec_print_requests();

	PROTOBUF_C_BUFFER_SIMPLE_CLEAR(&sb);

	ob_sp_u64(g_rec.nfree_ok);
	ob_sp_u64((uint64_t) g_rec.freed_scratch);
	ob_sp_u64(g_rec.nlive);
	ob_sp_u64(g_rec.nbad);	/* bad calls of the allocator: foreign / double frees, wrong closure argument */
}

static void
run_case(char *line)
{
	char *kw;

	g_cur = line;
	kw = tok();
	if (!strcmp(kw, "PACK"))
		case_pack();
	else if (!strcmp(kw, "UNPACK"))
		case_unpack();
	else if (!strcmp(kw, "RT"))
		case_rt();
	else if (!strcmp(kw, "UNPACKA"))
		case_unpacka();
	else if (!strcmp(kw, "UNPACKT"))
		case_unpackt();
	else if (!strcmp(kw, "SIZES"))
		case_sizes();
	else if (!strcmp(kw, "LOOKUP"))
		case_lookup();
	else if (!strcmp(kw, "ENUMNAME"))
		case_enumname();
	else if (!strcmp(kw, "ENUMNUM"))
		case_enumnum();
	else if (!strcmp(kw, "METHODNAME"))
		case_methodname();
	else if (!strcmp(kw, "CHECK"))
		case_check();
	else if (!strcmp(kw, "BUF"))
		case_buf();
	else
		drv_fail("unknown case kind '%.20s'", kw);
}


/* ---- multi-threaded mode: impl_driver -j <nthreads> <casefile> ---------------------------------
 * The schema is read on the main thread; then case line i is run by thread i mod nthreads; outputs are
 * printed in line order, so the output must equal the single-threaded output (CHECK lines are not
 * supported here because they fork). */
#include <pthread.h>
typedef struct { char **lines; char **outs; size_t n; unsigned tid, nth; } MtJob;

static void *
mt_worker(void *arg)
{
	MtJob *j = arg;
	size_t i;

	g_rec.refuse_from = SIZE_MAX;
	for (i = j->tid; i < j->n; i += j->nth) {
		char *line = j->lines[i];
		if (line[0] == '#' || line[0] == 0) { j->outs[i] = NULL; continue; }
		g_ob_len = 0;
		if (setjmp(g_jmp) == 0) {
			run_case(line);
		} else {
			g_ob_len = 0;
			ob_puts("ERR ");
			ob_puts(g_err);
		}
		arena_release();
		rec_purge();
		ob_putc('\n');
		j->outs[i] = malloc(g_ob_len + 1);
		memcpy(j->outs[i], g_ob, g_ob_len);
		j->outs[i][g_ob_len] = 0;
	}
	free(g_ob); g_ob = NULL; g_ob_cap = 0;
	free(g_arena); g_arena = NULL; g_arena_cap = 0;
	free(g_cb.bytes); free(g_cb.clen); free(g_cb.cnull); memset(&g_cb, 0, sizeof g_cb);
	free(g_rec.refuse); free(g_rec.sizes); free(g_rec.refused); free(g_rec.tab); memset(&g_rec, 0, sizeof g_rec);
	return NULL;
}

static int
mt_main(unsigned nth, const char *path)
{
	FILE *fp = fopen(path, "r");
	char *line = NULL; size_t cap = 0; ssize_t n;
	char **lines = NULL, **outs; size_t nl = 0, cl = 0, i;
	pthread_t *th; MtJob *jobs;

	if (!fp) return 2;
	g_fp = fp;
	while ((n = getline(&line, &cap, fp)) != -1) {
		g_lineno++;
		while (n > 0 && (line[n - 1] == '\n' || line[n - 1] == '\r')) line[--n] = 0;
		if (g_in_schema) { schema_line(line); continue; }
		if (nl == cl) { cl = cl ? cl * 2 : 1024; lines = realloc(lines, cl * sizeof *lines); }
		lines[nl++] = strdup(line);
	}
	free(line); fclose(fp);
	arena_release();
	outs = calloc(nl ? nl : 1, sizeof *outs);
	th = calloc(nth, sizeof *th); jobs = calloc(nth, sizeof *jobs);
	for (i = 0; i < nth; i++) {
		jobs[i].lines = lines; jobs[i].outs = outs; jobs[i].n = nl; jobs[i].tid = i; jobs[i].nth = nth;
		pthread_create(&th[i], NULL, mt_worker, &jobs[i]);
	}
	for (i = 0; i < nth; i++) pthread_join(th[i], NULL);
	for (i = 0; i < nl; i++) { if (outs[i]) { fputs(outs[i], stdout); free(outs[i]); } free(lines[i]); }
	free(lines); free(outs); free(th); free(jobs);
	free(g_ob); free(g_arena);
	shared_report();
	schema_free();
	return 0;
}

int
main(int argc, char **argv)
{
	FILE *fp;
	char *line = NULL;
	size_t line_cap = 0;
	ssize_t n;

	if (argc == 4 && strcmp(argv[1], "-j") == 0)
		return mt_main((unsigned) atoi(argv[2]), argv[3]);
	if (argc != 2) {
		fprintf(stderr, "usage: %s [-j nthreads] <casefile>\n", argv[0]);
		return 2;
	}
	fp = fopen(argv[1], "r");
	if (!fp) {
		fprintf(stderr, "impl_driver: cannot open %s: %s\n", argv[1], strerror(errno));
		return 2;
	}
	g_fp = fp;
	g_rec.refuse_from = SIZE_MAX;

	while ((n = getline(&line, &line_cap, fp)) != -1) {
		g_lineno++;
		while (n > 0 && (line[n - 1] == '\n' || line[n - 1] == '\r'))
			line[--n] = 0;
		if (g_in_schema) {
			schema_line(line);
			continue;
		}
		if (line[0] == '#' || line[0] == 0)
			continue;
		g_ob_len = 0;
		if (setjmp(g_jmp) == 0) {
			run_case(line);
		} else {
			g_ob_len = 0;
			ob_puts("ERR ");
			ob_puts(g_err);
		}
		arena_release();
		rec_purge();
		ob_putc('\n');
		fwrite(g_ob, 1, g_ob_len, stdout);
		fflush(stdout);	/* so that the log is complete if a later case crashes */
	}
	if (g_in_schema) {
		fprintf(stderr, "impl_driver: schema section not terminated by END\n");
		free(line);
		fclose(fp);
		return 2;
	}

	fclose(fp);
	free(line);
	free(g_ob);
	free(g_arena);
	free(g_cb.bytes);
	free(g_cb.clen);
	free(g_cb.cnull);
	free(g_rec.refuse);
	free(g_rec.sizes);
	free(g_rec.refused);
	free(g_rec.tab);
	shared_report();
	schema_free();
	return 0;
}

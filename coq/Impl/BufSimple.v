(* ProtobufCBufferSimple: protobuf_c_buffer_simple_append (protobuf-c.c 190-219)
   and the PROTOBUF_C_BUFFER_SIMPLE_INIT / _CLEAR macros (protobuf-c.h), with
   block identities, an allocation log and a failure plan. *)
From Coq Require Import ZArith List Bool.
Import ListNotations.
Local Open Scope Z_scope.

Inductive bevent :=
| BAlloc (id : nat) (size : Z)   (* request number id granted *)
| BRefused (id : nat) (size : Z) (* request number id refused *)
| BFree (id : nat)               (* heap block id handed back *)
| BFreeScratch.                  (* the caller's scratch array passed to free *)

Record bstate := {
  b_alloced : Z;
  b_len : Z;
  b_data : list Z;          (* the first b_len bytes of simp->data *)
  b_must_free : bool;
  b_blk : option nat;       (* simp->data: None = the scratch array, Some id = heap block *)
  b_log : list bevent;      (* most recent first *)
  b_next : nat;             (* number of allocation requests made so far *)
}.

Definition buf_init (cap : Z) : bstate :=
  {| b_alloced := cap; b_len := 0; b_data := []; b_must_free := false; b_blk := None;
     b_log := []; b_next := 0 |}.

(* while (new_alloced < new_len) new_alloced += new_alloced; *)
Fixpoint grow (fuel : nat) (a target : Z) : option Z :=
  if a <? target then
    match fuel with
    | O => None
    | S f => grow f (a + a) target
    end
  else Some a.

Definition grow_fuel (target : Z) : nat := S (S (Z.to_nat (Z.log2_up target))).

(* None: the doubling loop does not terminate (alloced = 0) *)
Definition buf_append (plan : nat -> bool) (b : bstate) (chunk : list Z) : option bstate :=
  let new_len := b_len b + Z.of_nat (length chunk) in
  if new_len >? b_alloced b then
    match grow (grow_fuel new_len) (b_alloced b * 2) new_len with
    | None => None
    | Some new_alloced =>
        let k := b_next b in
        if plan k then
          Some {| b_alloced := b_alloced b; b_len := b_len b; b_data := b_data b;
                  b_must_free := b_must_free b; b_blk := b_blk b;
                  b_log := BRefused k new_alloced :: b_log b; b_next := S k |}
        else
          let log1 := BAlloc k new_alloced :: b_log b in
          let log2 := if b_must_free b
                      then match b_blk b with
                           | Some old => BFree old :: log1
                           | None => BFreeScratch :: log1
                           end
                      else log1 in
          Some {| b_alloced := new_alloced; b_len := new_len; b_data := b_data b ++ chunk;
                  b_must_free := true; b_blk := Some k; b_log := log2; b_next := S k |}
    end
  else
    Some {| b_alloced := b_alloced b; b_len := new_len; b_data := b_data b ++ chunk;
            b_must_free := b_must_free b; b_blk := b_blk b; b_log := b_log b; b_next := b_next b |}.

Fixpoint buf_appends (plan : nat -> bool) (b : bstate) (h : list (list Z)) : option bstate :=
  match h with
  | [] => Some b
  | c :: t => match buf_append plan b c with
              | None => None
              | Some b' => buf_appends plan b' t
              end
  end.

(* PROTOBUF_C_BUFFER_SIMPLE_CLEAR *)
Definition buf_clear (b : bstate) : bstate :=
  if b_must_free b then
    {| b_alloced := b_alloced b; b_len := b_len b; b_data := b_data b; b_must_free := b_must_free b;
       b_blk := b_blk b;
       b_log := match b_blk b with Some id => BFree id | None => BFreeScratch end :: b_log b;
       b_next := b_next b |}
  else b.

(* observations compared with the implementation *)
Definition live_blocks (log : list bevent) : list nat :=
  fold_right (fun e live =>
                match e with
                | BAlloc id _ => id :: live
                | BFree id => filter (fun x => negb (Nat.eqb x id)) live
                | _ => live
                end) [] log.

Definition plan_of_list (refused : list nat) (from : option nat) : nat -> bool :=
  fun k => existsb (Nat.eqb k) refused ||
           match from with Some f => Nat.leb f k | None => false end.

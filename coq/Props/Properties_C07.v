(* C07 -- all message memory comes from, and returns to, the caller's allocator.
   The discipline is a property of run-time traces: which blocks the parser requests from the allocator it
   was given, and which it hands back.  The value-level model of the parser (Impl/Unpack.v) has no heap,
   so the property is carried the other way round: the discipline is stated declaratively over the
   sequence of allocator events (Proofs/LedgerSound.v, record [discipline]), a monitor for it is defined
   in Gallina (Impl/Ledger.v), the monitor is PROVED sound (a trace it accepts satisfies the discipline),
   extracted, and run on the event traces of the real protobuf_c_message_unpack / free_unpacked under a
   recording allocator (harness/c/impl_driver.c, op UNPACKT) for generated inputs.  What is proved is
   therefore the monitor, not the parser: partial, see DESIGN.md section 6 C07. *)
From Coq Require Import ZArith List Bool.
From PBC Require Import Impl.Ledger Proofs.LedgerSound.
Import ListNotations.

Theorem C07_monitor_sound_partial : forall evs, monitor evs = true -> discipline evs.
Proof. exact monitor_sound. Qed.
Print Assumptions C07_monitor_sound_partial.

(* the monitor accepts the two shapes a correct run has, and rejects a leak on failure, a double free,
   success after a refusal, and a free of something that is not a live block (e.g. a static default) *)
Theorem C07_monitor_nonvacuous :
  (monitor [EvAlloc 0 152; EvAlloc 1 48; EvAlloc 2 301; EvRet true; EvFree 2; EvFree 1; EvFree 0; EvFreeDone] = true /\
   monitor [EvAlloc 0 152; EvAlloc 1 48; EvRefuse 2 301; EvFree 1; EvFree 0; EvRet false] = true) /\
  (monitor [EvAlloc 0 152; EvAlloc 1 48; EvRefuse 2 301; EvFree 1; EvRet false] = false /\
   monitor [EvAlloc 0 8; EvRet true; EvFree 0; EvFree 0; EvFreeDone] = false /\
   monitor [EvAlloc 0 8; EvRefuse 1 8; EvRet true; EvFree 0; EvFreeDone] = false /\
   monitor [EvAlloc 0 8; EvRet true; EvBadFree; EvFree 0; EvFreeDone] = false).
Proof. exact (conj ledger_accepts ledger_rejects). Qed.
Print Assumptions C07_monitor_nonvacuous.

(* A message that protobuf_c_message_check (Impl/Check.v check_msg) accepts never holds a NULL pointer in a
   REQUIRED sub-message field, at any depth the serialiser visits: check_msg E m = Ok true implies
   reqsub_msg E m (Impl/Typed.v), the one value-level hypothesis of Proofs/WfCanon.v wf_typed_canon.

   The statement proposed with the hypothesis [wf_msg E m = true] is true, and the hypothesis is not needed:
   wherever reqsub_msg looks at a cell, check_msg has looked at the same cell and returned Err (not Ok true)
   when the list lengths or slot kinds do not fit --
     - SOne: ck_single yields Ok false on a required NULL / zero sub-message pointer and the verdict of the
       recursive call on a non-NULL one (every label);
     - SRep n _ (Some l): allM (ck_elem ..) l (Z.to_nat n) visits exactly the elements all_n visits, and is
       Err EOob where the array is shorter than the count (all_n is true there);
     - SUnion g: ck_field skips the shared cell only when f_oneof f && f_id f <> case; reqsub_slot looks at it
       only when case = f_id f, and then ck_field has run ck_single on it; an out-of-range g is Err EDesc;
     - fewer slots than fields is Err EDesc (all2 is true there); an unknown descriptor index is Err EDesc.
   So [check_accepts_reqsub] is stated without wf_msg.  The two corollaries keep wf_msg and typed_msg because
   wf_typed_canon needs them. *)
From Coq Require Import ZArith List Bool Lia.
From PBC Require Import Base.CInt Gen.LeafC Impl.Desc Impl.Mem Impl.Enc Impl.Pack Impl.WF Impl.Unpack Impl.Canon
     Impl.WNorm Impl.Typed Impl.Check Proofs.MsgInd Proofs.WfCanon.
Import ListNotations.
Local Open Scope Z_scope.

Lemma with_nth_err : forall A B (k : A -> res B) e l g b,
  with_nth k (Err e) l g = Ok b -> exists x, nth_error l g = Some x /\ k x = Ok b.
Proof.
  intros A B k e l. induction l as [|y l IH]; intros g b H; destruct g; try discriminate H;
    cbn [with_nth nth_error] in *.
  - exists y. split; [reflexivity | exact H].
  - apply IH. exact H.
Qed.

Lemma ck_fields_cons : forall rec u f fs s ss,
  ck_fields rec u (f :: fs) (s :: ss) =
  bind (ck_field rec u f s) (fun a => if a then ck_fields rec u fs ss else Ok false).
Proof. reflexivity. Qed.

Lemma allM_cons : forall A (f : A -> res bool) x t k,
  allM f (x :: t) (S k) = bind (f x) (fun b => if b then allM f t k else Ok false).
Proof. reflexivity. Qed.

Lemma reqsub_cell_nonmsg : forall rec f v, f_type f <> TMessage -> reqsub_cell rec f v = true.
Proof. intros rec f v H. unfold reqsub_cell. destruct (f_type f); try reflexivity. congruence. Qed.

Lemma all_n_nonmsg : forall rec f l k, f_type f <> TMessage -> all_n (reqsub_cell rec f) l k = true.
Proof.
  intros rec f l. induction l as [|x l IH]; intros k H; destruct k as [|k]; try reflexivity.
  rewrite all_n_cons, (reqsub_cell_nonmsg rec f x H), (IH k H). reflexivity.
Qed.

Section CR.
Variable E : env.
Notation ckm := (check_msg E).
Notation rqm := (reqsub_msg E).

Definition kP (m : msg) : Prop := ckm m = Ok true -> rqm m = true.
Definition kQ (v : sval) : Prop := forall sub, v = VMsg (Some sub) -> kP sub.

(* a singular cell (SOne, or the selected member of a oneof) *)
Lemma ck_single_reqsub : forall f has v, kQ v -> ck_single ckm f has v = Ok true ->
  (if label_eqb (f_label f) LRequired then sub_set f v else true) && reqsub_cell rqm f v = true.
Proof.
  intros f has v HQ H. unfold ck_single, sub_set, reqsub_cell in *.
  destruct (f_type f); try (destruct (label_eqb (f_label f) LRequired); reflexivity).
  destruct v as [w|p|n p|[sub|]]; try discriminate H.
  - destruct w; try discriminate H. inversion H as [H1].
    destruct (label_eqb (f_label f) LRequired); [discriminate H1 | reflexivity].
  - rewrite (HQ sub eq_refl H). destruct (label_eqb (f_label f) LRequired); reflexivity.
  - inversion H as [H1]. destruct (label_eqb (f_label f) LRequired); [discriminate H1 | reflexivity].
Qed.

(* an element of a repeated message field *)
Lemma ck_elem_reqsub : forall f v, kQ v -> f_type f = TMessage -> ck_elem ckm f v = Ok true ->
  reqsub_cell rqm f v = true.
Proof.
  intros f v HQ Et H. unfold ck_elem, reqsub_cell in *. rewrite Et in *.
  destruct v as [w|p|n p|[sub|]]; try reflexivity. exact (HQ sub eq_refl H).
Qed.

Lemma allM_reqsub : forall f l k, Forall kQ l -> f_type f = TMessage ->
  allM (ck_elem ckm f) l k = Ok true -> all_n (reqsub_cell rqm f) l k = true.
Proof.
  intros f l. induction l as [|x l IH]; intros k HQ Et H; destruct k as [|k]; try reflexivity.
  rewrite allM_cons in H. rewrite all_n_cons. inversion HQ as [|x' l' HQ1 HQ2]; subst.
  destruct (ck_elem ckm f x) as [b|e] eqn:Ex; [|discriminate H]. cbn [bind] in H.
  destruct b; [|discriminate H].
  rewrite (ck_elem_reqsub f x HQ1 Et Ex), (IH k HQ2 Et H). reflexivity.
Qed.

Lemma ck_field_reqsub : forall unions f s,
  slot_all kQ s -> Forall (fun cv : Z * sval => kQ (snd cv)) unions ->
  ck_field ckm unions f s = Ok true -> reqsub_slot rqm unions f s = true.
Proof.
  intros unions f s HS HU H. unfold ck_field, reqsub_slot in *.
  destruct s as [h v | n cap arr | g]; cbn [slot_all] in HS.
  - destruct (label_eqb (f_label f) LRepeated); [discriminate H|].
    exact (ck_single_reqsub f h v HS H).
  - destruct arr as [l|]; [|reflexivity].
    destruct (label_eqb (f_label f) LRepeated); [|discriminate H].
    destruct (f_type f) eqn:Et; try (apply all_n_nonmsg; rewrite Et; discriminate).
    exact (allM_reqsub f l _ HS Et H).
  - destruct (with_nth_err _ _ _ _ _ _ _ H) as (cv & Hcv & Hk).
    rewrite (with_nth_nth _ _ _ _ _ _ _ Hcv).
    destruct (fst cv =? f_id f) eqn:Eid; [|reflexivity].
    apply Z.eqb_eq in Eid. rewrite Eid, Z.eqb_refl, andb_false_r in Hk.
    pose proof (ck_single_reqsub f (f_id f) (snd cv)
                  (proj1 (Forall_forall _ _) HU cv (nth_error_In _ _ Hcv)) Hk) as R.
    apply andb_true_iff in R. exact (proj2 R).
Qed.

Lemma ck_fields_reqsub : forall unions fs ss,
  Forall (slot_all kQ) ss -> Forall (fun cv : Z * sval => kQ (snd cv)) unions ->
  ck_fields ckm unions fs ss = Ok true -> all2 (reqsub_slot rqm unions) fs ss = true.
Proof.
  intros unions fs. induction fs as [|f fs IH]; intros ss HS HU H.
  - destruct ss; reflexivity.
  - destruct ss as [|s ss]; [reflexivity|]. inversion HS as [|s' ss' HS1 HS2]; subst.
    rewrite ck_fields_cons in H. rewrite all2_cons.
    destruct (ck_field ckm unions f s) as [a|e] eqn:Ef; [|discriminate H]. cbn [bind] in H.
    destruct a; [|discriminate H].
    rewrite (ck_field_reqsub unions f s HS1 HU Ef), (IH ss HS2 HU H). reflexivity.
Qed.

Lemma check_accepts_reqsub_P : forall m, kP m.
Proof.
  apply (msg_ind2 kP kQ); unfold kQ; try (intros; discriminate).
  - intros m IH sub Hv. inversion Hv; subst. exact IH.
  - intros d slots unions unk HS HU. unfold kP. intros H. cbn [check_msg reqsub_msg] in *.
    destruct (nth_error E d) as [md|] eqn:Ed; [|discriminate H].
    exact (ck_fields_reqsub unions (md_fields md) slots HS HU H).
Qed.

End CR.

(* What the library's own validity check accepts has no NULL required sub-message pointer, at any depth the
   serialiser visits.  No well-formedness hypothesis is needed (see the head of the file). *)
Theorem check_accepts_reqsub : forall (E : env) (m : msg),
  check_msg E m = Ok true -> reqsub_msg E m = true.
Proof. intros E m H. exact (check_accepts_reqsub_P E m H). Qed.

(* hence: the normal form of every well-formed, well-typed, check-accepted message is canonical ... *)
Corollary checked_typed_canon : forall (E : env) (m : msg),
  env_ok E = true -> wf_msg E m = true -> typed_msg E m = true -> check_msg E m = Ok true ->
  canon_msg E (wnorm_msg E m) = true.
Proof.
  intros E m EO Hwf Hty Hck.
  exact (wf_typed_canon E m EO Hwf Hty (check_accepts_reqsub E m Hck)).
Qed.

(* ... and parsing what pack writes for it returns that normal form *)
Corollary checked_typed_roundtrip : forall (E : env) (m : msg) (b : list Z),
  env_ok E = true -> wf_msg E m = true -> typed_msg E m = true -> check_msg E m = Ok true ->
  pack_msg E m = Ok b -> Z.of_nat (length b) <= max_input ->
  unpack_top E (m_desc m) b = Ok (wnorm_msg E m).
Proof.
  intros E m b EO Hwf Hty Hck Hp Hl.
  exact (wf_typed_roundtrip E m b EO Hwf Hty (check_accepts_reqsub E m Hck) Hp Hl).
Qed.

(* C11 -- missing required fields are always detected, never misjudged.
   Statements only; proofs in Proofs/ScanInv.v and Proofs/Required.v.

   unpack E fuel d data : the model of protobuf_c_message_unpack for message type d (Impl/Unpack.v);
   an embedded message occurrence is parsed by the same function (parse_required, TMessage case), so
   each statement below applies to every embedded occurrence at every depth as well.
   st_init / scan_loop : the scanning loop, which records one member per key met on the wire, with
                         the index of the field it belongs to (sm_field).
   must_appear f : f is required and has no declared default.  No hypothesis on the input bytes or on
   the descriptor environment. *)
From Coq Require Import ZArith List Bool.
From PBC Require Import Impl.Desc Impl.Mem Impl.Unpack Impl.Canon Spec.WireRaw Proofs.ScanInv Proofs.Required.
From PBC Require Proofs.LeafSafe Proofs.SpecRefine2 Proofs.RequiredSpec Proofs.Examples.
Import ListNotations.
Local Open Scope Z_scope.

(* success => every required field without default occurred at least once (at this level) *)
Theorem C11_success_implies_present : forall (E : env) k d data m md,
  unpack E (S k) d data = Ok m -> nth_error E d = Some md ->
  exists st, scan_loop (S (length data)) md (st_init d md data) = Ok st /\
    forall i f, nth_error (md_fields md) i = Some f -> must_appear f = true ->
      exists sm, In sm (st_members st) /\ sm_field sm = Some i.
Proof. exact unpack_ok_required_present. Qed.
Print Assumptions C11_success_implies_present.

(* one missing => failure is reported (not an incomplete message), whichever field it is, among however many *)
Theorem C11_missing_is_rejected : forall (E : env) k d data md st i f,
  nth_error E d = Some md ->
  scan_loop (S (length data)) md (st_init d md data) = Ok st ->
  nth_error (md_fields md) i = Some f -> must_appear f = true ->
  (forall sm, In sm (st_members st) -> sm_field sm <> Some i) ->
  unpack E (S k) d data = Err EFail.
Proof. exact missing_required_rejected. Qed.
Print Assumptions C11_missing_is_rejected.

(* never misjudged: when every such field occurred, the required-field test lets the message through;
   the absence of optional, repeated, oneof (or defaulted required) fields never causes rejection *)
Theorem C11_test_is_exact : forall d data md st,
  scan_loop (S (length data)) md (st_init d md data) = Ok st ->
  (forall i f, nth_error (md_fields md) i = Some f -> must_appear f = true ->
     exists sm, In sm (st_members st) /\ sm_field sm = Some i) ->
  exists slots, alloc_slots (md_fields md) (st_bitmap st) (st_slots st) = Ok slots.
Proof. exact required_test_exact. Qed.
Print Assumptions C11_test_is_exact.

(* ---- "on the wire" read by the REFERENCE READER (Spec/WireRaw.v, the schema-less reader that is compared with
   libprotobuf on every run) instead of by the implementation's own scan.  For every env_ok schema and every input
   <= max_input (268435425 bytes) that the reference reader reads as records rs (SpecRefine2.rec_good: the packed
   payloads of repeated fields among them split into elements): *)

(* a required field without default whose number none of the records carries => the parse is refused *)
Theorem C11_missing_on_the_wire_is_rejected : forall (E : env), env_ok E = true -> forall d md, nth_error E d = Some md ->
  forall b rs i f k,
  LeafSafe.bytes b -> Mem.zlen b <= max_input ->
  read_raw 5 b = Some rs -> Forall (SpecRefine2.rec_good md) rs ->
  nth_error (md_fields md) i = Some f -> must_appear f = true ->
  (forall r, In r rs -> rr_num r <> f_id f) ->
  unpack E (S k) d b = Err EFail.
Proof. exact RequiredSpec.missing_on_the_wire_rejected. Qed.
Print Assumptions C11_missing_on_the_wire_is_rejected.

(* every such field carried by at least one record => the required-field test lets the message through *)
Theorem C11_present_on_the_wire_passes : forall (E : env), env_ok E = true -> forall d md, nth_error E d = Some md ->
  forall b rs,
  LeafSafe.bytes b -> Mem.zlen b <= max_input ->
  read_raw 5 b = Some rs -> Forall (SpecRefine2.rec_good md) rs ->
  (forall i f, nth_error (md_fields md) i = Some f -> must_appear f = true -> exists r, In r rs /\ rr_num r = f_id f) ->
  exists st slots, scan_loop (S (length b)) md (st_init d md b) = Ok st /\
                   alloc_slots (md_fields md) (st_bitmap st) (st_slots st) = Ok slots.
Proof. exact RequiredSpec.present_on_the_wire_passes. Qed.
Print Assumptions C11_present_on_the_wire_passes.

(* the hypotheses of the two statements above are met by concrete inputs of the example schema
   (field 1: required int32 without default): [24;5] lacks it and is refused, [24;5;8;7] carries it and parses *)
Theorem C11_missing_on_the_wire_not_vacuous :
  env_ok Examples.ex_env = true /\ nth_error Examples.ex_env 0 = Some RequiredSpec.ex_md /\
  exists rs f, read_raw 5 [24;5] = Some rs /\ Forall (SpecRefine2.rec_good RequiredSpec.ex_md) rs /\
    nth_error (md_fields RequiredSpec.ex_md) 0 = Some f /\ must_appear f = true /\
    (forall r, In r rs -> rr_num r <> f_id f) /\
    unpack Examples.ex_env 1 0 [24;5] = Err EFail.
Proof. exact RequiredSpec.missing_hypotheses_met. Qed.
Print Assumptions C11_missing_on_the_wire_not_vacuous.

Theorem C11_present_on_the_wire_not_vacuous :
  exists rs, read_raw 5 [24;5;8;7] = Some rs /\ Forall (SpecRefine2.rec_good RequiredSpec.ex_md) rs /\
    (forall i f, nth_error (md_fields RequiredSpec.ex_md) i = Some f -> must_appear f = true ->
       exists r, In r rs /\ rr_num r = f_id f) /\
    exists m, unpack Examples.ex_env 5 0 [24;5;8;7] = Ok m.
Proof. exact RequiredSpec.present_hypotheses_met. Qed.
Print Assumptions C11_present_on_the_wire_not_vacuous.

(* C11 stated against the reference reader (Spec/WireRaw.v) instead of the implementation's own scan:
   "on the wire" = among the records the schema-less reference reader reads from the bytes.
   Built on the scan / reader correspondence of Proofs/SpecRefine2.v ([scan_all]) and on Proofs/Required.v. *)
From Coq Require Import ZArith List Bool Lia.
From PBC Require Import Impl.Desc Impl.Mem Impl.Unpack Impl.Canon Spec.WireRaw Proofs.ScanInv Proofs.Required
  Proofs.SpecRefine1 Proofs.SpecRefine2.
From PBC Require Proofs.ScanRec Proofs.MergeSafe Proofs.LeafSafe Proofs.Examples.
Import ListNotations.
Local Open Scope Z_scope.

Section ReqSpec.
Variable E : env.
Hypothesis EO : env_ok E = true.
Variable d : nat.
Variable md : mdesc.
Hypothesis Hmd : nth_error E d = Some md.

Let D : desc_ok (length E) md = true := MergeSafe.env_desc_ok E EO d md Hmd.

(* a required field (without default) whose number no record carries: the parse is refused, at any fuel *)
Theorem missing_on_the_wire_rejected : forall b rs i f k,
  LeafSafe.bytes b -> Mem.zlen b <= max_input ->
  read_raw 5 b = Some rs -> Forall (rec_good md) rs ->
  nth_error (md_fields md) i = Some f -> must_appear f = true ->
  (forall r, In r rs -> rr_num r <> f_id f) ->
  unpack E (S k) d b = Err EFail.
Proof.
  intros b rs i f k HB Hlen Hr HG Hi Hm Hno.
  destruct (scan_all E EO d md Hmd b rs HB Hlen Hr HG) as (HW & _ & st & Hs & Hms & _ & _).
  apply (missing_required_rejected E k d b md st i f Hmd Hs Hi Hm).
  intros sm Hin Hf. apply in_rev in Hin. rewrite Hms in Hin. apply in_map_iff in Hin.
  destruct Hin as (r & Er & Hr'). subst sm. unfold sm_of in Hf. cbn [sm_field] in Hf.
  pose proof (proj1 (Forall_forall _ _) HW r Hr') as (Hnum & _).
  destruct (find_field_nth E md D (rr_num r) i ltac:(lia) Hf) as (f' & Hi' & Hid).
  rewrite Hi in Hi'. injection Hi' as <-. exact (Hno r Hr' (eq_sym Hid)).
Qed.

(* every such field carried by at least one record: the required-field test lets the message through *)
Theorem present_on_the_wire_passes : forall b rs,
  LeafSafe.bytes b -> Mem.zlen b <= max_input ->
  read_raw 5 b = Some rs -> Forall (rec_good md) rs ->
  (forall i f, nth_error (md_fields md) i = Some f -> must_appear f = true -> exists r, In r rs /\ rr_num r = f_id f) ->
  exists st slots, scan_loop (S (length b)) md (st_init d md b) = Ok st /\
                   alloc_slots (md_fields md) (st_bitmap st) (st_slots st) = Ok slots.
Proof.
  intros b rs HB Hlen Hr HG Hall.
  destruct (scan_all E EO d md Hmd b rs HB Hlen Hr HG) as (_ & _ & st & Hs & Hms & _ & _).
  exists st. destruct (required_test_exact d b md st Hs) as (slots & Ha).
  - intros i f Hi Hm. destruct (Hall i f Hi Hm) as (r & Hin & Hid).
    exists (sm_of md r). split.
    + apply in_rev. rewrite Hms. apply in_map. exact Hin.
    + unfold sm_of. cbn [sm_field]. rewrite Hid. exact (ScanRec.find_field_known (length E) md D i f Hi).
  - exists slots. split; [exact Hs | exact Ha].
Qed.

End ReqSpec.

Print Assumptions missing_on_the_wire_rejected.
Print Assumptions present_on_the_wire_passes.

(* ---- non-vacuity: the example schema (field 1 is a required int32 without default) on two concrete inputs *)
Definition ex_md : mdesc := nth 0 Examples.ex_env (Examples.mkdesc [] 0).

Lemma rec_good_varint : forall md r v, rr_pay r = WireMsg.PVar v -> rec_good md r.
Proof. intros md r v Hv i f bs _ _ _ _ Hp. rewrite Hv in Hp. discriminate Hp. Qed.

(* [24;5] : one record, field 3; field 1 is missing: hypotheses of the first theorem hold, and the parse is refused *)
Example missing_hypotheses_met :
  env_ok Examples.ex_env = true /\ nth_error Examples.ex_env 0 = Some ex_md /\
  exists rs f, read_raw 5 [24;5] = Some rs /\ Forall (rec_good ex_md) rs /\
    nth_error (md_fields ex_md) 0 = Some f /\ must_appear f = true /\
    (forall r, In r rs -> rr_num r <> f_id f) /\
    unpack Examples.ex_env 1 0 [24;5] = Err EFail.
Proof.
  split; [vm_compute; reflexivity|]. split; [reflexivity|].
  eexists. eexists. split; [vm_compute; reflexivity|].
  split; [constructor; [eapply rec_good_varint; reflexivity | constructor]|].
  split; [reflexivity|]. split; [vm_compute; reflexivity|].
  split; [|vm_compute; reflexivity].
  intros r [<-|[]]. vm_compute. discriminate.
Qed.

(* [24;5;8;7] : field 3 then field 1: hypotheses of the second theorem hold, and the parse succeeds *)
Example present_hypotheses_met :
  exists rs, read_raw 5 [24;5;8;7] = Some rs /\ Forall (rec_good ex_md) rs /\
    (forall i f, nth_error (md_fields ex_md) i = Some f -> must_appear f = true -> exists r, In r rs /\ rr_num r = f_id f) /\
    exists m, unpack Examples.ex_env 5 0 [24;5;8;7] = Ok m.
Proof.
  eexists. split; [vm_compute; reflexivity|].
  split; [constructor; [eapply rec_good_varint; reflexivity | constructor; [eapply rec_good_varint; reflexivity | constructor]]|].
  split.
  - intros i f Hi Hm. eexists. split; [right; left; reflexivity|].
    do 8 (destruct i as [|i]; [cbn in Hi; injection Hi as <-; first [reflexivity | vm_compute in Hm; discriminate Hm]|]).
    destruct i; discriminate Hi.
  - eexists. vm_compute. reflexivity.
Qed.

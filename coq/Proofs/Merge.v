(* C10: repeated occurrences of a singular field.  Characterisation of what parse_member and
   merge_messages (Impl/Unpack.v) do, stated as the protobuf rules. *)
From Coq Require Import ZArith List Bool Lia ZifyBool.
From PBC Require Import Base.CInt Gen.LeafC Impl.Desc Impl.Mem Impl.Enc Impl.Unpack.
Import ListNotations.
Local Open Scope Z_scope.

Lemma set_nth_same : forall A (l : list A) i x, (i < length l)%nat -> nth_error (set_nth l i x) i = Some x.
Proof. induction l as [|y l IH]; intros [|i] x Hi; cbn in *; try lia; [reflexivity | apply IH; lia]. Qed.

Section M.
Variable E : env.
Variable usub : nat -> list Z -> res msg.

(* numbers, strings, bytes: the new value does not depend on what the cell held *)
Lemma parse_required_forgets_old : forall f sm old old' mc mc',
  f_type f <> TMessage ->
  parse_required E usub f sm old mc = parse_required E usub f sm old' mc'.
Proof. intros f sm old old' mc mc' H. unfold parse_required. destruct (f_type f); try reflexivity. congruence. Qed.

(* last one wins: after a member of a singular non-oneof field of non-message type has been parsed, the
   cell holds what that member alone decodes to -- whatever earlier occurrences had put there *)
Theorem singular_last_wins : forall md sm d slots unions unk m' i f,
  parse_member E usub md sm (Msg d slots unions unk) = Ok m' ->
  sm_field sm = Some i -> nth_error (md_fields md) i = Some f ->
  f_label f <> LRepeated -> f_oneof f = false -> f_type f <> TMessage ->
  exists h v, nth_error (m_slots m') i = Some (SOne h v) /\
              parse_required E usub f sm (VWord 0) false = Ok v /\
              m_unions m' = unions /\ m_unk m' = unk.
Proof.
  intros md sm d slots unions unk m' i f H Hf Hn Hl Ho Ht. unfold parse_member in H. rewrite Hf, Hn in H.
  destruct (nth_error slots i) as [s|] eqn:Es; [|discriminate H].
  assert (Hi : (i < length slots)%nat) by (apply nth_error_Some; congruence).
  assert (Hset : forall x, nth_error (set_nth slots i x) i = Some x) by (intros x; apply set_nth_same; exact Hi).
  destruct (f_label f) eqn:El; try congruence; rewrite ?Ho in H;
    (destruct s as [h old| |]; try discriminate H);
    (destruct (parse_required E usub f sm old true) as [v|e] eqn:Ep; cbn [bind] in H; [|discriminate H]);
    inversion H; subst m'; cbn [m_slots m_unions m_unk];
    rewrite (parse_required_forgets_old f sm old (VWord 0) true false Ht) in Ep;
    eexists; exists v; (split; [apply Hset | auto]).
Qed.

(* within a oneof the last member on the wire is the one selected *)
Theorem oneof_last_wins : forall md sm d slots unions unk m' i f g,
  parse_member E usub md sm (Msg d slots unions unk) = Ok m' ->
  sm_field sm = Some i -> nth_error (md_fields md) i = Some f ->
  f_label f <> LRepeated -> f_label f <> LRequired -> f_oneof f = true -> nth_error slots i = Some (SUnion g) ->
  exists v, nth_error (m_unions m') g = Some (sm_tag sm, v) /\ m_slots m' = slots /\ m_unk m' = unk.
Proof.
  intros md sm d slots unions unk m' i f g H Hf Hn Hl Hr Ho Hs. unfold parse_member in H. rewrite Hf, Hn, Hs in H.
  destruct (f_label f) eqn:El; try congruence; rewrite Ho in H;
    (destruct (nth_error unions g) as [[case cell]|] eqn:Eu; [|discriminate H]);
    match type of H with (bind ?X _) = _ => destruct X as [cz|]; cbn [bind] in H; [|discriminate H] end;
    match type of H with context [parse_required E usub f sm ?c true] =>
      destruct (parse_required E usub f sm c true) as [v|]; cbn [bind] in H; [|discriminate H] end;
    inversion H; subst m'; cbn [m_unions m_slots m_unk]; exists v; (split; [|auto]);
    apply set_nth_same; apply nth_error_Some; congruence.
Qed.

(* a later occurrence of an embedded message is merged into the earlier one *)
Theorem message_occurrences_merge : forall f sm om sub,
  f_type f = TMessage -> sm_wt sm = WT_LEN ->
  usub (f_sub f) (skipn (Z.to_nat (sm_pref sm)) (sm_data sm)) = Ok sub ->
  parse_required E usub f sm (VMsg (Some om)) true =
  (do m <- merge_messages E om sub; Ok (VMsg (Some m))).
Proof.
  intros f sm om sub Ht Hw Hu. unfold parse_required. rewrite Ht, Hw. change (WT_LEN =? WT_LEN) with true. cbn [negb].
  rewrite Hu. reflexivity.
Qed.

(* ---- merge_messages, field by field *)
Variable rec : msg -> msg -> res msg.

(* repeated: concatenated, earlier elements first, order kept *)
Lemma merge_repeated_concat : forall f ne ce le nl cl ll,
  f_label f = LRepeated -> 0 < ne <= zlen le -> 0 < nl <= zlen ll ->
  merge_slot rec f (SRep ne ce (Some le)) (SRep nl cl (Some ll)) =
  Ok (SRep (ne + nl) (ne + nl) (Some (firstn (Z.to_nat ne) le ++ firstn (Z.to_nat nl) ll))).
Proof.
  intros f ne ce le nl cl ll Hl He Hn. unfold merge_slot. rewrite Hl.
  replace (ne >? 0) with true by lia. replace (nl >? 0) with true by lia.
  replace ((ne <=? zlen le) && (nl <=? zlen ll)) with true by lia. reflexivity.
Qed.
Lemma merge_repeated_only_earlier : forall f ne ce ae cl al,
  f_label f = LRepeated -> 0 < ne -> merge_slot rec f (SRep ne ce ae) (SRep 0 cl al) = Ok (SRep ne ne ae).
Proof. intros f ne ce ae cl al Hl He. unfold merge_slot. rewrite Hl. replace (ne >? 0) with true by lia. reflexivity. Qed.
Lemma merge_repeated_only_latter : forall f ce ae ls,
  f_label f = LRepeated -> (exists n c a, ls = SRep n c a) -> merge_slot rec f (SRep 0 ce ae) ls = Ok ls.
Proof. intros f ce ae ls Hl (n & c & a & ->). unfold merge_slot. rewrite Hl. reflexivity. Qed.

(* optional scalar with a has_ flag: the later value if the later occurrence set it, else the earlier *)
Lemma merge_optional_has : forall f eh ev lh lv,
  f_label f = LOptional -> f_quant f = QHas -> f_type f <> TMessage -> f_type f <> TString ->
  merge_slot rec f (SOne eh ev) (SOne lh lv) =
  Ok (if negb (eh =? 0) && (lh =? 0) then SOne eh ev else SOne lh lv).
Proof.
  intros f eh ev lh lv Hl Hq Hm Hs. unfold merge_slot. rewrite Hl, Hq.
  destruct (f_type f); try congruence; destruct (negb (eh =? 0) && (lh =? 0)); reflexivity.
Qed.

(* embedded messages present in both: merged recursively; present in one: that one *)
Lemma merge_submessage_both : forall f eh em lh lm, (f_label f = LOptional \/ f_label f = LNone) -> f_type f = TMessage ->
  merge_slot rec f (SOne eh (VMsg (Some em))) (SOne lh (VMsg (Some lm))) = (do m <- rec em lm; Ok (SOne lh (VMsg (Some m)))).
Proof. intros f eh em lh lm [Hl|Hl] Ht; unfold merge_slot; rewrite Hl, Ht; reflexivity. Qed.
Lemma merge_submessage_earlier_only : forall f eh em lh, (f_label f = LOptional \/ f_label f = LNone) -> f_type f = TMessage ->
  merge_slot rec f (SOne eh (VMsg (Some em))) (SOne lh (VMsg None)) = Ok (SOne lh (VMsg (Some em))).
Proof. intros f eh em lh [Hl|Hl] Ht; unfold merge_slot; rewrite Hl, Ht; reflexivity. Qed.
Lemma merge_submessage_latter_only : forall f eh ls, (f_label f = LOptional \/ f_label f = LNone) -> f_type f = TMessage ->
  (exists lh lv, ls = SOne lh lv) ->
  merge_slot rec f (SOne eh (VMsg None)) ls = Ok ls.
Proof. intros f eh ls [Hl|Hl] Ht (lh & lv & ->); unfold merge_slot; rewrite Hl, Ht; reflexivity. Qed.

(* required: a sub-message is merged exactly like an optional one (the repaired merge_messages; it used to be
   skipped, so that the earlier occurrence's sub-message was dropped); any other required field keeps the latter value *)
Lemma merge_required_submessage_both : forall f eh em lh lm, f_label f = LRequired -> f_type f = TMessage ->
  merge_slot rec f (SOne eh (VMsg (Some em))) (SOne lh (VMsg (Some lm))) = (do m <- rec em lm; Ok (SOne lh (VMsg (Some m)))).
Proof. intros f eh em lh lm Hl Ht; unfold merge_slot; rewrite Hl, Ht; reflexivity. Qed.
Lemma merge_required_submessage_earlier_only : forall f eh em lh, f_label f = LRequired -> f_type f = TMessage ->
  merge_slot rec f (SOne eh (VMsg (Some em))) (SOne lh (VMsg None)) = Ok (SOne lh (VMsg (Some em))).
Proof. intros f eh em lh Hl Ht; unfold merge_slot; rewrite Hl, Ht; reflexivity. Qed.
Lemma merge_required_other_latter : forall f es ls, f_label f = LRequired -> f_type f <> TMessage ->
  merge_slot rec f es ls = Ok ls.
Proof. intros f es ls Hl Ht. unfold merge_slot. rewrite Hl. destruct (f_type f); try reflexivity. congruence. Qed.

(* oneof: one already set is carried over unless the later occurrence sets the oneof again *)
Lemma merge_union_later_sets : forall md g ec ev lc lv, lc <> 0 -> lc <> ec ->
  merge_union rec md g (ec, ev) (lc, lv) = Ok (lc, lv).
Proof. intros md g ec ev lc lv H0 H1. unfold merge_union. replace (lc =? 0) with false by lia. replace (lc =? ec) with false by lia. reflexivity. Qed.
Lemma merge_union_neither : forall md g ev lv, merge_union rec md g (0, ev) (0, lv) = Ok (0, lv).
Proof. intros. reflexivity. Qed.
Lemma merge_union_carried_over : forall md g ec ev lv i f, ec <> 0 ->
  find_field md ec = Some i -> nth_error (md_fields md) i = Some f -> in_group f g = true -> f_type f <> TMessage ->
  merge_union rec md g (ec, ev) (0, lv) = Ok (ec, ev).
Proof.
  intros md g ec ev lv i f H0 Hf Hn Hg Ht. unfold merge_union. change (0 =? 0) with true. replace (ec =? 0) with false by lia.
  rewrite Hf, Hn, Hg. cbn [negb]. destruct (f_type f); try reflexivity. congruence.
Qed.
End M.

(* unknown fields of both occurrences are kept, the earlier ones first *)
Theorem merge_keeps_unknown : forall E e l m, merge_messages E e l = Ok m -> m_unk m = m_unk e ++ m_unk l.
Proof.
  intros E e [d ls lu lk] m H. cbn [merge_messages] in H.
  destruct (nth_error E d) as [md|]; [|discriminate H].
  destruct (merge_slots (merge_messages E) (md_fields md) (m_slots e) ls) as [ss|]; cbn [bind] in H; [|discriminate H].
  destruct (merge_unions (merge_messages E) md 0 (m_unions e) lu) as [us|]; cbn [bind] in H; [|discriminate H].
  inversion H; subst. reflexivity.
Qed.

(* The reading of a byte string under a schema, written as a specification: split the bytes into records with the
   reference reader (Spec/WireRaw.v), then fold the records, in order, into a freshly initialised message -- a singular
   field takes the last value, occurrences of a singular sub-message are merged, a repeated field appends (one element,
   or all the elements of a packed record, whichever way the field is declared), a oneof member replaces the member
   chosen before, a record with an unknown number is retained with its bytes; every required field must occur.  Values
   are computed with the primitives of Spec/Wire.v (varint values, zig-zag, little-endian), not with the C decoders.
   One pass, no counting, no capacities, no lookup cache.

   [None] = these bytes are not a valid encoding for this schema (not well-formed, a wire type that does not fit the
   field's type, a required field missing, a varint overflowing 64 bits ...).  The theorem (Proofs/SpecRefine*.v,
   Props/Properties_C04.v): whenever this reading is [Some m], protobuf_c_message_unpack returns exactly m.
   Definitions only; extracted and compared with libprotobuf and with the implementation on every run. *)
From Coq Require Import ZArith List Bool.
From PBC Require Import Base.CInt Spec.Wire Spec.WireMsg Spec.WireRaw Impl.Desc Impl.Mem Impl.Unpack.
Import ListNotations.
Local Open Scope Z_scope.

Definition two32 := 4294967296.

(* the cell contents a payload denotes at scalar type t; None: the wire type does not fit *)
Definition scalar_of (t : ftype) (p : payload) : option Z :=
  match t, p with
  | (TInt32 | TEnum | TUint32), PVar v => Some (v mod two32)           (* two's complement, low 32 bits *)
  | TSint32, PVar v => Some (unzigzag (v mod two32) mod two32)
  | (TInt64 | TUint64), PVar v => Some v
  | TSint64, PVar v => Some (unzigzag v mod two64)
  | (TSfixed32 | TFixed32 | TFloat), PI32 v => Some v
  | (TSfixed64 | TFixed64 | TDouble), PI64 v => Some v
  | TBool, PVar v => Some (if v =? 0 then 0 else 1)
  | _, _ => None
  end.

Definition packable (t : ftype) : bool := negb (is_len_type t).

Definition old_msg (v : sval) : option msg := match v with VMsg (Some m) => Some m | _ => None end.

Definition obind {A B} (o : option A) (f : A -> option B) : option B :=
  match o with Some a => f a | None => None end.

Fixpoint chunks (w : nat) (n : nat) (bs : list Z) : list (list Z) :=
  match n with O => [] | S k => firstn w bs :: chunks w k (skipn w bs) end.

Fixpoint field_index_from (i : nat) (fs : list field) (num : Z) : option nat :=
  match fs with
  | [] => None
  | f :: t => if f_id f =? num then Some i else field_index_from (S i) t num
  end.
Definition field_index (md : mdesc) (num : Z) : option nat := field_index_from 0 (md_fields md) num.

(* the widest element of a packed record: a packed bool element must be a single byte, any other varint takes at most
   ten.  protobuf_c counts one element per BYTE of a packed bool record when it sizes the array, so with padded
   elements the array is allocated larger than the number of elements stored; the value is the same, the allocation
   is not (Proofs/SpecRefine0.v, lax_packed_bool_counter_example) *)
Definition elem_width (t : ftype) : nat := match t with TBool => 1%nat | _ => 10%nat end.

Section Step.
Variable E : env.
Variable sub : nat -> list Z -> option msg.     (* the reading of a sub-message's bytes *)

(* the new contents of a singular cell / an array element; [old]: the sub-message the cell held before *)
Definition cell_of (f : field) (p : payload) (old : option msg) : option sval :=
  match f_type f with
  | TString => match p with
               | PLen bs => Some (VStr (PHeap (takewhile_nz bs)))      (* a C string ends at the first NUL *)
               | _ => None
               end
  | TBytes => match p with
              | PLen [] => Some (VBytes 0 PNull)
              | PLen bs => Some (VBytes (zlen bs) (PHeap bs))
              | _ => None
              end
  | TMessage => match p with
                | PLen bs =>
                    obind (sub (f_sub f) bs) (fun m =>
                      match old with
                      | None => Some (VMsg (Some m))
                      | Some om => match merge_messages E om m with
                                   | Ok mm => Some (VMsg (Some mm))
                                   | Err _ => None
                                   end
                      end)
                | _ => None
                end
  | t => match scalar_of t p with Some w => Some (VWord w) | None => None end
  end.

(* the elements of a packed record *)
Fixpoint packed_varints (fuel : nat) (t : ftype) (bs : list Z) : option (list sval) :=
  match bs with
  | [] => Some []
  | _ :: _ =>
      match fuel with
      | O => None
      | S k =>
          match read_varint_raw (elem_width t) bs with
          | Some (v, _, r) =>
              if v <? two64 then
                match scalar_of t (PVar v), packed_varints k t r with
                | Some w, Some ws => Some (VWord w :: ws)
                | _, _ => None
                end
              else None
          | None => None
          end
      end
  end.

Definition packed_elems (t : ftype) (bs : list Z) : option (list sval) :=
  match t with
  | TSfixed32 | TFixed32 | TFloat =>
      if zlen bs mod 4 =? 0 then Some (map (fun c => VWord (le_val c)) (chunks 4 (Nat.div (length bs) 4) bs)) else None
  | TSfixed64 | TFixed64 | TDouble =>
      if zlen bs mod 8 =? 0 then Some (map (fun c => VWord (le_val c)) (chunks 8 (Nat.div (length bs) 8) bs)) else None
  | TString | TBytes | TMessage => None
  | t => packed_varints (length bs) t bs
  end.

Definition spec_append (s : slot) (vs : list sval) : option slot :=
  match s with
  | SRep n cap arr =>
      match vs with
      | [] => Some s
      | _ :: _ =>
          match arr with
          | None => Some (SRep (zlen vs) (zlen vs) (Some vs))
          | Some l => Some (SRep (n + zlen vs) (n + zlen vs) (Some (l ++ vs)))
          end
      end
  | _ => None
  end.

Definition spec_record (md : mdesc) (r : rawrec) (m : msg) : option msg :=
  let '(Msg d slots unions unk) := m in
  match field_index md (rr_num r) with
  | None =>
      Some (Msg d slots unions (unk ++ [{| u_tag := rr_num r; u_wt := wt_of (rr_pay r); u_data := rr_raw r |}]))
  | Some i =>
      match nth_error (md_fields md) i, nth_error slots i with
      | Some f, Some s =>
          match f_label f with
          | LRepeated =>
              match (if packable (f_type f) then match rr_pay r with PLen bs => Some bs | _ => None end else None) with
              | Some bs =>
                  obind (packed_elems (f_type f) bs) (fun vs =>
                  obind (spec_append s vs) (fun s' => Some (Msg d (set_nth slots i s') unions unk)))
              | None =>
                  obind (cell_of f (rr_pay r) None) (fun v =>
                  obind (spec_append s [v]) (fun s' => Some (Msg d (set_nth slots i s') unions unk)))
              end
          | LRequired =>
              match s with
              | SOne h old =>
                  obind (cell_of f (rr_pay r) (old_msg old)) (fun v =>
                  Some (Msg d (set_nth slots i (SOne h v)) unions unk))
              | _ => None
              end
          | LOptional | LNone =>
              match s with
              | SUnion g =>
                  match nth_error unions g with
                  | Some (case, cell) =>
                      (* the member chosen before is replaced; the same sub-message member again is merged *)
                      let old := if case =? rr_num r then old_msg cell else None in
                      obind (cell_of f (rr_pay r) old) (fun v =>
                      Some (Msg d slots (set_nth unions g (rr_num r, v)) unk))
                  | None => None
                  end
              | SOne h old =>
                  obind (cell_of f (rr_pay r) (old_msg old)) (fun v =>
                  let h' := match f_quant f with QNone => h | _ => 1 end in
                  Some (Msg d (set_nth slots i (SOne h' v)) unions unk))
              | _ => None
              end
          end
      | _, _ => None
      end
  end.

Fixpoint spec_records (md : mdesc) (rs : list rawrec) (m : msg) : option msg :=
  match rs with
  | [] => Some m
  | r :: t => obind (spec_record md r m) (spec_records md t)
  end.

End Step.

Definition required_present (md : mdesc) (rs : list rawrec) : bool :=
  forallb (fun f => negb (label_eqb (f_label f) LRequired) || existsb (fun r => rr_num r =? f_id f) rs) (md_fields md).

Section Top.
Variable E : env.

Fixpoint spec_parse (fuel : nat) (d : nat) (b : list Z) : option msg :=
  match fuel with
  | O => None
  | S k =>
      match nth_error E d with
      | None => None
      | Some md =>
          match read_raw 5 b with
          | None => None
          | Some rs =>
              if required_present md rs
              then spec_records E (spec_parse k) md rs (init_msg d md)
              else None
          end
      end
  end.

(* a sub-message's bytes are strictly shorter than the message's, so the length is fuel enough for any nesting *)
Definition spec_parse_top (d : nat) (b : list Z) : option msg := spec_parse (S (length b)) d b.

End Top.

(* ---------- which messages the specification can read back (Proofs/SpecCanon*.v) *)
(* The specification refuses varints that overflow 64 bits; a retained unknown field may carry one (protobuf-c keeps the
   bytes without looking at the value).  [unk_strict]: no unknown field, at any depth, holds such a varint. *)
Definition ufield_strict (u : ufield) : bool :=
  if u_wt u =? 0 then varint_val (u_data u) <? two64 else true.

Definition sval_strict (rec : msg -> bool) (v : sval) : bool :=
  match v with VMsg (Some m) => rec m | _ => true end.

Fixpoint unk_strict (m : msg) : bool :=
  match m with
  | Msg _ slots unions unk =>
      forallb (fun s => match s with
                        | SOne _ v => sval_strict unk_strict v
                        | SRep _ _ (Some l) => forallb (sval_strict unk_strict) l
                        | _ => true
                        end) slots &&
      forallb (fun cv : Z * sval => sval_strict unk_strict (snd cv)) unions &&
      forallb ufield_strict unk
  end.

(* What the allocation discipline (C07 / C08) says about a run of the allocation-level model (Impl/Heap.v), and the
   invariants under which it is proved (Proofs/Heap*.v): which blocks a message owns, when a message is well-typed
   (every cell holds the kind of pointer its field's type calls for, so that protobuf_c_message_free_unpacked finds
   exactly the blocks the message owns), and Hoare-style specifications of the model's functions over the set of live
   blocks.  Definitions and statements only. *)
From Coq Require Import ZArith List Bool Permutation.
From PBC Require Import Base.CInt Gen.LeafC Impl.Desc Impl.Mem Impl.Enc Impl.WF Impl.Unpack Impl.Canon Impl.Heap.
Import ListNotations.
Local Open Scope Z_scope.

(* ---------- the discipline, on a trace (oldest event first) *)
(* live blocks after the trace; None: a block was granted twice, something that is not a live block was freed
   (double free, free of a foreign pointer), or a static default was handed to free *)
Fixpoint replay (tr : list ev) (live : list nat) : option (list nat) :=
  match tr with
  | [] => Some live
  | EvA id _ :: t => if existsb (Nat.eqb id) live then None else replay t (id :: live)
  | EvR _ _ :: t => replay t live
  | EvF id :: t => if existsb (Nat.eqb id) live then replay t (filter (fun x => negb (Nat.eqb id x)) live) else None
  | EvX :: t => None
  end.

Definition live_of (s : hst) : option (list nat) := replay (rev (h_trace s)) [].

(* the state is disciplined so far and its live blocks are (a permutation of) L *)
Definition lives (s : hst) (L : list nat) : Prop :=
  exists L0, live_of s = Some L0 /\ Permutation L0 L /\ NoDup L /\ (forall i, In i L -> (i < h_next s)%nat).

(* {P} c {Q}: from any disciplined state whose live set satisfies P, c ends in a disciplined state whose live set
   satisfies Q (together with the result); requests are numbered consecutively *)
Definition hoare {X} (P : list nat -> Prop) (c : A X) (Q : X -> list nat -> Prop) : Prop :=
  forall s L, lives s L -> P L ->
    exists L', lives (snd (c s)) L' /\ Q (fst (c s)) L' /\ (h_next s <= h_next (snd (c s)))%nat.

(* ---------- ownership *)
Definition opt_list (o : option nat) : list nat := match o with Some i => [i] | None => [] end.

Definition owned_val (rec : hmsg -> list nat) (v : hval) : list nat :=
  match v with
  | HStr (PHeap i) => [i]
  | HBytes _ (PHeap i) => [i]
  | HMsg (Some m) => rec m
  | _ => []
  end.
Definition owned_slot (rec : hmsg -> list nat) (s : hslot) : list nat :=
  match s with
  | HOne _ v => owned_val rec v
  | HRep (Some (a, el)) => a :: flat_map (owned_val rec) el
  | _ => []
  end.
Fixpoint owned (m : hmsg) : list nat :=
  match m with
  | HM id d slots unions utab unk =>
      id :: flat_map (owned_slot owned) slots ++ flat_map (fun cv : Z * hval => owned_val owned (snd cv)) unions
         ++ opt_list utab ++ flat_map opt_list unk
  end.

Definition hm_d (m : hmsg) := match m with HM _ d _ _ _ _ => d end.

(* ---------- well-typed heap messages *)
Section HInv.
Variable E : env.

(* a singular cell (a member outside arrays, or the storage of a oneof when it selects member f) *)
Definition hcell_ok (rec : hmsg -> bool) (f : field) (v : hval) : bool :=
  match f_type f with
  | TString => match v with HStr PDef => has_default f | HStr _ | HScalar => true | _ => false end
  | TBytes => match v with
              | HBytes _ PDef => has_default f
              | HBytes n (PHeap _) => negb (n =? 0)      (* a heap block only for a non-empty value *)
              | HBytes _ PNull | HScalar => true
              | _ => false
              end
  | TMessage => match v with
                | HMsg (Some m) => rec m && Nat.eqb (hm_d m) (f_sub f)
                | HMsg None | HScalar => true
                | _ => false
                end
  | _ => match v with HScalar => true | _ => false end
  end.

(* an array element: what parse_required_member(maybe_clear = FALSE) leaves on success *)
Definition helem_ok (rec : hmsg -> bool) (f : field) (v : hval) : bool :=
  match f_type f with
  | TString => match v with HStr (PHeap _) => true | _ => false end
  | TBytes => match v with HBytes _ (PHeap _) | HBytes _ PNull => true | _ => false end
  | TMessage => match v with HMsg (Some m) => rec m && Nat.eqb (hm_d m) (f_sub f) | _ => false end
  | _ => match v with HScalar => true | _ => false end
  end.

Definition owns_nothing (v : hval) : bool :=
  match v with HStr (PHeap _) | HBytes _ (PHeap _) | HMsg (Some _) => false | _ => true end.

(* complete = true: the message is a finished parse result (arrays and the unknown-field table exist only when
   non-empty: merge_messages relies on this when it overwrites the latter message's pointer without freeing it) *)
Definition hslot_ok (rec : hmsg -> bool) (complete : bool) (nunions : nat) (f : field) (s : hslot) : bool :=
  match s with
  | HOne has v => negb (label_eqb (f_label f) LRepeated) && negb (f_oneof f) &&
                match f_quant f with QCase _ => false | _ => true end && hcell_ok rec f v &&
                (* a cleared has flag: the member holds its default / NULL, never a heap block *)
                match f_quant f with QHas => negb (has =? 0) || owns_nothing v | _ => true end
  | HRep arr => label_eqb (f_label f) LRepeated &&
                match arr with
                | None => true
                | Some (_, el) => forallb (helem_ok rec f) el && (negb complete || nonempty el)
                end
  | HUnion g => (label_eqb (f_label f) LOptional || label_eqb (f_label f) LNone) && f_oneof f &&
                match f_quant f with QCase g' => Nat.eqb g g' | _ => false end && Nat.ltb g nunions
  end.

Definition hslots_ok (rec : hmsg -> bool) (complete : bool) (nunions : nat) : list field -> list hslot -> bool :=
  fix go (fs : list field) (ss : list hslot) {struct ss} : bool :=
    match fs, ss with
    | [], [] => true
    | f :: fs', s :: ss' => hslot_ok rec complete nunions f s && go fs' ss'
    | _, _ => false
    end.

(* not a static default pointer *)
Definition no_def (v : hval) : bool := match v with HStr PDef | HBytes _ PDef => false | _ => true end.

(* storage of oneof group g: owns nothing (and is not a default pointer: whatever member the case word names,
   free_unpacked then has nothing to free), or selects a member of the group and is a cell of that member *)
Definition hunion_ok (rec : hmsg -> bool) (fs : list field) (g : nat) (cv : Z * hval) : bool :=
  (owns_nothing (snd cv) && no_def (snd cv)) ||
  existsb (fun f => (f_id f =? fst cv) && in_group f g && f_oneof f && hcell_ok rec f (snd cv)) fs.

Definition hunions_ok (rec : hmsg -> bool) (fs : list field) : nat -> list (Z * hval) -> bool :=
  fix go (g : nat) (us : list (Z * hval)) {struct us} : bool :=
    match us with
    | [] => true
    | cv :: t => hunion_ok rec fs g cv && go (S g) t
    end.

Fixpoint hwt (complete : bool) (m : hmsg) : bool :=
  match m with
  | HM id d slots unions utab unk =>
      match nth_error E d with
      | None => false
      | Some md =>
          hslots_ok (hwt true) complete (length unions) (md_fields md) slots &&
          Nat.eqb (length unions) (md_n_oneofs md) &&
          hunions_ok (hwt true) (md_fields md) 0 unions &&
          (* the table exists iff there are entries (complete), or at least: entries need a table *)
          match utab with
          | None => match unk with [] => true | _ => false end
          | Some _ => negb complete || nonempty unk
          end
      end
  end.

End HInv.

(* ---------- specifications (proved in Proofs/Heap*.v, for every environment with env_ok E = true) *)
Section Specs.
Variable E : env.
Variable plan : nat -> bool.
Variable szmsg : nat -> Z.

(* protobuf_c_message_free_unpacked returns exactly the blocks the message owns, each once *)
Definition spec_free : Prop := forall c m R, hwt E c m = true ->
  hoare (fun L => Permutation L (owned m ++ R)) (h_free E m) (fun _ L' => Permutation L' R).

(* merge_messages: whatever it returns, the two messages together own what they owned before plus what was granted
   and minus what was freed, i.e. the live set is again what the two (updated) messages own, plus the frame *)
Definition spec_merge : Prop := forall e l R, hwt E true e = true -> hwt E true l = true -> hm_d e = hm_d l ->
  hoare (fun L => Permutation L (owned e ++ owned l ++ R)) (h_merge E plan e l)
        (fun r L' => let '(ok, e', l') := r in
                     hwt E true e' = true /\ hm_d e' = hm_d e /\
                     hwt E true l' = true /\ hm_d l' = hm_d l /\
                     Permutation L' (owned e' ++ owned l' ++ R)).

(* the parser: NULL and everything returned, or a complete message owning exactly what is still live *)
Definition spec_unpack (unp : nat -> list Z -> A (option hmsg)) : Prop := forall d data R,
  Forall (fun b => 0 <= b < 256) data -> zlen data < 2147483648 ->
  hoare (fun L => Permutation L R) (unp d data)
        (fun o L' => match o with
                     | None => Permutation L' R
                     | Some m => hwt E true m = true /\ hm_d m = d /\ Permutation L' (owned m ++ R)
                     end).

End Specs.

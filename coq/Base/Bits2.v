(* byte-mask facts by sweep *)
From Coq Require Import ZArith List Bool Lia.
From PBC Require Import Base.CInt Base.Bits.
Import ListNotations.
Local Open Scope Z_scope.

Lemma land128_sweep : forallb (fun b => Bool.eqb (Z.land b 128 =? 0) (b <? 128)) (zrange 256) = true.
Proof. vm_compute. reflexivity. Qed.
Lemma land128_zero : forall b, 0 <= b < 256 -> (Z.land b 128 =? 0) = (b <? 128).
Proof.
  intros b H. pose proof (sweep 256 _ land128_sweep b ltac:(change (Z.of_nat 256) with 256; lia)) as E.
  apply Bool.eqb_prop in E. exact E.
Qed.

Lemma land248_sweep : forallb (fun b => Bool.eqb (Z.land b 248 =? 0) (b <? 8)) (zrange 256) = true.
Proof. vm_compute. reflexivity. Qed.
Lemma land248_zero : forall b, 0 <= b < 256 -> (Z.land b 248 =? 0) = (b <? 8).
Proof.
  intros b H. pose proof (sweep 256 _ land248_sweep b ltac:(change (Z.of_nat 256) with 256; lia)) as E.
  apply Bool.eqb_prop in E. exact E.
Qed.

Lemma land127_zero_sweep : forallb (fun b => Bool.eqb (Z.land b 127 =? 0) (b mod 128 =? 0)) (zrange 256) = true.
Proof. vm_compute. reflexivity. Qed.

(* The two models of protobuf_c_message_unpack agree (continued from Proofs/HeapSim.v): the scanning pass and its
   slabs, the arrays allocated after the scan, parse_required_member, the members, and the fuel induction.

   THE SLAB LIMIT.  h_scan (as the C code) gives up when the 23 ScannedMember slabs (16, 32, ..., 16 * 2^22 entries)
   are full: the member number 16 * (2^23 - 1) + 1 = 134217713 of one message makes protobuf_c_message_unpack return
   NULL ("too many fields"); Lemma [h_scan_slab_limit] shows that step.  The value-level scan_loop has no such test and
   goes on, but unpack (Impl/Unpack.v) now rejects right after the scan when more than max_members = 134217712 members
   were recorded -- observationally the same, since every failure of the scan is NULL.  (An earlier version of
   Impl/Unpack.v lacked the test; the simulation proof below found the difference, the smallest diverging input being
   134217713 two-byte members, 268435426 bytes, e.g. 8 0 repeated; it was demonstrated on the library and is listed as a
   finding under C04.)  With the limit in both models the simulation holds for every input of less than 2^31 bytes:
   the slab cursor (w, j) determines the number of members stored ([slab_inv]), h_scan reaches the end of slab 22 exactly
   when max_members members are stored ([slab_inv_full]), and from there on the value-level scan can only record more
   members ([scan_loop_members_mono]), so it either fails or trips the test ([h_scan_sim]).  Example
   [slab_limit_diverges] shows both models at that state. *)
From Coq Require Import ZArith List Bool Lia ZifyBool.
From PBC Require Import Base.CInt Base.Bits Gen.LeafC Impl.Desc Impl.Mem Impl.Enc Impl.WF Impl.Unpack Impl.Canon
     Impl.Typed Impl.Heap Impl.HeapInv Proofs.MsgInd Proofs.Shape Proofs.ScanRec Proofs.ScanRecs Proofs.MsgRT4
     Proofs.ScanInv Proofs.Required Proofs.ScanCount Proofs.PackedCount Proofs.TagRange Proofs.MergeSafe Proofs.Terminates
     Proofs.ParseSafe Proofs.UnpackSafe Proofs.Reorder Proofs.ParseGood Proofs.Examples Proofs.HeapSim Proofs.MemberCount.
From PBC Require Proofs.LeafSafe.
Import ListNotations.
Local Open Scope Z_scope.

(* ====================================================================== small monadic helpers *)

Lemma fst_bnd_unit : forall (X : Type) (c : A unit) (k : A X) s, exists s', bnd c (fun _ => k) s = k s'.
Proof. intros X c k s. destruct (unit_run c s) as [s' H]. exists s'. unfold bnd. rewrite H. reflexivity. Qed.

(* two clean-up commands and NULL *)
Lemma none_after2 : forall (c1 c2 : A unit) s, fst ((doA _ <- c1; doA _ <- c2; ret (@None hmsg)) s) = None.
Proof.
  intros c1 c2 s. destruct (fst_bnd_unit _ c1 (doA _ <- c2; ret (@None hmsg)) s) as [s1 ->].
  destruct (fst_bnd_unit _ c2 (ret (@None hmsg)) s1) as [s2 ->]. reflexivity.
Qed.

(* ====================================================================== the scanning pass *)

(* the part of scan_one that precedes the slab test is scan_pre *)
Section Pre.
Variable md : mdesc.

Lemma scan_one_pre : forall (st st' : sstate), scan_one md st = Ok st' -> scan_pre (st_at st) = true.
Proof.
  intros st st' H. unfold scan_one in H. unfold scan_pre.
  destruct (parse_tag_and_wiretype (zlen (st_at st)) (st_at st) 0 0) as [[used tag] wt].
  destruct (used =? 0); [discriminate H|].
  match type of H with context [if ?c then (st_last st, st_last st, st_last_idx st, st_nunk st) else _] => destruct c end;
    cbv beta iota zeta in H.
  all: try (destruct (st_last st) as [li|]).
  all: try (destruct (find_field md tag) as [fi|]).
  all: cbn [bind] in H.
  all: try match type of H with context [nth_error (md_fields md) ?i] => destruct (nth_error (md_fields md) i) as [f|] end.
  all: cbn [bind] in H; try discriminate H.
  all: match type of H with bind ?X _ = _ => destruct X as [[len pref]|e] eqn:Elp end; cbn [bind] in H; try discriminate H.
  all: clear H.
  all: destruct (wt =? WT_VARINT); [destruct (varint_end _ 10); [reflexivity | discriminate Elp]|].
  all: destruct (wt =? WT_64BIT); [destruct (_ <? 8); [discriminate Elp | reflexivity]|].
  all: destruct (wt =? WT_LEN); [destruct (scan_length_prefixed_data _ _ 0) as [l p]; destruct (l =? 0); [discriminate Elp | reflexivity]|].
  all: destruct (wt =? WT_32BIT); [destruct (_ <? 4); [discriminate Elp | reflexivity]|].
  all: discriminate Elp.
Qed.

(* conversely: when the heap model stops before the slab test, the value model stops too *)
Corollary scan_pre_false : forall (st : sstate), scan_pre (st_at st) = false -> exists e, scan_one md st = Err e.
Proof.
  intros st H. destruct (scan_one md st) as [st'|e] eqn:E1; [|eauto].
  rewrite (scan_one_pre st st' E1) in H. discriminate H.
Qed.

End Pre.

(* capacity of the 23 slabs: max_members = 16 * (2^23 - 1) (Impl/Unpack.v) *)

(* the slab cursor (w, j) after cnt members: slabs 0 .. w-1 are full, j entries of slab w are used *)
Definition slab_inv (w : nat) (j : Z) (cnt : nat) : Prop :=
  Z.of_nat cnt = 16 * (2 ^ Z.of_nat w - 1) + j /\ (w <= 22)%nat /\ 0 <= j <= 16 * 2 ^ Z.of_nat w.

Lemma pow2_le_22 : forall w, (w <= 22)%nat -> 1 <= 2 ^ Z.of_nat w <= 4194304.
Proof.
  intros w Hw. split.
  - pose proof (Z.pow_pos_nonneg 2 (Z.of_nat w) ltac:(lia) ltac:(lia)). lia.
  - change 4194304 with (2 ^ 22). apply Z.pow_le_mono_r; lia.
Qed.

(* while the cursor is valid, the members stored so far fit in the table *)
Lemma slab_inv_capacity : forall w j cnt, slab_inv w j cnt -> Z.of_nat cnt <= max_members.
Proof. intros w j cnt (Hc & Hw & Hj). pose proof (pow2_le_22 w Hw). unfold max_members. lia. Qed.

(* the last slab is full exactly when max_members members are stored *)
Lemma slab_inv_full : forall j cnt, slab_inv 22 j cnt -> (j = Z.shiftl 16 22 <-> Z.of_nat cnt = max_members).
Proof.
  intros j cnt (Hc & _ & Hj). change (Z.shiftl 16 22) with 67108864.
  change (2 ^ Z.of_nat 22) with 4194304 in *. unfold max_members. lia.
Qed.

(* the step at which the C code says "too many fields": all slabs full, another member present *)
Lemma h_scan_slab_limit : forall plan md k st slabs s, st_at st <> [] -> scan_pre (st_at st) = true ->
  fst (fst (fst (h_scan plan (S k) md st 22 (Z.shiftl 16 22) slabs s))) = false.
Proof.
  intros plan md k st slabs s Hne Hpre. cbn [h_scan]. destruct (st_at st) as [|b t]; [congruence|].
  rewrite Hpre. cbn [negb]. unfold bnd. rewrite Z.eqb_refl. cbn [Nat.eqb]. reflexivity.
Qed.

Section Scan.
Variable md : mdesc.

(* The scanning passes of the two models, for ARBITRARY input: the allocation-level pass succeeds, with the same
   final state, exactly when the value-level pass succeeds AND has recorded at most max_members members -- which is
   the test unpack makes right after scan_loop.  (h_scan stops at member max_members + 1; scan_loop goes on, and can
   only record more.) *)
Lemma h_scan_sim : forall fuel st w j slabs s,
  slab_inv w j (length (st_members st)) ->
  match scan_loop fuel md st with
  | Ok st' => if max_members <? Mem.zlen (st_members st')
              then fst (fst (fst (h_scan nr fuel md st w j slabs s))) = false
              else exists slabs' s', h_scan nr fuel md st w j slabs s = (true, st', slabs', s')
  | Err _ => fst (fst (fst (h_scan nr fuel md st w j slabs s))) = false
  end.
Proof.
  induction fuel as [|k IH]; intros st w j slabs s HS; cbn [scan_loop h_scan].
  - destruct (st_at st); [|reflexivity].
    pose proof (slab_inv_capacity _ _ _ HS) as Hcap.
    replace (max_members <? Mem.zlen (st_members st)) with false by (unfold Mem.zlen; lia).
    eexists; eexists; reflexivity.
  - destruct (st_at st) as [|b t] eqn:Ea.
    { pose proof (slab_inv_capacity _ _ _ HS) as Hcap.
      replace (max_members <? Mem.zlen (st_members st)) with false by (unfold Mem.zlen; lia).
      eexists; eexists; reflexivity. }
    assert (Hne : st_at st <> []) by congruence.
    destruct (scan_one md st) as [st1|e] eqn:E1; cbn [bind].
    + rewrite <- Ea. rewrite (scan_one_pre md st st1 E1). cbn [negb].
      destruct (scan_one_consumes md st st1 E1 Hne) as (sm & Hm & _).
      destruct (Z.eqb_spec j (Z.shiftl 16 (Z.of_nat w))) as [Hjf|Hjn].
      * destruct (Nat.eqb_spec w 22) as [Hw22|Hw22].
        -- (* "too many fields": the value-level scan goes on and, if it succeeds, has more than max_members members *)
           subst w. pose proof (proj1 (slab_inv_full _ _ HS) Hjf) as Hfull.
           destruct (scan_loop k md st1) as [st'|e'] eqn:Es; [|reflexivity].
           pose proof (scan_loop_members_mono _ _ _ _ Es) as Hmono. rewrite Hm in Hmono. cbn [length] in Hmono.
           replace (max_members <? Mem.zlen (st_members st')) with true by (unfold Mem.zlen; lia).
           reflexivity.
        -- (* a new slab *)
           assert (Hrun : exists id s', (doA o <- alloc nr (Z.shiftl 32 (Z.of_nat (S w) + 4));
                                         match o with None => ret None | Some id => ret (Some (S w, 0, slabs ++ [id])) end) s
                                        = (Some (S w, 0, slabs ++ [id]), s')) by (eexists; eexists; reflexivity).
           destruct Hrun as (id & s' & Hrun). rewrite (bnd_run _ _ _ _ _ _ _ Hrun). cbv beta iota.
           apply IH. rewrite Hm. cbn [length]. destruct HS as (Hc & Hw & Hj).
           rewrite Z.shiftl_mul_pow2 in Hjf by lia. unfold slab_inv.
           rewrite !Nat2Z.inj_succ, Z.pow_succ_r by lia.
           pose proof (pow2_le_22 w Hw). split; [lia|]. split; lia.
      * (* room in the current slab *)
        assert (Hrun : ret (Some (w, j, slabs)) s = (Some (w, j, slabs), s)) by reflexivity.
        rewrite (bnd_run _ _ _ _ _ _ _ Hrun). cbv beta iota.
        apply IH. rewrite Hm. cbn [length]. destruct HS as (Hc & Hw & Hj).
        rewrite Z.shiftl_mul_pow2 in Hjn by lia. unfold slab_inv.
        split; [lia|]. split; lia.
    + rewrite <- Ea. destruct (negb (scan_pre (st_at st))); [reflexivity|].
      unfold bnd.
      destruct (j =? Z.shiftl 16 (Z.of_nat w)); [destruct (Nat.eqb w 22); [reflexivity|]|]; reflexivity.
Qed.

End Scan.

(* ====================================================================== initial cells, arrays after the scan *)

Lemma init_cell_sim : forall f, sim_val (init_cell f) (h_init_cell f).
Proof.
  intros f. unfold init_cell, h_init_cell, has_default, sim_val, sim_val_, sim_ptr.
  destruct (f_type f); try exact I; destruct (f_default f) as [[w|x|x]|]; try exact I; split; try reflexivity; exact I.
Qed.

Lemma init_slot_sim : forall f, sim_slot (init_slot f) (h_init_slot f).
Proof.
  intros f. unfold init_slot, h_init_slot. destruct (f_label f); try reflexivity;
    (destruct (f_quant f); [split; [reflexivity | apply init_cell_sim] | split; [reflexivity | apply init_cell_sim]
                           | reflexivity | split; [reflexivity | apply init_cell_sim]]).
Qed.

(* a slot as the scan leaves it *)
Definition scanned_slot (f : field) (c : slot) : Prop :=
  if label_eqb (f_label f) LRepeated then exists n, c = SRep n 0 None else c = init_slot f.

Lemma h_alloc_slots_cons : forall f fs' bm (c : slot) cs' (h : hslot) hs',
  h_alloc_slots nr (f :: fs') bm (c :: cs') (h :: hs') =
  (doA r <- (match f_label f with
             | LRepeated =>
                 match c with
                 | SRep n _ _ =>
                     if n =? 0 then ret (true, h)
                     else doA o <- alloc nr (elt_size (f_type f) * u32 n);
                          match o with
                          | None => ret (false, h)
                          | Some id => ret (true, HRep (Some (id, [])))
                          end
                 | _ => ret (false, h)
                 end
             | LRequired =>
                 match f_default f with
                 | None => ret (hd false bm, h)
                 | Some _ => ret (true, h)
                 end
             | _ => ret (true, h)
             end);
   if fst r then
     doA r2 <- h_alloc_slots nr fs' (tl bm) cs' hs';
     ret (fst r2, snd r :: snd r2)
   else ret (false, snd r :: hs')).
Proof. reflexivity. Qed.

Lemma h_alloc_slots_sim : forall fs bm cs s, Forall2 scanned_slot fs cs ->
  match alloc_slots fs bm cs with
  | Ok ss => exists hss s', h_alloc_slots nr fs bm cs (map h_init_slot fs) s = (true, hss, s') /\ Forall2 sim_slot ss hss
  | Err _ => fst (fst (h_alloc_slots nr fs bm cs (map h_init_slot fs) s)) = false
  end.
Proof.
  induction fs as [|f fs IH]; intros bm cs s HF.
  - inversion HF; subst. cbn [alloc_slots map]. exists [], s. split; [reflexivity | constructor].
  - inversion HF as [|? c ? cs' Hc HF']; subst. cbn [map]. rewrite h_alloc_slots_cons. cbn [alloc_slots].
    (* this slot *)
    assert (Hone : match alloc_slot f (hd false bm) c with
                   | Ok s1 => exists h1 s', (match f_label f with
                                | LRepeated =>
                                    match c with
                                    | SRep n _ _ =>
                                        if n =? 0 then ret (true, h_init_slot f)
                                        else doA o <- alloc nr (elt_size (f_type f) * u32 n);
                                             match o with
                                             | None => ret (false, h_init_slot f)
                                             | Some id => ret (true, HRep (Some (id, [])))
                                             end
                                    | _ => ret (false, h_init_slot f)
                                    end
                                | LRequired =>
                                    match f_default f with
                                    | None => ret (hd false bm, h_init_slot f)
                                    | Some _ => ret (true, h_init_slot f)
                                    end
                                | _ => ret (true, h_init_slot f)
                                end) s = (true, h1, s') /\ sim_slot s1 h1
                   | Err _ => forall hs', fst (fst ((doA r <- (match f_label f with
                                | LRepeated =>
                                    match c with
                                    | SRep n _ _ =>
                                        if n =? 0 then ret (true, h_init_slot f)
                                        else doA o <- alloc nr (elt_size (f_type f) * u32 n);
                                             match o with
                                             | None => ret (false, h_init_slot f)
                                             | Some id => ret (true, HRep (Some (id, [])))
                                             end
                                    | _ => ret (false, h_init_slot f)
                                    end
                                | LRequired =>
                                    match f_default f with
                                    | None => ret (hd false bm, h_init_slot f)
                                    | Some _ => ret (true, h_init_slot f)
                                    end
                                | _ => ret (true, h_init_slot f)
                                end);
                               if fst r then
                                 doA r2 <- h_alloc_slots nr fs (tl bm) cs' hs';
                                 ret (fst r2, snd r :: snd r2)
                               else ret (false, snd r :: hs')) s)) = false
                   end).
    { unfold alloc_slot, scanned_slot in *. destruct (f_label f) eqn:EL; cbn [label_eqb] in Hc.
      - subst c. destruct (f_default f).
        + eexists; eexists. split; [reflexivity | apply init_slot_sim].
        + destruct (hd false bm).
          * eexists; eexists. split; [reflexivity | apply init_slot_sim].
          * intros hs'. reflexivity.
      - subst c. eexists; eexists. split; [reflexivity | apply init_slot_sim].
      - destruct Hc as [n ->]. destruct (Z.eqb_spec n 0) as [Hn|Hn].
        + eexists; eexists. split; [reflexivity|]. unfold h_init_slot. rewrite EL. exact Hn.
        + eexists; eexists. split; [reflexivity|]. apply sim_slot_rep. split; [reflexivity | constructor].
      - subst c. eexists; eexists. split; [reflexivity | apply init_slot_sim]. }
    destruct (alloc_slot f (hd false bm) c) as [s1|e1]; cbn [bind]; [|apply Hone].
    destruct Hone as (h1 & s' & Hrun & S1).
    rewrite (bnd_run _ _ _ _ _ _ _ Hrun). cbn [fst snd].
    specialize (IH (tl bm) cs' s' HF').
    destruct (alloc_slots fs (tl bm) cs') as [r|e]; cbn [bind].
    + destruct IH as (hss & s2 & Hrun2 & Sr). exists (h1 :: hss), s2.
      rewrite (bnd_run _ _ _ _ _ _ _ Hrun2). cbn [fst snd]. split; [reflexivity | constructor; assumption].
    + unfold bnd. destruct (h_alloc_slots nr fs (tl bm) cs' (map h_init_slot fs) s') as [[ok2 hss2] s2]. cbn [fst snd] in *.
      rewrite IH. reflexivity.
Qed.

(* ====================================================================== packed payloads store words *)

Lemma ppv_words : forall fuel t data vs, parse_packed_varints fuel t data = Ok vs -> Forall (fun v => exists w, v = VWord w) vs.
Proof.
  induction fuel as [|k IH]; intros t data vs H; destruct data as [|b r]; cbn [parse_packed_varints] in H; try discriminate H.
  - inversion H. constructor.
  - inversion H. constructor.
  - destruct (scan_varint _ _ =? 0); [discriminate H|].
    match type of H with bind ?X _ = _ => destruct X as [w|e1] end; cbn [bind] in H; [|discriminate H].
    match type of H with bind ?X _ = _ => destruct X as [r'|e2] eqn:Er end; cbn [bind] in H; [|discriminate H].
    inversion H. constructor; [eauto | exact (IH _ _ _ Er)].
Qed.

Lemma ppf_words : forall n width t wt data vs, parse_packed_fixed n width t wt data = Ok vs -> Forall (fun v => exists w, v = VWord w) vs.
Proof.
  induction n as [|k IH]; intros width t wt data vs H; cbn [parse_packed_fixed] in H.
  - inversion H. constructor.
  - match type of H with bind ?X _ = _ => destruct X as [w|e1] end; cbn [bind] in H; [|discriminate H].
    match type of H with bind ?X _ = _ => destruct X as [r'|e2] eqn:Er end; cbn [bind] in H; [|discriminate H].
    inversion H. constructor; [eauto | exact (IH _ _ _ _ _ Er)].
Qed.

Lemma packed_words : forall f sm vs, parse_packed f sm = Ok vs -> Forall (fun v => exists w, v = VWord w) vs.
Proof.
  intros f sm vs H. unfold parse_packed in H.
  destruct (f_type f); try discriminate H; try exact (ppf_words _ _ _ _ _ _ H); exact (ppv_words _ _ _ _ H).
Qed.

Lemma words_sim : forall vs, Forall (fun v => exists w, v = VWord w) vs -> Forall2 sim_val vs (map (fun _ : sval => HScalar) vs).
Proof. intros vs H. induction H as [|v t (w & ->) H IH]; cbn [map]; constructor; [exact I | exact IH]. Qed.

(* ---------- appending to an array *)
Lemma append_sim : forall n cap arr hs vs hvs, sim_slot (SRep n cap arr) hs -> Forall2 sim_val vs hvs ->
  match append_elems (SRep n cap arr) vs with
  | Ok s' => exists hs', h_append hs hvs = (true, hs') /\ sim_slot s' hs'
  | Err e => fst (h_append hs hvs) = false \/ e = EOob
  end.
Proof.
  intros n cap arr hs vs hvs Ss Sv. unfold append_elems, h_append.
  destruct arr as [l|]; destruct hs as [?|[[aid el]|]|?]; try contradiction.
  - apply sim_slot_rep in Ss. destruct Ss as [Hn Fl].
    destruct (n + zlen vs <=? cap); [|right; reflexivity].
    eexists. split; [reflexivity|]. apply sim_slot_rep. split.
    + subst n. unfold zlen. rewrite app_length. lia.
    + apply Forall2_app; assumption.
  - destruct Sv as [|v hv vs hvs Hv Sv].
    + cbn [zlen length Z.of_nat Z.eqb]. eexists. split; [reflexivity | exact Ss].
    + replace (zlen (v :: vs) =? 0) with false by (unfold zlen; cbn [length]; lia). left. reflexivity.
Qed.

(* ====================================================================== parsing members *)

Lemma dt_member : forall ms sm, In sm ms -> Mem.zlen (sm_data sm) + 1 <= data_total ms + Z.of_nat (length ms).
Proof.
  induction ms as [|x t IH]; intros sm Hin; [contradiction|]. cbn [data_total length].
  pose proof (data_total_nonneg t). destruct Hin as [->|Hin]; [unfold Mem.zlen; lia|].
  specialize (IH sm Hin). unfold Mem.zlen in *. lia.
Qed.

(* the two models take the same decision on one step, and build similar messages *)
Definition agree_m (r : res msg) (c : A (bool * hmsg)) (s : hst) : Prop :=
  match r with
  | Ok m' => exists hm' s', c s = (true, hm', s') /\ sim_msg m' hm'
  | Err _ => fst (fst (c s)) = false
  end.

Section ParseSim.
Variable E : env.
Hypothesis EO : env_ok E = true.
Notation shp := (shape_msg E).
Notation gd := (good_msg E).

Variable N : Z.
Hypothesis HN : N < 2147483648.

(* what is known about parsing embedded messages (induction hypotheses of the top-level theorem) *)
Variable usub : nat -> list Z -> res msg.
Variable husub : nat -> list Z -> A (option hmsg).
Hypothesis Husub : forall d' payload, LeafSafe.bytes payload -> Mem.zlen payload < N -> (d' < length E)%nat ->
  okres (fun m' => shp m' = true /\ m_desc m' = d') (usub d' payload).
Hypothesis HusubG : forall d' payload m', LeafSafe.bytes payload -> Mem.zlen payload < N -> (d' < length E)%nat ->
  usub d' payload = Ok m' -> gd (Mem.zlen payload) m' = true.
Hypothesis HusubS : forall d' payload s, LeafSafe.bytes payload -> Mem.zlen payload < N -> (d' < length E)%nat ->
  match usub d' payload, fst (husub d' payload s) with
  | Ok m, Some hm => sim_msg m hm
  | Err _, None => True
  | _, _ => False
  end.

Variable d : nat.
Variable md : mdesc.
Hypothesis Hmd : nth_error E d = Some md.
Notation fs := (md_fields md).
Notation nun := (md_n_oneofs md).

Let Dmd' : desc_ok (length E) md = true := env_desc_ok E EO d md Hmd.

(* ---------- parse_required_member *)
Lemma parse_required_sim : forall f sm old hold mc Bo s,
  In f fs -> member_ok md sm -> sm_len sm < N -> 0 <= Bo ->
  ((cell_shape shp f old = true /\ gcell (gd Bo) f false old = true) \/ old = VWord 0) -> sim_val old hold ->
  match parse_required E usub f sm old mc with
  | Ok v => exists hv s', h_parse_required E nr husub f sm hold mc s = (true, hv, s') /\ sim_val v hv
  | Err _ => fst (fst (h_parse_required E nr husub f sm hold mc s)) = false
  end.
Proof.
  intros f sm old hold mc Bo s Hin (HB & Hl & Hp & Hl1 & _) HlN HBo Hold Sold.
  destruct (field_facts E EO d md Hmd f Hin) as (Hok & Hid & Hsub).
  unfold parse_required, h_parse_required.
  destruct (f_type f) eqn:Et.
  15:{ (* string *)
    destruct (negb (sm_wt sm =? WT_LEN)); [reflexivity|].
    destruct (unit_run (if mc then free_if_owned f (as_hstr hold) else ret tt) s) as [s1 H1].
    eexists; eexists. split; [unfold bnd; rewrite H1; reflexivity | exact I]. }
  15:{ (* bytes *)
    destruct (negb (sm_wt sm =? WT_LEN)); [reflexivity|].
    destruct (unit_run (if mc then free_if_owned f (snd (as_hbytes hold)) else ret tt) s) as [s1 H1].
    destruct (sm_len sm >? sm_pref sm).
    - eexists; eexists. split; [unfold bnd; rewrite H1; reflexivity | split; [reflexivity | exact I]].
    - eexists; eexists. split; [unfold bnd; rewrite H1; reflexivity | split; [reflexivity | exact I]]. }
  15:{ (* sub-message *)
    destruct (negb (sm_wt sm =? WT_LEN)); [reflexivity|].
    set (payload := skipn (Z.to_nat (sm_pref sm)) (sm_data sm)).
    assert (HBp : LeafSafe.bytes payload) by (apply bytes_skipn; exact HB).
    assert (Hpl : Mem.zlen payload < N) by (unfold payload, Mem.zlen in *; rewrite skipn_length; lia).
    pose proof (Husub (f_sub f) payload HBp Hpl (Hsub eq_refl)) as HS.
    pose proof (HusubS (f_sub f) payload s HBp Hpl (Hsub eq_refl)) as HSim.
    pose proof (HusubG (f_sub f) payload) as HG.
    destruct (husub (f_sub f) payload s) as [osub s1] eqn:Eh. cbn [fst] in HSim.
    destruct (usub (f_sub f) payload) as [sub|e] eqn:Eu; cbn [bind okres] in *.
    2:{ destruct osub; [contradiction|]. unfold bnd. rewrite Eh.
        destruct (if mc then hold else HScalar) as [| | |[em|]]; try reflexivity.
        destruct (unit_run (h_free E em) s1) as [s2 H2]. rewrite H2. reflexivity. }
    destruct osub as [hsub|]; [|contradiction]. destruct HS as [Ss Ds].
    specialize (HG sub HBp Hpl (Hsub eq_refl) eq_refl).
    destruct mc.
    2:{ eexists; eexists. split; [unfold bnd; rewrite Eh; reflexivity | exact HSim]. }
    destruct Hold as [[Hc Hg] | ->].
    2:{ destruct hold; try contradiction. cbn [as_msg bind].
        eexists; eexists. split; [unfold bnd; rewrite Eh; reflexivity | exact HSim]. }
    unfold cell_shape in Hc. unfold gcell in Hg. rewrite Et in Hc, Hg.
    destruct old as [| | |[om|]]; try discriminate Hc; cbn [as_msg bind].
    2:{ destruct hold as [| | |[?|]]; try contradiction.
        eexists; eexists. split; [unfold bnd; rewrite Eh; reflexivity | exact HSim]. }
    destruct hold as [| | |[hom|]]; try contradiction.
    apply andb_true_iff in Hc, Hg. destruct Hc as [Hos Hod], Hg as [Hog _]. apply Nat.eqb_eq in Hod.
    destruct (merge_sim E EO sub om hom hsub s1 Bo (Mem.zlen payload) Hos Ss ltac:(congruence) Hog HG Sold HSim)
      as (m & hem' & hlm' & s2 & Hm & Hh & Sm).
    rewrite Hm. cbn [bind].
    destruct (unit_run (h_free E hem') s2) as [s3 H3].
    exists (HMsg (Some hlm')), s3. split; [unfold bnd; rewrite Eh, Hh, H3; reflexivity | exact Sm]. }
  all: destruct (dec_scalar _ (sm_wt sm) (sm_len sm) (sm_data sm)); cbn [bind];
    [eexists; eexists; split; [reflexivity | exact I] | reflexivity].
Qed.

(* ---------- the members the scan recorded *)
Variable Ms : list smember.
Hypothesis HMs : Forall (member_ok md) Ms.
Hypothesis HMsN : data_total Ms + Z.of_nat (length Ms) <= N.
Hypothesis HMx : Forall (member_extra md) Ms.

Notation pinv' := (pinv E d md Ms).
Notation vinv' := (vinv E md).

Lemma step_ok : forall sm done m,
  In sm Ms -> (forall x, In x done -> In x Ms) -> (forall i, total md i (sm :: done) <= total md i Ms) -> pinv' done m ->
  okres (pinv' (sm :: done)) (parse_member E usub md sm m).
Proof.
  exact (parse_member_step E EO parse_tag_range_bytes count_packed_elements_le_len parse_packed_words parse_packed_err
           (merge_shape E EO) N HN usub Husub d md Hmd Ms HMs HMsN).
Qed.

Lemma member_len_N : forall sm, In sm Ms -> sm_len sm < N.
Proof.
  intros sm Hin. pose proof (proj1 (Forall_forall _ _) HMs sm Hin) as (_ & Hl & _).
  pose proof (dt_member Ms sm Hin). lia.
Qed.

(* the storage of a oneof before the new member is stored: cleared when another member was set *)
Lemma cell0_sim : forall sm f g case cell hcell Bo s,
  In f fs -> f_quant f = QCase g -> f_id f = sm_tag sm ->
  union_shape shp fs g (case, cell) = true -> gunion (gd Bo) fs g (case, cell) = true -> sim_val cell hcell ->
  match (if negb (case =? 0) && negb ((case =? sm_tag sm) && ftype_eqb (f_type f) TMessage)
         then match find_field md case with None => Err EFail | Some _ => Ok (VWord 0) end
         else Ok cell) with
  | Ok c0 =>
      ((cell_shape shp f c0 = true /\ gcell (gd Bo) f false c0 = true) \/ c0 = VWord 0) /\
      exists hc0 s',
        (if negb (case =? 0) && negb ((case =? sm_tag sm) && ftype_eqb (f_type f) TMessage) then
           match find_field md case with
           | None => ret None
           | Some idx =>
               match nth_error (md_fields md) idx with
               | None => ret None
               | Some old_f =>
                   doA _ <- (match f_type old_f with
                             | TString => free_if_owned old_f (as_hstr hcell)
                             | TBytes => free_if_owned old_f (snd (as_hbytes hcell))
                             | TMessage => match hcell with HMsg (Some om) => h_free E om | _ => ret tt end
                             | _ => ret tt
                             end);
                   ret (Some HScalar)
               end
           end
         else ret (Some hcell)) s = (Some hc0, s') /\ sim_val c0 hc0
  | Err _ =>
      exists s',
        (if negb (case =? 0) && negb ((case =? sm_tag sm) && ftype_eqb (f_type f) TMessage) then
           match find_field md case with
           | None => ret None
           | Some idx =>
               match nth_error (md_fields md) idx with
               | None => ret None
               | Some old_f =>
                   doA _ <- (match f_type old_f with
                             | TString => free_if_owned old_f (as_hstr hcell)
                             | TBytes => free_if_owned old_f (snd (as_hbytes hcell))
                             | TMessage => match hcell with HMsg (Some om) => h_free E om | _ => ret tt end
                             | _ => ret tt
                             end);
                   ret (Some HScalar)
               end
           end
         else ret (Some hcell)) s = (@None hval, s')
  end.
Proof.
  intros sm f g case cell hcell Bo s Hinf Hq Hid Hcs Hgs Sc.
  destruct (negb (case =? 0) && negb ((case =? sm_tag sm) && ftype_eqb (f_type f) TMessage)) eqn:Ec.
  - destruct (find_field md case) as [idx|] eqn:Eff; [|exists s; reflexivity].
    destruct (find_field_sound E md Dmd' parse_tag_range_bytes case idx Eff) as (f' & Hf' & _). rewrite Hf'.
    split; [right; reflexivity|].
    match goal with |- context [bnd ?c _ s] => destruct (unit_run c s) as [s1 H1] end.
    exists HScalar, s1. split; [unfold bnd; rewrite H1; reflexivity | exact I].
  - split; [|exists hcell, s; split; [reflexivity | exact Sc]].
    apply andb_false_iff in Ec. destruct Ec as [Ec|Ec].
    + apply negb_false_iff in Ec. apply Z.eqb_eq in Ec. subst case. right. exact (unset_cell E md Dmd' g cell Hcs).
    + apply negb_false_iff in Ec. apply andb_true_iff in Ec. destruct Ec as [Ec1 Ec2]. apply Z.eqb_eq in Ec1. subst case.
      left.
      destruct (union_shape_inv E _ _ _ _ Hcs) as [[H0 _]|(f0 & Hf0 & Hid0 & _ & _ & Hc0)].
      { destruct (desc_ok_fields _ md Dmd' f Hinf) as (_ & Hr & _). lia. }
      assert (f0 = f) by (apply (field_unique E md Dmd'); [assumption | assumption | congruence]). subst f0.
      destruct (gunion_inv _ _ _ _ _ Hgs) as [[H0 _]|(f1 & Hf1 & Hid1 & _ & _ & Hg1)].
      { destruct (desc_ok_fields _ md Dmd' f Hinf) as (_ & Hr & _). lia. }
      assert (f1 = f) by (apply (field_unique E md Dmd'); [assumption | assumption | congruence]). subst f1.
      split; assumption.
Qed.

(* ---------- one member *)
Lemma parse_member_sim : forall sm done m hm s,
  In sm Ms -> (forall x, In x done -> In x Ms) -> (forall i, total md i (sm :: done) <= total md i Ms) ->
  pinv' done m -> vinv' done m -> sim_msg m hm ->
  agree_m (parse_member E usub md sm m) (h_parse_member E nr husub md sm hm) s.
Proof.
  intros sm done [d' slots unions unk] [id hd hslots hunions ut hunk] s Hin Hdone Htot HP HV Sm.
  pose proof (step_ok sm done _ Hin Hdone Htot HP) as HS.
  pose proof HP as (Hd & Hlen & Hslots & Hun & Hus).
  pose proof HV as (VS & VU & VK).
  apply sim_msg_eq in Sm. destruct Sm as (<- & Fsl & Fun & Luk).
  assert (Hmok : member_ok md sm) by (exact (proj1 (Forall_forall _ _) HMs sm Hin)).
  pose proof (member_len_N sm Hin) as HlN.
  pose proof (data_total_nonneg done) as HBo.
  unfold parse_member in *. unfold h_parse_member. unfold hslot in *.
  destruct (sm_field sm) as [i|] eqn:Ef.
  2:{ unfold agree_m. eexists; eexists. split; [unfold bnd; rewrite alloc_nr; reflexivity|].
      apply sim_msg_eq. split; [reflexivity|]. split; [exact Fsl|]. split; [exact Fun|]. rewrite !app_length. cbn [length]. lia. }
  pose proof Hmok as (HB & Hl & Hp & Hl1 & Hfield & Hpok).
  destruct (Hfield i Ef) as (f & Hn & Hid). rewrite Hn in *.
  destruct (Hslots i f Hn) as (sl & Hs & Hsi). rewrite Hs in *.
  destruct (F2_nth_l _ _ _ _ _ Fsl i sl Hs) as (hsl & Hhs & Ssl). unfold hslot in *. rewrite Hhs.
  assert (Hinf : In f fs) by (eapply nth_error_In; exact Hn).
  pose proof (VS i f sl Hn Hs) as Vsl.
  (* a singular member outside any oneof *)
  assert (Hone : forall h old hold (hq : bool -> Z) h', sl = SOne h old -> hsl = HOne h hold ->
            slot_shape shp nun f sl = true -> hq true = h' ->
            agree_m (do v <- parse_required E usub f sm old true; Ok (Msg d' (set_nth slots i (SOne h' v)) unions unk))
                    (doA r <- h_parse_required E nr husub f sm hold true;
                     ret (fst r, HM id d' (set_nth hslots i (HOne (hq (fst r)) (snd r))) hunions ut hunk)) s).
  { intros h old hold hq h' -> -> Hsh Hhq. destruct Ssl as [_ Sold].
    destruct (sone_shape _ _ _ _ _ Hsh) as (_ & _ & _ & Hc). cbn [vslot] in Vsl. destruct Vsl as [Hg _].
    pose proof (parse_required_sim f sm old hold true (data_total done) s Hinf Hmok HlN HBo (or_introl (conj Hc Hg)) Sold) as HR.
    unfold agree_m. destruct (parse_required E usub f sm old true) as [v|e]; cbn [bind].
    - destruct HR as (hv & s' & Hrun & Sv). eexists; eexists.
      split; [rewrite (bnd_run _ _ _ _ _ _ _ Hrun); cbn [fst snd]; rewrite Hhq; reflexivity|].
      apply sim_msg_eq. split; [reflexivity|]. split; [|split; assumption].
      apply F2_set_nth; [exact Fsl | split; [reflexivity | exact Sv]].
    - unfold bnd. destruct (h_parse_required E nr husub f sm hold true s) as [[ok hv] s']. cbn [fst snd] in *. subst ok. reflexivity. }
  (* optional and implicit-presence members run the same code *)
  match goal with
  | |- agree_m (match f_label f with LRequired => _ | LOptional => ?VO | LRepeated => _ | LNone => _ end)
               (match f_label f with LRequired => _ | LOptional => ?HO | LRepeated => _ | LNone => _ end) s =>
      assert (Hopt : label_eqb (f_label f) LRepeated = false -> agree_m VO HO s)
  end.
  { intros Er. unfold slot_inv in Hsi. rewrite Er in Hsi.
    destruct sl as [h old|n c a|g]; destruct hsl as [h2 hold|harr|g2]; try contradiction;
      try (destruct a; contradiction).
    - destruct (sone_shape _ _ _ _ _ Hsi) as (_ & _ & Ho & _). rewrite Ho. pose proof Ssl as [<- _].
      exact (Hone h old hold (fun b : bool => if b then match f_quant f with QNone => h | _ => 1 end else h) _ eq_refl eq_refl Hsi eq_refl).
    - destruct (f_oneof f); reflexivity.
    - unfold sim_slot, sim_slot_ in Ssl. subst g2.
      destruct (sunion_shape _ _ _ _ Hsi) as (Eq & Ho & Hg). rewrite Ho.
      destruct (nth_error unions g) as [[case cell]|] eqn:Eu; [|apply nth_error_None in Eu; lia].
      destruct (F2_nth_l _ _ _ _ _ Fun g _ Eu) as ([hcase hcell] & Ehu & [Hcase Scell]). cbn [fst snd] in Hcase, Scell. subst hcase.
      rewrite Ehu.
      pose proof (unions_shape_nth' E fs unions 0 g (case, cell) Hus Eu) as Hcs. cbn [plus] in Hcs.
      pose proof (VU g (case, cell) Eu) as Hgs.
      pose proof (cell0_sim sm f g case cell hcell (data_total done) s Hinf Eq Hid Hcs Hgs Scell) as HC.
      unfold agree_m.
      match type of HC with match ?X with _ => _ end => destruct X as [c0|e0] end; cbn [bind].
      2:{ destruct HC as (s' & Hrun). rewrite (bnd_run _ _ _ _ _ _ _ Hrun). reflexivity. }
      destruct HC as (Hc0 & hc0 & s' & Hrun & Sc0).
      pose proof (parse_required_sim f sm c0 hc0 true (data_total done) s' Hinf Hmok HlN HBo Hc0 Sc0) as HR.
      destruct (parse_required E usub f sm c0 true) as [v|e]; cbn [bind]; rewrite (bnd_run _ _ _ _ _ _ _ Hrun); cbv beta iota.
      + destruct HR as (hv & s2 & Hrun2 & Sv). eexists; eexists.
        split; [rewrite (bnd_run _ _ _ _ _ _ _ Hrun2); cbn [fst snd]; reflexivity|].
        apply sim_msg_eq. split; [reflexivity|]. split; [exact Fsl|]. split; [|exact Luk].
        apply F2_set_nth; [exact Fun | split; [reflexivity | exact Sv]].
      + unfold bnd. destruct (h_parse_required E nr husub f sm hc0 true s') as [[ok hv] s2]. cbn [fst snd] in *. subst ok. reflexivity. }
  destruct (f_label f) eqn:El.
  - (* required *)
    unfold slot_inv in Hsi. rewrite El in Hsi. cbn [label_eqb] in Hsi.
    destruct sl as [h old|n c a|g]; destruct hsl as [h2 hold|harr|g2]; try contradiction; try (destruct a; contradiction);
      try reflexivity.
    pose proof Ssl as [<- _].
    exact (Hone h old hold (fun _ : bool => h) _ eq_refl eq_refl Hsi eq_refl).
  - apply Hopt. reflexivity.
  - (* repeated *)
    clear Hopt Hone. unfold slot_inv in Hsi. rewrite ?El in Hsi. cbn [label_eqb] in Hsi. destruct Hsi as (n & arr & -> & Harr).
    assert (exists harr, hsl = HRep harr) as [harr ->].
    { destruct arr; destruct hsl as [?|a|?]; try contradiction; eauto. }
    destruct (packed_arrival f (sm_wt sm)) eqn:Epa.
    + destruct (parse_packed f sm) as [vs|e] eqn:Epp; cbn [bind] in *; [|reflexivity].
      pose proof (append_sim n _ arr _ vs _ Ssl (words_sim vs (packed_words f sm vs Epp))) as HA.
      destruct (append_elems (SRep n (total md i Ms) arr) vs) as [s1|e] eqn:Eapp; cbn [bind] in *.
      * destruct HA as (hs' & Hh & Ss'). rewrite Hh. unfold agree_m. eexists; eexists. split; [reflexivity|].
        apply sim_msg_eq. split; [reflexivity|]. split; [|split; assumption]. apply F2_set_nth; assumption.
      * destruct HA as [HA| ->]; [|rewrite ?Eapp in HS; cbn [bind okres] in HS; discriminate HS].
        unfold agree_m. destruct (h_append (HRep harr) (map (fun _ : sval => HScalar) vs)) as [ok hs']. cbn [fst] in HA. subst ok. reflexivity.
    + pose proof (parse_required_sim f sm (VWord 0) HScalar false 0 s Hinf Hmok HlN ltac:(lia) (or_intror eq_refl) I) as HR.
      destruct (parse_required E usub f sm (VWord 0) false) as [v|e] eqn:Epr; cbn [bind] in *.
      2:{ unfold agree_m, bnd. destruct (h_parse_required E nr husub f sm HScalar false s) as [[ok hv] s']. cbn [fst snd] in *. subst ok. reflexivity. }
      destruct HR as (hv & s' & Hrun & Sv).
      pose proof (append_sim n _ arr _ [v] [hv] Ssl ltac:(constructor; [exact Sv | constructor])) as HA.
      unfold agree_m. rewrite (bnd_run _ _ _ _ _ _ _ Hrun). cbn [fst snd].
      destruct (append_elems (SRep n (total md i Ms) arr) [v]) as [s1|e] eqn:Eapp; cbn [bind] in *.
      * destruct HA as (hs' & Hh & Ss'). rewrite Hh. unfold agree_m. eexists; eexists. split; [reflexivity|].
        apply sim_msg_eq. split; [reflexivity|]. split; [|split; assumption]. apply F2_set_nth; assumption.
      * destruct HA as [HA| ->]; [|rewrite ?Eapp in HS; cbn [bind okres] in HS; discriminate HS].
        unfold agree_m. destruct (h_append (HRep harr) [hv]) as [ok hs']. cbn [fst] in HA. subst ok. reflexivity.
  - apply Hopt. reflexivity.
Qed.

(* ---------- all members, in arrival order *)
Lemma parse_members_sim : forall rest done m hm s,
  rev done ++ rest = rev Ms -> pinv' done m -> vinv' done m -> sim_msg m hm ->
  agree_m (parse_members E usub md rest m) (h_parse_members E nr husub md rest hm) s.
Proof.
  induction rest as [|sm t IH]; intros done m hm s Hsplit HP HV Sm; cbn [parse_members h_parse_members].
  - unfold agree_m. exists hm, s. split; [reflexivity | exact Sm].
  - assert (HinR : forall x, In x (rev done ++ sm :: t) -> In x Ms).
    { intros x Hx. rewrite Hsplit in Hx. apply in_rev. exact Hx. }
    assert (Hin : In sm Ms) by (apply HinR; apply in_or_app; right; left; reflexivity).
    assert (Hdone : forall x, In x done -> In x Ms).
    { intros x Hx. apply HinR. apply in_or_app. left. apply in_rev in Hx. exact Hx. }
    assert (Ht : forall x, In x t -> In x Ms).
    { intros x Hx. apply HinR. apply in_or_app. right. right. exact Hx. }
    assert (Htot : forall i, total md i (sm :: done) <= total md i Ms).
    { intros i. rewrite <- (total_rev md i Ms), <- Hsplit, total_app, total_rev. cbn [total].
      pose proof (total_nonneg E parse_tag_range_bytes count_packed_elements_le_len parse_packed_words parse_packed_err N HN usub Husub d md Ms HMs HMsN t i Ht). lia. }
    pose proof (parse_member_sim sm done m hm s Hin Hdone Htot HP HV Sm) as H1. unfold agree_m in H1.
    pose proof (step_ok sm done m Hin Hdone Htot HP) as HP1.
    pose proof (parse_member_good E EO N HN usub Husub HusubG d md Hmd Ms HMs HMsN HMx sm done m) as HV1.
    destruct (parse_member E usub md sm m) as [m1|e1]; cbn [bind okres] in *.
    + destruct H1 as (hm1 & s1 & Hrun & Sm1). specialize (HV1 m1 Hin Hdone HP HV eq_refl).
      specialize (IH (sm :: done) m1 hm1 s1 ltac:(cbn [rev]; rewrite <- app_assoc; exact Hsplit) HP1 HV1 Sm1).
      unfold agree_m in *. rewrite (bnd_run _ _ _ _ _ _ _ Hrun). cbn [fst snd]. exact IH.
    + unfold agree_m, bnd. cbv beta. destruct (h_parse_member E nr husub md sm hm s) as [[ok hm1] s1]. cbn [fst snd] in *. subst ok. reflexivity.
Qed.

End ParseSim.

(* ====================================================================== protobuf_c_message_unpack *)

Section Top.
Variable E : env.
Hypothesis EO : env_ok E = true.
Variable szmsg : nat -> Z.

Lemma h_unpack_S : forall k d data md, nth_error E d = Some md ->
  h_unpack E nr szmsg (S k) d data =
  (doA o <- alloc nr (szmsg d);
   match o with
   | None => ret None
   | Some id =>
       let nf := zlen (md_fields md) in
       doA bm <- (if 128 <? nf then
                    doA b <- alloc nr ((nf + 7) / 8);
                    match b with None => ret None | Some bid => ret (Some (Some bid)) end
                  else ret (Some None));
       match bm with
       | None => doA _ <- free_id id; ret None
       | Some bmid =>
           doA r <- h_scan nr (S (length data)) md (st_init d md data) 0%nat 0 [];
           let '(ok, st, slabs) := r in
           let cleanup : A unit := doA _ <- iterA free_id slabs; free_opt bmid in
           if negb ok then doA _ <- free_id id; doA _ <- cleanup; ret None else
           doA r2 <- h_alloc_slots nr (md_fields md) (st_bitmap st) (st_slots st) (map h_init_slot (md_fields md));
           let m1 := HM id d (snd r2) (repeat (0, HScalar) (md_n_oneofs md)) None [] in
           if negb (fst r2) then doA _ <- h_free E m1; doA _ <- cleanup; ret None else
           doA r3 <- (if st_nunk st =? 0 then ret (true, None)
                      else doA t <- alloc nr (st_nunk st * 24);
                           match t with None => ret (false, None) | Some tid => ret (true, Some tid) end);
           let m2 := HM id d (snd r2) (repeat (0, HScalar) (md_n_oneofs md)) (snd r3) [] in
           if negb (fst r3) then doA _ <- h_free E m2; doA _ <- cleanup; ret None else
           doA r4 <- h_parse_members E nr (h_unpack E nr szmsg k) md (rev (st_members st)) m2;
           if fst r4 then doA _ <- cleanup; ret (Some (snd r4))
           else doA _ <- h_free E (snd r4); doA _ <- cleanup; ret None
       end
   end).
Proof. intros k d data md H. cbn [h_unpack]. rewrite H. reflexivity. Qed.

Theorem h_unpack_sim : forall fuel d data s,
  LeafSafe.bytes data -> Mem.zlen data < 2147483648 -> (d < length E)%nat -> (length data < fuel)%nat ->
  match unpack E fuel d data, fst (h_unpack E nr szmsg fuel d data s) with
  | Ok m, Some hm => sim_msg m hm
  | Err _, None => True
  | _, _ => False
  end.
Proof.
  induction fuel as [|k IH]; intros d data s HB HN31 Hd Hf; [lia|].
  destruct (nth_error E d) as [md|] eqn:Hmd; [|apply nth_error_None in Hmd; lia].
  pose proof (env_desc_ok E EO d md Hmd) as D.
  rewrite (unpack_unfold E k d md data Hmd), (h_unpack_S k d data md Hmd).
  rewrite (bnd_run _ _ _ _ _ _ _ (alloc_nr _ _)). cbv beta iota zeta.
  match goal with |- context [bnd ?c _ ?s0] =>
    assert (Hbm : exists bmid s1, c s0 = (Some bmid, s1)) by (destruct (128 <? zlen (md_fields md)); eexists; eexists; reflexivity)
  end.
  destruct Hbm as (bmid & s1 & Hbm). rewrite (bnd_run _ _ _ _ _ _ _ Hbm). cbv beta iota.
  pose proof (init_scan_inv E d md data HB) as I0.
  pose proof (h_scan_sim md (S (length data)) (st_init d md data) 0%nat 0 [] s1
                ltac:(unfold slab_inv; cbn [st_init st_members length]; change (2 ^ Z.of_nat 0) with 1; lia)) as Hscan.
  destruct (scan_loop (S (length data)) md (st_init d md data)) as [st|e] eqn:Es; cbn [bind].
  2:{ destruct (h_scan nr (S (length data)) md (st_init d md data) 0 0 [] s1) as [[[ok st'] slabs] s2] eqn:Eh. cbn [fst] in Hscan. subst ok.
      rewrite (bnd_run _ _ _ _ _ _ _ Eh). cbv beta iota. cbn [negb]. rewrite none_after2. exact I. }
  (* "too many fields": both models reject *)
  destruct (max_members <? Mem.zlen (st_members st)) eqn:Hmax.
  { destruct (h_scan nr (S (length data)) md (st_init d md data) 0 0 [] s1) as [[[ok st'] slabs] s2] eqn:Eh. cbn [fst] in Hscan. subst ok.
    rewrite (bnd_run _ _ _ _ _ _ _ Eh). cbv beta iota. cbn [negb]. rewrite none_after2. exact I. }
  destruct Hscan as (slabs & s2 & Hrun). rewrite (bnd_run _ _ _ _ _ _ _ Hrun). cbv beta iota. cbn [negb].
  destruct (scan_loop_inv' E md D parse_tag_range_bytes count_packed_elements_le_len (Mem.zlen data) _ _ st ltac:(lia) Es I0)
    as ((HB' & HL & HMok & HDt & HSl) & Hat).
  assert (HX : Forall (member_extra md) (st_members st)).
  { apply (scan_loop_extra E md (Mem.zlen data) D ltac:(lia) _ _ _ Es I0). constructor. }
  assert (HMsN : data_total (st_members st) + Z.of_nat (length (st_members st)) <= Mem.zlen data).
  { rewrite Hat in HDt. change (Mem.zlen (@nil Z)) with 0 in HDt. lia. }
  assert (Husub : forall d' payload, LeafSafe.bytes payload -> Mem.zlen payload < Mem.zlen data -> (d' < length E)%nat ->
            okres (fun m' => shape_msg E m' = true /\ m_desc m' = d') (unpack E k d' payload)).
  { intros d' payload HBp Hlp Hd'. apply (unpack_safe E EO); try assumption; unfold Mem.zlen in *; lia. }
  assert (HusubG : forall d' payload m', LeafSafe.bytes payload -> Mem.zlen payload < Mem.zlen data -> (d' < length E)%nat ->
            unpack E k d' payload = Ok m' -> good_msg E (Mem.zlen payload) m' = true).
  { intros d' payload m' HBp Hlp Hd' Hu. apply (unpack_good E EO k d' payload m'); try assumption; unfold Mem.zlen in *; lia. }
  assert (HusubS : forall d' payload s', LeafSafe.bytes payload -> Mem.zlen payload < Mem.zlen data -> (d' < length E)%nat ->
            match unpack E k d' payload, fst (h_unpack E nr szmsg k d' payload s') with
            | Ok m, Some hm => sim_msg m hm
            | Err _, None => True
            | _, _ => False
            end).
  { intros d' payload s' HBp Hlp Hd'. apply IH; try assumption; unfold Mem.zlen in *; lia. }
  (* arrays *)
  assert (HF : Forall2 scanned_slot (md_fields md) (st_slots st)).
  { destruct HSl as [HSlen HSl]. apply F2_pointwise; [symmetry; exact HSlen|].
    intros i f c Hfi Hc. rewrite (HSl i f Hfi) in Hc. inversion Hc. unfold scanned_slot.
    destruct (label_eqb (f_label f) LRepeated); [eexists; reflexivity | reflexivity]. }
  pose proof (h_alloc_slots_sim (md_fields md) (st_bitmap st) (st_slots st) s2 HF) as Hal.
  pose proof (alloc_pinv E EO parse_tag_range_bytes count_packed_elements_le_len parse_packed_words parse_packed_err
                (Mem.zlen data) HN31 (unpack E k) Husub d md Hmd (st_members st) HMok HMsN (st_slots st) (st_bitmap st) HSl) as HP0.
  pose proof (alloc_vinv E EO d md Hmd (st_members st) (st_slots st) (st_bitmap st)) as HV0.
  destruct (alloc_slots (md_fields md) (st_bitmap st) (st_slots st)) as [slots|e] eqn:Ea; cbn [bind okres] in *.
  2:{ destruct (h_alloc_slots nr (md_fields md) (st_bitmap st) (st_slots st) (map h_init_slot (md_fields md)) s2) as [[ok2 hss] s3] eqn:Eh.
      cbn [fst] in Hal. subst ok2. rewrite (bnd_run _ _ _ _ _ _ _ Eh). cbn [fst snd negb]. rewrite none_after2. exact I. }
  destruct Hal as (hss & s3 & Hrun2 & Fss). rewrite (bnd_run _ _ _ _ _ _ _ Hrun2). cbn [fst snd negb].
  specialize (HV0 slots HSl eq_refl).
  (* the unknown-field table *)
  match goal with |- context [bnd ?c _ s3] =>
    assert (Hut : exists ut s4, c s3 = (true, ut, s4)) by (destruct (st_nunk st =? 0); eexists; eexists; reflexivity)
  end.
  destruct Hut as (ut & s4 & Hut). rewrite (bnd_run _ _ _ _ _ _ _ Hut). cbn [fst snd negb].
  (* the members *)
  assert (Sm2 : sim_msg (Msg d slots (repeat (0, VWord 0) (md_n_oneofs md)) [])
                        (HM (h_next s) d hss (repeat (0, HScalar) (md_n_oneofs md)) ut [])).
  { apply sim_msg_eq. split; [reflexivity|]. split; [exact Fss|]. split; [|reflexivity].
    apply F2_repeat. split; [reflexivity | exact I]. }
  pose proof (parse_members_sim E EO (Mem.zlen data) HN31 (unpack E k) (h_unpack E nr szmsg k) Husub HusubG HusubS d md Hmd
                (st_members st) HMok HMsN HX (rev (st_members st)) [] _ _ s4 ltac:(reflexivity) HP0 HV0 Sm2) as Hpm.
  unfold agree_m in Hpm.
  destruct (parse_members E (unpack E k) md (rev (st_members st)) (Msg d slots (repeat (0, VWord 0) (md_n_oneofs md)) [])) as [m'|e].
  - destruct Hpm as (hm' & s5 & Hrun4 & Sm'). rewrite (bnd_run _ _ _ _ _ _ _ Hrun4). cbn [fst snd].
    match goal with |- context [bnd ?c (fun _ => ?k0) s5] => destruct (fst_bnd_unit _ c k0 s5) as [s6 ->] end.
    exact Sm'.
  - match type of Hpm with fst (fst (?c s4)) = false => destruct (c s4) as [[ok4 hm4] s5] eqn:Eh end.
    cbn [fst] in Hpm. subst ok4. rewrite (bnd_run _ _ _ _ _ _ _ Eh). cbn [fst snd]. rewrite none_after2. exact I.
Qed.

End Top.

(* ====================================================================== closed statements *)

(* When no allocation is refused, the allocation-level model accepts exactly the inputs the value-level model accepts,
   and the heap message it returns has the shape of the value message.  The state s is arbitrary.
   (The bound on the input is the one of the other theorems about unpack, < 2^31 bytes: the "too many fields" limit of
   the 23 slabs is in both models, see the head of this file.) *)
Theorem h_unpack_simulates : forall (E : env) (szmsg : nat -> Z) fuel d data s,
  env_ok E = true -> LeafSafe.bytes data -> Mem.zlen data < 2147483648 -> (d < length E)%nat -> (length data < fuel)%nat ->
  match unpack E fuel d data, fst (h_unpack E (fun _ => false) szmsg fuel d data s) with
  | Ok m, Some hm => sim_msg m hm
  | Err _, None => True
  | _, _ => False
  end.
Proof. intros E szmsg fuel d data s EO HB HN Hd Hf. exact (h_unpack_sim E EO szmsg fuel d data s HB HN Hd Hf). Qed.

(* the entry point *)
Corollary h_unpack_top_simulates : forall (E : env) (szmsg : nat -> Z) d data s,
  env_ok E = true -> LeafSafe.bytes data -> Mem.zlen data < 2147483648 -> (d < length E)%nat ->
  match unpack_top E d data, fst (h_unpack E (fun _ => false) szmsg (S (length data)) d data s) with
  | Ok m, Some hm => sim_msg m hm
  | Err _, None => True
  | _, _ => False
  end.
Proof. intros E szmsg d data s EO HB HN Hd. unfold unpack_top. apply h_unpack_simulates; try assumption. lia. Qed.

(* same decision: NULL from the one iff failure of the other; by C05 (unpack_never_ub) the failure is EFail *)
Corollary h_unpack_accepts_iff : forall (E : env) (szmsg : nat -> Z) d data s,
  env_ok E = true -> LeafSafe.bytes data -> Mem.zlen data < 2147483648 -> (d < length E)%nat ->
  (fst (h_unpack E (fun _ => false) szmsg (S (length data)) d data s) = None <-> unpack_top E d data = Err EFail) /\
  (forall hm, fst (h_unpack E (fun _ => false) szmsg (S (length data)) d data s) = Some hm ->
     exists m, unpack_top E d data = Ok m /\ sim_msg m hm /\ shape_msg E m = true /\ m_desc m = d).
Proof.
  intros E szmsg d data s EO HB HN Hd.
  pose proof (h_unpack_top_simulates E szmsg d data s EO HB HN Hd) as H.
  pose proof (unpack_top_safe E EO d data HB HN Hd) as HS.
  destruct (unpack_top E d data) as [m|e]; destruct (fst (h_unpack E (fun _ => false) szmsg (S (length data)) d data s)) as [hm|];
    cbn [okres] in HS; try contradiction.
  - split; [split; intros H0; discriminate H0|]. intros hm' Hh. inversion Hh; subst hm'. exists m. destruct HS. auto.
  - subst e. split; [split; reflexivity|]. intros hm' Hh. discriminate Hh.
Qed.

(* the state at the limit, on a one-field descriptor: max_members members stored (whatever they are), the 23 slabs full,
   one more two-byte member (field 1, varint 1) in the input.  The value-level scan_loop records it and ends normally --
   with max_members + 1 members, so that the test in unpack rejects; the allocation-level scan (and the C code: "too many
   fields") stops at the member.  Both models reject. *)
Example slab_limit_diverges :
  let md := {| md_fields := [ {| f_id := 1; f_label := LRequired; f_type := TInt32; f_quant := QNone; f_packed := false;
                                 f_oneof := false; f_sub := 0%nat; f_default := None |} ];
               md_ranges := [ {| start_value := 1; orig_index := 0 |}; {| start_value := 0; orig_index := 1 |} ];
               md_n_ranges := 1; md_n_oneofs := 0%nat; md_generic_init := true |} in
  forall ms : list smember, Mem.zlen ms = max_members ->
  let st := {| st_at := [8; 1]; st_last := Some 0%nat; st_last_idx := 0%nat; st_bitmap := [true];
               st_members := ms; st_slots := m_slots (init_msg 0 md); st_nunk := 0 |} in
  (exists st', scan_loop 3 md st = Ok st' /\ st_at st' = [] /\
               (max_members <? Mem.zlen (st_members st')) = true) /\
  slab_inv 22 (Z.shiftl 16 22) (length (st_members st)) /\
  fst (fst (fst (h_scan (fun _ => false) 3 md st 22 (Z.shiftl 16 22) [] (mkH 0 [])))) = false.
Proof.
  cbv zeta. intros ms Hms. split; [|split].
  - eexists. split; [vm_compute; reflexivity|]. split; [reflexivity|].
    cbn [st_members]. unfold Mem.zlen, max_members in *. cbn [length]. lia.
  - cbn [st_members]. unfold slab_inv, Mem.zlen, max_members in *. change (Z.shiftl 16 22) with 67108864.
    change (2 ^ Z.of_nat 22) with 4194304. lia.
  - vm_compute. reflexivity.
Qed.

(* such a state exists (not computed: 134217712 list cells) *)
Remark slab_limit_state_exists : exists ms : list smember, Mem.zlen ms = max_members.
Proof.
  exists (repeat {| sm_tag := 1; sm_wt := 0; sm_field := Some 0%nat; sm_len := 1; sm_pref := 0; sm_data := [1] |}
                 (Z.to_nat max_members)).
  unfold Mem.zlen. rewrite repeat_length. unfold max_members. lia.
Qed.

(* non-vacuity, on Examples.ex_env: required int32; a sub-message sent twice (merged: merge_messages / h_merge run);
   two members of one oneof (the first is cleared); a string; a repeated string; a packed array; an unknown field.
   Both models accept, and the two results are related, by evaluation and by the theorem. *)
Definition ex_sim_input : list Z :=
  [8; 1; 58; 2; 8; 1; 58; 4; 8; 2; 18; 0; 40; 3; 50; 1; 7; 18; 1; 65; 74; 1; 66; 26; 2; 1; 2; 192; 62; 5].

Example ex_sim_eval :
  match unpack_top ex_env 0 ex_sim_input,
        fst (h_unpack ex_env (fun _ => false) (fun _ => 100) (S (length ex_sim_input)) 0 ex_sim_input (mkH 0 [])) with
  | Ok m, Some hm => sim_msg m hm /\ length (m_unk m) = 1%nat
  | _, _ => False
  end.
Proof. vm_compute. repeat split; reflexivity. Qed.

Example ex_sim_by_theorem : forall s,
  match unpack_top ex_env 0 ex_sim_input,
        fst (h_unpack ex_env (fun _ => false) (fun _ => 100) (S (length ex_sim_input)) 0 ex_sim_input s) with
  | Ok m, Some hm => sim_msg m hm
  | Err _, None => True
  | _, _ => False
  end.
Proof.
  intros s. apply h_unpack_top_simulates.
  - exact ex_env_ok.
  - unfold LeafSafe.bytes, ex_sim_input. repeat constructor; lia.
  - vm_compute. reflexivity.
  - vm_compute. lia.
Qed.

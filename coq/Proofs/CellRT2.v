(* Round trip of one cell of any type: what required_field_pack writes is one
   well-formed wire record, and parse_required_member on that record gives the
   cell back. *)
From Coq Require Import ZArith List Bool Lia ZifyBool.
From PBC Require Import Base.CInt Base.Bits Base.Bits2 Gen.LeafC Spec.Wire
     Impl.Desc Impl.Mem Impl.Enc Impl.Pack Impl.WF Impl.Unpack Impl.Canon
     Proofs.LeafEnc Proofs.EncLemmas Proofs.LeafDec Proofs.SizePack Proofs.ScanRec Proofs.CellRT.
Import ListNotations.
Local Open Scope Z_scope.

Ltac Zify.zify_post_hook ::= Z.div_mod_to_equations.

Lemma lenpref_wf : forall n, 0 <= n <= 2147483647 ->
  let lp := e_uint32 (u32 n) in
  wfv lp /\ (length lp <= 5)%nat /\ (forall b, In b lp -> 0 <= b < 256) /\ varint_val lp = n.
Proof.
  intros n Hn lp. subst lp. rewrite (u32_small n) by lia. rewrite e_uint32_spec by lia.
  destruct (varint_wf n ltac:(lia)) as (W & V & L & B).
  split; [exact W|]. split; [|split; [exact B | exact V]].
  pose proof (uint32_size_spec n ltac:(lia)) as Hs.
  assert (uint32_size n <= 5).
  { unfold uint32_size. repeat match goal with |- context [?a <? ?b] => destruct (Z.ltb_spec a b) end; lia. }
  lia.
Qed.

Lemma takewhile_nz_id : forall s, forallb char_ok s = true -> takewhile_nz s = s.
Proof.
  induction s as [|c s IH]; intros H; [reflexivity|].
  cbn [forallb] in H. apply andb_true_iff in H. destruct H as [Hc Hs].
  unfold char_ok in Hc. unfold takewhile_nz in *. destruct (Z.eqb_spec c 0); [lia|]. rewrite IH by exact Hs. reflexivity.
Qed.

Lemma char_bytes : forall s, forallb char_ok s = true -> forall b, In b s -> 0 <= b < 256.
Proof. intros s H b Hb. rewrite forallb_forall in H. specialize (H b Hb). unfold char_ok in H. lia. Qed.
Lemma byte_bytes : forall s, forallb byte_ok s = true -> forall b, In b s -> 0 <= b < 256.
Proof. intros s H b Hb. rewrite forallb_forall in H. specialize (H b Hb). unfold byte_ok in H. lia. Qed.

Lemma lenrec_ok : forall body, zlen body <= 2147483647 -> (forall b, In b body -> 0 <= b < 256) ->
  payload_ok WT_LEN (e_uint32 (u32 (zlen body)) ++ body) (zlen (e_uint32 (u32 (zlen body)))).
Proof.
  intros body Hl HB. pose proof (zlen_nonneg _ body).
  destruct (lenpref_wf (zlen body) ltac:(lia)) as (W & L & B & V).
  split.
  - intros b Hb. apply in_app_or in Hb. destruct Hb; auto.
  - right. right. right. split; [reflexivity|]. exists (e_uint32 (u32 (zlen body))), body. auto 10.
Qed.

Section Cell.
Variable E : env.
Variable usub : nat -> list Z -> res msg.
Variable lim : Z.                       (* size limit for this nesting level *)
Hypothesis Hlim : lim <= 2147483647.

(* what is known about sub-messages (induction hypothesis of the message-level theorem) *)
Definition sub_rt (m : msg) : Prop :=
  canon_msg E m = true ->
  forall b, pack_msg E m = Ok b -> zlen b < lim ->
  usub (m_desc m) b = Ok m /\ (forall x, In x b -> 0 <= x < 256).

Definition cell_rt (f : field) (v : sval) : Prop :=
  forall bytes, pk_required (pack_msg E) f v = Ok bytes -> zlen bytes <= lim ->
  exists payload pref,
    bytes = e_tag (f_id f) (wire_type_of (f_type f)) ++ payload /\
    payload_ok (wire_type_of (f_type f)) payload pref /\
    forall i old mc, (mc = true -> f_type f = TMessage -> as_msg old = Ok None) ->
      parse_required E usub f (new_member (f_id f) (wire_type_of (f_type f)) (Some i) payload pref) old mc = Ok v.

Lemma cell_rt_holds : forall f v,
  canon_cell (canon_msg E) f v = true ->
  (forall m, v = VMsg (Some m) -> sub_rt m) ->
  cell_rt f v.
Proof.
  intros f v C IH bytes Hp Hlen.
  unfold canon_cell in C.
  destruct (is_scalar (f_type f)) eqn:Es.
  - (* scalars *)
    assert (exists w, v = VWord w /\ canon_word (f_type f) w = true) as (w & -> & Cw).
    { destruct (f_type f); try discriminate Es; destruct v; try discriminate C; eauto. }
    rewrite pk_required_scalar in Hp by exact Es. cbn [as_word bind] in Hp.
    destruct (e_scalar (f_type f) w) as [b|e] eqn:Eb; [|discriminate Hp]. cbn [bind] in Hp. inversion Hp; subst bytes.
    destruct (scalar_payload_ok _ w b Es Eb) as (HB & Hshape).
    exists b, 0. split; [reflexivity|]. split.
    + split; [exact HB|]. destruct Hshape as [(Hw & W & L) | [(Hw & L) | (Hw & L)]]; rewrite Hw; auto 10.
    + intros i old mc _. unfold parse_required, new_member. cbn [sm_wt sm_len sm_data sm_pref].
      pose proof (dec_enc_scalar _ w b Es Cw Eb) as Hd.
      destruct (f_type f); try discriminate Es; rewrite Hd; reflexivity.
  - destruct (f_type f) eqn:Et; try discriminate Es.
    + (* string *)
      destruct v as [| [| |s] | |]; try discriminate C.
      unfold pk_required in Hp. rewrite Et in Hp. cbn [as_str bind str_bytes] in Hp. inversion Hp; subst bytes.
      assert (Hs : zlen s <= 2147483647).
      { rewrite !zlen_app in Hlen. pose proof (zlen_nonneg _ (e_tag (f_id f) WT_LEN)).
        pose proof (zlen_nonneg _ (e_uint32 (u32 (zlen s)))). lia. }
      exists (e_uint32 (u32 (zlen s)) ++ s), (zlen (e_uint32 (u32 (zlen s)))).
      split; [reflexivity|]. split; [apply lenrec_ok; [exact Hs | apply char_bytes; exact C]|].
      intros i old mc _. unfold parse_required, new_member. rewrite Et. cbn [sm_wt sm_len sm_data sm_pref wire_type_of].
      change (WT_LEN =? WT_LEN) with true. cbn [negb].
      assert (Esk : skipn (Z.to_nat (zlen (e_uint32 (u32 (zlen s))))) (e_uint32 (u32 (zlen s)) ++ s) = s)
        by (unfold zlen; rewrite Nat2Z.id; apply skipn_app_exact).
      rewrite Esk. rewrite takewhile_nz_id by exact C. reflexivity.
    + (* bytes *)
      destruct v as [| | len [| |s] |]; try discriminate C.
      * apply Z.eqb_eq in C. subst len.
        unfold pk_required in Hp. rewrite Et in Hp. cbn [as_bytes bind fst snd] in Hp. unfold data_bytes in Hp.
        cbn [Z.eqb bind] in Hp. inversion Hp; subst bytes.
        exists (e_uint32 (u32 0) ++ []), (zlen (e_uint32 (u32 0))).
        split; [reflexivity|]. split; [apply (lenrec_ok []); [cbn; lia | intros b []]|].
        intros i old mc _. unfold parse_required, new_member. rewrite Et. cbn [sm_wt sm_len sm_data sm_pref wire_type_of].
        change (WT_LEN =? WT_LEN) with true. cbn [negb]. rewrite app_nil_r.
        replace (zlen (e_uint32 (u32 0)) >? zlen (e_uint32 (u32 0))) with false by lia. reflexivity.
      * rewrite !andb_true_iff in C. destruct C as [[Hpos Hl] HB]. apply Z.eqb_eq in Hl. subst len.
        unfold pk_required in Hp. rewrite Et in Hp. cbn [as_bytes bind fst snd] in Hp. unfold data_bytes in Hp.
        replace (zlen s =? 0) with false in Hp by lia. replace (zlen s <=? zlen s) with true in Hp by lia.
        assert (Efa : firstn (Z.to_nat (zlen s)) s = s) by (unfold zlen; rewrite Nat2Z.id; apply firstn_all).
        rewrite Efa in Hp. cbn [bind] in Hp. inversion Hp; subst bytes.
        assert (Hs : zlen s <= 2147483647).
        { rewrite !zlen_app in Hlen. pose proof (zlen_nonneg _ (e_tag (f_id f) WT_LEN)).
          pose proof (zlen_nonneg _ (e_uint32 (u32 (zlen s)))). lia. }
        exists (e_uint32 (u32 (zlen s)) ++ s), (zlen (e_uint32 (u32 (zlen s)))).
        split; [reflexivity|]. split; [apply lenrec_ok; [exact Hs | apply byte_bytes; exact HB]|].
        intros i old mc _. unfold parse_required, new_member. rewrite Et. cbn [sm_wt sm_len sm_data sm_pref wire_type_of].
        change (WT_LEN =? WT_LEN) with true. cbn [negb].
        rewrite zlen_app.
        replace (zlen (e_uint32 (u32 (zlen s))) + zlen s >? zlen (e_uint32 (u32 (zlen s)))) with true by lia.
        assert (Esk : skipn (Z.to_nat (zlen (e_uint32 (u32 (zlen s))))) (e_uint32 (u32 (zlen s)) ++ s) = s)
          by (unfold zlen; rewrite Nat2Z.id; apply skipn_app_exact).
        rewrite Esk. f_equal. f_equal. lia.
    + (* message *)
      destruct v as [| | | [m|]]; try discriminate C.
      apply andb_true_iff in C. destruct C as [Cm Cd]. apply Nat.eqb_eq in Cd.
      unfold pk_required in Hp. rewrite Et in Hp.
      destruct (pack_msg E m) as [b|e] eqn:Eb; cbn [bind] in Hp; [|discriminate Hp]. inversion Hp; subst bytes.
      assert (Hs : zlen b <= 2147483647 /\ zlen b < lim).
      { rewrite !zlen_app in Hlen. pose proof (zlen_nonneg _ (e_tag (f_id f) WT_LEN)).
        assert (1 <= zlen (e_uint32 (u32 (zlen b)))).
        { rewrite e_uint32_spec by apply u32_range. pose proof (varint_len_bounds (u32 (zlen b))). lia. }
        lia. }
      destruct Hs as [Hs Hs2].
      destruct (IH m eq_refl Cm b Eb Hs2) as [Hu HB].
      exists (e_uint32 (u32 (zlen b)) ++ b), (zlen (e_uint32 (u32 (zlen b)))).
      split; [reflexivity|]. split; [apply lenrec_ok; assumption|].
      intros i old mc Hold. unfold parse_required, new_member. rewrite Et. cbn [sm_wt sm_len sm_data sm_pref wire_type_of].
      change (WT_LEN =? WT_LEN) with true. cbn [negb].
      assert (Esk : skipn (Z.to_nat (zlen (e_uint32 (u32 (zlen b))))) (e_uint32 (u32 (zlen b)) ++ b) = b)
        by (unfold zlen; rewrite Nat2Z.id; apply skipn_app_exact).
      rewrite Esk. rewrite <- Cd, Hu. cbn [bind].
      destruct mc; [rewrite (Hold eq_refl eq_refl); reflexivity | reflexivity].
Qed.

End Cell.
